(* TreeStateInv.v -- the cost invariant of the mutable tree, stated from the network alone
   (leaf SETS, no tree shape), and its preservation by the primitives of Model/TreeState.v.
   Part A: dictionary lemmas.  Part B: the specification of legs / involved at set level.
   Part C: the invariant InvC.  Part D: the cached getters.  Part E: structural primitives. *)
From Coq Require Import Lia ZifyBool Permutation.
From Ctg Require Import Base Net BaseFacts NetFacts TreeState TreeStateFacts.

(* ======================================================================== *)
(* Part A                                                                    *)
Lemma node_eqb_eq a b : node_eqb a b = true <-> a = b.
Proof.
  unfold node_eqb. revert b. induction a as [|x a IH]; intros [|y b]; cbn; try (split; congruence).
  rewrite andb_true_iff, Nat.eqb_eq, IH. split; [intros [-> ->]; reflexivity|intros [= -> ->]; auto].
Qed.
Lemma node_eqb_refl a : node_eqb a a = true.
Proof. apply node_eqb_eq. reflexivity. Qed.
Lemma node_eqb_neq a b : a <> b -> node_eqb a b = false.
Proof. intros H. destruct (node_eqb a b) eqn:E; [apply node_eqb_eq in E; contradiction|reflexivity]. Qed.
Lemma node_eq_dec (a b : node) : {a = b} + {a <> b}.
Proof. apply (list_eq_dec Nat.eq_dec). Qed.

Section Dict.
Context {V : Type}.
Implicit Types d : list (node * V).
Definition nkeys d : list node := map fst d.

Lemma nget_nset_same k v d : nget k (nset k v d) = Some v.
Proof.
  induction d as [|[k' w] d IH]; cbn; [rewrite node_eqb_refl; reflexivity|].
  destruct (node_eqb k' k) eqn:E; cbn; rewrite E; [reflexivity|exact IH].
Qed.
Lemma nget_nset_other k k' v d : k' <> k -> nget k' (nset k v d) = nget k' d.
Proof.
  intros Hn. induction d as [|[k0 w] d IH]; cbn.
  - rewrite node_eqb_neq by congruence. reflexivity.
  - destruct (node_eqb k0 k) eqn:E; cbn.
    + apply node_eqb_eq in E. subst k0. rewrite node_eqb_neq by congruence. reflexivity.
    + destruct (node_eqb k0 k'); [reflexivity|exact IH].
Qed.
Lemma nkeys_nset_in k v d : nget k d <> None -> nkeys (nset k v d) = nkeys d.
Proof.
  unfold nkeys. induction d as [|[k0 w] d IH]; cbn; [congruence|].
  destruct (node_eqb k0 k) eqn:E; cbn; [reflexivity|]. intros H. f_equal. apply IH, H.
Qed.
Lemma nkeys_nset_notin k v d : nget k d = None -> nkeys (nset k v d) = nkeys d ++ [k].
Proof.
  unfold nkeys. induction d as [|[k0 w] d IH]; cbn; [reflexivity|].
  destruct (node_eqb k0 k) eqn:E; cbn; [congruence|]. intros H. f_equal. apply IH, H.
Qed.
Lemma nget_in_keys k d : nget k d <> None <-> In k (nkeys d).
Proof.
  unfold nkeys. induction d as [|[k0 w] d IH]; cbn; [split; [intros H; exact (H eq_refl)|tauto]|].
  destruct (node_eqb k0 k) eqn:E.
  - apply node_eqb_eq in E. split; [auto|congruence].
  - rewrite IH. split; [auto|]. intros [H|H]; [subst; rewrite node_eqb_refl in E; discriminate|exact H].
Qed.
Lemma nget_none_notin k d : nget k d = None <-> ~ In k (nkeys d).
Proof.
  rewrite <- nget_in_keys. destruct (nget k d) as [v|]; split; intros H.
  - discriminate.
  - exfalso. apply H. discriminate.
  - intros H'. apply H'. reflexivity.
  - reflexivity.
Qed.
Lemma nget_In k v d : nget k d = Some v -> In (k, v) d.
Proof.
  induction d as [|[k0 w] d IH]; cbn; [congruence|].
  destruct (node_eqb k0 k) eqn:E; [apply node_eqb_eq in E; intros [= ->]; subst; auto|auto].
Qed.
Lemma In_nget k v d : NoDup (nkeys d) -> In (k, v) d -> nget k d = Some v.
Proof.
  unfold nkeys. induction d as [|[k0 w] d IH]; cbn; [tauto|]. intros ND [E|H].
  - inversion E; subst. rewrite node_eqb_refl. reflexivity.
  - inversion ND as [|? ? Hn ND']; subst. destruct (node_eqb k0 k) eqn:E; [|apply IH; assumption].
    apply node_eqb_eq in E. subst. exfalso. apply Hn. apply (in_map fst) in H. exact H.
Qed.
Lemma nget_ndel_same k d : NoDup (nkeys d) -> nget k (ndel k d) = None.
Proof.
  unfold nkeys. induction d as [|[k0 w] d IH]; cbn; [reflexivity|]. intros ND.
  inversion ND as [|? ? Hn ND']; subst. destruct (node_eqb k0 k) eqn:E; cbn.
  - apply node_eqb_eq in E. subst. apply nget_none_notin, Hn.
  - rewrite E. apply IH, ND'.
Qed.
Lemma nget_ndel_other k k' d : k' <> k -> nget k' (ndel k d) = nget k' d.
Proof.
  intros Hn. induction d as [|[k0 w] d IH]; cbn; [reflexivity|].
  destruct (node_eqb k0 k) eqn:E; cbn.
  - apply node_eqb_eq in E. subst. rewrite node_eqb_neq by congruence. reflexivity.
  - destruct (node_eqb k0 k'); [reflexivity|exact IH].
Qed.
Lemma nkeys_ndel k d : nkeys (ndel k d) = remove node_eq_dec k (nkeys d) \/ True.
Proof. right. exact I. Qed.
Lemma in_nkeys_ndel k k' d : NoDup (nkeys d) -> (In k' (nkeys (ndel k d)) <-> k' <> k /\ In k' (nkeys d)).
Proof.
  intros ND. rewrite <- !nget_in_keys. destruct (node_eq_dec k' k) as [->|Hn].
  - rewrite nget_ndel_same by exact ND. split; [congruence|tauto].
  - rewrite nget_ndel_other by exact Hn. tauto.
Qed.
Lemma NoDup_nkeys_ndel k d : NoDup (nkeys d) -> NoDup (nkeys (ndel k d)).
Proof.
  unfold nkeys. induction d as [|[k0 w] d IH]; cbn; [auto|]. intros ND.
  inversion ND as [|? ? Hn ND']; subst. destruct (node_eqb k0 k) eqn:E; cbn; [exact ND'|].
  constructor; [|apply IH, ND']. intros H. apply (in_nkeys_ndel k k0 d ND') in H. apply Hn, H.
Qed.
Lemma NoDup_nkeys_nset k v d : NoDup (nkeys d) -> NoDup (nkeys (nset k v d)).
Proof.
  intros ND. destruct (nget k d) eqn:E.
  - rewrite nkeys_nset_in by congruence. exact ND.
  - rewrite nkeys_nset_notin by exact E. apply nget_none_notin in E.
    clear -ND E. induction (nkeys d) as [|a l IH]; cbn; [constructor; [tauto|constructor]|].
    inversion ND as [|? ? Ha ND']; subst. constructor.
    + rewrite in_app_iff. cbn. intros [H|[H|[]]]; [contradiction|subst; apply E; left; reflexivity].
    + apply IH; [exact ND'|]. intros H. apply E. right. exact H.
Qed.
End Dict.

(* ======================================================================== *)
(* Part B : the set-level specification                                      *)
Section Spec.
Variable n : net.
Notation N := (NN n).
Notation appear := (appear n).

Lemma cnt_perm sl S1 S2 j : Permutation S1 S2 -> cnt n sl S1 j = cnt n sl S2 j.
Proof. induction 1; cbn; lia. Qed.
Lemma spec_count_perm sl S1 S2 j : Permutation S1 S2 -> spec_count n sl S1 j = spec_count n sl S2 j.
Proof. intros H. unfold spec_count. rewrite (cnt_perm sl S1 S2 j H). reflexivity. Qed.

(* legs of a NON-root node made of the leaves nd *)
Definition slegs_ok (sl : list slinfo) (nd : node) (lg : legs) : Prop :=
  wfl lg /\ forall j, lget0 j lg = spec_count n sl nd j.
(* legs of any node: the root carries the declared output *)
Definition legs_ok (sl : list slinfo) (nd : node) (lg : legs) : Prop :=
  if Nat.eqb (length nd) N
  then NoDup (lkeys lg) /\ forall j, lget j lg = lget j (root_legs n sl)
  else slegs_ok sl nd lg.
(* involved indices of a node whose children are l and r *)
Definition inv_ok (sl : list slinfo) (l r : node) (inv : legs) : Prop :=
  wfl inv /\ forall j, lget0 j inv = spec_count n sl l j + spec_count n sl r j.

Lemma same_keys_size sz a b : NoDup (lkeys a) -> NoDup (lkeys b) ->
  (forall j, In j (lkeys a) <-> In j (lkeys b)) -> size_of sz (lkeys a) = size_of sz (lkeys b).
Proof. intros. apply size_of_same_set; assumption. Qed.
Lemma wfl_keys_same a b : wfl a -> wfl b -> (forall j, lget0 j a = lget0 j b) ->
  forall j, In j (lkeys a) <-> In j (lkeys b).
Proof. intros Wa Wb H j. rewrite (wfl_key_pos j a Wa), (wfl_key_pos j b Wb), H. tauto. Qed.
Lemma legs_ok_size_unique sl sz nd a b : legs_ok sl nd a -> legs_ok sl nd b ->
  size_of sz (lkeys a) = size_of sz (lkeys b).
Proof.
  unfold legs_ok. destruct (Nat.eqb (length nd) N).
  - intros [Na Ha] [Nb Hb]. apply same_keys_size; try assumption. intros j.
    rewrite <- !lget_in_keys, Ha, Hb. tauto.
  - intros [Wa Ha] [Wb Hb]. apply same_keys_size; [apply Wa|apply Wb|].
    apply wfl_keys_same; try assumption. intros j. rewrite Ha, Hb. reflexivity.
Qed.
Lemma inv_ok_size_unique sl sz l r a b : inv_ok sl l r a -> inv_ok sl l r b ->
  size_of sz (lkeys a) = size_of sz (lkeys b).
Proof.
  intros [Wa Ha] [Wb Hb]. apply same_keys_size; [apply Wa|apply Wb|].
  apply wfl_keys_same; try assumption. intros j. rewrite Ha, Hb. reflexivity.
Qed.

(* the tree rule at set level: involved = union of the children's legs; legs = those whose
   count stays below the total number of appearances *)
Lemma union2_inv_ok sl l r A B : slegs_ok sl l A -> slegs_ok sl r B -> inv_ok sl l r (legs_union2 A B).
Proof.
  intros [Wl Gl] [Wr Gr]. split; [apply wfl_legs_union2; [exact Wl|apply Wr]|].
  intros j. rewrite legs_union2_get by apply Wr. rewrite Gl, Gr. reflexivity.
Qed.
Lemma filter_inv_ok sl l r inv : inrange n (l ++ r) -> inv_ok sl l r inv ->
  slegs_ok sl (l ++ r) (filter (fun kv => Nat.ltb (snd kv) (appear (fst kv))) inv).
Proof.
  intros HR [Wu G]. split; [apply wfl_filter, Wu|].
  intros j. rewrite lget0_filter by apply Wu. specialize (G j).
  pose proof (cnt_le_appear n sl _ j HR) as Hle. rewrite cnt_app in Hle.
  unfold spec_count in *. rewrite cnt_app. unfold lget0 in G.
  destruct (Nat.ltb_spec (cnt n sl l j) (appear j)) as [Hl|Hl];
  destruct (Nat.ltb_spec (cnt n sl r j) (appear j)) as [Hr|Hr];
  destruct (lget j inv) as [v|] eqn:E; cbn [fst snd];
  repeat match goal with |- context [?a <? ?b] => destruct (Nat.ltb_spec a b) end; lia.
Qed.
Lemma slegs_ok_perm sl a b lg : Permutation a b -> slegs_ok sl a lg -> slegs_ok sl b lg.
Proof. intros HP [W G]. split; [exact W|]. intros j. rewrite G. apply spec_count_perm, HP. Qed.

(* nunion of disjoint duplicate-free nodes is a permutation of their concatenation *)
Lemma ins_sorted_perm x : forall l, ~ In x l -> Permutation (ins_sorted x l) (x :: l).
Proof.
  induction l as [|y l IH]; cbn [ins_sorted]; intros Hn; [reflexivity|].
  destruct (Nat.ltb x y); [reflexivity|]. destruct (Nat.eqb_spec x y) as [->|Hxy]; [exfalso; apply Hn; left; reflexivity|].
  rewrite IH by (intros H; apply Hn; right; exact H). apply perm_swap.
Qed.
Lemma in_ins_sorted x y : forall l, In y (ins_sorted x l) <-> y = x \/ In y l.
Proof.
  induction l as [|z l IH]; cbn [ins_sorted In]; [intuition|].
  destruct (Nat.ltb x z); cbn [In]; [intuition|]. destruct (Nat.eqb_spec x z) as [->|Hxz]; cbn [In]; [intuition|].
  rewrite IH. intuition.
Qed.
Lemma nunion_perm b : forall a, NoDup b -> (forall x, In x b -> ~ In x a) -> Permutation (nunion a b) (a ++ b).
Proof.
  unfold nunion. induction b as [|x b IH]; intros a ND Hd; cbn [fold_left].
  - rewrite app_nil_r. reflexivity.
  - inversion ND as [|? ? Hx ND']; subst. rewrite IH.
    + rewrite (ins_sorted_perm x a) by (apply Hd; left; reflexivity).
      cbn [app]. apply Permutation_middle.
    + exact ND'.
    + intros y Hy Hin. apply in_ins_sorted in Hin. destruct Hin as [->|Hin]; [contradiction|].
      apply (Hd y); [right; exact Hy|exact Hin].
Qed.

(* the fallback of get_legs: union of the leaves' legs *)
Lemma sum_spec_leaves sl j : forall nd, inrange n nd ->
  let S := fold_right (fun i acc => spec_count n sl [i] j + acc) 0 nd in
  S = cnt n sl nd j \/ (S = 0 /\ cnt n sl nd j = appear j).
Proof.
  induction nd as [|a nd IH]; intros HR; cbn [fold_right cnt]; [left; reflexivity|].
  assert (HR' : inrange n nd).
  { destruct HR as [ND H]. inversion ND; subst. split; [assumption|]. intros k Hk. apply H. right. exact Hk. }
  pose proof (cnt_le_appear n sl _ j HR) as Hle. cbn [cnt] in Hle.
  specialize (IH HR'). cbn zeta in IH.
  assert (Ea : spec_count n sl [a] j = if Nat.ltb (occ (term_sl n sl a) j) (appear j) then occ (term_sl n sl a) j else 0).
  { unfold spec_count. cbn [cnt]. rewrite Nat.add_0_r. reflexivity. }
  rewrite Ea. destruct (Nat.ltb_spec (occ (term_sl n sl a) j) (appear j)); lia.
Qed.
End Spec.

(* ======================================================================== *)
(* Part C : the invariant                                                    *)
Section Inv.
Variable n : net.
Notation N := (NN n).
Hypothesis HN : 2 <= N.
Hypothesis Hout : NoDup (output n).

Definition good_node (nd : node) : Prop := inrange n nd /\ nd <> [].

Definition children_ok (ch : list (node * (node * node))) : Prop :=
  NoDup (nkeys ch) /\
  forall p l r, nget p ch = Some (l, r) ->
    good_node l /\ good_node r /\ inrange n (l ++ r) /\ Permutation p (l ++ r).

Definition inv_spec ch sl (nd : node) (inv : legs) : Prop :=
  (length nd = 1 /\ inv = []) \/ (exists l r, nget nd ch = Some (l, r) /\ inv_ok n sl l r inv).
Definition size_spec sl (nd : node) (z : Z) : Prop :=
  forall lg, legs_ok n sl nd lg -> z = size_of (szd n) (lkeys lg).
Definition flops_spec ch sl (nd : node) (z : Z) : Prop :=
  (length nd = 1 /\ z = 0%Z) \/
  (exists l r, nget nd ch = Some (l, r) /\ forall inv, inv_ok n sl l r inv -> z = size_of (szd n) (lkeys inv)).

Definition node_inv ch sl (nd : node) (i : ninfo) : Prop :=
  (forall lg, i_legs i = Some lg -> legs_ok n sl nd lg) /\
  (forall inv, i_involved i = Some inv -> inv_spec ch sl nd inv) /\
  (forall z, i_size i = Some z -> size_spec sl nd z) /\
  (forall z, i_flops i = Some z -> flops_spec ch sl nd z).

Definition cflops (s : tstate) (p : node) : Z := match rd i_flops s p with Some z => z | None => 0%Z end.
Definition csize (s : tstate) (p : node) : Z := match rd i_size s p with Some z => z | None => 0%Z end.

Definition totals_inv (s : tstate) : Prop :=
  (trk_flops s = true ->
     flops_ s = zsum (map (cflops s) (nkeys (children s))) /\
     forall p, In p (nkeys (children s)) -> rd i_flops s p <> None) /\
  (trk_write s = true ->
     write_ s = zsum (map (csize s) (nkeys (children s))) /\
     forall p, In p (nkeys (children s)) -> rd i_size s p <> None) /\
  (trk_size s = true ->
     mc_ok (sizes_mc s) /\
     (forall z, cget0 z (sizes_ s) = count_occ Z.eq_dec (map (csize s) (nkeys (children s))) z) /\
     forall p, In p (nkeys (children s)) -> rd i_size s p <> None).

(* structure and per-node caches *)
Definition InvS (s : tstate) : Prop :=
  children_ok (children s) /\
  NoDup (nkeys (info s)) /\
  (forall nd i, nget nd (info s) = Some i -> good_node nd /\ node_inv (children s) (sliced s) nd i) /\
  mult s = multiplicity n (sliced s).
(* ... and the running totals *)
Definition InvC (s : tstate) : Prop := InvS s /\ totals_inv s.

(* what a cache fill leaves alone *)
Definition Ext (s s' : tstate) : Prop :=
  children s' = children s /\ sliced s' = sliced s /\ mult s' = mult s /\
  trk_flops s' = trk_flops s /\ trk_write s' = trk_write s /\ trk_size s' = trk_size s /\
  flops_ s' = flops_ s /\ write_ s' = write_ s /\ sizes_ s' = sizes_ s /\ sizes_max s' = sizes_max s /\
  cores s' = cores s /\
  nkeys (info s') = nkeys (info s) /\
  (forall nd z, rd i_size s nd = Some z -> rd i_size s' nd = Some z) /\
  (forall nd z, rd i_flops s nd = Some z -> rd i_flops s' nd = Some z).

Lemma Ext_refl s : Ext s s.
Proof. unfold Ext. repeat split; auto. Qed.
Lemma Ext_trans s1 s2 s3 : Ext s1 s2 -> Ext s2 s3 -> Ext s1 s3.
Proof.
  unfold Ext. intros (A1&A2&A3&A4&A5&A6&A7&A8&A9&A10&A11&A12&A13&A14) (B1&B2&B3&B4&B5&B6&B7&B8&B9&B10&B11&B12&B13&B14).
  repeat split; try congruence; auto.
Qed.

(* states that differ only in fields the invariant does not read *)
Definition same_cost_fields (s s' : tstate) : Prop :=
  children s' = children s /\ info s' = info s /\ sliced s' = sliced s /\ mult s' = mult s /\
  trk_flops s' = trk_flops s /\ trk_write s' = trk_write s /\ trk_size s' = trk_size s /\
  flops_ s' = flops_ s /\ write_ s' = write_ s /\ sizes_ s' = sizes_ s /\ sizes_max s' = sizes_max s.
Lemma rd_same {A} (fld : ninfo -> option A) s s' nd : info s' = info s -> rd fld s' nd = rd fld s nd.
Proof. intros E. unfold rd. rewrite E. reflexivity. Qed.
Lemma InvS_same s s' : same_cost_fields s s' -> InvS s -> InvS s'.
Proof.
  intros (E1&E2&E3&E4&E5&E6&E7&E8&E9&E10&E11) (H1&H2&H3&H5).
  unfold InvS in *. rewrite E1, E2, E3, E4. exact (conj H1 (conj H2 (conj H3 H5))).
Qed.
Lemma totals_same s s' : same_cost_fields s s' -> totals_inv s -> totals_inv s'.
Proof.
  intros (E1&E2&E3&E4&E5&E6&E7&E8&E9&E10&E11) H4.
  unfold totals_inv, sizes_mc, cflops, csize, rd in *.
  rewrite E1, E2, E5, E6, E7, E8, E9, E10, E11. exact H4.
Qed.
Lemma InvC_same s s' : same_cost_fields s s' -> InvC s -> InvC s'.
Proof. intros E [A B]. split; [eapply InvS_same|eapply totals_same]; eassumption. Qed.
Lemma Ext_same s s' : same_cost_fields s s' -> cores s' = cores s -> Ext s s'.
Proof.
  intros (E1&E2&E3&E4&E5&E6&E7&E8&E9&E10&E11) Ec. unfold Ext, nkeys, rd. rewrite E2.
  repeat split; auto.
Qed.
Lemma same_set_err s : same_cost_fields s (set_err s).
Proof. unfold same_cost_fields. repeat split; reflexivity. Qed.
Lemma same_set_preproc p s : same_cost_fields s (set_preproc p s).
Proof. unfold same_cost_fields. repeat split; reflexivity. Qed.

(* monotone update of one node's cache record *)
Definition mono (i i' : ninfo) : Prop :=
  (forall z, i_size i = Some z -> i_size i' = Some z) /\ (forall z, i_flops i = Some z -> i_flops i' = Some z).

Lemma rd_upd_same {A} (fld : ninfo -> option A) nd f s i :
  nget nd (info s) = Some i -> rd fld (upd_info nd f s) nd = fld (f i).
Proof. intros E. unfold upd_info, rd. rewrite E. cbn. rewrite nget_nset_same. reflexivity. Qed.
Lemma rd_upd_other {A} (fld : ninfo -> option A) nd nd' f s :
  nd' <> nd -> rd fld (upd_info nd f s) nd' = rd fld s nd'.
Proof.
  intros Hn. unfold upd_info, rd. destruct (nget nd (info s)); cbn; [|reflexivity].
  rewrite nget_nset_other by exact Hn. reflexivity.
Qed.

Lemma InvS_upd nd f s : InvS s ->
  (forall i, nget nd (info s) = Some i -> node_inv (children s) (sliced s) nd (f i)) ->
  InvS (upd_info nd f s).
Proof.
  intros HI Hf. destruct (nget nd (info s)) as [i|] eqn:E.
  2:{ unfold upd_info. rewrite E. apply (InvS_same s), HI. apply same_set_err. }
  destruct HI as (H1&H2&H3&H5). unfold InvS, upd_info. rewrite E. cbn [set_info children info sliced mult].
  split; [exact H1|]. split; [rewrite nkeys_nset_in by congruence; exact H2|]. split; [|exact H5].
  intros nd' i' Hg. destruct (node_eq_dec nd' nd) as [->|Hn].
  - rewrite nget_nset_same in Hg. injection Hg as <-. split; [apply (H3 nd i E)|apply (Hf i eq_refl)].
  - rewrite nget_nset_other in Hg by exact Hn. apply H3, Hg.
Qed.
Lemma Ext_upd nd f s : (forall i, nget nd (info s) = Some i -> mono i (f i)) -> Ext s (upd_info nd f s).
Proof.
  intros Hf. destruct (nget nd (info s)) as [i|] eqn:E.
  2:{ unfold upd_info. rewrite E. apply Ext_same; [apply same_set_err|reflexivity]. }
  destruct (Hf i eq_refl) as [Ms Mf].
  unfold Ext. unfold upd_info at 1 2 3 4 5 6 7 8 9 10 11 12. rewrite E. cbn.
  repeat split; auto.
  - apply nkeys_nset_in. congruence.
  - intros p z Hz. destruct (node_eq_dec p nd) as [->|Hn].
    + rewrite (rd_upd_same i_size nd f s i E). apply Ms. unfold rd in Hz. rewrite E in Hz. exact Hz.
    + rewrite rd_upd_other by exact Hn. exact Hz.
  - intros p z Hz. destruct (node_eq_dec p nd) as [->|Hn].
    + rewrite (rd_upd_same i_flops nd f s i E). apply Mf. unfold rd in Hz. rewrite E in Hz. exact Hz.
    + rewrite rd_upd_other by exact Hn. exact Hz.
Qed.
Lemma InvC_upd nd f s : InvS s ->
  (forall i, nget nd (info s) = Some i -> node_inv (children s) (sliced s) nd (f i) /\ mono i (f i)) ->
  InvS (upd_info nd f s) /\ Ext s (upd_info nd f s).
Proof.
  intros HI Hf. split; [apply InvS_upd; [exact HI|intros i Hi; apply (Hf i Hi)]|apply Ext_upd; intros i Hi; apply (Hf i Hi)].
Qed.
(* cache fills keep the running totals right *)
Lemma totals_Ext s s' : Ext s s' -> totals_inv s -> totals_inv s'.
Proof.
  intros (Ech&_&_&E4&E5&E6&E7&E8&E9&E10&_&_&Hsz&Hfl) (T1&T2&T3).
  assert (Efl : forall p, rd i_flops s p <> None -> cflops s' p = cflops s p /\ rd i_flops s' p <> None).
  { intros p Hp. unfold cflops. destruct (rd i_flops s p) as [z|] eqn:Ez; [|congruence]. rewrite (Hfl p z Ez). split; [reflexivity|discriminate]. }
  assert (Esz : forall p, rd i_size s p <> None -> csize s' p = csize s p /\ rd i_size s' p <> None).
  { intros p Hp. unfold csize. destruct (rd i_size s p) as [z|] eqn:Ez; [|congruence]. rewrite (Hsz p z Ez). split; [reflexivity|discriminate]. }
  unfold totals_inv, sizes_mc. rewrite Ech, E4, E5, E6, E7, E8, E9, E10. split; [|split].
  - intros Ht. destruct (T1 Ht) as [Ta Tb]. split; [|intros p Hp; apply Efl, Tb, Hp].
    rewrite Ta. f_equal. apply map_ext_in. intros p Hp. symmetry. apply Efl, Tb, Hp.
  - intros Ht. destruct (T2 Ht) as [Ta Tb]. split; [|intros p Hp; apply Esz, Tb, Hp].
    rewrite Ta. f_equal. apply map_ext_in. intros p Hp. symmetry. apply Esz, Tb, Hp.
  - intros Ht. destruct (T3 Ht) as (Ta & Tb & Tc). split; [exact Ta|]. split; [|intros p Hp; apply Esz, Tc, Hp].
    intros z. rewrite Tb. f_equal. apply map_ext_in. intros p Hp. symmetry. apply Esz, Tc, Hp.
Qed.

(* ======================================================================== *)
(* Part D : the cached getters                                               *)
Lemma good_len nd : good_node nd -> 1 <= length nd <= N.
Proof.
  intros [[ND Hb] Hne]. split; [destruct nd; [congruence|cbn; lia]|].
  rewrite <- (seq_length N 0). apply NoDup_incl_length; [exact ND|].
  intros k Hk. apply in_seq. specialize (Hb k Hk). lia.
Qed.
Lemma good_leaf k : good_node [k] -> k < N.
Proof. intros [[_ Hb] _]. apply Hb. left. reflexivity. Qed.
Lemma good_single nd k : good_node nd -> In k nd -> good_node [k].
Proof.
  intros [[_ Hb] _] Hk. split; [|discriminate]. split; [repeat constructor; cbn; tauto|].
  intros k' [<-|[]]. apply Hb, Hk.
Qed.
Lemma len1 (nd : node) : length nd = 1 -> nd = [hd 0 nd].
Proof. destruct nd as [|a [|b l]]; cbn; intros H; try discriminate. reflexivity. Qed.

Lemma legs_ok_root sl nd : length nd = N -> legs_ok n sl nd (root_legs n sl).
Proof.
  intros E. unfold legs_ok. rewrite E, Nat.eqb_refl. split; [|reflexivity].
  unfold root_legs, lkeys. rewrite map_map. cbn [fst]. rewrite map_id. apply NoDup_filter, Hout.
Qed.
Lemma legs_ok_nonroot sl nd lg : length nd <> N -> (legs_ok n sl nd lg <-> slegs_ok n sl nd lg).
Proof. intros H. unfold legs_ok. destruct (Nat.eqb_spec (length nd) N); [contradiction|tauto]. Qed.
Lemma legs_ok_leaf sl k : k < N -> legs_ok n sl [k] (leaf_legs n sl k).
Proof.
  intros Hk. apply legs_ok_nonroot; [cbn; lia|]. split; [apply wfl_leaf_legs|].
  intros j. apply leaf_legs_get, Hk.
Qed.

Lemma node_inv_w_legs ch sl nd i v : node_inv ch sl nd i -> legs_ok n sl nd v ->
  node_inv ch sl nd (w_legs (Some v) i) /\ mono i (w_legs (Some v) i).
Proof.
  intros (A&B&C&D) Hv. split; [|split; cbn; auto].
  unfold node_inv. cbn. repeat split; auto. intros lg [= <-]. exact Hv.
Qed.
Lemma node_inv_w_involved ch sl nd i v : node_inv ch sl nd i -> inv_spec ch sl nd v ->
  node_inv ch sl nd (w_involved (Some v) i) /\ mono i (w_involved (Some v) i).
Proof.
  intros (A&B&C&D) Hv. split; [|split; cbn; auto].
  unfold node_inv. cbn. repeat split; auto. intros lg [= <-]. exact Hv.
Qed.
Lemma node_inv_w_size ch sl nd i v : node_inv ch sl nd i -> size_spec sl nd v -> i_size i = None ->
  node_inv ch sl nd (w_size (Some v) i) /\ mono i (w_size (Some v) i).
Proof.
  intros (A&B&C&D) Hv En. split; [|split; cbn; auto; intros z; congruence].
  unfold node_inv. cbn. repeat split; auto. intros lg [= <-]. exact Hv.
Qed.
Lemma node_inv_w_flops ch sl nd i v : node_inv ch sl nd i -> flops_spec ch sl nd v -> i_flops i = None ->
  node_inv ch sl nd (w_flops (Some v) i) /\ mono i (w_flops (Some v) i).
Proof.
  intros (A&B&C&D) Hv En. split; [|split; cbn; auto; intros z; congruence].
  unfold node_inv. cbn. repeat split; auto. intros lg [= <-]. exact Hv.
Qed.

Lemma rd_Some {A} (fld : ninfo -> option A) s nd v : rd fld s nd = Some v ->
  exists i, nget nd (info s) = Some i /\ fld i = Some v.
Proof. unfold rd. destruct (nget nd (info s)) as [i|]; [|discriminate]. intros H. exists i. auto. Qed.
Lemma rd_None_get {A} (fld : ninfo -> option A) s nd i : rd fld s nd = None -> nget nd (info s) = Some i -> fld i = None.
Proof. unfold rd. intros H E. rewrite E in H. exact H. Qed.

(* caching a valid value keeps the invariant *)
Lemma cache_legs s s1 nd v : InvS s1 -> Ext s s1 -> legs_ok n (sliced s) nd v ->
  InvS (upd_info nd (w_legs (Some v)) s1) /\ Ext s (upd_info nd (w_legs (Some v)) s1).
Proof.
  intros HI HE Hv. destruct (InvC_upd nd (w_legs (Some v)) s1 HI) as [H1 H2].
  - intros i Hi. destruct HI as (_&_&H3&_). destruct (H3 nd i Hi) as [_ Hn].
    apply node_inv_w_legs; [exact Hn|]. destruct HE as (_&E2&_). rewrite E2. exact Hv.
  - split; [exact H1|eapply Ext_trans; eassumption].
Qed.
Lemma cache_involved s s1 nd v : InvS s1 -> Ext s s1 -> inv_spec (children s) (sliced s) nd v ->
  InvS (upd_info nd (w_involved (Some v)) s1) /\ Ext s (upd_info nd (w_involved (Some v)) s1).
Proof.
  intros HI HE Hv. destruct (InvC_upd nd (w_involved (Some v)) s1 HI) as [H1 H2].
  - intros i Hi. destruct HI as (_&_&H3&_). destruct (H3 nd i Hi) as [_ Hn].
    apply node_inv_w_involved; [exact Hn|]. destruct HE as (E1&E2&_). rewrite E1, E2. exact Hv.
  - split; [exact H1|eapply Ext_trans; eassumption].
Qed.

(* n-ary core.legs_union *)
Lemma fold_union2_spec j rest : forall a, wfl a -> Forall wfl rest ->
  wfl (fold_left legs_union2 rest a) /\
  lget0 j (fold_left legs_union2 rest a) = lget0 j a + fold_right (fun lg acc => lget0 j lg + acc) 0 rest.
Proof.
  induction rest as [|b rest IH]; intros a Wa Wr; cbn [fold_left fold_right]; [split; [exact Wa|lia]|].
  inversion Wr as [|? ? Wb Wr']; subst.
  destruct (IH (legs_union2 a b)) as [W G]; [apply wfl_legs_union2; [exact Wa|apply Wb]|exact Wr'|].
  split; [exact W|]. rewrite G, legs_union2_get by apply Wb. lia.
Qed.
Lemma leaves_union_ok sl nd ls : inrange n nd -> nd <> [] -> length nd <> N ->
  Forall2 (fun i lg => slegs_ok n sl [i] lg) nd ls ->
  legs_ok n sl nd (filter (fun kv => Nat.ltb (snd kv) (appear n (fst kv))) (legs_union ls)).
Proof.
  intros HR Hne HlN HF. apply legs_ok_nonroot; [exact HlN|].
  assert (Hw : Forall wfl ls).
  { clear -HF. induction HF as [|i lg nd ls [W _] _ IH]; constructor; assumption. }
  assert (Hsum : forall j, fold_right (fun lg acc => lget0 j lg + acc) 0 ls
                           = fold_right (fun i acc => spec_count n sl [i] j + acc) 0 nd).
  { intros j. clear -HF. induction HF as [|i lg nd ls [_ G] _ IH]; cbn; [reflexivity|]. rewrite G, IH. reflexivity. }
  destruct ls as [|a rest]; [inversion HF; subst; congruence|].
  cbn [legs_union]. inversion Hw as [|? ? Wa Wr]; subst.
  split.
  - apply wfl_filter. apply (fold_union2_spec 0 rest a Wa Wr).
  - intros j. destruct (fold_union2_spec j rest a Wa Wr) as [W G].
    rewrite lget0_filter by apply W. specialize (Hsum j). cbn [fold_right] in Hsum.
    pose proof (sum_spec_leaves n sl j nd HR) as HS. cbn zeta in HS. rewrite <- Hsum in HS.
    rewrite <- G in HS. unfold lget0 in HS. unfold spec_count.
    destruct (lget j (fold_left legs_union2 rest a)) as [v|] eqn:E; cbn [fst snd];
    repeat match goal with |- context [?a <? ?b] => destruct (Nat.ltb_spec a b) end; lia.
Qed.

Definition Pl (f : nat) : Prop := forall s nd, InvS s -> good_node nd -> 2 * length nd <= f ->
  InvS (fst (get_legs n f s nd)) /\ Ext s (fst (get_legs n f s nd)) /\
  legs_ok n (sliced s) nd (snd (get_legs n f s nd)).
Definition Pi (f : nat) : Prop := forall s nd, InvS s -> good_node nd -> 2 * length nd <= f + 1 ->
  InvS (fst (get_involved n f s nd)) /\ Ext s (fst (get_involved n f s nd)) /\
  match snd (get_involved n f s nd) with
  | Some inv => inv_spec (children s) (sliced s) nd inv
  | None => nget nd (children s) = None /\ length nd <> 1
  end.

Lemma fallback_fold f' sl0 : Pl f' -> 2 <= f' -> forall xs s2 acc,
  InvS s2 -> sliced s2 = sl0 -> (forall k, In k xs -> k < N) ->
  let r := fold_left (fun acc i => let '(sa, l) := get_legs n f' (fst acc) [i] in (sa, snd acc ++ [l])) xs (s2, acc) in
  InvS (fst r) /\ Ext s2 (fst r) /\
  exists ls', snd r = acc ++ ls' /\ Forall2 (fun i lg => slegs_ok n sl0 [i] lg) xs ls'.
Proof.
  intros HPl Hf. induction xs as [|x xs IH]; intros s2 acc HI Hsl Hb; cbn [fold_left].
  - cbn. split; [exact HI|]. split; [apply Ext_refl|]. exists []. rewrite app_nil_r. split; [reflexivity|constructor].
  - cbn [fst snd].
    assert (Gx : good_node [x]).
    { split; [|discriminate]. split; [repeat constructor; cbn; tauto|]. intros k [<-|[]]. apply Hb. left. reflexivity. }
    destruct (HPl s2 [x] HI Gx) as (A & B & C); [cbn; lia|].
    destruct (get_legs n f' s2 [x]) as [sa l] eqn:El. cbn [fst snd] in A, B, C.
    assert (Esl : sliced sa = sl0) by (destruct B as (_&E2&_); congruence).
    destruct (IH sa (acc ++ [l]) A Esl) as (A' & B' & ls' & E' & F').
    { intros k Hk. apply Hb. right. exact Hk. }
    split; [exact A'|]. split; [eapply Ext_trans; eassumption|].
    exists (l :: ls'). split; [rewrite E', <- app_assoc; reflexivity|].
    constructor; [|exact F']. rewrite Hsl in C. apply legs_ok_nonroot in C; [exact C|cbn; lia].
Qed.

(* unfolding equations of the mutual fixpoint, in terms of the constants *)
Lemma get_legs_S f' s nd : get_legs n (S f') s nd =
    match rd i_legs s nd with
    | Some l => (s, l)
    | None =>
      let '(s1, v) :=
        if Nat.eqb (length nd) 1 then compute_leaf_legs n s (hd 0 nd)
        else if Nat.eqb (length nd) N then (s, root_legs n (sliced s))
        else
          match get_involved n f' s nd with
          | (s2, Some inv) => (s2, filter (fun kv => Nat.ltb (snd kv) (appear n (fst kv))) inv)
          | (s2, None) =>
              let '(s3, ls) := fold_left (fun acc i =>
                                   let '(sa, l) := get_legs n f' (fst acc) [i] in (sa, snd acc ++ [l]))
                                 nd (s2, []) in
              (s3, filter (fun kv => Nat.ltb (snd kv) (appear n (fst kv))) (legs_union ls))
          end in
      (upd_info nd (w_legs (Some v)) s1, v)
    end.
Proof. reflexivity. Qed.
Lemma get_involved_S f' s nd : get_involved n (S f') s nd =
    match rd i_involved s nd with
    | Some l => (s, Some l)
    | None =>
      if Nat.eqb (length nd) 1 then (upd_info nd (w_involved (Some [])) s, Some [])
      else
        match nget nd (children s) with
        | None => (s, None)
        | Some (l, r) =>
            let '(s1, ll) := get_legs n f' s l in
            let '(s2, lr) := get_legs n f' s1 r in
            let v := legs_union2 ll lr in
            (upd_info nd (w_involved (Some v)) s2, Some v)
        end
    end.
Proof. reflexivity. Qed.

Lemma getters_step f' : Pl f' /\ Pi f' -> Pl (S f') /\ Pi (S f').
Proof.
  intros [HPl HPi]. split.
  - (* get_legs *)
    intros s nd HI HG Hf. rewrite get_legs_S.
    destruct (rd i_legs s nd) as [lg|] eqn:Er.
    { cbn [fst snd]. split; [exact HI|]. split; [apply Ext_refl|].
      destruct (rd_Some _ _ _ _ Er) as (i & Hi & Hl). destruct HI as (_&_&H3&_).
      destruct (H3 nd i Hi) as [_ (A&_)]. apply A, Hl. }
    pose proof (good_len nd HG) as Hlen.
    destruct (Nat.eqb_spec (length nd) 1) as [E1|E1].
    { (* leaf *)
      rewrite (len1 nd E1) in *. set (k := hd 0 nd) in *.
      assert (Hk : k < N) by (apply good_leaf, HG).
      unfold compute_leaf_legs.
      set (s' := match leaf_preproc n (sliced s) k with Some tk => set_preproc (pset k (canon_eq1 tk) (preproc s)) s | None => s end).
      assert (Hs' : same_cost_fields s s').
      { unfold s'. destruct (leaf_preproc n (sliced s) k); [apply same_set_preproc|unfold same_cost_fields; repeat split; reflexivity]. }
      assert (Ec : cores s' = cores s) by (unfold s'; destruct (leaf_preproc n (sliced s) k); reflexivity).
      cbn [fst snd].
      destruct (cache_legs s s' [k] (leaf_legs n (sliced s) k)) as [A B];
        [apply (InvS_same s), HI; exact Hs'|apply Ext_same; assumption|apply legs_ok_leaf, Hk|].
      split; [exact A|]. split; [exact B|apply legs_ok_leaf, Hk]. }
    destruct (Nat.eqb_spec (length nd) N) as [EN|EN].
    { cbn [fst snd]. destruct (cache_legs s s nd (root_legs n (sliced s)) HI (Ext_refl s) (legs_ok_root _ _ EN)) as [A B].
      split; [exact A|]. split; [exact B|apply legs_ok_root, EN]. }
    destruct (HPi s nd HI HG) as (A & B & C); [lia|].
    destruct (get_involved n f' s nd) as [s2 [inv|]] eqn:Ei; cbn [fst snd] in A, B, C.
    + (* involved available *)
      cbn [fst snd].
      assert (Hv : legs_ok n (sliced s) nd (filter (fun kv => Nat.ltb (snd kv) (appear n (fst kv))) inv)).
      { destruct C as [[C _]|(l & r & Hch & Hinv)]; [contradiction|].
        destruct HI as ((_&Hc)&_). destruct (Hc nd l r Hch) as (_&_&HR&HP).
        apply legs_ok_nonroot; [exact EN|]. apply (slegs_ok_perm n _ (l ++ r)); [apply Permutation_sym, HP|].
        apply filter_inv_ok; assumption. }
      destruct (cache_legs s s2 nd _ A B Hv) as [A' B']. split; [exact A'|]. split; [exact B'|exact Hv].
    + (* the fallback over the leaves *)
      assert (Hf' : 2 <= f') by lia.
      destruct (fallback_fold f' (sliced s) HPl Hf' nd s2 [] A) as (A' & B' & ls' & E' & F').
      { destruct B as (_&E2&_). exact E2. }
      { intros k Hk. apply HG, Hk. }
      cbn zeta in A', B', E'.
      destruct (fold_left _ nd (s2, [])) as [s3 ls] eqn:Ef. cbn [fst snd] in A', B', E'. cbn [fst snd].
      cbn [app] in E'. subst ls.
      assert (Hv : legs_ok n (sliced s) nd (filter (fun kv => Nat.ltb (snd kv) (appear n (fst kv))) (legs_union ls'))).
      { apply leaves_union_ok; [apply HG|apply HG|exact EN|exact F']. }
      destruct (cache_legs s s3 nd _ A' (Ext_trans _ _ _ B B') Hv) as [A'' B''].
      split; [exact A''|]. split; [exact B''|exact Hv].
  - (* get_involved *)
    intros s nd HI HG Hf. rewrite get_involved_S.
    destruct (rd i_involved s nd) as [inv|] eqn:Er.
    { cbn [fst snd]. split; [exact HI|]. split; [apply Ext_refl|].
      destruct (rd_Some _ _ _ _ Er) as (i & Hi & Hl). destruct HI as (_&_&H3&_).
      destruct (H3 nd i Hi) as [_ (_&A&_)]. apply A, Hl. }
    destruct (Nat.eqb_spec (length nd) 1) as [E1|E1].
    { cbn [fst snd]. assert (Hv : inv_spec (children s) (sliced s) nd []) by (left; split; [exact E1|reflexivity]).
      destruct (cache_involved s s nd [] HI (Ext_refl s) Hv) as [A B]. split; [exact A|]. split; [exact B|exact Hv]. }
    destruct (nget nd (children s)) as [[l r]|] eqn:Ech.
    2:{ cbn [fst snd]. split; [exact HI|]. split; [apply Ext_refl|]. split; [reflexivity|exact E1]. }
    assert (Hc := HI). destruct Hc as ((_&Hc)&_). destruct (Hc nd l r Ech) as (Gl & Gr & HR & HP).
    pose proof (Permutation_length HP) as HL. rewrite app_length in HL.
    pose proof (good_len l Gl) as Ll. pose proof (good_len r Gr) as Lr. pose proof (good_len nd HG) as Lnd.
    destruct (HPl s l HI Gl) as (A1 & B1 & C1); [lia|].
    destruct (get_legs n f' s l) as [s1 ll] eqn:El. cbn [fst snd] in A1, B1, C1.
    destruct (HPl s1 r A1 Gr) as (A2 & B2 & C2); [lia|].
    destruct (get_legs n f' s1 r) as [s2 lr] eqn:Elr. cbn [fst snd] in A2, B2, C2. cbn [fst snd].
    assert (Esl1 : sliced s1 = sliced s) by apply B1. rewrite Esl1 in C2.
    apply legs_ok_nonroot in C1; [|lia]. apply legs_ok_nonroot in C2; [|lia].
    assert (Hv : inv_spec (children s) (sliced s) nd (legs_union2 ll lr)).
    { right. exists l, r. split; [exact Ech|apply union2_inv_ok; assumption]. }
    destruct (cache_involved s s2 nd _ A2 (Ext_trans _ _ _ B1 B2) Hv) as [A B].
    split; [exact A|]. split; [exact B|exact Hv].
Qed.

Lemma getters_all f : Pl f /\ Pi f.
Proof.
  induction f as [|f IH]; [|apply getters_step, IH]. split.
  - intros s nd _ HG Hf. pose proof (good_len nd HG). lia.
  - intros s nd _ HG Hf. pose proof (good_len nd HG). lia.
Qed.

Lemma fuel_enough s nd : good_node nd -> 2 * length nd <= fuel n s.
Proof. intros HG. pose proof (good_len nd HG). unfold fuel. lia. Qed.

Lemma g_legs_inv s nd : InvS s -> good_node nd ->
  InvS (fst (g_legs n s nd)) /\ Ext s (fst (g_legs n s nd)) /\ legs_ok n (sliced s) nd (snd (g_legs n s nd)).
Proof. intros HI HG. apply (proj1 (getters_all (fuel n s))); [exact HI|exact HG|apply fuel_enough, HG]. Qed.

Lemma g_involved_inv s nd : InvS s -> good_node nd ->
  InvS (fst (g_involved n s nd)) /\ Ext s (fst (g_involved n s nd)) /\
  (length nd = 1 \/ nget nd (children s) <> None -> inv_spec (children s) (sliced s) nd (snd (g_involved n s nd))).
Proof.
  intros HI HG. unfold g_involved.
  destruct (proj2 (getters_all (fuel n s)) s nd HI HG) as (A & B & C); [pose proof (fuel_enough s nd HG); lia|].
  destruct (get_involved n (fuel n s) s nd) as [s' [v|]]; cbn [fst snd] in *.
  - split; [exact A|]. split; [exact B|]. intros _. exact C.
  - split; [apply (InvS_same s'), A; apply same_set_err|].
    split; [eapply Ext_trans; [exact B|apply Ext_same; [apply same_set_err|reflexivity]]|].
    intros [H|H]; [destruct C; contradiction|destruct C; contradiction].
Qed.

Lemma node_inv_w_size' ch sl nd i l : node_inv ch sl nd i -> legs_ok n sl nd l ->
  node_inv ch sl nd (w_size (Some (size_of (szd n) (lkeys l))) i) /\ mono i (w_size (Some (size_of (szd n) (lkeys l))) i).
Proof.
  intros (A&B&C&D) Hl. split.
  - unfold node_inv. cbn. repeat split; auto. intros z [= <-] lg Hlg. apply (legs_ok_size_unique n sl _ nd); assumption.
  - split; cbn; auto. intros z Hz. f_equal. symmetry. apply (C z Hz l Hl).
Qed.
Lemma g_size_inv s nd : InvS s -> good_node nd ->
  InvS (fst (g_size n s nd)) /\ Ext s (fst (g_size n s nd)) /\ size_spec (sliced s) nd (snd (g_size n s nd))
  /\ rd i_size (fst (g_size n s nd)) nd = Some (snd (g_size n s nd)) \/ nget nd (info s) = None.
Proof.
  intros HI HG. destruct (nget nd (info s)) as [i0|] eqn:Ei0; [left|right; reflexivity].
  unfold g_size. destruct (rd i_size s nd) as [z|] eqn:Er.
  { cbn [fst snd]. split; [exact HI|]. split; [apply Ext_refl|]. split; [|exact Er].
    destruct (rd_Some _ _ _ _ Er) as (i & Hi & Hz). destruct HI as (_&_&H3&_).
    destruct (H3 nd i Hi) as [_ (_&_&A&_)]. apply A, Hz. }
  destruct (g_legs_inv s nd HI HG) as (A & B & C).
  destruct (g_legs n s nd) as [s1 l]. cbn [fst snd] in *.
  assert (Esl : sliced s1 = sliced s) by apply B.
  destruct (InvC_upd nd (w_size (Some (size_of (szd n) (lkeys l)))) s1 A) as [A' B'].
  { intros i Hi. destruct A as (_&_&H3&_). destruct (H3 nd i Hi) as [_ Hn].
    apply node_inv_w_size'; [exact Hn|rewrite Esl; exact C]. }
  split; [exact A'|]. split; [eapply Ext_trans; eassumption|]. split.
  - intros lg Hlg. apply (legs_ok_size_unique n (sliced s) _ nd); assumption.
  - assert (Hk : nget nd (info s1) <> None).
    { apply nget_in_keys. destruct B as (_&_&_&_&_&_&_&_&_&_&_&Ek&_). unfold nkeys in *. rewrite Ek.
      apply nget_in_keys. congruence. }
    destruct (nget nd (info s1)) as [i1|] eqn:Ei1; [|congruence].
    rewrite (rd_upd_same i_size nd _ s1 i1 Ei1). reflexivity.
Qed.

Lemma leaf_not_parent ch nd l r : children_ok ch -> nget nd ch = Some (l, r) -> length nd <> 1.
Proof.
  intros [_ Hc] E. destruct (Hc nd l r E) as (Gl & Gr & _ & HP).
  pose proof (Permutation_length HP) as HL. rewrite app_length in HL.
  destruct Gl as [_ Hl], Gr as [_ Hr]. destruct l; [congruence|]. destruct r; [congruence|]. cbn in HL. lia.
Qed.
Lemma node_inv_w_flops0 ch sl nd i : children_ok ch -> node_inv ch sl nd i -> length nd = 1 ->
  node_inv ch sl nd (w_flops (Some 0%Z) i) /\ mono i (w_flops (Some 0%Z) i).
Proof.
  intros Hc (A&B&C&D) E1. split.
  - unfold node_inv. cbn. repeat split; auto. intros z [= <-]. left. auto.
  - split; cbn; auto. intros z Hz. destruct (D z Hz) as [[_ ->]|(l & r & E & _)]; [reflexivity|].
    exfalso. apply (leaf_not_parent ch nd l r Hc E E1).
Qed.
Lemma node_inv_w_flops' ch sl nd i l r inv : node_inv ch sl nd i -> children_ok ch ->
  nget nd ch = Some (l, r) -> inv_ok n sl l r inv ->
  node_inv ch sl nd (w_flops (Some (size_of (szd n) (lkeys inv))) i) /\
  mono i (w_flops (Some (size_of (szd n) (lkeys inv))) i).
Proof.
  intros (A&B&C&D) Hc E Hinv. split.
  - unfold node_inv. cbn. repeat split; auto. intros z [= <-]. right. exists l, r. split; [exact E|].
    intros inv' Hinv'. apply (inv_ok_size_unique n sl _ l r); assumption.
  - split; cbn; auto. intros z Hz. f_equal. destruct (D z Hz) as [[E1 _]|(l' & r' & E' & H')].
    + exfalso. apply (leaf_not_parent ch nd l r Hc E E1).
    + rewrite E in E'. injection E' as <- <-. symmetry. apply H', Hinv.
Qed.
(* get_flops: for a leaf, a node with children, or a node whose flops are cached *)
Definition flops_pre (s : tstate) (nd : node) : Prop :=
  length nd = 1 \/ nget nd (children s) <> None \/ rd i_flops s nd <> None.
Lemma g_flops_inv s nd : InvS s -> good_node nd -> flops_pre s nd ->
  InvS (fst (g_flops n s nd)) /\ Ext s (fst (g_flops n s nd)) /\
  (nget nd (info s) <> None -> rd i_flops (fst (g_flops n s nd)) nd = Some (snd (g_flops n s nd))).
Proof.
  intros HI HG Hpre. unfold g_flops. destruct (rd i_flops s nd) as [z|] eqn:Er.
  { cbn [fst snd]. split; [exact HI|]. split; [apply Ext_refl|]. intros _. exact Er. }
  destruct (Nat.eqb_spec (length nd) 1) as [E1|E1].
  { cbn [fst snd]. destruct (InvC_upd nd (w_flops (Some 0%Z)) s HI) as [A B].
    { intros i Hi. assert (HI' := HI). destruct HI' as (Hc&_&H3&_). destruct (H3 nd i Hi) as [_ Hn].
      apply node_inv_w_flops0; assumption. }
    split; [exact A|]. split; [exact B|]. intros Hk. destruct (nget nd (info s)) as [i|] eqn:Ei; [|congruence].
    rewrite (rd_upd_same i_flops nd _ s i Ei). reflexivity. }
  assert (Hch : nget nd (children s) <> None) by (destruct Hpre as [H|[H|H]]; [contradiction|exact H|congruence]).
  destruct (g_involved_inv s nd HI HG) as (A & B & C).
  destruct (g_involved n s nd) as [s1 inv]. cbn [fst snd] in *.
  destruct (C (or_intror Hch)) as [[E _]|(l & r & Ech & Hinv)]; [contradiction|].
  assert (Ech1 : children s1 = children s) by apply B. assert (Esl1 : sliced s1 = sliced s) by apply B.
  destruct (InvC_upd nd (w_flops (Some (size_of (szd n) (lkeys inv)))) s1 A) as [A' B'].
  { intros i Hi. assert (A0 := A). destruct A0 as (Hc&_&H3&_). destruct (H3 nd i Hi) as [_ Hn].
    apply (node_inv_w_flops' _ _ nd i l r); [exact Hn|exact Hc|rewrite Ech1; exact Ech|rewrite Esl1; exact Hinv]. }
  split; [exact A'|]. split; [eapply Ext_trans; eassumption|].
  intros Hk. assert (Hk1 : nget nd (info s1) <> None).
  { apply nget_in_keys. destruct B as (_&_&_&_&_&_&_&_&_&_&_&Ek&_). unfold nkeys in *. rewrite Ek. apply nget_in_keys, Hk. }
  destruct (nget nd (info s1)) as [i1|] eqn:Ei1; [|congruence].
  rewrite (rd_upd_same i_flops nd _ s1 i1 Ei1). reflexivity.
Qed.

(* ======================================================================== *)
(* Part E : structural primitives                                            *)
Definition tot_flops (keys : list node) (s : tstate) : Prop :=
  trk_flops s = true ->
  flops_ s = zsum (map (cflops s) keys) /\ forall p, In p keys -> rd i_flops s p <> None.
Definition tot_write (keys : list node) (s : tstate) : Prop :=
  trk_write s = true ->
  write_ s = zsum (map (csize s) keys) /\ forall p, In p keys -> rd i_size s p <> None.
Definition tot_size (keys : list node) (s : tstate) : Prop :=
  trk_size s = true ->
  mc_ok (sizes_mc s) /\
  (forall z, cget0 z (sizes_ s) = count_occ Z.eq_dec (map (csize s) keys) z) /\
  forall p, In p keys -> rd i_size s p <> None.
Lemma totals_split s : totals_inv s <->
  tot_flops (nkeys (children s)) s /\ tot_write (nkeys (children s)) s /\ tot_size (nkeys (children s)) s.
Proof. reflexivity. Qed.

Lemma cflops_Ext s s' p : Ext s s' -> rd i_flops s p <> None -> cflops s' p = cflops s p /\ rd i_flops s' p <> None.
Proof.
  intros HE Hp. destruct HE as (_&_&_&_&_&_&_&_&_&_&_&_&_&Hfl). unfold cflops.
  destruct (rd i_flops s p) as [z|] eqn:Ez; [|congruence]. rewrite (Hfl p z Ez). split; [reflexivity|discriminate].
Qed.
Lemma csize_Ext s s' p : Ext s s' -> rd i_size s p <> None -> csize s' p = csize s p /\ rd i_size s' p <> None.
Proof.
  intros HE Hp. destruct HE as (_&_&_&_&_&_&_&_&_&_&_&_&Hsz&_). unfold csize.
  destruct (rd i_size s p) as [z|] eqn:Ez; [|congruence]. rewrite (Hsz p z Ez). split; [reflexivity|discriminate].
Qed.
Lemma tot_flops_Ext keys s s' : Ext s s' -> tot_flops keys s -> tot_flops keys s'.
Proof.
  intros HE T. assert (HE' := HE). destruct HE' as (_&_&_&E4&_&_&E7&_). unfold tot_flops. rewrite E4, E7.
  intros Ht. destruct (T Ht) as [Ta Tb]. split; [|intros p Hp; apply (cflops_Ext s s' p HE), Tb, Hp].
  rewrite Ta. f_equal. apply map_ext_in. intros p Hp. symmetry. apply (cflops_Ext s s' p HE), Tb, Hp.
Qed.
Lemma tot_write_Ext keys s s' : Ext s s' -> tot_write keys s -> tot_write keys s'.
Proof.
  intros HE T. assert (HE' := HE). destruct HE' as (_&_&_&_&E5&_&_&E8&_). unfold tot_write. rewrite E5, E8.
  intros Ht. destruct (T Ht) as [Ta Tb]. split; [|intros p Hp; apply (csize_Ext s s' p HE), Tb, Hp].
  rewrite Ta. f_equal. apply map_ext_in. intros p Hp. symmetry. apply (csize_Ext s s' p HE), Tb, Hp.
Qed.
Lemma tot_size_Ext keys s s' : Ext s s' -> tot_size keys s -> tot_size keys s'.
Proof.
  intros HE T. assert (HE' := HE). destruct HE' as (_&_&_&_&_&E6&_&_&E9&E10&_). unfold tot_size, sizes_mc. rewrite E6, E9, E10.
  intros Ht. destruct (T Ht) as (Ta & Tb & Tc). split; [exact Ta|]. split; [|intros p Hp; apply (csize_Ext s s' p HE), Tc, Hp].
  intros z. rewrite Tb. f_equal. apply map_ext_in. intros p Hp. symmetry. apply (csize_Ext s s' p HE), Tc, Hp.
Qed.

(* cache hits are pure reads *)
Lemma g_size_hit s nd z : rd i_size s nd = Some z -> g_size n s nd = (s, z).
Proof. intros H. unfold g_size. rewrite H. reflexivity. Qed.
Lemma g_flops_hit s nd z : rd i_flops s nd = Some z -> g_flops n s nd = (s, z).
Proof. intros H. unfold g_flops. rewrite H. reflexivity. Qed.
Lemma csize_Some s nd : rd i_size s nd <> None -> rd i_size s nd = Some (csize s nd).
Proof. unfold csize. destruct (rd i_size s nd); congruence. Qed.
Lemma cflops_Some s nd : rd i_flops s nd <> None -> rd i_flops s nd = Some (cflops s nd).
Proof. unfold cflops. destruct (rd i_flops s nd); congruence. Qed.

(* sums over the keys of a dict after deleting / appending a key *)
Lemma zsum_map_ndel {V} (g : node -> Z) k (d : list (node * V)) : NoDup (nkeys d) -> In k (nkeys d) ->
  zsum (map g (nkeys (ndel k d))) = (zsum (map g (nkeys d)) - g k)%Z.
Proof.
  unfold nkeys. induction d as [|[k0 w] d IH]; cbn [map fst ndel]; [intros _ []|]. intros ND Hin.
  inversion ND as [|? ? Hn ND']; subst. destruct (node_eqb k0 k) eqn:E.
  - apply node_eqb_eq in E. subst. rewrite zsum_cons. lia.
  - cbn [map fst]. rewrite !zsum_cons. rewrite IH; [lia|exact ND'|].
    destruct Hin as [H|H]; [subst; rewrite node_eqb_refl in E; discriminate|exact H].
Qed.
Lemma count_map_ndel {V} (g : node -> Z) k z (d : list (node * V)) : NoDup (nkeys d) -> In k (nkeys d) ->
  count_occ Z.eq_dec (map g (nkeys (ndel k d))) z
  = count_occ Z.eq_dec (map g (nkeys d)) z - (if Z.eqb z (g k) then 1 else 0).
Proof.
  unfold nkeys. induction d as [|[k0 w] d IH]; cbn [map fst ndel]; [intros _ []|]. intros ND Hin.
  inversion ND as [|? ? Hn ND']; subst. destruct (node_eqb k0 k) eqn:E.
  - apply node_eqb_eq in E. subst. cbn [count_occ]. destruct (Z.eq_dec (g k) z), (Z.eqb_spec z (g k)); try congruence; lia.
  - cbn [map fst count_occ]. rewrite IH; [|exact ND'|destruct Hin as [H|H]; [subst; rewrite node_eqb_refl in E; discriminate|exact H]].
    assert (Hk : In k (map fst d)) by (destruct Hin as [H|H]; [subst; rewrite node_eqb_refl in E; discriminate|exact H]).
    assert (Hpos : (if Z.eqb z (g k) then 1 else 0) <= count_occ Z.eq_dec (map g (map fst d)) z).
    { destruct (Z.eqb_spec z (g k)) as [->|]; [|lia]. apply count_occ_In. apply in_map, Hk. }
    destruct (Z.eq_dec (g k0) z); lia.
Qed.

Lemma nget_app_l {V} k (d d' : list (node * V)) v : nget k d = Some v -> nget k (d ++ d') = Some v.
Proof.
  induction d as [|[k0 w] d IH]; cbn; [discriminate|]. destruct (node_eqb k0 k); [auto|exact IH].
Qed.
Lemma nget_app_r {V} k (d d' : list (node * V)) : nget k d = None -> nget k (d ++ d') = nget k d'.
Proof.
  induction d as [|[k0 w] d IH]; cbn; [reflexivity|]. destruct (node_eqb k0 k); [discriminate|exact IH].
Qed.

Lemma node_inv_noinfo ch sl nd : node_inv ch sl nd noinfo.
Proof. unfold node_inv, noinfo. cbn. repeat split; intros; discriminate. Qed.

(* ---- _add_node ---- *)
Lemma rd_app_l {A} (fld : ninfo -> option A) s x p : rd fld s p <> None ->
  rd fld (set_info (info s ++ x) s) p = rd fld s p.
Proof.
  unfold rd. cbn. destruct (nget p (info s)) as [i|] eqn:E; [|congruence]. intros _.
  rewrite (nget_app_l p (info s) x i E). reflexivity.
Qed.
Lemma add_node_inv nd s : InvC s -> good_node nd ->
  InvC (add_node nd s) /\ children (add_node nd s) = children s /\ sliced (add_node nd s) = sliced s /\
  nget nd (info (add_node nd s)) <> None /\
  (forall p, nget p (info s) <> None -> nget p (info (add_node nd s)) = nget p (info s)).
Proof.
  intros [HS HT] HG. unfold add_node, nmem. destruct (nget nd (info s)) as [i|] eqn:E.
  { split; [split; assumption|]. split; [reflexivity|]. split; [reflexivity|]. split; [rewrite E; discriminate|intros; reflexivity]. }
  set (s' := set_info (info s ++ [(nd, noinfo)]) s).
  assert (Hget : forall p, nget p (info s) <> None -> nget p (info s') = nget p (info s)).
  { intros p Hp. unfold s'. cbn. destruct (nget p (info s)) as [ip|] eqn:Ep; [|congruence]. apply nget_app_l, Ep. }
  split; [|split; [reflexivity|split; [reflexivity|split; [|exact Hget]]]].
  2:{ unfold s'. cbn. rewrite (nget_app_r nd _ _ E). cbn. rewrite node_eqb_refl. discriminate. }
  destruct HS as (H1&H2&H3&H5). split.
  - unfold InvS, s'. cbn. split; [exact H1|]. split; [|split; [|exact H5]].
    + unfold nkeys. rewrite map_app. cbn. apply nget_none_notin in E. fold (nkeys (info s)).
      clear -H2 E. induction (nkeys (info s)) as [|a l IH]; cbn; [constructor; [tauto|constructor]|].
      inversion H2 as [|? ? Ha ND']; subst. constructor.
      * rewrite in_app_iff. cbn. intros [H|[H|[]]]; [contradiction|subst; apply E; left; reflexivity].
      * apply IH; [exact ND'|]. intros H. apply E. right. exact H.
    + intros nd' i' Hg. destruct (nget nd' (info s)) as [i0|] eqn:E0.
      * rewrite (nget_app_l nd' _ _ i0 E0) in Hg. injection Hg as <-. apply H3, E0.
      * rewrite (nget_app_r nd' _ _ E0) in Hg. cbn in Hg. destruct (node_eqb nd nd') eqn:En; [|discriminate].
        apply node_eqb_eq in En. subst nd'. injection Hg as <-. split; [exact HG|apply node_inv_noinfo].
  - (* totals: every key that mattered is still read the same *)
    apply totals_split in HT. destruct HT as (T1 & T2 & T3). apply totals_split.
    assert (Rf : forall p, rd i_flops s p <> None -> rd i_flops s' p = rd i_flops s p) by (intros; apply rd_app_l; assumption).
    assert (Rs : forall p, rd i_size s p <> None -> rd i_size s' p = rd i_size s p) by (intros; apply rd_app_l; assumption).
    split; [|split].
    + intros Ht. destruct (T1 Ht) as [Ta Tb]. split; [|intros p Hp; rewrite Rf; apply Tb, Hp].
      change (flops_ s') with (flops_ s). rewrite Ta. f_equal. apply map_ext_in. intros p Hp. unfold cflops. rewrite Rf; [reflexivity|apply Tb, Hp].
    + intros Ht. destruct (T2 Ht) as [Ta Tb]. split; [|intros p Hp; rewrite Rs; apply Tb, Hp].
      change (write_ s') with (write_ s). rewrite Ta. f_equal. apply map_ext_in. intros p Hp. unfold csize. rewrite Rs; [reflexivity|apply Tb, Hp].
    + intros Ht. destruct (T3 Ht) as (Ta & Tb & Tc). split; [exact Ta|]. split; [|intros p Hp; rewrite Rs; apply Tc, Hp].
      intros z. change (sizes_ s') with (sizes_ s). rewrite Tb. f_equal. apply map_ext_in. intros p Hp. unfold csize. rewrite Rs; [reflexivity|apply Tc, Hp].
Qed.

(* ---- frames for the totals ---- *)
Definition same_tot_fields (s s' : tstate) : Prop :=
  trk_flops s' = trk_flops s /\ trk_write s' = trk_write s /\ trk_size s' = trk_size s /\
  flops_ s' = flops_ s /\ write_ s' = write_ s /\ sizes_ s' = sizes_ s /\ sizes_max s' = sizes_max s.
Lemma tot_flops_frame keys s s' : trk_flops s' = trk_flops s -> flops_ s' = flops_ s ->
  (forall p, In p keys -> rd i_flops s' p = rd i_flops s p) -> tot_flops keys s -> tot_flops keys s'.
Proof.
  intros E1 E2 R T. unfold tot_flops. rewrite E1, E2. intros Ht. destruct (T Ht) as [Ta Tb].
  split; [|intros p Hp; rewrite R by exact Hp; apply Tb, Hp].
  rewrite Ta. f_equal. apply map_ext_in. intros p Hp. unfold cflops. rewrite R by exact Hp. reflexivity.
Qed.
Lemma tot_write_frame keys s s' : trk_write s' = trk_write s -> write_ s' = write_ s ->
  (forall p, In p keys -> rd i_size s' p = rd i_size s p) -> tot_write keys s -> tot_write keys s'.
Proof.
  intros E1 E2 R T. unfold tot_write. rewrite E1, E2. intros Ht. destruct (T Ht) as [Ta Tb].
  split; [|intros p Hp; rewrite R by exact Hp; apply Tb, Hp].
  rewrite Ta. f_equal. apply map_ext_in. intros p Hp. unfold csize. rewrite R by exact Hp. reflexivity.
Qed.
Lemma tot_size_frame keys s s' : trk_size s' = trk_size s -> sizes_ s' = sizes_ s -> sizes_max s' = sizes_max s ->
  (forall p, In p keys -> rd i_size s' p = rd i_size s p) -> tot_size keys s -> tot_size keys s'.
Proof.
  intros E1 E2 E3 R T. unfold tot_size, sizes_mc. rewrite E1, E2, E3. intros Ht. destruct (T Ht) as (Ta & Tb & Tc).
  split; [exact Ta|]. split; [|intros p Hp; rewrite R by exact Hp; apply Tc, Hp].
  intros z. rewrite Tb. f_equal. apply map_ext_in. intros p Hp. unfold csize. rewrite R by exact Hp. reflexivity.
Qed.

Lemma leaf_not_key s nd : InvS s -> length nd = 1 -> ~ In nd (nkeys (children s)).
Proof.
  intros (Hc&_) E1 Hin. apply nget_in_keys in Hin. destruct (nget nd (children s)) as [[l r]|] eqn:E; [|congruence].
  apply (leaf_not_parent _ nd l r Hc E E1).
Qed.

(* ---- _remove_node ---- *)
Lemma InvS_children_del nd s i' :
  InvS s -> (length nd = N -> i' = Some noinfo) ->
  forall s', children s' = ndel nd (children s) -> sliced s' = sliced s -> mult s' = mult s ->
  info s' = match i' with Some x => nset nd x (info s) | None => ndel nd (info s) end ->
  nget nd (info s) <> None -> (i' = None \/ i' = Some noinfo) ->
  InvS s'.
Proof.
  intros (H1&H2&H3&H5) _ s' Ech Esl Em Ei Hk Hi'. destruct H1 as [Hnd Hc].
  unfold InvS. rewrite Ech, Esl, Em. split; [|split; [|split; [|exact H5]]].
  - split; [apply NoDup_nkeys_ndel, Hnd|]. intros p l r Hp. destruct (node_eq_dec p nd) as [->|Hn].
    + rewrite nget_ndel_same in Hp by exact Hnd. discriminate.
    + rewrite nget_ndel_other in Hp by exact Hn. apply Hc, Hp.
  - rewrite Ei. destruct i'; [apply NoDup_nkeys_nset, H2|apply NoDup_nkeys_ndel, H2].
  - intros nd' j Hj. rewrite Ei in Hj.
    assert (Hcase : (nd' = nd /\ j = noinfo) \/ (nd' <> nd /\ nget nd' (info s) = Some j)).
    { destruct (node_eq_dec nd' nd) as [->|Hn].
      - destruct Hi' as [->| ->].
        + rewrite nget_ndel_same in Hj by exact H2. discriminate.
        + rewrite nget_nset_same in Hj. injection Hj as <-. left. auto.
      - right. split; [exact Hn|]. destruct i'; [rewrite nget_nset_other in Hj by exact Hn|rewrite nget_ndel_other in Hj by exact Hn]; exact Hj. }
    destruct Hcase as [[-> ->]|[Hn Hj']].
    + destruct (nget nd (info s)) as [i0|] eqn:E0; [|congruence]. split; [apply (H3 nd i0 E0)|apply node_inv_noinfo].
    + destruct (H3 nd' j Hj') as [G (A&B&C&D)]. split; [exact G|]. unfold node_inv. repeat split; auto.
      * intros inv Hinv. destruct (B inv Hinv) as [Hl|(l & r & E & Hok)]; [left; exact Hl|right].
        exists l, r. split; [rewrite nget_ndel_other by exact Hn; exact E|exact Hok].
      * intros z Hz. destruct (D z Hz) as [Hl|(l & r & E & Hok)]; [left; exact Hl|right].
        exists l, r. split; [rewrite nget_ndel_other by exact Hn; exact E|exact Hok].
Qed.

Lemma stage_size nd s : NoDup (nkeys (children s)) -> In nd (nkeys (children s)) ->
  tot_size (nkeys (children s)) s ->
  let s1 := (if trk_size s then let '(sa, sz) := g_size n s nd in set_sizes (mc_discard sz (sizes_mc sa)) sa else s) in
  info s1 = info s /\ children s1 = children s /\ sliced s1 = sliced s /\ mult s1 = mult s /\
  trk_flops s1 = trk_flops s /\ trk_write s1 = trk_write s /\ trk_size s1 = trk_size s /\
  flops_ s1 = flops_ s /\ write_ s1 = write_ s /\
  tot_size (nkeys (ndel nd (children s))) s1.
Proof.
  intros ND Hin T. cbn zeta. destruct (trk_size s) eqn:Ts.
  - destruct (T Ts) as (Ta & Tb & Tc). rewrite (g_size_hit s nd _ (csize_Some s nd (Tc nd Hin))).
    do 9 (split; [first [reflexivity|exact Ts]|]). intros _. unfold sizes_mc. cbn [set_sizes sizes_ sizes_max].
    change (mc_ok (mc_discard (csize s nd) (sizes_mc s)) /\
            (forall z, cget0 z (fst (mc_discard (csize s nd) (sizes_mc s))) =
                       count_occ Z.eq_dec (map (csize s) (nkeys (ndel nd (children s)))) z) /\
            (forall p, In p (nkeys (ndel nd (children s))) -> rd i_size s p <> None)).
    split; [apply (mc_discard_ok _ _ Ta)|]. split.
    + intros z. rewrite (mc_discard_count _ z _ Ta). cbn [fst sizes_mc]. rewrite Tb, count_map_ndel by assumption. reflexivity.
    + intros p Hp. apply (in_nkeys_ndel nd p _ ND) in Hp. apply Tc, Hp.
  - do 9 (split; [first [reflexivity|exact Ts]|]). unfold tot_size. rewrite Ts. discriminate.
Qed.
Lemma stage_flops nd s : NoDup (nkeys (children s)) -> In nd (nkeys (children s)) ->
  tot_flops (nkeys (children s)) s ->
  let s1 := (if trk_flops s then let '(sa, fl) := g_flops n s nd in set_flops (flops_ sa - fl)%Z sa else s) in
  info s1 = info s /\ children s1 = children s /\ sliced s1 = sliced s /\ mult s1 = mult s /\
  trk_flops s1 = trk_flops s /\ trk_write s1 = trk_write s /\ trk_size s1 = trk_size s /\
  write_ s1 = write_ s /\ sizes_ s1 = sizes_ s /\ sizes_max s1 = sizes_max s /\
  tot_flops (nkeys (ndel nd (children s))) s1.
Proof.
  intros ND Hin T. cbn zeta. destruct (trk_flops s) eqn:Ts.
  - destruct (T Ts) as (Ta & Tc). rewrite (g_flops_hit s nd _ (cflops_Some s nd (Tc nd Hin))).
    do 10 (split; [first [reflexivity|exact Ts]|]). intros _.
    change (flops_ s - cflops s nd = zsum (map (cflops s) (nkeys (ndel nd (children s)))) /\
            (forall p, In p (nkeys (ndel nd (children s))) -> rd i_flops s p <> None))%Z. split.
    + rewrite zsum_map_ndel by assumption. rewrite Ta. reflexivity.
    + intros p Hp. apply (in_nkeys_ndel nd p _ ND) in Hp. apply Tc, Hp.
  - do 10 (split; [first [reflexivity|exact Ts]|]). unfold tot_flops. rewrite Ts. discriminate.
Qed.
Lemma stage_write nd s : NoDup (nkeys (children s)) -> In nd (nkeys (children s)) ->
  tot_write (nkeys (children s)) s ->
  let s1 := (if trk_write s then let '(sa, sz) := g_size n s nd in set_write (write_ sa - sz)%Z sa else s) in
  info s1 = info s /\ children s1 = children s /\ sliced s1 = sliced s /\ mult s1 = mult s /\
  trk_flops s1 = trk_flops s /\ trk_write s1 = trk_write s /\ trk_size s1 = trk_size s /\
  flops_ s1 = flops_ s /\ sizes_ s1 = sizes_ s /\ sizes_max s1 = sizes_max s /\
  tot_write (nkeys (ndel nd (children s))) s1.
Proof.
  intros ND Hin T. cbn zeta. destruct (trk_write s) eqn:Ts.
  - destruct (T Ts) as (Ta & Tc). rewrite (g_size_hit s nd _ (csize_Some s nd (Tc nd Hin))).
    do 10 (split; [first [reflexivity|exact Ts]|]). intros _.
    change (write_ s - csize s nd = zsum (map (csize s) (nkeys (ndel nd (children s)))) /\
            (forall p, In p (nkeys (ndel nd (children s))) -> rd i_size s p <> None))%Z. split.
    + rewrite zsum_map_ndel by assumption. rewrite Ta. reflexivity.
    + intros p Hp. apply (in_nkeys_ndel nd p _ ND) in Hp. apply Tc, Hp.
  - do 10 (split; [first [reflexivity|exact Ts]|]). unfold tot_write. rewrite Ts. discriminate.
Qed.

Lemma upd_info_fields nd f s :
  children (upd_info nd f s) = children s /\ sliced (upd_info nd f s) = sliced s /\ mult (upd_info nd f s) = mult s /\
  trk_flops (upd_info nd f s) = trk_flops s /\ trk_write (upd_info nd f s) = trk_write s /\
  trk_size (upd_info nd f s) = trk_size s /\ flops_ (upd_info nd f s) = flops_ s /\ write_ (upd_info nd f s) = write_ s /\
  sizes_ (upd_info nd f s) = sizes_ s /\ sizes_max (upd_info nd f s) = sizes_max s.
Proof. unfold upd_info. destruct (nget nd (info s)); cbn; repeat split; reflexivity. Qed.

Lemma totals_other_node s s' keys nd :
  (forall p, p <> nd -> nget p (info s') = nget p (info s)) -> ~ In nd keys ->
  trk_flops s' = trk_flops s -> trk_write s' = trk_write s -> trk_size s' = trk_size s ->
  flops_ s' = flops_ s -> write_ s' = write_ s -> sizes_ s' = sizes_ s -> sizes_max s' = sizes_max s ->
  tot_flops keys s /\ tot_write keys s /\ tot_size keys s ->
  tot_flops keys s' /\ tot_write keys s' /\ tot_size keys s'.
Proof.
  intros Hget Hn E1 E2 E3 E4 E5 E6 E7 (T1 & T2 & T3).
  assert (R : forall A (fld : ninfo -> option A) p, In p keys -> rd fld s' p = rd fld s p).
  { intros A fld p Hp. unfold rd. rewrite Hget; [reflexivity|]. intros ->. contradiction. }
  split; [|split].
  - apply (tot_flops_frame keys s s'); auto.
  - apply (tot_write_frame keys s s'); auto.
  - apply (tot_size_frame keys s s'); auto.
Qed.

Theorem remove_node_leaf_inv nd s : InvC s -> length nd = 1 -> InvC (remove_node n nd s).
Proof.
  intros [HS HT] E1. unfold remove_node. rewrite E1. cbn [Nat.eqb].
  apply (InvC_same (clear_info nd s)); [apply same_set_preproc|].
  unfold clear_info. destruct (upd_info_fields nd (fun _ => noinfo) s) as (F1&F2&F3&F4&F5&F6&F7&F8&F9&F10).
  split; [apply InvS_upd; [exact HS|intros; apply node_inv_noinfo]|].
  apply totals_split. rewrite F1. apply totals_split in HT.
  apply (totals_other_node s _ _ nd); auto.
  - intros p Hp. unfold upd_info. destruct (nget nd (info s)); cbn; [apply nget_nset_other, Hp|reflexivity].
  - apply leaf_not_key; assumption.
Qed.

Theorem remove_node_internal_inv nd s : InvC s -> In nd (nkeys (children s)) -> nget nd (info s) <> None ->
  InvC (remove_node n nd s).
Proof.
  intros [HS HT] Hin Hk.
  assert (E1 : length nd <> 1) by (intros E; apply (leaf_not_key s nd HS E Hin)).
  assert (ND : NoDup (nkeys (children s))) by apply HS.
  apply totals_split in HT. destruct HT as (T1 & T2 & T3).
  unfold remove_node. destruct (Nat.eqb_spec (length nd) 1) as [|_]; [contradiction|].
  set (s1 := if trk_size s then _ else s).
  destruct (stage_size nd s ND Hin T3) as (A1&A2&A3&A4&A5&A6&A7&A8&A9&A10). fold s1 in A1, A2, A3, A4, A5, A6, A7, A8, A9, A10.
  assert (R1 : forall A (fld : ninfo -> option A) p, rd fld s1 p = rd fld s p) by (intros; apply rd_same, A1).
  assert (T1' : tot_flops (nkeys (children s1)) s1).
  { rewrite A2. apply (tot_flops_frame _ s s1); auto. }
  set (s2 := if trk_flops s1 then _ else s1).
  assert (ND1 : NoDup (nkeys (children s1))) by (rewrite A2; exact ND).
  assert (Hin1 : In nd (nkeys (children s1))) by (rewrite A2; exact Hin).
  destruct (stage_flops nd s1 ND1 Hin1 T1') as (B1&B2&B3&B4&B5&B6&B7&B8&B9&B10&B11). fold s2 in B1, B2, B3, B4, B5, B6, B7, B8, B9, B10, B11.
  assert (R2 : forall A (fld : ninfo -> option A) p, rd fld s2 p = rd fld s p) by (intros; rewrite <- R1; apply rd_same, B1).
  assert (T2' : tot_write (nkeys (children s2)) s2).
  { rewrite B2, A2. apply (tot_write_frame _ s s2); auto; congruence. }
  set (s3 := if trk_write s2 then _ else s2).
  assert (ND2 : NoDup (nkeys (children s2))) by (rewrite B2; exact ND1).
  assert (Hin2 : In nd (nkeys (children s2))) by (rewrite B2; exact Hin1).
  destruct (stage_write nd s2 ND2 Hin2 T2') as (C1&C2&C3&C4&C5&C6&C7&C8&C9&C10&C11). fold s3 in C1, C2, C3, C4, C5, C6, C7, C8, C9, C10, C11.
  assert (Ech3 : children s3 = children s) by congruence.
  assert (Einf3 : info s3 = info s) by congruence.
  (* the three totals, over the keys that remain, in s3 *)
  assert (TT : tot_flops (nkeys (ndel nd (children s))) s3 /\ tot_write (nkeys (ndel nd (children s))) s3
               /\ tot_size (nkeys (ndel nd (children s))) s3).
  { split; [|split].
    - rewrite A2 in B11. apply (tot_flops_frame _ s2 s3); [exact C5|exact C8| |exact B11]. intros; apply rd_same, C1.
    - rewrite B2, A2 in C11. exact C11.
    - apply (tot_size_frame _ s1 s3); [congruence|congruence|congruence| |exact A10]. intros. unfold rd. rewrite Einf3, A1. reflexivity. }
  unfold nmem. rewrite Ech3.
  assert (Hch : nget nd (children s) <> None) by (apply nget_in_keys, Hin).
  destruct (nget nd (children s)) as [lr|] eqn:Ech; [|congruence].
  set (s4 := set_children (ndel nd (children s)) s3).
  assert (Hnk : ~ In nd (nkeys (ndel nd (children s)))).
  { intros H. apply (in_nkeys_ndel nd nd _ ND) in H. tauto. }
  destruct (nget nd (info s)) as [i0|] eqn:Ei0; [|congruence].
  destruct (Nat.eqb_spec (length nd) N) as [EN|EN].
  - (* the root: its info is cleared *)
    unfold clear_info, upd_info. change (info s4) with (info s3). rewrite Einf3, Ei0.
    set (sF := set_info _ s4).
    split.
    + apply (InvS_children_del nd s (Some noinfo) HS (fun _ => eq_refl) sF);
        [reflexivity|unfold sF; cbn; congruence|unfold sF; cbn; congruence|unfold sF; cbn; congruence|congruence|right; reflexivity].
    + apply totals_split. change (children sF) with (ndel nd (children s)).
      apply (totals_other_node s3 sF _ nd); auto.
      intros p Hp. unfold sF. cbn. rewrite Einf3. apply nget_nset_other, Hp.
  - change (info s4) with (info s3). rewrite Einf3, Ei0.
    set (sF := set_info _ s4).
    split.
    + apply (InvS_children_del nd s None HS (fun E => match EN E with end) sF);
        [reflexivity|unfold sF; cbn; congruence|unfold sF; cbn; congruence|unfold sF; cbn; congruence|congruence|left; reflexivity].
    + apply totals_split. change (children sF) with (ndel nd (children s)).
      apply (totals_other_node s3 sF _ nd); auto.
      intros p Hp. unfold sF. cbn. rewrite Einf3. apply nget_ndel_other, Hp.
Qed.

(* ---- _update_tracked / contract_nodes_pair ---- *)
Lemma tot_flops_mono keys s s' : trk_flops s' = trk_flops s -> flops_ s' = flops_ s ->
  (forall p z, rd i_flops s p = Some z -> rd i_flops s' p = Some z) -> tot_flops keys s -> tot_flops keys s'.
Proof.
  intros E1 E2 M T. unfold tot_flops. rewrite E1, E2. intros Ht. destruct (T Ht) as [Ta Tb].
  assert (R : forall p, In p keys -> rd i_flops s' p = rd i_flops s p).
  { intros p Hp. specialize (Tb p Hp). destruct (rd i_flops s p) as [z|] eqn:Ez; [|congruence]. apply M, Ez. }
  split; [|intros p Hp; rewrite R by exact Hp; apply Tb, Hp].
  rewrite Ta. f_equal. apply map_ext_in. intros p Hp. unfold cflops. rewrite R by exact Hp. reflexivity.
Qed.
Lemma tot_write_mono keys s s' : trk_write s' = trk_write s -> write_ s' = write_ s ->
  (forall p z, rd i_size s p = Some z -> rd i_size s' p = Some z) -> tot_write keys s -> tot_write keys s'.
Proof.
  intros E1 E2 M T. unfold tot_write. rewrite E1, E2. intros Ht. destruct (T Ht) as [Ta Tb].
  assert (R : forall p, In p keys -> rd i_size s' p = rd i_size s p).
  { intros p Hp. specialize (Tb p Hp). destruct (rd i_size s p) as [z|] eqn:Ez; [|congruence]. apply M, Ez. }
  split; [|intros p Hp; rewrite R by exact Hp; apply Tb, Hp].
  rewrite Ta. f_equal. apply map_ext_in. intros p Hp. unfold csize. rewrite R by exact Hp. reflexivity.
Qed.
Lemma tot_size_mono keys s s' : trk_size s' = trk_size s -> sizes_ s' = sizes_ s -> sizes_max s' = sizes_max s ->
  (forall p z, rd i_size s p = Some z -> rd i_size s' p = Some z) -> tot_size keys s -> tot_size keys s'.
Proof.
  intros E1 E2 E3 M T. unfold tot_size, sizes_mc. rewrite E1, E2, E3. intros Ht. destruct (T Ht) as (Ta & Tb & Tc).
  assert (R : forall p, In p keys -> rd i_size s' p = rd i_size s p).
  { intros p Hp. specialize (Tc p Hp). destruct (rd i_size s p) as [z|] eqn:Ez; [|congruence]. apply M, Ez. }
  split; [exact Ta|]. split; [|intros p Hp; rewrite R by exact Hp; apply Tc, Hp].
  intros z. rewrite Tb. f_equal. apply map_ext_in. intros p Hp. unfold csize. rewrite R by exact Hp. reflexivity.
Qed.

(* what every stage of _update_tracked leaves alone *)
Definition ExtI (s s' : tstate) : Prop :=
  children s' = children s /\ sliced s' = sliced s /\ mult s' = mult s /\
  trk_flops s' = trk_flops s /\ trk_write s' = trk_write s /\ trk_size s' = trk_size s /\
  nkeys (info s') = nkeys (info s) /\
  (forall nd z, rd i_size s nd = Some z -> rd i_size s' nd = Some z) /\
  (forall nd z, rd i_flops s nd = Some z -> rd i_flops s' nd = Some z).
Lemma Ext_ExtI s s' : Ext s s' -> ExtI s s'.
Proof. intros (A1&A2&A3&A4&A5&A6&_&_&_&_&_&A12&A13&A14). unfold ExtI. repeat split; assumption. Qed.
Lemma ExtI_trans s1 s2 s3 : ExtI s1 s2 -> ExtI s2 s3 -> ExtI s1 s3.
Proof.
  intros (A1&A2&A3&A4&A5&A6&A7&A8&A9) (B1&B2&B3&B4&B5&B6&B7&B8&B9). unfold ExtI.
  repeat split; try congruence; auto.
Qed.
Definition same_struct (s s' : tstate) : Prop :=
  children s' = children s /\ info s' = info s /\ sliced s' = sliced s /\ mult s' = mult s.
Lemma InvS_struct s s' : same_struct s s' -> InvS s -> InvS s'.
Proof. intros (E1&E2&E3&E4) H. unfold InvS in *. rewrite E1, E2, E3, E4. exact H. Qed.

Lemma track_flops K p s : InvS s -> good_node p -> nget p (children s) <> None -> nget p (info s) <> None ->
  tot_flops K s ->
  let s1 := (if trk_flops s then let '(sa, fl) := g_flops n s p in set_flops (flops_ sa + fl)%Z sa else s) in
  InvS s1 /\ ExtI s s1 /\ write_ s1 = write_ s /\ sizes_ s1 = sizes_ s /\ sizes_max s1 = sizes_max s /\
  tot_flops (K ++ [p]) s1.
Proof.
  intros HS HG Hch Hk T. cbn zeta. destruct (trk_flops s) eqn:Ts.
  - destruct (g_flops_inv s p HS HG) as (A & B & C); [right; left; exact Hch|].
    specialize (C Hk). destruct (g_flops n s p) as [sa fl]. cbn [fst snd] in *.
    split; [apply (InvS_struct sa); [unfold same_struct; repeat split; reflexivity|exact A]|].
    split; [apply (ExtI_trans _ sa); [apply Ext_ExtI, B|unfold ExtI; repeat split; auto]|].
    assert (B' := B). destruct B' as (_&_&_&B4&_&_&B7&B8&B9&B10&_).
    split; [exact B8|]. split; [exact B9|]. split; [exact B10|].
    pose proof (tot_flops_Ext K s sa B T) as T'. unfold tot_flops in *. cbn. intros _.
    rewrite B4 in T'. destruct (T' Ts) as [Ta Tb].
    change (cflops (set_flops (flops_ sa + fl)%Z sa)) with (cflops sa).
    change (rd i_flops (set_flops (flops_ sa + fl)%Z sa)) with (rd i_flops sa). split.
    + assert (Ecf : cflops sa p = fl) by (unfold cflops; rewrite C; reflexivity).
      rewrite map_app, zsum_app, Ta. cbn [map]. rewrite zsum_cons, Ecf. change (zsum []) with 0%Z. lia.
    + intros q Hq. apply in_app_iff in Hq. destruct Hq as [Hq|[<-|[]]]; [apply Tb, Hq|rewrite C; discriminate].
  - split; [exact HS|]. split; [unfold ExtI; repeat split; auto|]. repeat split; try reflexivity; try congruence; try discriminate.
Qed.
Lemma track_write K p s : InvS s -> good_node p -> nget p (info s) <> None -> tot_write K s ->
  let s1 := (if trk_write s then let '(sa, sz) := g_size n s p in set_write (write_ sa + sz)%Z sa else s) in
  InvS s1 /\ ExtI s s1 /\ flops_ s1 = flops_ s /\ sizes_ s1 = sizes_ s /\ sizes_max s1 = sizes_max s /\
  tot_write (K ++ [p]) s1.
Proof.
  intros HS HG Hk T. cbn zeta. destruct (trk_write s) eqn:Ts.
  - destruct (g_size_inv s p HS HG) as [(A & B & _ & C)|C]; [|congruence].
    destruct (g_size n s p) as [sa sz]. cbn [fst snd] in *.
    split; [apply (InvS_struct sa); [unfold same_struct; repeat split; reflexivity|exact A]|].
    split; [apply (ExtI_trans _ sa); [apply Ext_ExtI, B|unfold ExtI; repeat split; auto]|].
    assert (B' := B). destruct B' as (_&_&_&_&B5&_&B7&B8&B9&B10&_).
    split; [exact B7|]. split; [exact B9|]. split; [exact B10|].
    pose proof (tot_write_Ext K s sa B T) as T'. unfold tot_write in *. cbn. intros _.
    rewrite B5 in T'. destruct (T' Ts) as [Ta Tb].
    change (csize (set_write (write_ sa + sz)%Z sa)) with (csize sa).
    change (rd i_size (set_write (write_ sa + sz)%Z sa)) with (rd i_size sa). split.
    + assert (Ecf : csize sa p = sz) by (unfold csize; rewrite C; reflexivity).
      rewrite map_app, zsum_app, Ta. cbn [map]. rewrite zsum_cons, Ecf. change (zsum []) with 0%Z. lia.
    + intros q Hq. apply in_app_iff in Hq. destruct Hq as [Hq|[<-|[]]]; [apply Tb, Hq|rewrite C; discriminate].
  - split; [exact HS|]. split; [unfold ExtI; repeat split; auto|]. repeat split; try reflexivity; try congruence; try discriminate.
Qed.
Lemma count_occ_snoc (l : list Z) x z : count_occ Z.eq_dec (l ++ [x]) z = count_occ Z.eq_dec l z + (if Z.eqb z x then 1 else 0).
Proof.
  rewrite count_occ_app. cbn. destruct (Z.eq_dec x z), (Z.eqb_spec z x); try congruence; lia.
Qed.
Lemma track_size K p s : InvS s -> good_node p -> nget p (info s) <> None -> tot_size K s ->
  let s1 := (if trk_size s then let '(sa, sz) := g_size n s p in set_sizes (mc_add sz (sizes_mc sa)) sa else s) in
  InvS s1 /\ ExtI s s1 /\ flops_ s1 = flops_ s /\ write_ s1 = write_ s /\
  tot_size (K ++ [p]) s1.
Proof.
  intros HS HG Hk T. cbn zeta. destruct (trk_size s) eqn:Ts.
  - destruct (g_size_inv s p HS HG) as [(A & B & _ & C)|C]; [|congruence].
    destruct (g_size n s p) as [sa sz]. cbn [fst snd] in *.
    split; [apply (InvS_struct sa); [unfold same_struct; repeat split; reflexivity|exact A]|].
    split; [apply (ExtI_trans _ sa); [apply Ext_ExtI, B|unfold ExtI; repeat split; auto]|].
    assert (B' := B). destruct B' as (_&_&_&_&_&B6&B7&B8&_).
    split; [exact B7|]. split; [exact B8|].
    pose proof (tot_size_Ext K s sa B T) as T'. unfold tot_size in *. intros _.
    rewrite B6 in T'. destruct (T' Ts) as (Ta & Tb & Tc).
    change (mc_ok (mc_add sz (sizes_mc sa)) /\
            (forall z, cget0 z (fst (mc_add sz (sizes_mc sa))) = count_occ Z.eq_dec (map (csize sa) (K ++ [p])) z) /\
            (forall q, In q (K ++ [p]) -> rd i_size sa q <> None)).
    split; [apply mc_add_ok, Ta|]. split.
    + intros z. rewrite mc_add_count. cbn [fst sizes_mc]. rewrite Tb, map_app. cbn [map]. rewrite count_occ_snoc.
      assert (Ecf : csize sa p = sz) by (unfold csize; rewrite C; reflexivity). rewrite Ecf. reflexivity.
    + intros q Hq. apply in_app_iff in Hq. destruct Hq as [Hq|[<-|[]]]; [apply Tc, Hq|rewrite C; discriminate].
  - split; [exact HS|]. split; [unfold ExtI; repeat split; auto|]. repeat split; try reflexivity; try congruence; try discriminate.
Qed.

Lemma InvS_children_add p l r s : InvS s -> nget p (children s) = None ->
  good_node l -> good_node r -> inrange n (l ++ r) -> Permutation p (l ++ r) ->
  InvS (set_children (nset p (l, r) (children s)) s).
Proof.
  intros (H1&H2&H3&H5) Hnone Gl Gr HR HP. destruct H1 as [Hnd Hc].
  unfold InvS. cbn [set_children children info sliced mult]. split; [|split; [exact H2|split; [|exact H5]]].
  - split; [apply NoDup_nkeys_nset, Hnd|]. intros q l' r' Hq. destruct (node_eq_dec q p) as [->|Hn].
    + rewrite nget_nset_same in Hq. injection Hq as <- <-. auto.
    + rewrite nget_nset_other in Hq by exact Hn. apply Hc, Hq.
  - intros nd' i Hi. destruct (H3 nd' i Hi) as [G (A&B&C&D)]. split; [exact G|]. unfold node_inv. repeat split; auto.
    + intros inv Hinv. destruct (B inv Hinv) as [Hl|(l' & r' & E & Hok)]; [left; exact Hl|right].
      exists l', r'. split; [|exact Hok]. rewrite nget_nset_other; [exact E|]. intros ->. congruence.
    + intros z Hz. destruct (D z Hz) as [Hl|(l' & r' & E & Hok)]; [left; exact Hl|right].
      exists l', r'. split; [|exact Hok]. rewrite nget_nset_other; [exact E|]. intros ->. congruence.
Qed.

Definition pair_pre (s : tstate) (x y : node) (lg : option legs) (cost size : option Z) : Prop :=
  good_node x /\ good_node y /\ inrange n (x ++ y) /\ nget (nunion x y) (children s) = None /\
  (forall l, lg = Some l -> legs_ok n (sliced s) (nunion x y) l) /\
  (forall c, cost = Some c -> forall inv,
      inv_ok n (sliced s) (fst (order_pair x y)) (snd (order_pair x y)) inv -> c = size_of (szd n) (lkeys inv)) /\
  (forall z, size = Some z -> size_spec (sliced s) (nunion x y) z).

Lemma node_inv_set_legs ch sl nd i v : node_inv ch sl nd i -> legs_ok n sl nd v -> node_inv ch sl nd (w_legs (Some v) i).
Proof. intros H Hv. apply node_inv_w_legs; assumption. Qed.
Lemma node_inv_set_size ch sl nd i z : node_inv ch sl nd i -> size_spec sl nd z -> node_inv ch sl nd (w_size (Some z) i).
Proof. intros (A&B&C&D) Hz. unfold node_inv. cbn. repeat split; auto. intros z' [= <-]. exact Hz. Qed.
Lemma node_inv_set_flops ch sl nd i z : node_inv ch sl nd i -> flops_spec ch sl nd z -> node_inv ch sl nd (w_flops (Some z) i).
Proof. intros (A&B&C&D) Hz. unfold node_inv. cbn. repeat split; auto. intros z' [= <-]. exact Hz. Qed.

Theorem contract_pair_inv x y lg cost size s : InvC s -> pair_pre s x y lg cost size ->
  InvC (contract_pair n x y lg cost size s).
Proof.
  intros HI (Gx & Gy & HR & Hnone & Plg & Pc & Pz).
  set (p := nunion x y) in *.
  assert (HPxy : Permutation p (x ++ y)).
  { apply nunion_perm; [apply (NoDup_app_elim _ _ (proj1 HR))|].
    intros k Hky Hkx. destruct HR as [ND _].
    clear -ND Hky Hkx. induction x as [|a x IH]; [contradiction|]. cbn in ND. inversion ND as [|? ? Hna ND']; subst.
    destruct Hkx as [->|Hkx]; [apply Hna, in_app_iff; right; exact Hky|apply IH; assumption]. }
  assert (Gp : good_node p).
  { split.
    - split; [apply (Permutation_NoDup (Permutation_sym HPxy)), HR|].
      intros k Hk. apply HR. apply (Permutation_in _ HPxy), Hk.
    - intros E. rewrite E in HPxy. apply Permutation_nil in HPxy. destruct Gx as [_ Hx]. destruct x; [congruence|discriminate]. }
  (* the three _add_node calls *)
  destruct (add_node_inv x s HI Gx) as (I1 & C1 & S1 & _ & _).
  destruct (add_node_inv y _ I1 Gy) as (I2 & C2 & S2 & _ & _).
  destruct (add_node_inv p _ I2 Gp) as (I3 & C3 & S3 & K3 & _).
  unfold contract_pair. fold p.
  set (s1 := add_node p (add_node y (add_node x s))) in *.
  assert (Ech1 : children s1 = children s) by congruence.
  assert (Esl1 : sliced s1 = sliced s) by congruence.
  destruct I3 as [HS1 HT1].
  set (K := nkeys (children s)) in *.
  assert (HT1' : tot_flops K s1 /\ tot_write K s1 /\ tot_size K s1).
  { unfold K. rewrite <- Ech1. apply totals_split. exact HT1. }
  (* children[parent] = (l, r) *)
  set (lr := order_pair x y).
  assert (Hlr : good_node (fst lr) /\ good_node (snd lr) /\ inrange n (fst lr ++ snd lr) /\ Permutation p (fst lr ++ snd lr)).
  { unfold lr, order_pair. destruct (if Nat.eqb (length x) (length y) then _ else _); cbn [fst snd].
    - auto.
    - split; [exact Gy|]. split; [exact Gx|]. split.
      + destruct HR as [ND Hb]. split; [apply (Permutation_NoDup (Permutation_app_comm x y)), ND|].
        intros k Hk. apply Hb. apply (Permutation_in _ (Permutation_app_comm y x)), Hk.
      + rewrite HPxy. apply Permutation_app_comm. }
  destruct Hlr as (Gl & Gr & HRlr & HPlr).
  set (s2 := set_children (nset p lr (children s1)) s1).
  assert (HS2 : InvS s2).
  { unfold s2. rewrite (surjective_pairing lr). apply InvS_children_add; try assumption. rewrite Ech1. exact Hnone. }
  assert (Hpk : ~ In p K) by (apply nget_none_notin, Hnone).
  assert (Hch2 : nget p (children s2) = Some lr) by (unfold s2; cbn; apply nget_nset_same).
  assert (HK2 : nkeys (children s2) = K ++ [p]).
  { unfold s2. cbn [set_children children]. rewrite Ech1. apply nkeys_nset_notin, Hnone. }
  (* precomputed figures: three cache writes on the parent *)
  assert (Hwrite : forall f sa, InvS sa -> children sa = children s2 -> sliced sa = sliced s ->
            nget p (info sa) <> None ->
            tot_flops K sa /\ tot_write K sa /\ tot_size K sa ->
            (forall i, nget p (info sa) = Some i -> node_inv (children sa) (sliced sa) p (f i)) ->
            InvS (upd_info p f sa) /\ children (upd_info p f sa) = children s2 /\ sliced (upd_info p f sa) = sliced s /\
            nget p (info (upd_info p f sa)) <> None /\
            (tot_flops K (upd_info p f sa) /\ tot_write K (upd_info p f sa) /\ tot_size K (upd_info p f sa))).
  { intros f sa HSa Ea Esa Hka Ta Hf.
    destruct (upd_info_fields p f sa) as (F1&F2&F3&F4&F5&F6&F7&F8&F9&F10).
    split; [apply InvS_upd; assumption|]. split; [congruence|]. split; [congruence|]. split.
    - unfold upd_info. destruct (nget p (info sa)) as [i|] eqn:Ei; [|congruence]. cbn. rewrite nget_nset_same. discriminate.
    - apply (totals_other_node sa _ K p); auto.
      intros q Hq. unfold upd_info. destruct (nget p (info sa)); cbn; [apply nget_nset_other, Hq|reflexivity]. }
  assert (HT2 : tot_flops K s2 /\ tot_write K s2 /\ tot_size K s2) by exact HT1'.
  assert (Hk2 : nget p (info s2) <> None) by exact K3.
  set (s3 := match lg with Some l => upd_info p (w_legs (Some l)) s2 | None => s2 end).
  assert (H3 : InvS s3 /\ children s3 = children s2 /\ sliced s3 = sliced s /\ nget p (info s3) <> None /\
               (tot_flops K s3 /\ tot_write K s3 /\ tot_size K s3)).
  { unfold s3. destruct lg as [l|]; [|exact (conj HS2 (conj eq_refl (conj Esl1 (conj Hk2 HT2))))].
    apply Hwrite; try assumption; try reflexivity.
    intros i Hi. destruct HS2 as (_&_&Hn&_). apply node_inv_set_legs; [apply (Hn p i Hi)|].
    change (sliced s2) with (sliced s1). rewrite Esl1. apply Plg. reflexivity. }
  destruct H3 as (HS3 & Ech3 & Esl3 & Hk3 & HT3).
  set (s4 := match cost with Some c => upd_info p (w_flops (Some c)) s3 | None => s3 end).
  assert (H4 : InvS s4 /\ children s4 = children s2 /\ sliced s4 = sliced s /\ nget p (info s4) <> None /\
               (tot_flops K s4 /\ tot_write K s4 /\ tot_size K s4)).
  { unfold s4. destruct cost as [c|]; [|exact (conj HS3 (conj Ech3 (conj Esl3 (conj Hk3 HT3))))].
    apply Hwrite; try assumption.
    intros i Hi. assert (HS3' := HS3). destruct HS3' as (_&_&Hn&_). apply node_inv_set_flops; [apply (Hn p i Hi)|].
    right. exists (fst lr), (snd lr). split; [rewrite Ech3, <- surjective_pairing; exact Hch2|].
    rewrite Esl3. apply Pc. reflexivity. }
  destruct H4 as (HS4 & Ech4 & Esl4 & Hk4 & HT4).
  set (s5 := match size with Some c => upd_info p (w_size (Some c)) s4 | None => s4 end).
  assert (H5 : InvS s5 /\ children s5 = children s2 /\ sliced s5 = sliced s /\ nget p (info s5) <> None /\
               (tot_flops K s5 /\ tot_write K s5 /\ tot_size K s5)).
  { unfold s5. destruct size as [c|]; [|exact (conj HS4 (conj Ech4 (conj Esl4 (conj Hk4 HT4))))].
    apply Hwrite; try assumption.
    intros i Hi. assert (HS4' := HS4). destruct HS4' as (_&_&Hn&_). apply node_inv_set_size; [apply (Hn p i Hi)|].
    rewrite Esl4. apply Pz. reflexivity. }
  destruct H5 as (HS5 & Ech5 & Esl5 & Hk5 & (T5f & T5w & T5s)).
  (* _update_tracked *)
  unfold update_tracked.
  assert (Hch5 : nget p (children s5) <> None) by (rewrite Ech5, Hch2; discriminate).
  destruct (track_flops K p s5 HS5 Gp Hch5 Hk5 T5f) as (HS6 & E6 & W6 & Z6 & M6 & T6f).
  set (s6 := if trk_flops s5 then _ else s5) in *.
  assert (Hk6 : nget p (info s6) <> None).
  { apply nget_in_keys. destruct E6 as (_&_&_&_&_&_&Ek&_). unfold nkeys in *. rewrite Ek. apply nget_in_keys, Hk5. }
  assert (T6w : tot_write K s6) by (apply (tot_write_mono K s5 s6); [apply E6|exact W6|apply E6|exact T5w]).
  assert (T6s : tot_size K s6) by (apply (tot_size_mono K s5 s6); [apply E6|exact Z6|exact M6|apply E6|exact T5s]).
  destruct (track_write K p s6 HS6 Gp Hk6 T6w) as (HS7 & E7 & F7 & Z7 & M7 & T7w).
  set (s7 := if trk_write s6 then _ else s6) in *.
  assert (Hk7 : nget p (info s7) <> None).
  { apply nget_in_keys. destruct E7 as (_&_&_&_&_&_&Ek&_). unfold nkeys in *. rewrite Ek. apply nget_in_keys, Hk6. }
  assert (T7f : tot_flops (K ++ [p]) s7) by (apply (tot_flops_mono _ s6 s7); [apply E7|exact F7|apply E7|exact T6f]).
  assert (T7s : tot_size K s7) by (apply (tot_size_mono K s6 s7); [apply E7|exact Z7|exact M7|apply E7|exact T6s]).
  destruct (track_size K p s7 HS7 Gp Hk7 T7s) as (HS8 & E8 & F8 & W8 & T8s).
  set (s8 := if trk_size s7 then _ else s7) in *.
  split; [exact HS8|]. apply totals_split.
  assert (Ech8 : children s8 = children s2).
  { destruct E8 as (A&_), E7 as (B&_), E6 as (C&_). congruence. }
  rewrite Ech8, HK2. split; [|split; [|exact T8s]].
  - apply (tot_flops_mono _ s7 s8); [apply E8|exact F8|apply E8|exact T7f].
  - apply (tot_write_mono _ s7 s8); [apply E8|exact W8|apply E8|exact T7w].
Qed.

(* ======================================================================== *)
(* Part F : steps, traces, the fresh tree                                    *)
(* stated preconditions of the primitives covered so far; the others are not covered (False) *)
Definition prim_pre0 (p : prim) (s : tstate) : Prop :=
  match p with
  | PAddNode nd => good_node nd
  | PRemoveNode nd => length nd = 1 \/ (In nd (nkeys (children s)) /\ nget nd (info s) <> None)
  | PPair x y lg c z => pair_pre s x y lg c z
  | PGet GLegs nd | PGet GInvolved nd | PGet GSize nd => good_node nd
  | PGet GFlops nd => good_node nd /\ flops_pre s nd
  | PCoresClear | PCoreAdd _ => True
  | _ => False
  end.

Theorem step_preserves_InvC0 p s : InvC s -> prim_pre0 p s -> InvC (step n p s).
Proof.
  intros HI Hp. destruct p as [nd|nd|x y lg c z|g nd| | | | | | | | | | |k]; cbn [prim_pre0] in Hp; try contradiction; cbn [step].
  - apply add_node_inv; assumption.
  - destruct Hp as [E1|[Hin Hk]]; [apply remove_node_leaf_inv|apply remove_node_internal_inv]; assumption.
  - apply contract_pair_inv; assumption.
  - destruct HI as [HS HT]. destruct g; try contradiction; cbn [do_get].
    + destruct (g_legs_inv s nd HS Hp) as (A & B & _). split; [exact A|apply (totals_Ext s), HT; exact B].
    + destruct (g_involved_inv s nd HS Hp) as (A & B & _). split; [exact A|apply (totals_Ext s), HT; exact B].
    + destruct (g_size_inv s nd HS Hp) as [(A & B & _)|E].
      * split; [exact A|apply (totals_Ext s), HT; exact B].
      * (* the node has no info entry: only the legs getter ran, then the write raised *)
        unfold g_size. destruct (rd i_size s nd) eqn:Er; [split; assumption|].
        destruct (g_legs_inv s nd HS Hp) as (A & B & _). destruct (g_legs n s nd) as [s1 l]. cbn [fst snd] in *.
        destruct (InvC_upd nd (w_size (Some (size_of (szd n) (lkeys l)))) s1 A) as [A' B'].
        { intros i Hi. exfalso. assert (Hk : nget nd (info s1) <> None) by congruence.
          apply nget_in_keys in Hk. destruct B as (_&_&_&_&_&_&_&_&_&_&_&Ek&_). unfold nkeys in *. rewrite Ek in Hk.
          apply nget_in_keys in Hk. congruence. }
        split; [exact A'|apply (totals_Ext s), HT; eapply Ext_trans; eassumption].
    + destruct Hp as [HG Hpre]. destruct (g_flops_inv s nd HS HG Hpre) as (A & B & _).
      split; [exact A|apply (totals_Ext s), HT; exact B].
  - apply (InvC_same s); [unfold same_cost_fields; repeat split; reflexivity|exact HI].
  - destruct (memb k (cores s)); [exact HI|]. apply (InvC_same s); [unfold same_cost_fields; repeat split; reflexivity|exact HI].
Qed.

Theorem run_preserves_InvC0 tr : forall s, InvC s -> pre_trace n prim_pre0 tr s -> InvC (run n tr s).
Proof. intros s HI Hp. apply (run_good n InvC prim_pre0 step_preserves_InvC0 tr s HI Hp). Qed.

(* ContractionTree.__init__ *)
Lemma multiplicity_nil : multiplicity n [] = 1%Z.
Proof. reflexivity. Qed.
Lemma NoDup_app_intro' {A} (a b : list A) : NoDup a -> NoDup b -> (forall x, In x a -> ~ In x b) -> NoDup (a ++ b).
Proof.
  induction a as [|x a IH]; cbn; intros Ha Hb Hd; [exact Hb|].
  inversion Ha as [|? ? Hnin Ha']; subst. constructor.
  - rewrite in_app_iff. intros [H|H]; [contradiction|]. apply (Hd x); [left; reflexivity|exact H].
  - apply IH; [exact Ha'|exact Hb|]. intros y Hy. apply Hd. right; exact Hy.
Qed.
Lemma nget_leaves_root k c : forall m, nget k (map (fun i => ([i], noinfo)) (seq m c) ++ [(root n, noinfo)]) <> None ->
  (exists i, k = [i] /\ m <= i < m + c) \/ k = root n.
Proof.
  induction c as [|c IH]; intros m; cbn [seq map app nget].
  - destruct (node_eqb (root n) k) eqn:E; [apply node_eqb_eq in E; auto|congruence].
  - destruct (node_eqb [m] k) eqn:E.
    + apply node_eqb_eq in E. intros _. left. exists m. split; [auto|lia].
    + intros H. destruct (IH (S m) H) as [(i & -> & Hi)|Hr]; [left; exists i; split; [reflexivity|lia]|right; exact Hr].
Qed.
Theorem init_state_InvC : InvC (init_state n).
Proof.
  assert (Hroot : good_node (root n)).
  { unfold root. split; [split; [apply seq_NoDup|intros k Hk; apply in_seq in Hk; lia]|]. destruct N; [lia|discriminate]. }
  split; [|unfold totals_inv; cbn; repeat split; discriminate].
  unfold InvS, init_state. cbn [children info sliced mult]. split; [|split; [|split; [|reflexivity]]].
  - split; [constructor|]. intros p l r H. discriminate.
  - unfold nkeys. rewrite map_app, map_map. cbn [map fst].
    apply NoDup_app_intro'.
    + apply FinFun.Injective_map_NoDup; [intros a b H; congruence|apply seq_NoDup].
    + repeat constructor. cbn. tauto.
    + intros k Hk [<-|[]]. apply in_map_iff in Hk. destruct Hk as (i & Hi & _).
      unfold root in Hi. assert (length [i] = length (seq 0 N)) by congruence. cbn in H. rewrite seq_length in H. lia.
  - intros nd i Hi. assert (Hk : nget nd (map (fun i => ([i], noinfo)) (seq 0 N) ++ [(root n, noinfo)]) <> None) by congruence.
    assert (Ei : i = noinfo).
    { apply nget_In in Hi. apply in_app_iff in Hi. destruct Hi as [Hi|[Hi|[]]]; [|congruence].
      apply in_map_iff in Hi. destruct Hi as (j & Hj & _). congruence. }
    subst i. split; [|apply node_inv_noinfo].
    destruct (nget_leaves_root nd N 0 Hk) as [(j & -> & Hj)| -> ]; [|exact Hroot].
    split; [|discriminate]. split; [repeat constructor; cbn; tauto|]. intros k [<-|[]]. lia.
Qed.

(* totals_eq_rebuild, partial: over traces of the primitives covered by prim_pre0 *)
Theorem trace_from_fresh_InvC0 tr : pre_trace n prim_pre0 tr (init_state n) -> InvC (run n tr (init_state n)).
Proof. apply run_preserves_InvC0, init_state_InvC. Qed.

(* ======================================================================== *)
(* Part G : the set-level figures ARE the from-scratch figures of Model/Net.v  *)
Lemma perm_inrange a b : Permutation a b -> inrange n b -> inrange n a.
Proof.
  intros HP [ND Hb]. split; [apply (Permutation_NoDup (Permutation_sym HP)), ND|].
  intros k Hk. apply Hb, (Permutation_in _ HP), Hk.
Qed.
Lemma sub_legs_slegs_ok sl nd t : good_node nd -> Permutation (leaves t) nd -> slegs_ok n sl nd (sub_legs n sl t).
Proof.
  intros [HR _] HP. destruct (sub_legs_spec n sl t (perm_inrange _ _ HP HR)) as [W G].
  split; [exact W|]. intros j. rewrite G. apply spec_count_perm, HP.
Qed.
Theorem cached_legs_are_net s nd i lg t : InvC s -> nget nd (info s) = Some i -> i_legs i = Some lg ->
  length nd <> N -> Permutation (leaves t) nd ->
  wfl lg /\ forall j, lget0 j lg = lget0 j (sub_legs n (sliced s) t).
Proof.
  intros [(_&_&H3&_) _] Hi Hl HN' HP. destruct (H3 nd i Hi) as [G (A&_)].
  apply A in Hl. apply legs_ok_nonroot in Hl; [|exact HN']. destruct Hl as [W Gl]. split; [exact W|].
  intros j. rewrite Gl. destruct (sub_legs_slegs_ok (sliced s) nd t G HP) as [_ G']. rewrite G'. reflexivity.
Qed.
Theorem cached_size_is_net s nd i z t : InvC s -> nget nd (info s) = Some i -> i_size i = Some z ->
  length nd <> N -> Permutation (leaves t) nd -> z = node_size n (sliced s) false t.
Proof.
  intros [(_&_&H3&_) _] Hi Hz HN' HP. destruct (H3 nd i Hi) as [G (_&_&C&_)].
  unfold node_size. apply (C z Hz). apply legs_ok_nonroot; [exact HN'|].
  destruct t; apply sub_legs_slegs_ok; assumption.
Qed.
Theorem cached_root_size_is_net s nd i z t : InvC s -> nget nd (info s) = Some i -> i_size i = Some z ->
  length nd = N -> z = node_size n (sliced s) true (Node t t).
Proof.
  intros [(_&_&H3&_) _] Hi Hz EN. destruct (H3 nd i Hi) as [G (_&_&C&_)].
  unfold node_size. cbn [node_legs]. apply (C z Hz), legs_ok_root, EN.
Qed.
Theorem cached_flops_is_net s nd i z l r a b : InvC s -> nget nd (info s) = Some i -> i_flops i = Some z ->
  nget nd (children s) = Some (l, r) -> Permutation (leaves a) l -> Permutation (leaves b) r ->
  z = node_flops n (sliced s) (Node a b).
Proof.
  intros [(Hc&_&H3&_) _] Hi Hz Hch HPa HPb. destruct (H3 nd i Hi) as [G (_&_&_&D)].
  destruct (D z Hz) as [[E1 _]|(l' & r' & E & Hok)].
  - exfalso. apply (leaf_not_parent _ nd l r Hc Hch E1).
  - rewrite Hch in E. injection E as <- <-. cbn [node_flops involved]. apply Hok.
    destruct Hc as [_ Hc]. destruct (Hc nd l r Hch) as (Gl & Gr & _).
    apply union2_inv_ok; apply sub_legs_slegs_ok; assumption.
Qed.

(* ======================================================================== *)
(* Part H : contract_stats                                                   *)
Definition sumf (K : list node) (s : tstate) : Prop :=
  flops_ s = zsum (map (cflops s) K) /\ forall p, In p K -> rd i_flops s p <> None.
Definition sumw (K : list node) (s : tstate) : Prop :=
  write_ s = zsum (map (csize s) K) /\ forall p, In p K -> rd i_size s p <> None.
Definition sums (K : list node) (s : tstate) : Prop :=
  mc_ok (sizes_mc s) /\ (forall z, cget0 z (sizes_ s) = count_occ Z.eq_dec (map (csize s) K) z) /\
  forall p, In p K -> rd i_size s p <> None.
Definition raw3 K s := sumf K s /\ sumw K s /\ sums K s.

(* the three raw sums survive any cache fill that leaves their own accumulator alone *)
Lemma raw3_ExtI K s s' : ExtI s s' -> flops_ s' = flops_ s -> write_ s' = write_ s ->
  sizes_ s' = sizes_ s -> sizes_max s' = sizes_max s -> raw3 K s -> raw3 K s'.
Proof.
  intros (_&_&_&_&_&_&_&Msz&Mfl) E1 E2 E3 E4 ((Fa & Fb) & (Wa & Wb) & (Sa & Sb & Sc)).
  assert (Rf : forall p, In p K -> rd i_flops s' p = rd i_flops s p).
  { intros p Hp. specialize (Fb p Hp). destruct (rd i_flops s p) as [z|] eqn:Ez; [|congruence]. apply Mfl, Ez. }
  assert (Rs : forall p, In p K -> rd i_size s' p = rd i_size s p).
  { intros p Hp. specialize (Wb p Hp). destruct (rd i_size s p) as [z|] eqn:Ez; [|congruence]. apply Msz, Ez. }
  assert (Ecf : map (cflops s') K = map (cflops s) K) by (apply map_ext_in; intros p Hp; unfold cflops; rewrite Rf by exact Hp; reflexivity).
  assert (Ecs : map (csize s') K = map (csize s) K) by (apply map_ext_in; intros p Hp; unfold csize; rewrite Rs by exact Hp; reflexivity).
  unfold raw3, sumf, sumw, sums, sizes_mc. rewrite E1, E2, E3, E4, Ecf, Ecs.
  split; [split; [exact Fa|intros p Hp; rewrite Rf by exact Hp; apply Fb, Hp]|].
  split; [split; [exact Wa|intros p Hp; rewrite Rs by exact Hp; apply Wb, Hp]|].
  split; [exact Sa|]. split; [exact Sb|intros p Hp; rewrite Rs by exact Hp; apply Sc, Hp].
Qed.

Lemma stats_step K p s : InvS s -> good_node p -> nget p (children s) <> None -> nget p (info s) <> None ->
  raw3 K s ->
  let s' :=
    (let '(s1, fl) := g_flops n s p in
     let s2 := set_flops (flops_ s1 + fl)%Z s1 in
     let '(s3, sz) := g_size n s2 p in
     let s4 := set_write (write_ s3 + sz)%Z s3 in
     set_sizes (mc_add sz (sizes_mc s4)) s4) in
  InvS s' /\ ExtI s s' /\ raw3 (K ++ [p]) s'.
Proof.
  intros HS HG Hch Hk HR. cbn zeta.
  destruct (g_flops_inv s p HS HG) as (A1 & B1 & C1); [right; left; exact Hch|]. specialize (C1 Hk).
  destruct (g_flops n s p) as [s1 fl]. cbn [fst snd] in *.
  set (s2 := set_flops (flops_ s1 + fl)%Z s1).
  assert (HS2 : InvS s2) by (apply (InvS_struct s1); [unfold same_struct; repeat split; reflexivity|exact A1]).
  assert (Hk2 : nget p (info s2) <> None).
  { apply nget_in_keys. destruct B1 as (_&_&_&_&_&_&_&_&_&_&_&Ek&_). change (info s2) with (info s1). unfold nkeys in *. rewrite Ek. apply nget_in_keys, Hk. }
  destruct (g_size_inv s2 p HS2 HG) as [(A3 & B3 & _ & C3)|C3]; [|congruence].
  destruct (g_size n s2 p) as [s3 sz]. cbn [fst snd] in *.
  assert (E12 : ExtI s s2) by (apply (ExtI_trans _ s1); [apply Ext_ExtI, B1|unfold ExtI; repeat split; auto]).
  assert (E13 : ExtI s s3) by (apply (ExtI_trans _ s2); [exact E12|apply Ext_ExtI, B3]).
  (* raw sums in s1 (all accumulators untouched), then follow the three updates *)
  assert (B1' := B1). destruct B1' as (_&_&_&_&_&_&F7&F8&F9&F10&_).
  assert (R1 : raw3 K s1) by (apply (raw3_ExtI K s s1); [apply Ext_ExtI, B1|assumption..]).
  assert (B3' := B3). destruct B3' as (_&_&_&_&_&_&G7&G8&G9&G10&_). cbn in G7, G8, G9, G10.
  assert (Cf3 : rd i_flops s3 p = Some fl).
  { destruct B3 as (_&_&_&_&_&_&_&_&_&_&_&_&_&Mf). apply Mf. exact C1. }
  split; [apply (InvS_struct s3); [unfold same_struct; repeat split; reflexivity|exact A3]|].
  split; [apply (ExtI_trans _ s3); [exact E13|unfold ExtI; repeat split; auto]|].
  destruct R1 as ((Fa & Fb) & (Wa & Wb) & (Sa & Sb & Sc)).
  assert (M13f : forall q z, rd i_flops s1 q = Some z -> rd i_flops s3 q = Some z) by (intros q z Hq; apply B3; exact Hq).
  assert (M13s : forall q z, rd i_size s1 q = Some z -> rd i_size s3 q = Some z) by (intros q z Hq; apply B3; exact Hq).
  assert (Rf : forall q, In q K -> rd i_flops s3 q = rd i_flops s1 q).
  { intros q Hq. specialize (Fb q Hq). destruct (rd i_flops s1 q) as [z|] eqn:Ez; [|congruence]. apply M13f, Ez. }
  assert (Rs : forall q, In q K -> rd i_size s3 q = rd i_size s1 q).
  { intros q Hq. specialize (Wb q Hq). destruct (rd i_size s1 q) as [z|] eqn:Ez; [|congruence]. apply M13s, Ez. }
  assert (Ecf : map (cflops s3) K = map (cflops s1) K) by (apply map_ext_in; intros q Hq; unfold cflops; rewrite Rf by exact Hq; reflexivity).
  assert (Ecs : map (csize s3) K = map (csize s1) K) by (apply map_ext_in; intros q Hq; unfold csize; rewrite Rs by exact Hq; reflexivity).
  assert (Ep_f : cflops s3 p = fl) by (unfold cflops; rewrite Cf3; reflexivity).
  assert (Ep_s : csize s3 p = sz) by (unfold csize; rewrite C3; reflexivity).
  set (sF := set_sizes _ _).
  change (raw3 (K ++ [p]) sF). unfold raw3, sumf, sumw, sums.
  change (cflops sF) with (cflops s3). change (csize sF) with (csize s3).
  change (rd i_flops sF) with (rd i_flops s3). change (rd i_size sF) with (rd i_size s3).
  change (flops_ sF) with (flops_ s3). change (write_ sF) with (write_ s3 + sz)%Z.
  change (sizes_mc sF) with (mc_add sz (sizes_mc s3)). change (sizes_ sF) with (fst (mc_add sz (sizes_mc s3))).
  rewrite !map_app, Ecf, Ecs. cbn [map]. rewrite Ep_f, Ep_s.
  assert (Hpres_f : forall q, In q (K ++ [p]) -> rd i_flops s3 q <> None).
  { intros q Hq. apply in_app_iff in Hq. destruct Hq as [Hq|[<-|[]]]; [rewrite Rf by exact Hq; apply Fb, Hq|rewrite Cf3; discriminate]. }
  assert (Hpres_s : forall q, In q (K ++ [p]) -> rd i_size s3 q <> None).
  { intros q Hq. apply in_app_iff in Hq. destruct Hq as [Hq|[<-|[]]]; [rewrite Rs by exact Hq; apply Wb, Hq|rewrite C3; discriminate]. }
  assert (Emc : sizes_mc s3 = sizes_mc s1) by (unfold sizes_mc; cbn in G9, G10; congruence).
  split; [split; [|exact Hpres_f]|split; [split; [|exact Hpres_s]|split; [|split; [|exact Hpres_s]]]].
  - rewrite zsum_app, zsum_cons. change (zsum []) with 0%Z. rewrite G7. cbn. rewrite Fa. lia.
  - rewrite zsum_app, zsum_cons. change (zsum []) with 0%Z. rewrite G8. cbn. rewrite Wa. lia.
  - rewrite Emc. apply mc_add_ok, Sa.
  - intros z. rewrite mc_add_count, Emc. cbn [fst sizes_mc]. rewrite Sb, count_occ_snoc. reflexivity.
Qed.

Lemma child_key_good s p : InvS s -> In p (nkeys (children s)) -> good_node p.
Proof.
  intros ((_&Hc)&_) Hin. apply nget_in_keys in Hin. destruct (nget p (children s)) as [[l r]|] eqn:E; [|congruence].
  destruct (Hc p l r E) as (Gl & _ & HR & HP). split; [apply (perm_inrange _ _ HP HR)|].
  intros ->. apply Permutation_nil in HP. destruct Gl as [_ Hl]. destruct l; [congruence|discriminate].
Qed.
Lemma zsum_perm l1 l2 : Permutation l1 l2 -> zsum l1 = zsum l2.
Proof. induction 1; rewrite ?zsum_cons; try lia; congruence. Qed.

Lemma stats_body_inv nodes : forall K s, InvS s ->
  (forall plr, In plr nodes -> In (fst plr) (nkeys (children s)) /\ nget (fst plr) (info s) <> None) ->
  raw3 K s ->
  InvS (stats_body n s nodes) /\ ExtI s (stats_body n s nodes) /\ raw3 (K ++ map fst nodes) (stats_body n s nodes).
Proof.
  unfold stats_body. induction nodes as [|plr nodes IH]; intros K s HS Hn HR; cbn [fold_left map].
  - rewrite app_nil_r. split; [exact HS|]. split; [unfold ExtI; repeat split; auto|exact HR].
  - destruct (Hn plr (or_introl eq_refl)) as [Hin Hk].
    pose proof (child_key_good s _ HS Hin) as HG.
    assert (Hch : nget (fst plr) (children s) <> None) by (apply nget_in_keys, Hin).
    destruct (stats_step K (fst plr) s HS HG Hch Hk HR) as (A & B & C). cbn zeta in A, B, C.
    set (s' := let '(s1, fl) := g_flops n s (fst plr) in _) in *.
    destruct (IH (K ++ [fst plr]) s' A) as (A' & B' & C').
    + intros q Hq. destruct (Hn q (or_intror Hq)) as [Hqi Hqk]. destruct B as (Ech&_&_&_&_&_&Ek&_).
      rewrite Ech. split; [exact Hqi|]. apply nget_in_keys. unfold nkeys in *. rewrite Ek. apply nget_in_keys, Hqk.
    + exact C.
    + split; [exact A'|]. split; [eapply ExtI_trans; eassumption|]. rewrite <- app_assoc in C'. exact C'.
Qed.

(* contract_stats recomputes (force, or something untracked) only on a tree whose dfs traversal
   enumerates the keys of `children` (a complete tree) and whose internal nodes all have info *)
Definition stats_pre (force : bool) (s : tstate) : Prop :=
  force || negb (trk_flops s && trk_write s && trk_size s) = true ->
  exists nodes, traverse n s = Some nodes /\ Permutation (map fst nodes) (nkeys (children s)) /\
                forall p, In p (nkeys (children s)) -> nget p (info s) <> None.

Theorem contract_stats_inv force s : InvC s -> stats_pre force s -> InvC (contract_stats n force s).
Proof.
  intros [HS HT] Hpre. unfold contract_stats.
  destruct (force || negb (trk_flops s && trk_write s && trk_size s)) eqn:Ec; [|split; assumption].
  destruct (Hpre Ec) as (nodes & Htr & HP & Hinfo).
  set (s0 := set_sizes mc_empty (set_write 0%Z (set_flops 0%Z s))).
  change (traverse n s0) with (traverse n s). rewrite Htr.
  assert (HS0 : InvS s0) by (apply (InvS_struct s); [unfold same_struct; repeat split; reflexivity|exact HS]).
  assert (HR0 : raw3 [] s0).
  { unfold raw3, sumf, sumw, sums. split; [split; [reflexivity|intros q []]|]. split; [split; [reflexivity|intros q []]|].
    split; [exact mc_ok_empty|]. split; [intros z; reflexivity|intros q []]. }
  destruct (stats_body_inv nodes [] s0 HS0) as (A & B & C); [|exact HR0|].
  { intros plr Hp. assert (Hk : In (fst plr) (nkeys (children s))) by (apply (Permutation_in _ HP), in_map, Hp).
    split; [exact Hk|apply Hinfo, Hk]. }
  cbn [app] in C. set (sB := stats_body n s0 nodes) in *.
  split; [apply (InvS_struct sB); [unfold same_struct; repeat split; reflexivity|exact A]|].
  apply totals_split. change (children (set_trk true true true sB)) with (children sB).
  assert (Ech : children sB = children s) by apply B. rewrite Ech.
  destruct C as ((Fa & Fb) & (Wa & Wb) & (Sa & Sb & Sc)).
  assert (PK : forall q, In q (nkeys (children s)) -> In q (map fst nodes)).
  { intros q Hq. apply (Permutation_in _ (Permutation_sym HP)), Hq. }
  split; [|split]; intros _.
  - split; [|intros q Hq; apply Fb, PK, Hq].
    change (flops_ sB = zsum (map (cflops sB) (nkeys (children s)))). rewrite Fa.
    apply zsum_perm, Permutation_map, HP.
  - split; [|intros q Hq; apply Wb, PK, Hq].
    change (write_ sB = zsum (map (csize sB) (nkeys (children s)))). rewrite Wa.
    apply zsum_perm, Permutation_map, HP.
  - split; [exact Sa|]. split; [|intros q Hq; apply Sc, PK, Hq].
    intros z. change (cget0 z (sizes_ sB) = count_occ Z.eq_dec (map (csize sB) (nkeys (children s))) z).
    rewrite Sb. apply Permutation_count_occ, Permutation_map, HP.
Qed.

(* ======================================================================== *)
(* Part I : the covered alphabet, final form                                 *)
Definition prim_pre1 (p : prim) (s : tstate) : Prop :=
  match p with
  | PStats f => stats_pre f s
  | _ => prim_pre0 p s
  end.
Theorem step_preserves_InvC1 p s : InvC s -> prim_pre1 p s -> InvC (step n p s).
Proof.
  intros HI Hp. destruct p; try (apply step_preserves_InvC0; assumption).
  cbn [step]. apply contract_stats_inv; assumption.
Qed.



(* ======================================================================== *)
(* Part J : updates that do not touch the cost fields (recipes, index orders, contractor cache) *)
Definition cost_same (i i' : ninfo) : Prop :=
  i_legs i' = i_legs i /\ i_involved i' = i_involved i /\ i_size i' = i_size i /\ i_flops i' = i_flops i.
Lemma node_inv_cost_same ch sl nd i i' : cost_same i i' -> node_inv ch sl nd i -> node_inv ch sl nd i'.
Proof. intros (E1&E2&E3&E4) H. unfold node_inv in *. rewrite E1, E2, E3, E4. exact H. Qed.
Lemma cost_same_mono i i' : cost_same i i' -> mono i i'.
Proof. intros (_&_&E3&E4). unfold mono. rewrite E3, E4. auto. Qed.
Lemma InvC_upd_neutral nd f s : (forall i, cost_same i (f i)) -> InvC s ->
  InvC (upd_info nd f s) /\ Ext s (upd_info nd f s).
Proof.
  intros Hf [HS HT]. destruct (InvC_upd nd f s HS) as [A B].
  - intros i Hi. split; [|apply cost_same_mono, Hf]. apply (node_inv_cost_same _ _ _ i); [apply Hf|].
    destruct HS as (_&_&H3&_). apply (H3 nd i Hi).
  - split; [split; [exact A|apply (totals_Ext s); assumption]|exact B].
Qed.
Lemma fold_upd_neutral f (L : list (node * (node * node))) : (forall i, cost_same i (f i)) -> forall s, InvC s ->
  InvC (fold_left (fun s p => upd_info (fst p) f s) L s) /\ Ext s (fold_left (fun s p => upd_info (fst p) f s) L s).
Proof.
  intros Hf. induction L as [|p L IH]; intros s HI; cbn [fold_left]; [split; [exact HI|apply Ext_refl]|].
  destruct (InvC_upd_neutral (fst p) f s Hf HI) as [A B]. destruct (IH _ A) as [A' B'].
  split; [exact A'|eapply Ext_trans; eassumption].
Qed.
Lemma cost_same_drop_recipes i : cost_same i (drop_recipes i).
Proof. unfold cost_same. cbn. auto. Qed.
Lemma cost_same_drop_inds_recipes i : cost_same i (drop_inds_recipes i).
Proof. unfold cost_same. cbn. auto. Qed.
Lemma same_set_cores x s : same_cost_fields s (set_cores x s).
Proof. unfold same_cost_fields. repeat split; reflexivity. Qed.
Theorem reset_recipes_inv s : InvC s -> InvC (reset_recipes s).
Proof.
  intros HI. unfold reset_recipes, over_children. apply (InvC_same _ _ (same_set_cores _ _)).
  apply fold_upd_neutral; [apply cost_same_drop_recipes|exact HI].
Qed.
Theorem reset_inds_inv s : InvC s -> InvC (reset_inds s).
Proof.
  intros HI. unfold reset_inds, over_children. apply (InvC_same _ _ (same_set_cores _ _)).
  apply fold_upd_neutral; [apply cost_same_drop_inds_recipes|exact HI].
Qed.

(* ======================================================================== *)
(* Part K : what removing one more index does to the specification           *)
Lemma insert_by_perm {A} (le : A -> A -> bool) x l : Permutation (insert_by le x l) (x :: l).
Proof.
  induction l as [|y l IH]; cbn; [reflexivity|]. destruct (le y x); [|reflexivity].
  rewrite IH. apply perm_swap.
Qed.
Lemma sort_by_perm {A} (le : A -> A -> bool) l : Permutation (sort_by le l) l.
Proof.
  unfold sort_by. assert (H : forall acc, Permutation (fold_left (fun acc x => insert_by le x acc) l acc) (l ++ acc)).
  { induction l as [|x l IH]; intros acc; cbn [fold_left app]; [reflexivity|].
    rewrite IH, insert_by_perm. apply Permutation_sym, Permutation_middle. }
  rewrite H, app_nil_r. reflexivity.
Qed.
Lemma memb_iff a b j : (In j a <-> In j b) -> memb j a = memb j b.
Proof.
  intros H. destruct (memb j a) eqn:Ea, (memb j b) eqn:Eb; try reflexivity.
  - apply memb_In, H, memb_In in Ea. congruence.
  - apply memb_In, H, memb_In in Eb. congruence.
Qed.
Lemma cnt_ext sl1 sl2 : (forall j, memb j (removed sl1) = memb j (removed sl2)) ->
  forall S j, cnt n sl1 S j = cnt n sl2 S j.
Proof.
  intros H S j. induction S as [|k S IH]; cbn [cnt]; [reflexivity|]. rewrite IH. f_equal.
  unfold term_sl. f_equal. apply filter_ext. intros a. rewrite H. reflexivity.
Qed.

Section OneMore.
Variable sl sl' : list slinfo.
Variable ind : ix.
Hypothesis fresh : ~ In ind (removed sl).
Hypothesis Hrem : forall j, In j (removed sl') <-> j = ind \/ In j (removed sl).

Lemma memb_removed' j : memb j (removed sl') = memb j (removed sl) || Nat.eqb j ind.
Proof.
  destruct (Nat.eqb_spec j ind) as [->|Hn].
  - rewrite orb_true_r. apply memb_In, Hrem. left. reflexivity.
  - rewrite orb_false_r. apply memb_iff. rewrite Hrem. tauto.
Qed.
Lemma cnt_more S j : cnt n sl' S j = if Nat.eqb j ind then 0 else cnt n sl S j.
Proof.
  rewrite <- (cnt_slice n sl ind None S j). apply cnt_ext. intros k.
  rewrite memb_removed'. unfold removed. rewrite map_app. cbn. unfold memb. rewrite existsb_app. cbn.
  rewrite orb_false_r. reflexivity.
Qed.
Lemma spec_more S j : spec_count n sl' S j = if Nat.eqb j ind then 0 else spec_count n sl S j.
Proof. unfold spec_count. rewrite cnt_more. destruct (Nat.eqb j ind); [destruct (0 <? appear n j); reflexivity|reflexivity]. Qed.

Lemma lget_map0 j L : lget j (map (fun k => (k, 0)) L) = if memb j L then Some 0 else None.
Proof.
  induction L as [|a L IH]; cbn; [reflexivity|]. rewrite Nat.eqb_sym. destruct (Nat.eqb j a); cbn; [reflexivity|exact IH].
Qed.
Lemma memb_filter j f L : memb j (filter f L) = memb j L && f j.
Proof.
  destruct (memb j (filter f L)) eqn:E.
  - apply memb_In, filter_In in E. destruct E as [E1 E2]. apply memb_In in E1. rewrite E1, E2. reflexivity.
  - apply memb_false in E. destruct (memb j L) eqn:E1; [|reflexivity]. destruct (f j) eqn:E2; [|reflexivity].
    exfalso. apply E, filter_In. split; [apply memb_In, E1|exact E2].
Qed.
Lemma root_legs_more j : lget j (root_legs n sl') = if Nat.eqb j ind then None else lget j (root_legs n sl).
Proof.
  unfold root_legs. rewrite !lget_map0, !memb_filter, memb_removed'.
  destruct (Nat.eqb j ind); [rewrite orb_true_r, andb_false_r; reflexivity|rewrite orb_false_r; reflexivity].
Qed.

(* dict.pop(ind) *)
Lemma ldel_notin j d : ~ In j (lkeys d) -> ldel j d = d.
Proof.
  unfold lkeys. induction d as [|[k w] d IH]; cbn; [reflexivity|]. intros H.
  destruct (Nat.eqb_spec k j); [subst; tauto|]. f_equal. apply IH. tauto.
Qed.
Lemma lkeys_ldel j d : NoDup (lkeys d) -> lkeys (ldel j d) = filter (fun k => negb (Nat.eqb k j)) (lkeys d).
Proof.
  unfold lkeys. induction d as [|[k w] d IH]; cbn; [reflexivity|]. intros ND. inversion ND as [|? ? Hn ND']; subst.
  destruct (Nat.eqb_spec k j) as [->|Hkj]; cbn.
  - symmetry. clear -Hn. induction (map fst d) as [|a l IHl]; cbn; [reflexivity|].
    destruct (Nat.eqb_spec a j) as [->|]; cbn; [exfalso; apply Hn; left; reflexivity|]. f_equal. apply IHl. intros H. apply Hn. right. exact H.
  - f_equal. apply IH, ND'.
Qed.
Lemma lget_ldel j i d : NoDup (lkeys d) -> lget i (ldel j d) = if Nat.eqb i j then None else lget i d.
Proof.
  unfold lkeys. induction d as [|[k w] d IH]; cbn; [destruct (Nat.eqb i j); reflexivity|]. intros ND.
  inversion ND as [|? ? Hn ND']; subst. destruct (Nat.eqb_spec k j) as [->|Hkj]; cbn.
  - destruct (Nat.eqb_spec i j) as [->|Hij].
    + apply lget_none_notin. exact Hn.
    + destruct (Nat.eqb_spec j i); [congruence|reflexivity].
  - destruct (Nat.eqb_spec k i) as [->|Hki].
    + destruct (Nat.eqb_spec i j); [congruence|reflexivity].
    + apply IH, ND'.
Qed.
Lemma wfl_ldel j d : wfl d -> wfl (ldel j d).
Proof.
  intros [ND Hp]. split.
  - rewrite lkeys_ldel by exact ND. apply NoDup_filter, ND.
  - intros kv Hkv. apply Hp. clear -Hkv. induction d as [|[k w] d IH]; cbn in *; [contradiction|].
    destruct (Nat.eqb k j); [right; exact Hkv|]. destruct Hkv as [H|H]; [left; exact H|right; apply IH, H].
Qed.
Lemma lget0_ldel j i d : NoDup (lkeys d) -> lget0 i (ldel j d) = if Nat.eqb i j then 0 else lget0 i d.
Proof. intros ND. unfold lget0. rewrite lget_ldel by exact ND. destruct (Nat.eqb i j); reflexivity. Qed.
Lemma size_of_ldel sz j d : NoDup (lkeys d) ->
  size_of sz (lkeys d) = (size_of sz (lkeys (ldel j d)) * (if lmem j d then zget j sz else 1))%Z.
Proof.
  intros ND. rewrite lkeys_ldel by exact ND. rewrite (size_of_filter_out j sz (lkeys d) ND).
  f_equal. destruct (lmem j d) eqn:E.
  - apply lmem_in_keys, memb_In in E. rewrite E. reflexivity.
  - apply lmem_false_notin, memb_false in E. rewrite E. reflexivity.
Qed.

(* the transformations remove_ind applies to the caches are exactly right *)
Lemma slegs_more nd lg : slegs_ok n sl nd lg -> slegs_ok n sl' nd (ldel ind lg).
Proof.
  intros [W G]. split; [apply wfl_ldel, W|]. intros j. rewrite lget0_ldel by apply W. rewrite spec_more, G. reflexivity.
Qed.
Lemma inv_more l r inv : inv_ok n sl l r inv -> inv_ok n sl' l r (ldel ind inv).
Proof.
  intros [W G]. split; [apply wfl_ldel, W|]. intros j. rewrite lget0_ldel by apply W. rewrite !spec_more, G.
  destruct (Nat.eqb j ind); reflexivity.
Qed.
Lemma legs_more nd lg : legs_ok n sl nd lg -> legs_ok n sl' nd (ldel ind lg).
Proof.
  unfold legs_ok. destruct (Nat.eqb (length nd) N); [|apply slegs_more].
  intros [ND G]. split; [rewrite lkeys_ldel by exact ND; apply NoDup_filter, ND|].
  intros j. rewrite lget_ldel by exact ND. rewrite root_legs_more, G. reflexivity.
Qed.
End OneMore.

(* ======================================================================== *)
(* Part L : remove_ind                                                       *)
Lemma fuel_S s : exists f, fuel n s = S f.
Proof. unfold fuel. exists (2 * N + 2 * length (info s) + 2 * length (children s) + 5). lia. Qed.
Lemma g_involved_hit s nd v : rd i_involved s nd = Some v -> g_involved n s nd = (s, v).
Proof. intros H. unfold g_involved. destruct (fuel_S s) as [f ->]. rewrite get_involved_S, H. reflexivity. Qed.
Lemma g_legs_hit s nd v : rd i_legs s nd = Some v -> g_legs n s nd = (s, v).
Proof. intros H. unfold g_legs. destruct (fuel_S s) as [f ->]. rewrite get_legs_S, H. reflexivity. Qed.

Lemma nget_upd_same nd f s : nget nd (info (upd_info nd f s)) = option_map f (nget nd (info s)).
Proof. unfold upd_info. destruct (nget nd (info s)) eqn:E; cbn; [apply nget_nset_same|exact E]. Qed.
Lemma nget_upd_other nd q f s : q <> nd -> nget q (info (upd_info nd f s)) = nget q (info s).
Proof. intros H. unfold upd_info. destruct (nget nd (info s)); cbn; [apply nget_nset_other, H|reflexivity]. Qed.
Lemma nkeys_upd nd f s : nkeys (info (upd_info nd f s)) = nkeys (info s).
Proof. unfold upd_info. destruct (nget nd (info s)) eqn:E; cbn; [apply nkeys_nset_in; congruence|reflexivity]. Qed.

(* sums over a duplicate-free key list when the summand changes at one key *)
Lemma zsum_map_change (g g' : node -> Z) nd K : NoDup K -> In nd K -> (forall q, q <> nd -> g' q = g q) ->
  zsum (map g' K) = (zsum (map g K) + (g' nd - g nd))%Z.
Proof.
  induction K as [|a K IH]; intros ND Hin Hg; [contradiction|]. inversion ND as [|? ? Ha ND']; subst.
  cbn [map]. rewrite !zsum_cons. destruct (node_eq_dec a nd) as [->|Hn].
  - assert (E : map g' K = map g K) by (apply map_ext_in; intros q Hq; apply Hg; intros ->; contradiction).
    rewrite E. lia.
  - rewrite Hg by exact Hn. rewrite IH; [lia|exact ND'| |exact Hg]. destruct Hin as [H|H]; [congruence|exact H].
Qed.
Lemma count_map_change (g g' : node -> Z) nd z K : NoDup K -> In nd K -> (forall q, q <> nd -> g' q = g q) ->
  count_occ Z.eq_dec (map g' K) z
  = count_occ Z.eq_dec (map g K) z - (if Z.eqb z (g nd) then 1 else 0) + (if Z.eqb z (g' nd) then 1 else 0).
Proof.
  induction K as [|a K IH]; intros ND Hin Hg; [contradiction|]. inversion ND as [|? ? Ha ND']; subst.
  cbn [map count_occ]. destruct (node_eq_dec a nd) as [->|Hn].
  - assert (E : map g' K = map g K) by (apply map_ext_in; intros q Hq; apply Hg; intros ->; contradiction).
    rewrite E. destruct (Z.eq_dec (g' nd) z), (Z.eq_dec (g nd) z), (Z.eqb_spec z (g nd)), (Z.eqb_spec z (g' nd)); try congruence; lia.
  - rewrite Hg by exact Hn. assert (Hk : In nd K) by (destruct Hin as [H|H]; [congruence|exact H]).
    rewrite (IH ND' Hk Hg).
    assert (Hpos : (if Z.eqb z (g nd) then 1 else 0) <= count_occ Z.eq_dec (map g K) z).
    { destruct (Z.eqb_spec z (g nd)) as [->|]; [|lia]. apply count_occ_In, in_map, Hk. }
    destruct (Z.eq_dec (g a) z); lia.
Qed.

(* bookkeeping for a run of updates on ONE node *)
Definition stage (s : tstate) (nd : node) (sk : tstate) (ik : ninfo) : Prop :=
  nget nd (info sk) = Some ik /\ (forall q, q <> nd -> nget q (info sk) = nget q (info s)) /\
  nkeys (info sk) = nkeys (info s) /\ children sk = children s /\ sliced sk = sliced s /\ mult sk = mult s /\
  trk_flops sk = trk_flops s /\ trk_write sk = trk_write s /\ trk_size sk = trk_size s.
Lemma stage_refl s nd i : nget nd (info s) = Some i -> stage s nd s i.
Proof. intros H. unfold stage. repeat split; auto. Qed.
Lemma stage_upd s nd sk ik f : stage s nd sk ik -> stage s nd (upd_info nd f sk) (f ik).
Proof.
  intros (A1&A2&A3&A4&A5&A6&A7&A8&A9). destruct (upd_info_fields nd f sk) as (F1&F2&F3&F4&F5&F6&_).
  unfold stage. split; [rewrite nget_upd_same, A1; reflexivity|]. split; [intros q Hq; rewrite nget_upd_other by exact Hq; apply A2, Hq|].
  split; [rewrite nkeys_upd; exact A3|]. repeat split; congruence.
Qed.
Lemma stage_fields s nd sk ik sk' : stage s nd sk ik -> info sk' = info sk -> children sk' = children sk ->
  sliced sk' = sliced sk -> mult sk' = mult sk -> trk_flops sk' = trk_flops sk -> trk_write sk' = trk_write sk ->
  trk_size sk' = trk_size sk -> stage s nd sk' ik.
Proof. intros (A1&A2&A3&A4&A5&A6&A7&A8&A9) E1 E2 E3 E4 E5 E6 E7. unfold stage. rewrite E1, E2, E3, E4, E5, E6, E7. repeat split; assumption. Qed.
Lemma rd_stage {A} (fld : ninfo -> option A) s nd sk ik : stage s nd sk ik -> rd fld sk nd = fld ik.
Proof. intros (A1&_). unfold rd. rewrite A1. reflexivity. Qed.

Lemma rin_internal ind d s nd i inv zf lg zs :
  length nd <> 1 -> nget nd (info s) = Some i ->
  i_involved i = Some inv -> i_flops i = Some zf -> i_legs i = Some lg -> i_size i = Some zs ->
  let hv := lmem ind inv in let hl := lmem ind lg in
  let i1 := w_flops (Some (zf / d)%Z) (w_involved (Some (ldel ind inv)) i) in
  let i' := if hv then drop_inds_recipes (if hl then w_size (Some (zs / d)%Z) (w_legs (Some (ldel ind lg)) i1) else i1) else i in
  let s' := remove_ind_node n ind d s nd in
  stage s nd s' i' /\
  flops_ s' = (if hv then flops_ s + (zf / d - zf) else flops_ s)%Z /\
  write_ s' = (if hv && hl then write_ s + (zs / d - zs) else write_ s)%Z /\
  sizes_mc s' = (if hv && hl then mc_add (zs / d)%Z (mc_discard zs (sizes_mc s)) else sizes_mc s).
Proof.
  intros E1 Hi Hinv Hzf Hlg Hzs. cbn zeta. unfold remove_ind_node.
  destruct (Nat.eqb_spec (length nd) 1) as [|_]; [contradiction|].
  rewrite (g_involved_hit s nd inv) by (unfold rd; rewrite Hi; exact Hinv).
  destruct (lmem ind inv) eqn:Ev; cbn [negb andb].
  2:{ split; [apply stage_refl, Hi|]. repeat split; reflexivity. }
  set (s2 := upd_info nd (w_involved (Some (ldel ind inv))) s).
  assert (S2 : stage s nd s2 (w_involved (Some (ldel ind inv)) i)) by (apply stage_upd, stage_refl, Hi).
  rewrite (g_flops_hit s2 nd zf) by (rewrite (rd_stage i_flops _ _ _ _ S2); exact Hzf).
  set (s4 := set_flops _ (upd_info nd (w_flops (Some (zf / d)%Z)) s2)).
  set (i1 := w_flops (Some (zf / d)%Z) (w_involved (Some (ldel ind inv)) i)).
  assert (S4 : stage s nd s4 i1).
  { apply (stage_fields s nd (upd_info nd (w_flops (Some (zf / d)%Z)) s2)); try reflexivity. apply stage_upd, S2. }
  destruct (upd_info_fields nd (w_involved (Some (ldel ind inv))) s) as (_&_&_&_&_&_&P7&P8&P9&P10).
  destruct (upd_info_fields nd (w_flops (Some (zf / d)%Z)) s2) as (_&_&_&_&_&_&Q7&Q8&Q9&Q10).
  assert (F4 : flops_ s4 = (flops_ s + (zf / d - zf))%Z).
  { change (flops_ s4) with (flops_ s2 + (zf / d - zf))%Z. unfold s2. rewrite P7. reflexivity. }
  assert (W4 : write_ s4 = write_ s).
  { change (write_ s4) with (write_ (upd_info nd (w_flops (Some (zf / d)%Z)) s2)). rewrite Q8. unfold s2. rewrite P8. reflexivity. }
  assert (Z4 : sizes_mc s4 = sizes_mc s).
  { unfold sizes_mc. change (sizes_ s4) with (sizes_ (upd_info nd (w_flops (Some (zf / d)%Z)) s2)).
    change (sizes_max s4) with (sizes_max (upd_info nd (w_flops (Some (zf / d)%Z)) s2)).
    rewrite Q9, Q10. unfold s2. rewrite P9, P10. reflexivity. }
  rewrite (g_legs_hit s4 nd lg) by (rewrite (rd_stage i_legs _ _ _ _ S4); exact Hlg).
  destruct (lmem ind lg) eqn:El.
  - set (sa := upd_info nd (w_legs (Some (ldel ind lg))) s4).
    assert (Sa : stage s nd sa (w_legs (Some (ldel ind lg)) i1)) by (apply stage_upd, S4).
    rewrite (g_size_hit sa nd zs) by (rewrite (rd_stage i_size _ _ _ _ Sa); exact Hzs).
    destruct (upd_info_fields nd (w_legs (Some (ldel ind lg))) s4) as (_&_&_&_&_&_&R7&R8&R9&R10).
    set (sc := set_sizes _ sa).
    assert (Sc : stage s nd sc (w_legs (Some (ldel ind lg)) i1)) by (apply (stage_fields s nd sa); try reflexivity; exact Sa).
    set (sd := set_write _ (upd_info nd (w_size (Some (zs / d)%Z)) sc)).
    assert (Sd : stage s nd sd (w_size (Some (zs / d)%Z) (w_legs (Some (ldel ind lg)) i1))).
    { apply (stage_fields s nd (upd_info nd (w_size (Some (zs / d)%Z)) sc)); try reflexivity. apply stage_upd, Sc. }
    destruct (upd_info_fields nd (w_size (Some (zs / d)%Z)) sc) as (_&_&_&_&_&_&T7&T8&T9&T10).
    destruct (upd_info_fields nd drop_inds_recipes sd) as (_&_&_&_&_&_&U7&U8&U9&U10).
    assert (Za : sizes_mc sa = sizes_mc s) by (unfold sizes_mc, sa; rewrite R9, R10; exact Z4).
    split; [apply stage_upd, Sd|]. rewrite U7, U8. unfold sizes_mc at 1. rewrite U9, U10.
    split.
    { change (flops_ sd) with (flops_ (upd_info nd (w_size (Some (zs / d)%Z)) sc)). rewrite T7.
      change (flops_ sc) with (flops_ sa). unfold sa. rewrite R7. exact F4. }
    split.
    { change (write_ sd) with (write_ sc + (zs / d - zs))%Z.
      change (write_ sc) with (write_ sa). unfold sa. rewrite R8, W4. reflexivity. }
    change (sizes_ sd) with (sizes_ (upd_info nd (w_size (Some (zs / d)%Z)) sc)).
    change (sizes_max sd) with (sizes_max (upd_info nd (w_size (Some (zs / d)%Z)) sc)). rewrite T9, T10.
    change (sizes_ sc) with (fst (mc_add (zs / d)%Z (mc_discard zs (sizes_mc sa)))).
    change (sizes_max sc) with (snd (mc_add (zs / d)%Z (mc_discard zs (sizes_mc sa)))).
    rewrite Za. destruct (mc_add (zs / d)%Z (mc_discard zs (sizes_mc s))); reflexivity.
  - destruct (upd_info_fields nd drop_inds_recipes s4) as (_&_&_&_&_&_&U7&U8&U9&U10).
    split; [apply stage_upd, S4|]. rewrite U7, U8. unfold sizes_mc in *. rewrite U9, U10.
    split; [exact F4|]. split; [exact W4|exact Z4].
Qed.

Section RemoveInd.
Variable sl sl' : list slinfo.
Variable ind : ix.
Variable d : Z.
Hypothesis Hrem : forall j, In j (removed sl') <-> j = ind \/ In j (removed sl).
Hypothesis Hd : d = zget ind (szd n).
Hypothesis Hdpos : (0 < d)%Z.

Lemma div_back a m : a = (m * d)%Z -> (a / d)%Z = m.
Proof. intros ->. apply Z.div_mul. lia. Qed.

(* the new cost fields of an internal node, uniformly *)
Lemma node_more ch nd i i' inv zf lg zs : node_inv ch sl nd i -> length nd <> 1 ->
  i_involved i = Some inv -> i_flops i = Some zf -> i_legs i = Some lg -> i_size i = Some zs ->
  i_involved i' = Some (ldel ind inv) -> i_legs i' = Some (ldel ind lg) ->
  i_flops i' = Some (zf / (if lmem ind inv then d else 1))%Z ->
  i_size i' = Some (zs / (if lmem ind lg then d else 1))%Z ->
  node_inv ch sl' nd i'.
Proof.
  intros (A&B&C&D) E1 Hinv Hzf Hlg Hzs Hinv' Hlg' Hzf' Hzs'.
  pose proof (A lg Hlg) as Al. pose proof (legs_more sl sl' ind Hrem nd lg Al) as Al'.
  destruct (B inv Hinv) as [[E _]|(l & r & Ech & Hok)]; [contradiction|].
  pose proof (inv_more sl sl' ind Hrem l r inv Hok) as Hok'.
  unfold node_inv. rewrite Hinv', Hlg', Hzf', Hzs'. repeat split.
  - intros x [= <-]. exact Al'.
  - intros x [= <-]. right. exists l, r. split; assumption.
  - intros z [= <-] lg' Hlg''. rewrite <- (legs_ok_size_unique n sl' (szd n) nd _ _ Al' Hlg'').
    assert (NDl : NoDup (lkeys lg)). { unfold legs_ok in Al. destruct (Nat.eqb (length nd) N); [apply Al|apply Al]. }
    pose proof (C zs Hzs lg Al) as Ez. rewrite (size_of_ldel (szd n) ind lg NDl) in Ez. rewrite <- Hd in Ez.
    destruct (lmem ind lg); [apply div_back, Ez|rewrite Z.div_1_r; lia].
  - intros z [= <-]. right. exists l, r. split; [exact Ech|]. intros inv' Hinv''.
    rewrite <- (inv_ok_size_unique n sl' (szd n) l r _ _ Hok' Hinv'').
    destruct (D zf Hzf) as [[E _]|(l2 & r2 & Ech2 & Hf)]; [contradiction|]. rewrite Ech in Ech2. injection Ech2 as <- <-.
    pose proof (Hf inv Hok) as Ez. rewrite (size_of_ldel (szd n) ind inv (proj1 (proj1 Hok))) in Ez. rewrite <- Hd in Ez.
    destruct (lmem ind inv); [apply div_back, Ez|rewrite Z.div_1_r; lia].
Qed.

(* a leaf whose term does not carry the index *)
Lemma leaf_spec_same k j : ~ In ind (nth k (inputs n) []) -> spec_count n sl' [k] j = spec_count n sl [k] j.
Proof.
  intros Hn. rewrite (spec_more sl sl' ind Hrem). destruct (Nat.eqb_spec j ind) as [->|]; [|reflexivity].
  unfold spec_count. cbn [cnt]. assert (E : occ (term_sl n sl k) ind = 0).
  { destruct (occ (term_sl n sl k) ind) eqn:Eo; [reflexivity|]. exfalso. apply Hn.
    assert (Hin : In ind (term_sl n sl k)) by (apply occ_pos; lia). unfold term_sl in Hin. apply filter_In in Hin. apply Hin. }
  rewrite E. cbn. destruct (appear n ind); reflexivity.
Qed.
Lemma leaf_legs_ok_same k lg : ~ In ind (nth k (inputs n) []) -> (legs_ok n sl [k] lg <-> legs_ok n sl' [k] lg).
Proof.
  intros Hn. unfold legs_ok. cbn [length]. destruct (Nat.eqb_spec 1 N) as [E|_]; [lia|].
  unfold slegs_ok. split; intros [W G]; (split; [exact W|]); intros j; rewrite G; [symmetry|]; apply leaf_spec_same, Hn.
Qed.
Lemma leaf_node_same ch k i : children_ok ch -> ~ In ind (nth k (inputs n) []) -> node_inv ch sl [k] i -> node_inv ch sl' [k] i.
Proof.
  intros Hc Hn (A&B&C&D). unfold node_inv. repeat split.
  - intros lg Hl. apply (leaf_legs_ok_same k lg Hn), A, Hl.
  - intros inv Hi. destruct (B inv Hi) as [Hl|(l & r & E & _)]; [left; exact Hl|].
    exfalso. apply (leaf_not_parent ch [k] l r Hc E). reflexivity.
  - intros z Hz lg Hl. apply (C z Hz). apply (leaf_legs_ok_same k lg Hn), Hl.
  - intros z Hz. destruct (D z Hz) as [Hl|(l & r & E & _)]; [left; exact Hl|].
    exfalso. apply (leaf_not_parent ch [k] l r Hc E). reflexivity.
Qed.

Definition fullinfo (i : ninfo) : Prop :=
  exists inv zf lg zs, i_involved i = Some inv /\ i_flops i = Some zf /\ i_legs i = Some lg /\ i_size i = Some zs /\
                       (lmem ind lg = true -> lmem ind inv = true).

(* during the loop of remove_ind: the nodes still to do are right for the OLD sliced set and
   fully cached, the others are right for the NEW one; the running totals always match the caches *)
Definition Mix (todo : list node) (s : tstate) : Prop :=
  children_ok (children s) /\ NoDup (nkeys (info s)) /\ sliced s = sl' /\ mult s = multiplicity n sl' /\
  trk_flops s = true /\ trk_write s = true /\ trk_size s = true /\
  (tot_flops (nkeys (children s)) s /\ tot_write (nkeys (children s)) s /\ tot_size (nkeys (children s)) s) /\
  forall nd i, nget nd (info s) = Some i ->
    good_node nd /\ (length nd = 1 \/ In nd (nkeys (children s))) /\
    (In nd todo -> node_inv (children s) sl nd i /\ (length nd <> 1 -> fullinfo i)) /\
    (~ In nd todo -> node_inv (children s) sl' nd i).

Lemma Mix_done s : Mix [] s -> InvC s.
Proof.
  intros (H1&H2&H3&H4&_&_&_&HT&HN'). split; [|apply totals_split, HT].
  unfold InvS. rewrite H3. split; [exact H1|]. split; [exact H2|]. split; [|exact H4].
  intros nd i Hi. destruct (HN' nd i Hi) as (G&_&_&Hd'). split; [exact G|apply Hd'; intros []].
Qed.

Lemma Mix_step nd todo s i : Mix (nd :: todo) s -> ~ In nd todo -> nget nd (info s) = Some i ->
  Mix todo (remove_ind_node n ind d s nd) /\ nkeys (info (remove_ind_node n ind d s nd)) = nkeys (info s).
Proof.
  intros (H1&H2&H3&H4&Tf&Tw&Ts&(T1&T2&T3)&HN') Hnt Hi.
  destruct (HN' nd i Hi) as (G & Hkey & Htodo & _). destruct (Htodo (or_introl eq_refl)) as [Hni Hfull].
  destruct (Nat.eq_dec (length nd) 1) as [E1|E1].
  - (* a leaf *)
    rewrite (len1 nd E1) in *. set (k := hd 0 nd) in *.
    assert (Hnk : ~ In [k] (nkeys (children s))).
    { intros Hin. apply nget_in_keys in Hin. destruct (nget [k] (children s)) as [[l r]|] eqn:E; [|congruence].
      apply (leaf_not_parent _ [k] l r H1 E). reflexivity. }
    unfold remove_ind_node. cbn [length Nat.eqb hd].
    destruct (memb ind (nth k (inputs n) [])) eqn:Em.
    + (* its term carries the index: the leaf is reset *)
      unfold remove_node. cbn [length Nat.eqb hd]. unfold clear_info.
      set (sc := upd_info [k] (fun _ => noinfo) s).
      assert (Sc : stage s [k] sc noinfo) by (apply (stage_upd s [k] s i (fun _ => noinfo)), stage_refl, Hi).
      destruct (upd_info_fields [k] (fun _ => noinfo) s) as (F1&F2&F3&F4&F5&F6&F7&F8&F9&F10). fold sc in F1, F2, F3, F4, F5, F6, F7, F8, F9, F10.
      set (sF := set_sliced_inputs _ _).
      assert (SF : stage s [k] sF noinfo) by (apply (stage_fields s [k] sc); try reflexivity; exact Sc).
      destruct SF as (A1&A2&A3&A4&A5&A6&A7&A8&A9). split; [|exact A3].
      unfold Mix. rewrite A4, A5, A6, A7, A8, A9. split; [exact H1|]. split; [rewrite A3; exact H2|].
      split; [exact H3|]. split; [exact H4|]. split; [exact Tf|]. split; [exact Tw|]. split; [exact Ts|]. split.
      * apply (totals_other_node s sF _ [k]); auto.
      * intros q j Hq. destruct (node_eq_dec q [k]) as [->|Hqn].
        -- rewrite A1 in Hq. injection Hq as <-. split; [exact G|]. split; [left; reflexivity|].
           split; [intros Hc; contradiction|intros _; apply node_inv_noinfo].
        -- rewrite A2 in Hq by exact Hqn. destruct (HN' q j Hq) as (Gq & Kq & Tq & Dq).
           split; [exact Gq|]. split; [exact Kq|]. split.
           ++ intros Hin. apply Tq. right. exact Hin.
           ++ intros Hnin. apply Dq. intros [Hc|Hc]; [congruence|contradiction].
    + (* untouched *)
      split; [|reflexivity]. unfold Mix. split; [exact H1|]. split; [exact H2|]. split; [exact H3|]. split; [exact H4|].
      split; [exact Tf|]. split; [exact Tw|]. split; [exact Ts|]. split; [auto|].
      intros q j Hq. destruct (HN' q j Hq) as (Gq & Kq & Tq & Dq).
      split; [exact Gq|]. split; [exact Kq|]. split; [intros Hin; apply Tq; right; exact Hin|].
      intros Hnin. destruct (node_eq_dec q [k]) as [->|Hqn].
      * rewrite Hi in Hq. injection Hq as <-.
        apply (leaf_node_same _ k i H1); [apply memb_false, Em|exact Hni].
      * apply Dq. intros [Hc|Hc]; [congruence|contradiction].
  - (* an internal node *)
    destruct (Hfull E1) as (inv & zf & lg & zs & Hinv & Hzf & Hlg & Hzs & HP3).
    destruct (rin_internal ind d s nd i inv zf lg zs E1 Hi Hinv Hzf Hlg Hzs) as (St & Ef & Ew & Ez).
    cbn zeta in St, Ef, Ew, Ez. set (sF := remove_ind_node n ind d s nd) in *.
    set (i' := if lmem ind inv then _ else i) in St.
    assert (Hin : In nd (nkeys (children s))) by (destruct Hkey as [Hc|Hc]; [contradiction|exact Hc]).
    assert (NDK : NoDup (nkeys (children s))) by apply H1.
    (* the new cost fields *)
    assert (Hcost : i_involved i' = Some (ldel ind inv) /\ i_legs i' = Some (ldel ind lg) /\
                    i_flops i' = Some (zf / (if lmem ind inv then d else 1))%Z /\
                    i_size i' = Some (zs / (if lmem ind lg then d else 1))%Z).
    { unfold i'. destruct (lmem ind inv) eqn:Ev.
      - destruct (lmem ind lg) eqn:El; cbn; repeat split; try reflexivity.
        + rewrite (ldel_notin ind lg); [exact Hlg|]. apply lmem_false_notin, El.
        + rewrite Z.div_1_r. exact Hzs.
      - assert (El : lmem ind lg = false) by (destruct (lmem ind lg); [specialize (HP3 eq_refl); congruence|reflexivity]).
        rewrite El, !Z.div_1_r. rewrite (ldel_notin ind inv) by (apply lmem_false_notin, Ev).
        rewrite (ldel_notin ind lg) by (apply lmem_false_notin, El). auto. }
    destruct Hcost as (Ci & Cl & Cf & Cs).
    destruct St as (A1&A2&A3&A4&A5&A6&A7&A8&A9). split; [|exact A3].
    assert (Rq : forall A (fld : ninfo -> option A) q, q <> nd -> rd fld sF q = rd fld s q).
    { intros A fld q Hq. unfold rd. rewrite A2 by exact Hq. reflexivity. }
    assert (Cfl_nd : cflops sF nd = (zf / (if lmem ind inv then d else 1))%Z) by (unfold cflops, rd; rewrite A1, Cf; reflexivity).
    assert (Csz_nd : csize sF nd = (zs / (if lmem ind lg then d else 1))%Z) by (unfold csize, rd; rewrite A1, Cs; reflexivity).
    assert (Cfl_old : cflops s nd = zf) by (unfold cflops, rd; rewrite Hi, Hzf; reflexivity).
    assert (Csz_old : csize s nd = zs) by (unfold csize, rd; rewrite Hi, Hzs; reflexivity).
    assert (HlP : lmem ind inv && lmem ind lg = lmem ind lg).
    { destruct (lmem ind lg) eqn:El; [rewrite (HP3 eq_refl); reflexivity|apply andb_false_r]. }
    unfold Mix. rewrite A4, A5, A6, A7, A8, A9. split; [exact H1|]. split; [rewrite A3; exact H2|].
    split; [exact H3|]. split; [exact H4|]. split; [exact Tf|]. split; [exact Tw|]. split; [exact Ts|]. split; [split; [|split]|].
    + (* flops *)
      intros _. destruct (T1 Tf) as [Ta Tb]. split.
      * rewrite (zsum_map_change (cflops s) (cflops sF) nd _ NDK Hin) by (intros q Hq; unfold cflops; rewrite Rq by exact Hq; reflexivity).
        rewrite Ef, Ta, Cfl_nd, Cfl_old. destruct (lmem ind inv); [reflexivity|rewrite Z.div_1_r; lia].
      * intros q Hq. destruct (node_eq_dec q nd) as [->|Hqn]; [unfold rd; rewrite A1, Cf; discriminate|rewrite Rq by exact Hqn; apply Tb, Hq].
    + (* write *)
      intros _. destruct (T2 Tw) as [Ta Tb]. split.
      * rewrite (zsum_map_change (csize s) (csize sF) nd _ NDK Hin) by (intros q Hq; unfold csize; rewrite Rq by exact Hq; reflexivity).
        rewrite Ew, HlP, Ta, Csz_nd, Csz_old. destruct (lmem ind lg); [reflexivity|rewrite Z.div_1_r; lia].
      * intros q Hq. destruct (node_eq_dec q nd) as [->|Hqn]; [unfold rd; rewrite A1, Cs; discriminate|rewrite Rq by exact Hqn; apply Tb, Hq].
    + (* the multiset of sizes *)
      intros _. destruct (T3 Ts) as (Ta & Tb & Tc).
      assert (Ez' : sizes_mc sF = if lmem ind lg then mc_add (zs / d)%Z (mc_discard zs (sizes_mc s)) else sizes_mc s) by (rewrite <- HlP; exact Ez).
      split; [|split].
      * rewrite Ez'. destruct (lmem ind lg); [apply mc_add_ok, mc_discard_ok, Ta|exact Ta].
      * intros z. change (sizes_ sF) with (fst (sizes_mc sF)). rewrite Ez'.
        rewrite (count_map_change (csize s) (csize sF) nd z _ NDK Hin) by (intros q Hq; unfold csize; rewrite Rq by exact Hq; reflexivity).
        rewrite Csz_nd, Csz_old. destruct (lmem ind lg).
        -- rewrite mc_add_count, (mc_discard_count _ z _ Ta). cbn [fst sizes_mc]. rewrite Tb. reflexivity.
        -- cbn [fst sizes_mc]. rewrite Tb, Z.div_1_r.
           assert (Hpos : (if Z.eqb z zs then 1 else 0) <= count_occ Z.eq_dec (map (csize s) (nkeys (children s))) z).
           { destruct (Z.eqb_spec z zs) as [->|]; [|lia]. rewrite <- Csz_old. apply count_occ_In, in_map, Hin. }
           lia.
      * intros q Hq. destruct (node_eq_dec q nd) as [->|Hqn]; [unfold rd; rewrite A1, Cs; discriminate|rewrite Rq by exact Hqn; apply Tc, Hq].
    + intros q j Hq. destruct (node_eq_dec q nd) as [->|Hqn].
      * rewrite A1 in Hq. injection Hq as <-. split; [exact G|]. split; [exact Hkey|].
        split; [intros Hc; contradiction|intros _].
        apply (node_more _ nd i i' inv zf lg zs); assumption.
      * rewrite A2 in Hq by exact Hqn. destruct (HN' q j Hq) as (Gq & Kq & Tq & Dq).
        split; [exact Gq|]. split; [exact Kq|]. split.
        -- intros Hin'. apply Tq. right. exact Hin'.
        -- intros Hnin. apply Dq. intros [Hc|Hc]; [congruence|contradiction].
Qed.

Lemma Mix_fold L : forall s, NoDup L -> (forall nd, In nd L -> nget nd (info s) <> None) -> Mix L s ->
  Mix [] (fold_left (remove_ind_node n ind d) L s).
Proof.
  induction L as [|nd L IH]; intros s ND Hk HM; cbn [fold_left]; [exact HM|].
  apply NoDup_cons_iff in ND. destruct ND as [Hn ND'].
  destruct (nget nd (info s)) as [i|] eqn:Ei; [|exfalso; apply (Hk nd (or_introl eq_refl)); exact Ei].
  destruct (Mix_step nd L s i HM Hn Ei) as [HM' Ek]. apply IH; [exact ND'| |exact HM'].
  intros q Hq. apply nget_in_keys. unfold nkeys in *. rewrite Ek. apply nget_in_keys, Hk. right. exact Hq.
Qed.
End RemoveInd.

(* the population phase of remove_ind *)
Definition populate (s : tstate) : tstate :=
  fold_left (fun s (p : node * (node * node)) => fst (g_legs n (fst (g_involved n s (fst p))) (fst p))) (children s) s.
Lemma populate_fold (L : list (node * (node * node))) : forall s, InvC s -> (forall p, In p L -> In (fst p) (nkeys (children s))) ->
  InvC (fold_left (fun s p => fst (g_legs n (fst (g_involved n s (fst p))) (fst p))) L s) /\
  Ext s (fold_left (fun s p => fst (g_legs n (fst (g_involved n s (fst p))) (fst p))) L s).
Proof.
  induction L as [|p L IH]; intros s HI HL; cbn [fold_left]; [split; [exact HI|apply Ext_refl]|].
  destruct HI as [HS HT]. pose proof (child_key_good s (fst p) HS (HL p (or_introl eq_refl))) as HG.
  destruct (g_involved_inv s (fst p) HS HG) as (A1 & B1 & _).
  destruct (g_legs_inv _ (fst p) A1 HG) as (A2 & B2 & _).
  set (s2 := fst (g_legs n (fst (g_involved n s (fst p))) (fst p))) in *.
  assert (B : Ext s s2) by (eapply Ext_trans; eassumption).
  destruct (IH s2) as [A' B'].
  - split; [exact A2|apply (totals_Ext s); assumption].
  - intros q Hq. destruct B as (Ech&_). rewrite Ech. apply HL. right. exact Hq.
  - split; [exact A'|eapply Ext_trans; eassumption].
Qed.
Lemma populate_inv s : InvC s -> InvC (populate s) /\ Ext s (populate s).
Proof.
  intros HI. apply populate_fold; [exact HI|]. intros p Hp. unfold nkeys. apply in_map, Hp.
Qed.
Lemma stats_flags s : stats_pre false s ->
  trk_flops (contract_stats n false s) = true /\ trk_write (contract_stats n false s) = true /\
  trk_size (contract_stats n false s) = true.
Proof.
  intros Hpre. unfold contract_stats. destruct (false || negb (trk_flops s && trk_write s && trk_size s)) eqn:Ec.
  - destruct (Hpre Ec) as (nodes & Htr & _).
    change (traverse n (set_sizes mc_empty (set_write 0%Z (set_flops 0%Z s)))) with (traverse n s). rewrite Htr.
    cbn. auto.
  - cbn in Ec. apply negb_false_iff in Ec. apply andb_true_iff in Ec. destruct Ec as [Ec E3].
    apply andb_true_iff in Ec. destruct Ec as [E1 E2]. auto.
Qed.

Definition rm_pre (ind : ix) (s : tstate) : Prop :=
  ~ In ind (removed (sliced s)) /\ stats_pre false s /\ (0 < zget ind (szd n))%Z /\
  forall nd i, nget nd (info (populate (contract_stats n false s))) = Some i ->
    (length nd = 1 \/ In nd (nkeys (children s))) /\ (length nd <> 1 -> fullinfo ind i).

Lemma multiplicity_perm l1 l2 : Permutation l1 l2 -> multiplicity n l1 = multiplicity n l2.
Proof. intros H. unfold multiplicity. apply zprod_perm, Permutation_map, H. Qed.

Lemma contract_stats_frame force s : InvC s -> stats_pre force s ->
  children (contract_stats n force s) = children s /\ sliced (contract_stats n force s) = sliced s /\
  mult (contract_stats n force s) = mult s.
Proof.
  intros [HS HT] Hpre. unfold contract_stats.
  destruct (force || negb (trk_flops s && trk_write s && trk_size s)) eqn:Ec; [|auto].
  destruct (Hpre Ec) as (nodes & Htr & HP & Hinfo).
  set (s0 := set_sizes mc_empty (set_write 0%Z (set_flops 0%Z s))).
  change (traverse n s0) with (traverse n s). rewrite Htr.
  assert (HS0 : InvS s0) by (apply (InvS_struct s); [unfold same_struct; repeat split; reflexivity|exact HS]).
  assert (HR0 : raw3 [] s0).
  { unfold raw3, sumf, sumw, sums. split; [split; [reflexivity|intros q []]|]. split; [split; [reflexivity|intros q []]|].
    split; [exact mc_ok_empty|]. split; [intros z; reflexivity|intros q []]. }
  destruct (stats_body_inv nodes [] s0 HS0) as (_ & (B1&B2&B3&_) & _); [|exact HR0|].
  { intros plr Hp. assert (Hk : In (fst plr) (nkeys (children s))) by (apply (Permutation_in _ HP), in_map, Hp).
    split; [exact Hk|apply Hinfo, Hk]. }
  cbn [set_trk children sliced mult]. auto.
Qed.

Theorem remove_ind_inv ind pj s : InvC s -> rm_pre ind s -> InvC (remove_ind n ind pj s).
Proof.
  intros HI (Hfresh & Hst & Hpos & Hfull). unfold remove_ind.
  destruct (memb ind (removed (sliced s))) eqn:Em; [apply memb_In in Em; contradiction|].
  pose proof (contract_stats_inv false s HI Hst) as HI1.
  destruct (stats_flags s Hst) as (Tf1 & Tw1 & Ts1).
  destruct (contract_stats_frame false s HI Hst) as (Ech1 & Esl1 & Em1).
  set (s1 := contract_stats n false s) in *.
  destruct (populate_inv s1 HI1) as [HI2 E12]. fold (populate s1). fold (populate s1) in Hfull. set (s2 := populate s1) in *.
  destruct E12 as (Ech2&Esl2&Em2&Ef2&Ew2&Es2&_).
  set (sl := sliced s) in *. set (x := mkSl ind pj).
  set (sl' := sort_by (sl_le n) (sliced (match pj with None => set_mult (mult s2 * zget ind (szd n))%Z s2 | Some _ => s2 end) ++ [x])).
  assert (Esl3 : sliced (match pj with None => set_mult (mult s2 * zget ind (szd n))%Z s2 | Some _ => s2 end) = sl).
  { destruct pj; cbn; congruence. }
  assert (HPsl : Permutation sl' (sl ++ [x])) by (unfold sl'; rewrite Esl3; apply sort_by_perm).
  assert (Hrem : forall j, In j (removed sl') <-> j = ind \/ In j (removed sl)).
  { intros j. unfold removed. split.
    - intros H. apply (Permutation_in _ (Permutation_map sl_ix HPsl)) in H. rewrite map_app, in_app_iff in H. cbn in H. destruct H as [H|[H|[]]]; [right; exact H|left; symmetry; exact H].
    - intros H. apply (Permutation_in _ (Permutation_sym (Permutation_map sl_ix HPsl))). rewrite map_app, in_app_iff. cbn. destruct H as [H|H]; [right; left; symmetry; exact H|left; exact H]. }
  set (s3 := match pj with None => set_mult (mult s2 * zget ind (szd n))%Z s2 | Some _ => s2 end) in *.
  set (s4 := set_sliced sl' s3).
  assert (Einfo4 : info s4 = info s2) by (unfold s4, s3; destruct pj; reflexivity).
  assert (Ech4 : children s4 = children s2) by (unfold s4, s3; destruct pj; reflexivity).
  destruct HI2 as [(C1&C2&C3&C5) HT2].
  assert (HM : Mix sl sl' ind (nkeys (info s4)) s4).
  { unfold Mix. rewrite Ech4, Einfo4. split; [exact C1|]. split; [exact C2|]. split; [reflexivity|]. split.
    - rewrite (multiplicity_perm _ _ HPsl). unfold x. rewrite (slicing_scales_multiplicity n sl ind pj).
      unfold s4, s3. destruct pj; cbn; rewrite C5, Esl2, Esl1; fold sl; lia.
    - split; [unfold s4, s3; destruct pj; cbn; congruence|]. split; [unfold s4, s3; destruct pj; cbn; congruence|].
      split; [unfold s4, s3; destruct pj; cbn; congruence|]. split.
      + apply totals_split in HT2.
        assert (Hsame : forall K, (tot_flops K s2 /\ tot_write K s2 /\ tot_size K s2) -> (tot_flops K s4 /\ tot_write K s4 /\ tot_size K s4)).
        { intros K HK. unfold s4, s3. destruct pj; exact HK. }
        apply Hsame, HT2.
      + intros nd i Hi. destruct (C3 nd i Hi) as [G Hn]. destruct (Hfull nd i Hi) as [Hk Hf].
        split; [exact G|]. split; [rewrite Ech2, Ech1; exact Hk|]. split.
        * intros _. split; [rewrite Esl2, Esl1 in Hn; exact Hn|exact Hf].
        * intros Hnin. exfalso. apply Hnin. apply nget_in_keys. congruence. }
  assert (HF := Mix_fold sl sl' ind (zget ind (szd n)) Hrem eq_refl Hpos (nkeys (info s4)) s4).
  apply reset_recipes_inv. apply (Mix_done sl sl' ind). apply HF; [rewrite Einfo4; exact C2| |exact HM].
  intros nd Hnd. apply nget_in_keys, Hnd.
Qed.

(* ======================================================================== *)
(* Part M : recipe getters, sort / reset of contraction indices: no cost field is touched *)
Lemma inv_g_legs s nd : InvC s -> good_node nd -> InvC (fst (g_legs n s nd)).
Proof. intros HI HG. apply (step_preserves_InvC1 (PGet GLegs nd) s HI HG). Qed.
Lemma inv_g_size s nd : InvC s -> good_node nd -> InvC (fst (g_size n s nd)).
Proof. intros HI HG. apply (step_preserves_InvC1 (PGet GSize nd) s HI HG). Qed.
Lemma inv_g_flops s nd : InvC s -> good_node nd -> flops_pre s nd -> InvC (fst (g_flops n s nd)).
Proof. intros HI HG HP. apply (step_preserves_InvC1 (PGet GFlops nd) s HI (conj HG HP)). Qed.
Lemma inv_upd_neutral nd f s : (forall i, cost_same i (f i)) -> InvC s -> InvC (upd_info nd f s).
Proof. intros Hf HI. apply (InvC_upd_neutral nd f s Hf HI). Qed.
Lemma inv_err s : InvC s -> InvC (set_err s).
Proof. apply InvC_same, same_set_err. Qed.
Lemma entry_good s p l r : InvC s -> nget p (children s) = Some (l, r) -> good_node p /\ good_node l /\ good_node r.
Proof.
  intros [HS _] E. split; [apply (child_key_good s p HS), nget_in_keys; congruence|].
  destruct HS as ((_&Hc)&_). destruct (Hc p l r E) as (Gl & Gr & _). auto.
Qed.
Lemma cs_inds v i : cost_same i (w_inds v i). Proof. unfold cost_same. cbn. auto. Qed.
Lemma cs_can_dot v i : cost_same i (w_can_dot v i). Proof. unfold cost_same. cbn. auto. Qed.
Lemma cs_tdaxes v i : cost_same i (w_tdaxes v i). Proof. unfold cost_same. cbn. auto. Qed.
Lemma cs_tdperm v i : cost_same i (w_tdperm v i). Proof. unfold cost_same. cbn. auto. Qed.
Lemma cs_eq v i : cost_same i (w_eq v i). Proof. unfold cost_same. cbn. auto. Qed.

Lemma get_inds_S f' s nd : get_inds n (S f') s nd =
    match rd i_inds s nd with
    | Some v => (s, v)
    | None =>
        if Nat.eqb (length nd) 1 || Nat.eqb (length nd) N then
          let '(s1, l) := g_legs n s nd in
          (upd_info nd (w_inds (Some (lkeys l))) s1, lkeys l)
        else
          let '(s1, lg) := g_legs n s nd in
          match nget nd (children s1) with
          | None => (set_err s1, [])
          | Some (l, r) =>
              let '(s2, li) := get_inds n f' s1 l in
              let '(s3, ri) := get_inds n f' s2 r in
              let v := unique (filter (fun j => lmem j lg) (li ++ ri)) in
              (upd_info nd (w_inds (Some v)) s3, v)
          end
    end.
Proof. reflexivity. Qed.
Lemma inv_get_inds f : forall s nd, InvC s -> good_node nd -> InvC (fst (get_inds n f s nd)).
Proof.
  induction f as [|f IH]; intros s nd HI HG; [apply inv_err, HI|].
  rewrite get_inds_S. destruct (rd i_inds s nd); [exact HI|].
  pose proof (inv_g_legs s nd HI HG) as H1. destruct (g_legs n s nd) as [s1 lg]. cbn [fst] in H1.
  destruct (Nat.eqb (length nd) 1 || Nat.eqb (length nd) N); cbn [fst].
  - apply inv_upd_neutral; [intros; apply cs_inds|exact H1].
  - destruct (nget nd (children s1)) as [[l r]|] eqn:E; [|apply inv_err, H1].
    destruct (entry_good s1 nd l r H1 E) as (_ & Gl & Gr).
    pose proof (IH s1 l H1 Gl) as H2. destruct (get_inds n f s1 l) as [s2 li]. cbn [fst] in H2.
    pose proof (IH s2 r H2 Gr) as H3. destruct (get_inds n f s2 r) as [s3 ri]. cbn [fst] in H3. cbn [fst].
    apply inv_upd_neutral; [intros; apply cs_inds|exact H3].
Qed.
Lemma inv_g_inds s nd : InvC s -> good_node nd -> InvC (fst (g_inds n s nd)).
Proof. apply inv_get_inds. Qed.

Lemma inv_g_can_dot s nd : InvC s -> good_node nd -> InvC (fst (g_can_dot n s nd)).
Proof.
  intros HI HG. unfold g_can_dot. destruct (rd i_can_dot s nd); [exact HI|].
  destruct (nget nd (children s)) as [[l r]|] eqn:E; [|apply inv_err, HI].
  destruct (entry_good s nd l r HI E) as (_ & Gl & Gr).
  pose proof (inv_g_legs s nd HI HG) as H1. destruct (g_legs n s nd) as [s1 sp]. cbn [fst] in H1.
  pose proof (inv_g_legs s1 l H1 Gl) as H2. destruct (g_legs n s1 l) as [s2 sl]. cbn [fst] in H2.
  pose proof (inv_g_legs s2 r H2 Gr) as H3. destruct (g_legs n s2 r) as [s3 sr]. cbn [fst] in H3. cbn [fst].
  apply inv_upd_neutral; [intros; apply cs_can_dot|exact H3].
Qed.
Lemma inv_g_tdaxes s nd : InvC s -> good_node nd -> InvC (fst (g_tdaxes n s nd)).
Proof.
  intros HI HG. unfold g_tdaxes. destruct (rd i_tdaxes s nd); [exact HI|].
  destruct (nget nd (children s)) as [[l r]|] eqn:E; [|apply inv_err, HI].
  destruct (entry_good s nd l r HI E) as (_ & Gl & Gr).
  pose proof (inv_g_inds s l HI Gl) as H1. destruct (g_inds n s l) as [s1 li]. cbn [fst] in H1.
  pose proof (inv_g_inds s1 r H1 Gr) as H2. destruct (g_inds n s1 r) as [s2 ri]. cbn [fst] in H2. cbn [fst].
  apply inv_upd_neutral; [intros; apply cs_tdaxes|exact H2].
Qed.
Lemma inv_g_tdperm s nd : InvC s -> good_node nd -> InvC (fst (g_tdperm n s nd)).
Proof.
  intros HI HG. unfold g_tdperm. destruct (rd i_tdperm s nd); [exact HI|].
  destruct (nget nd (children s)) as [[l r]|] eqn:E; [|apply inv_err, HI].
  destruct (entry_good s nd l r HI E) as (_ & Gl & Gr).
  pose proof (inv_g_inds s l HI Gl) as H1. destruct (g_inds n s l) as [s1 li]. cbn [fst] in H1.
  pose proof (inv_g_inds s1 r H1 Gr) as H2. destruct (g_inds n s1 r) as [s2 ri]. cbn [fst] in H2.
  pose proof (inv_g_inds s2 nd H2 HG) as H3. destruct (g_inds n s2 nd) as [s3 pi]. cbn [fst] in H3. cbn [fst].
  apply inv_upd_neutral; [intros; apply cs_tdperm|exact H3].
Qed.
Lemma inv_g_eq s nd : InvC s -> good_node nd -> InvC (fst (g_eq n s nd)).
Proof.
  intros HI HG. unfold g_eq. destruct (rd i_eq s nd); [exact HI|].
  destruct (nget nd (children s)) as [[l r]|] eqn:E; [|apply inv_err, HI].
  destruct (entry_good s nd l r HI E) as (_ & Gl & Gr).
  pose proof (inv_g_inds s l HI Gl) as H1. destruct (g_inds n s l) as [s1 li]. cbn [fst] in H1.
  pose proof (inv_g_inds s1 r H1 Gr) as H2. destruct (g_inds n s1 r) as [s2 ri]. cbn [fst] in H2.
  pose proof (inv_g_inds s2 nd H2 HG) as H3. destruct (g_inds n s2 nd) as [s3 pi]. cbn [fst] in H3. cbn [fst].
  apply inv_upd_neutral; [intros; apply cs_eq|exact H3].
Qed.

(* sort_contraction_indices *)
Lemma inv_sort_step moc mcc s p l r : InvC s -> good_node p -> good_node l -> good_node r ->
  InvC (sort_step n moc mcc s (p, (l, r))).
Proof.
  intros HI Gp Gl Gr. unfold sort_step.
  pose proof (inv_g_inds s p HI Gp) as H1. destruct (g_inds n s p) as [s1 pi]. cbn [fst] in H1.
  pose proof (inv_g_inds s1 l H1 Gl) as H2. destruct (g_inds n s1 l) as [s2 li]. cbn [fst] in H2.
  pose proof (inv_g_inds s2 r H2 Gr) as H3. destruct (g_inds n s2 r) as [s3 ri]. cbn [fst] in H3.
  set (X := if moc && negb (Nat.eqb (length p) N) then _ else (s3, pi)).
  assert (H4 : InvC (fst X)).
  { unfold X. destruct (moc && negb (Nat.eqb (length p) N)); cbn [fst]; [apply inv_upd_neutral; [intros; apply cs_inds|exact H3]|exact H3]. }
  destruct X as [s4 pi']. cbn [fst] in H4. destruct mcc; [|exact H4].
  set (Y := if negb (Nat.eqb (length l) 1) then _ else (s4, li)).
  assert (H5 : InvC (fst Y)).
  { unfold Y. destruct (negb (Nat.eqb (length l) 1)); cbn [fst]; [|exact H4].
    pose proof (inv_g_legs s4 l H4 Gl) as Ha. destruct (g_legs n s4 l) as [sa lg]. cbn [fst] in Ha. cbn [fst].
    apply inv_upd_neutral; [intros; apply cs_inds|exact Ha]. }
  destruct Y as [s5 li']. cbn [fst] in H5.
  destruct (negb (Nat.eqb (length r) 1)); [|exact H5].
  pose proof (inv_g_legs s5 r H5 Gr) as Ha. destruct (g_legs n s5 r) as [sa lg]. cbn [fst] in Ha.
  apply inv_upd_neutral; [intros; apply cs_inds|exact Ha].
Qed.
Lemma inv_sort_fold moc mcc nodes : forall s, InvC s ->
  (forall e, In e nodes -> good_node (fst e) /\ good_node (fst (snd e)) /\ good_node (snd (snd e))) ->
  InvC (fold_left (sort_step n moc mcc) nodes s).
Proof.
  induction nodes as [|[p [l r]] nodes IH]; intros s HI Hg; cbn [fold_left]; [exact HI|].
  destruct (Hg _ (or_introl eq_refl)) as (Gp & Gl & Gr). cbn [fst snd] in *.
  apply IH; [apply inv_sort_step; assumption|intros e He; apply Hg; right; exact He].
Qed.
Lemma dfs_loop_entries ch : forall f queue done acc res, dfs_loop f ch queue done acc = Some res ->
  (forall e, In e acc -> nget (fst e) ch = Some (snd e)) -> forall e, In e res -> nget (fst e) ch = Some (snd e).
Proof.
  induction f as [|f IH]; intros queue done acc res H Hacc; cbn [dfs_loop] in H; [discriminate|].
  destruct queue as [|nd q].
  - injection H as <-. intros e He. apply Hacc, in_rev, He.
  - destruct (nget nd ch) as [[l r]|] eqn:E; [|discriminate].
    destruct (is_ready done l && is_ready done r).
    + apply (IH _ _ _ _ H). intros e [<-|He]; [exact E|apply Hacc, He].
    + apply (IH _ _ _ _ H Hacc).
Qed.
Lemma descend_loop_entries ch : forall f queue acc res, descend_loop f ch queue acc = Some res ->
  (forall e, In e acc -> nget (fst e) ch = Some (snd e)) -> forall e, In e res -> nget (fst e) ch = Some (snd e).
Proof.
  induction f as [|f IH]; intros queue acc res H Hacc; cbn [descend_loop] in H; [discriminate|].
  destruct queue as [|p q].
  - injection H as <-. intros e He. apply Hacc, in_rev, He.
  - destruct (nget p ch) as [[l r]|] eqn:E; [|discriminate].
    apply (IH _ _ _ H). intros e [<-|He]; [exact E|apply Hacc, He].
Qed.
Lemma traverse_entries s res : traverse n s = Some res -> forall e, In e res -> nget (fst e) (children s) = Some (snd e).
Proof.
  unfold traverse. destruct (Nat.eqb N 1); [intros [= <-] e []|].
  intros H. apply (dfs_loop_entries _ _ _ _ _ _ H). intros e [].
Qed.
Lemma descend_entries s res : descend n s = Some res -> forall e, In e res -> nget (fst e) (children s) = Some (snd e).
Proof. unfold descend. intros H. apply (descend_loop_entries _ _ _ _ _ H). intros e []. Qed.

Lemma g_flops_children s nd : InvC s -> good_node nd -> flops_pre s nd -> children (fst (g_flops n s nd)) = children s.
Proof. intros [HS _] HG HP. destruct (g_flops_inv s nd HS HG HP) as (_ & B & _). apply B. Qed.
Lemma g_size_children s nd : InvC s -> good_node nd -> children (fst (g_size n s nd)) = children s.
Proof.
  intros [HS _] HG. unfold g_size. destruct (rd i_size s nd); [reflexivity|].
  destruct (g_legs_inv s nd HS HG) as (_ & B & _). destruct (g_legs n s nd) as [s1 l]. cbn [fst] in *.
  destruct (upd_info_fields nd (w_size (Some (size_of (szd n) (lkeys l)))) s1) as (F1&_). rewrite F1. apply B.
Qed.
Lemma keyed_fold (g : tstate -> node -> tstate * Z) :
  (forall s nd, InvC s -> nget nd (children s) <> None -> InvC (fst (g s nd)) /\ children (fst (g s nd)) = children s) ->
  forall (L : list (node * (node * node))) s acc, InvC s -> (forall c, In c L -> nget (fst c) (children s) <> None) ->
  let r := fold_left (fun acc c => let '(sa, v) := g (fst acc) (fst c) in (sa, snd acc ++ [(v, c)])) L (s, acc) in
  InvC (fst r) /\ children (fst r) = children s /\ map snd (snd r) = map snd acc ++ L.
Proof.
  intros Hg. induction L as [|c L IH]; intros s acc HI HL; cbn [fold_left].
  - cbn. rewrite app_nil_r. auto.
  - cbn [fst snd]. destruct (Hg s (fst c) HI (HL c (or_introl eq_refl))) as [A B].
    destruct (g s (fst c)) as [sa v]. cbn [fst] in A, B.
    destruct (IH sa (acc ++ [(v, c)]) A) as (A' & B' & C').
    + intros c' Hc'. rewrite B. apply HL. right. exact Hc'.
    + cbn zeta in A', B', C'. split; [exact A'|]. split; [congruence|]. rewrite C', map_app. cbn. rewrite <- app_assoc. reflexivity.
Qed.

Theorem sort_inds_inv pr moc mcc reset s : InvC s -> InvC (sort_inds n pr moc mcc reset s).
Proof.
  intros HI. unfold sort_inds.
  set (s0 := if reset then reset_inds s else s).
  assert (H0 : InvC s0) by (unfold s0; destruct reset; [apply reset_inds_inv, HI|exact HI]).
  assert (Hentries : forall e, nget (fst e) (children s0) = Some (snd e) ->
            good_node (fst e) /\ good_node (fst (snd e)) /\ good_node (snd (snd e))).
  { intros [p [l r]] E. cbn [fst snd] in *. apply (entry_good s0 p l r H0 E). }
  assert (Hin_ch : forall c, In c (children s0) -> nget (fst c) (children s0) = Some (snd c)).
  { intros [p lr] Hc. apply In_nget; [apply H0|exact Hc]. }
  assert (Hfin : forall s1 nodes, InvC s1 -> (forall e, In e nodes -> nget (fst e) (children s0) = Some (snd e)) ->
            InvC (reset_recipes (fold_left (sort_step n moc mcc) nodes s1))).
  { intros s1 nodes H1 Hn. apply reset_recipes_inv, inv_sort_fold; [exact H1|]. intros e He. apply Hentries, Hn, He. }
  destruct pr.
  - (* flops *)
    destruct (keyed_fold (g_flops n)) with (L := children s0) (s := s0) (acc := @nil (Z * (node * (node * node)))) as (A & B & C).
    + intros s' nd HI' Hch. assert (HG : good_node nd) by (apply (child_key_good s' nd (proj1 HI')), nget_in_keys, Hch).
      split; [apply inv_g_flops; [exact HI'|exact HG|right; left; exact Hch]|apply g_flops_children; [exact HI'|exact HG|right; left; exact Hch]].
    + exact H0.
    + intros c Hc. rewrite (Hin_ch c Hc). discriminate.
    + cbn zeta in A, B, C. destruct (fold_left _ (children s0) (s0, [])) as [sa keyed]. cbn [fst snd] in *. cbn [app map] in C.
      apply Hfin; [exact A|]. intros e He. apply Hin_ch. rewrite <- C.
      apply (Permutation_in _ (Permutation_map snd (sort_by_perm (fun a b : Z * (node * (node * node)) => (fst a <=? fst b)%Z) keyed))), He.
  - (* size *)
    destruct (keyed_fold (g_size n)) with (L := children s0) (s := s0) (acc := @nil (Z * (node * (node * node)))) as (A & B & C).
    + intros s' nd HI' Hch. assert (HG : good_node nd) by (apply (child_key_good s' nd (proj1 HI')), nget_in_keys, Hch).
      split; [apply inv_g_size; assumption|apply g_size_children; assumption].
    + exact H0.
    + intros c Hc. rewrite (Hin_ch c Hc). discriminate.
    + cbn zeta in A, B, C. destruct (fold_left _ (children s0) (s0, [])) as [sa keyed]. cbn [fst snd] in *. cbn [app map] in C.
      apply Hfin; [exact A|]. intros e He. apply Hin_ch. rewrite <- C.
      apply (Permutation_in _ (Permutation_map snd (sort_by_perm (fun a b : Z * (node * (node * node)) => (fst a <=? fst b)%Z) keyed))), He.
  - destruct (traverse n s0) as [nodes|] eqn:Et; [|apply inv_err, H0].
    apply Hfin; [exact H0|]. apply (traverse_entries s0 nodes Et).
  - destruct (descend n s0) as [nodes|] eqn:Et; [|apply inv_err, H0].
    apply Hfin; [exact H0|]. apply (descend_entries s0 nodes Et).
Qed.

(* ======================================================================== *)
(* Part N : the covered alphabet, final form: everything except restore_ind and the three
   single-figure totals (total_flops / total_write / max_size when they have to recompute) *)
Definition prim_preN (p : prim) (s : tstate) : Prop :=
  match p with
  | PGet GCanDot nd | PGet GInds nd | PGet GTdAxes nd | PGet GTdPerm nd | PGet GEq nd => good_node nd
  | PResetInds | PResetRecipes | PSortInds _ _ _ _ => True
  | PRemoveInd ind _ => rm_pre ind s
  | PTotalFlops => trk_flops s = true
  | PTotalWrite => trk_write s = true
  | PMaxSize => trk_size s = true
  | _ => prim_pre1 p s
  end.
Theorem step_preserves_InvCN p s : InvC s -> prim_preN p s -> InvC (step n p s).
Proof.
  intros HI Hp. destruct p as [nd|nd|x y lg c z|g nd|f| | | | | |pr a b c|ind pj|ind| |k];
    try (apply step_preserves_InvC1; assumption); cbn [step]; cbn [prim_preN] in Hp.
  - destruct g; cbn [do_get].
    + exact (step_preserves_InvC1 (PGet GLegs nd) s HI Hp).
    + exact (step_preserves_InvC1 (PGet GInvolved nd) s HI Hp).
    + exact (step_preserves_InvC1 (PGet GSize nd) s HI Hp).
    + exact (step_preserves_InvC1 (PGet GFlops nd) s HI Hp).
    + apply inv_g_can_dot; assumption.
    + apply inv_g_inds; assumption.
    + apply inv_g_tdaxes; assumption.
    + apply inv_g_tdperm; assumption.
    + apply inv_g_eq; assumption.
  - unfold total_flops_op. rewrite Hp. exact HI.
  - unfold total_write_op. rewrite Hp. exact HI.
  - unfold max_size_op. destruct (Nat.eqb_spec N 1); [lia|]. rewrite Hp. exact HI.
  - apply reset_inds_inv, HI.
  - apply reset_recipes_inv, HI.
  - apply sort_inds_inv, HI.
  - apply remove_ind_inv; assumption.
Qed.

(* ======================================================================== *)
(* Part O : the figures are a function of (children, SET of removed indices)  *)
Section SameRemoved.
Variable sl1 sl2 : list slinfo.
Hypothesis Hsame : forall j, In j (removed sl1) <-> In j (removed sl2).
Lemma memb_same j : memb j (removed sl1) = memb j (removed sl2).
Proof. apply memb_iff, Hsame. Qed.
Lemma spec_count_same S j : spec_count n sl1 S j = spec_count n sl2 S j.
Proof. unfold spec_count. rewrite (cnt_ext sl1 sl2 memb_same S j). reflexivity. Qed.
Lemma root_legs_same : root_legs n sl1 = root_legs n sl2.
Proof. unfold root_legs. f_equal. apply filter_ext. intros j. rewrite memb_same. reflexivity. Qed.
Lemma legs_ok_same nd lg : legs_ok n sl1 nd lg -> legs_ok n sl2 nd lg.
Proof.
  unfold legs_ok. rewrite root_legs_same. destruct (Nat.eqb (length nd) N); [auto|].
  intros [W G]. split; [exact W|]. intros j. rewrite G. apply spec_count_same.
Qed.
Lemma inv_ok_same l r inv : inv_ok n sl1 l r inv -> inv_ok n sl2 l r inv.
Proof. intros [W G]. split; [exact W|]. intros j. rewrite G, !spec_count_same. reflexivity. Qed.
End SameRemoved.

Theorem figures_determined s1 s2 : InvC s1 -> InvC s2 -> children s1 = children s2 ->
  (forall j, In j (removed (sliced s1)) <-> In j (removed (sliced s2))) ->
  forall nd i1 i2, nget nd (info s1) = Some i1 -> nget nd (info s2) = Some i2 ->
  (forall z1 z2, i_size i1 = Some z1 -> i_size i2 = Some z2 -> z1 = z2) /\
  (forall z1 z2, i_flops i1 = Some z1 -> i_flops i2 = Some z2 -> z1 = z2) /\
  (forall l1 l2, i_legs i1 = Some l1 -> i_legs i2 = Some l2 ->
     size_of (szd n) (lkeys l1) = size_of (szd n) (lkeys l2) /\ forall j, In j (lkeys l1) <-> In j (lkeys l2)).
Proof.
  intros [HS1 _] [HS2 _] Ech Hrm nd i1 i2 Hi1 Hi2.
  assert (HS1' := HS1). destruct HS1' as (Hc1&_&N1&_). assert (HS2' := HS2). destruct HS2' as (_&_&N2&_).
  destruct (N1 nd i1 Hi1) as [G (A1&B1&C1&D1)]. destruct (N2 nd i2 Hi2) as [_ (A2&B2&C2&D2)].
  destruct (g_legs_inv s1 nd HS1 G) as (_ & _ & Hw). set (lg0 := snd (g_legs n s1 nd)) in *.
  pose proof (legs_ok_same _ _ Hrm nd lg0 Hw) as Hw2.
  split; [|split].
  - intros z1 z2 E1 E2. rewrite (C1 z1 E1 lg0 Hw), (C2 z2 E2 lg0 Hw2). reflexivity.
  - intros z1 z2 E1 E2. destruct (D1 z1 E1) as [[L1 ->]|(l & r & Ech1 & F1)].
    + destruct (D2 z2 E2) as [[_ ->]|(l & r & Ech2 & _)]; [reflexivity|].
      exfalso. rewrite <- Ech in Ech2. apply (leaf_not_parent _ nd l r Hc1 Ech2 L1).
    + destruct (D2 z2 E2) as [[L2 _]|(l' & r' & Ech2 & F2)]; [exfalso; apply (leaf_not_parent _ nd l r Hc1 Ech1 L2)|].
      rewrite <- Ech, Ech1 in Ech2. injection Ech2 as <- <-.
      destruct (g_involved_inv s1 nd HS1 G) as (_ & _ & Hv).
      destruct Hv as [[L _]|(l2 & r2 & E & Hinv)]; [right; congruence|exfalso; apply (leaf_not_parent _ nd l r Hc1 Ech1 L)|].
      rewrite Ech1 in E. injection E as <- <-.
      rewrite (F1 _ Hinv), (F2 _ (inv_ok_same _ _ Hrm l r _ Hinv)). reflexivity.
  - intros l1 l2 E1 E2. pose proof (legs_ok_same _ _ Hrm nd l1 (A1 l1 E1)) as H1. pose proof (A2 l2 E2) as H2.
    split; [apply (legs_ok_size_unique n (sliced s2) _ nd); assumption|].
    unfold legs_ok in H1, H2. destruct (Nat.eqb (length nd) N).
    + destruct H1 as [_ G1], H2 as [_ G2]. intros j. rewrite <- !lget_in_keys, G1, G2. tauto.
    + destruct H1 as [W1 G1], H2 as [W2 G2]. apply wfl_keys_same; try assumption. intros j. rewrite G1, G2. reflexivity.
Qed.

(* ... and so are the tracked totals *)
Theorem totals_determined s1 s2 : InvC s1 -> InvC s2 -> children s1 = children s2 ->
  Permutation (sliced s1) (sliced s2) ->
  (forall p, In p (nkeys (children s1)) -> nget p (info s1) <> None /\ nget p (info s2) <> None) ->
  (trk_flops s1 = true -> trk_flops s2 = true -> flops_ s1 = flops_ s2) /\
  (trk_write s1 = true -> trk_write s2 = true -> write_ s1 = write_ s2) /\
  mult s1 = mult s2.
Proof.
  intros HI1 HI2 Ech HP Hpres.
  assert (Hrm : forall j, In j (removed (sliced s1)) <-> In j (removed (sliced s2))).
  { intros j. unfold removed. split; apply Permutation_in; [|apply Permutation_sym]; apply Permutation_map, HP. }
  pose proof (figures_determined s1 s2 HI1 HI2 Ech Hrm) as HF.
  destruct HI1 as [HS1 HT1], HI2 as [HS2 HT2].
  assert (HT1' : tot_flops (nkeys (children s1)) s1 /\ tot_write (nkeys (children s1)) s1 /\ tot_size (nkeys (children s1)) s1) by (apply totals_split, HT1).
  assert (HT2' : tot_flops (nkeys (children s1)) s2 /\ tot_write (nkeys (children s1)) s2 /\ tot_size (nkeys (children s1)) s2) by (rewrite Ech; apply totals_split, HT2).
  destruct HT1' as (F1 & W1 & _), HT2' as (F2 & W2 & _).
  split; [|split].
  - intros T1 T2. destruct (F1 T1) as [Ea Pa], (F2 T2) as [Eb Pb]. rewrite Ea, Eb. f_equal. apply map_ext_in. intros p Hp.
    destruct (Hpres p Hp) as [K1 K2]. destruct (nget p (info s1)) as [i1|] eqn:E1; [|congruence].
    destruct (nget p (info s2)) as [i2|] eqn:E2; [|congruence].
    specialize (Pa p Hp). specialize (Pb p Hp). unfold cflops, rd in *. rewrite E1 in *. rewrite E2 in *.
    destruct (HF p i1 i2 E1 E2) as (_ & Hf & _).
    destruct (i_flops i1) as [z1|]; [|congruence]. destruct (i_flops i2) as [z2|]; [|congruence].
    apply (Hf z1 z2); reflexivity.
  - intros T1 T2. destruct (W1 T1) as [Ea Pa], (W2 T2) as [Eb Pb]. rewrite Ea, Eb. f_equal. apply map_ext_in. intros p Hp.
    destruct (Hpres p Hp) as [K1 K2]. destruct (nget p (info s1)) as [i1|] eqn:E1; [|congruence].
    destruct (nget p (info s2)) as [i2|] eqn:E2; [|congruence].
    specialize (Pa p Hp). specialize (Pb p Hp). unfold csize, rd in *. rewrite E1 in *. rewrite E2 in *.
    destruct (HF p i1 i2 E1 E2) as (Hsz & _).
    destruct (i_size i1) as [z1|]; [|congruence]. destruct (i_size i2) as [z2|]; [|congruence].
    apply (Hsz z1 z2); reflexivity.
  - destruct HS1 as (_&_&_&M1), HS2 as (_&_&_&M2). rewrite M1, M2. apply multiplicity_perm, HP.
Qed.

(* ======================================================================== *)
(* Part P : the same lemmas relative to a set V of nodes on which validity is demanded
   (used by restore_ind, whose loop passes through states in which the not yet re-created
   ancestors still carry caches for the OLD sliced set) *)
Section VV.
Variable V : node -> Prop.
Definition InvSV (s : tstate) : Prop :=
  children_ok (children s) /\
  NoDup (nkeys (info s)) /\
  (forall nd i, nget nd (info s) = Some i -> good_node nd /\ (V nd -> node_inv (children s) (sliced s) nd i)) /\
  mult s = multiplicity n (sliced s).
(* V is closed under children and under the leaves of its members *)
Definition Vclosed (ch : list (node * (node * node))) : Prop :=
  (forall p l r, nget p ch = Some (l, r) -> V p -> V l /\ V r) /\ (forall nd k, V nd -> In k nd -> V [k]).

Lemma InvSV_same s s' : same_cost_fields s s' -> InvSV s -> InvSV s'.
Proof.
  intros (E1&E2&E3&E4&E5&E6&E7&E8&E9&E10&E11) (H1&H2&H3&H5).
  unfold InvSV in *. rewrite E1, E2, E3, E4. exact (conj H1 (conj H2 (conj H3 H5))).
Qed.
Lemma InvSV_upd nd f s : InvSV s ->
  (forall i, nget nd (info s) = Some i -> V nd -> node_inv (children s) (sliced s) nd (f i)) ->
  InvSV (upd_info nd f s).
Proof.
  intros HI Hf. destruct (nget nd (info s)) as [i|] eqn:E.
  2:{ unfold upd_info. rewrite E. apply (InvSV_same s), HI. apply same_set_err. }
  destruct HI as (H1&H2&H3&H5). unfold InvSV, upd_info. rewrite E. cbn [set_info children info sliced mult].
  split; [exact H1|]. split; [rewrite nkeys_nset_in by congruence; exact H2|]. split; [|exact H5].
  intros nd' i' Hg. destruct (node_eq_dec nd' nd) as [->|Hn].
  - rewrite nget_nset_same in Hg. injection Hg as <-. split; [apply (H3 nd i E)|intros HV; apply (Hf i eq_refl HV)].
  - rewrite nget_nset_other in Hg by exact Hn. apply H3, Hg.
Qed.
Lemma InvCV_upd nd f s : InvSV s ->
  (forall i, nget nd (info s) = Some i -> (V nd -> node_inv (children s) (sliced s) nd (f i)) /\ mono i (f i)) ->
  InvSV (upd_info nd f s) /\ Ext s (upd_info nd f s).
Proof.
  intros HI Hf. split; [apply InvSV_upd; [exact HI|intros i Hi HV; apply (proj1 (Hf i Hi) HV)]|apply Ext_upd; intros i Hi; apply (Hf i Hi)].
Qed.
Lemma cache_legsV s s1 nd v : InvSV s1 -> Ext s s1 -> (V nd -> legs_ok n (sliced s) nd v) ->
  InvSV (upd_info nd (w_legs (Some v)) s1) /\ Ext s (upd_info nd (w_legs (Some v)) s1).
Proof.
  intros HI HE Hv. destruct (InvCV_upd nd (w_legs (Some v)) s1 HI) as [H1 H2].
  - intros i Hi. destruct HI as (_&_&H3&_). destruct (H3 nd i Hi) as [_ Hn]. split; [|split; cbn; auto].
    intros HV. apply node_inv_w_legs; [exact (Hn HV)|]. destruct HE as (_&E2&_). rewrite E2. exact (Hv HV).
  - split; [exact H1|eapply Ext_trans; eassumption].
Qed.
Lemma cache_involvedV s s1 nd v : InvSV s1 -> Ext s s1 -> (V nd -> inv_spec (children s) (sliced s) nd v) ->
  InvSV (upd_info nd (w_involved (Some v)) s1) /\ Ext s (upd_info nd (w_involved (Some v)) s1).
Proof.
  intros HI HE Hv. destruct (InvCV_upd nd (w_involved (Some v)) s1 HI) as [H1 H2].
  - intros i Hi. destruct HI as (_&_&H3&_). destruct (H3 nd i Hi) as [_ Hn]. split; [|split; cbn; auto].
    intros HV. apply node_inv_w_involved; [exact (Hn HV)|]. destruct HE as (E1&E2&_). rewrite E1, E2. exact (Hv HV).
  - split; [exact H1|eapply Ext_trans; eassumption].
Qed.
Definition PlV (f : nat) : Prop := forall s nd, InvSV s -> Vclosed (children s) -> V nd -> good_node nd -> 2 * length nd <= f ->
  InvSV (fst (get_legs n f s nd)) /\ Ext s (fst (get_legs n f s nd)) /\
  legs_ok n (sliced s) nd (snd (get_legs n f s nd)).
Definition PiV (f : nat) : Prop := forall s nd, InvSV s -> Vclosed (children s) -> V nd -> good_node nd -> 2 * length nd <= f + 1 ->
  InvSV (fst (get_involved n f s nd)) /\ Ext s (fst (get_involved n f s nd)) /\
  match snd (get_involved n f s nd) with
  | Some inv => inv_spec (children s) (sliced s) nd inv
  | None => nget nd (children s) = None /\ length nd <> 1
  end.
Lemma fallback_foldV f' sl0 : PlV f' -> 2 <= f' -> forall xs s2 acc,
  InvSV s2 -> Vclosed (children s2) -> (forall k, In k xs -> V [k]) -> sliced s2 = sl0 -> (forall k, In k xs -> k < N) ->
  let r := fold_left (fun acc i => let '(sa, l) := get_legs n f' (fst acc) [i] in (sa, snd acc ++ [l])) xs (s2, acc) in
  InvSV (fst r) /\ Ext s2 (fst r) /\
  exists ls', snd r = acc ++ ls' /\ Forall2 (fun i lg => slegs_ok n sl0 [i] lg) xs ls'.
Proof.
  intros HPl Hf. induction xs as [|x xs IH]; intros s2 acc HI HC HVx Hsl Hb; cbn [fold_left].
  - cbn. split; [exact HI|]. split; [apply Ext_refl|]. exists []. rewrite app_nil_r. split; [reflexivity|constructor].
  - cbn [fst snd].
    assert (Gx : good_node [x]).
    { split; [|discriminate]. split; [repeat constructor; cbn; tauto|]. intros k [<-|[]]. apply Hb. left. reflexivity. }
    destruct (HPl s2 [x] HI HC (HVx x (or_introl eq_refl)) Gx) as (A & B & C); [cbn; lia|].
    destruct (get_legs n f' s2 [x]) as [sa l] eqn:El. cbn [fst snd] in A, B, C.
    assert (Esl : sliced sa = sl0) by (destruct B as (_&E2&_); congruence).
    assert (HCa : Vclosed (children sa)) by (destruct B as (Ech&_); rewrite Ech; exact HC).
    destruct (IH sa (acc ++ [l]) A HCa) as (A' & B' & ls' & E' & F').
    { intros k Hk. apply HVx. right. exact Hk. }
    { exact Esl. }
    { intros k Hk. apply Hb. right. exact Hk. }
    split; [exact A'|]. split; [eapply Ext_trans; eassumption|].
    exists (l :: ls'). split; [rewrite E', <- app_assoc; reflexivity|].
    constructor; [|exact F']. rewrite Hsl in C. apply legs_ok_nonroot in C; [exact C|cbn; lia].
Qed.
Lemma getters_stepV f' : PlV f' /\ PiV f' -> PlV (S f') /\ PiV (S f').
Proof.
  intros [HPl HPi]. split.
  - (* get_legs *)
    intros s nd HI HC HV HG Hf. rewrite get_legs_S.
    destruct (rd i_legs s nd) as [lg|] eqn:Er.
    { cbn [fst snd]. split; [exact HI|]. split; [apply Ext_refl|].
      destruct (rd_Some _ _ _ _ Er) as (i & Hi & Hl). destruct HI as (_&_&H3&_).
      destruct (H3 nd i Hi) as [_ Hn]. destruct (Hn HV) as (A&_). apply A, Hl. }
    pose proof (good_len nd HG) as Hlen.
    destruct (Nat.eqb_spec (length nd) 1) as [E1|E1].
    { (* leaf *)
      rewrite (len1 nd E1) in *. set (k := hd 0 nd) in *.
      assert (Hk : k < N) by (apply good_leaf, HG).
      unfold compute_leaf_legs.
      set (s' := match leaf_preproc n (sliced s) k with Some tk => set_preproc (pset k (canon_eq1 tk) (preproc s)) s | None => s end).
      assert (Hs' : same_cost_fields s s').
      { unfold s'. destruct (leaf_preproc n (sliced s) k); [apply same_set_preproc|unfold same_cost_fields; repeat split; reflexivity]. }
      assert (Ec : cores s' = cores s) by (unfold s'; destruct (leaf_preproc n (sliced s) k); reflexivity).
      cbn [fst snd].
      destruct (cache_legsV s s' [k] (leaf_legs n (sliced s) k)) as [A B];
        [apply (InvSV_same s), HI; exact Hs'|apply Ext_same; assumption|intros _; apply legs_ok_leaf, Hk|].
      split; [exact A|]. split; [exact B|apply legs_ok_leaf, Hk]. }
    destruct (Nat.eqb_spec (length nd) N) as [EN|EN].
    { cbn [fst snd]. destruct (cache_legsV s s nd (root_legs n (sliced s)) HI (Ext_refl s) (fun _ => legs_ok_root _ _ EN)) as [A B].
      split; [exact A|]. split; [exact B|apply legs_ok_root, EN]. }
    destruct (HPi s nd HI HC HV HG) as (A & B & C); [lia|].
    destruct (get_involved n f' s nd) as [s2 [inv|]] eqn:Ei; cbn [fst snd] in A, B, C.
    + (* involved available *)
      cbn [fst snd].
      assert (Hv : legs_ok n (sliced s) nd (filter (fun kv => Nat.ltb (snd kv) (appear n (fst kv))) inv)).
      { destruct C as [[C _]|(l & r & Hch & Hinv)]; [contradiction|].
        destruct HI as ((_&Hc)&_). destruct (Hc nd l r Hch) as (_&_&HR&HP).
        apply legs_ok_nonroot; [exact EN|]. apply (slegs_ok_perm n _ (l ++ r)); [apply Permutation_sym, HP|].
        apply filter_inv_ok; assumption. }
      destruct (cache_legsV s s2 nd _ A B (fun _ => Hv)) as [A' B']. split; [exact A'|]. split; [exact B'|exact Hv].
    + (* the fallback over the leaves *)
      assert (Hf' : 2 <= f') by lia.
      destruct (fallback_foldV f' (sliced s) HPl Hf' nd s2 [] A) as (A' & B' & ls' & E' & F').
      { destruct B as (Ech&_). rewrite Ech. exact HC. }
      { intros k Hk. apply (proj2 HC nd k HV Hk). }
      { destruct B as (_&E2&_). exact E2. }
      { intros k Hk. apply HG, Hk. }
      cbn zeta in A', B', E'.
      destruct (fold_left _ nd (s2, [])) as [s3 ls] eqn:Ef. cbn [fst snd] in A', B', E'. cbn [fst snd].
      cbn [app] in E'. subst ls.
      assert (Hv : legs_ok n (sliced s) nd (filter (fun kv => Nat.ltb (snd kv) (appear n (fst kv))) (legs_union ls'))).
      { apply leaves_union_ok; [apply HG|apply HG|exact EN|exact F']. }
      destruct (cache_legsV s s3 nd _ A' (Ext_trans _ _ _ B B') (fun _ => Hv)) as [A'' B''].
      split; [exact A''|]. split; [exact B''|exact Hv].
  - (* get_involved *)
    intros s nd HI HC HV HG Hf. rewrite get_involved_S.
    destruct (rd i_involved s nd) as [inv|] eqn:Er.
    { cbn [fst snd]. split; [exact HI|]. split; [apply Ext_refl|].
      destruct (rd_Some _ _ _ _ Er) as (i & Hi & Hl). destruct HI as (_&_&H3&_).
      destruct (H3 nd i Hi) as [_ Hn]. destruct (Hn HV) as (_&A&_). apply A, Hl. }
    destruct (Nat.eqb_spec (length nd) 1) as [E1|E1].
    { cbn [fst snd]. assert (Hv : inv_spec (children s) (sliced s) nd []) by (left; split; [exact E1|reflexivity]).
      destruct (cache_involvedV s s nd [] HI (Ext_refl s) (fun _ => Hv)) as [A B]. split; [exact A|]. split; [exact B|exact Hv]. }
    destruct (nget nd (children s)) as [[l r]|] eqn:Ech.
    2:{ cbn [fst snd]. split; [exact HI|]. split; [apply Ext_refl|]. split; [reflexivity|exact E1]. }
    assert (Hc := HI). destruct Hc as ((_&Hc)&_). destruct (Hc nd l r Ech) as (Gl & Gr & HR & HP).
    pose proof (Permutation_length HP) as HL. rewrite app_length in HL.
    pose proof (good_len l Gl) as Ll. pose proof (good_len r Gr) as Lr. pose proof (good_len nd HG) as Lnd.
    destruct (proj1 HC nd l r Ech HV) as [Vl Vr].
    destruct (HPl s l HI HC Vl Gl) as (A1 & B1 & C1); [lia|].
    destruct (get_legs n f' s l) as [s1 ll] eqn:El. cbn [fst snd] in A1, B1, C1.
    assert (HC1 : Vclosed (children s1)) by (destruct B1 as (Ech1&_); rewrite Ech1; exact HC).
    destruct (HPl s1 r A1 HC1 Vr Gr) as (A2 & B2 & C2); [lia|].
    destruct (get_legs n f' s1 r) as [s2 lr] eqn:Elr. cbn [fst snd] in A2, B2, C2. cbn [fst snd].
    assert (Esl1 : sliced s1 = sliced s) by apply B1. rewrite Esl1 in C2.
    apply legs_ok_nonroot in C1; [|lia]. apply legs_ok_nonroot in C2; [|lia].
    assert (Hv : inv_spec (children s) (sliced s) nd (legs_union2 ll lr)).
    { right. exists l, r. split; [exact Ech|apply union2_inv_ok; assumption]. }
    destruct (cache_involvedV s s2 nd _ A2 (Ext_trans _ _ _ B1 B2) (fun _ => Hv)) as [A B].
    split; [exact A|]. split; [exact B|exact Hv].
Qed.
Lemma getters_allV f : PlV f /\ PiV f.
Proof.
  induction f as [|f IH]; [|apply getters_stepV, IH]. split.
  - intros s nd _ _ _ HG Hf. pose proof (good_len nd HG). lia.
  - intros s nd _ _ _ HG Hf. pose proof (good_len nd HG). lia.
Qed.
Lemma g_legs_invV s nd : InvSV s -> Vclosed (children s) -> V nd -> good_node nd ->
  InvSV (fst (g_legs n s nd)) /\ Ext s (fst (g_legs n s nd)) /\ legs_ok n (sliced s) nd (snd (g_legs n s nd)).
Proof. intros HI HC HV HG. apply (proj1 (getters_allV (fuel n s))); [exact HI|exact HC|exact HV|exact HG|apply fuel_enough, HG]. Qed.

Lemma g_involved_invV s nd : InvSV s -> Vclosed (children s) -> V nd -> good_node nd ->
  InvSV (fst (g_involved n s nd)) /\ Ext s (fst (g_involved n s nd)) /\
  (length nd = 1 \/ nget nd (children s) <> None -> inv_spec (children s) (sliced s) nd (snd (g_involved n s nd))).
Proof.
  intros HI HC HV HG. unfold g_involved.
  destruct (proj2 (getters_allV (fuel n s)) s nd HI HC HV HG) as (A & B & C); [pose proof (fuel_enough s nd HG); lia|].
  destruct (get_involved n (fuel n s) s nd) as [s' [v|]]; cbn [fst snd] in *.
  - split; [exact A|]. split; [exact B|]. intros _. exact C.
  - split; [apply (InvSV_same s'), A; apply same_set_err|].
    split; [eapply Ext_trans; [exact B|apply Ext_same; [apply same_set_err|reflexivity]]|].
    intros [H|H]; [destruct C; contradiction|destruct C; contradiction].
Qed.
Lemma g_size_invV s nd : InvSV s -> Vclosed (children s) -> V nd -> good_node nd ->
  InvSV (fst (g_size n s nd)) /\ Ext s (fst (g_size n s nd)) /\ size_spec (sliced s) nd (snd (g_size n s nd))
  /\ rd i_size (fst (g_size n s nd)) nd = Some (snd (g_size n s nd)) \/ nget nd (info s) = None.
Proof.
  intros HI HC HV HG. destruct (nget nd (info s)) as [i0|] eqn:Ei0; [left|right; reflexivity].
  unfold g_size. destruct (rd i_size s nd) as [z|] eqn:Er.
  { cbn [fst snd]. split; [exact HI|]. split; [apply Ext_refl|]. split; [|exact Er].
    destruct (rd_Some _ _ _ _ Er) as (i & Hi & Hz). destruct HI as (_&_&H3&_).
    destruct (H3 nd i Hi) as [_ Hn]. destruct (Hn HV) as (_&_&A&_). apply A, Hz. }
  destruct (g_legs_invV s nd HI HC HV HG) as (A & B & C).
  destruct (g_legs n s nd) as [s1 l]. cbn [fst snd] in *.
  assert (Esl : sliced s1 = sliced s) by apply B.
  destruct (InvCV_upd nd (w_size (Some (size_of (szd n) (lkeys l)))) s1 A) as [A' B'].
  { intros i Hi. destruct A as (_&_&H3&_). destruct (H3 nd i Hi) as [_ Hn].
    destruct (node_inv_w_size' _ _ nd i l (Hn HV)) as [Q1 Q2]; [rewrite Esl; exact C|]. split; [intros _; exact Q1|exact Q2]. }
  split; [exact A'|]. split; [eapply Ext_trans; eassumption|]. split.
  - intros lg Hlg. apply (legs_ok_size_unique n (sliced s) _ nd); assumption.
  - assert (Hk : nget nd (info s1) <> None).
    { apply nget_in_keys. destruct B as (_&_&_&_&_&_&_&_&_&_&_&Ek&_). unfold nkeys in *. rewrite Ek.
      apply nget_in_keys. congruence. }
    destruct (nget nd (info s1)) as [i1|] eqn:Ei1; [|congruence].
    rewrite (rd_upd_same i_size nd _ s1 i1 Ei1). reflexivity.
Qed.
Lemma g_flops_invV s nd : InvSV s -> Vclosed (children s) -> V nd -> good_node nd -> flops_pre s nd ->
  InvSV (fst (g_flops n s nd)) /\ Ext s (fst (g_flops n s nd)) /\
  (nget nd (info s) <> None -> rd i_flops (fst (g_flops n s nd)) nd = Some (snd (g_flops n s nd))).
Proof.
  intros HI HC HV HG Hpre. unfold g_flops. destruct (rd i_flops s nd) as [z|] eqn:Er.
  { cbn [fst snd]. split; [exact HI|]. split; [apply Ext_refl|]. intros _. exact Er. }
  destruct (Nat.eqb_spec (length nd) 1) as [E1|E1].
  { cbn [fst snd]. destruct (InvCV_upd nd (w_flops (Some 0%Z)) s HI) as [A B].
    { intros i Hi. assert (HI' := HI). destruct HI' as (Hc&_&H3&_). destruct (H3 nd i Hi) as [_ Hn].
      destruct (node_inv_w_flops0 _ _ nd i Hc (Hn HV) E1) as [Q1 Q2]. split; [intros _; exact Q1|exact Q2]. }
    split; [exact A|]. split; [exact B|]. intros Hk. destruct (nget nd (info s)) as [i|] eqn:Ei; [|congruence].
    rewrite (rd_upd_same i_flops nd _ s i Ei). reflexivity. }
  assert (Hch : nget nd (children s) <> None) by (destruct Hpre as [H|[H|H]]; [contradiction|exact H|congruence]).
  destruct (g_involved_invV s nd HI HC HV HG) as (A & B & C).
  destruct (g_involved n s nd) as [s1 inv]. cbn [fst snd] in *.
  destruct (C (or_intror Hch)) as [[E _]|(l & r & Ech & Hinv)]; [contradiction|].
  assert (Ech1 : children s1 = children s) by apply B. assert (Esl1 : sliced s1 = sliced s) by apply B.
  destruct (InvCV_upd nd (w_flops (Some (size_of (szd n) (lkeys inv)))) s1 A) as [A' B'].
  { intros i Hi. assert (A0 := A). destruct A0 as (Hc&_&H3&_). destruct (H3 nd i Hi) as [_ Hn].
    destruct (node_inv_w_flops' _ _ nd i l r inv (Hn HV) Hc) as [Q1 Q2]; [rewrite Ech1; exact Ech|rewrite Esl1; exact Hinv|].
    split; [intros _; exact Q1|exact Q2]. }
  split; [exact A'|]. split; [eapply Ext_trans; eassumption|].
  intros Hk. assert (Hk1 : nget nd (info s1) <> None).
  { apply nget_in_keys. destruct B as (_&_&_&_&_&_&_&_&_&_&_&Ek&_). unfold nkeys in *. rewrite Ek. apply nget_in_keys, Hk. }
  destruct (nget nd (info s1)) as [i1|] eqn:Ei1; [|congruence].
  rewrite (rd_upd_same i_flops nd _ s1 i1 Ei1). reflexivity.
Qed.
Lemma InvSV_children_del nd s i' :
  InvSV s -> (length nd = N -> i' = Some noinfo) ->
  forall s', children s' = ndel nd (children s) -> sliced s' = sliced s -> mult s' = mult s ->
  info s' = match i' with Some x => nset nd x (info s) | None => ndel nd (info s) end ->
  nget nd (info s) <> None -> (i' = None \/ i' = Some noinfo) ->
  InvSV s'.
Proof.
  intros (H1&H2&H3&H5) _ s' Ech Esl Em Ei Hk Hi'. destruct H1 as [Hnd Hc].
  unfold InvSV. rewrite Ech, Esl, Em. split; [|split; [|split; [|exact H5]]].
  - split; [apply NoDup_nkeys_ndel, Hnd|]. intros p l r Hp. destruct (node_eq_dec p nd) as [->|Hn].
    + rewrite nget_ndel_same in Hp by exact Hnd. discriminate.
    + rewrite nget_ndel_other in Hp by exact Hn. apply Hc, Hp.
  - rewrite Ei. destruct i'; [apply NoDup_nkeys_nset, H2|apply NoDup_nkeys_ndel, H2].
  - intros nd' j Hj. rewrite Ei in Hj.
    assert (Hcase : (nd' = nd /\ j = noinfo) \/ (nd' <> nd /\ nget nd' (info s) = Some j)).
    { destruct (node_eq_dec nd' nd) as [->|Hn].
      - destruct Hi' as [->| ->].
        + rewrite nget_ndel_same in Hj by exact H2. discriminate.
        + rewrite nget_nset_same in Hj. injection Hj as <-. left. auto.
      - right. split; [exact Hn|]. destruct i'; [rewrite nget_nset_other in Hj by exact Hn|rewrite nget_ndel_other in Hj by exact Hn]; exact Hj. }
    destruct Hcase as [[-> ->]|[Hn Hj']].
    + destruct (nget nd (info s)) as [i0|] eqn:E0; [|congruence]. split; [apply (H3 nd i0 E0)|intros _; apply node_inv_noinfo].
    + destruct (H3 nd' j Hj') as [G Hv]. split; [exact G|]. intros HV. destruct (Hv HV) as (A&B&C&D). unfold node_inv. repeat split; auto.
      * intros inv Hinv. destruct (B inv Hinv) as [Hl|(l & r & E & Hok)]; [left; exact Hl|right].
        exists l, r. split; [rewrite nget_ndel_other by exact Hn; exact E|exact Hok].
      * intros z Hz. destruct (D z Hz) as [Hl|(l & r & E & Hok)]; [left; exact Hl|right].
        exists l, r. split; [rewrite nget_ndel_other by exact Hn; exact E|exact Hok].
Qed.
Lemma InvSV_struct s s' : same_struct s s' -> InvSV s -> InvSV s'.
Proof. intros (E1&E2&E3&E4) H. unfold InvSV in *. rewrite E1, E2, E3, E4. exact H. Qed.

Lemma track_flopsV K p s : InvSV s -> Vclosed (children s) -> V p -> good_node p -> nget p (children s) <> None -> nget p (info s) <> None ->
  tot_flops K s ->
  let s1 := (if trk_flops s then let '(sa, fl) := g_flops n s p in set_flops (flops_ sa + fl)%Z sa else s) in
  InvSV s1 /\ ExtI s s1 /\ write_ s1 = write_ s /\ sizes_ s1 = sizes_ s /\ sizes_max s1 = sizes_max s /\
  tot_flops (K ++ [p]) s1.
Proof.
  intros HS HC HV HG Hch Hk T. cbn zeta. destruct (trk_flops s) eqn:Ts.
  - destruct (g_flops_invV s p HS HC HV HG) as (A & B & C); [right; left; exact Hch|].
    specialize (C Hk). destruct (g_flops n s p) as [sa fl]. cbn [fst snd] in *.
    split; [apply (InvSV_struct sa); [unfold same_struct; repeat split; reflexivity|exact A]|].
    split; [apply (ExtI_trans _ sa); [apply Ext_ExtI, B|unfold ExtI; repeat split; auto]|].
    assert (B' := B). destruct B' as (_&_&_&B4&_&_&B7&B8&B9&B10&_).
    split; [exact B8|]. split; [exact B9|]. split; [exact B10|].
    pose proof (tot_flops_Ext K s sa B T) as T'. unfold tot_flops in *. cbn. intros _.
    rewrite B4 in T'. destruct (T' Ts) as [Ta Tb].
    change (cflops (set_flops (flops_ sa + fl)%Z sa)) with (cflops sa).
    change (rd i_flops (set_flops (flops_ sa + fl)%Z sa)) with (rd i_flops sa). split.
    + assert (Ecf : cflops sa p = fl) by (unfold cflops; rewrite C; reflexivity).
      rewrite map_app, zsum_app, Ta. cbn [map]. rewrite zsum_cons, Ecf. change (zsum []) with 0%Z. lia.
    + intros q Hq. apply in_app_iff in Hq. destruct Hq as [Hq|[<-|[]]]; [apply Tb, Hq|rewrite C; discriminate].
  - split; [exact HS|]. split; [unfold ExtI; repeat split; auto|]. repeat split; try reflexivity; try congruence; try discriminate.
Qed.
Lemma track_writeV K p s : InvSV s -> Vclosed (children s) -> V p -> good_node p -> nget p (info s) <> None -> tot_write K s ->
  let s1 := (if trk_write s then let '(sa, sz) := g_size n s p in set_write (write_ sa + sz)%Z sa else s) in
  InvSV s1 /\ ExtI s s1 /\ flops_ s1 = flops_ s /\ sizes_ s1 = sizes_ s /\ sizes_max s1 = sizes_max s /\
  tot_write (K ++ [p]) s1.
Proof.
  intros HS HC HV HG Hk T. cbn zeta. destruct (trk_write s) eqn:Ts.
  - destruct (g_size_invV s p HS HC HV HG) as [(A & B & _ & C)|C]; [|congruence].
    destruct (g_size n s p) as [sa sz]. cbn [fst snd] in *.
    split; [apply (InvSV_struct sa); [unfold same_struct; repeat split; reflexivity|exact A]|].
    split; [apply (ExtI_trans _ sa); [apply Ext_ExtI, B|unfold ExtI; repeat split; auto]|].
    assert (B' := B). destruct B' as (_&_&_&_&B5&_&B7&B8&B9&B10&_).
    split; [exact B7|]. split; [exact B9|]. split; [exact B10|].
    pose proof (tot_write_Ext K s sa B T) as T'. unfold tot_write in *. cbn. intros _.
    rewrite B5 in T'. destruct (T' Ts) as [Ta Tb].
    change (csize (set_write (write_ sa + sz)%Z sa)) with (csize sa).
    change (rd i_size (set_write (write_ sa + sz)%Z sa)) with (rd i_size sa). split.
    + assert (Ecf : csize sa p = sz) by (unfold csize; rewrite C; reflexivity).
      rewrite map_app, zsum_app, Ta. cbn [map]. rewrite zsum_cons, Ecf. change (zsum []) with 0%Z. lia.
    + intros q Hq. apply in_app_iff in Hq. destruct Hq as [Hq|[<-|[]]]; [apply Tb, Hq|rewrite C; discriminate].
  - split; [exact HS|]. split; [unfold ExtI; repeat split; auto|]. repeat split; try reflexivity; try congruence; try discriminate.
Qed.
Lemma track_sizeV K p s : InvSV s -> Vclosed (children s) -> V p -> good_node p -> nget p (info s) <> None -> tot_size K s ->
  let s1 := (if trk_size s then let '(sa, sz) := g_size n s p in set_sizes (mc_add sz (sizes_mc sa)) sa else s) in
  InvSV s1 /\ ExtI s s1 /\ flops_ s1 = flops_ s /\ write_ s1 = write_ s /\
  tot_size (K ++ [p]) s1.
Proof.
  intros HS HC HV HG Hk T. cbn zeta. destruct (trk_size s) eqn:Ts.
  - destruct (g_size_invV s p HS HC HV HG) as [(A & B & _ & C)|C]; [|congruence].
    destruct (g_size n s p) as [sa sz]. cbn [fst snd] in *.
    split; [apply (InvSV_struct sa); [unfold same_struct; repeat split; reflexivity|exact A]|].
    split; [apply (ExtI_trans _ sa); [apply Ext_ExtI, B|unfold ExtI; repeat split; auto]|].
    assert (B' := B). destruct B' as (_&_&_&_&_&B6&B7&B8&_).
    split; [exact B7|]. split; [exact B8|].
    pose proof (tot_size_Ext K s sa B T) as T'. unfold tot_size in *. intros _.
    rewrite B6 in T'. destruct (T' Ts) as (Ta & Tb & Tc).
    change (mc_ok (mc_add sz (sizes_mc sa)) /\
            (forall z, cget0 z (fst (mc_add sz (sizes_mc sa))) = count_occ Z.eq_dec (map (csize sa) (K ++ [p])) z) /\
            (forall q, In q (K ++ [p]) -> rd i_size sa q <> None)).
    split; [apply mc_add_ok, Ta|]. split.
    + intros z. rewrite mc_add_count. cbn [fst sizes_mc]. rewrite Tb, map_app. cbn [map]. rewrite count_occ_snoc.
      assert (Ecf : csize sa p = sz) by (unfold csize; rewrite C; reflexivity). rewrite Ecf. reflexivity.
    + intros q Hq. apply in_app_iff in Hq. destruct Hq as [Hq|[<-|[]]]; [apply Tc, Hq|rewrite C; discriminate].
  - split; [exact HS|]. split; [unfold ExtI; repeat split; auto|]. repeat split; try reflexivity; try congruence; try discriminate.
Qed.
Lemma InvSV_children_add p l r s : InvSV s -> nget p (children s) = None ->
  good_node l -> good_node r -> inrange n (l ++ r) -> Permutation p (l ++ r) ->
  InvSV (set_children (nset p (l, r) (children s)) s).
Proof.
  intros (H1&H2&H3&H5) Hnone Gl Gr HR HP. destruct H1 as [Hnd Hc].
  unfold InvSV. cbn [set_children children info sliced mult]. split; [|split; [exact H2|split; [|exact H5]]].
  - split; [apply NoDup_nkeys_nset, Hnd|]. intros q l' r' Hq. destruct (node_eq_dec q p) as [->|Hn].
    + rewrite nget_nset_same in Hq. injection Hq as <- <-. auto.
    + rewrite nget_nset_other in Hq by exact Hn. apply Hc, Hq.
  - intros nd' i Hi. destruct (H3 nd' i Hi) as [G Hv]. split; [exact G|]. intros HV. destruct (Hv HV) as (A&B&C&D). unfold node_inv. repeat split; auto.
    + intros inv Hinv. destruct (B inv Hinv) as [Hl|(l' & r' & E & Hok)]; [left; exact Hl|right].
      exists l', r'. split; [|exact Hok]. rewrite nget_nset_other; [exact E|]. intros ->. congruence.
    + intros z Hz. destruct (D z Hz) as [Hl|(l' & r' & E & Hok)]; [left; exact Hl|right].
      exists l', r'. split; [|exact Hok]. rewrite nget_nset_other; [exact E|]. intros ->. congruence.
Qed.
Definition InvCV (s : tstate) : Prop := InvSV s /\ totals_inv s.
Lemma add_node_invV nd s : InvCV s -> good_node nd ->
  InvCV (add_node nd s) /\ children (add_node nd s) = children s /\ sliced (add_node nd s) = sliced s /\
  nget nd (info (add_node nd s)) <> None /\
  (forall p, nget p (info s) <> None -> nget p (info (add_node nd s)) = nget p (info s)).
Proof.
  intros [HS HT] HG. unfold add_node, nmem. destruct (nget nd (info s)) as [i|] eqn:E.
  { split; [split; assumption|]. split; [reflexivity|]. split; [reflexivity|]. split; [rewrite E; discriminate|intros; reflexivity]. }
  set (s' := set_info (info s ++ [(nd, noinfo)]) s).
  assert (Hget : forall p, nget p (info s) <> None -> nget p (info s') = nget p (info s)).
  { intros p Hp. unfold s'. cbn. destruct (nget p (info s)) as [ip|] eqn:Ep; [|congruence]. apply nget_app_l, Ep. }
  split; [|split; [reflexivity|split; [reflexivity|split; [|exact Hget]]]].
  2:{ unfold s'. cbn. rewrite (nget_app_r nd _ _ E). cbn. rewrite node_eqb_refl. discriminate. }
  destruct HS as (H1&H2&H3&H5). split.
  - unfold InvSV, s'. cbn. split; [exact H1|]. split; [|split; [|exact H5]].
    + unfold nkeys. rewrite map_app. cbn. apply nget_none_notin in E. fold (nkeys (info s)).
      clear -H2 E. induction (nkeys (info s)) as [|a l IH]; cbn; [constructor; [tauto|constructor]|].
      inversion H2 as [|? ? Ha ND']; subst. constructor.
      * rewrite in_app_iff. cbn. intros [H|[H|[]]]; [contradiction|subst; apply E; left; reflexivity].
      * apply IH; [exact ND'|]. intros H. apply E. right. exact H.
    + intros nd' i' Hg. destruct (nget nd' (info s)) as [i0|] eqn:E0.
      * rewrite (nget_app_l nd' _ _ i0 E0) in Hg. injection Hg as <-. apply H3, E0.
      * rewrite (nget_app_r nd' _ _ E0) in Hg. cbn in Hg. destruct (node_eqb nd nd') eqn:En; [|discriminate].
        apply node_eqb_eq in En. subst nd'. injection Hg as <-. split; [exact HG|intros _; apply node_inv_noinfo].
  - (* totals: every key that mattered is still read the same *)
    apply totals_split in HT. destruct HT as (T1 & T2 & T3). apply totals_split.
    assert (Rf : forall p, rd i_flops s p <> None -> rd i_flops s' p = rd i_flops s p) by (intros; apply rd_app_l; assumption).
    assert (Rs : forall p, rd i_size s p <> None -> rd i_size s' p = rd i_size s p) by (intros; apply rd_app_l; assumption).
    split; [|split].
    + intros Ht. destruct (T1 Ht) as [Ta Tb]. split; [|intros p Hp; rewrite Rf; apply Tb, Hp].
      change (flops_ s') with (flops_ s). rewrite Ta. f_equal. apply map_ext_in. intros p Hp. unfold cflops. rewrite Rf; [reflexivity|apply Tb, Hp].
    + intros Ht. destruct (T2 Ht) as [Ta Tb]. split; [|intros p Hp; rewrite Rs; apply Tb, Hp].
      change (write_ s') with (write_ s). rewrite Ta. f_equal. apply map_ext_in. intros p Hp. unfold csize. rewrite Rs; [reflexivity|apply Tb, Hp].
    + intros Ht. destruct (T3 Ht) as (Ta & Tb & Tc). split; [exact Ta|]. split; [|intros p Hp; rewrite Rs; apply Tc, Hp].
      intros z. change (sizes_ s') with (sizes_ s). rewrite Tb. f_equal. apply map_ext_in. intros p Hp. unfold csize. rewrite Rs; [reflexivity|apply Tc, Hp].
Qed.
Theorem remove_node_internal_invV nd s : InvCV s -> In nd (nkeys (children s)) -> nget nd (info s) <> None ->
  InvCV (remove_node n nd s) /\
  children (remove_node n nd s) = ndel nd (children s) /\ sliced (remove_node n nd s) = sliced s /\
  (forall q, q <> nd -> nget q (info (remove_node n nd s)) = nget q (info s)) /\
  (nget nd (info (remove_node n nd s)) = None \/ nget nd (info (remove_node n nd s)) = Some noinfo) /\
  trk_flops (remove_node n nd s) = trk_flops s /\ trk_write (remove_node n nd s) = trk_write s /\
  trk_size (remove_node n nd s) = trk_size s.
Proof.
  intros [HS HT] Hin Hk.
  assert (E1 : length nd <> 1).
  { intros E. assert (Hin' := Hin). apply nget_in_keys in Hin'. destruct (nget nd (children s)) as [[l r]|] eqn:Ex; [|congruence].
    apply (leaf_not_parent _ nd l r (proj1 HS) Ex E). }
  assert (ND : NoDup (nkeys (children s))) by apply HS.
  apply totals_split in HT. destruct HT as (T1 & T2 & T3).
  unfold remove_node. destruct (Nat.eqb_spec (length nd) 1) as [|_]; [contradiction|].
  set (s1 := if trk_size s then _ else s).
  destruct (stage_size nd s ND Hin T3) as (A1&A2&A3&A4&A5&A6&A7&A8&A9&A10). fold s1 in A1, A2, A3, A4, A5, A6, A7, A8, A9, A10.
  assert (R1 : forall A (fld : ninfo -> option A) p, rd fld s1 p = rd fld s p) by (intros; apply rd_same, A1).
  assert (T1' : tot_flops (nkeys (children s1)) s1).
  { rewrite A2. apply (tot_flops_frame _ s s1); auto. }
  set (s2 := if trk_flops s1 then _ else s1).
  assert (ND1 : NoDup (nkeys (children s1))) by (rewrite A2; exact ND).
  assert (Hin1 : In nd (nkeys (children s1))) by (rewrite A2; exact Hin).
  destruct (stage_flops nd s1 ND1 Hin1 T1') as (B1&B2&B3&B4&B5&B6&B7&B8&B9&B10&B11). fold s2 in B1, B2, B3, B4, B5, B6, B7, B8, B9, B10, B11.
  assert (R2 : forall A (fld : ninfo -> option A) p, rd fld s2 p = rd fld s p) by (intros; rewrite <- R1; apply rd_same, B1).
  assert (T2' : tot_write (nkeys (children s2)) s2).
  { rewrite B2, A2. apply (tot_write_frame _ s s2); auto; congruence. }
  set (s3 := if trk_write s2 then _ else s2).
  assert (ND2 : NoDup (nkeys (children s2))) by (rewrite B2; exact ND1).
  assert (Hin2 : In nd (nkeys (children s2))) by (rewrite B2; exact Hin1).
  destruct (stage_write nd s2 ND2 Hin2 T2') as (C1&C2&C3&C4&C5&C6&C7&C8&C9&C10&C11). fold s3 in C1, C2, C3, C4, C5, C6, C7, C8, C9, C10, C11.
  assert (Ech3 : children s3 = children s) by congruence.
  assert (Einf3 : info s3 = info s) by congruence.
  (* the three totals, over the keys that remain, in s3 *)
  assert (TT : tot_flops (nkeys (ndel nd (children s))) s3 /\ tot_write (nkeys (ndel nd (children s))) s3
               /\ tot_size (nkeys (ndel nd (children s))) s3).
  { split; [|split].
    - rewrite A2 in B11. apply (tot_flops_frame _ s2 s3); [exact C5|exact C8| |exact B11]. intros; apply rd_same, C1.
    - rewrite B2, A2 in C11. exact C11.
    - apply (tot_size_frame _ s1 s3); [congruence|congruence|congruence| |exact A10]. intros. unfold rd. rewrite Einf3, A1. reflexivity. }
  unfold nmem. rewrite Ech3.
  assert (Hch : nget nd (children s) <> None) by (apply nget_in_keys, Hin).
  destruct (nget nd (children s)) as [lr|] eqn:Ech; [|congruence].
  set (s4 := set_children (ndel nd (children s)) s3).
  assert (Hnk : ~ In nd (nkeys (ndel nd (children s)))).
  { intros H. apply (in_nkeys_ndel nd nd _ ND) in H. tauto. }
  destruct (nget nd (info s)) as [i0|] eqn:Ei0; [|congruence].
  destruct (Nat.eqb_spec (length nd) N) as [EN|EN].
  - (* the root: its info is cleared *)
    unfold clear_info, upd_info. change (info s4) with (info s3). rewrite Einf3, Ei0.
    set (sF := set_info _ s4).
    split; [split|].
    + apply (InvSV_children_del nd s (Some noinfo) HS (fun _ => eq_refl) sF);
        [reflexivity|unfold sF; cbn; congruence|unfold sF; cbn; congruence|unfold sF; cbn; congruence|congruence|right; reflexivity].
    + apply totals_split. change (children sF) with (ndel nd (children s)).
      apply (totals_other_node s3 sF _ nd); auto.
      intros p Hp. unfold sF. cbn. rewrite Einf3. apply nget_nset_other, Hp.
    + split; [reflexivity|]. split; [unfold sF; cbn; congruence|]. split.
      { intros q Hq. unfold sF. cbn. try rewrite Einf3. apply nget_nset_other, Hq. }
      split; [right; unfold sF; cbn; try rewrite Einf3; apply nget_nset_same|].
      unfold sF. cbn. repeat split; congruence.
  - change (info s4) with (info s3). rewrite Einf3, Ei0.
    set (sF := set_info _ s4).
    split; [split|].
    + apply (InvSV_children_del nd s None HS (fun E => match EN E with end) sF);
        [reflexivity|unfold sF; cbn; congruence|unfold sF; cbn; congruence|unfold sF; cbn; congruence|congruence|left; reflexivity].
    + apply totals_split. change (children sF) with (ndel nd (children s)).
      apply (totals_other_node s3 sF _ nd); auto.
      intros p Hp. unfold sF. cbn. rewrite Einf3. apply nget_ndel_other, Hp.
    + split; [reflexivity|]. split; [unfold sF; cbn; congruence|]. split.
      { intros q Hq. unfold sF. cbn. try rewrite Einf3. apply nget_ndel_other, Hq. }
      split; [left; unfold sF; cbn; try rewrite Einf3; apply nget_ndel_same, HS|].
      unfold sF. cbn. repeat split; congruence.
Qed.
Theorem contract_pair_invV x y s : InvCV s -> Vclosed (children s) ->
  good_node x -> good_node y -> inrange n (x ++ y) -> nget (nunion x y) (children s) = None ->
  V x -> V y -> V (nunion x y) ->
  InvCV (contract_pair n x y None None None s) /\
  children (contract_pair n x y None None None s) = nset (nunion x y) (order_pair x y) (children s) /\
  sliced (contract_pair n x y None None None s) = sliced s /\
  trk_flops (contract_pair n x y None None None s) = trk_flops s /\
  trk_write (contract_pair n x y None None None s) = trk_write s /\
  trk_size (contract_pair n x y None None None s) = trk_size s /\
  nkeys (info (contract_pair n x y None None None s)) = nkeys (info (add_node (nunion x y) (add_node y (add_node x s)))).
Proof.
  intros HI HC Gx Gy HR Hnone Vx Vy Vp.
  set (p := nunion x y) in *.
  assert (HPxy : Permutation p (x ++ y)).
  { apply nunion_perm; [apply (NoDup_app_elim _ _ (proj1 HR))|].
    intros k Hky Hkx. destruct HR as [ND _].
    clear -ND Hky Hkx. induction x as [|a x IH]; [contradiction|]. cbn in ND. inversion ND as [|? ? Hna ND']; subst.
    destruct Hkx as [->|Hkx]; [apply Hna, in_app_iff; right; exact Hky|apply IH; assumption]. }
  assert (Gp : good_node p).
  { split.
    - split; [apply (Permutation_NoDup (Permutation_sym HPxy)), HR|].
      intros k Hk. apply HR. apply (Permutation_in _ HPxy), Hk.
    - intros E. rewrite E in HPxy. apply Permutation_nil in HPxy. destruct Gx as [_ Hx]. destruct x; [congruence|discriminate]. }
  (* the three _add_node calls *)
  destruct (add_node_invV x s HI Gx) as (I1 & C1 & S1 & _ & _).
  destruct (add_node_invV y _ I1 Gy) as (I2 & C2 & S2 & _ & _).
  destruct (add_node_invV p _ I2 Gp) as (I3 & C3 & S3 & K3 & _).
  unfold contract_pair. fold p.
  set (s1 := add_node p (add_node y (add_node x s))) in *.
  assert (Ech1 : children s1 = children s) by congruence.
  assert (Esl1 : sliced s1 = sliced s) by congruence.
  destruct I3 as [HS1 HT1].
  set (K := nkeys (children s)) in *.
  assert (HT1' : tot_flops K s1 /\ tot_write K s1 /\ tot_size K s1).
  { unfold K. rewrite <- Ech1. apply totals_split. exact HT1. }
  (* children[parent] = (l, r) *)
  set (lr := order_pair x y).
  assert (Hlr : good_node (fst lr) /\ good_node (snd lr) /\ inrange n (fst lr ++ snd lr) /\ Permutation p (fst lr ++ snd lr)).
  { unfold lr, order_pair. destruct (if Nat.eqb (length x) (length y) then _ else _); cbn [fst snd].
    - auto.
    - split; [exact Gy|]. split; [exact Gx|]. split.
      + destruct HR as [ND Hb]. split; [apply (Permutation_NoDup (Permutation_app_comm x y)), ND|].
        intros k Hk. apply Hb. apply (Permutation_in _ (Permutation_app_comm y x)), Hk.
      + rewrite HPxy. apply Permutation_app_comm. }
  destruct Hlr as (Gl & Gr & HRlr & HPlr).
  set (s2 := set_children (nset p lr (children s1)) s1).
  assert (HS2 : InvSV s2).
  { unfold s2. rewrite (surjective_pairing lr). apply InvSV_children_add; try assumption. rewrite Ech1. exact Hnone. }
  assert (Hpk : ~ In p K) by (apply nget_none_notin, Hnone).
  assert (Hch2 : nget p (children s2) = Some lr) by (unfold s2; cbn; apply nget_nset_same).
  assert (HK2 : nkeys (children s2) = K ++ [p]).
  { unfold s2. cbn [set_children children]. rewrite Ech1. apply nkeys_nset_notin, Hnone. }
  assert (HT2 : tot_flops K s2 /\ tot_write K s2 /\ tot_size K s2) by exact HT1'.
  assert (Hk2 : nget p (info s2) <> None) by exact K3.
  assert (HC2 : Vclosed (children s2)).
  { split; [|apply HC]. intros q l r Hq Vq. unfold s2 in Hq. cbn [set_children children] in Hq. rewrite Ech1 in Hq.
    destruct (node_eq_dec q p) as [->|Hn].
    - rewrite nget_nset_same in Hq. injection Hq as E. unfold lr, order_pair in E.
      destruct (if Nat.eqb (length x) (length y) then _ else _); injection E as <- <-; auto.
    - rewrite nget_nset_other in Hq by exact Hn. apply (proj1 HC q l r Hq Vq). }
  destruct HT2 as (T5f & T5w & T5s).
  (* _update_tracked *)
  unfold update_tracked.
  assert (Hch5 : nget p (children s2) <> None) by (rewrite Hch2; discriminate).
  destruct (track_flopsV K p s2 HS2 HC2 Vp Gp Hch5 Hk2 T5f) as (HS6 & E6 & W6 & Z6 & M6 & T6f).
  set (s6 := if trk_flops s2 then _ else s2) in *.
  assert (Hk6 : nget p (info s6) <> None).
  { apply nget_in_keys. destruct E6 as (_&_&_&_&_&_&Ek&_). unfold nkeys in *. rewrite Ek. apply nget_in_keys, Hk2. }
  assert (T6w : tot_write K s6) by (apply (tot_write_mono K s2 s6); [apply E6|exact W6|apply E6|exact T5w]).
  assert (T6s : tot_size K s6) by (apply (tot_size_mono K s2 s6); [apply E6|exact Z6|exact M6|apply E6|exact T5s]).
  assert (HC6 : Vclosed (children s6)) by (destruct E6 as (Ec6&_); rewrite Ec6; exact HC2).
  destruct (track_writeV K p s6 HS6 HC6 Vp Gp Hk6 T6w) as (HS7 & E7 & F7 & Z7 & M7 & T7w).
  set (s7 := if trk_write s6 then _ else s6) in *.
  assert (Hk7 : nget p (info s7) <> None).
  { apply nget_in_keys. destruct E7 as (_&_&_&_&_&_&Ek&_). unfold nkeys in *. rewrite Ek. apply nget_in_keys, Hk6. }
  assert (T7f : tot_flops (K ++ [p]) s7) by (apply (tot_flops_mono _ s6 s7); [apply E7|exact F7|apply E7|exact T6f]).
  assert (T7s : tot_size K s7) by (apply (tot_size_mono K s6 s7); [apply E7|exact Z7|exact M7|apply E7|exact T6s]).
  assert (HC7 : Vclosed (children s7)) by (destruct E7 as (Ec7&_); rewrite Ec7; exact HC6).
  destruct (track_sizeV K p s7 HS7 HC7 Vp Gp Hk7 T7s) as (HS8 & E8 & F8 & W8 & T8s).
  set (s8 := if trk_size s7 then _ else s7) in *.
  assert (Ech8 : children s8 = children s2).
  { destruct E8 as (A&_), E7 as (B&_), E6 as (C&_). congruence. }
  split; [split; [exact HS8|]|].
  - apply totals_split. rewrite Ech8, HK2. split; [|split; [|exact T8s]].
    + apply (tot_flops_mono _ s7 s8); [apply E8|exact F8|apply E8|exact T7f].
    + apply (tot_write_mono _ s7 s8); [apply E8|exact W8|apply E8|exact T7w].
  - destruct E8 as (_&X2&_&X4&X5&X6&X7&_), E7 as (_&Y2&_&Y4&Y5&Y6&Y7&_), E6 as (_&U2&_&U4&U5&U6&U7&_).
    split; [rewrite Ech8; unfold s2; cbn [set_children children]; rewrite Ech1; reflexivity|].
    split; [rewrite X2, Y2, U2; exact Esl1|].
    assert (Ft : trk_flops s1 = trk_flops s /\ trk_write s1 = trk_write s /\ trk_size s1 = trk_size s).
    { unfold s1, add_node. repeat (match goal with |- context [if ?c then _ else _] => destruct c end); cbn; auto. }
    destruct Ft as (Ft1 & Ft2 & Ft3).
    split; [rewrite X4, Y4, U4; exact Ft1|]. split; [rewrite X5, Y5, U5; exact Ft2|]. split; [rewrite X6, Y6, U6; exact Ft3|].
    unfold nkeys in *. rewrite X7, Y7, U7. reflexivity.
Qed.

(* frames: the getters only write the caches of nodes in V *)
Definition FrameV (s s' : tstate) : Prop :=
  children s' = children s /\ forall q, ~ V q -> nget q (info s') = nget q (info s).
Lemma FrameV_refl s : FrameV s s.
Proof. split; auto. Qed.
Lemma FrameV_trans s1 s2 s3 : FrameV s1 s2 -> FrameV s2 s3 -> FrameV s1 s3.
Proof. intros [A1 A2] [B1 B2]. split; [congruence|]. intros q Hq. rewrite B2, A2 by exact Hq. reflexivity. Qed.
Lemma FrameV_upd nd f s : V nd -> FrameV s (upd_info nd f s).
Proof.
  intros HV. split; [apply upd_info_fields|]. intros q Hq. apply nget_upd_other. intros ->. contradiction.
Qed.
Lemma FrameV_same s s' : children s' = children s -> info s' = info s -> FrameV s s'.
Proof. intros E1 E2. split; [exact E1|]. intros q _. rewrite E2. reflexivity. Qed.

Definition FlV (f : nat) : Prop := forall s nd, Vclosed (children s) -> V nd -> FrameV s (fst (get_legs n f s nd)).
Definition FiV (f : nat) : Prop := forall s nd, Vclosed (children s) -> V nd -> FrameV s (fst (get_involved n f s nd)).
Lemma frames_step f' : FlV f' /\ FiV f' -> FlV (S f') /\ FiV (S f').
Proof.
  intros [HFl HFi]. split.
  - intros s nd HC HV. rewrite get_legs_S. destruct (rd i_legs s nd); [apply FrameV_refl|].
    destruct (Nat.eqb (length nd) 1).
    { unfold compute_leaf_legs. cbn [fst]. eapply FrameV_trans; [|apply FrameV_upd, HV].
      destruct (leaf_preproc n (sliced s) (hd 0 nd)); [apply FrameV_same; reflexivity|apply FrameV_refl]. }
    destruct (Nat.eqb (length nd) N); [cbn [fst]; apply FrameV_upd, HV|].
    pose proof (HFi s nd HC HV) as F1. destruct (get_involved n f' s nd) as [s2 [inv|]]; cbn [fst] in *.
    + eapply FrameV_trans; [exact F1|apply FrameV_upd, HV].
    + assert (Hfold : forall xs s2 acc, Vclosed (children s2) -> (forall k, In k xs -> V [k]) ->
                FrameV s2 (fst (fold_left (fun acc i => let '(sa, l) := get_legs n f' (fst acc) [i] in (sa, snd acc ++ [l])) xs (s2, acc)))).
      { induction xs as [|x xs IH]; intros sx acc HCx Hx; cbn [fold_left]; [apply FrameV_refl|]. cbn [fst snd].
        pose proof (HFl sx [x] HCx (Hx x (or_introl eq_refl))) as Fx. destruct (get_legs n f' sx [x]) as [sa l]. cbn [fst] in Fx.
        eapply FrameV_trans; [exact Fx|]. apply IH; [destruct Fx as [E _]; rewrite E; exact HCx|]. intros k Hk. apply Hx. right. exact Hk. }
      assert (HC2 : Vclosed (children s2)) by (destruct F1 as [E _]; rewrite E; exact HC).
      specialize (Hfold nd s2 [] HC2 (fun k Hk => proj2 HC nd k HV Hk)).
      destruct (fold_left _ nd (s2, [])) as [s3 ls]. cbn [fst] in *.
      eapply FrameV_trans; [exact F1|]. eapply FrameV_trans; [exact Hfold|apply FrameV_upd, HV].
  - intros s nd HC HV. rewrite get_involved_S. destruct (rd i_involved s nd); [apply FrameV_refl|].
    destruct (Nat.eqb (length nd) 1); [cbn [fst]; apply FrameV_upd, HV|].
    destruct (nget nd (children s)) as [[l r]|] eqn:E; [|apply FrameV_refl].
    destruct (proj1 HC nd l r E HV) as [Vl Vr].
    pose proof (HFl s l HC Vl) as F1. destruct (get_legs n f' s l) as [s1 ll]. cbn [fst] in F1.
    assert (HC1 : Vclosed (children s1)) by (destruct F1 as [E1 _]; rewrite E1; exact HC).
    pose proof (HFl s1 r HC1 Vr) as F2. destruct (get_legs n f' s1 r) as [s2 lr]. cbn [fst] in F2. cbn [fst].
    eapply FrameV_trans; [exact F1|]. eapply FrameV_trans; [exact F2|apply FrameV_upd, HV].
Qed.
Lemma frames_all f : FlV f /\ FiV f.
Proof.
  induction f as [|f IH]; [|apply frames_step, IH]. split; intros s nd _ _; cbn; apply FrameV_same; reflexivity.
Qed.
Lemma g_legs_frame s nd : Vclosed (children s) -> V nd -> FrameV s (fst (g_legs n s nd)).
Proof. apply (proj1 (frames_all (fuel n s))). Qed.
Lemma g_involved_frame s nd : Vclosed (children s) -> V nd -> FrameV s (fst (g_involved n s nd)).
Proof.
  intros HC HV. unfold g_involved. pose proof (proj2 (frames_all (fuel n s)) s nd HC HV) as F.
  destruct (get_involved n (fuel n s) s nd) as [s' [v|]]; cbn [fst] in *; [exact F|].
  eapply FrameV_trans; [exact F|apply FrameV_same; reflexivity].
Qed.
Lemma g_size_frame s nd : Vclosed (children s) -> V nd -> FrameV s (fst (g_size n s nd)).
Proof.
  intros HC HV. unfold g_size. destruct (rd i_size s nd); [apply FrameV_refl|].
  pose proof (g_legs_frame s nd HC HV) as F. destruct (g_legs n s nd) as [s1 l]. cbn [fst] in *.
  eapply FrameV_trans; [exact F|apply FrameV_upd, HV].
Qed.
Lemma g_flops_frame s nd : Vclosed (children s) -> V nd -> FrameV s (fst (g_flops n s nd)).
Proof.
  intros HC HV. unfold g_flops. destruct (rd i_flops s nd); [apply FrameV_refl|].
  destruct (Nat.eqb (length nd) 1); [cbn [fst]; apply FrameV_upd, HV|].
  pose proof (g_involved_frame s nd HC HV) as F. destruct (g_involved n s nd) as [s1 inv]. cbn [fst] in *.
  eapply FrameV_trans; [exact F|apply FrameV_upd, HV].
Qed.

Lemma add_node_frame nd s : V nd -> FrameV s (add_node nd s).
Proof.
  intros HV. unfold add_node, nmem. destruct (nget nd (info s)) eqn:E; [apply FrameV_refl|].
  split; [reflexivity|]. intros q Hq. cbn. destruct (nget q (info s)) as [i|] eqn:Eq.
  - apply nget_app_l, Eq.
  - rewrite (nget_app_r q _ _ Eq). cbn. destruct (node_eqb nd q) eqn:En; [|reflexivity].
    apply node_eqb_eq in En. subst. contradiction.
Qed.
Lemma update_tracked_frame p s : Vclosed (children s) -> V p -> FrameV s (update_tracked n p s).
Proof.
  intros HC HV. unfold update_tracked.
  set (s1 := if trk_flops s then _ else s).
  assert (F1 : FrameV s s1).
  { unfold s1. destruct (trk_flops s); [|apply FrameV_refl]. pose proof (g_flops_frame s p HC HV) as F.
    destruct (g_flops n s p) as [sa fl]. cbn [fst] in F. eapply FrameV_trans; [exact F|apply FrameV_same; reflexivity]. }
  assert (HC1 : Vclosed (children s1)) by (destruct F1 as [E _]; rewrite E; exact HC).
  set (s2 := if trk_write s1 then _ else s1).
  assert (F2 : FrameV s1 s2).
  { unfold s2. destruct (trk_write s1); [|apply FrameV_refl]. pose proof (g_size_frame s1 p HC1 HV) as F.
    destruct (g_size n s1 p) as [sa sz]. cbn [fst] in F. eapply FrameV_trans; [exact F|apply FrameV_same; reflexivity]. }
  assert (HC2 : Vclosed (children s2)) by (destruct F2 as [E _]; rewrite E; exact HC1).
  eapply FrameV_trans; [exact F1|]. eapply FrameV_trans; [exact F2|].
  destruct (trk_size s2); [|apply FrameV_refl]. pose proof (g_size_frame s2 p HC2 HV) as F.
  destruct (g_size n s2 p) as [sa sz]. cbn [fst] in F. eapply FrameV_trans; [exact F|apply FrameV_same; reflexivity].
Qed.
Lemma contract_pair_frame x y s : Vclosed (children s) -> V x -> V y -> V (nunion x y) ->
  forall q, ~ V q -> nget q (info (contract_pair n x y None None None s)) = nget q (info s).
Proof.
  intros HC Vx Vy Vp q Hq. unfold contract_pair.
  set (s1 := add_node (nunion x y) (add_node y (add_node x s))).
  assert (F1 : FrameV s s1).
  { unfold s1. eapply FrameV_trans; [apply add_node_frame, Vx|]. eapply FrameV_trans; [apply add_node_frame, Vy|apply add_node_frame, Vp]. }
  set (s2 := set_children _ s1).
  assert (HC2 : Vclosed (children s2)).
  { split; [|apply HC]. intros q' l r Hq' Vq'. unfold s2 in Hq'. cbn [set_children children] in Hq'.
    destruct F1 as [E1 _]. rewrite E1 in Hq'. destruct (node_eq_dec q' (nunion x y)) as [->|Hn].
    - rewrite nget_nset_same in Hq'. injection Hq' as E. unfold order_pair in E.
      destruct (if Nat.eqb (length x) (length y) then _ else _); injection E as <- <-; auto.
    - rewrite nget_nset_other in Hq' by exact Hn. apply (proj1 HC q' l r Hq' Vq'). }
  destruct (update_tracked_frame (nunion x y) s2 HC2 Vp) as [_ F2]. rewrite F2 by exact Hq.
  change (info s2) with (info s1). apply F1, Hq.
Qed.

End VV.


(* canonical representatives of the specification (witnesses of legs_ok / inv_ok) *)
Lemma lget_mapf (f : ix -> nat) j L : lget j (map (fun k => (k, f k)) L) = if memb j L then Some (f j) else None.
Proof.
  induction L as [|a L IH]; cbn; [reflexivity|]. rewrite (Nat.eqb_sym j a).
  destruct (Nat.eqb_spec a j) as [->|]; cbn; [reflexivity|exact IH].
Qed.
Lemma wfl_mapf (f : ix -> nat) L : NoDup L -> (forall k, In k L -> 0 < f k) -> wfl (map (fun k => (k, f k)) L).
Proof.
  intros ND Hp. split.
  - unfold lkeys. rewrite map_map. cbn. rewrite map_id. exact ND.
  - intros kv Hkv. apply in_map_iff in Hkv. destruct Hkv as (k & <- & Hk). cbn. apply Hp, Hk.
Qed.
Lemma spec_pos_univ sl0 nd j : 0 < spec_count n sl0 nd j -> In j (universe n).
Proof.
  unfold spec_count. intros H. apply (cnt_pos_in_universe n sl0 nd j). destruct (cnt n sl0 nd j <? appear n j); lia.
Qed.
Definition canon_legs (sl0 : list slinfo) (nd : node) : legs :=
  if Nat.eqb (length nd) N then root_legs n sl0
  else map (fun j => (j, spec_count n sl0 nd j)) (filter (fun j => Nat.ltb 0 (spec_count n sl0 nd j)) (universe n)).
Lemma canon_legs_ok sl0 nd : legs_ok n sl0 nd (canon_legs sl0 nd).
Proof.
  unfold canon_legs. destruct (Nat.eqb_spec (length nd) N) as [E|E]; [apply legs_ok_root, E|].
  apply legs_ok_nonroot; [exact E|]. split.
  - apply wfl_mapf; [apply NoDup_filter, NoDup_nodup|]. intros k Hk. apply filter_In in Hk. destruct Hk as [_ Hk]. lia.
  - intros j. unfold lget0. rewrite lget_mapf, memb_filter.
    destruct (memb j (universe n)) eqn:Em; cbn [andb].
    + destruct (Nat.ltb_spec 0 (spec_count n sl0 nd j)); [reflexivity|lia].
    + destruct (spec_count n sl0 nd j) eqn:Es; [reflexivity|]. apply memb_false in Em. exfalso. apply Em, (spec_pos_univ sl0 nd j). lia.
Qed.
Definition canon_inv (sl0 : list slinfo) (l r : node) : legs :=
  map (fun j => (j, spec_count n sl0 l j + spec_count n sl0 r j))
      (filter (fun j => Nat.ltb 0 (spec_count n sl0 l j + spec_count n sl0 r j)) (universe n)).
Lemma canon_inv_ok sl0 l r : inv_ok n sl0 l r (canon_inv sl0 l r).
Proof.
  unfold canon_inv. split.
  - apply wfl_mapf; [apply NoDup_filter, NoDup_nodup|]. intros k Hk. apply filter_In in Hk. destruct Hk as [_ Hk]. lia.
  - intros j. unfold lget0. rewrite lget_mapf, memb_filter.
    destruct (memb j (universe n)) eqn:Em; cbn [andb].
    + destruct (Nat.ltb_spec 0 (spec_count n sl0 l j + spec_count n sl0 r j)); [reflexivity|lia].
    + apply memb_false in Em. destruct (spec_count n sl0 l j) eqn:E1; [destruct (spec_count n sl0 r j) eqn:E2; [reflexivity|]|].
      * exfalso. apply Em, (spec_pos_univ sl0 r j). lia.
      * exfalso. apply Em, (spec_pos_univ sl0 l j). lia.
Qed.

(* ======================================================================== *)
(* Part Q : restore_ind                                                      *)
Section RestoreInd.
Variable sl sl' : list slinfo.       (* before / after restoring ind *)
Variable ind : ix.
Hypothesis Hrem : forall j, In j (removed sl) <-> j = ind \/ In j (removed sl').
Hypothesis Hfresh : ~ In ind (removed sl').
Hypothesis Hinc : incl (output n) (concat (inputs n)).

Lemma spec_old S j : spec_count n sl S j = if Nat.eqb j ind then 0 else spec_count n sl' S j.
Proof. apply (spec_more sl' sl ind Hrem). Qed.
Lemma cnt_eq_raw S : cnt n sl' S ind = cnt_raw n S ind.
Proof.
  induction S as [|k S IH]; cbn [cnt cnt_raw]; [reflexivity|]. rewrite IH. f_equal.
  unfold term_sl. rewrite occ_filter. assert (E : memb ind (removed sl') = false) by (apply memb_false, Hfresh).
  rewrite E. reflexivity.
Qed.
Lemma spec_union_zero l r : inrange n (l ++ r) -> spec_count n sl' l ind = 0 -> spec_count n sl' r ind = 0 ->
  spec_count n sl' (l ++ r) ind = 0.
Proof.
  intros HR. pose proof (cnt_le_appear n sl' _ ind HR) as Hle. rewrite cnt_app in Hle.
  unfold spec_count. rewrite cnt_app.
  repeat match goal with |- context [?a <? ?b] => destruct (Nat.ltb_spec a b) end; lia.
Qed.
Lemma root_ind_involved l r : Permutation (seq 0 N) (l ++ r) -> In ind (output n) ->
  0 < spec_count n sl' l ind + spec_count n sl' r ind.
Proof.
  intros HP Hout'.
  assert (Hc : cnt n sl' l ind + cnt n sl' r ind = occ (concat (inputs n)) ind).
  { rewrite <- cnt_app, <- (cnt_perm n sl' _ _ ind HP), cnt_eq_raw. apply cnt_raw_all. }
  assert (Hpos : 0 < occ (concat (inputs n)) ind) by (apply occ_pos, Hinc, Hout').
  assert (Hap : occ (concat (inputs n)) ind < appear n ind).
  { rewrite appear_occ. assert (0 < occ (output n) ind) by (apply occ_pos, Hout'). lia. }
  unfold spec_count. repeat match goal with |- context [?a <? ?b] => destruct (Nat.ltb_spec a b) end; lia.
Qed.

(* a node none of whose children carries the restored index keeps valid caches *)
Lemma unaffected_node ch p i l r ll lr :
  children_ok ch -> nget p ch = Some (l, r) -> good_node p ->
  node_inv ch sl p i ->
  slegs_ok n sl' l ll -> slegs_ok n sl' r lr -> lmem ind ll = false -> lmem ind lr = false ->
  node_inv ch sl' p i.
Proof.
  intros Hc Ech Gp (A&B&C&D) [Wl Gl] [Wr Gr] El Er.
  pose proof (proj2 Hc) as Hc'. destruct (Hc' p l r Ech) as (Gl' & Gr' & HR & HP).
  assert (Zl : spec_count n sl' l ind = 0).
  { rewrite <- Gl. apply lget0_notin, lmem_false_notin, El. }
  assert (Zr : spec_count n sl' r ind = 0).
  { rewrite <- Gr. apply lget0_notin, lmem_false_notin, Er. }
  assert (Zp : spec_count n sl' p ind = 0).
  { rewrite (spec_count_perm n sl' _ _ ind HP). apply spec_union_zero; assumption. }
  assert (Hspec : forall S, spec_count n sl' S ind = 0 -> forall j, spec_count n sl S j = spec_count n sl' S j).
  { intros S Z j. rewrite spec_old. destruct (Nat.eqb_spec j ind) as [->|]; [symmetry; exact Z|reflexivity]. }
  assert (Ti : forall inv, inv_ok n sl l r inv -> inv_ok n sl' l r inv).
  { intros inv [W G]. split; [exact W|]. intros j. rewrite G, (Hspec l Zl), (Hspec r Zr). reflexivity. }
  assert (Tl : forall lg, legs_ok n sl p lg -> legs_ok n sl' p lg).
  { intros lg Hl. unfold legs_ok in *. destruct (Nat.eqb_spec (length p) N) as [EN|EN].
    - destruct Hl as [ND G]. split; [exact ND|]. intros j. rewrite G, (root_legs_more sl' sl ind Hrem).
      destruct (Nat.eqb_spec j ind) as [->|]; [|reflexivity].
      destruct (lget ind (root_legs n sl')) eqn:Eo; [|reflexivity]. exfalso.
      assert (Hin : In ind (lkeys (root_legs n sl'))) by (apply lget_in_keys; congruence).
      unfold root_legs, lkeys in Hin. rewrite map_map in Hin. cbn in Hin. rewrite map_id in Hin. apply filter_In in Hin.
      assert (HPall : Permutation (seq 0 N) (l ++ r)).
      { apply Permutation_trans with p; [|exact HP]. apply NoDup_Permutation_bis; [apply seq_NoDup|rewrite seq_length; lia|].
        intros k Hk. destruct Gp as [[NDp Hb] _].
        assert (Hincl : incl p (seq 0 N)) by (intros a Ha; apply in_seq; specialize (Hb a Ha); lia).
        assert (HPp : Permutation p (seq 0 N)) by (apply NoDup_Permutation_bis; [exact NDp|rewrite seq_length; lia|exact Hincl]).
        apply (Permutation_in _ (Permutation_sym HPp)), Hk. }
      pose proof (root_ind_involved l r HPall (proj1 Hin)). lia.
    - destruct Hl as [W G]. split; [exact W|]. intros j. rewrite G. apply (Hspec p Zp). }
  pose proof (canon_legs_ok sl p) as WL. pose proof (canon_inv_ok sl l r) as WI.
  unfold node_inv. repeat split.
  - intros lg E. apply Tl, A, E.
  - intros inv E. right. exists l, r. split; [exact Ech|]. apply Ti.
    destruct (B inv E) as [[E1 _]|(l2 & r2 & E2 & Hok)]; [exfalso; apply (leaf_not_parent ch p l r Hc Ech E1)|].
    rewrite Ech in E2. injection E2 as <- <-. exact Hok.
  - intros z Hz lg' Hlg'. rewrite (C z Hz _ WL). apply (legs_ok_size_unique n sl' _ p); [apply Tl, WL|exact Hlg'].
  - intros z Hz. right. exists l, r. split; [exact Ech|]. intros inv' Hinv'.
    destruct (D z Hz) as [[E1 _]|(l2 & r2 & E2 & F)]; [exfalso; apply (leaf_not_parent ch p l r Hc Ech E1)|].
    rewrite Ech in E2. injection E2 as <- <-. rewrite (F _ WI). apply (inv_ok_size_unique n sl' _ l r); [apply Ti, WI|exact Hinv'].
Qed.

(* a leaf whose term does not carry the index *)
Lemma leaf_node_same_rev ch k i : children_ok ch -> ~ In ind (nth k (inputs n) []) -> node_inv ch sl [k] i -> node_inv ch sl' [k] i.
Proof.
  intros Hc Hn (A&B&C&D).
  assert (Hiff : forall lg, legs_ok n sl' [k] lg <-> legs_ok n sl [k] lg) by (intros lg; apply (leaf_legs_ok_same sl' sl ind Hrem k lg Hn)).
  unfold node_inv. repeat split.
  - intros lg Hl. apply Hiff, A, Hl.
  - intros inv Hi. destruct (B inv Hi) as [Hl|(l & r & E & _)]; [left; exact Hl|].
    exfalso. apply (leaf_not_parent ch [k] l r Hc E). reflexivity.
  - intros z Hz lg Hl. apply (C z Hz). apply Hiff, Hl.
  - intros z Hz. destruct (D z Hz) as [Hl|(l & r & E & _)]; [left; exact Hl|].
    exfalso. apply (leaf_not_parent ch [k] l r Hc E). reflexivity.
Qed.
End RestoreInd.

Lemma InvSV_extend (V V' : node -> Prop) s : InvSV V s ->
  (forall nd i, nget nd (info s) = Some i -> V' nd -> ~ V nd -> node_inv (children s) (sliced s) nd i) ->
  (forall nd, V nd \/ ~ V nd) ->
  InvSV V' s.
Proof.
  intros (H1&H2&H3&H5) Hnew Hdec. unfold InvSV. split; [exact H1|]. split; [exact H2|]. split; [|exact H5].
  intros nd i Hi. destruct (H3 nd i Hi) as [G Hv]. split; [exact G|]. intros HV'.
  destruct (Hdec nd) as [HV|HnV]; [apply Hv, HV|apply (Hnew nd i Hi HV' HnV)].
Qed.
Lemma node_inv_children_ext ch ch' sl0 q i : nget q ch' = nget q ch -> node_inv ch sl0 q i -> node_inv ch' sl0 q i.
Proof.
  intros E (A&B&C&D). unfold node_inv, inv_spec, flops_spec in *. rewrite E. repeat split; assumption.
Qed.
Lemma contract_stats_id s : trk_flops s = true -> trk_write s = true -> trk_size s = true -> contract_stats n false s = s.
Proof. intros E1 E2 E3. unfold contract_stats. rewrite E1, E2, E3. reflexivity. Qed.

Definition Vof (P : list node) (nd : node) : Prop := length nd = 1 \/ In nd P.
Lemma Vof_dec P nd : Vof P nd \/ ~ Vof P nd.
Proof.
  unfold Vof. destruct (Nat.eq_dec (length nd) 1) as [E|E]; [left; left; exact E|].
  destruct (in_dec node_eq_dec nd P) as [H|H]; [left; right; exact H|right; intros [H1|H1]; contradiction].
Qed.
Lemma Vof_mono P p nd : Vof P nd -> Vof (p :: P) nd.
Proof. intros [H|H]; [left; exact H|right; right; exact H]. Qed.

(* phase A of restore_ind: the leaves whose term carries the index are reset *)
Definition leafstep (ind : ix) (s : tstate) (i : nat) : tstate :=
  let term := nth i (inputs n) [] in
  if memb ind term then
    let sa := remove_node n [i] s in
    if forallb (fun j => negb (memb j (removed (sliced sa)))) term
    then set_sliced_inputs (filter (fun k => negb (Nat.eqb k i)) (sliced_inputs sa)) sa
    else sa
  else s.
Definition SameButLeaves (ind : ix) (L : list nat) (s s' : tstate) : Prop :=
  children s' = children s /\ sliced s' = sliced s /\ mult s' = mult s /\
  trk_flops s' = trk_flops s /\ trk_write s' = trk_write s /\ trk_size s' = trk_size s /\
  flops_ s' = flops_ s /\ write_ s' = write_ s /\ sizes_ s' = sizes_ s /\ sizes_max s' = sizes_max s /\
  nkeys (info s') = nkeys (info s) /\
  (forall q, (exists k, q = [k] /\ In k L /\ In ind (nth k (inputs n) [])) ->
             nget q (info s') = option_map (fun _ => noinfo) (nget q (info s))) /\
  (forall q, ~ (exists k, q = [k] /\ In k L /\ In ind (nth k (inputs n) [])) -> nget q (info s') = nget q (info s)).
Lemma leafstep_same ind s k : SameButLeaves ind [k] s (leafstep ind s k).
Proof.
  unfold leafstep. destruct (memb ind (nth k (inputs n) [])) eqn:Em.
  2:{ unfold SameButLeaves. repeat split; try reflexivity.
      intros q (k' & -> & [<-|[]] & Hin). apply memb_In in Hin. congruence. }
  set (sa := remove_node n [k] s).
  assert (Hsa : SameButLeaves ind [k] s sa).
  { unfold sa, remove_node. cbn [length Nat.eqb hd]. unfold clear_info.
    destruct (upd_info_fields [k] (fun _ => noinfo) s) as (F1&F2&F3&F4&F5&F6&F7&F8&F9&F10).
    unfold SameButLeaves. cbn [set_preproc children sliced mult trk_flops trk_write trk_size flops_ write_ sizes_ sizes_max info].
    repeat split; try assumption.
    - apply nkeys_upd.
    - intros q (k' & -> & [<-|[]] & _). apply nget_upd_same.
    - intros q Hq. apply nget_upd_other. intros ->. apply Hq. exists k. split; [reflexivity|]. split; [left; reflexivity|apply memb_In, Em]. }
  destruct (forallb _ _); [|exact Hsa].
  unfold SameButLeaves in *. cbn [set_sliced_inputs children sliced mult trk_flops trk_write trk_size flops_ write_ sizes_ sizes_max info]. exact Hsa.
Qed.
Lemma NoDup_app_disjoint {A} (a b : list A) : NoDup (a ++ b) -> forall x, In x a -> In x b -> False.
Proof.
  induction a as [|y a IH]; cbn; intros ND x Ha Hb; [contradiction|]. inversion ND as [|? ? Hn ND']; subst.
  destruct Ha as [->|Ha]; [apply Hn, in_app_iff; right; exact Hb|apply (IH ND' x Ha Hb)].
Qed.
Lemma SameButLeaves_trans ind L1 L2 s1 s2 s3 : NoDup (L1 ++ L2) ->
  SameButLeaves ind L1 s1 s2 -> SameButLeaves ind L2 s2 s3 -> SameButLeaves ind (L1 ++ L2) s1 s3.
Proof.
  intros ND (A1&A2&A3&A4&A5&A6&A7&A8&A9&A10&A11&A12&A13) (B1&B2&B3&B4&B5&B6&B7&B8&B9&B10&B11&B12&B13).
  unfold SameButLeaves. repeat split; try congruence.
  - intros q (k & -> & Hk & Hin). apply in_app_iff in Hk. destruct Hk as [Hk|Hk].
    + rewrite B13, A12; [reflexivity|exists k; auto|].
      intros (k' & E & Hk' & _). injection E as <-. apply (NoDup_app_disjoint _ _ ND k Hk Hk').
    + rewrite B12 by (exists k; auto). rewrite A13; [reflexivity|].
      intros (k' & E & Hk' & _). injection E as <-. apply (NoDup_app_disjoint _ _ ND k Hk' Hk).
  - intros q Hq. rewrite B13, A13; [reflexivity| |].
    + intros (k & -> & Hk & Hin). apply Hq. exists k. split; [reflexivity|]. split; [apply in_app_iff; left; exact Hk|exact Hin].
    + intros (k & -> & Hk & Hin). apply Hq. exists k. split; [reflexivity|]. split; [apply in_app_iff; right; exact Hk|exact Hin].
Qed.

Lemma leaf_fold_same ind L : forall s, NoDup L -> SameButLeaves ind L s (fold_left (leafstep ind) L s).
Proof.
  induction L as [|k L IH]; intros s ND; cbn [fold_left].
  - unfold SameButLeaves. repeat split; try reflexivity. intros q (k & _ & [] & _).
  - inversion ND as [|? ? Hn ND']; subst. apply (SameButLeaves_trans ind [k] L s (leafstep ind s k)); [exact ND|apply leafstep_same|apply IH, ND'].
Qed.

Section RestoreLoop.
Variable sl sl' : list slinfo.
Variable ind : ix.
Hypothesis Hrem : forall j, In j (removed sl) <-> j = ind \/ In j (removed sl').
Hypothesis Hfresh : ~ In ind (removed sl').
Hypothesis Hinc : incl (output n) (concat (inputs n)).

Definition full2 (i : ninfo) : Prop := i_legs i <> None /\ i_involved i <> None.
(* loop invariant: P = the traversal nodes already handled *)
Definition RInv (K0 : list node) (P : list node) (s : tstate) : Prop :=
  InvCV (Vof P) s /\ Vclosed (Vof P) (children s) /\ sliced s = sl' /\
  trk_flops s = true /\ trk_write s = true /\ trk_size s = true /\
  (forall q, In q (nkeys (children s)) <-> In q K0) /\
  (forall q, In q K0 -> nget q (info s) <> None) /\
  (forall p l r, nget p (children s) = Some (l, r) -> ~ In p P -> nunion l r = p) /\
  (forall nd i, nget nd (info s) = Some i -> length nd <> 1 -> ~ In nd P ->
     node_inv (children s) sl nd i /\ In nd K0).

Definition loop_body (s : tstate) (plr : node * (node * node)) : tstate :=
  let '(p, (l, r)) := plr in
  let '(sa, ll) := g_legs n s l in
  let '(sb, hit) := if lmem ind ll then (sa, true)
                    else let '(sb, lr) := g_legs n sa r in (sb, lmem ind lr) in
  if hit then contract_pair n l r None None None (remove_node n p sb) else sb.

(* a getter call on a node of V keeps the loop invariant *)
Lemma RInv_getter K0 P s c : RInv K0 P s -> Vof P c -> good_node c ->
  RInv K0 P (fst (g_legs n s c)) /\ legs_ok n sl' c (snd (g_legs n s c)) /\
  children (fst (g_legs n s c)) = children s.
Proof.
  intros ([HS HT] & HC & Esl & Tf & Tw & Ts & HK & HKi & HU & Hun) Vc Gc.
  destruct (g_legs_invV (Vof P) s c HS HC Vc Gc) as (A & B & C).
  destruct (g_legs_frame (Vof P) s c HC Vc) as [Ech Fr].
  set (sa := fst (g_legs n s c)) in *.
  assert (B' := B). destruct B' as (_&E2&_&E4&E5&E6&_&_&_&_&_&Ek&_).
  split; [|split; [rewrite <- Esl; exact C|exact Ech]].
  split; [split; [exact A|apply (totals_Ext s); assumption]|].
  split; [rewrite Ech; exact HC|]. split; [congruence|]. split; [congruence|]. split; [congruence|]. split; [congruence|].
  split; [rewrite Ech; exact HK|]. split.
  - intros q Hq. apply nget_in_keys. unfold nkeys in *. rewrite Ek. apply nget_in_keys, HKi, Hq.
  - split; [rewrite Ech; exact HU|]. intros nd i Hi Hl HnP. rewrite Ech. apply Hun; [|exact Hl|exact HnP].
    rewrite <- Fr; [exact Hi|]. intros [H|H]; contradiction.
Qed.

Lemma Vclosed_Vof_leaf P ch : (forall p l r, nget p ch = Some (l, r) -> Vof P p -> Vof P l /\ Vof P r) -> Vclosed (Vof P) ch.
Proof. intros H. split; [exact H|]. intros nd k _ _. left. reflexivity. Qed.

Lemma RInv_step K0 P s p l r : RInv K0 P s -> nget p (children s) = Some (l, r) -> ~ In p P ->
  Vof P l -> Vof P r -> In p K0 ->
  RInv K0 (p :: P) (loop_body s (p, (l, r))) /\
  (forall q, q <> p -> nget q (children (loop_body s (p, (l, r)))) = nget q (children s)).
Proof.
  intros HR Ech HnP Vl Vr HpK.
  assert (HR0 := HR). destruct HR0 as ([HS0 _] & _).
  destruct (proj2 (proj1 HS0) p l r Ech) as (Gl & Gr & HRlr & HPp).
  assert (Gp : good_node p).
  { split; [apply (perm_inrange _ _ HPp HRlr)|]. intros ->. apply Permutation_nil in HPp. destruct Gl as [_ Hl]. destruct l; [congruence|discriminate]. }
  assert (Ll : length l <> N /\ length r <> N).
  { pose proof (Permutation_length HPp) as HL. rewrite app_length in HL. pose proof (good_len p Gp). pose proof (good_len l Gl). pose proof (good_len r Gr). lia. }
  unfold loop_body.
  destruct (RInv_getter K0 P s l HR Vl Gl) as (R1 & L1 & C1).
  destruct (g_legs n s l) as [sa ll]. cbn [fst snd] in R1, L1, C1.
  apply legs_ok_nonroot in L1; [|apply Ll].
  (* the state after the (one or two) getter calls, and whether the index was seen *)
  assert (Hmid : exists sb hit,
            (if lmem ind ll then (sa, true) else let '(sb, lr) := g_legs n sa r in (sb, lmem ind lr)) = (sb, hit) /\
            RInv K0 P sb /\ children sb = children s /\
            (hit = false -> exists lr, slegs_ok n sl' r lr /\ lmem ind ll = false /\ lmem ind lr = false)).
  { destruct (lmem ind ll) eqn:El.
    - exists sa, true. split; [reflexivity|]. split; [exact R1|]. split; [exact C1|discriminate].
    - destruct (RInv_getter K0 P sa r R1 Vr Gr) as (R2 & L2 & C2).
      destruct (g_legs n sa r) as [sb lr]. cbn [fst snd] in R2, L2, C2.
      exists sb, (lmem ind lr). split; [reflexivity|]. split; [exact R2|]. split; [congruence|].
      intros Eh. exists lr. split; [apply legs_ok_nonroot in L2; [exact L2|apply Ll]|]. split; [reflexivity|exact Eh]. }
  destruct Hmid as (sb & hit & Emid & RB & Cb & Hnohit). rewrite Emid. clear Emid.
  destruct RB as ([HSb HTb] & HCb & Eslb & Tfb & Twb & Tsb & HKb & HKib & HUb & Hunb).
  assert (Echb : nget p (children sb) = Some (l, r)) by (rewrite Cb; exact Ech).
  assert (Hpi : nget p (info sb) <> None) by (apply HKib, HpK).
  assert (E1p : length p <> 1) by (apply (leaf_not_parent _ p l r (proj1 HSb) Echb)).
  destruct hit.
  - (* the node is removed and re-created from its (valid) children *)
    assert (Hink : In p (nkeys (children sb))) by (apply nget_in_keys; congruence).
    destruct (remove_node_internal_invV (Vof P) p sb (conj HSb HTb) Hink Hpi) as ([HSr HTr] & EchR & EslR & FrR & HpR & TfR & TwR & TsR).
    set (sR := remove_node n p sb) in *.
    assert (NDk : NoDup (nkeys (children sb))) by apply HSb.
    assert (HSr' : InvSV (Vof (p :: P)) sR).
    { apply (InvSV_extend (Vof P)); [exact HSr| |apply Vof_dec].
      intros nd i Hi [Hl|[<-|Hin]] HnV; [exfalso; apply HnV; left; exact Hl| |exfalso; apply HnV; right; exact Hin].
      destruct HpR as [E|E]; rewrite E in Hi; [discriminate|]. injection Hi as <-. apply node_inv_noinfo. }
    assert (HCr : Vclosed (Vof (p :: P)) (children sR)).
    { apply Vclosed_Vof_leaf. intros q l' r' Hq Vq. rewrite EchR in Hq.
      destruct (node_eq_dec q p) as [->|Hn]; [rewrite nget_ndel_same in Hq by exact NDk; discriminate|].
      rewrite nget_ndel_other in Hq by exact Hn.
      assert (Vq' : Vof P q) by (destruct Vq as [H|[H|H]]; [left; exact H|congruence|right; exact H]).
      destruct (proj1 HCb q l' r' Hq Vq') as [A B]. split; apply Vof_mono; assumption. }
    assert (EU : nunion l r = p) by (apply (HUb p l r Echb HnP)).
    assert (Hnone : nget (nunion l r) (children sR) = None) by (rewrite EU, EchR; apply nget_ndel_same, NDk).
    assert (Vp' : Vof (p :: P) (nunion l r)) by (rewrite EU; right; left; reflexivity).
    destruct (contract_pair_invV (Vof (p :: P)) l r sR (conj HSr' HTr) HCr Gl Gr HRlr Hnone (Vof_mono P p l Vl) (Vof_mono P p r Vr) Vp')
      as ([HSf HTf] & EchF & EslF & TfF & TwF & TsF & EkF).
    pose proof (contract_pair_frame (Vof (p :: P)) l r sR HCr (Vof_mono P p l Vl) (Vof_mono P p r Vr) Vp') as FrF.
    set (sF := contract_pair n l r None None None sR) in *. rewrite EU in EchF.
    assert (Hch_other : forall q, q <> p -> nget q (children sF) = nget q (children s)).
    { intros q Hq. rewrite EchF, nget_nset_other by exact Hq. rewrite EchR, nget_ndel_other by exact Hq. rewrite Cb. reflexivity. }
    split; [|exact Hch_other].
    assert (Hlr' : order_pair l r = (l, r) \/ order_pair l r = (r, l)).
    { unfold order_pair. destruct (if Nat.eqb (length l) (length r) then _ else _); auto. }
    unfold RInv. split; [split; assumption|]. split.
    { apply Vclosed_Vof_leaf. intros q l' r' Hq Vq. destruct (node_eq_dec q p) as [->|Hn].
      - rewrite EchF, nget_nset_same in Hq.
        destruct Hlr' as [E|E]; rewrite E in Hq; injection Hq as <- <-; split; apply Vof_mono; assumption.
      - rewrite Hch_other in Hq by exact Hn. rewrite <- Cb in Hq.
        assert (Vq' : Vof P q) by (destruct Vq as [H|[H|H]]; [left; exact H|congruence|right; exact H]).
        destruct (proj1 HCb q l' r' Hq Vq') as [A B]. split; apply Vof_mono; assumption. }
    split; [congruence|]. split; [congruence|]. split; [congruence|]. split; [congruence|]. split.
    { intros q. rewrite <- HKb, <- !nget_in_keys. destruct (node_eq_dec q p) as [->|Hn].
      - rewrite EchF, nget_nset_same, Echb. split; discriminate.
      - rewrite Hch_other by exact Hn. rewrite Cb. tauto. }
    split.
    { intros q Hq. apply nget_in_keys. unfold nkeys in *. rewrite EkF.
      assert (Gn : good_node (nunion l r)) by (rewrite EU; exact Gp).
      destruct (add_node_invV (Vof (p :: P)) l sR (conj HSr' HTr) Gl) as (I1 & _ & _ & _ & M1).
      destruct (add_node_invV (Vof (p :: P)) r _ I1 Gr) as (I2 & _ & _ & _ & M2).
      destruct (add_node_invV (Vof (p :: P)) (nunion l r) _ I2 Gn) as (_ & _ & _ & K3 & M3).
      apply nget_in_keys. destruct (node_eq_dec q p) as [->|Hn]; [rewrite <- EU; exact K3|].
      assert (Hq0 : nget q (info sR) <> None) by (rewrite FrR by exact Hn; apply HKib, Hq).
      assert (Hq1 : nget q (info (add_node l sR)) <> None) by (rewrite M1; assumption).
      assert (Hq2 : nget q (info (add_node r (add_node l sR))) <> None) by (rewrite M2; assumption).
      rewrite M3; assumption. }
    split.
    { intros q l' r' Hq Hnq. assert (Hn : q <> p) by (intros ->; apply Hnq; left; reflexivity).
      rewrite Hch_other in Hq by exact Hn. rewrite <- Cb in Hq. apply (HUb q l' r' Hq). intros H. apply Hnq. right. exact H. }
    intros nd i Hi Hl Hnd.
    assert (Hn : nd <> p) by (intros ->; apply Hnd; left; reflexivity).
    assert (HnP' : ~ In nd P) by (intros H; apply Hnd; right; exact H).
    assert (HnV : ~ Vof (p :: P) nd) by (intros [H|H]; contradiction).
    rewrite (FrF nd HnV), (FrR nd Hn) in Hi.
    destruct (Hunb nd i Hi Hl HnP') as (A & C). split; [|assumption].
    apply (node_inv_children_ext (children sb)); [|exact A]. rewrite Hch_other by exact Hn. rewrite Cb. reflexivity.
  - (* unaffected: the old caches are right for the new sliced set *)
    destruct (Hnohit eq_refl) as (lr & L2 & El & Er).
    split; [|intros q _; rewrite Cb; reflexivity].
    destruct (nget p (info sb)) as [i|] eqn:Ei; [|congruence].
    destruct (Hunb p i Ei E1p HnP) as (Hold & _).
    assert (Hnew : node_inv (children sb) sl' p i).
    { apply (unaffected_node sl sl' ind Hrem Hfresh Hinc (children sb) p i l r ll lr); try assumption. apply HSb. }
    unfold RInv. split.
    { split; [|exact HTb]. apply (InvSV_extend (Vof P)); [exact HSb| |apply Vof_dec].
      intros nd j Hj [Hl|[<-|Hin]] HnV; [exfalso; apply HnV; left; exact Hl| |exfalso; apply HnV; right; exact Hin].
      rewrite Ei in Hj. injection Hj as <-. rewrite Eslb. exact Hnew. }
    split.
    { apply Vclosed_Vof_leaf. intros q l' r' Hq Vq. destruct (node_eq_dec q p) as [->|Hn].
      - rewrite Echb in Hq. injection Hq as <- <-. split; apply Vof_mono; assumption.
      - assert (Vq' : Vof P q) by (destruct Vq as [H|[H|H]]; [left; exact H|congruence|right; exact H]).
        destruct (proj1 HCb q l' r' Hq Vq') as [A B]. split; apply Vof_mono; assumption. }
    split; [exact Eslb|]. split; [exact Tfb|]. split; [exact Twb|]. split; [exact Tsb|]. split; [exact HKb|]. split; [exact HKib|].
    split.
    { intros q l' r' Hq Hnq. apply (HUb q l' r' Hq). intros H. apply Hnq. right. exact H. }
    intros nd j Hj Hl Hnd. apply (Hunb nd j Hj Hl). intros H. apply Hnd. right. exact H.
Qed.

Fixpoint children_first (P : list node) (nodes : list (node * (node * node))) : Prop :=
  match nodes with
  | [] => True
  | (p, (l, r)) :: rest => Vof P l /\ Vof P r /\ children_first (p :: P) rest
  end.
Lemma RInv_fold K0 nodes : forall P s, RInv K0 P s -> NoDup (map fst nodes) ->
  (forall e, In e nodes -> nget (fst e) (children s) = Some (snd e)) ->
  (forall e, In e nodes -> ~ In (fst e) P /\ In (fst e) K0) ->
  children_first P nodes ->
  RInv K0 (rev (map fst nodes) ++ P) (fold_left loop_body nodes s).
Proof.
  induction nodes as [|[p [l r]] nodes IH]; intros P s HR ND He Hp Hcf; cbn [fold_left map rev]; [exact HR|].
  cbn [map fst] in ND. inversion ND as [|? ? Hnp ND']. subst.
  destruct Hcf as (Vl & Vr & Hcf').
  destruct (Hp _ (or_introl eq_refl)) as [HnP HpK]. cbn [fst] in HnP, HpK.
  destruct (RInv_step K0 P s p l r HR (He _ (or_introl eq_refl)) HnP Vl Vr HpK) as [HR' Hch].
  rewrite <- app_assoc. cbn [app]. apply IH; [exact HR'|exact ND'| | |exact Hcf'].
  - intros e Hin. rewrite Hch; [apply He; right; exact Hin|]. intros E. apply Hnp. rewrite <- E. apply in_map, Hin.
  - intros e Hin. destruct (Hp e (or_intror Hin)) as [A B]. split; [|exact B].
    intros [E|H]; [apply Hnp; cbn [fst] in E |- *; rewrite E; apply in_map, Hin|contradiction].
Qed.
End RestoreLoop.

Lemma find_removed ind : forall L, In ind (removed L) -> NoDup (removed L) ->
  exists si, find (fun x => Nat.eqb (sl_ix x) ind) L = Some si /\ sl_ix si = ind /\
             Permutation L (si :: filter (fun x => negb (Nat.eqb (sl_ix x) ind)) L).
Proof.
  unfold removed. induction L as [|x L IH]; cbn [map find filter]; intros Hin ND; [contradiction|].
  inversion ND as [|? ? Hx ND']; subst. destruct (Nat.eqb_spec (sl_ix x) ind) as [E|E]; cbn [negb].
  - exists x. split; [reflexivity|]. split; [exact E|].
    assert (Hf : filter (fun y => negb (Nat.eqb (sl_ix y) ind)) L = L).
    { clear -Hx E. induction L as [|y L IH]; cbn; [reflexivity|].
      destruct (Nat.eqb_spec (sl_ix y) ind) as [Ey|Ey]; cbn.
      - exfalso. apply Hx. left. congruence.
      - f_equal. apply IH. intros H. apply Hx. right. exact H. }
    rewrite Hf. reflexivity.
  - destruct Hin as [H|H]; [congruence|]. destruct (IH H ND') as (si & F & Es & HP).
    exists si. split; [exact F|]. split; [exact Es|]. rewrite HP at 1. apply perm_swap.
Qed.
Lemma removed_filter ind L j : In j (removed (filter (fun x => negb (Nat.eqb (sl_ix x) ind)) L)) <-> j <> ind /\ In j (removed L).
Proof.
  unfold removed. rewrite !in_map_iff. split.
  - intros (x & <- & Hx). apply filter_In in Hx. destruct Hx as [Hx Hn]. apply negb_true_iff, Nat.eqb_neq in Hn. split; [exact Hn|exists x; auto].
  - intros (Hn & x & <- & Hx). exists x. split; [reflexivity|]. apply filter_In. split; [exact Hx|]. apply negb_true_iff, Nat.eqb_neq, Hn.
Qed.

Definition rs_pre (ind : ix) (s : tstate) : Prop :=
  In ind (removed (sliced s)) /\ NoDup (removed (sliced s)) /\
  trk_flops s = true /\ trk_write s = true /\ trk_size s = true /\
  (0 < zget ind (szd n))%Z /\ incl (output n) (concat (inputs n)) /\
  (exists nodes, traverse n s = Some nodes /\ Permutation (map fst nodes) (nkeys (children s)) /\ children_first [] nodes) /\
  (forall p l r, nget p (children s) = Some (l, r) -> nunion l r = p) /\
  (forall q, In q (nkeys (children s)) -> nget q (info s) <> None) /\
  (forall nd i, nget nd (info s) = Some i -> length nd <> 1 -> In nd (nkeys (children s))).

Theorem restore_ind_inv ind s : InvC s -> rs_pre ind s -> InvC (restore_ind n ind s).
Proof.
  intros [HS HT] (Hin & NDr & Tf & Tw & Ts & Hpos & Hinc & (nodes & Htr & HPn & Hcf) & HU & HKi & Hfull).
  unfold restore_ind.
  destruct (find_removed ind (sliced s) Hin NDr) as (si & Ef & Esi & HPsl). rewrite Ef.
  set (sl := sliced s) in *. set (sl' := filter (fun x => negb (Nat.eqb (sl_ix x) ind)) sl) in *.
  assert (Hrem : forall j, In j (removed sl) <-> j = ind \/ In j (removed sl')).
  { intros j. unfold sl'. rewrite removed_filter. destruct (Nat.eq_dec j ind) as [->|Hn]; tauto. }
  assert (Hfresh : ~ In ind (removed sl')) by (unfold sl'; rewrite removed_filter; tauto).
  set (s1 := set_sliced sl' s).
  rewrite (contract_stats_id s1) by assumption.
  set (s3 := set_mult (mult s1 / sl_size n si)%Z s1).
  assert (Em3 : mult s3 = multiplicity n sl').
  { unfold s3, s1. cbn [set_mult set_sliced mult]. destruct HS as (_&_&_&M). rewrite M. fold sl.
    rewrite (multiplicity_perm _ _ HPsl). unfold multiplicity at 1. cbn [map]. rewrite zprod_cons.
    fold (multiplicity n sl'). unfold sl_size. rewrite Esi.
    destruct (sl_proj si); [rewrite Z.mul_1_l; apply Z.div_1_r|rewrite Z.mul_comm; apply Z.div_mul; lia]. }
  change (fold_left _ (seq 0 N) s3) with (fold_left (leafstep ind) (seq 0 N) s3).
  pose proof (leaf_fold_same ind (seq 0 N) s3 (seq_NoDup N 0)) as (A1&A2&A3&A4&A5&A6&A7&A8&A9&A10&A11&A12&A13).
  set (s4 := fold_left (leafstep ind) (seq 0 N) s3) in *.
  assert (Etr : traverse n s4 = traverse n s) by (unfold traverse; rewrite A1; reflexivity).
  rewrite Etr, Htr.
  set (K0 := nkeys (children s)) in *.
  assert (Hcleared : forall q, length q = 1 -> good_node q -> In ind (nth (hd 0 q) (inputs n) []) ->
             exists k, q = [k] /\ In k (seq 0 N) /\ In ind (nth k (inputs n) [])).
  { intros q E1 Gq Hi. exists (hd 0 q). rewrite (len1 q E1) in Gq |- *. cbn [hd]. split; [reflexivity|].
    split; [apply in_seq; pose proof (good_leaf _ Gq); lia|rewrite (len1 q E1) in Hi; exact Hi]. }
  assert (Hinternal : forall q, length q <> 1 -> nget q (info s4) = nget q (info s)).
  { intros q Hl. rewrite A13; [reflexivity|]. intros (k & -> & _). apply Hl. reflexivity. }
  destruct HS as (C1&C2&C3&C5).
  assert (Hkeylen : forall q, In q K0 -> length q <> 1).
  { intros q Hq. apply nget_in_keys in Hq. destruct (nget q (children s)) as [[l r]|] eqn:E; [|congruence].
    apply (leaf_not_parent _ q l r C1 E). }
  assert (HR0 : RInv sl sl' K0 [] s4).
  { unfold RInv. rewrite A1, A2, A4, A5, A6. cbn [set_mult set_sliced children sliced trk_flops trk_write trk_size].
    split; [split|].
    - unfold InvSV. rewrite A1, A2, A3, A11. cbn [set_mult set_sliced children sliced mult info].
      split; [exact C1|]. split; [exact C2|]. split; [|exact Em3].
      intros nd i' Hi'.
      assert (Hk : nget nd (info s) <> None).
      { apply nget_in_keys. change (info s) with (info s3). unfold nkeys in *. rewrite <- A11. apply nget_in_keys. congruence. }
      destruct (nget nd (info s)) as [i|] eqn:Ei; [|congruence]. destruct (C3 nd i Ei) as [G Hn].
      split; [exact G|]. intros [E1|[]].
      destruct (in_dec Nat.eq_dec ind (nth (hd 0 nd) (inputs n) [])) as [Hc|Hc].
      + rewrite (A12 nd (Hcleared nd E1 G Hc)) in Hi'. change (info s3) with (info s) in Hi'. rewrite Ei in Hi'. injection Hi' as <-.
        apply node_inv_noinfo.
      + rewrite A13 in Hi'.
        * change (info s3) with (info s) in Hi'. rewrite Ei in Hi'. injection Hi' as <-.
          rewrite (len1 nd E1) in Hn |- *. apply (leaf_node_same_rev sl sl' ind Hrem (children s) (hd 0 nd) i C1 Hc Hn).
        * intros (k & Eq & _ & Hk'). subst nd. exact (Hc Hk').
    - apply totals_split. rewrite A1. cbn [set_mult set_sliced children]. apply totals_split in HT.
      assert (Rq : forall A (fld : ninfo -> option A) q, In q K0 -> rd fld s4 q = rd fld s q).
      { intros A fld q Hq. unfold rd. rewrite (Hinternal q (Hkeylen q Hq)). reflexivity. }
      destruct HT as (T1 & T2 & T3). split; [|split].
      + apply (tot_flops_frame K0 s s4); [exact A4|exact A7|intros q Hq; apply Rq, Hq|exact T1].
      + apply (tot_write_frame K0 s s4); [exact A5|exact A8|intros q Hq; apply Rq, Hq|exact T2].
      + apply (tot_size_frame K0 s s4); [exact A6|exact A9|exact A10|intros q Hq; apply Rq, Hq|exact T3].
    - split.
      { apply Vclosed_Vof_leaf. intros q l r Hq [E1|[]]. exfalso. apply (leaf_not_parent _ q l r C1 Hq E1). }
      split; [reflexivity|]. split; [exact Tf|]. split; [exact Tw|]. split; [exact Ts|]. split; [tauto|]. split.
      { intros q Hq. rewrite (Hinternal q (Hkeylen q Hq)). apply HKi, Hq. }
      split; [intros q l r Hq _; apply (HU q l r Hq)|].
      intros nd i Hi Hl _. rewrite (Hinternal nd Hl) in Hi. destruct (C3 nd i Hi) as [_ Hn].
      split; [exact Hn|exact (Hfull nd i Hi Hl)]. }
  (* the loop *)
  assert (NDn : NoDup (map fst nodes)) by (apply (Permutation_NoDup (Permutation_sym HPn)), C1).
  pose proof (RInv_fold sl sl' ind Hrem Hfresh Hinc K0 nodes [] s4 HR0 NDn) as HRf.
  change (fold_left _ nodes s4) with (fold_left (loop_body ind) nodes s4).
  apply reset_recipes_inv.
  destruct HRf as ([HSf HTf] & _ & Eslf & _ & _ & _ & HKf & _ & _ & Hunf).
  - intros e He. rewrite A1. apply (traverse_entries s nodes Htr e He).
  - intros e He. split; [intros []|]. apply (Permutation_in _ HPn), in_map, He.
  - exact Hcf.
  - split; [|exact HTf]. destruct HSf as (D1&D2&D3&D5). unfold InvS. split; [exact D1|]. split; [exact D2|]. split; [|exact D5].
    intros nd i Hi. destruct (D3 nd i Hi) as [G Hv]. split; [exact G|]. apply Hv.
    destruct (Nat.eq_dec (length nd) 1) as [E1|E1]; [left; exact E1|right].
    rewrite app_nil_r. destruct (in_dec node_eq_dec nd (rev (map fst nodes))) as [H|H]; [exact H|exfalso].
    destruct (Hunf nd i Hi E1) as (_ & Hk); [rewrite app_nil_r; exact H|].
    apply H, in_rev. rewrite rev_involutive. apply (Permutation_in _ (Permutation_sym HPn)), Hk.
Qed.

(* ======================================================================== *)
(* Part R : the covered alphabet, final form: every primitive except the three single-figure
   totals when they have to recompute *)
Definition prim_pre (p : prim) (s : tstate) : Prop :=
  match p with
  | PRestoreInd ind => rs_pre ind s
  | _ => prim_preN p s
  end.
Theorem step_preserves_InvC p s : InvC s -> prim_pre p s -> InvC (step n p s).
Proof.
  intros HI Hp. destruct p; try (apply step_preserves_InvCN; assumption).
  cbn [step]. apply restore_ind_inv; assumption.
Qed.
Theorem run_preserves_InvC tr : forall s, InvC s -> pre_trace n prim_pre tr s -> InvC (run n tr s).
Proof. intros s HI Hp. apply (run_good n InvC prim_pre step_preserves_InvC tr s HI Hp). Qed.
Theorem trace_from_fresh_InvC tr : pre_trace n prim_pre tr (init_state n) -> InvC (run n tr (init_state n)).
Proof. apply run_preserves_InvC, init_state_InvC. Qed.

(* ======================================================================== *)
(* Part S : the same, for trees that agree up to the order of the two children of a node and
   the order of the entries of `children` (what restore_ind does to the dict) *)
Definition ch_sub (c1 c2 : list (node * (node * node))) : Prop :=
  forall q l r, nget q c1 = Some (l, r) -> nget q c2 = Some (l, r) \/ nget q c2 = Some (r, l).
Definition ch_equiv c1 c2 : Prop := ch_sub c1 c2 /\ ch_sub c2 c1.
Lemma inv_ok_swap sl0 l r inv : inv_ok n sl0 l r inv -> inv_ok n sl0 r l inv.
Proof. intros [W G]. split; [exact W|]. intros j. rewrite G. lia. Qed.
Lemma ch_equiv_keys c1 c2 : ch_equiv c1 c2 -> forall q, In q (nkeys c1) <-> In q (nkeys c2).
Proof.
  intros [H1 H2] q. rewrite <- !nget_in_keys. split; intros H.
  - destruct (nget q c1) as [[l r]|] eqn:E; [|congruence]. destruct (H1 q l r E) as [E'|E']; rewrite E'; discriminate.
  - destruct (nget q c2) as [[l r]|] eqn:E; [|congruence]. destruct (H2 q l r E) as [E'|E']; rewrite E'; discriminate.
Qed.

Theorem figures_determined_eq s1 s2 : InvC s1 -> InvC s2 -> ch_equiv (children s1) (children s2) ->
  (forall j, In j (removed (sliced s1)) <-> In j (removed (sliced s2))) ->
  forall nd i1 i2, nget nd (info s1) = Some i1 -> nget nd (info s2) = Some i2 ->
  (forall z1 z2, i_size i1 = Some z1 -> i_size i2 = Some z2 -> z1 = z2) /\
  (forall z1 z2, i_flops i1 = Some z1 -> i_flops i2 = Some z2 -> z1 = z2) /\
  (forall l1 l2, i_legs i1 = Some l1 -> i_legs i2 = Some l2 ->
     size_of (szd n) (lkeys l1) = size_of (szd n) (lkeys l2) /\ forall j, In j (lkeys l1) <-> In j (lkeys l2)).
Proof.
  intros [HS1 _] [HS2 _] [Hs12 Hs21] Hrm nd i1 i2 Hi1 Hi2.
  assert (HS1' := HS1). destruct HS1' as (Hc1&_&N1&_). assert (HS2' := HS2). destruct HS2' as (Hc2&_&N2&_).
  destruct (N1 nd i1 Hi1) as [G (A1&B1&C1&D1)]. destruct (N2 nd i2 Hi2) as [_ (A2&B2&C2&D2)].
  destruct (g_legs_inv s1 nd HS1 G) as (_ & _ & Hw). set (lg0 := snd (g_legs n s1 nd)) in *.
  pose proof (legs_ok_same _ _ Hrm nd lg0 Hw) as Hw2.
  split; [|split].
  - intros z1 z2 E1 E2. rewrite (C1 z1 E1 lg0 Hw), (C2 z2 E2 lg0 Hw2). reflexivity.
  - intros z1 z2 E1 E2. destruct (D1 z1 E1) as [[L1 ->]|(l & r & Ech1 & F1)].
    + destruct (D2 z2 E2) as [[_ ->]|(l & r & Ech2 & _)]; [reflexivity|].
      exfalso. apply (leaf_not_parent _ nd l r Hc2 Ech2 L1).
    + destruct (D2 z2 E2) as [[L2 _]|(l' & r' & Ech2 & F2)]; [exfalso; apply (leaf_not_parent _ nd l r Hc1 Ech1 L2)|].
      destruct (g_involved_inv s1 nd HS1 G) as (_ & _ & Hv).
      destruct Hv as [[L _]|(l2 & r2 & E & Hinv)]; [right; congruence|exfalso; apply (leaf_not_parent _ nd l r Hc1 Ech1 L)|].
      rewrite Ech1 in E. injection E as <- <-.
      pose proof (inv_ok_same _ _ Hrm l r _ Hinv) as Hinv2.
      rewrite (F1 _ Hinv). destruct (Hs12 nd l r Ech1) as [E'|E']; rewrite Ech2 in E'; injection E' as -> ->.
      * symmetry. apply (F2 _ Hinv2).
      * symmetry. apply (F2 _ (inv_ok_swap _ _ _ _ Hinv2)).
  - intros l1 l2 E1 E2. pose proof (legs_ok_same _ _ Hrm nd l1 (A1 l1 E1)) as H1. pose proof (A2 l2 E2) as H2.
    split; [apply (legs_ok_size_unique n (sliced s2) _ nd); assumption|].
    unfold legs_ok in H1, H2. destruct (Nat.eqb (length nd) N).
    + destruct H1 as [_ G1], H2 as [_ G2]. intros j. rewrite <- !lget_in_keys, G1, G2. tauto.
    + destruct H1 as [W1 G1], H2 as [W2 G2]. apply wfl_keys_same; try assumption. intros j. rewrite G1, G2. reflexivity.
Qed.

Theorem totals_determined_eq s1 s2 : InvC s1 -> InvC s2 -> ch_equiv (children s1) (children s2) ->
  Permutation (sliced s1) (sliced s2) ->
  (forall p, In p (nkeys (children s1)) -> nget p (info s1) <> None /\ nget p (info s2) <> None) ->
  (trk_flops s1 = true -> trk_flops s2 = true -> flops_ s1 = flops_ s2) /\
  (trk_write s1 = true -> trk_write s2 = true -> write_ s1 = write_ s2) /\
  mult s1 = mult s2.
Proof.
  intros HI1 HI2 Heq HP Hpres.
  assert (Hrm : forall j, In j (removed (sliced s1)) <-> In j (removed (sliced s2))).
  { intros j. unfold removed. split; apply Permutation_in; [|apply Permutation_sym]; apply Permutation_map, HP. }
  pose proof (figures_determined_eq s1 s2 HI1 HI2 Heq Hrm) as HF.
  destruct HI1 as [HS1 HT1], HI2 as [HS2 HT2].
  assert (HPk : Permutation (nkeys (children s2)) (nkeys (children s1))).
  { apply NoDup_Permutation; [apply HS2|apply HS1|]. intros q. symmetry. apply ch_equiv_keys, Heq. }
  assert (HT1' : tot_flops (nkeys (children s1)) s1 /\ tot_write (nkeys (children s1)) s1 /\ tot_size (nkeys (children s1)) s1) by (apply totals_split, HT1).
  assert (HT2' : tot_flops (nkeys (children s2)) s2 /\ tot_write (nkeys (children s2)) s2 /\ tot_size (nkeys (children s2)) s2) by (apply totals_split, HT2).
  destruct HT1' as (F1 & W1 & _), HT2' as (F2 & W2 & _).
  split; [|split].
  - intros T1 T2. destruct (F1 T1) as [Ea Pa], (F2 T2) as [Eb Pb]. rewrite Ea, Eb.
    rewrite (zsum_perm _ _ (Permutation_map (cflops s2) HPk)). f_equal. apply map_ext_in. intros p Hp.
    destruct (Hpres p Hp) as [K1 K2]. destruct (nget p (info s1)) as [i1|] eqn:E1; [|congruence].
    destruct (nget p (info s2)) as [i2|] eqn:E2; [|congruence].
    specialize (Pa p Hp). assert (Hp2 : In p (nkeys (children s2))) by (apply (Permutation_in _ (Permutation_sym HPk)), Hp). specialize (Pb p Hp2).
    unfold cflops, rd in *. rewrite E1 in *. rewrite E2 in *.
    destruct (HF p i1 i2 E1 E2) as (_ & Hf & _).
    destruct (i_flops i1) as [z1|]; [|congruence]. destruct (i_flops i2) as [z2|]; [|congruence].
    apply (Hf z1 z2); reflexivity.
  - intros T1 T2. destruct (W1 T1) as [Ea Pa], (W2 T2) as [Eb Pb]. rewrite Ea, Eb.
    rewrite (zsum_perm _ _ (Permutation_map (csize s2) HPk)). f_equal. apply map_ext_in. intros p Hp.
    destruct (Hpres p Hp) as [K1 K2]. destruct (nget p (info s1)) as [i1|] eqn:E1; [|congruence].
    destruct (nget p (info s2)) as [i2|] eqn:E2; [|congruence].
    specialize (Pa p Hp). assert (Hp2 : In p (nkeys (children s2))) by (apply (Permutation_in _ (Permutation_sym HPk)), Hp). specialize (Pb p Hp2).
    unfold csize, rd in *. rewrite E1 in *. rewrite E2 in *.
    destruct (HF p i1 i2 E1 E2) as (Hsz & _).
    destruct (i_size i1) as [z1|]; [|congruence]. destruct (i_size i2) as [z2|]; [|congruence].
    apply (Hsz z1 z2); reflexivity.
  - destruct HS1 as (_&_&_&M1), HS2 as (_&_&_&M2). rewrite M1, M2. apply multiplicity_perm, HP.
Qed.

End Inv.

(* CompressedTreeFacts.v -- the uncapped compressed estimates in terms of the SAME tree's exact
   figures (Net.v / C03): for any children-first order of the internal nodes of a complete tree t,
   the trees the compressed run builds are exactly the nodes of t, every step names two distinct
   live nodes, and therefore flops = total_flops n [] t, write = total_write n [] t + input sizes,
   max = max(largest input, max_size n [] t).   (owner: builder c18c20) *)
From Coq Require Import Lia Permutation.
From Ctg Require Import Base Net HGraph Compressed BaseFacts NetFacts HGraphFacts CompressedFacts
                        CompressedPeakFacts HGraphTreeFacts CompressedExactFacts ExecOrderFacts.

(* the (p, l, r) triple fed to compressed_contract_stats for an internal node *)
Definition plr_of_node (p : tree) : list nat * (list nat * list nat) :=
  match p with
  | Leaf _ => ([], ([], []))
  | Node l r => (sorted_leaves p, (sorted_leaves l, sorted_leaves r))
  end.
Definition plr_of_list (o : list tree) := map plr_of_node o.

Lemma plr_of_post_sub t : plr_of t = plr_of_list (post_sub t).
Proof.
  unfold plr_of, plr_of_list.
  assert (G : forall o, (forall p, In p o -> is_node p) ->
              flat_map (fun t' => match t' with
                                  | Leaf _ => []
                                  | Node l r => [(sorted_leaves t', (sorted_leaves l, sorted_leaves r))]
                                  end) o = map plr_of_node o).
  { induction o as [|p o IH]; intros H; [reflexivity|]. cbn [flat_map map]. rewrite IH by (intros q Hq; apply H; right; exact Hq).
    assert (Hn : is_node p) by (apply H; left; reflexivity). destruct p; [destruct Hn|reflexivity]. }
  apply G. intros p Hp. apply post_sub_iff in Hp. apply Hp.
Qed.

(* ---------- subtrees ---------- *)
Lemma subs_nodup t : NoDup (leaves t) -> forall a, In a (subs t) -> NoDup (leaves a).
Proof.
  induction t as [k|l IHl r IHr]; intros ND a; cbn [subs].
  - intros [<-|[]]. exact ND.
  - cbn [leaves] in ND. destruct (NoDup_app_elim _ _ ND) as [NDl NDr].
    intros [<-|H]; [exact ND|]. apply in_app_or in H. destruct H; [apply IHl|apply IHr]; assumption.
Qed.

Lemma leaf_in_subs t i : In i (leaves t) -> In (Leaf i) (subs t).
Proof.
  induction t as [k|l IHl r IHr]; cbn [leaves subs].
  - intros [<-|[]]. left; reflexivity.
  - rewrite in_app_iff. intros [H|H]; right; apply in_or_app; [left; apply IHl, H|right; apply IHr, H].
Qed.

Lemma subs_inj_set t : NoDup (leaves t) -> forall a b, In a (subs t) -> In b (subs t) ->
  (forall x, In x (leaves a) <-> In x (leaves b)) -> a = b.
Proof.
  intros ND a b Ha Hb Hset. apply (subs_inj t ND a b Ha Hb).
  (* same sets + both duplicate free + both are in the same left-to-right order of t?  Not needed:
     use the structural argument directly *)
  revert a b Ha Hb Hset. induction t as [k|l IHl r IHr]; intros a b; cbn [subs].
  - intros [<-|[]] [<-|[]] _. reflexivity.
  - cbn [leaves] in ND. destruct (NoDup_app_elim _ _ ND) as [NDl NDr].
    assert (Hbig : forall c, In c (subs l ++ subs r) -> ~ (forall x, In x (leaves (Node l r)) <-> In x (leaves c))).
    { intros c Hc E.
      assert (NDc : NoDup (leaves c)).
      { apply in_app_or in Hc. destruct Hc as [Hc|Hc]; [apply (subs_nodup l NDl c Hc)|apply (subs_nodup r NDr c Hc)]. }
      assert (P : Permutation (leaves (Node l r)) (leaves c)) by (apply NoDup_Permutation; assumption).
      apply Permutation_length in P. rewrite !leaves_length in P. cbn [nleaves] in P.
      pose proof (nleaves_pos l). pose proof (nleaves_pos r).
      apply in_app_or in Hc. destruct Hc as [Hc|Hc]; apply subs_nleaves in Hc; lia. }
    assert (Hdis : forall a0 b0, In a0 (subs l) -> In b0 (subs r) -> ~ (forall x, In x (leaves a0) <-> In x (leaves b0))).
    { intros a0 b0 Ha0 Hb0 E. destruct (leaves_nonempty a0) as [k Hk].
      apply (NoDup_app_disj _ _ k ND); [apply (subs_leaves l a0 Ha0), Hk|apply (subs_leaves r b0 Hb0), E, Hk]. }
    intros [<-|Ha] [<-|Hb] E.
    + reflexivity.
    + exfalso. apply (Hbig b Hb E).
    + exfalso. apply (Hbig a Ha). intros x. symmetry. apply E.
    + apply in_app_or in Ha. apply in_app_or in Hb. destruct Ha as [Ha|Ha], Hb as [Hb|Hb].
      * apply (IHl NDl a b Ha Hb E).
      * exfalso. apply (Hdis a b Ha Hb E).
      * exfalso. apply (Hdis b a Hb Ha). intros x. symmetry. apply E.
      * apply (IHr NDr a b Ha Hb E).
Qed.

Lemma in_sorted_leaves u x : In x (sorted_leaves u) <-> In x (leaves u).
Proof. unfold sorted_leaves. apply in_sort_by. Qed.

Lemma tm_get_cons_same k v m : tm_get k ((k, v) :: m) = v.
Proof.
  cbn [tm_get]. assert (E : list_nat_eqb k k = true) by (apply hg_list_nat_eqb_eq; reflexivity). rewrite E. reflexivity.
Qed.
Lemma tm_get_cons_other k k' v m : k <> k' -> tm_get k ((k', v) :: m) = tm_get k m.
Proof.
  intros H. cbn [tm_get]. destruct (list_nat_eqb k' k) eqn:E; [|reflexivity].
  apply hg_list_nat_eqb_eq in E. congruence.
Qed.
Lemma tm_get_init N i : forall s, s <= i < s + N -> tm_get [i] (map (fun j => ([j], j)) (seq s N)) = i.
Proof.
  induction N as [|N IH]; intros s H; [lia|]. cbn [seq map].
  destruct (Nat.eq_dec s i) as [->|Hne]; [apply tm_get_cons_same|].
  rewrite tm_get_cons_other by congruence. apply IH. lia.
Qed.

Section TreeRun.
Variable n : net.
Hypothesis norep : forall t, In t (inputs n) -> NoDup t.
Variable t : tree.
Hypothesis NDt : NoDup (leaves t).
Variable o : list tree.                      (* the order: internal nodes of t, children first *)
Hypothesis NDo : NoDup o.
Hypothesis Hsub : forall p, In p o -> In p (subs t) /\ is_node p.
Hypothesis Hcf : forall pre p suf, o = pre ++ p :: suf -> forall q, child q p -> is_leaf q \/ In q pre.

Definition consumed (done : list tree) (u : tree) : Prop := exists p, In p done /\ child u p.

Record TInv (done : list tree) (F : list (nat * tree)) (m : tmap) : Prop := {
  ti_sound : forall k u, In (k, u) F -> In u (subs t) /\ (is_leaf u \/ In u done) /\ ~ consumed done u;
  ti_complete : forall u, In u (subs t) -> (is_leaf u \/ In u done) -> ~ consumed done u -> exists k, In (k, u) F;
  ti_map : forall k u, In (k, u) F -> tm_get (sorted_leaves u) m = k
}.

Lemma sorted_leaves_inj u p : In u (subs t) -> In p (subs t) -> sorted_leaves u = sorted_leaves p -> u = p.
Proof.
  intros Hu Hp E. apply (subs_inj_set t NDt u p Hu Hp).
  intros x. rewrite <- !in_sorted_leaves, E. reflexivity.
Qed.

Theorem tree_run chi late : (forall x, (1 <= zget x (szd n))%Z) -> (size_of (szd n) (universe n) <= chi)%Z ->
  forall rest done s F rep, o = done ++ rest -> Sim n (cs_g s) F rep -> TInv done F (cs_map s) ->
  run_trees chi late s F (plr_of_list rest) = rest /\
  ids_ok_from chi late s (plr_of_list rest) = true.
Proof.
  intros Hpos Hchi. induction rest as [|p rest IH]; intros done s F rep Eo S TI.
  - cbn. split; reflexivity.
  - destruct (Hsub p) as [Hp Hnode]; [rewrite Eo; apply in_or_app; right; left; reflexivity|].
    destruct p as [k0|l r]; [destruct Hnode|].
    set (p := Node l r) in *.
    assert (Hpnd : ~ In p done).
    { intros H. rewrite Eo in NDo. apply (NoDup_app_disj _ _ p NDo H). left; reflexivity. }
    assert (Havail : forall q, child q p -> In q (subs t) /\ (is_leaf q \/ In q done) /\ ~ consumed done q).
    { intros q Hq. split; [apply (child_in_subs t q p Hp Hq)|]. split; [apply (Hcf done p rest Eo q Hq)|].
      intros (p' & Hp' & Hc'). assert (p' = p); [|subst; contradiction].
      apply (unique_parent t NDt q p' p); try assumption.
      apply Hsub. rewrite Eo. apply in_or_app. left; exact Hp'. }
    destruct (Havail l (or_introl eq_refl)) as (Hl1 & Hl2 & Hl3).
    destruct (Havail r (or_intror eq_refl)) as (Hr1 & Hr2 & Hr3).
    destruct (ti_complete done F (cs_map s) TI l Hl1 Hl2 Hl3) as (kl & HFl).
    destruct (ti_complete done F (cs_map s) TI r Hr1 Hr2 Hr3) as (kr & HFr).
    pose proof (ti_map done F (cs_map s) TI kl l HFl) as Ml.
    pose proof (ti_map done F (cs_map s) TI kr r HFr) as Mr.
    pose proof (sim_nodup n _ F rep S) as NDF.
    assert (Hlr : l <> r).
    { intros E. pose proof (subs_nodup t NDt p Hp) as NDp. unfold p in NDp. cbn [leaves] in NDp. rewrite E in NDp.
      destruct (leaves_nonempty r) as [x Hx]. apply (NoDup_app_disj _ _ x NDp Hx Hx). }
    assert (Hk : kl <> kr).
    { intros E. pose proof HFr as HFr'. rewrite <- E in HFr'.
      pose proof (in_find_tree kl F l NDF HFl) as E1. pose proof (in_find_tree kl F r NDF HFr') as E2. congruence. }
    cbn [plr_of_list map plr_of_node]. fold (plr_of_list rest). fold p.
    set (plr := (sorted_leaves p, (sorted_leaves l, sorted_leaves r))).
    destruct (sim_step n chi late s F rep (sorted_leaves p) (sorted_leaves l) (sorted_leaves r) l r Hpos Hchi)
      as ((rep' & S') & _ & _).
    { exact S. } { rewrite Ml, Mr. exact Hk. } { rewrite Ml. exact HFl. } { rewrite Mr. exact HFr. }
    cbn zeta in S'. rewrite Ml, Mr in S'. fold plr in S'.
    set (pi := snd (con_g chi late (cs_g s) (cs_map s) plr)) in *.
    set (F' := (pi, p) :: del_tree kr (del_tree kl F)) in *.
    assert (Emap : cs_map (ccs_step chi late s plr) = (sorted_leaves p, pi) :: cs_map s).
    { pose proof (ccs_step_struct chi late s plr) as ES.
      assert (E2 : cs_map (ccs_step chi late s plr) = snd (step_g chi late (cs_g s) (cs_map s) plr)) by (rewrite <- ES; reflexivity).
      rewrite E2. reflexivity. }
    assert (NDF1 : NoDup (fkeys (del_tree kl F))) by apply (nodup_del_tree kl F NDF).
    assert (Hrest : forall k u, In (k, u) (del_tree kr (del_tree kl F)) <-> In (k, u) F /\ k <> kl /\ k <> kr).
    { intros k u. rewrite (in_del_tree kr _ k u NDF1), (in_del_tree kl F k u NDF). tauto. }
    assert (TI' : TInv (done ++ [p]) F' (cs_map (ccs_step chi late s plr))).
    { constructor.
      - intros k u [E|Hin].
        + inversion E; subst k u. split; [exact Hp|]. split; [right; apply in_or_app; right; left; reflexivity|].
          intros (p' & Hp' & Hc'). apply in_app_or in Hp'. destruct Hp' as [Hp'|[<-|[]]].
          * destruct (in_split _ _ Hp') as (d1 & d2 & Ed).
            assert (Eo' : o = d1 ++ p' :: (d2 ++ p :: rest)) by (rewrite Eo, Ed, <- app_assoc; reflexivity).
            destruct (Hcf d1 p' _ Eo' p Hc') as [H|H]; [exact H|].
            apply Hpnd. rewrite Ed. apply in_or_app. left; exact H.
          * pose proof (child_nleaves _ _ Hc'). lia.
        + apply Hrest in Hin. destruct Hin as (HinF & Hkl & Hkr).
          destruct (ti_sound done F (cs_map s) TI k u HinF) as (A & B & C).
          split; [exact A|]. split; [destruct B as [B|B]; [left; exact B|right; apply in_or_app; left; exact B]|].
          intros (p' & Hp' & Hc'). apply in_app_or in Hp'. destruct Hp' as [Hp'|[<-|[]]].
          * apply C. exists p'. split; assumption.
          * destruct Hc' as [-> | ->].
            -- apply Hkl. rewrite <- (ti_map done F (cs_map s) TI k l HinF). exact Ml.
            -- apply Hkr. rewrite <- (ti_map done F (cs_map s) TI k r HinF). exact Mr.
      - intros u Hu Hav Hnc. destruct (tree_eq_dec u p) as [->|Hup]; [exists pi; left; reflexivity|].
        assert (Hav' : is_leaf u \/ In u done).
        { destruct Hav as [H|H]; [left; exact H|]. apply in_app_or in H. destruct H as [H|[H|[]]]; [right; exact H|congruence]. }
        assert (Hnc' : ~ consumed done u).
        { intros (p' & Hp' & Hc'). apply Hnc. exists p'. split; [apply in_or_app; left; exact Hp'|exact Hc']. }
        destruct (ti_complete done F (cs_map s) TI u Hu Hav' Hnc') as (k & HinF).
        exists k. right. apply Hrest. split; [exact HinF|].
        assert (Hul : u <> l) by (intros ->; apply Hnc; exists p; split; [apply in_or_app; right; left; reflexivity|left; reflexivity]).
        assert (Hur : u <> r) by (intros ->; apply Hnc; exists p; split; [apply in_or_app; right; left; reflexivity|right; reflexivity]).
        split; intros ->.
        * apply Hul. pose proof (in_find_tree kl F u NDF HinF). pose proof (in_find_tree kl F l NDF HFl). congruence.
        * apply Hur. pose proof (in_find_tree kr F u NDF HinF). pose proof (in_find_tree kr F r NDF HFr). congruence.
      - intros k u [E|Hin]; rewrite Emap.
        + inversion E; subst k u. apply tm_get_cons_same.
        + apply Hrest in Hin. destruct Hin as (HinF & _ & _).
          destruct (ti_sound done F (cs_map s) TI k u HinF) as (A & B & _).
          rewrite tm_get_cons_other; [apply (ti_map done F (cs_map s) TI k u HinF)|].
          intros E. apply (sorted_leaves_inj u p A Hp) in E. subst u.
          destruct B as [B|B]; [exact B|contradiction]. }
    assert (Eo' : o = (done ++ [p]) ++ rest) by (rewrite <- app_assoc; exact Eo).
    destruct (IH (done ++ [p]) _ F' rep' Eo' S' TI') as [RT OK].
    split.
    + cbn [run_trees]. change (plr_of_node p) with plr.
      change (fst (snd plr)) with (sorted_leaves l). change (snd (snd plr)) with (sorted_leaves r).
      rewrite Ml, Mr, (in_find_tree kl F l NDF HFl), (in_find_tree kr F r NDF HFr).
      unfold p. f_equal. exact RT.
    + cbn [ids_ok_from]. change (plr_of_node p) with plr. rewrite OK, andb_true_r. unfold step_ok_b, plr. rewrite Ml, Mr.
      apply andb_true_iff. split; [apply andb_true_iff; split|].
      * apply negb_true_iff, Nat.eqb_neq, Hk.
      * apply (sim_keys n _ F rep S). unfold fkeys. apply in_map_iff. exists (kl, l). split; [reflexivity|exact HFl].
      * apply (sim_keys n _ F rep S). unfold fkeys. apply in_map_iff. exists (kr, r). split; [reflexivity|exact HFr].
Qed.

End TreeRun.

(* ---------- from the trees of the run to Net.v's totals ---------- *)
Lemma zmax_list_perm l1 l2 : Permutation l1 l2 -> forall d, zmax_list l1 d = zmax_list l2 d.
Proof.
  unfold zmax_list. induction 1; intros d; cbn [fold_left].
  - reflexivity.
  - apply IHPermutation.
  - f_equal. lia.
  - rewrite IHPermutation1. apply IHPermutation2.
Qed.
Lemma zmax_list_max l : forall a b, zmax_list l (Z.max a b) = Z.max a (zmax_list l b).
Proof.
  unfold zmax_list. induction l as [|x l IH]; intros a b; cbn [fold_left]; [reflexivity|].
  rewrite <- IH. f_equal. lia.
Qed.
Lemma zmax_list_base l d : (0 <= d)%Z -> zmax_list l d = Z.max d (zmax_list l 0).
Proof. intros H. rewrite <- zmax_list_max. f_equal. lia. Qed.
Lemma zmax_list_nonneg l : (0 <= zmax_list l 0)%Z.
Proof. rewrite zmax_list_acc. lia. Qed.

Section Totals.
Variable n : net.
Hypothesis norep : forall t, In t (inputs n) -> NoDup t.
Variables l r : tree.
Notation t := (Node l r).
Hypothesis Hcomplete : Permutation (leaves t) (seq 0 (NN n)).
Hypothesis NDout : NoDup (output n).
Hypothesis Hout : incl (output n) (concat (inputs n)).

Lemma root_size_agree : node_size n [] false t = node_size n [] true t.
Proof.
  unfold node_size. cbn [node_legs].
  assert (IR : inrange n (leaves t)) by (apply perm_inrange, Hcomplete).
  apply size_of_same_set.
  - apply (sub_legs_spec n [] t IR).
  - unfold root_legs, lkeys. rewrite map_map. cbn [fst]. rewrite map_id. apply NoDup_filter, NDout.
  - intros j. rewrite (sub_legs_keys n [] t j IR), (root_legs_agree n [] j NDout Hout).
    rewrite (cnt_perm n _ _ j Hcomplete). reflexivity.
Qed.

Lemma sizes_list_agree :
  map (fun bt => node_size n [] (fst bt) (snd bt)) (traverse_dfs t) = map (node_size n [] false) (post_sub t).
Proof.
  cbn [traverse_dfs post_sub].
  replace (post_sub l ++ post_sub r ++ [t]) with ((post_sub l ++ post_sub r) ++ [t]) by (rewrite <- app_assoc; reflexivity).
  rewrite (map_app _ (map (pair false) (post_sub l ++ post_sub r))), (map_app _ (post_sub l ++ post_sub r)), map_map.
  cbn [map fst snd]. rewrite root_size_agree. reflexivity.
Qed.

Lemma net_totals :
  sum_flops_of n (post_sub t) = total_flops n [] t /\
  sum_sizes_of n (post_sub t) = total_write n [] t /\
  forall d, (0 <= d)%Z -> max_sizes_of n (post_sub t) d = Z.max d (max_size n [] t).
Proof.
  assert (Em : multiplicity n [] = 1%Z) by reflexivity.
  split; [|split].
  - unfold sum_flops_of, total_flops, sum_flops. rewrite Em, Z.mul_1_l, <- traverse_dfs_snd, map_map. reflexivity.
  - unfold sum_sizes_of, total_write, sum_write. rewrite Em, Z.mul_1_l, sizes_list_agree. reflexivity.
  - intros d Hd. unfold max_sizes_of, max_size. rewrite sizes_list_agree. apply zmax_list_base, Hd.
Qed.

(* uncapped = exact, in terms of the SAME tree's figures, for any children-first order of t *)
Theorem uncapped_exact_tree chi late order : valid_order t order ->
  nodangling n -> (forall x, (1 <= zget x (szd n))%Z) -> (size_of (szd n) (universe n) <= chi)%Z ->
  let plr := plr_of_list (map snd order) in
  let tr := cs_tr (ccs_run chi late n plr) in
  ids_ok chi late n plr = true /\
  t_flops tr = total_flops n [] t /\
  t_write tr = (zsum (input_sizes n) + total_write n [] t)%Z /\
  t_max tr = Z.max (zmax_list (input_sizes n) 0%Z) (max_size n [] t).
Proof.
  intros (Pord & _ & Hcf0) Hd Hpos Hchi. cbn zeta.
  set (o := map snd order) in *.
  assert (NDt : NoDup (leaves t)) by (apply (Permutation_NoDup (Permutation_sym Hcomplete)), seq_NoDup).
  assert (NDo : NoDup o) by (apply (Permutation_NoDup (Permutation_sym Pord)), (NoDup_post_sub t NDt)).
  assert (Hsub : forall p, In p o -> In p (subs t) /\ is_node p).
  { intros p Hp. apply post_sub_iff. apply (Permutation_in _ Pord Hp). }
  assert (Hcf : forall pre p suf, o = pre ++ p :: suf -> forall q, child q p -> is_leaf q \/ In q pre).
  { intros pre p suf E q Hq. unfold o in E. apply map_eq_app in E. destruct E as (o1 & o2 & -> & E1 & E2).
    apply map_eq_cons in E2. destruct E2 as ([b p'] & o3 & -> & Ep & E3). cbn in Ep. subst p'.
    rewrite <- E1. apply (Hcf0 o1 b p o3 eq_refl q Hq). }
  (* the initial state *)
  pose proof (rep_to_sim n norep _ _ Hd (init_rep n norep)) as S0.
  assert (TI0 : TInv t [] (leaf_forest n) (cs_map (ccs_init n))).
  { constructor.
    - intros k u Hin. unfold leaf_forest in Hin. apply in_map_iff in Hin. destruct Hin as (i & E & Hi). inversion E; subst k u.
      split; [apply leaf_in_subs; apply (Permutation_in _ (Permutation_sym Hcomplete) Hi)|].
      split; [left; exact I|]. intros (p & [] & _).
    - intros u Hu [Hl|[]] _. destruct u as [i|a b]; [|destruct Hl].
      exists i. unfold leaf_forest. apply in_map_iff. exists i. split; [reflexivity|].
      apply (Permutation_in _ Hcomplete). apply (subs_leaves t (Leaf i) Hu). left; reflexivity.
    - intros k u Hin. unfold leaf_forest in Hin. apply in_map_iff in Hin. destruct Hin as (i & E & Hi). inversion E; subst k u.
      cbn [sorted_leaves leaves]. unfold ccs_init. cbn [cs_map]. apply in_seq in Hi.
      change (sort_by nat_le [i]) with [i]. apply tm_get_init. unfold NN in Hi. lia. }
  destruct (tree_run n t NDt o NDo Hsub Hcf chi late Hpos Hchi o [] (ccs_init n) (leaf_forest n) (fun e => [e]) eq_refl S0 TI0)
    as [RT OK].
  fold (ids_ok chi late n (plr_of_list o)) in OK.
  destruct (uncapped_exact n norep chi late (plr_of_list o) Hd Hpos Hchi OK) as (_ & FL & WR & MX). cbn zeta in *.
  rewrite RT in FL, WR, MX.
  destruct net_totals as (T1 & T2 & T3).
  split; [exact OK|]. split; [|split].
  - rewrite FL. unfold sum_flops_of. rewrite (zsum_perm _ _ (Permutation_map _ Pord)). exact T1.
  - rewrite WR. f_equal. unfold sum_sizes_of. rewrite (zsum_perm _ _ (Permutation_map _ Pord)). exact T2.
  - rewrite MX. unfold max_sizes_of. rewrite (zmax_list_perm _ _ (Permutation_map _ Pord)).
    apply T3, zmax_list_nonneg.
Qed.

End Totals.

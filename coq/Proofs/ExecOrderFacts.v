(* ExecOrderFacts.v -- the LINEAR execution of the contraction program (Contractor.__call__:
   a dictionary of temporaries, operands popped, result stored) in ANY children-first
   order of the internal nodes computes, position by position, what the RECURSIVE
   evaluation run_root computes.  Part of C01 ("... for every traversal order"). *)
From Coq Require Import Lia Permutation.
From Ctg Require Import Base Net Einsum Program BaseFacts NetFacts SumOver TreeEval ProgramFacts.
Local Open Scope nat_scope.

(* =====================  subtrees of a tree with duplicate-free leaves  ===================== *)
Fixpoint subs (t : tree) : list tree :=
  t :: match t with Leaf _ => [] | Node l r => subs l ++ subs r end.
Definition child (q p : tree) : Prop :=
  match p with Leaf _ => False | Node l r => q = l \/ q = r end.
Definition is_leaf (q : tree) : Prop := match q with Leaf _ => True | Node _ _ => False end.
Definition is_node (q : tree) : Prop := match q with Leaf _ => False | Node _ _ => True end.

Definition tree_eq_dec : forall a b : tree, {a = b} + {a <> b}.
Proof. decide equality. apply Nat.eq_dec. Defined.

Lemma leaves_length t : length (leaves t) = nleaves t.
Proof. induction t as [k|l IHl r IHr]; cbn; [reflexivity|]. rewrite app_length. lia. Qed.
Lemma nleaves_pos t : 0 < nleaves t.
Proof. induction t; cbn; lia. Qed.
Lemma leaves_nonempty t : exists k, In k (leaves t).
Proof.
  pose proof (leaves_length t) as H. pose proof (nleaves_pos t) as P.
  destruct (leaves t) as [|k ks]; cbn in H; [lia|]. exists k. left; reflexivity.
Qed.

Lemma subs_self t : In t (subs t).
Proof. destruct t; left; reflexivity. Qed.
Lemma subs_nleaves t : forall a, In a (subs t) -> nleaves a <= nleaves t.
Proof.
  induction t as [k|l IHl r IHr]; intros a; cbn [subs nleaves].
  - intros [<-|[]]. cbn. lia.
  - rewrite app_nil_l || idtac. intros [<-|H]; [cbn; lia|].
    apply in_app_or in H. destruct H as [H|H]; [apply IHl in H|apply IHr in H]; lia.
Qed.
Lemma subs_leaves t : forall a, In a (subs t) -> incl (leaves a) (leaves t).
Proof.
  induction t as [k|l IHl r IHr]; intros a; cbn [subs leaves].
  - intros [<-|[]]. apply incl_refl.
  - intros [<-|H]; [apply incl_refl|].
    apply in_app_or in H. destruct H as [H|H].
    + apply incl_appl, IHl, H.
    + apply incl_appr, IHr, H.
Qed.
Lemma subs_trans c : forall a b, In a (subs b) -> In b (subs c) -> In a (subs c).
Proof.
  induction c as [k|l IHl r IHr]; intros a b Ha; cbn [subs].
  - intros [<-|[]]. exact Ha.
  - intros [<-|H]; [exact Ha|]. right. apply in_or_app.
    apply in_app_or in H. destruct H as [H|H]; [left; apply (IHl a b Ha H)|right; apply (IHr a b Ha H)].
Qed.
Lemma child_subs q p : child q p -> In q (subs p).
Proof.
  destruct p as [k|l r]; cbn [child subs]; [intros []|].
  intros [-> | ->]; right; apply in_or_app; [left|right]; apply subs_self.
Qed.
Lemma child_nleaves q p : child q p -> nleaves q < nleaves p.
Proof.
  destruct p as [k|l r]; cbn [child nleaves]; [intros []|].
  pose proof (nleaves_pos l). pose proof (nleaves_pos r). intros [-> | ->]; lia.
Qed.
Lemma child_in_subs t q p : In p (subs t) -> child q p -> In q (subs t).
Proof. intros Hp Hc. apply (subs_trans t q p); [apply child_subs, Hc|exact Hp]. Qed.

Lemma NoDup_app_disj {A} (a b : list A) x : NoDup (a ++ b) -> In x a -> In x b -> False.
Proof.
  induction a as [|y a IH]; cbn; intros ND Ha Hb; [exact Ha|].
  inversion ND as [|? ? Hn ND']; subst. destruct Ha as [->|Ha].
  - apply Hn, in_or_app. right; exact Hb.
  - apply (IH ND' Ha Hb).
Qed.

Lemma subs_disjoint l r a b : NoDup (leaves l ++ leaves r) ->
  In a (subs l) -> In b (subs r) -> leaves a <> leaves b.
Proof.
  intros ND Ha Hb E. destruct (leaves_nonempty a) as [k Hk].
  apply (NoDup_app_disj _ _ k ND).
  - apply (subs_leaves l a Ha), Hk.
  - apply (subs_leaves r b Hb). rewrite <- E. exact Hk.
Qed.

(* a subtree is identified by its leaf list *)
Lemma subs_inj t : NoDup (leaves t) -> forall a b, In a (subs t) -> In b (subs t) ->
  leaves a = leaves b -> a = b.
Proof.
  induction t as [k|l IHl r IHr]; intros ND a b; cbn [subs].
  - intros [<-|[]] [<-|[]] _. reflexivity.
  - cbn [leaves] in ND. destruct (NoDup_app_elim _ _ ND) as [NDl NDr].
    assert (Hbig : forall c, In c (subs l ++ subs r) -> leaves (Node l r) <> leaves c).
    { intros c Hc E. apply (f_equal (@length nat)) in E. rewrite !leaves_length in E. cbn [nleaves] in E.
      pose proof (nleaves_pos l). pose proof (nleaves_pos r).
      apply in_app_or in Hc. destruct Hc as [Hc|Hc]; apply subs_nleaves in Hc; lia. }
    intros [<-|Ha] [<-|Hb] E.
    + reflexivity.
    + exfalso. apply (Hbig b Hb E).
    + exfalso. apply (Hbig a Ha). symmetry; exact E.
    + apply in_app_or in Ha. apply in_app_or in Hb. destruct Ha as [Ha|Ha], Hb as [Hb|Hb].
      * apply (IHl NDl a b Ha Hb E).
      * exfalso. apply (subs_disjoint l r a b ND Ha Hb E).
      * exfalso. apply (subs_disjoint l r b a ND Hb Ha). symmetry; exact E.
      * apply (IHr NDr a b Ha Hb E).
Qed.

Lemma post_sub_iff t p : In p (post_sub t) <-> In p (subs t) /\ is_node p.
Proof.
  induction t as [k|l IHl r IHr]; cbn [post_sub subs].
  - split; [intros []|]. intros [[<-|[]] H]. exact H.
  - rewrite !in_app_iff, IHl, IHr. cbn [In]. rewrite in_app_iff. split.
    + intros [[H N]|[[H N]|[<-|[]]]]; (split; [|assumption || exact I]); auto.
    + intros [[<-|[H|H]] N]; auto.
Qed.
Lemma node_in_post_sub l r : In (Node l r) (post_sub (Node l r)).
Proof. cbn [post_sub]. rewrite !in_app_iff. right; right; left; reflexivity. Qed.

Lemma NoDup_post_sub t : NoDup (leaves t) -> NoDup (post_sub t).
Proof.
  induction t as [k|l IHl r IHr]; intros ND; cbn [post_sub]; [constructor|].
  cbn [leaves] in ND. destruct (NoDup_app_elim _ _ ND) as [NDl NDr].
  rewrite app_assoc. apply NoDup_app_intro.
  - apply NoDup_app_intro; [apply IHl, NDl|apply IHr, NDr|].
    intros x Hl Hr. apply post_sub_iff in Hl. apply post_sub_iff in Hr.
    apply (subs_disjoint l r x x ND (proj1 Hl) (proj1 Hr)). reflexivity.
  - constructor; [intros []|constructor].
  - intros x Hx [<-|[]]. pose proof (nleaves_pos l). pose proof (nleaves_pos r).
    apply in_app_or in Hx. destruct Hx as [Hx|Hx]; apply post_sub_iff in Hx; destruct Hx as [Hx _];
      apply subs_nleaves in Hx; cbn [nleaves] in Hx; lia.
Qed.

(* each subtree is the child of at most one node of the tree *)
Lemma unique_parent t : NoDup (leaves t) -> forall q p p',
  In p (subs t) -> In p' (subs t) -> child q p -> child q p' -> p = p'.
Proof.
  induction t as [k|l IHl r IHr]; intros ND q p p'; cbn [subs].
  - intros [<-|[]] [<-|[]] _ _. reflexivity.
  - cbn [leaves] in ND. destruct (NoDup_app_elim _ _ ND) as [NDl NDr].
    assert (Hroot : forall p1, In p1 (subs l ++ subs r) -> child q (Node l r) -> child q p1 -> False).
    { intros p1 Hp1 Hc Hc1. pose proof (child_nleaves _ _ Hc1) as Hlt.
      apply in_app_or in Hp1. cbn [child] in Hc. destruct Hp1 as [Hp1|Hp1].
      - pose proof (subs_nleaves _ _ Hp1). destruct Hc as [-> | ->]; [lia|].
        apply (subs_disjoint l r r r ND); [|apply subs_self|reflexivity].
        apply (child_in_subs l r p1 Hp1 Hc1).
      - pose proof (subs_nleaves _ _ Hp1). destruct Hc as [-> | ->]; [|lia].
        apply (subs_disjoint l r l l ND); [apply subs_self| |reflexivity].
        apply (child_in_subs r l p1 Hp1 Hc1). }
    intros [<-|Hp] [<-|Hp'] Hc Hc'.
    + reflexivity.
    + exfalso. apply (Hroot p' Hp' Hc Hc').
    + exfalso. apply (Hroot p Hp Hc' Hc).
    + apply in_app_or in Hp. apply in_app_or in Hp'. destruct Hp as [Hp|Hp], Hp' as [Hp'|Hp'].
      * apply (IHl NDl q p p' Hp Hp' Hc Hc').
      * exfalso. apply (subs_disjoint l r q q ND); [| |reflexivity].
        -- apply (child_in_subs l q p Hp Hc).
        -- apply (child_in_subs r q p' Hp' Hc').
      * exfalso. apply (subs_disjoint l r q q ND); [| |reflexivity].
        -- apply (child_in_subs l q p' Hp' Hc').
        -- apply (child_in_subs r q p Hp Hc).
      * apply (IHr NDr q p p' Hp Hp' Hc Hc').
Qed.

(* =====================  valid (children-first) orders  ===================== *)
(* order = list of (isroot flag, internal node), as produced by ContractionTree.traverse *)
Definition valid_order (t : tree) (order : list (bool * tree)) : Prop :=
  Permutation (map snd order) (post_sub t)
  /\ (forall b q, In (b, q) order -> (b = true <-> q = t))
  /\ (forall pre b p suf, order = pre ++ (b, p) :: suf ->
        forall q, child q p -> is_leaf q \/ In q (map snd pre)).

(* recursive form of "children first" *)
Fixpoint cfirst (seen : list tree) (o : list tree) : Prop :=
  match o with
  | [] => True
  | p :: o' => (forall q, child q p -> is_leaf q \/ In q seen) /\ cfirst (p :: seen) o'
  end.
Lemma cfirst_mono o : forall s1 s2, incl s1 s2 -> cfirst s1 o -> cfirst s2 o.
Proof.
  induction o as [|p o IH]; intros s1 s2 Hi; cbn [cfirst]; [trivial|].
  intros [H1 H2]. split.
  - intros q Hq. destruct (H1 q Hq) as [H|H]; [left; exact H|right; apply Hi, H].
  - apply (IH (p :: s1)); [|exact H2]. intros x [->|Hx]; [left; reflexivity|right; apply Hi, Hx].
Qed.
Lemma cfirst_app a : forall b seen, cfirst seen a -> cfirst (rev a ++ seen) b -> cfirst seen (a ++ b).
Proof.
  induction a as [|p a IH]; intros b seen; cbn [cfirst app rev]; [intros _ H; exact H|].
  intros [H1 H2] Hb. split; [exact H1|]. apply IH; [exact H2|].
  rewrite <- app_assoc in Hb. exact Hb.
Qed.
Lemma cfirst_split o : forall seen, cfirst seen o -> forall pre p suf, o = pre ++ p :: suf ->
  forall q, child q p -> is_leaf q \/ In q seen \/ In q pre.
Proof.
  induction o as [|x o IH]; intros seen Hc pre p suf E q Hq.
  - destruct pre; discriminate.
  - cbn [cfirst] in Hc. destruct Hc as [H1 H2]. destruct pre as [|y pre]; cbn [app] in E.
    + injection E as -> ->. destruct (H1 q Hq) as [H|H]; auto.
    + injection E as -> ->. destruct (IH (y :: seen) H2 pre p suf eq_refl q Hq) as [H|[[->|H]|H]]; cbn [In]; auto.
Qed.
Lemma cfirst_post_sub t : forall seen, cfirst seen (post_sub t).
Proof.
  induction t as [k|l IHl r IHr]; intros seen; cbn [post_sub cfirst]; [exact I|].
  apply cfirst_app; [apply IHl|]. apply cfirst_app; [apply IHr|].
  cbn [cfirst]. split; [|exact I]. intros q [-> | ->].
  - destruct l as [k|a b]; [left; exact I|right].
    apply in_or_app. right. apply in_or_app. left. rewrite <- in_rev. apply node_in_post_sub.
  - destruct r as [k|a b]; [left; exact I|right].
    apply in_or_app. left. rewrite <- in_rev. apply node_in_post_sub.
Qed.

(* O2: the depth-first traversal is a valid order *)
Theorem traverse_dfs_valid l r : NoDup (leaves (Node l r)) ->
  valid_order (Node l r) (traverse_dfs (Node l r)).
Proof.
  intros ND. split; [|split].
  - rewrite traverse_dfs_snd. apply Permutation_refl.
  - intros b q. cbn [traverse_dfs]. rewrite in_app_iff, in_map_iff. cbn [In].
    intros [[x [E Hx]]|[E|[]]].
    + injection E as <- <-. split; [discriminate|]. intros ->. exfalso.
      pose proof (nleaves_pos l). pose proof (nleaves_pos r).
      apply in_app_or in Hx. destruct Hx as [Hx|Hx]; apply post_sub_iff in Hx; destruct Hx as [Hx _];
        apply subs_nleaves in Hx; cbn [nleaves] in Hx; lia.
    + injection E as <- <-. split; reflexivity.
  - intros pre b p suf E q Hq.
    assert (E' : post_sub (Node l r) = map snd pre ++ p :: map snd suf).
    { rewrite <- traverse_dfs_snd, E, map_app. reflexivity. }
    destruct (cfirst_split _ [] (cfirst_post_sub (Node l r) []) _ _ _ E' q Hq) as [H|[[]|H]]; auto.
Qed.

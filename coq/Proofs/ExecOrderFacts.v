(* ExecOrderFacts.v -- the LINEAR execution of the contraction program (Contractor.__call__:
   a dictionary of temporaries, operands popped, result stored) in ANY children-first
   order of the internal nodes computes, position by position, what the RECURSIVE
   evaluation run_root computes.  Part of C01 ("... for every traversal order"). *)
From Coq Require Import Lia Permutation.
From Ctg Require Import Base Net Einsum Program BaseFacts NetFacts SumOver TreeEval ProgramFacts.
Local Open Scope nat_scope.

(* =====================  subtrees of a tree with duplicate-free leaves  ===================== *)
Fixpoint subs (t : tree) : list tree :=
  t :: match t with Leaf _ => [] | Node l r => subs l ++ subs r end.
Definition child (q p : tree) : Prop :=
  match p with Leaf _ => False | Node l r => q = l \/ q = r end.
Definition is_leaf (q : tree) : Prop := match q with Leaf _ => True | Node _ _ => False end.
Definition is_node (q : tree) : Prop := match q with Leaf _ => False | Node _ _ => True end.

Definition tree_eq_dec : forall a b : tree, {a = b} + {a <> b}.
Proof. decide equality. apply Nat.eq_dec. Defined.

Lemma leaves_length t : length (leaves t) = nleaves t.
Proof. induction t as [k|l IHl r IHr]; cbn; [reflexivity|]. rewrite app_length. lia. Qed.
Lemma nleaves_pos t : 0 < nleaves t.
Proof. induction t; cbn; lia. Qed.
Lemma leaves_nonempty t : exists k, In k (leaves t).
Proof.
  pose proof (leaves_length t) as H. pose proof (nleaves_pos t) as P.
  destruct (leaves t) as [|k ks]; cbn in H; [lia|]. exists k. left; reflexivity.
Qed.

Lemma subs_self t : In t (subs t).
Proof. destruct t; left; reflexivity. Qed.
Lemma subs_nleaves t : forall a, In a (subs t) -> nleaves a <= nleaves t.
Proof.
  induction t as [k|l IHl r IHr]; intros a; cbn [subs nleaves].
  - intros [<-|[]]. cbn. lia.
  - rewrite app_nil_l || idtac. intros [<-|H]; [cbn; lia|].
    apply in_app_or in H. destruct H as [H|H]; [apply IHl in H|apply IHr in H]; lia.
Qed.
Lemma subs_leaves t : forall a, In a (subs t) -> incl (leaves a) (leaves t).
Proof.
  induction t as [k|l IHl r IHr]; intros a; cbn [subs leaves].
  - intros [<-|[]]. apply incl_refl.
  - intros [<-|H]; [apply incl_refl|].
    apply in_app_or in H. destruct H as [H|H].
    + apply incl_appl, IHl, H.
    + apply incl_appr, IHr, H.
Qed.
Lemma subs_trans c : forall a b, In a (subs b) -> In b (subs c) -> In a (subs c).
Proof.
  induction c as [k|l IHl r IHr]; intros a b Ha; cbn [subs].
  - intros [<-|[]]. exact Ha.
  - intros [<-|H]; [exact Ha|]. right. apply in_or_app.
    apply in_app_or in H. destruct H as [H|H]; [left; apply (IHl a b Ha H)|right; apply (IHr a b Ha H)].
Qed.
Lemma child_subs q p : child q p -> In q (subs p).
Proof.
  destruct p as [k|l r]; cbn [child subs]; [intros []|].
  intros [-> | ->]; right; apply in_or_app; [left|right]; apply subs_self.
Qed.
Lemma child_nleaves q p : child q p -> nleaves q < nleaves p.
Proof.
  destruct p as [k|l r]; cbn [child nleaves]; [intros []|].
  pose proof (nleaves_pos l). pose proof (nleaves_pos r). intros [-> | ->]; lia.
Qed.
Lemma child_in_subs t q p : In p (subs t) -> child q p -> In q (subs t).
Proof. intros Hp Hc. apply (subs_trans t q p); [apply child_subs, Hc|exact Hp]. Qed.

Lemma NoDup_app_disj {A} (a b : list A) x : NoDup (a ++ b) -> In x a -> In x b -> False.
Proof.
  induction a as [|y a IH]; cbn; intros ND Ha Hb; [exact Ha|].
  inversion ND as [|? ? Hn ND']; subst. destruct Ha as [->|Ha].
  - apply Hn, in_or_app. right; exact Hb.
  - apply (IH ND' Ha Hb).
Qed.

Lemma subs_disjoint l r a b : NoDup (leaves l ++ leaves r) ->
  In a (subs l) -> In b (subs r) -> leaves a <> leaves b.
Proof.
  intros ND Ha Hb E. destruct (leaves_nonempty a) as [k Hk].
  apply (NoDup_app_disj _ _ k ND).
  - apply (subs_leaves l a Ha), Hk.
  - apply (subs_leaves r b Hb). rewrite <- E. exact Hk.
Qed.

(* a subtree is identified by its leaf list *)
Lemma subs_inj t : NoDup (leaves t) -> forall a b, In a (subs t) -> In b (subs t) ->
  leaves a = leaves b -> a = b.
Proof.
  induction t as [k|l IHl r IHr]; intros ND a b; cbn [subs].
  - intros [<-|[]] [<-|[]] _. reflexivity.
  - cbn [leaves] in ND. destruct (NoDup_app_elim _ _ ND) as [NDl NDr].
    assert (Hbig : forall c, In c (subs l ++ subs r) -> leaves (Node l r) <> leaves c).
    { intros c Hc E. apply (f_equal (@length nat)) in E. rewrite !leaves_length in E. cbn [nleaves] in E.
      pose proof (nleaves_pos l). pose proof (nleaves_pos r).
      apply in_app_or in Hc. destruct Hc as [Hc|Hc]; apply subs_nleaves in Hc; lia. }
    intros [<-|Ha] [<-|Hb] E.
    + reflexivity.
    + exfalso. apply (Hbig b Hb E).
    + exfalso. apply (Hbig a Ha). symmetry; exact E.
    + apply in_app_or in Ha. apply in_app_or in Hb. destruct Ha as [Ha|Ha], Hb as [Hb|Hb].
      * apply (IHl NDl a b Ha Hb E).
      * exfalso. apply (subs_disjoint l r a b ND Ha Hb E).
      * exfalso. apply (subs_disjoint l r b a ND Hb Ha). symmetry; exact E.
      * apply (IHr NDr a b Ha Hb E).
Qed.

Lemma post_sub_iff t p : In p (post_sub t) <-> In p (subs t) /\ is_node p.
Proof.
  induction t as [k|l IHl r IHr]; cbn [post_sub subs].
  - split; [intros []|]. intros [[<-|[]] H]. exact H.
  - rewrite !in_app_iff, IHl, IHr. cbn [In]. rewrite in_app_iff. split.
    + intros [[H N]|[[H N]|[<-|[]]]]; (split; [|assumption || exact I]); auto.
    + intros [[<-|[H|H]] N]; auto.
Qed.
Lemma node_in_post_sub l r : In (Node l r) (post_sub (Node l r)).
Proof. cbn [post_sub]. rewrite !in_app_iff. right; right; left; reflexivity. Qed.

Lemma NoDup_post_sub t : NoDup (leaves t) -> NoDup (post_sub t).
Proof.
  induction t as [k|l IHl r IHr]; intros ND; cbn [post_sub]; [constructor|].
  cbn [leaves] in ND. destruct (NoDup_app_elim _ _ ND) as [NDl NDr].
  rewrite app_assoc. apply NoDup_app_intro.
  - apply NoDup_app_intro; [apply IHl, NDl|apply IHr, NDr|].
    intros x Hl Hr. apply post_sub_iff in Hl. apply post_sub_iff in Hr.
    apply (subs_disjoint l r x x ND (proj1 Hl) (proj1 Hr)). reflexivity.
  - constructor; [intros []|constructor].
  - intros x Hx [<-|[]]. pose proof (nleaves_pos l). pose proof (nleaves_pos r).
    apply in_app_or in Hx. destruct Hx as [Hx|Hx]; apply post_sub_iff in Hx; destruct Hx as [Hx _];
      apply subs_nleaves in Hx; cbn [nleaves] in Hx; lia.
Qed.

(* each subtree is the child of at most one node of the tree *)
Lemma unique_parent t : NoDup (leaves t) -> forall q p p',
  In p (subs t) -> In p' (subs t) -> child q p -> child q p' -> p = p'.
Proof.
  induction t as [k|l IHl r IHr]; intros ND q p p'; cbn [subs].
  - intros [<-|[]] [<-|[]] _ _. reflexivity.
  - cbn [leaves] in ND. destruct (NoDup_app_elim _ _ ND) as [NDl NDr].
    assert (Hroot : forall p1, In p1 (subs l ++ subs r) -> child q (Node l r) -> child q p1 -> False).
    { intros p1 Hp1 Hc Hc1. pose proof (child_nleaves _ _ Hc1) as Hlt.
      apply in_app_or in Hp1. cbn [child] in Hc. destruct Hp1 as [Hp1|Hp1].
      - pose proof (subs_nleaves _ _ Hp1). destruct Hc as [-> | ->]; [lia|].
        apply (subs_disjoint l r r r ND); [|apply subs_self|reflexivity].
        apply (child_in_subs l r p1 Hp1 Hc1).
      - pose proof (subs_nleaves _ _ Hp1). destruct Hc as [-> | ->]; [|lia].
        apply (subs_disjoint l r l l ND); [apply subs_self| |reflexivity].
        apply (child_in_subs r l p1 Hp1 Hc1). }
    intros [<-|Hp] [<-|Hp'] Hc Hc'.
    + reflexivity.
    + exfalso. apply (Hroot p' Hp' Hc Hc').
    + exfalso. apply (Hroot p Hp Hc' Hc).
    + apply in_app_or in Hp. apply in_app_or in Hp'. destruct Hp as [Hp|Hp], Hp' as [Hp'|Hp'].
      * apply (IHl NDl q p p' Hp Hp' Hc Hc').
      * exfalso. apply (subs_disjoint l r q q ND); [| |reflexivity].
        -- apply (child_in_subs l q p Hp Hc).
        -- apply (child_in_subs r q p' Hp' Hc').
      * exfalso. apply (subs_disjoint l r q q ND); [| |reflexivity].
        -- apply (child_in_subs l q p' Hp' Hc').
        -- apply (child_in_subs r q p Hp Hc).
      * apply (IHr NDr q p p' Hp Hp' Hc Hc').
Qed.

(* =====================  valid (children-first) orders  ===================== *)
(* order = list of (isroot flag, internal node), as produced by ContractionTree.traverse *)
Definition valid_order (t : tree) (order : list (bool * tree)) : Prop :=
  Permutation (map snd order) (post_sub t)
  /\ (forall b q, In (b, q) order -> (b = true <-> q = t))
  /\ (forall pre b p suf, order = pre ++ (b, p) :: suf ->
        forall q, child q p -> is_leaf q \/ In q (map snd pre)).

(* recursive form of "children first" *)
Fixpoint cfirst (seen : list tree) (o : list tree) : Prop :=
  match o with
  | [] => True
  | p :: o' => (forall q, child q p -> is_leaf q \/ In q seen) /\ cfirst (p :: seen) o'
  end.
Lemma cfirst_mono o : forall s1 s2, incl s1 s2 -> cfirst s1 o -> cfirst s2 o.
Proof.
  induction o as [|p o IH]; intros s1 s2 Hi; cbn [cfirst]; [trivial|].
  intros [H1 H2]. split.
  - intros q Hq. destruct (H1 q Hq) as [H|H]; [left; exact H|right; apply Hi, H].
  - apply (IH (p :: s1)); [|exact H2]. intros x [->|Hx]; [left; reflexivity|right; apply Hi, Hx].
Qed.
Lemma cfirst_app a : forall b seen, cfirst seen a -> cfirst (rev a ++ seen) b -> cfirst seen (a ++ b).
Proof.
  induction a as [|p a IH]; intros b seen; cbn [cfirst app rev]; [intros _ H; exact H|].
  intros [H1 H2] Hb. split; [exact H1|]. apply IH; [exact H2|].
  rewrite <- app_assoc in Hb. exact Hb.
Qed.
Lemma cfirst_split o : forall seen, cfirst seen o -> forall pre p suf, o = pre ++ p :: suf ->
  forall q, child q p -> is_leaf q \/ In q seen \/ In q pre.
Proof.
  induction o as [|x o IH]; intros seen Hc pre p suf E q Hq.
  - destruct pre; discriminate.
  - cbn [cfirst] in Hc. destruct Hc as [H1 H2]. destruct pre as [|y pre]; cbn [app] in E.
    + injection E as -> ->. destruct (H1 q Hq) as [H|H]; auto.
    + injection E as -> ->. destruct (IH (y :: seen) H2 pre p suf eq_refl q Hq) as [H|[[->|H]|H]]; cbn [In]; auto.
Qed.
Lemma cfirst_post_sub t : forall seen, cfirst seen (post_sub t).
Proof.
  induction t as [k|l IHl r IHr]; intros seen; cbn [post_sub cfirst]; [exact I|].
  apply cfirst_app; [apply IHl|]. apply cfirst_app; [apply IHr|].
  cbn [cfirst]. split; [|exact I]. intros q [-> | ->].
  - destruct l as [k|a b]; [left; exact I|right].
    apply in_or_app. right. apply in_or_app. left. rewrite <- in_rev. apply node_in_post_sub.
  - destruct r as [k|a b]; [left; exact I|right].
    apply in_or_app. left. rewrite <- in_rev. apply node_in_post_sub.
Qed.

(* O2: the depth-first traversal is a valid order *)
Theorem traverse_dfs_valid l r : NoDup (leaves (Node l r)) ->
  valid_order (Node l r) (traverse_dfs (Node l r)).
Proof.
  intros ND. split; [|split].
  - rewrite traverse_dfs_snd. apply Permutation_refl.
  - intros b q. cbn [traverse_dfs]. rewrite in_app_iff, in_map_iff. cbn [In].
    intros [[x [E Hx]]|[E|[]]].
    + injection E as <- <-. split; [discriminate|]. intros ->. exfalso.
      pose proof (nleaves_pos l). pose proof (nleaves_pos r).
      apply in_app_or in Hx. destruct Hx as [Hx|Hx]; apply post_sub_iff in Hx; destruct Hx as [Hx _];
        apply subs_nleaves in Hx; cbn [nleaves] in Hx; lia.
    + injection E as <- <-. split; reflexivity.
  - intros pre b p suf E q Hq.
    assert (E' : post_sub (Node l r) = map snd pre ++ p :: map snd suf).
    { rewrite <- traverse_dfs_snd, E, map_app. reflexivity. }
    destruct (cfirst_split _ [] (cfirst_post_sub (Node l r) []) _ _ _ E' q Hq) as [H|[[]|H]]; auto.
Qed.

Lemma is_node_in_post_sub x : is_node x -> In x (post_sub x).
Proof. destruct x as [k|l r]; [intros []|intros _; apply node_in_post_sub]. Qed.

(* =====================  the dictionary of temporaries  ===================== *)
Lemma leqb_iff (a : list nat) : forall b, list_eqb Nat.eqb a b = true <-> a = b.
Proof.
  induction a as [|x a IH]; intros [|y b]; cbn [list_eqb].
  - split; reflexivity.
  - split; intros H; discriminate H.
  - split; intros H; discriminate H.
  - rewrite andb_true_iff, Nat.eqb_eq, IH. split.
    + intros [-> ->]. reflexivity.
    + intros E. injection E as -> ->. split; reflexivity.
Qed.

Lemma tget_tset_same k v tm : tget k (tset k v tm) = v.
Proof. unfold tset. cbn [tget]. rewrite (proj2 (leqb_iff k k) eq_refl). reflexivity. Qed.
Lemma tget_tdel_other k k' tm : k <> k' -> tget k (tdel k' tm) = tget k tm.
Proof.
  intros Hne. induction tm as [|[k1 v] tm IH]; cbn [tdel tget]; [reflexivity|].
  destruct (list_eqb Nat.eqb k1 k') eqn:E1.
  - apply leqb_iff in E1. subst k1. destruct (list_eqb Nat.eqb k' k) eqn:E2; [|reflexivity].
    apply leqb_iff in E2. congruence.
  - cbn [tget]. destruct (list_eqb Nat.eqb k1 k); [reflexivity|apply IH].
Qed.
Lemma tget_tset_other k k' v tm : k <> k' -> tget k (tset k' v tm) = tget k tm.
Proof.
  intros Hne. unfold tset. cbn [tget]. destruct (list_eqb Nat.eqb k' k) eqn:E.
  - apply leqb_iff in E. congruence.
  - apply tget_tdel_other, Hne.
Qed.

Section Run.
Variable n : net.
Variable sl : list slinfo.
Variable arr : nat -> ptensor.
Variable e0 : env.
Notation dim := (dim n).
Notation exec := (exec_instr n e0).

(* value stored by the tensordot (+ transpose) instruction of node (Node l r) *)
Definition tdot_val (b : bool) (l r : tree) (L R : sarr) : sarr :=
  let X := tdot L R (fst (tensordot_axes n sl (Node l r))) (snd (tensordot_axes n sl (Node l r))) in
  match tensordot_perm n sl b (Node l r) with Some pm => transpose X pm | None => X end.
(* value stored by the einsum instruction of node (Node l r) *)
Definition einsum_val (b : bool) (l r : tree) (L R : sarr) : sarr :=
  (map dim (inds n sl b (Node l r)),
   einsum2 n e0 (inds_sub n sl l) (inds_sub n sl r) (inds n sl b (Node l r)) (snd L) (snd R)).

(* ---------- phase 1: the pre-processing instructions (one per simplifiable leaf) ---------- *)
Definition pre_of (k : nat) : list instr :=
  match leaf_preproc n sl k with Some (term, kept) => [IPre k term kept] | None => [] end.
Definition pre_one (k : nat) (sa : sarr) : sarr :=
  match leaf_preproc n sl k with
  | Some (term, kept) => (map dim kept, einsum1 n e0 term kept (snd sa))
  | None => sa
  end.

Lemma pre_fold ks : NoDup ks -> forall tm k,
  tget [k] (fold_left exec (flat_map pre_of ks) tm) =
  if memb k ks then pre_one k (tget [k] tm) else tget [k] tm.
Proof.
  induction ks as [|x ks IH]; intros ND tm k; [reflexivity|].
  inversion ND as [|? ? Hn ND']; subst.
  change (memb k (x :: ks)) with (Nat.eqb k x || memb k ks)%bool.
  cbn [flat_map]. rewrite fold_left_app, (IH ND').
  assert (H1 : forall k', tget [k'] (fold_left exec (pre_of x) tm) =
                          if Nat.eqb k' x then pre_one x (tget [x] tm) else tget [k'] tm).
  { intros k'. unfold pre_of, pre_one. destruct (leaf_preproc n sl x) as [[term kept]|]; cbn [fold_left exec_instr].
    - destruct (Nat.eqb_spec k' x) as [->|Hne].
      + apply tget_tset_same.
      + apply tget_tset_other. intros E. injection E as E. exact (Hne E).
    - destruct (Nat.eqb_spec k' x) as [->|Hne]; reflexivity. }
  rewrite H1. destruct (Nat.eqb_spec k x) as [->|Hne]; cbn [orb].
  - rewrite (proj2 (memb_false x ks) Hn). reflexivity.
  - reflexivity.
Qed.

Lemma tget_init ks k : In k ks ->
  tget [k] (map (fun k => ([k], (map dim (term_sl n sl k), sliced_arr n sl arr e0 k))) ks) =
  (map dim (term_sl n sl k), sliced_arr n sl arr e0 k).
Proof.
  induction ks as [|x ks IH]; [intros []|]. intros Hin. cbn [map tget list_eqb].
  destruct (Nat.eqb_spec x k) as [->|Hne]; cbn [andb]; [reflexivity|].
  apply IH. destruct Hin as [E|H]; [congruence|exact H].
Qed.

Lemma leaf_shape_plain k : leaf_preproc n sl k = None -> lkeys (leaf_legs n sl k) = term_sl n sl k.
Proof.
  unfold leaf_preproc, leaf_legs. destruct (leaf_simplifiable n sl k) eqn:E; [discriminate|]. intros _.
  unfold leaf_simplifiable in E. apply orb_false_iff in E. destruct E as [E _].
  apply negb_false_iff, Nat.eqb_eq in E. apply legs_of_term_keys_nodup, E.
Qed.

(* after the pre-instructions every leaf holds its (pre-processed, sliced) tensor *)
Lemma leaves_ready t k : NoDup (leaves t) -> In k (leaves t) ->
  tget [k] (fold_left exec (pre_instrs n sl t) (init_temps n sl arr e0 t)) =
  (map dim (lkeys (leaf_legs n sl k)), leaf_tensor n sl arr e0 k).
Proof.
  intros ND Hk. change (pre_instrs n sl t) with (flat_map pre_of (leaves t)).
  rewrite (pre_fold _ ND), (proj2 (memb_In k (leaves t)) Hk). unfold init_temps.
  rewrite (tget_init _ _ Hk). unfold pre_one, leaf_tensor.
  destruct (leaf_preproc n sl k) as [[term kept]|] eqn:E.
  - assert (Ek : kept = lkeys (leaf_legs n sl k)).
    { unfold leaf_preproc in E. destruct (leaf_simplifiable n sl k); [|discriminate].
      injection E as _ E2. symmetry; exact E2. }
    rewrite Ek. reflexivity.
  - rewrite (leaf_shape_plain k E). reflexivity.
Qed.

Lemma einsum2_ext li ri pi (L L' R R' : ptensor) :
  (forall e : env, L (map e li) = L' (map e li)) -> (forall e : env, R (map e ri) = R' (map e ri)) ->
  forall pos, einsum2 n e0 li ri pi L R pos = einsum2 n e0 li ri pi L' R' pos.
Proof. intros HL HR pos. unfold einsum2. apply sum_over_ext. intros e. rewrite HL, HR. reflexivity. Qed.

(* ---------- phase 2: the contractions, in any valid order ---------- *)
Section Loop.
Variable pe : bool.                                  (* prefer_einsum *)
Variable PosOK : list nat -> list nat -> Prop.       (* shape -> position -> "position considered" *)
Hypothesis PosOK_map : forall (e : env) (li : list ix), PosOK (map dim li) (map e li).
Variable t : tree.
Hypothesis Ht : is_node t.
Hypothesis ND : NoDup (leaves t).

Definition sa_eq (a b : sarr) : Prop :=
  fst a = fst b /\ forall pos, PosOK (fst a) pos -> snd a pos = snd b pos.
Lemma sa_eq_refl a : sa_eq a a.
Proof. split; reflexivity. Qed.
Lemma sa_eq_trans a b c : sa_eq a b -> sa_eq b c -> sa_eq a c.
Proof.
  intros [H1 H2] [H3 H4]. split; [congruence|]. intros pos Hp.
  rewrite (H2 pos Hp). apply H4. rewrite <- H1. exact Hp.
Qed.

Hypothesis tdot_step_ok : pe = false -> forall b l r (L R : sarr),
  In (Node l r) (post_sub t) -> (b = true <-> Node l r = t) ->
  can_dot n sl b (Node l r) = true ->
  fst L = map dim (inds_sub n sl l) -> fst R = map dim (inds_sub n sl r) ->
  sa_eq (tdot_val b l r L R) (einsum_val b l r L R).

(* what the temporaries must hold for node q *)
Definition expv (q : tree) : sarr :=
  if tree_eq_dec q t then (map dim (lkeys (root_legs n sl)), run_root n sl arr e0 t)
  else (map dim (inds_sub n sl q), run_sub n sl arr e0 q).

Lemma expv_child p q : In p (subs t) -> child q p ->
  expv q = (map dim (inds_sub n sl q), run_sub n sl arr e0 q).
Proof.
  intros Hp Hc. unfold expv. destruct (tree_eq_dec q t) as [E|_]; [|reflexivity]. exfalso.
  apply child_nleaves in Hc. apply subs_nleaves in Hp. rewrite E in Hc. lia.
Qed.

(* invariant: every leaf and every processed node whose parent is not yet processed is
   present with the recursive value *)
Definition Inv (done : list tree) (tm : temps) : Prop :=
  forall q, In q (subs t) -> (is_leaf q \/ In q done) -> (forall p, In p done -> ~ child q p) ->
  sa_eq (tget (leaves q) tm) (expv q).

Lemma einsum_val_ok b l r L R : In (Node l r) (subs t) -> (b = true <-> Node l r = t) ->
  sa_eq L (expv l) -> sa_eq R (expv r) -> sa_eq (einsum_val b l r L R) (expv (Node l r)).
Proof.
  intros Hp Hb HL HR.
  rewrite (expv_child (Node l r) l Hp (or_introl eq_refl)) in HL.
  rewrite (expv_child (Node l r) r Hp (or_intror eq_refl)) in HR.
  destruct HL as [HL1 HL2], HR as [HR1 HR2]. cbn [fst snd] in HL1, HL2, HR1, HR2.
  assert (HL3 : forall e : env, snd L (map e (inds_sub n sl l)) = run_sub n sl arr e0 l (map e (inds_sub n sl l))).
  { intros e. apply HL2. rewrite HL1. apply PosOK_map. }
  assert (HR3 : forall e : env, snd R (map e (inds_sub n sl r)) = run_sub n sl arr e0 r (map e (inds_sub n sl r))).
  { intros e. apply HR2. rewrite HR1. apply PosOK_map. }
  unfold expv, einsum_val. destruct (tree_eq_dec (Node l r) t) as [E|NE].
  - assert (Eb : b = true) by (apply Hb; exact E). rewrite Eb, <- E. cbn [inds run_root].
    split; [reflexivity|]. cbn [fst snd]. intros pos _. apply einsum2_ext; assumption.
  - destruct b; [exfalso; apply NE, Hb; reflexivity|]. cbn [inds run_sub].
    split; [reflexivity|]. cbn [fst snd]. intros pos _. apply einsum2_ext; assumption.
Qed.

Lemma step_store done tm l r v : In (Node l r) (subs t) -> sa_eq v (expv (Node l r)) ->
  Inv done tm ->
  Inv (done ++ [Node l r]) (tset (leaves (Node l r)) v (tdel (leaves r) (tdel (leaves l) tm))).
Proof.
  intros Hp Hv HI q Hq Hld Hnp.
  destruct (tree_eq_dec q (Node l r)) as [->|Hne].
  - rewrite tget_tset_same. exact Hv.
  - assert (Hnc : ~ child q (Node l r)) by (apply Hnp, in_or_app; right; left; reflexivity).
    assert (Hl : In l (subs t)) by (apply (child_in_subs t l (Node l r) Hp); left; reflexivity).
    assert (Hr : In r (subs t)) by (apply (child_in_subs t r (Node l r) Hp); right; reflexivity).
    rewrite tget_tset_other by (intros E; apply Hne, (subs_inj t ND q (Node l r) Hq Hp E)).
    rewrite tget_tdel_other by (intros E; apply Hnc; right; apply (subs_inj t ND q r Hq Hr E)).
    rewrite tget_tdel_other by (intros E; apply Hnc; left; apply (subs_inj t ND q l Hq Hl E)).
    apply HI; [exact Hq| |].
    + destruct Hld as [H|H]; [left; exact H|]. apply in_app_or in H.
      destruct H as [H|[H|[]]]; [right; exact H|]. exfalso. apply Hne. symmetry; exact H.
    + intros p' Hp'. apply Hnp, in_or_app. left; exact Hp'.
Qed.

Lemma step_instr done tm b p : In p (post_sub t) -> ~ In p done -> incl done (post_sub t) ->
  (b = true <-> p = t) -> (forall q, child q p -> is_leaf q \/ In q done) ->
  Inv done tm -> Inv (done ++ [p]) (fold_left exec (node_instr n sl pe (b, p)) tm).
Proof.
  intros Hp Hnd Hinc Hb Hch HI. pose proof Hp as Hpost. apply post_sub_iff in Hp. destruct Hp as [Hps Hn].
  destruct p as [k|l r]; [destruct Hn|].
  assert (Hl : In l (subs t)) by (apply (child_in_subs t l (Node l r) Hps); left; reflexivity).
  assert (Hr : In r (subs t)) by (apply (child_in_subs t r (Node l r) Hps); right; reflexivity).
  assert (Hpar : forall q, child q (Node l r) -> forall p', In p' done -> ~ child q p').
  { intros q Hq p' Hp' Hc. apply Hnd.
    assert (E : p' = Node l r).
    { apply (unique_parent t ND q p' (Node l r)); [|exact Hps|exact Hc|exact Hq].
      apply post_sub_iff, Hinc, Hp'. }
    rewrite <- E. exact Hp'. }
  assert (HL : sa_eq (tget (leaves l) tm) (expv l)).
  { apply HI; [exact Hl|apply Hch; left; reflexivity|apply Hpar; left; reflexivity]. }
  assert (HR : sa_eq (tget (leaves r) tm) (expv r)).
  { apply HI; [exact Hr|apply Hch; right; reflexivity|apply Hpar; right; reflexivity]. }
  pose proof (einsum_val_ok b l r _ _ Hps Hb HL HR) as Hev.
  unfold node_instr. cbn [snd fst].
  destruct (pe || negb (can_dot n sl b (Node l r)))%bool eqn:E; cbn [fold_left exec_instr].
  - apply (step_store done tm l r (einsum_val b l r (tget (leaves l) tm) (tget (leaves r) tm)) Hps Hev HI).
  - apply orb_false_iff in E. destruct E as [Epe Ecd]. apply negb_false_iff in Ecd.
    apply (step_store done tm l r (tdot_val b l r (tget (leaves l) tm) (tget (leaves r) tm)) Hps); [|exact HI].
    apply (sa_eq_trans _ (einsum_val b l r (tget (leaves l) tm) (tget (leaves r) tm))); [|exact Hev].
    apply (tdot_step_ok Epe b l r _ _ Hpost Hb Ecd).
    + destruct HL as [HL1 _]. rewrite HL1, (expv_child (Node l r) l Hps (or_introl eq_refl)). reflexivity.
    + destruct HR as [HR1 _]. rewrite HR1, (expv_child (Node l r) r Hps (or_intror eq_refl)). reflexivity.
Qed.

Definition okord (o : list (bool * tree)) : Prop :=
  incl (map snd o) (post_sub t) /\ NoDup (map snd o)
  /\ (forall b q, In (b, q) o -> (b = true <-> q = t))
  /\ (forall pre b p suf, o = pre ++ (b, p) :: suf ->
        forall q, child q p -> is_leaf q \/ In q (map snd pre)).
Lemma valid_okord o : valid_order t o -> okord o.
Proof.
  intros (H1 & H2 & H3). split; [|split; [|split]]; [| |exact H2|exact H3].
  - intros x Hx. apply (Permutation_in _ H1 Hx).
  - apply (Permutation_NoDup (Permutation_sym H1)), NoDup_post_sub, ND.
Qed.

Lemma loop rest : forall done tm, okord (done ++ rest) -> Inv (map snd done) tm ->
  Inv (map snd (done ++ rest)) (fold_left exec (flat_map (node_instr n sl pe) rest) tm).
Proof.
  induction rest as [|[b p] rest IH]; intros done tm Hok HI.
  - rewrite app_nil_r. exact HI.
  - assert (Eo : done ++ (b, p) :: rest = (done ++ [(b, p)]) ++ rest) by (rewrite <- app_assoc; reflexivity).
    cbn [flat_map]. rewrite fold_left_app, Eo. apply IH; [rewrite <- Eo; exact Hok|].
    destruct Hok as (H1 & H2 & H3 & H4). rewrite map_app. cbn [map snd].
    rewrite map_app in H1, H2. cbn [map snd] in H1, H2.
    apply step_instr.
    + apply H1, in_or_app. right; left; reflexivity.
    + apply NoDup_remove_2 in H2. intros Hin. apply H2, in_or_app. left; exact Hin.
    + intros x Hx. apply H1, in_or_app. left; exact Hx.
    + apply (H3 b p), in_or_app. right; left; reflexivity.
    + apply (H4 done b p rest eq_refl).
    + exact HI.
Qed.

Theorem exec_order_gen order : valid_order t order ->
  sa_eq (exec_program n sl arr e0 (program n sl pe t order) t)
        (map dim (lkeys (root_legs n sl)), run_root n sl arr e0 t).
Proof.
  intros Hv. unfold exec_program, program. rewrite fold_left_app.
  set (tm0 := fold_left exec (pre_instrs n sl t) (init_temps n sl arr e0 t)).
  assert (HI0 : Inv [] tm0).
  { intros q Hq [Hl|[]] _. destruct q as [k|a b]; [|destruct Hl]. cbn [leaves]. unfold tm0.
    rewrite (leaves_ready t k ND) by (apply (subs_leaves t _ Hq); left; reflexivity).
    unfold expv. destruct (tree_eq_dec (Leaf k) t) as [E|_].
    - pose proof Ht as Ht'. rewrite <- E in Ht'. destruct Ht'.
    - apply sa_eq_refl. }
  pose proof (loop order [] tm0 (valid_okord _ Hv) HI0) as HI. cbn [app map] in HI.
  specialize (HI t (subs_self t)). unfold expv in HI.
  destruct (tree_eq_dec t t) as [_|NE]; [|exfalso; apply NE; reflexivity].
  destruct Hv as (Hperm & _). apply HI.
  - right. apply (Permutation_in _ (Permutation_sym Hperm)), is_node_in_post_sub, Ht.
  - intros p Hp Hc. apply child_nleaves in Hc.
    apply (Permutation_in _ Hperm), post_sub_iff in Hp. destruct Hp as [Hp _].
    apply subs_nleaves in Hp. lia.
Qed.
End Loop.
End Run.

(* =====================  O1: einsum path, every valid order, every position  ===================== *)
Theorem exec_order_einsum n sl arr e0 l r order :
  NoDup (leaves (Node l r)) -> valid_order (Node l r) order ->
  fst (exec_program n sl arr e0 (program n sl true (Node l r) order) (Node l r))
    = map (dim n) (lkeys (root_legs n sl))
  /\ forall pos, snd (exec_program n sl arr e0 (program n sl true (Node l r) order) (Node l r)) pos
                 = run_root n sl arr e0 (Node l r) pos.
Proof.
  intros ND Hv.
  destruct (exec_order_gen n sl arr e0 true (fun _ _ => True) (fun _ _ => I) (Node l r) I ND
              (fun H => False_ind _ (Bool.diff_true_false H)) order Hv) as [H1 H2].
  split; [exact H1|]. intros pos. apply H2. exact I.
Qed.

(* =====================  O3: tensordot path, given the per-node step equivalence  =====================
   tdot_step_ok: for a node with can_dot, whose operands have the expected shapes, the value
   stored by tensordot(+transpose) has the shape of, and agrees at every position of the
   right length with, the value the einsum instruction would store. *)
Definition tdot_step_ok_at (n : net) (sl : list slinfo) (e0 : env) (t : tree) : Prop :=
  forall b l r (L R : sarr),
  In (Node l r) (post_sub t) -> (b = true <-> Node l r = t) ->
  can_dot n sl b (Node l r) = true ->
  fst L = map (dim n) (inds_sub n sl l) -> fst R = map (dim n) (inds_sub n sl r) ->
  fst (tdot_val n sl b l r L R) = map (dim n) (inds n sl b (Node l r))
  /\ forall pos, length pos = length (inds n sl b (Node l r)) ->
       snd (tdot_val n sl b l r L R) pos =
       einsum2 n e0 (inds_sub n sl l) (inds_sub n sl r) (inds n sl b (Node l r)) (snd L) (snd R) pos.

Theorem exec_order_any_pref n sl arr e0 pe l r order :
  NoDup (leaves (Node l r)) -> valid_order (Node l r) order ->
  tdot_step_ok_at n sl e0 (Node l r) ->
  fst (exec_program n sl arr e0 (program n sl pe (Node l r) order) (Node l r))
    = map (dim n) (lkeys (root_legs n sl))
  /\ forall pos, length pos = length (lkeys (root_legs n sl)) ->
       snd (exec_program n sl arr e0 (program n sl pe (Node l r) order) (Node l r)) pos
       = run_root n sl arr e0 (Node l r) pos.
Proof.
  intros ND Hv Hstep.
  destruct (exec_order_gen n sl arr e0 pe (fun shape pos => length pos = length shape)
              (fun e li => eq_trans (map_length e li) (eq_sym (map_length (dim n) li)))
              (Node l r) I ND) with (order := order) as [H1 H2].
  - intros _ b l' r' L R Hin Hb Hcd HL HR.
    destruct (Hstep b l' r' L R Hin Hb Hcd HL HR) as [S1 S2].
    split; [exact S1|]. intros pos Hpos. apply S2. cbv beta in Hpos. rewrite Hpos, S1. apply map_length.
  - exact Hv.
  - split; [exact H1|]. intros pos Hpos. apply H2. cbv beta. rewrite H1. rewrite Hpos. symmetry. apply map_length.
Qed.

(* =====================  end-to-end corollaries: linear execution = the einsum  ===================== *)
Lemma full_tree_NoDup n t : full_tree n t -> NoDup (leaves t).
Proof. intros H. apply (full_tree_inrange n t H). Qed.

Theorem exec_order_is_einsum n sl arr e0 l r order :
  wf_net n -> full_tree n (Node l r) -> valid_order (Node l r) order ->
  forall e, agree_removed sl e0 e ->
  snd (exec_program n sl arr e0 (program n sl true (Node l r) order) (Node l r)) (map e (out_inds n sl))
  = einsum_spec n sl arr e.
Proof.
  intros Hwf Hfull Hv e He.
  destruct (exec_order_einsum n sl arr e0 l r order (full_tree_NoDup n _ Hfull) Hv) as [_ H].
  rewrite H. apply run_root_correct; assumption.
Qed.

Theorem exec_order_any_pref_is_einsum n sl arr e0 pe l r order :
  wf_net n -> full_tree n (Node l r) -> valid_order (Node l r) order ->
  tdot_step_ok_at n sl e0 (Node l r) ->
  forall e, agree_removed sl e0 e ->
  snd (exec_program n sl arr e0 (program n sl pe (Node l r) order) (Node l r)) (map e (out_inds n sl))
  = einsum_spec n sl arr e.
Proof.
  intros Hwf Hfull Hv Hstep e He.
  destruct (exec_order_any_pref n sl arr e0 pe l r order (full_tree_NoDup n _ Hfull) Hv Hstep) as [_ H].
  rewrite H by (unfold out_inds; apply map_length). apply run_root_correct; assumption.
Qed.

(* =====================  a verified boolean checker for valid orders  ===================== *)
Fixpoint tree_eqb (a b : tree) : bool :=
  match a, b with
  | Leaf i, Leaf j => Nat.eqb i j
  | Node a1 a2, Node b1 b2 => tree_eqb a1 b1 && tree_eqb a2 b2
  | _, _ => false
  end.
Lemma tree_eqb_iff a : forall b, tree_eqb a b = true <-> a = b.
Proof.
  induction a as [i|a1 IH1 a2 IH2]; intros [j|b1 b2]; cbn [tree_eqb].
  - rewrite Nat.eqb_eq. split; [intros ->; reflexivity|intros E; injection E as ->; reflexivity].
  - split; intros H; discriminate H.
  - split; intros H; discriminate H.
  - rewrite andb_true_iff, IH1, IH2. split; [intros [-> ->]; reflexivity|].
    intros E. injection E as -> ->. split; reflexivity.
Qed.
Definition tmemb (q : tree) (l : list tree) : bool := existsb (tree_eqb q) l.
Lemma tmemb_In q l : tmemb q l = true -> In q l.
Proof.
  unfold tmemb. rewrite existsb_exists. intros [x [Hx E]]. apply tree_eqb_iff in E. subst x. exact Hx.
Qed.
Fixpoint tnodup_b (l : list tree) : bool :=
  match l with [] => true | x :: l' => negb (tmemb x l') && tnodup_b l' end.
Lemma tnodup_b_sound l : tnodup_b l = true -> NoDup l.
Proof.
  induction l as [|x l IH]; cbn [tnodup_b]; [constructor|].
  rewrite andb_true_iff, negb_true_iff. intros [H1 H2]. constructor; [|apply IH, H2].
  intros Hin. assert (E : tmemb x l = true); [|congruence].
  unfold tmemb. apply existsb_exists. exists x. split; [exact Hin|apply tree_eqb_iff; reflexivity].
Qed.
Definition child_ok_b (seen : list tree) (q : tree) : bool :=
  match q with Leaf _ => true | Node _ _ => tmemb q seen end.
Fixpoint cfirst_b (seen : list tree) (o : list tree) : bool :=
  match o with
  | [] => true
  | p :: o' =>
      match p with Leaf _ => true | Node l r => child_ok_b seen l && child_ok_b seen r end
      && cfirst_b (p :: seen) o'
  end.
Lemma child_ok_b_sound seen q : child_ok_b seen q = true -> is_leaf q \/ In q seen.
Proof. destruct q as [k|a b]; cbn [child_ok_b]; [left; exact I|]. intros H. right. apply tmemb_In, H. Qed.
Lemma cfirst_b_sound o : forall seen, cfirst_b seen o = true -> cfirst seen o.
Proof.
  induction o as [|p o IH]; intros seen; cbn [cfirst_b cfirst]; [trivial|].
  rewrite andb_true_iff. intros [H1 H2]. split; [|apply IH, H2].
  destruct p as [k|l r]; cbn [child]; [intros q []|].
  apply andb_true_iff in H1. destruct H1 as [Hl Hr].
  intros q [-> | ->]; apply child_ok_b_sound; assumption.
Qed.
Definition valid_order_b (t : tree) (order : list (bool * tree)) : bool :=
  Nat.eqb (length order) (length (post_sub t))
  && forallb (fun q => tmemb q (post_sub t)) (map snd order)
  && tnodup_b (map snd order)
  && forallb (fun bq => Bool.eqb (fst bq) (tree_eqb (snd bq) t)) order
  && cfirst_b [] (map snd order).

Theorem valid_order_b_sound t order : valid_order_b t order = true -> valid_order t order.
Proof.
  unfold valid_order_b. rewrite !andb_true_iff. intros [[[[H1 H2] H3] H4] H5].
  apply Nat.eqb_eq in H1. split; [|split].
  - apply NoDup_Permutation_bis.
    + apply tnodup_b_sound, H3.
    + rewrite map_length. rewrite H1. apply le_n.
    + intros x Hx. rewrite forallb_forall in H2. apply tmemb_In, H2, Hx.
  - intros b q Hin. rewrite forallb_forall in H4. specialize (H4 _ Hin). cbn [fst snd] in H4.
    apply Bool.eqb_prop in H4. rewrite H4. apply tree_eqb_iff.
  - intros pre b p suf E q Hq.
    assert (E' : map snd order = map snd pre ++ p :: map snd suf) by (rewrite E, map_app; reflexivity).
    destruct (cfirst_split _ [] (cfirst_b_sound _ [] H5) _ _ _ E' q Hq) as [H|[[]|H]]; auto.
Qed.

(* =====================  GLUE with Proofs/TdotFacts.v (builder c01td)  =====================
   NOT compiled here because TdotFacts.v lives on another branch.  The following was compiled
   (Coq 8.16.1, "Closed under the global context") against c01td commit 693f0da with
     From Ctg Require Import ... ExecOrderFacts TdotFacts.
   It discharges the hypothesis tdot_step_ok_at (from node_exec_is_einsum) and yields the
   UNCONDITIONAL theorem: any valid order, any prefer_einsum, linear execution = einsum.
   After merging both branches, paste into a new file (e.g. Proofs/ExecOrderTdot.v):

Lemma NoDup_root_inds n sl : NoDup (output n) -> NoDup (lkeys (root_legs n sl)).
Proof.
  intros H. unfold root_legs, lkeys. rewrite map_map. cbn [fst]. rewrite map_id.
  apply NoDup_filter, H.
Qed.

Theorem tdot_step_ok_holds n sl e0 t : inrange n (leaves t) -> NoDup (output n) ->
  tdot_step_ok_at n sl e0 t.
Proof.
  intros HR HO b l r L R Hin Hb Hcd HsL HsR.
  destruct (post_sub_inrange n t HR _ Hin) as (l' & r' & E & HR2). injection E as <- <-.
  assert (NDp : NoDup (inds n sl b (Node l r))).
  { destruct b; cbn [inds]; [apply NoDup_root_inds, HO|apply (inds_sub_spec n sl (Node l r)), HR2]. }
  assert (Ev : node_exec n sl e0 false b l r L R = tdot_val n sl b l r L R).
  { unfold node_exec, tdot_val. rewrite Hcd. reflexivity. }
  pose proof (node_exec_is_einsum n sl e0 false b l r L R HR2 NDp HsL HsR) as [H1 H2].
  rewrite Ev in H1, H2. cbn [fst snd] in H1, H2.
  split; [exact H1|]. intros pos Hpos. apply H2.
  rewrite H1. rewrite Hpos. symmetry. apply map_length.
Qed.

Theorem exec_any_order_any_pref_is_einsum n sl arr e0 pe l r order :
  wf_net n -> full_tree n (Node l r) -> valid_order (Node l r) order ->
  forall e, agree_removed sl e0 e ->
  snd (exec_program n sl arr e0 (program n sl pe (Node l r) order) (Node l r)) (map e (out_inds n sl))
  = einsum_spec n sl arr e.
Proof.
  intros Hwf Hfull Hv. apply exec_order_any_pref_is_einsum; try assumption.
  apply tdot_step_ok_holds; [apply full_tree_inrange, Hfull|apply Hwf].
Qed.
*)

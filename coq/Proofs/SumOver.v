
(* SumOver.v -- algebra of iterated finite sums (Fubini, factoring, products of
   independent sums).  Basis of the semantic theorems of C01. *)
From Coq Require Import List Arith ZArith Lia Permutation.
From Ctg Require Import Base Net Einsum.
Import ListNotations.
Open Scope Z_scope.

Section S.
Variable size : ix -> nat.


Lemma sumn_ext n f g : (forall v, (v < n)%nat -> f v = g v) -> sumn n f = sumn n g.
Proof. induction n as [|n IH]; cbn; intros H; [reflexivity|]. rewrite IH, H by (intros; try apply H; lia). reflexivity. Qed.

Lemma sumn_scale n c f : c * sumn n f = sumn n (fun v => c * f v).
Proof. induction n as [|n IH]; cbn; [lia|]. rewrite <- IH. lia. Qed.

Lemma sumn_add n f g : sumn n f + sumn n g = sumn n (fun v => f v + g v).
Proof. induction n as [|n IH]; cbn; [lia|]. rewrite <- IH. lia. Qed.

Lemma sumn_zero n : sumn n (fun _ => 0) = 0.
Proof. induction n; cbn; lia. Qed.

Lemma sumn_swap n m (f : nat -> nat -> Z) :
  sumn n (fun a => sumn m (fun b => f a b)) = sumn m (fun b => sumn n (fun a => f a b)).
Proof.
  induction n as [|n IH]; cbn.
  - symmetry. apply sumn_zero.
  - rewrite IH. rewrite sumn_add. reflexivity.
Qed.


Definition env_eq (e1 e2 : env) := forall k, e1 k = e2 k.
Definition respects (F : env -> Z) := forall e1 e2, env_eq e1 e2 -> F e1 = F e2.

Lemma sum_over_ext js : forall e F G, (forall e', F e' = G e') -> sum_over size js e F = sum_over size js e G.
Proof. induction js as [|j js IH]; cbn; intros e F G H; [apply H|]. apply sumn_ext; intros; apply IH, H. Qed.

Lemma sum_over_env js : forall e1 e2 F, respects F -> env_eq e1 e2 -> sum_over size js e1 F = sum_over size js e2 F.
Proof.
  induction js as [|j js IH]; cbn; intros e1 e2 F HF He; [apply HF, He|].
  apply sumn_ext; intros v _. apply IH; [exact HF|]. intros k. unfold upd. destruct (Nat.eqb k j); auto.
Qed.

Lemma upd_comm e a b va vb : a <> b -> env_eq (upd (upd e a va) b vb) (upd (upd e b vb) a va).
Proof. intros H k. unfold upd. destruct (Nat.eqb_spec k b), (Nat.eqb_spec k a); subst; congruence. Qed.

Lemma sum_over_swap a b js e F : respects F -> a <> b ->
  sum_over size (a :: b :: js) e F = sum_over size (b :: a :: js) e F.
Proof.
  intros HF Hab. cbn. rewrite sumn_swap. apply sumn_ext; intros vb _. apply sumn_ext; intros va _.
  apply sum_over_env; [exact HF|]. apply upd_comm, Hab.
Qed.

Lemma sum_over_perm js js' : Permutation js js' -> NoDup js -> forall e F, respects F ->
  sum_over size js e F = sum_over size js' e F.
Proof.
  induction 1 as [| x l l' HP IH | x y l | l l' l'' HP1 IH1 HP2 IH2]; intros ND e F HF.
  - reflexivity.
  - cbn. inversion ND; subst. apply sumn_ext; intros; apply IH; assumption.
  - inversion ND as [|? ? Hnin ND']; subst. apply sum_over_swap; [exact HF|]. intros ->. apply Hnin. left; reflexivity.
  - rewrite IH1 by assumption. apply IH2; [|exact HF]. eapply Permutation_NoDup; eassumption.
Qed.

Lemma sum_over_app js1 : forall js2 e F,
  sum_over size (js1 ++ js2) e F = sum_over size js1 e (fun e' => sum_over size js2 e' F).
Proof. induction js1 as [|j js1 IH]; cbn; intros; [reflexivity|]. apply sumn_ext; intros; apply IH. Qed.

Definition indep (F : env -> Z) (js : list ix) :=
  forall e1 e2, (forall k, ~ In k js -> e1 k = e2 k) -> F e1 = F e2.

Lemma sum_over_factor js : forall e F G, indep F js ->
  sum_over size js e (fun e' => F e' * G e') = F e * sum_over size js e G.
Proof.
  induction js as [|j js IH]; cbn; intros e F G HI; [reflexivity|].
  rewrite sumn_scale. apply sumn_ext; intros v _.
  rewrite IH.
  - f_equal. apply HI. intros k Hk. unfold upd. destruct (Nat.eqb_spec k j); [subst; exfalso; apply Hk; left; reflexivity | reflexivity].
  - intros e1 e2 H. apply HI. intros k Hk. apply H. intros Hin. apply Hk. right; exact Hin.
Qed.

Lemma sum_over_respects js F : respects F -> respects (fun e => sum_over size js e F).
Proof. intros HF e1 e2 He. apply sum_over_env; assumption. Qed.

Lemma sum_over_indep js F ks : indep F ks -> indep (fun e => sum_over size js e F) ks.
Proof.
  revert F; induction js as [|j js IH]; cbn; intros F HI e1 e2 H; [apply HI, H|].
  apply sumn_ext; intros v _. apply (IH F HI). intros k Hk. unfold upd. destruct (Nat.eqb k j); auto.
Qed.

(* product of two sums over independent index lists *)
Lemma sum_over_mul A B e F G : indep F B -> indep G A -> respects G ->
  sum_over size A e F * sum_over size B e G = sum_over size (A ++ B) e (fun e' => F e' * G e').
Proof.
  intros HF HG RG. rewrite sum_over_app.
  transitivity (sum_over size A e (fun e' => F e' * sum_over size B e' G)).
  - rewrite Z.mul_comm.
    transitivity (sum_over size A e (fun e' => sum_over size B e' G * F e')).
    + symmetry. rewrite <- (sum_over_factor A e (fun e' => sum_over size B e' G) F).
      * reflexivity.
      * apply sum_over_indep, HG.
    + apply sum_over_ext; intros; lia.
  - apply sum_over_ext; intros e'. symmetry. apply sum_over_factor, HF.
Qed.
End S.

(* SimulatorsFacts.v -- the cost simulators of Model/Simulators.v compute the tree rule
   (Model/Net.v): annealing's compute_contracted_info, the processor's
   compute_contracted / compute_flops, and what simplify_batch does to tracked flops.
   (owner: builder c18c20) *)
From Coq Require Import Lia Permutation Sorted.
From Ctg Require Import Base Net HGraph Simulators Compressed BaseFacts NetFacts HGraphFacts.

(* ------------------------------------------------------------------ *)
(* generic helpers *)
Lemma size_of_app sz l1 l2 : size_of sz (l1 ++ l2) = (size_of sz l1 * size_of sz l2)%Z.
Proof. unfold size_of. rewrite map_app, zprod_app. reflexivity. Qed.

Lemma lget0_notin j (d : legs) : ~ In j (lkeys d) -> lget0 j d = 0.
Proof.
  intros H. unfold lget0. destruct (lget j d) eqn:E; [|reflexivity].
  exfalso. apply H, lget_in_keys. congruence.
Qed.

Lemma lmem_false_notin j (d : legs) : lmem j d = false <-> ~ In j (lkeys d).
Proof. rewrite <- lmem_in_keys. destruct (lmem j d); split; congruence. Qed.

Lemma lkeys_app (a b : legs) : lkeys (a ++ b) = lkeys a ++ lkeys b.
Proof. unfold lkeys. apply map_app. Qed.

Lemma lget0_cons_ne k c (l : legs) j : j <> k -> lget0 j ((k, c) :: l) = lget0 j l.
Proof. intros H. unfold lget0. cbn. destruct (Nat.eqb_spec k j); [congruence|reflexivity]. Qed.
Lemma lget0_cons_eq k c (l : legs) : lget0 k ((k, c) :: l) = c.
Proof. unfold lget0. cbn. rewrite Nat.eqb_refl. reflexivity. Qed.

(* ------------------------------------------------------------------ *)
(* the shape of core.legs_union for two operands with distinct keys:
   the left keys in order with summed counts, then the new right keys in order *)
Definition upd_with (b : legs) (kv : ix * nat) : ix * nat := (fst kv, snd kv + lget0 (fst kv) b).
Definition fresh_in (a : legs) (kv : ix * nat) : bool := negb (lmem (fst kv) a).

Lemma lmem_map_keys (f : ix * nat -> ix * nat) (a : legs) k :
  (forall kv, fst (f kv) = fst kv) -> lmem k (map f a) = lmem k a.
Proof.
  intros Hf. unfold lmem. induction a as [|[x y] a IH]; cbn; [reflexivity|].
  specialize (Hf (x, y)). destruct (f (x, y)) as [x' y']. cbn in Hf. subst x'.
  destruct (x =? k); [reflexivity|exact IH].
Qed.

Lemma lset_in_map j v (d : legs) : NoDup (lkeys d) -> In j (lkeys d) ->
  lset j v d = map (fun kv => if Nat.eqb (fst kv) j then (fst kv, v) else kv) d.
Proof.
  unfold lkeys. induction d as [|[k w] d IH]; cbn; intros ND Hin; [tauto|].
  inversion ND as [|? ? Hn ND']; subst.
  destruct (Nat.eqb_spec k j) as [->|Hkj].
  - f_equal. symmetry. rewrite <- (map_id d) at 2. apply map_ext_in. intros [k' w'] Hk'. cbn.
    destruct (Nat.eqb_spec k' j) as [->|]; [|reflexivity].
    exfalso. apply Hn. apply (in_map fst) in Hk'. exact Hk'.
  - f_equal. apply IH; [exact ND'|]. destruct Hin; [congruence|assumption].
Qed.

Lemma lset_notin j v (d : legs) : ~ In j (lkeys d) -> lset j v d = d ++ [(j, v)].
Proof.
  unfold lkeys. induction d as [|[k w] d IH]; cbn; intros Hn; [reflexivity|].
  destruct (Nat.eqb_spec k j) as [->|Hkj]; [tauto|]. f_equal. apply IH. tauto.
Qed.

Lemma legs_union2_shape (b : legs) : forall a, NoDup (lkeys a) -> NoDup (lkeys b) ->
  legs_union2 a b = map (upd_with b) a ++ filter (fresh_in a) b.
Proof.
  unfold legs_union2.
  induction b as [|[k w] b IH]; intros a NDa NDb; cbn [fold_left].
  - cbn. rewrite app_nil_r. rewrite <- (map_id a) at 1. apply map_ext. intros [k v]. unfold upd_with, lget0. cbn. f_equal. lia.
  - inversion NDb as [|? ? Hnb NDb']; subst. cbn [fst snd].
    assert (Hkb : lget0 k b = 0) by (apply lget0_notin, Hnb).
    rewrite IH; [|apply NoDup_lkeys_lset, NDa|exact NDb'].
    destruct (in_dec Nat.eq_dec k (lkeys a)) as [Hin|Hnin].
    + (* existing key: updated in place *)
      unfold ladd at 1 2. rewrite (lset_in_map k _ a NDa Hin).
      cbn [filter]. unfold fresh_in at 2. cbn [fst].
      assert (Hm : lmem k a = true) by (apply lmem_in_keys, Hin). rewrite Hm. cbn [negb].
      f_equal.
      * rewrite map_map. apply map_ext_in. intros [k' v'] Hk'. cbn [fst snd]. unfold upd_with. cbn [fst snd].
        destruct (Nat.eqb_spec k' k) as [->|Hne]; cbn [fst snd].
        -- rewrite lget0_cons_eq, Hkb.
           assert (lget0 k a = v') by (unfold lget0; rewrite (in_lget k v' a NDa Hk'); reflexivity).
           f_equal. lia.
        -- rewrite (lget0_cons_ne k w b k' Hne). reflexivity.
      * apply filter_ext. intros [k' w']. unfold fresh_in. cbn [fst]. f_equal.
        apply lmem_map_keys. intros [x y]. cbn. destruct (x =? k); reflexivity.
    + (* new key: appended *)
      unfold ladd at 1 2. rewrite (lset_notin k _ a Hnin), (lget0_notin k a Hnin). cbn [Nat.add].
      cbn [filter]. unfold fresh_in at 2. cbn [fst].
      assert (Hm : lmem k a = false) by (apply lmem_false_notin, Hnin). rewrite Hm. cbn [negb].
      rewrite map_app. cbn [map]. unfold upd_with at 2. cbn [fst snd]. rewrite Hkb, Nat.add_0_r.
      rewrite <- app_assoc. cbn [Datatypes.app]. f_equal.
      * apply map_ext_in. intros [k' v'] Hk'. unfold upd_with. cbn [fst snd]. f_equal. f_equal.
        symmetry. apply lget0_cons_ne. intros ->. apply Hnin. apply (in_map fst) in Hk'. exact Hk'.
      * f_equal. apply filter_ext_in. intros [k' w'] Hk'. unfold fresh_in. cbn [fst]. f_equal.
        assert (Hne : k' <> k).
        { intros ->. apply Hnb. apply (in_map fst) in Hk'. exact Hk'. }
        unfold lmem. clear - Hne. induction a as [|[x y] a IHa]; cbn.
        -- destruct (Nat.eqb_spec k k'); [congruence|reflexivity].
        -- destruct (x =? k'); [reflexivity|exact IHa].
Qed.

Lemma lkeys_map_upd b a : lkeys (map (upd_with b) a) = lkeys a.
Proof. unfold lkeys. rewrite map_map. apply map_ext. intros [k v]. reflexivity. Qed.

(* ------------------------------------------------------------------ *)
(* annealing: compute_contracted_info IS the tree rule -- same keys in the same
   order, same counts; cost = product over the union; size = product over survivors *)
Definition keep (app : legs) (kv : ix * nat) : bool := Nat.ltb (snd kv) (lget0 (fst kv) app).

Lemma lkeys_cons k c (l : legs) : lkeys ((k, c) :: l) = k :: lkeys l.
Proof. reflexivity. Qed.

Lemma anneal_left_fold ap sz b (a : legs) : forall lab c s,
  fold_left (anneal_left ap sz b) a (lab, (c, s)) =
  (lab ++ filter (keep ap) (map (upd_with b) a),
   ((c * size_of sz (lkeys a))%Z, (s * size_of sz (lkeys (filter (keep ap) (map (upd_with b) a))))%Z)).
Proof.
  induction a as [|[k v] a IH]; intros lab c s.
  - cbn. rewrite app_nil_r. unfold size_of. cbn. f_equal. f_equal; lia.
  - assert (E : (match lget k b with Some cb => v + cb | None => v end) = v + lget0 k b).
    { unfold lget0. destruct (lget k b); lia. }
    assert (Ekeep : keep ap (upd_with b (k, v)) = (v + lget0 k b <? lget0 k ap)) by reflexivity.
    assert (Eupd : upd_with b (k, v) = (k, v + lget0 k b)) by reflexivity.
    cbn [fold_left map filter]. rewrite Ekeep, Eupd.
    assert (Estep : anneal_left ap sz b (lab, (c, s)) (k, v) =
                    if v + lget0 k b <? lget0 k ap
                    then (lab ++ [(k, v + lget0 k b)], ((c * zget k sz)%Z, (s * zget k sz)%Z))
                    else (lab, ((c * zget k sz)%Z, s))).
    { unfold anneal_left. cbn [fst snd]. rewrite E. reflexivity. }
    rewrite Estep. destruct (v + lget0 k b <? lget0 k ap); rewrite IH.
    + rewrite <- app_assoc, !lkeys_cons, !size_of_cons. cbn [Datatypes.app]. f_equal. f_equal; lia.
    + rewrite !lkeys_cons, !size_of_cons. f_equal. f_equal; lia.
Qed.

Lemma anneal_right_fold ap sz a (b : legs) : forall lab c s,
  fold_left (anneal_right ap sz a) b (lab, (c, s)) =
  (lab ++ filter (keep ap) (filter (fresh_in a) b),
   ((c * size_of sz (lkeys (filter (fresh_in a) b)))%Z,
    (s * size_of sz (lkeys (filter (keep ap) (filter (fresh_in a) b))))%Z)).
Proof.
  induction b as [|[k v] b IH]; intros lab c s.
  - cbn. rewrite app_nil_r. unfold size_of. cbn. f_equal. f_equal; lia.
  - assert (Efresh : fresh_in a (k, v) = negb (lmem k a)) by reflexivity.
    assert (Ekeep : keep ap (k, v) = (v <? lget0 k ap)) by reflexivity.
    assert (Estep : anneal_right ap sz a (lab, (c, s)) (k, v) =
                    if lmem k a then (lab, (c, s))
                    else if v <? lget0 k ap
                         then (lab ++ [(k, v)], ((c * zget k sz)%Z, (s * zget k sz)%Z))
                         else (lab, ((c * zget k sz)%Z, s))).
    { unfold anneal_right. cbn [fst snd]. reflexivity. }
    cbn [fold_left filter]. rewrite Estep, Efresh.
    destruct (lmem k a); cbn [negb]; [apply IH|].
    cbn [filter]. rewrite Ekeep.
    destruct (v <? lget0 k ap); rewrite IH.
    + rewrite <- app_assoc, !lkeys_cons, !size_of_cons. cbn [Datatypes.app]. f_equal. f_equal; lia.
    + rewrite !lkeys_cons, !size_of_cons. f_equal. f_equal; lia.
Qed.

Theorem anneal_info_is_tree_rule ap sz a b : NoDup (lkeys a) -> NoDup (lkeys b) ->
  anneal_info ap sz a b =
  (filter (keep ap) (legs_union2 a b),
   (size_of sz (lkeys (legs_union2 a b)), size_of sz (lkeys (filter (keep ap) (legs_union2 a b))))).
Proof.
  intros NDa NDb. unfold anneal_info.
  rewrite anneal_left_fold, anneal_right_fold, (legs_union2_shape b a NDa NDb).
  rewrite filter_app, !lkeys_app, !size_of_app, lkeys_map_upd.
  f_equal. f_equal; lia.
Qed.

(* ... and, for the legs of the children of any node of any tree, exactly
   (get_legs, get_flops, get_size) of the parent *)
Theorem anneal_eq_tree n l r : inrange n (leaves l ++ leaves r) ->
  anneal_info (appearances n) (szd n) (sub_legs n [] l) (sub_legs n [] r) =
  (sub_legs n [] (Node l r), (node_flops n [] (Node l r), node_size n [] false (Node l r))).
Proof.
  intros HR.
  destruct (sub_legs_spec n [] l (inrange_app_l n _ _ HR)) as [[NDl _] _].
  destruct (sub_legs_spec n [] r (inrange_app_r n _ _ HR)) as [[NDr _] _].
  rewrite (anneal_info_is_tree_rule _ _ _ _ NDl NDr). reflexivity.
Qed.

(* ------------------------------------------------------------------ *)
(* the processor: strictly sorted (ix, count) lists *)
Definition ssorted (l : plegs) : Prop := StronglySorted Nat.lt (lkeys l).
Definition same_counts (x y : legs) : Prop := forall j, lget0 j x = lget0 j y.
Definition merged_count (app : list nat) (il jl : plegs) (j : nat) : nat :=
  let c := lget0 j il + lget0 j jl in if Nat.eqb c (papp_of app j) then 0 else c.

Lemma ssorted_tail kv l : ssorted (kv :: l) -> ssorted l.
Proof. unfold ssorted. cbn. intros H. inversion H; assumption. Qed.
Lemma ssorted_head_lt k c l j : ssorted ((k, c) :: l) -> In j (lkeys l) -> k < j.
Proof.
  unfold ssorted. cbn. intros H Hin. inversion H as [|? ? _ HF]; subst.
  rewrite Forall_forall in HF. apply HF, Hin.
Qed.
Lemma ssorted_nodup l : ssorted l -> NoDup (lkeys l).
Proof.
  unfold ssorted. induction (lkeys l) as [|x xs IH]; intros H; [constructor|].
  inversion H as [|? ? Hs HF]; subst. constructor; [|apply IH, Hs].
  intros Hin. rewrite Forall_forall in HF. specialize (HF x Hin). lia.
Qed.
Lemma lget0_below k c l j : ssorted ((k, c) :: l) -> j < k -> lget0 j ((k, c) :: l) = 0.
Proof.
  intros Hs Hlt. apply lget0_notin. cbn. intros [E|Hin]; [lia|].
  pose proof (ssorted_head_lt k c l j Hs Hin). lia.
Qed.

(* unfolding equations of compute_contracted *)
Lemma pc_nil_l ap jl : pcontract ap [] jl = jl.
Proof. destruct jl; reflexivity. Qed.
Lemma pc_nil_r ap il : pcontract ap il [] = il.
Proof. destruct il as [|[i ic] il]; reflexivity. Qed.
Lemma pc_cons ap i ic il j jc jl :
  pcontract ap ((i, ic) :: il) ((j, jc) :: jl) =
  if Nat.ltb i j then (i, ic) :: pcontract ap il ((j, jc) :: jl)
  else if Nat.ltb j i then (j, jc) :: pcontract ap ((i, ic) :: il) jl
  else (if Nat.eqb (ic + jc) (papp_of ap i) then [] else [(i, ic + jc)]) ++ pcontract ap il jl.
Proof. reflexivity. Qed.

Lemma pcontract_keys ap il : forall jl k,
  In k (lkeys (pcontract ap il jl)) -> In k (lkeys il) \/ In k (lkeys jl).
Proof.
  induction il as [|[i ic] il IHi]; intros jl k.
  - rewrite pc_nil_l. tauto.
  - induction jl as [|[j jc] jl IHj].
    + rewrite pc_nil_r. tauto.
    + rewrite pc_cons. destruct (i <? j) eqn:E1; [|destruct (j <? i) eqn:E2].
      * rewrite !lkeys_cons. intros [<-|H]; [left; left; reflexivity|].
        apply IHi in H. rewrite lkeys_cons in H. cbn [In] in *. tauto.
      * rewrite !lkeys_cons. intros [<-|H]; [right; left; reflexivity|].
        apply IHj in H. rewrite lkeys_cons in H. cbn [In] in *. tauto.
      * rewrite lkeys_app, in_app_iff, !lkeys_cons. intros [H|H].
        -- destruct (ic + jc =? papp_of ap i); cbn in H; [tauto|]. destruct H as [<-|[]]. left; left; reflexivity.
        -- apply IHi in H. cbn [In]. tauto.
Qed.

(* every count the processor holds is strictly below the index's appearances
   (true after simplify_single_terms, preserved by compute_contracted) *)
Definition below (ap : list nat) (l : plegs) : Prop := forall kv, In kv l -> snd kv < papp_of ap (fst kv).

Lemma below_get ap l j : ssorted l -> below ap l -> lget0 j l = 0 \/ lget0 j l < papp_of ap j.
Proof.
  intros Hs Hb. unfold lget0. destruct (lget j l) as [v|] eqn:E; [|left; reflexivity].
  right. apply lget_in in E. apply (Hb (j, v) E).
Qed.
Lemma below_tail ap kv l : below ap (kv :: l) -> below ap l.
Proof. intros H x Hx. apply H. right; exact Hx. Qed.

Lemma sorted_cons_intro k c l : ssorted l -> (forall j, In j (lkeys l) -> k < j) -> ssorted ((k, c) :: l).
Proof.
  intros Hs Hlt. unfold ssorted. rewrite lkeys_cons. constructor; [exact Hs|].
  apply Forall_forall. exact Hlt.
Qed.

(* compute_contracted: the result is strictly sorted, stays below appearances, and
   carries the summed counts except where the sum reaches appearances *)
Lemma pg_ne (k c : nat) (l : list (nat * nat)) (j : nat) : j <> k -> lget0 j ((k, c) :: l) = lget0 j l.
Proof. apply lget0_cons_ne. Qed.
Lemma pg_eq (k c : nat) (l : list (nat * nat)) : lget0 k ((k, c) :: l) = c.
Proof. apply lget0_cons_eq. Qed.

Theorem pcontract_spec ap il : forall jl, ssorted il -> ssorted jl -> below ap il -> below ap jl ->
  (forall j, lget0 j il + lget0 j jl <= papp_of ap j) ->
  ssorted (pcontract ap il jl) /\ below ap (pcontract ap il jl) /\
  forall j, lget0 j (pcontract ap il jl) = merged_count ap il jl j.
Proof.
  induction il as [|[i ic] il IHi]; intros jl Si Sj Bi Bj Hle.
  - rewrite pc_nil_l. split; [exact Sj|split; [exact Bj|]].
    intros j. unfold merged_count. change (lget0 j []) with 0. cbn [Nat.add].
    destruct (below_get ap jl j Sj Bj) as [E|E].
    + rewrite E. destruct (0 =? papp_of ap j); reflexivity.
    + destruct (Nat.eqb_spec (lget0 j jl) (papp_of ap j)); [lia|reflexivity].
  - induction jl as [|[j jc] jl IHj].
    + rewrite pc_nil_r. split; [exact Si|split; [exact Bi|]].
      intros q. unfold merged_count. change (lget0 q []) with 0. rewrite Nat.add_0_r.
      destruct (below_get ap _ q Si Bi) as [E|E].
      * rewrite E. destruct (0 =? papp_of ap q); reflexivity.
      * destruct (Nat.eqb_spec (lget0 q ((i, ic) :: il)) (papp_of ap q)); [lia|reflexivity].
    + rewrite pc_cons.
      assert (Hic : ic < papp_of ap i) by (apply (Bi (i, ic)); left; reflexivity).
      assert (Hjc : jc < papp_of ap j) by (apply (Bj (j, jc)); left; reflexivity).
      destruct (Nat.ltb_spec i j) as [Hij|Hij]; [|destruct (Nat.ltb_spec j i) as [Hji|Hji]].
      * (* index only on i *)
        assert (Hle' : forall q, lget0 q il + lget0 q ((j, jc) :: jl) <= papp_of ap q).
        { intros q. specialize (Hle q). destruct (Nat.eq_dec q i) as [->|Hq].
          - rewrite (lget0_notin i il), (lget0_below j jc jl i Sj Hij); [lia|].
            intros Hin. pose proof (ssorted_head_lt i ic il i Si Hin). lia.
          - rewrite (pg_ne i ic il q Hq) in Hle. exact Hle. }
        destruct (IHi ((j, jc) :: jl) (ssorted_tail _ _ Si) Sj (below_tail _ _ _ Bi) Bj Hle') as (S' & B' & G').
        split; [|split].
        -- apply sorted_cons_intro; [exact S'|]. intros q Hq. apply pcontract_keys in Hq. destruct Hq as [Hq|Hq].
           ++ apply (ssorted_head_lt i ic il q Si Hq).
           ++ rewrite lkeys_cons in Hq. destruct Hq as [<-|Hq]; [exact Hij|].
              pose proof (ssorted_head_lt j jc jl q Sj Hq). lia.
        -- intros kv [<-|Hkv]; [exact Hic|apply B', Hkv].
        -- intros q. destruct (Nat.eq_dec q i) as [->|Hq].
           ++ rewrite pg_eq. unfold merged_count. rewrite pg_eq, (lget0_below j jc jl i Sj Hij), Nat.add_0_r.
              destruct (Nat.eqb_spec ic (papp_of ap i)); [lia|reflexivity].
           ++ rewrite (pg_ne i ic _ q Hq), G'. unfold merged_count. rewrite (pg_ne i ic il q Hq). reflexivity.
      * (* index only on j *)
        assert (Hle' : forall q, lget0 q ((i, ic) :: il) + lget0 q jl <= papp_of ap q).
        { intros q. specialize (Hle q). destruct (Nat.eq_dec q j) as [->|Hq].
          - rewrite (lget0_notin j jl), (lget0_below i ic il j Si Hji); [lia|].
            intros Hin. pose proof (ssorted_head_lt j jc jl j Sj Hin). lia.
          - rewrite (pg_ne j jc jl q Hq) in Hle. exact Hle. }
        destruct (IHj (ssorted_tail _ _ Sj) (below_tail _ _ _ Bj) Hle') as (S' & B' & G').
        split; [|split].
        -- apply sorted_cons_intro; [exact S'|]. intros q Hq. apply pcontract_keys in Hq. destruct Hq as [Hq|Hq].
           ++ rewrite lkeys_cons in Hq. destruct Hq as [<-|Hq]; [exact Hji|].
              pose proof (ssorted_head_lt i ic il q Si Hq). lia.
           ++ apply (ssorted_head_lt j jc jl q Sj Hq).
        -- intros kv [<-|Hkv]; [exact Hjc|apply B', Hkv].
        -- intros q. destruct (Nat.eq_dec q j) as [->|Hq].
           ++ rewrite pg_eq. unfold merged_count. rewrite pg_eq, (lget0_below i ic il j Si Hji). cbn [Nat.add].
              destruct (Nat.eqb_spec jc (papp_of ap j)); [lia|reflexivity].
           ++ rewrite (pg_ne j jc _ q Hq), G'. unfold merged_count. rewrite (pg_ne j jc jl q Hq). reflexivity.
      * (* shared index *)
        assert (i = j) by lia. subst j. clear Hij Hji.
        assert (Hni : ~ In i (lkeys il)) by (intros Hin; pose proof (ssorted_head_lt i ic il i Si Hin); lia).
        assert (Hnj : ~ In i (lkeys jl)) by (intros Hin; pose proof (ssorted_head_lt i jc jl i Sj Hin); lia).
        assert (Hle' : forall q, lget0 q il + lget0 q jl <= papp_of ap q).
        { intros q. specialize (Hle q). destruct (Nat.eq_dec q i) as [->|Hq].
          - rewrite (lget0_notin i il Hni), (lget0_notin i jl Hnj). lia.
          - rewrite (pg_ne i ic il q Hq), (pg_ne i jc jl q Hq) in Hle. exact Hle. }
        destruct (IHi jl (ssorted_tail _ _ Si) (ssorted_tail _ _ Sj) (below_tail _ _ _ Bi) (below_tail _ _ _ Bj) Hle')
          as (S' & B' & G').
        assert (Hsum : ic + jc <= papp_of ap i).
        { specialize (Hle i). rewrite !pg_eq in Hle. exact Hle. }
        assert (Hlt : forall q, In q (lkeys (pcontract ap il jl)) -> i < q).
        { intros q Hq. apply pcontract_keys in Hq. destruct Hq as [Hq|Hq];
            [apply (ssorted_head_lt i ic il q Si Hq)|apply (ssorted_head_lt i jc jl q Sj Hq)]. }
        assert (Hi0 : lget0 i (pcontract ap il jl) = 0).
        { apply lget0_notin. intros Hin. specialize (Hlt i Hin). lia. }
        destruct (Nat.eqb_spec (ic + jc) (papp_of ap i)) as [Eq|Ne]; cbn [Datatypes.app].
        -- split; [exact S'|split; [exact B'|]]. intros q. destruct (Nat.eq_dec q i) as [->|Hq].
           ++ rewrite Hi0. unfold merged_count. rewrite !pg_eq.
              destruct (Nat.eqb_spec (ic + jc) (papp_of ap i)); [reflexivity|lia].
           ++ rewrite G'. unfold merged_count. rewrite (pg_ne i ic il q Hq), (pg_ne i jc jl q Hq). reflexivity.
        -- split; [|split].
           ++ apply sorted_cons_intro; [exact S'|exact Hlt].
           ++ intros kv [<-|Hkv]; [cbn [fst snd]; lia|apply B', Hkv].
           ++ intros q. destruct (Nat.eq_dec q i) as [->|Hq].
              ** rewrite pg_eq. unfold merged_count. rewrite !pg_eq.
                 destruct (Nat.eqb_spec (ic + jc) (papp_of ap i)); [lia|reflexivity].
              ** rewrite (pg_ne i _ _ q Hq), G'. unfold merged_count.
                 rewrite (pg_ne i ic il q Hq), (pg_ne i jc jl q Hq). reflexivity.
Qed.

(* the same against the tree rule (legs_union + filter count < appearances) for tree
   legs a, b carrying the same counts as the processor's sorted lists *)
Theorem processor_rule_is_tree_rule (app : legs) (ap : list nat) (a b : legs) (il jl : plegs) :
  (forall j, papp_of ap j = lget0 j app) ->
  wfl a -> wfl b -> ssorted il -> ssorted jl -> same_counts il a -> same_counts jl b ->
  below ap il -> below ap jl -> (forall j, lget0 j a + lget0 j b <= lget0 j app) ->
  ssorted (pcontract ap il jl) /\ below ap (pcontract ap il jl) /\
  same_counts (pcontract ap il jl) (filter (keep app) (legs_union2 a b)).
Proof.
  intros Hap Wa Wb Si Sj Ca Cb Bi Bj Hle.
  assert (Hle' : forall j, lget0 j il + lget0 j jl <= papp_of ap j).
  { intros j. rewrite Ca, Cb, Hap. apply Hle. }
  destruct (pcontract_spec ap il jl Si Sj Bi Bj Hle') as (S' & B' & G').
  split; [exact S'|split; [exact B'|]].
  intros j. rewrite G'. unfold merged_count. rewrite Ca, Cb, Hap.
  assert (Wu : wfl (legs_union2 a b)) by (apply wfl_legs_union2; [exact Wa|apply Wb]).
  rewrite lget0_filter by apply Wu.
  pose proof (legs_union2_get a b j (proj1 Wb)) as G. unfold lget0 in G at 1.
  specialize (Hle j). unfold keep.
  destruct (lget j (legs_union2 a b)) as [v|] eqn:E; cbn [fst snd].
  - subst v. destruct (Nat.eqb_spec (lget0 j a + lget0 j b) (lget0 j app));
      destruct (Nat.ltb_spec (lget0 j a + lget0 j b) (lget0 j app)); lia.
  - rewrite <- G. destruct (0 =? lget0 j app); reflexivity.
Qed.

(* ------------------------------------------------------------------ *)
(* compute_flops = product over the union of the two operands' indices *)
Definition pprod (szs : list Z) (ks : list nat) : Z := zprod (map (psize_of szs) ks).
Lemma pprod_cons szs k ks : pprod szs (k :: ks) = (psize_of szs k * pprod szs ks)%Z.
Proof. unfold pprod. cbn [map]. apply zprod_cons. Qed.
Lemma pprod_app szs k1 k2 : pprod szs (k1 ++ k2) = (pprod szs k1 * pprod szs k2)%Z.
Proof. unfold pprod. rewrite map_app, zprod_app. reflexivity. Qed.
Lemma pprod_perm szs k1 k2 : Permutation k1 k2 -> pprod szs k1 = pprod szs k2.
Proof. intros H. unfold pprod. apply zprod_perm, Permutation_map, H. Qed.

Lemma pflops_fold1 szs (il : plegs) : forall seen f,
  fold_left (fun (st : list nat * Z) kv => (fst kv :: fst st, (snd st * psize_of szs (fst kv))%Z)) il (seen, f) =
  (rev (lkeys il) ++ seen, (f * pprod szs (lkeys il))%Z).
Proof.
  induction il as [|[k c] il IH]; intros seen f; cbn [fold_left].
  - cbn. f_equal. unfold pprod. cbn. lia.
  - cbn [fst snd]. rewrite IH, lkeys_cons, pprod_cons. cbn [rev]. rewrite <- app_assoc. cbn. f_equal. lia.
Qed.
Lemma pflops_fold2 szs seen (jl : plegs) : forall f,
  fold_left (fun f kv => if memb (fst kv) seen then f else (f * psize_of szs (fst kv))%Z) jl f =
  (f * pprod szs (filter (fun k => negb (memb k seen)) (lkeys jl)))%Z.
Proof.
  induction jl as [|[k c] jl IH]; intros f; cbn [fold_left].
  - unfold pprod. cbn. lia.
  - cbn [fst]. rewrite IH, lkeys_cons. cbn [filter]. destruct (memb k seen); cbn [negb]; [reflexivity|].
    rewrite pprod_cons. lia.
Qed.

Definition union_keys (il jl : plegs) : list nat :=
  lkeys il ++ filter (fun k => negb (memb k (lkeys il))) (lkeys jl).

Theorem pflops_is_union_product szs il jl : pflops szs il jl = pprod szs (union_keys il jl).
Proof.
  unfold pflops. rewrite pflops_fold1, pflops_fold2, app_nil_r. unfold union_keys. rewrite pprod_app.
  rewrite Z.mul_1_l. f_equal. f_equal. apply filter_ext. intros k. f_equal.
  destruct (memb k (lkeys il)) eqn:E1.
  - apply memb_In. rewrite <- in_rev. apply memb_In, E1.
  - apply memb_false. rewrite <- in_rev. apply memb_false, E1.
Qed.

Lemma union_keys_nodup il jl : NoDup (lkeys il) -> NoDup (lkeys jl) -> NoDup (union_keys il jl).
Proof.
  intros Ni Nj. unfold union_keys.
  assert (G : forall l1 l2 : list nat, NoDup l1 -> NoDup l2 -> (forall x, In x l1 -> ~ In x l2) -> NoDup (l1 ++ l2)).
  { induction l1 as [|x l1 IH]; intros l2 N1 N2 Hd; [exact N2|].
    inversion N1 as [|? ? Hn N1']; subst. cbn. constructor.
    - rewrite in_app_iff. intros [H|H]; [contradiction|]. apply (Hd x); [left; reflexivity|exact H].
    - apply IH; [exact N1'|exact N2|]. intros y Hy. apply Hd. right; exact Hy. }
  apply G; [exact Ni|apply NoDup_filter, Nj|].
  intros x Hx Hf. apply filter_In in Hf. destruct Hf as [_ Hf].
  apply negb_true_iff, memb_false in Hf. contradiction.
Qed.
Lemma union_keys_in il jl k : In k (union_keys il jl) <-> In k (lkeys il) \/ In k (lkeys jl).
Proof.
  unfold union_keys. rewrite in_app_iff, filter_In, negb_true_iff, memb_false.
  destruct (in_dec Nat.eq_dec k (lkeys il)); tauto.
Qed.

Theorem processor_flops_is_tree_flops szs sz (a b : legs) (il jl : plegs) :
  (forall j, psize_of szs j = zget j sz) ->
  NoDup (lkeys a) -> NoDup (lkeys b) -> NoDup (lkeys il) -> NoDup (lkeys jl) ->
  (forall j, In j (lkeys il) <-> In j (lkeys a)) -> (forall j, In j (lkeys jl) <-> In j (lkeys b)) ->
  pflops szs il jl = size_of sz (lkeys (legs_union2 a b)).
Proof.
  intros Hsz Na Nb Ni Nj Ha Hb. rewrite pflops_is_union_product.
  assert (E : pprod szs (union_keys il jl) = size_of sz (union_keys il jl)).
  { unfold pprod, size_of. f_equal. apply map_ext. exact Hsz. }
  rewrite E. apply size_of_same_set.
  - apply union_keys_nodup; assumption.
  - apply legs_union2_nodup, Na.
  - intros j. rewrite union_keys_in, legs_union2_in, Ha, Hb. reflexivity.
Qed.

(* ------------------------------------------------------------------ *)
(* simplify_batch: dropping an index x from every operand divides the flops of EVERY
   later step that involves x by exactly size(x) -- nothing puts the factor back *)
Definition drop_ix (x : nat) (l : plegs) : plegs := filter (fun kv => negb (Nat.eqb (fst kv) x)) l.

Lemma lkeys_drop x l : lkeys (drop_ix x l) = filter (fun k => negb (Nat.eqb k x)) (lkeys l).
Proof.
  unfold drop_ix, lkeys. induction l as [|[k c] l IH]; cbn; [reflexivity|].
  destruct (k =? x); cbn; [exact IH|f_equal; exact IH].
Qed.

Lemma pprod_filter_out szs x (L : list nat) : NoDup L ->
  pprod szs L = (pprod szs (filter (fun k => negb (Nat.eqb k x)) L) * (if memb x L then psize_of szs x else 1))%Z.
Proof.
  induction L as [|y L IH]; intros ND; [unfold pprod; cbn; lia|].
  inversion ND as [|? ? Hn ND']; subst. cbn [filter memb existsb]. rewrite pprod_cons, (IH ND').
  destruct (Nat.eqb_spec y x) as [->|H]; cbn [negb orb].
  - rewrite Nat.eqb_refl. cbn [orb].
    assert (E : memb x L = false) by (apply memb_false, Hn). fold (memb x L). rewrite E. lia.
  - destruct (Nat.eqb_spec x y); [congruence|]. cbn [orb]. fold (memb x L). rewrite pprod_cons. lia.
Qed.

Lemma union_keys_drop x il jl :
  filter (fun k => negb (Nat.eqb k x)) (union_keys il jl) = union_keys (drop_ix x il) (drop_ix x jl).
Proof.
  unfold union_keys. rewrite filter_app, !lkeys_drop. f_equal.
  rewrite !filter_filter_comm_and. apply filter_ext_in. intros k _.
  destruct (Nat.eqb_spec k x) as [->|Hk]; cbn [negb]; [rewrite andb_false_r; reflexivity|].
  rewrite andb_true_r, andb_true_l. f_equal.
  destruct (memb k (lkeys il)) eqn:E1.
  - symmetry. apply memb_In, filter_In. split; [apply memb_In, E1|].
    destruct (Nat.eqb_spec k x); [congruence|reflexivity].
  - symmetry. apply memb_false. rewrite filter_In. intros [H _]. apply memb_false in E1. contradiction.
Qed.

Theorem batch_removal_scales_flops szs x il jl : NoDup (lkeys il) -> NoDup (lkeys jl) ->
  pflops szs il jl =
  (pflops szs (drop_ix x il) (drop_ix x jl) *
   (if memb x (lkeys il) || memb x (lkeys jl) then psize_of szs x else 1))%Z.
Proof.
  intros Ni Nj. rewrite !pflops_is_union_product.
  rewrite (pprod_filter_out szs x (union_keys il jl)) by (apply union_keys_nodup; assumption).
  rewrite union_keys_drop. f_equal.
  assert (E : memb x (union_keys il jl) = memb x (lkeys il) || memb x (lkeys jl)).
  { destruct (memb x (union_keys il jl)) eqn:E1.
    - apply memb_In, union_keys_in in E1. symmetry. apply orb_true_iff. rewrite !memb_In. exact E1.
    - apply memb_false in E1. rewrite union_keys_in in E1. symmetry. apply orb_false_iff. rewrite !memb_false. tauto. }
  rewrite E. reflexivity.
Qed.

(* compute_contracted commutes with dropping x as long as x is not contracted away *)
Lemma drop_ix_notin x l : ~ In x (lkeys l) -> drop_ix x l = l.
Proof.
  unfold drop_ix, lkeys. induction l as [|[k c] l IH]; cbn; intros H; [reflexivity|].
  destruct (Nat.eqb_spec k x) as [->|]; [tauto|]. cbn. f_equal. apply IH. tauto.
Qed.

(* ------------------------------------------------------------------ *)
(* finding 13: what random-greedy reports is NOT the cost of the tree it returns *)
Definition witness_net : net := mkNet [[0; 1]; [1; 2]] [0; 2] [(0, 2%Z); (1, 3%Z); (2, 5%Z)].

Theorem reported_cost_refuted :
  ~ (forall (n : net) (path : list (nat * nat)) (t : tree),
       ssa_tree (length (inputs n)) path = Some t -> reported_flops n path = total_flops n [] t).
Proof.
  intros H. specialize (H witness_net [(0, 1)] (Node (Leaf 0) (Leaf 1)) eq_refl).
  vm_compute in H. discriminate H.
Qed.

(* the same run with the proposed patch (flops scaled by batch_factor) agrees on the witness *)
Example reported_cost_fixed_on_witness :
  reported_flops_gen true witness_net [(0, 1)] = total_flops witness_net [] (Node (Leaf 0) (Leaf 1)).
Proof. vm_compute. reflexivity. Qed.

(* ------------------------------------------------------------------ *)
(* the code as it is now (fix cd00d66: contract_nodes adds batch_factor * compute_flops):
   the flops added by a contraction are the flops of the operands' ORIGINAL legs *)
Definition drop_list (B : list nat) (l : plegs) : plegs := fold_left (fun l x => drop_ix x l) B l.

Lemma nodup_keys_drop x l : NoDup (lkeys l) -> NoDup (lkeys (drop_ix x l)).
Proof. intros H. rewrite lkeys_drop. apply NoDup_filter, H. Qed.
Lemma in_keys_drop x l y : In y (lkeys (drop_ix x l)) <-> In y (lkeys l) /\ y <> x.
Proof. rewrite lkeys_drop, filter_In, negb_true_iff, Nat.eqb_neq. tauto. Qed.

Theorem batch_factor_restores_flops szs B : forall il jl, NoDup B -> NoDup (lkeys il) -> NoDup (lkeys jl) ->
  (forall x, In x B -> In x (lkeys il) \/ In x (lkeys jl)) ->
  (pprod szs B * pflops szs (drop_list B il) (drop_list B jl))%Z = pflops szs il jl.
Proof.
  induction B as [|x B IH]; intros il jl NB Ni Nj HB.
  - unfold drop_list, pprod. cbn [fold_left map]. rewrite zprod_nil. lia.
  - inversion NB as [|? ? Hx NB']; subst. unfold drop_list. cbn [fold_left]. fold (drop_list B (drop_ix x il)).
    fold (drop_list B (drop_ix x jl)). rewrite pprod_cons.
    rewrite (batch_removal_scales_flops szs x il jl Ni Nj).
    assert (E : memb x (lkeys il) || memb x (lkeys jl) = true).
    { apply orb_true_iff. rewrite !memb_In. apply HB. left; reflexivity. }
    rewrite E.
    rewrite <- (IH (drop_ix x il) (drop_ix x jl) NB' (nodup_keys_drop x il Ni) (nodup_keys_drop x jl Nj)).
    + lia.
    + intros y Hy. rewrite !in_keys_drop.
      assert (y <> x) by (intros ->; contradiction).
      destruct (HB y (or_intror Hy)); [left|right]; split; assumption.
Qed.

Lemma aget_adel_other {A} (i j : nat) (d : list (nat * A)) : j <> i -> aget j (adel i d) = aget j d.
Proof.
  intros H. induction d as [|[k v] d IH]; cbn; [reflexivity|].
  destruct (Nat.eqb_spec k i) as [->|Hk].
  - destruct (Nat.eqb_spec i j); [congruence|reflexivity].
  - cbn. destruct (k =? j); [reflexivity|exact IH].
Qed.

Lemma proc_add_acc lg p : pflops_acc (fst (proc_add lg p)) = pflops_acc p /\ pszs (fst (proc_add lg p)) = pszs p.
Proof. split; reflexivity. Qed.

(* contract_nodes of the fixed code: flops += batch_factor * compute_flops(ilegs, jlegs) *)
Lemma proc_pop_fields i p :
  snd (proc_pop i p) = pget p i /\ pnodes (fst (proc_pop i p)) = adel i (pnodes p) /\
  pszs (fst (proc_pop i p)) = pszs p /\ ptrack (fst (proc_pop i p)) = ptrack p /\
  pflops_acc (fst (proc_pop i p)) = pflops_acc p /\ pbatch (fst (proc_pop i p)) = pbatch p /\
  pfix (fst (proc_pop i p)) = pfix p.
Proof. repeat split. Qed.

Theorem fixed_contract_adds p i j : ptrack p = true -> pfix p = true -> i <> j ->
  pflops_acc (fst (proc_contract i j p)) =
  (pflops_acc p + pbatch p * pflops (pszs p) (pget p i) (pget p j))%Z.
Proof.
  intros Ht Hf Hij. unfold proc_contract.
  pose proof (proc_pop_fields i p) as F1. destruct (proc_pop i p) as [p1 il]. cbn [fst snd] in F1.
  destruct F1 as (Eil & En1 & Es1 & Et1 & Ea1 & Eb1 & Ef1).
  pose proof (proc_pop_fields j p1) as F2. destruct (proc_pop j p1) as [p2 jl]. cbn [fst snd] in F2.
  destruct F2 as (Ejl & En2 & Es2 & Et2 & Ea2 & Eb2 & Ef2).
  assert (Ejl' : jl = pget p j).
  { rewrite Ejl. unfold pget. rewrite En1. rewrite aget_adel_other by (intros E; apply Hij; symmetry; exact E). reflexivity. }
  rewrite Et2, Et1, Ht, Ef2, Ef1, Hf.
  match goal with |- context [proc_add ?lg ?q] =>
    pose proof (proc_add_acc lg q) as F4; destruct (proc_add lg q) as [p4 k] end.
  cbn [fst snd] in *. destruct F4 as [F4 _].
  unfold proc_push_path. cbn [pflops_acc]. rewrite F4. unfold proc_add_flops. cbn [pflops_acc].
  rewrite Ea2, Ea1, Eb2, Eb1, Es2, Es1, Eil, Ejl'. reflexivity.
Qed.

(* ... which is the product over the union of the operands' ORIGINAL indices whenever the
   held legs are the originals minus the batch indices B and batch_factor = prod sizes(B) *)
Theorem fixed_step_reports_original_flops p i j B il0 jl0 :
  ptrack p = true -> pfix p = true -> i <> j ->
  pbatch p = pprod (pszs p) B -> pget p i = drop_list B il0 -> pget p j = drop_list B jl0 ->
  NoDup B -> NoDup (lkeys il0) -> NoDup (lkeys jl0) ->
  (forall x, In x B -> In x (lkeys il0) \/ In x (lkeys jl0)) ->
  pflops_acc (fst (proc_contract i j p)) = (pflops_acc p + pflops (pszs p) il0 jl0)%Z /\
  pflops (pszs p) il0 jl0 = pprod (pszs p) (union_keys il0 jl0).
Proof.
  intros Ht Hf Hij Hb Hi Hj NB Ni Nj HB. split; [|apply pflops_is_union_product].
  rewrite (fixed_contract_adds p i j Ht Hf Hij), Hb, Hi, Hj.
  rewrite (batch_factor_restores_flops (pszs p) B il0 jl0 NB Ni Nj HB). reflexivity.
Qed.

(* simplify_batch establishes exactly those hypotheses, provided the edge map lists, for every
   index, all the nodes that carry it (checked per run by proc_edges_ok_b) *)
Definition pgetE (p : proc) (x : nat) : list nat := match aget x (pedges p) with Some l => l | None => [] end.
Definition proc_edges_ok (p : proc) : Prop := forall x i, In x (lkeys (pget p i)) -> In i (pgetE p x).
Definition proc_edges_ok_b (p : proc) : bool :=
  forallb (fun it => forallb (fun kv => memb (fst it) (pgetE p (fst kv))) (snd it)) (pnodes p).

Lemma aget_in {A} k (v : A) d : aget k d = Some v -> In (k, v) d.
Proof.
  induction d as [|[k' w] d IH]; cbn; [discriminate|].
  destruct (Nat.eqb_spec k' k) as [->|]; [intros [= ->]; left; reflexivity|intros H; right; apply IH, H].
Qed.

Lemma proc_edges_ok_b_sound p : proc_edges_ok_b p = true -> proc_edges_ok p.
Proof.
  unfold proc_edges_ok_b, proc_edges_ok. rewrite forallb_forall. intros H x i Hx.
  unfold pget in Hx. destruct (aget i (pnodes p)) as [l|] eqn:E; [|destruct Hx].
  specialize (H (i, l) (aget_in _ _ _ E)). cbn [fst snd] in H. rewrite forallb_forall in H.
  unfold lkeys in Hx. apply in_map_iff in Hx. destruct Hx as (kv & <- & Hkv).
  apply memb_In. apply (H kv Hkv).
Qed.

Lemma aget_aset_same {A} k (v : A) d : aget k (aset k v d) = Some v.
Proof.
  induction d as [|[k' w] d IH]; cbn; [rewrite Nat.eqb_refl; reflexivity|].
  destruct (Nat.eqb_spec k' k) as [->|Hk]; cbn; [rewrite Nat.eqb_refl; reflexivity|].
  destruct (Nat.eqb_spec k' k); [contradiction|exact IH].
Qed.
Lemma aget_aset_other {A} k j (v : A) d : j <> k -> aget j (aset k v d) = aget j d.
Proof.
  intros H. induction d as [|[k' w] d IH]; cbn.
  - destruct (Nat.eqb_spec k j); [congruence|reflexivity].
  - destruct (Nat.eqb_spec k' k) as [->|Hk]; cbn.
    + destruct (Nat.eqb_spec k j); [congruence|reflexivity].
    + destruct (k' =? j); [reflexivity|exact IH].
Qed.

Lemma remove_ix_nodes_fold x (ks : list nat) : forall (nd : list (nat * plegs)) i,
  match aget i (fold_left (fun nd node => match aget node nd with
                                          | None => nd
                                          | Some l => aset node (drop_ix x l) nd
                                          end) ks nd) with Some l => l | None => [] end =
  if memb i ks then drop_ix x (match aget i nd with Some l => l | None => [] end)
  else match aget i nd with Some l => l | None => [] end.
Proof.
  induction ks as [|k ks IH]; intros nd i; cbn [fold_left memb existsb]; [reflexivity|].
  rewrite IH. fold (memb i ks).
  assert (Idem : forall l, drop_ix x (drop_ix x l) = drop_ix x l).
  { intros l. unfold drop_ix. rewrite filter_filter_comm_and. apply filter_ext. intros kv. destruct (negb _); reflexivity. }
  destruct (Nat.eqb_spec i k) as [->|Hik]; cbn [orb].
  - destruct (aget k nd) as [l|] eqn:E.
    + rewrite aget_aset_same. destruct (memb k ks); [apply Idem|reflexivity].
    + rewrite E. destruct (memb k ks); reflexivity.
  - destruct (aget k nd) as [l|] eqn:E; [rewrite (aget_aset_other k i) by exact Hik|]; reflexivity.
Qed.

Lemma proc_remove_ix_get x p i : proc_edges_ok p -> pget (proc_remove_ix x p) i = drop_ix x (pget p i).
Proof.
  intros Hok.
  transitivity (if memb i (pgetE p x) then drop_ix x (pget p i) else pget p i).
  - exact (remove_ix_nodes_fold x (pgetE p x) (pnodes p) i).
  - destruct (memb i (pgetE p x)) eqn:E; [reflexivity|].
    symmetry. apply drop_ix_notin. intros Hin. apply Hok in Hin. apply memb_false in E. contradiction.
Qed.

Lemma proc_remove_ix_ok x p : proc_edges_ok p -> proc_edges_ok (proc_remove_ix x p).
Proof.
  intros Hok y i Hy. rewrite (proc_remove_ix_get x p i Hok), in_keys_drop in Hy. destruct Hy as [Hy Hne].
  unfold pgetE, proc_remove_ix. cbn [pedges]. rewrite aget_adel_other by exact Hne. apply Hok, Hy.
Qed.

Theorem simplify_batch_spec p : proc_edges_ok p ->
  let B := batch_indices p in
  (forall i, pget (proc_simplify_batch p) i = drop_list B (pget p i)) /\
  pbatch (proc_simplify_batch p) = (pbatch p * pprod (pszs p) B)%Z /\
  pszs (proc_simplify_batch p) = pszs p /\ pflops_acc (proc_simplify_batch p) = pflops_acc p /\
  ptrack (proc_simplify_batch p) = ptrack p /\ pfix (proc_simplify_batch p) = pfix p.
Proof.
  intros Hok. cbn zeta. unfold proc_simplify_batch. generalize (batch_indices p) as B. intros B. revert p Hok.
  induction B as [|x B IH]; intros p Hok; cbn [fold_left].
  - repeat split. unfold pprod. cbn. lia.
  - assert (Hok1 : proc_edges_ok (proc_scale_batch x p)) by exact Hok.
    destruct (IH (proc_remove_ix x (proc_scale_batch x p)) (proc_remove_ix_ok x _ Hok1)) as (G1 & G2 & G3 & G4 & G5 & G6).
    repeat split.
    + intros i. rewrite G1, (proc_remove_ix_get x _ i Hok1). reflexivity.
    + rewrite G2. unfold proc_remove_ix, proc_scale_batch. cbn [pbatch pszs]. rewrite pprod_cons. lia.
    + rewrite G3. reflexivity.
    + rewrite G4. reflexivity.
    + rewrite G5. reflexivity.
    + rewrite G6. reflexivity.
Qed.

(* ------------------------------------------------------------------ *)
(* run level: with batch_factor, a run after simplify_batch reports the same flops as the same
   run without simplify_batch (legs are the originals minus B at every step) *)
Lemma pcontract_sorted ap il : forall jl, ssorted il -> ssorted jl -> ssorted (pcontract ap il jl).
Proof.
  induction il as [|[i ic] il IHi]; intros jl Si Sj.
  - rewrite pc_nil_l. exact Sj.
  - induction jl as [|[j jc] jl IHj].
    + rewrite pc_nil_r. exact Si.
    + rewrite pc_cons. destruct (Nat.ltb_spec i j) as [Hij|Hij]; [|destruct (Nat.ltb_spec j i) as [Hji|Hji]].
      * apply sorted_cons_intro; [apply IHi; [apply (ssorted_tail _ _ Si)|exact Sj]|].
        intros q Hq. apply pcontract_keys in Hq. destruct Hq as [Hq|Hq].
        -- apply (ssorted_head_lt i ic il q Si Hq).
        -- rewrite lkeys_cons in Hq. destruct Hq as [<-|Hq]; [exact Hij|].
           pose proof (ssorted_head_lt j jc jl q Sj Hq). lia.
      * apply sorted_cons_intro; [apply IHj, (ssorted_tail _ _ Sj)|].
        intros q Hq. apply pcontract_keys in Hq. destruct Hq as [Hq|Hq].
        -- rewrite lkeys_cons in Hq. destruct Hq as [<-|Hq]; [exact Hji|].
           pose proof (ssorted_head_lt i ic il q Si Hq). lia.
        -- apply (ssorted_head_lt j jc jl q Sj Hq).
      * assert (i = j) by lia. subst j.
        assert (Hlt : forall q, In q (lkeys (pcontract ap il jl)) -> i < q).
        { intros q Hq. apply pcontract_keys in Hq. destruct Hq as [Hq|Hq];
            [apply (ssorted_head_lt i ic il q Si Hq)|apply (ssorted_head_lt i jc jl q Sj Hq)]. }
        pose proof (IHi jl (ssorted_tail _ _ Si) (ssorted_tail _ _ Sj)) as S'.
        destruct (ic + jc =? papp_of ap i); cbn [Datatypes.app]; [exact S'|apply sorted_cons_intro; assumption].
Qed.

Lemma drop_ix_cons x k c l : drop_ix x ((k, c) :: l) = if Nat.eqb k x then drop_ix x l else (k, c) :: drop_ix x l.
Proof. unfold drop_ix. cbn [filter fst]. destruct (k =? x); reflexivity. Qed.
Lemma drop_ix_app x l1 l2 : drop_ix x (l1 ++ l2) = drop_ix x l1 ++ drop_ix x l2.
Proof. unfold drop_ix. apply filter_app. Qed.
Lemma drop_ix_sorted x l : ssorted l -> ssorted (drop_ix x l).
Proof.
  unfold ssorted. rewrite lkeys_drop. generalize (lkeys l) as ks. intros ks H.
  induction H as [|k ks Hs IH Hf]; cbn [filter]; [constructor|].
  destruct (negb (k =? x)); [|exact IH]. constructor; [exact IH|].
  rewrite Forall_forall in *. intros y Hy. apply filter_In in Hy. apply Hf, Hy.
Qed.

Lemma pc_head_lt ap i ic il jl : (forall q, In q (lkeys jl) -> i < q) ->
  pcontract ap ((i, ic) :: il) jl = (i, ic) :: pcontract ap il jl.
Proof.
  intros H. destruct jl as [|[j jc] jl]; [rewrite !pc_nil_r; reflexivity|].
  rewrite pc_cons. assert (i < j) by (apply H; left; reflexivity).
  destruct (Nat.ltb_spec i j); [reflexivity|lia].
Qed.
Lemma pc_head_gt ap j jc il jl : (forall q, In q (lkeys il) -> j < q) ->
  pcontract ap il ((j, jc) :: jl) = (j, jc) :: pcontract ap il jl.
Proof.
  intros H. destruct il as [|[i ic] il]; [rewrite !pc_nil_l; reflexivity|].
  rewrite pc_cons. assert (j < i) by (apply H; left; reflexivity).
  destruct (Nat.ltb_spec i j); [lia|]. destruct (Nat.ltb_spec j i); [reflexivity|lia].
Qed.

Lemma pcontract_drop ap x il : forall jl, ssorted il -> ssorted jl ->
  pcontract ap (drop_ix x il) (drop_ix x jl) = drop_ix x (pcontract ap il jl).
Proof.
  induction il as [|[i ic] il IHi]; intros jl Si Sj.
  - cbn [drop_ix filter]. rewrite !pc_nil_l. reflexivity.
  - induction jl as [|[j jc] jl IHj].
    + unfold drop_ix at 2. cbn [filter]. rewrite !pc_nil_r. reflexivity.
    + pose proof (ssorted_tail _ _ Si) as Si'. pose proof (ssorted_tail _ _ Sj) as Sj'.
      rewrite pc_cons. destruct (Nat.ltb_spec i j) as [Hij|Hij]; [|destruct (Nat.ltb_spec j i) as [Hji|Hji]].
      * rewrite (drop_ix_cons x i ic il), (drop_ix_cons x i ic (pcontract ap il ((j, jc) :: jl))).
        destruct (Nat.eqb_spec i x) as [->|Hix].
        -- apply IHi; assumption.
        -- rewrite pc_head_lt; [f_equal; apply IHi; assumption|].
           intros q Hq. apply in_keys_drop in Hq. destruct Hq as [Hq _]. rewrite lkeys_cons in Hq.
           destruct Hq as [<-|Hq]; [exact Hij|]. pose proof (ssorted_head_lt j jc jl q Sj Hq). lia.
      * rewrite (drop_ix_cons x j jc jl), (drop_ix_cons x j jc (pcontract ap ((i, ic) :: il) jl)).
        destruct (Nat.eqb_spec j x) as [->|Hjx].
        -- apply IHj; assumption.
        -- rewrite pc_head_gt; [f_equal; apply IHj; assumption|].
           intros q Hq. apply in_keys_drop in Hq. destruct Hq as [Hq _]. rewrite lkeys_cons in Hq.
           destruct Hq as [<-|Hq]; [exact Hji|]. pose proof (ssorted_head_lt i ic il q Si Hq). lia.
      * assert (i = j) by lia. subst j. rewrite drop_ix_app.
        rewrite (drop_ix_cons x i ic il), (drop_ix_cons x i jc jl).
        destruct (Nat.eqb_spec i x) as [->|Hix].
        -- rewrite IHi by assumption.
           destruct (ic + jc =? papp_of ap x); cbn [drop_ix filter fst Datatypes.app]; [reflexivity|].
           rewrite Nat.eqb_refl. cbn [negb]. reflexivity.
        -- rewrite pc_cons. destruct (Nat.ltb_spec i i); [lia|]. rewrite IHi by assumption. f_equal.
           destruct (ic + jc =? papp_of ap i); [reflexivity|]. cbn [drop_ix filter fst].
           destruct (Nat.eqb_spec i x); [contradiction|reflexivity].
Qed.

Lemma drop_list_sorted B : forall l, ssorted l -> ssorted (drop_list B l).
Proof. induction B as [|x B IH]; intros l H; [exact H|]. apply (IH (drop_ix x l)), drop_ix_sorted, H. Qed.

Lemma pcontract_drop_list ap B : forall il jl, ssorted il -> ssorted jl ->
  pcontract ap (drop_list B il) (drop_list B jl) = drop_list B (pcontract ap il jl).
Proof.
  induction B as [|x B IH]; intros il jl Si Sj; [reflexivity|].
  unfold drop_list. cbn [fold_left]. fold (drop_list B (drop_ix x il)) (drop_list B (drop_ix x jl)).
  fold (drop_list B (drop_ix x (pcontract ap il jl))).
  rewrite IH by (apply drop_ix_sorted; assumption). rewrite pcontract_drop by assumption. reflexivity.
Qed.

Lemma proc_pop_fields2 i p :
  snd (proc_pop i p) = pget p i /\ pnodes (fst (proc_pop i p)) = adel i (pnodes p) /\
  pszs (fst (proc_pop i p)) = pszs p /\ ptrack (fst (proc_pop i p)) = ptrack p /\
  pbatch (fst (proc_pop i p)) = pbatch p /\ pfix (fst (proc_pop i p)) = pfix p /\
  papp (fst (proc_pop i p)) = papp p /\ pssa (fst (proc_pop i p)) = pssa p.
Proof. repeat split. Qed.
Lemma proc_add_fields lg p :
  pnodes (fst (proc_add lg p)) = aset (pssa p) lg (pnodes p) /\ pssa (fst (proc_add lg p)) = S (pssa p) /\
  pszs (fst (proc_add lg p)) = pszs p /\ ptrack (fst (proc_add lg p)) = ptrack p /\
  pbatch (fst (proc_add lg p)) = pbatch p /\ pfix (fst (proc_add lg p)) = pfix p /\
  papp (fst (proc_add lg p)) = papp p.
Proof. repeat split. Qed.
Lemma proc_flops_fields (b : bool) f p :
  let q := if b then proc_add_flops f p else p in
  pnodes q = pnodes p /\ pssa q = pssa p /\ pszs q = pszs p /\ ptrack q = ptrack p /\
  pbatch q = pbatch p /\ pfix q = pfix p /\ papp q = papp p.
Proof. destruct b; repeat split. Qed.

Lemma proc_contract_fields p i j : i <> j -> NoDup (akeys (pnodes p)) ->
  let p' := fst (proc_contract i j p) in
  (forall q, pget p' q = if Nat.eqb q (pssa p) then pcontract (papp p) (pget p i) (pget p j)
                         else if Nat.eqb q i || Nat.eqb q j then [] else pget p q) /\
  NoDup (akeys (pnodes p')) /\ pssa p' = S (pssa p) /\ papp p' = papp p /\ pszs p' = pszs p /\
  ptrack p' = ptrack p /\ pfix p' = pfix p /\ pbatch p' = pbatch p.
Proof.
  intros Hij ND. unfold proc_contract.
  pose proof (proc_pop_fields2 i p) as F1. destruct (proc_pop i p) as [p1 il]. cbn [fst snd] in F1.
  destruct F1 as (Eil & En1 & Es1 & Et1 & Eb1 & Ef1 & Ea1 & Ex1).
  pose proof (proc_pop_fields2 j p1) as F2. destruct (proc_pop j p1) as [p2 jl]. cbn [fst snd] in F2.
  destruct F2 as (Ejl & En2 & Es2 & Et2 & Eb2 & Ef2 & Ea2 & Ex2).
  assert (Ejl' : jl = pget p j).
  { rewrite Ejl. unfold pget. rewrite En1. rewrite d_get_del_ne by (intros E; apply Hij; symmetry; exact E). reflexivity. }
  match goal with |- context [if ptrack p2 then proc_add_flops ?f p2 else p2] =>
    pose proof (proc_flops_fields (ptrack p2) f p2) as F3; cbn zeta in F3;
    set (p3 := if ptrack p2 then proc_add_flops f p2 else p2) in * end.
  destruct F3 as (En3 & Ex3 & Es3 & Et3 & Eb3 & Ef3 & Ea3).
  match goal with |- context [proc_add ?lg p3] =>
    pose proof (proc_add_fields lg p3) as F4; destruct (proc_add lg p3) as [p4 k] end.
  cbn [fst snd] in *. destruct F4 as (En4 & Ex4 & Es4 & Et4 & Eb4 & Ef4 & Ea4).
  cbn zeta. unfold proc_push_path. cbn [pnodes pssa papp pszs ptrack pfix pbatch].
  assert (Enodes : pnodes p4 = aset (pssa p) (pcontract (papp p) (pget p i) (pget p j)) (adel j (adel i (pnodes p)))).
  { rewrite En4, En3, En2, En1, Ex3, Ex2, Ex1, Ea3, Ea2, Ea1, Eil, Ejl'. reflexivity. }
  split; [|split; [rewrite Enodes; apply d_nodup_set, d_nodup_del, d_nodup_del, ND|]].
  - intros q. unfold pget at 1. cbn [pnodes]. rewrite Enodes, d_get_set.
    destruct (q =? pssa p); [reflexivity|].
    destruct (Nat.eqb_spec q j) as [->|Hqj]; [rewrite orb_true_r, d_get_del_eq by (apply d_nodup_del, ND); reflexivity|].
    rewrite d_get_del_ne by exact Hqj.
    destruct (Nat.eqb_spec q i) as [->|Hqi]; [rewrite d_get_del_eq by exact ND; reflexivity|].
    rewrite d_get_del_ne by exact Hqi. reflexivity.
  - repeat split; congruence.
Qed.

Lemma drop_list_nil B : drop_list B [] = [].
Proof. induction B as [|x B IH]; [reflexivity|]. exact IH. Qed.

Record BRel (B : list nat) (p1 p2 : proc) : Prop := {
  br_app : papp p2 = papp p1; br_szs : pszs p2 = pszs p1; br_ssa : pssa p2 = pssa p1;
  br_nd1 : NoDup (akeys (pnodes p1)); br_nd2 : NoDup (akeys (pnodes p2));
  br_get : forall q, pget p2 q = drop_list B (pget p1 q);
  br_sorted : forall q, ssorted (pget p1 q);
  br_t1 : ptrack p1 = true; br_t2 : ptrack p2 = true; br_f1 : pfix p1 = true; br_f2 : pfix p2 = true;
  br_b1 : pbatch p1 = 1%Z; br_b2 : pbatch p2 = pprod (pszs p2) B
}.

Lemma brel_step B p1 p2 i j : BRel B p1 p2 -> NoDup B -> i <> j ->
  (forall x, In x B -> In x (lkeys (pget p1 i)) \/ In x (lkeys (pget p1 j))) ->
  BRel B (fst (proc_contract i j p1)) (fst (proc_contract i j p2)) /\
  (pflops_acc (fst (proc_contract i j p2)) - pflops_acc p2 =
   pflops_acc (fst (proc_contract i j p1)) - pflops_acc p1)%Z.
Proof.
  intros R NB Hij HB.
  destruct (proc_contract_fields p1 i j Hij (br_nd1 B p1 p2 R)) as (G1 & N1 & X1 & A1 & S1 & T1 & F1 & B1).
  destruct (proc_contract_fields p2 i j Hij (br_nd2 B p1 p2 R)) as (G2 & N2 & X2 & A2 & S2 & T2 & F2 & B2).
  cbn zeta in *.
  pose proof (br_sorted B p1 p2 R i) as Si. pose proof (br_sorted B p1 p2 R j) as Sj.
  split.
  - constructor; try congruence.
    + rewrite A2, A1. apply (br_app B p1 p2 R).
    + rewrite S2, S1. apply (br_szs B p1 p2 R).
    + rewrite X2, X1, (br_ssa B p1 p2 R). reflexivity.
    + intros q. rewrite G2, G1, (br_ssa B p1 p2 R), (br_app B p1 p2 R), !(br_get B p1 p2 R).
      destruct (q =? pssa p1); [apply pcontract_drop_list; assumption|].
      destruct ((q =? i) || (q =? j)); [symmetry; apply drop_list_nil|reflexivity].
    + intros q. rewrite G1. destruct (q =? pssa p1); [apply pcontract_sorted; assumption|].
      destruct ((q =? i) || (q =? j)); [constructor|apply (br_sorted B p1 p2 R)].
    + rewrite T1. apply (br_t1 B p1 p2 R).
    + rewrite T2. apply (br_t2 B p1 p2 R).
    + rewrite F1. apply (br_f1 B p1 p2 R).
    + rewrite F2. apply (br_f2 B p1 p2 R).
    + rewrite B1. apply (br_b1 B p1 p2 R).
    + rewrite B2, S2. apply (br_b2 B p1 p2 R).
  - rewrite (fixed_contract_adds p1 i j (br_t1 B p1 p2 R) (br_f1 B p1 p2 R) Hij).
    rewrite (fixed_contract_adds p2 i j (br_t2 B p1 p2 R) (br_f2 B p1 p2 R) Hij).
    rewrite (br_b1 B p1 p2 R), (br_b2 B p1 p2 R), !(br_get B p1 p2 R), (br_szs B p1 p2 R).
    rewrite (batch_factor_restores_flops (pszs p1) B (pget p1 i) (pget p1 j) NB (ssorted_nodup _ Si) (ssorted_nodup _ Sj) HB).
    lia.
Qed.

(* every batch index sits on one of the two operands, at every step of the unsimplified run *)
Fixpoint present_b (B : list nat) (p1 : proc) (path : list (nat * nat)) : bool :=
  match path with
  | [] => true
  | (i, j) :: path' =>
      negb (Nat.eqb i j) &&
      forallb (fun x => memb x (lkeys (pget p1 i)) || memb x (lkeys (pget p1 j))) B &&
      present_b B (fst (proc_contract i j p1)) path'
  end.

Definition run_path (p : proc) (path : list (nat * nat)) : proc :=
  proc_run p (map (fun ij => OpContract (fst ij) (snd ij)) path).

Theorem brel_run B path : forall p1 p2, BRel B p1 p2 -> NoDup B -> present_b B p1 path = true ->
  (pflops_acc (run_path p2 path) - pflops_acc p2 = pflops_acc (run_path p1 path) - pflops_acc p1)%Z.
Proof.
  induction path as [|[i j] path IH]; intros p1 p2 R NB Hp; [unfold run_path; cbn; lia|].
  cbn [present_b] in Hp. apply andb_true_iff in Hp. destruct Hp as [Hp Hrest]. apply andb_true_iff in Hp.
  destruct Hp as [Hij HB]. apply negb_true_iff, Nat.eqb_neq in Hij. rewrite forallb_forall in HB.
  assert (HB' : forall x, In x B -> In x (lkeys (pget p1 i)) \/ In x (lkeys (pget p1 j))).
  { intros x Hx. specialize (HB x Hx). apply orb_true_iff in HB. rewrite !memb_In in HB. exact HB. }
  destruct (brel_step B p1 p2 i j R NB Hij HB') as [R' E].
  specialize (IH _ _ R' NB Hrest).
  unfold run_path in *. cbn [map fst snd proc_run fold_left proc_step] in *. unfold proc_run in *. lia.
Qed.

(* simplify_batch keeps the node identifiers *)
Lemma remove_ix_keys x p : akeys (pnodes (proc_remove_ix x p)) = akeys (pnodes p).
Proof.
  unfold proc_remove_ix. cbn [pnodes]. generalize (match aget x (pedges p) with Some l => l | None => [] end) as ks.
  intros ks. generalize (pnodes p) as nd. unfold plegs. induction ks as [|k ks IH]; intros nd; cbn [fold_left]; [reflexivity|].
  rewrite IH. destruct (aget k nd) as [l|] eqn:E; [|reflexivity].
  apply d_keys_set_in. destruct (in_dec Nat.eq_dec k (akeys nd)) as [H|H]; [exact H|]. apply d_get_none in H. congruence.
Qed.
Lemma simplify_batch_keys p : akeys (pnodes (proc_simplify_batch p)) = akeys (pnodes p).
Proof.
  unfold proc_simplify_batch. generalize (batch_indices p) as B. intros B. revert p.
  induction B as [|x B IH]; intros p; cbn [fold_left]; [reflexivity|]. rewrite IH, remove_ix_keys. reflexivity.
Qed.

(* the code as it is now: after simplify_batch the reported flops of any run are those the same
   run reports without simplify_batch, i.e. with every operand's full legs *)
Theorem fixed_run_eq_unsimplified p path :
  ptrack p = true -> pfix p = true -> pbatch p = 1%Z -> proc_edges_ok p ->
  NoDup (akeys (pnodes p)) -> (forall q, ssorted (pget p q)) -> NoDup (batch_indices p) ->
  present_b (batch_indices p) p path = true ->
  (pflops_acc (run_path (proc_simplify_batch p) path) - pflops_acc p =
   pflops_acc (run_path p path) - pflops_acc p)%Z.
Proof.
  intros Ht Hf Hb Hok ND Hs NB Hp.
  destruct (simplify_batch_spec p Hok) as (G & Bf & Sz & Ac & Tr & Fx). cbn zeta in *.
  assert (R : BRel (batch_indices p) p (proc_simplify_batch p)).
  { constructor; try assumption; try congruence.
    - clear. unfold proc_simplify_batch. generalize (batch_indices p). intros B. revert p.
      induction B as [|x B IH]; intros p; cbn [fold_left]; [reflexivity|]. rewrite IH. reflexivity.
    - clear. unfold proc_simplify_batch. generalize (batch_indices p). intros B. revert p.
      induction B as [|x B IH]; intros p; cbn [fold_left]; [reflexivity|]. rewrite IH. reflexivity.
    - rewrite simplify_batch_keys. exact ND.
    - rewrite Bf, Hb, Sz. lia. }
  pose proof (brel_run (batch_indices p) path p (proc_simplify_batch p) R NB Hp) as E.
  rewrite Ac in E. exact E.
Qed.

(* boolean form of the structural hypotheses, evaluated per run *)
Fixpoint ssorted_from_b (lo : nat) (l : plegs) : bool :=
  match l with
  | [] => true
  | (k, _) :: l' => Nat.ltb lo k && ssorted_from_b k l'
  end.
Definition ssorted_b (l : plegs) : bool :=
  match l with [] => true | (k, _) :: l' => ssorted_from_b k l' end.

Lemma ssorted_from_b_sound l : forall lo, ssorted_from_b lo l = true ->
  ssorted l /\ forall q, In q (lkeys l) -> lo < q.
Proof.
  induction l as [|[k c] l IH]; intros lo H; cbn in H.
  - split; [constructor|intros q []].
  - apply andb_true_iff in H. destruct H as [H1 H2]. apply Nat.ltb_lt in H1. destruct (IH k H2) as [S Hq].
    split; [apply sorted_cons_intro; assumption|].
    intros q. rewrite lkeys_cons. intros [<-|Hin]; [exact H1|]. specialize (Hq q Hin). lia.
Qed.
Lemma ssorted_b_sound l : ssorted_b l = true -> ssorted l.
Proof.
  destruct l as [|[k c] l]; intros H; [constructor|]. cbn in H. destruct (ssorted_from_b_sound l k H) as [S Hq].
  apply sorted_cons_intro; assumption.
Qed.

Definition proc_ok_b (p : proc) : bool :=
  ptrack p && pfix p && Z.eqb (pbatch p) 1 && proc_edges_ok_b p && nodup_nat_b (akeys (pnodes p)) &&
  forallb (fun it => ssorted_b (snd it)) (pnodes p) && nodup_nat_b (batch_indices p).

Theorem fixed_run_eq_unsimplified_checked p path :
  proc_ok_b p = true -> present_b (batch_indices p) p path = true ->
  pflops_acc (run_path (proc_simplify_batch p) path) = pflops_acc (run_path p path).
Proof.
  unfold proc_ok_b. rewrite !andb_true_iff. intros [[[[[[Ht Hf] Hb] He] Hn] Hs] Hnb] Hp.
  apply Z.eqb_eq in Hb. apply proc_edges_ok_b_sound in He. apply nodup_nat_b_sound in Hn. apply nodup_nat_b_sound in Hnb.
  assert (Hs' : forall q, ssorted (pget p q)).
  { intros q. unfold pget. destruct (aget q (pnodes p)) as [l|] eqn:E; [|constructor].
    rewrite forallb_forall in Hs. apply ssorted_b_sound. apply (Hs (q, l) (d_get_in _ _ _ E)). }
  pose proof (fixed_run_eq_unsimplified p path Ht Hf Hb He Hn Hs' Hnb Hp). lia.
Qed.

(* ------------------------------------------------------------------ *)
(* simplify_single_terms: compute_simplified on a leaf's raw legs (sorted, one entry per
   occurrence) merges repeated indices and drops the fully summed ones -- the tree's leaf rule *)
Fixpoint pcount (j : nat) (l : plegs) : nat :=
  match l with [] => 0 | (k, c) :: l' => (if Nat.eqb k j then c else 0) + pcount j l' end.
Fixpoint nd_from (lo : nat) (l : plegs) : Prop :=
  match l with [] => True | (k, _) :: l' => lo <= k /\ nd_from k l' end.

Lemma pcount_below lo l j : nd_from lo l -> j < lo -> pcount j l = 0.
Proof.
  revert lo. induction l as [|[k c] l IH]; intros lo H Hj; cbn in *; [reflexivity|].
  destruct H as [H1 H2]. destruct (Nat.eqb_spec k j); [lia|]. apply (IH k H2). lia.
Qed.

Lemma simplified_from_spec ap l : forall cur cnt, nd_from cur l -> 0 < cnt -> pos l ->
  let R := simplified_from ap cur cnt l in
  ssorted R /\ pos R /\ (forall j, In j (lkeys R) -> cur <= j) /\
  forall j, lget0 j R = (let c := (if Nat.eqb cur j then cnt else 0) + pcount j l in
                         if Nat.eqb c (papp_of ap j) then 0 else c).
Proof.
  induction l as [|[k c] l IH]; intros cur cnt Hnd Hc Hp; cbn zeta.
  - cbn [simplified_from pcount]. destruct (Nat.eqb_spec cnt (papp_of ap cur)) as [E|E].
    + split; [constructor|]. split; [intros kv []|]. split; [intros j []|].
      intros j. change (lget0 j []) with 0. rewrite Nat.add_0_r.
      destruct (Nat.eqb_spec cur j) as [<-|]; [destruct (Nat.eqb_spec cnt (papp_of ap cur)); [reflexivity|contradiction]|].
      destruct (0 =? papp_of ap j); reflexivity.
    + split; [repeat constructor|]. split; [intros kv [<-|[]]; exact Hc|]. split; [intros j [<-|[]]; cbn; lia|].
      intros j. rewrite Nat.add_0_r. destruct (Nat.eqb_spec cur j) as [<-|Hne].
      * rewrite pg_eq. destruct (Nat.eqb_spec cnt (papp_of ap cur)); [contradiction|reflexivity].
      * rewrite (pg_ne cur cnt [] j) by congruence. change (lget0 j []) with 0. destruct (0 =? papp_of ap j); reflexivity.
  - cbn [nd_from] in Hnd. destruct Hnd as [Hle Hnd].
    assert (Hpc : 0 < c) by (apply (Hp (k, c)); left; reflexivity).
    assert (Hp' : pos l) by (intros kv H; apply Hp; right; exact H).
    cbn [simplified_from pcount]. destruct (Nat.eqb_spec k cur) as [->|Hk].
    + destruct (IH cur (cnt + c) Hnd ltac:(lia) Hp') as (S & P & K & G). cbn zeta in *.
      split; [exact S|]. split; [exact P|]. split; [exact K|].
      intros j. rewrite G. destruct (cur =? j); [|reflexivity]. rewrite Nat.add_assoc. reflexivity.
    + assert (Hlt : cur < k) by lia.
      destruct (IH k c Hnd Hpc Hp') as (S & P & K & G). cbn zeta in *.
      assert (Hcur0 : lget0 cur (simplified_from ap k c l) = 0).
      { apply lget0_notin. intros H. specialize (K cur H). lia. }
      assert (Hpc0 : pcount cur l = 0) by (apply (pcount_below k l cur Hnd Hlt)).
      destruct (Nat.eqb_spec cnt (papp_of ap cur)) as [E|E]; cbn [Datatypes.app].
      * split; [exact S|]. split; [exact P|]. split; [intros j Hj; specialize (K j Hj); lia|].
        intros j. rewrite G. destruct (Nat.eqb_spec cur j) as [<-|Hne].
        -- destruct (Nat.eqb_spec k cur); [lia|]. rewrite Hpc0, !Nat.add_0_r. cbn [Nat.add].
           repeat match goal with |- context [?a =? ?b] => destruct (Nat.eqb_spec a b) end; try reflexivity; try lia.
        -- destruct (k =? j); reflexivity.
      * split; [apply sorted_cons_intro; [exact S|intros j Hj; specialize (K j Hj); lia]|].
        split; [intros kv [<-|H]; [exact Hc|apply P, H]|]. split; [intros j [<-|Hj]; [cbn; lia|specialize (K j Hj); lia]|].
        intros j. destruct (Nat.eqb_spec cur j) as [<-|Hne].
        -- rewrite pg_eq. destruct (Nat.eqb_spec k cur); [lia|]. rewrite Hpc0, !Nat.add_0_r.
           destruct (Nat.eqb_spec cnt (papp_of ap cur)); [contradiction|reflexivity].
        -- rewrite (pg_ne cur cnt _ j) by congruence. rewrite G. destruct (k =? j); reflexivity.
Qed.

Theorem compute_simplified_spec ap l : nd_from 0 l -> pos l ->
  let R := compute_simplified ap l in
  ssorted R /\ pos R /\ (forall j, In j (lkeys R) -> 0 < pcount j l) /\
  forall j, lget0 j R = (if Nat.eqb (pcount j l) (papp_of ap j) then 0 else pcount j l).
Proof.
  intros Hnd Hp. cbn zeta. destruct l as [|[k c] l].
  - cbn [compute_simplified pcount]. split; [constructor|]. split; [intros kv []|]. split; [intros j []|].
    intros j. change (lget0 j []) with 0. destruct (0 =? papp_of ap j); reflexivity.
  - cbn [compute_simplified]. cbn [nd_from] in Hnd. destruct Hnd as [_ Hnd].
    assert (Hc : 0 < c) by (apply (Hp (k, c)); left; reflexivity).
    assert (Hp' : pos l) by (intros kv H; apply Hp; right; exact H).
    destruct (simplified_from_spec ap l k c Hnd Hc Hp') as (S & P & K & G). cbn zeta in *.
    split; [exact S|]. split; [exact P|]. split.
    + intros j Hj. assert (Hpos : 0 < lget0 j (simplified_from ap k c l)).
      { apply (wfl_key_pos j _ (conj (ssorted_nodup _ S) P)), Hj. }
      rewrite G in Hpos. cbn [pcount]. destruct (_ =? papp_of ap j) in Hpos; lia.
    + intros j. rewrite G. cbn [pcount]. reflexivity.
Qed.

(* PathsRoundtrip.v -- C10: tree -> (ssa | linear) path -> tree, for every children-first
   order of the internal nodes (dfs included), gives back the same tree up to the left/right
   order of children, hence the same set of intermediates. *)
From Coq Require Import Lia Permutation.
From Ctg Require Import Base Net Paths BaseFacts PathsFacts.
From Ctg Require ExecOrderFacts.
Module E := Ctg.ExecOrderFacts.

(* equality up to swapping the two children at any node *)
Inductive sim : tree -> tree -> Prop :=
| sim_leaf k : sim (Leaf k) (Leaf k)
| sim_node l r l' r' : sim l l' -> sim r r' -> sim (Node l r) (Node l' r')
| sim_swap l r l' r' : sim l l' -> sim r r' -> sim (Node l r) (Node r' l').

Lemma sim_refl t : sim t t.
Proof. induction t; constructor; assumption. Qed.

Lemma sim_leaves a b : sim a b -> Permutation (leaves a) (leaves b).
Proof.
  induction 1; cbn [leaves]; [reflexivity| |].
  - apply Permutation_app; assumption.
  - rewrite Permutation_app_comm. apply Permutation_app; assumption.
Qed.

Lemma sim_mk_pair l r x y : sim l x -> sim r y -> sim (Node l r) (mk_pair x y) /\ sim (Node l r) (mk_pair y x).
Proof.
  intros Hl Hr. unfold mk_pair.
  split; destruct (Nat.eqb _ _); destruct (Nat.ltb _ _); constructor; assumption.
Qed.

(* the intermediates (as sorted leaf sets) of sim-related trees coincide *)
Lemma node_set_perm a b : NoDup (leaves a) -> Permutation (leaves a) (leaves b) -> node_set a = node_set b.
Proof.
  intros Hnd HP. unfold node_set. apply sort_asc_of_perm; [exact Hnd| |].
  - apply sort_asc_sasc. eapply Permutation_NoDup; eassumption.
  - rewrite HP. symmetry. apply sort_asc_perm.
Qed.

Lemma NoDup_app_l {A} (a b : list A) : NoDup (a ++ b) -> NoDup a.
Proof. intros H. induction a as [|x a IH]; [constructor|]. inversion H; subst. constructor; [rewrite in_app_iff in *; tauto|auto]. Qed.
Lemma NoDup_app_r {A} (a b : list A) : NoDup (a ++ b) -> NoDup b.
Proof. intros H. induction a as [|x a IH]; [exact H|]. inversion H; subst. auto. Qed.

Lemma sim_node_sets a b : sim a b -> NoDup (leaves a) ->
  Permutation (map node_set (post_sub a)) (map node_set (post_sub b)).
Proof.
  induction 1 as [k|l r l' r' Hl IHl Hr IHr|l r l' r' Hl IHl Hr IHr]; intros Hnd; cbn [post_sub]; [reflexivity| |];
    cbn [leaves] in Hnd; pose proof (NoDup_app_l _ _ Hnd) as Hndl; pose proof (NoDup_app_r _ _ Hnd) as Hndr;
    rewrite !map_app; cbn [map].
  - apply Permutation_app; [apply IHl, Hndl|]. apply Permutation_app; [apply IHr, Hndr|].
    rewrite (node_set_perm (Node l r) (Node l' r')); [reflexivity|exact Hnd|].
    cbn [leaves]. apply Permutation_app; apply sim_leaves; assumption.
  - rewrite (node_set_perm (Node l r) (Node r' l')); [|exact Hnd|].
    + rewrite !app_assoc. apply Permutation_app; [|reflexivity].
      rewrite Permutation_app_comm. apply Permutation_app; [apply IHr, Hndr|apply IHl, Hndl].
    + cbn [leaves]. rewrite Permutation_app_comm. apply Permutation_app; apply sim_leaves; assumption.
Qed.

Lemma NoDup_app_intro' {A} (a b : list A) :
  NoDup a -> NoDup b -> (forall x, In x a -> ~ In x b) -> NoDup (a ++ b).
Proof.
  induction a as [|x a IH]; cbn; intros Ha Hb Hd; [exact Hb|].
  inversion Ha as [|? ? Hnin Ha']; subst. constructor.
  - rewrite in_app_iff. intros [H|H]; [contradiction|]. apply (Hd x); [left; reflexivity|exact H].
  - apply IH; [exact Ha'|exact Hb|]. intros y Hy. apply Hd. right; exact Hy.
Qed.

(* ------------------------------------------------------------------ *)
(* association-list facts for the id -> node map of from_path(ssa_path=...) *)
Lemma sm_get_in k v (m : smap) : NoDup (map fst m) -> In (k, v) m -> sm_get k m = v.
Proof.
  induction m as [|[k0 v0] m IH]; cbn [map fst sm_get]; intros Hnd Hin; [destruct Hin|].
  inversion Hnd as [|? ? Hn Hnd']; subst. destruct Hin as [E|Hin].
  - inversion E; subst. rewrite Nat.eqb_refl. reflexivity.
  - destruct (Nat.eqb_spec k0 k) as [->|_]; [|apply IH; assumption].
    exfalso. apply Hn. apply in_map_iff. exists (k, v). split; [reflexivity|exact Hin].
Qed.
Lemma in_sm_del i k v (m : smap) : In (k, v) (sm_del i m) <-> In (k, v) m /\ k <> i.
Proof.
  unfold sm_del. rewrite filter_In. cbn [fst]. rewrite negb_true_iff, Nat.eqb_neq. tauto.
Qed.
Lemma sm_del_keys_nodup i (m : smap) : NoDup (map fst m) -> NoDup (map fst (sm_del i m)).
Proof.
  unfold sm_del. induction m as [|[k v] m IH]; cbn [map filter fst]; intros H; [constructor|].
  inversion H as [|? ? Hn H']; subst. destruct (negb (Nat.eqb k i)); cbn [map fst]; [constructor|]; auto.
  intros Hin. apply Hn. apply in_map_iff in Hin. destruct Hin as ([k' v'] & E & Hin). cbn in E. subst k'.
  apply filter_In in Hin. apply in_map_iff. exists (k, v'). split; [reflexivity|apply Hin].
Qed.
Lemma sm_del_absent i (m : smap) : ~ In i (map fst m) -> sm_del i m = m.
Proof.
  unfold sm_del. induction m as [|[k w] m IH]; cbn [map filter fst]; intros Hn; [reflexivity|].
  destruct (Nat.eqb_spec k i) as [->|Hne]; cbn [negb].
  - exfalso. apply Hn. left; reflexivity.
  - f_equal. apply IH. intros H. apply Hn. right; exact H.
Qed.
Lemma sm_del_length i v (m : smap) : NoDup (map fst m) -> In (i, v) m -> S (length (sm_del i m)) = length m.
Proof.
  induction m as [|[k w] m IH]; cbn [map fst length]; intros Hnd Hin; [destruct Hin|].
  inversion Hnd as [|? ? Hn Hnd']; subst. unfold sm_del. cbn [filter fst]. fold (sm_del i m).
  destruct (Nat.eqb_spec k i) as [->|Hne]; cbn [negb length].
  - rewrite (sm_del_absent i m Hn). reflexivity.
  - f_equal. apply IH; [exact Hnd'|]. destruct Hin as [E0|Hin]; [inversion E0; congruence|exact Hin].
Qed.
Lemma sm_del_comm i j (m : smap) : sm_del i (sm_del j m) = sm_del j (sm_del i m).
Proof.
  unfold sm_del. induction m as [|[k v] m IH]; [reflexivity|]. cbn [filter fst].
  destruct (negb (Nat.eqb k j)) eqn:Ej, (negb (Nat.eqb k i)) eqn:Ei; cbn [filter fst]; rewrite ?Ej, ?Ei, IH; reflexivity.
Qed.
Lemma sm_get_del_other i k (m : smap) : k <> i -> sm_get k (sm_del i m) = sm_get k m.
Proof.
  intros Hne. unfold sm_del. induction m as [|[k0 v0] m IH]; [reflexivity|]. cbn [filter fst sm_get].
  destruct (Nat.eqb_spec k0 i) as [->|Hn]; cbn [negb sm_get].
  - destruct (Nat.eqb_spec i k); [congruence|exact IH].
  - destruct (Nat.eqb k0 k); [reflexivity|exact IH].
Qed.

Lemma nm_get_cons p v pos q : nm_get q ((p, v) :: pos) = if tree_eqb p q then v else nm_get q pos.
Proof. reflexivity. Qed.
Lemma tree_eqb_neq a b : a <> b -> tree_eqb a b = false.
Proof. intros H. destruct (tree_eqb a b) eqn:E; [|reflexivity]. apply tree_eqb_eq in E. contradiction. Qed.

Lemma nm_get_leaf_map N i : i < N -> nm_get (Leaf i) (leaf_map N) = i.
Proof.
  unfold leaf_map. intros Hi.
  assert (G : forall s n, s <= i < s + n -> nm_get (Leaf i) (map (fun j => (Leaf j, j)) (seq s n)) = i).
  { intros s n. revert s. induction n as [|n IH]; intros s H; [lia|]. cbn [seq map nm_get tree_eqb].
    destruct (Nat.eqb_spec s i) as [->|Hne]; [reflexivity|]. apply IH. lia. }
  apply G. lia.
Qed.

Lemma subs_NoDup_leaves t : NoDup (leaves t) -> forall a, In a (E.subs t) -> NoDup (leaves a).
Proof.
  induction t as [k|l IHl r IHr]; intros ND a; cbn [E.subs].
  - intros [<-|[]]. exact ND.
  - cbn [leaves] in ND. intros [<-|Ha]; [exact ND|]. apply in_app_or in Ha.
    destruct Ha as [Ha|Ha]; [apply IHl|apply IHr]; try assumption; [eapply NoDup_app_l|eapply NoDup_app_r]; eassumption.
Qed.

(* ------------------------------------------------------------------ *)
Section RT.
Variable N : nat.
Variable t : tree.
Hypothesis ND : NoDup (leaves t).
Hypothesis HL : forall k, In k (leaves t) -> k < N.

Definition avail (done : list tree) (q : tree) : Prop :=
  (exists i, q = Leaf i /\ In i (leaves t)) \/ In q done.
Definition consumed (done : list tree) (q : tree) : Prop := exists p, In p done /\ E.child q p.

Record Inv (done : list tree) (pos : nmap) (nodes : smap) : Prop := {
  inv_len : length nodes + length done = N;
  inv_nd : NoDup (map fst nodes);
  inv_val : forall q, avail done q -> ~ consumed done q -> exists q', In (nm_get q pos, q') nodes /\ sim q q';
  inv_inj : forall q1 q2, avail done q1 -> avail done q2 -> nm_get q1 pos = nm_get q2 pos -> q1 = q2;
  inv_lt : forall q, avail done q -> nm_get q pos < N + length done;
  inv_keys : forall k v, In (k, v) nodes -> k < N + length done
}.

Lemma inv_init : Inv [] (leaf_map N) (map (fun i => (i, Leaf i)) (seq 0 N)).
Proof.
  constructor.
  - rewrite map_length, seq_length. cbn. lia.
  - rewrite map_map. cbn [fst]. rewrite map_id. apply seq_NoDup.
  - intros q [(i & -> & Hi)|[]] _. exists (Leaf i). rewrite nm_get_leaf_map by (apply HL, Hi).
    split; [|constructor]. apply in_map_iff. exists i. split; [reflexivity|]. apply in_seq. specialize (HL i Hi). lia.
  - intros q1 q2 [(i & -> & Hi)|[]] [(j & -> & Hj)|[]]. rewrite !nm_get_leaf_map by (apply HL; assumption). congruence.
  - intros q [(i & -> & Hi)|[]]. rewrite nm_get_leaf_map by (apply HL, Hi). specialize (HL i Hi). cbn. lia.
  - intros k v H. apply in_map_iff in H. destruct H as (i & E1 & Hi). inversion E1; subst. apply in_seq in Hi. cbn. lia.
Qed.

Lemma inv_step done pos nodes l r t' :
  Inv done pos nodes ->
  In (Node l r) (post_sub t) -> ~ In (Node l r) done -> (forall p, In p done -> In p (post_sub t)) ->
  (forall q, E.child q (Node l r) -> E.is_leaf q \/ In q done) ->
  (t' = mk_pair (sm_get (nm_get l pos) nodes) (sm_get (nm_get r pos) nodes) \/
   t' = mk_pair (sm_get (nm_get r pos) nodes) (sm_get (nm_get l pos) nodes)) ->
  nm_get l pos <> nm_get r pos /\
  (exists x, In (nm_get l pos, x) nodes) /\ (exists y, In (nm_get r pos, y) nodes) /\
  Inv (done ++ [Node l r]) ((Node l r, N + length done) :: pos)
      (sm_del (nm_get r pos) (sm_del (nm_get l pos) nodes) ++ [(N + length done, t')]).
Proof.
  intros I Hp Hnd Hdone Hcf Ht'. set (p := Node l r) in *.
  assert (Hps : In p (E.subs t)) by (apply E.post_sub_iff in Hp; apply Hp).
  assert (Hchild : forall q, E.child q p -> avail done q /\ ~ consumed done q).
  { intros q Hq. split.
    - destruct (Hcf q Hq) as [Hlf|Hin]; [|right; exact Hin]. left. destruct q as [i|]; [|destruct Hlf].
      exists i. split; [reflexivity|]. apply (E.subs_leaves t (Leaf i)); [eapply E.child_in_subs; eassumption|left; reflexivity].
    - intros (p' & Hp' & Hc'). apply Hnd.
      assert (Hp's : In p' (E.subs t)) by (apply Hdone in Hp'; apply E.post_sub_iff in Hp'; apply Hp').
      rewrite (E.unique_parent t ND q p p' Hps Hp's Hq Hc'). exact Hp'. }
  assert (Hcl : E.child l p) by (left; reflexivity). assert (Hcr : E.child r p) by (right; reflexivity).
  destruct (Hchild l Hcl) as [Hal Hul]. destruct (Hchild r Hcr) as [Har Hur].
  assert (Hlr : l <> r).
  { intros E0. pose proof (subs_NoDup_leaves t ND p Hps) as Hn. cbn [leaves] in Hn.
    apply (E.subs_disjoint l r l r Hn (E.subs_self l) (E.subs_self r)). rewrite E0. reflexivity. }
  set (a := nm_get l pos) in *. set (b := nm_get r pos) in *.
  assert (Hab : a <> b) by (intros E0; apply Hlr; apply (inv_inj _ _ _ I l r Hal Har E0)).
  destruct (inv_val _ _ _ I l Hal Hul) as (x & Hx & Sx). destruct (inv_val _ _ _ I r Har Hur) as (y & Hy & Sy).
  fold a in Hx. fold b in Hy.
  pose proof (inv_nd _ _ _ I) as Hndk.
  assert (Ega : sm_get a nodes = x) by (apply sm_get_in; assumption).
  assert (Egb : sm_get b nodes = y) by (apply sm_get_in; assumption).
  assert (St' : sim p t').
  { rewrite Ega, Egb in Ht'. destruct (sim_mk_pair l r x y Sx Sy) as [S1 S2]. destruct Ht' as [-> | ->]; assumption. }
  split; [exact Hab|]. split; [exists x; exact Hx|]. split; [exists y; exact Hy|].
  assert (Havail : forall q, avail (done ++ [p]) q <-> avail done q \/ q = p).
  { intros q. unfold avail. rewrite in_app_iff. cbn [In]. split; [intros [H|[H|[H|[]]]]|intros [[H|H]|H]]; auto. }
  assert (Hpn : ~ avail done p).
  { intros [(i & E0 & _)|H]; [discriminate|contradiction]. }
  assert (Hget : forall q, avail done q -> nm_get q ((p, N + length done) :: pos) = nm_get q pos).
  { intros q Hq. rewrite nm_get_cons, tree_eqb_neq; [reflexivity|]. intros <-. contradiction. }
  assert (Hgetp : nm_get p ((p, N + length done) :: pos) = N + length done).
  { rewrite nm_get_cons, tree_eqb_refl. reflexivity. }
  constructor.
  - (* length *)
    rewrite !app_length. cbn [length].
    assert (Hyd : In (b, y) (sm_del a nodes)) by (apply in_sm_del; split; [exact Hy|congruence]).
    pose proof (sm_del_length b y (sm_del a nodes) (sm_del_keys_nodup a nodes Hndk) Hyd).
    pose proof (sm_del_length a x nodes Hndk Hx). pose proof (inv_len _ _ _ I). lia.
  - (* NoDup keys *)
    rewrite map_app. cbn [map fst]. apply NoDup_app_intro'.
    + apply sm_del_keys_nodup, sm_del_keys_nodup, Hndk.
    + repeat constructor. intros [].
    + intros k Hk [<-|[]]. apply in_map_iff in Hk. destruct Hk as ([k' v'] & E0 & Hin). cbn in E0. subst k'.
      apply in_sm_del in Hin. destruct Hin as [Hin _]. apply in_sm_del in Hin. destruct Hin as [Hin _].
      pose proof (inv_keys _ _ _ I _ _ Hin). lia.
  - (* values *)
    intros q Hq Hunc. apply Havail in Hq. destruct Hq as [Hq| ->].
    + rewrite (Hget q Hq).
      assert (Hunc0 : ~ consumed done q).
      { intros (p' & Hp' & Hc). apply Hunc. exists p'. split; [apply in_or_app; left; exact Hp'|exact Hc]. }
      assert (Hql : q <> l) by (intros ->; apply Hunc; exists p; split; [apply in_or_app; right; left; reflexivity|exact Hcl]).
      assert (Hqr : q <> r) by (intros ->; apply Hunc; exists p; split; [apply in_or_app; right; left; reflexivity|exact Hcr]).
      destruct (inv_val _ _ _ I q Hq Hunc0) as (q' & Hq' & Sq). exists q'. split; [|exact Sq].
      apply in_or_app. left. apply in_sm_del. split; [apply in_sm_del; split; [exact Hq'|]|].
      * intros E0. apply Hql. apply (inv_inj _ _ _ I q l Hq Hal E0).
      * intros E0. apply Hqr. apply (inv_inj _ _ _ I q r Hq Har E0).
    + rewrite Hgetp. exists t'. split; [apply in_or_app; right; left; reflexivity|exact St'].
  - (* injectivity *)
    intros q1 q2 H1 H2. apply Havail in H1. apply Havail in H2.
    destruct H1 as [H1| ->], H2 as [H2| ->]; rewrite ?Hgetp, ?(Hget _ H1), ?(Hget _ H2).
    + apply (inv_inj _ _ _ I); assumption.
    + intros E0. pose proof (inv_lt _ _ _ I q1 H1). lia.
    + intros E0. pose proof (inv_lt _ _ _ I q2 H2). lia.
    + reflexivity.
  - intros q Hq. apply Havail in Hq. rewrite app_length. cbn [length].
    destruct Hq as [Hq| ->]; [rewrite (Hget q Hq); pose proof (inv_lt _ _ _ I q Hq); lia|rewrite Hgetp; lia].
  - intros k v Hin. rewrite app_length. cbn [length]. apply in_app_or in Hin. destruct Hin as [Hin|[E0|[]]].
    + apply in_sm_del in Hin. destruct Hin as [Hin _]. apply in_sm_del in Hin. destruct Hin as [Hin _].
      pose proof (inv_keys _ _ _ I _ _ Hin). lia.
    + inversion E0; subst. lia.
Qed.
End RT.

(* ------------------------------------------------------------------ *)
Definition pl (ab : nat * nat) : list nat := [fst ab; snd ab].

Lemma from_ssa_step_pair nodes ssa i j : i <> j ->
  from_ssa_step (Some (nodes, ssa)) [i; j] =
  Some (sm_del j (sm_del i nodes) ++ [(ssa, mk_pair (sm_get i nodes) (sm_get j nodes))], S ssa).
Proof.
  intros Hij. unfold from_ssa_step. cbn [fold_left fst snd app contract_nodes].
  rewrite (sm_get_del_other i j nodes) by congruence. reflexivity.
Qed.

Lemma count_internal_nleaves t : S (count_internal t) = nleaves t.
Proof. induction t as [k|l IHl r IHr]; cbn [count_internal nleaves]; lia. Qed.

Section RT2.
Variable N : nat.
Variable t : tree.
Hypothesis ND : NoDup (leaves t).
Hypothesis HL : forall k, In k (leaves t) -> k < N.

(* admissible orders: each internal node of t at most once, children first *)
Definition ok_order (trav : list tree) : Prop :=
  NoDup trav /\ (forall p, In p trav -> In p (post_sub t)) /\
  (forall pre p suf, trav = pre ++ p :: suf -> forall q, E.child q p -> E.is_leaf q \/ In q pre).

Definition ssa_init : option (smap * nat) := Some (map (fun i => (i, Leaf i)) (seq 0 N), N).

Lemma ssa_loop rest : forall done pos acc nodes,
  Inv N t done pos nodes -> length acc = length done ->
  fold_left from_ssa_step (map pl acc) ssa_init = Some (nodes, N + length done) ->
  ok_order (done ++ rest) ->
  exists pos' acc' nodes',
    fold_left (ssa_path_step N) rest (pos, acc) = (pos', acc') /\
    fold_left from_ssa_step (map pl acc') ssa_init = Some (nodes', N + length (done ++ rest)) /\
    Inv N t (done ++ rest) pos' nodes'.
Proof.
  induction rest as [|p rest IH]; intros done pos acc nodes I Hlen Hrun Hok.
  - exists pos, acc, nodes. rewrite app_nil_r. auto.
  - destruct Hok as (Hnd & Hin & Hcf).
    assert (Hp : In p (post_sub t)) by (apply Hin, in_or_app; right; left; reflexivity).
    assert (Hpn : ~ In p done).
    { intros H. apply NoDup_remove_2 in Hnd. apply Hnd, in_or_app. left; exact H. }
    assert (Hdone : forall q, In q done -> In q (post_sub t)) by (intros q Hq; apply Hin, in_or_app; left; exact Hq).
    destruct p as [k|l r]; [apply E.post_sub_iff in Hp; destruct Hp as [_ []]|].
    set (a := nm_get l pos). set (b := nm_get r pos).
    cbn [fold_left]. unfold ssa_path_step at 2. fold a b.
    set (t' := mk_pair (sm_get (Nat.min a b) nodes) (sm_get (Nat.max a b) nodes)).
    assert (Ht' : t' = mk_pair (sm_get a nodes) (sm_get b nodes) \/ t' = mk_pair (sm_get b nodes) (sm_get a nodes)).
    { unfold t'. destruct (Nat.le_ge_cases a b) as [H|H].
      - rewrite Nat.min_l, Nat.max_r by exact H. left; reflexivity.
      - rewrite Nat.min_r, Nat.max_l by exact H. right; reflexivity. }
    destruct (inv_step N t ND done pos nodes l r t' I Hp Hpn Hdone (Hcf done (Node l r) rest eq_refl) Ht')
      as (Hab & _ & _ & I').
    fold a b in Hab, I'.
    assert (Hdel : sm_del (Nat.max a b) (sm_del (Nat.min a b) nodes) = sm_del b (sm_del a nodes)).
    { destruct (Nat.le_ge_cases a b) as [H|H].
      - rewrite Nat.min_l, Nat.max_r by exact H. reflexivity.
      - rewrite Nat.min_r, Nat.max_l by exact H. apply sm_del_comm. }
    replace (length (acc ++ [(Nat.min a b, Nat.max a b)]) + N - 1) with (N + length done)
      by (rewrite app_length; cbn [length]; lia).
    destruct (IH (done ++ [Node l r]) ((Node l r, N + length done) :: pos) (acc ++ [(Nat.min a b, Nat.max a b)])
                 (sm_del b (sm_del a nodes) ++ [(N + length done, t')]) I') as (pos' & acc' & nodes' & H1 & H2 & H3).
    + rewrite !app_length. cbn [length]. lia.
    + rewrite map_app, fold_left_app, Hrun. cbn [map fold_left pl fst snd].
      unfold pl. cbn [fst snd]. rewrite from_ssa_step_pair by lia. rewrite Hdel. fold t'.
      rewrite app_length. cbn [length]. do 3 f_equal. lia.
    + rewrite <- app_assoc. cbn [app]. repeat split; assumption.
    + exists pos', acc', nodes'. rewrite <- app_assoc in H2, H3. cbn [app] in H2, H3. auto.
Qed.

(* get_ssa_path_roundtrip, for every admissible order *)
Theorem ssa_roundtrip trav : N = nleaves t -> ok_order trav -> Permutation trav (post_sub t) ->
  exists t', from_ssa_path N (map pl (get_ssa_path N trav)) = Some [t'] /\ sim t t'.
Proof.
  intros HN Hok HP.
  destruct (ssa_loop trav [] (leaf_map N) [] (map (fun i => (i, Leaf i)) (seq 0 N)) (inv_init N t HL) eq_refl)
    as (pos' & acc' & nodes' & H1 & H2 & I).
  - cbn. rewrite Nat.add_0_r. reflexivity.
  - exact Hok.
  - cbn [app] in *. unfold get_ssa_path. rewrite H1. cbn [snd]. unfold from_ssa_path. fold ssa_init. rewrite H2.
    assert (Hlen : length nodes' = 1).
    { pose proof (inv_len _ _ _ _ _ I) as L. rewrite (Permutation_length HP), post_sub_length in L.
      pose proof (count_internal_nleaves t). lia. }
    assert (Hav : avail t trav t).
    { destruct t as [i|l r] eqn:Et; [left; exists i; split; [reflexivity|left; reflexivity]|].
      right. eapply Permutation_in; [symmetry; exact HP|]. cbn [post_sub]. rewrite !in_app_iff. right; right; left; reflexivity. }
    assert (Hun : ~ consumed trav t).
    { intros (p & Hp & Hc). pose proof (E.child_nleaves _ _ Hc) as Hlt.
      assert (Hps : In p (E.subs t)).
      { apply (Permutation_in _ HP) in Hp. apply E.post_sub_iff in Hp. apply Hp. }
      pose proof (E.subs_nleaves t p Hps). lia. }
    destruct (inv_val _ _ _ _ _ I t Hav Hun) as (t' & Hin & St).
    destruct nodes' as [|[k v] [|? ?]]; cbn [length] in Hlen; try lia.
    destruct Hin as [E0|[]]. inversion E0; subst. exists t'. split; [reflexivity|exact St].
Qed.
End RT2.

(* ------------------------------------------------------------------ *)
(* linear paths: get_path / from_path(path=...) keep the live ids (ssas) and the live nodes
   as two parallel lists -- the keys and the values of the ssa variant's map *)
Lemma map_pop_nth {A B} (f : A -> B) k : forall l, map f (pop_nth k l) = pop_nth k (map f l).
Proof. induction k as [|k IH]; intros [|x l]; cbn [pop_nth map]; try reflexivity. rewrite IH. reflexivity. Qed.

Lemma sm_del_is_pop (m : smap) : forall ia a d, NoDup (map fst m) -> ia < length m ->
  fst (nth ia m d) = a -> sm_del a m = pop_nth ia m.
Proof.
  induction m as [|[k v] m IH]; intros ia a d Hnd Hia Ha; cbn [length] in Hia; [lia|].
  cbn [map fst] in Hnd. inversion Hnd as [|? ? Hn Hnd']; subst.
  unfold sm_del. cbn [filter fst]. fold (sm_del (fst (nth ia ((k, v) :: m) d)) m).
  destruct ia as [|ia]; cbn [nth fst pop_nth].
  - rewrite Nat.eqb_refl. cbn [negb]. apply sm_del_absent, Hn.
  - destruct (Nat.eqb_spec k (fst (nth ia m d))) as [E0|_]; cbn [negb].
    + exfalso. apply Hn. rewrite E0. apply in_map, nth_In. lia.
    + f_equal. apply (IH ia _ d Hnd'); [lia|reflexivity].
Qed.

Lemma sm_get_nth (m : smap) ia a d : NoDup (map fst m) -> ia < length m -> fst (nth ia m d) = a ->
  sm_get a m = snd (nth ia m d).
Proof.
  intros Hnd Hia Ha. apply sm_get_in; [exact Hnd|]. rewrite <- Ha, <- surjective_pairing. apply nth_In, Hia.
Qed.

Lemma sm_del_two_pops (m : smap) ia ib ka kb d : NoDup (map fst m) -> ia < ib -> ib < length m ->
  fst (nth ia m d) = ka -> fst (nth ib m d) = kb ->
  sm_del kb (sm_del ka m) = pop_nth ia (pop_nth ib m).
Proof.
  intros Hnd Hlt Hib Ha Hb. rewrite sm_del_comm. rewrite (sm_del_is_pop m ib kb d Hnd Hib Hb).
  apply (sm_del_is_pop _ ia ka d).
  - rewrite map_pop_nth. apply NoDup_pop_nth, Hnd.
  - rewrite length_pop_nth by exact Hib. lia.
  - rewrite nth_pop_nth. destruct (Nat.ltb_spec ia ib); [exact Ha|lia].
Qed.

Lemma sort_desc_pair i j : i < j -> sort_desc [i; j] = [j; i].
Proof.
  intros H. unfold sort_desc, sort_asc, sort_by. cbn [fold_left insert_by].
  destruct (Nat.leb_spec i j); [reflexivity|lia].
Qed.

Lemma from_path_step_pair (lnodes : list tree) i j : i < j ->
  from_path_step (Some lnodes) [i; j] =
  Some (pop_nth i (pop_nth j lnodes) ++ [mk_pair (nth j lnodes (Leaf 0)) (nth i lnodes (Leaf 0))]).
Proof.
  intros H. unfold from_path_step. rewrite (sort_desc_pair i j H). cbn [fold_left fst snd app contract_nodes].
  rewrite nth_pop_nth. destruct (Nat.ltb_spec i j); [reflexivity|lia].
Qed.

Section RT3.
Variable N : nat.
Variable t : tree.
Hypothesis ND : NoDup (leaves t).
Hypothesis HL : forall k, In k (leaves t) -> k < N.

Definition lin_init : option (list tree) := Some (map Leaf (seq 0 N)).
Definition d0 : nat * tree := (0, Leaf 0).

Lemma lin_loop rest : forall done pos acc nodes,
  Inv N t done pos nodes -> strictly_increasing (map fst nodes) -> length acc = length done ->
  fold_left from_path_step (map pl acc) lin_init = Some (map snd nodes) ->
  ok_order t (done ++ rest) ->
  exists pos' acc' nodes',
    fold_left path_step rest (pos, map fst nodes, N + length done, acc)
      = (pos', map fst nodes', N + length (done ++ rest), acc') /\
    fold_left from_path_step (map pl acc') lin_init = Some (map snd nodes') /\
    Inv N t (done ++ rest) pos' nodes'.
Proof.
  induction rest as [|p rest IH]; intros done pos acc nodes I Hsi Hlen Hrun Hok.
  - exists pos, acc, nodes. rewrite app_nil_r. auto.
  - destruct Hok as (Hnd & Hin & Hcf).
    assert (Hp : In p (post_sub t)) by (apply Hin, in_or_app; right; left; reflexivity).
    assert (Hpn : ~ In p done).
    { intros H. apply NoDup_remove_2 in Hnd. apply Hnd, in_or_app. left; exact H. }
    assert (Hdone : forall q, In q done -> In q (post_sub t)) by (intros q Hq; apply Hin, in_or_app; left; exact Hq).
    destruct p as [k|l r]; [apply E.post_sub_iff in Hp; destruct Hp as [_ []]|].
    set (ka := nm_get l pos). set (kb := nm_get r pos).
    set (ssas := map fst nodes) in *.
    set (ia := bisect_left ssas ka). set (ib := bisect_left ssas kb).
    set (i := Nat.min ia ib). set (j := Nat.max ia ib).
    set (t' := mk_pair (snd (nth j nodes d0)) (snd (nth i nodes d0))).
    (* what inv_step needs: t' in terms of sm_get; first get presence of the two keys *)
    pose proof (inv_nd _ _ _ _ _ I) as Hndk.
    assert (Hpres : forall q, E.child q (Node l r) -> exists x, In (nm_get q pos, x) nodes).
    { intros q Hq.
      destruct (inv_step N t ND done pos nodes l r (mk_pair (sm_get ka nodes) (sm_get kb nodes)) I Hp Hpn Hdone
                  (Hcf done (Node l r) rest eq_refl) (or_introl eq_refl)) as (_ & Hx & Hy & _).
      destruct Hq as [-> | ->]; assumption. }
    destruct (Hpres l (or_introl eq_refl)) as (x & Hx). destruct (Hpres r (or_intror eq_refl)) as (y & Hy).
    fold ka in Hx. fold kb in Hy.
    assert (Hka : In ka ssas) by (apply in_map_iff; exists (ka, x); auto).
    assert (Hkb : In kb ssas) by (apply in_map_iff; exists (kb, y); auto).
    destruct (bisect_present ssas ka Hsi Hka) as [Hia Hna]. destruct (bisect_present ssas kb Hsi Hkb) as [Hib Hnb].
    fold ia in Hia, Hna. fold ib in Hib, Hnb. unfold ssas in Hia, Hib. rewrite map_length in Hia, Hib.
    assert (Hfa : fst (nth ia nodes d0) = ka) by (rewrite <- Hna; unfold ssas; rewrite <- (map_nth fst nodes d0 ia); reflexivity).
    assert (Hfb : fst (nth ib nodes d0) = kb) by (rewrite <- Hnb; unfold ssas; rewrite <- (map_nth fst nodes d0 ib); reflexivity).
    assert (Ega : sm_get ka nodes = snd (nth ia nodes d0)) by (apply sm_get_nth; assumption).
    assert (Egb : sm_get kb nodes = snd (nth ib nodes d0)) by (apply sm_get_nth; assumption).
    assert (Ht' : t' = mk_pair (sm_get ka nodes) (sm_get kb nodes) \/ t' = mk_pair (sm_get kb nodes) (sm_get ka nodes)).
    { unfold t', i, j. rewrite Ega, Egb. destruct (Nat.le_ge_cases ia ib) as [H|H].
      - rewrite Nat.min_l, Nat.max_r by exact H. right; reflexivity.
      - rewrite Nat.min_r, Nat.max_l by exact H. left; reflexivity. }
    destruct (inv_step N t ND done pos nodes l r t' I Hp Hpn Hdone (Hcf done (Node l r) rest eq_refl) Ht')
      as (Hab & _ & _ & I').
    fold ka kb in Hab, I'.
    assert (Hiab : ia <> ib) by (intros E0; apply Hab; rewrite <- Hfa, <- Hfb, E0; reflexivity).
    assert (Hij : i < j) by (unfold i, j; lia).
    assert (Hjl : j < length nodes) by (unfold j; lia).
    assert (Hdel : sm_del kb (sm_del ka nodes) = pop_nth i (pop_nth j nodes)).
    { unfold i, j. destruct (Nat.lt_ge_cases ia ib) as [H|H].
      - rewrite Nat.min_l, Nat.max_r by lia. apply (sm_del_two_pops nodes ia ib ka kb d0); assumption.
      - rewrite Nat.min_r, Nat.max_l by lia. rewrite sm_del_comm.
        apply (sm_del_two_pops nodes ib ia kb ka d0); try assumption. lia. }
    rewrite Hdel in I'.
    set (nodes2 := pop_nth i (pop_nth j nodes) ++ [(N + length done, t')]) in *.
    assert (Hsi2 : strictly_increasing (map fst nodes2)).
    { unfold nodes2. rewrite map_app, !map_pop_nth. cbn [map fst]. fold ssas.
      assert (Hl1 : length (pop_nth j ssas) = length ssas - 1) by (apply length_pop_nth; unfold ssas; rewrite map_length; exact Hjl).
      apply app_fresh_strictly_increasing.
      - apply pop_strictly_increasing; [apply pop_strictly_increasing; [exact Hsi|unfold ssas; rewrite map_length; exact Hjl]|].
        rewrite Hl1. unfold ssas. rewrite map_length. lia.
      - intros k Hk. set (L := pop_nth i (pop_nth j ssas)) in *.
        assert (HinL : In (nth k L 0) L) by (apply nth_In, Hk).
        apply in_pop_nth_incl, in_pop_nth_incl in HinL. unfold ssas in HinL. apply in_map_iff in HinL.
        destruct HinL as ([k0 v0] & E0 & Hin0). cbn [fst] in E0. rewrite <- E0.
        apply (inv_keys _ _ _ _ _ I k0 v0 Hin0). }
    cbn [fold_left]. unfold path_step at 2. fold ka kb. fold ia ib. fold i j.
    destruct (IH (done ++ [Node l r]) ((Node l r, N + length done) :: pos) (acc ++ [(i, j)]) nodes2 I' Hsi2)
      as (pos' & acc' & nodes' & H1 & H2 & H3).
    + rewrite !app_length. cbn [length]. lia.
    + rewrite map_app, fold_left_app, Hrun. cbn [map fold_left]. unfold pl. cbn [fst snd].
      rewrite from_path_step_pair by exact Hij. unfold nodes2. rewrite map_app, !map_pop_nth. cbn [map snd].
      unfold t'. rewrite <- !(map_nth snd nodes d0). reflexivity.
    + rewrite <- app_assoc. cbn [app]. repeat split; assumption.
    + exists pos', acc', nodes'. rewrite <- app_assoc in H1, H3. cbn [app] in H1, H3.
      split; [|split; assumption]. rewrite <- H1. f_equal. unfold nodes2.
      rewrite map_app, !map_pop_nth. cbn [map fst]. fold ssas.
      rewrite app_length. cbn [length]. repeat f_equal. lia.
Qed.

(* get_path_roundtrip, for every admissible order *)
Theorem lin_roundtrip trav : N = nleaves t -> ok_order t trav -> Permutation trav (post_sub t) ->
  exists t', from_path N (map pl (get_path N trav)) = Some [t'] /\ sim t t'.
Proof.
  intros HN Hok HP.
  set (nodes0 := map (fun i => (i, Leaf i)) (seq 0 N)).
  assert (Hk0 : map fst nodes0 = seq 0 N) by (unfold nodes0; rewrite map_map; cbn [fst]; apply map_id).
  assert (Hv0 : map snd nodes0 = map Leaf (seq 0 N)) by (unfold nodes0; rewrite map_map; reflexivity).
  destruct (lin_loop trav [] (leaf_map N) [] nodes0 (inv_init N t HL)) as (pos' & acc' & nodes' & H1 & H2 & I).
  - rewrite Hk0. apply seq_strictly_increasing.
  - reflexivity.
  - cbn. rewrite Hv0. reflexivity.
  - exact Hok.
  - cbn [app length] in *. rewrite Nat.add_0_r, Hk0 in H1. unfold get_path. rewrite H1. cbn [snd].
    unfold from_path. fold lin_init. rewrite H2.
    assert (Hlen : length nodes' = 1).
    { pose proof (inv_len _ _ _ _ _ I) as L. rewrite (Permutation_length HP), post_sub_length in L.
      pose proof (count_internal_nleaves t). lia. }
    assert (Hav : avail t trav t).
    { destruct t as [i|l r] eqn:Et; [left; exists i; split; [reflexivity|left; reflexivity]|].
      right. eapply Permutation_in; [symmetry; exact HP|]. cbn [post_sub]. rewrite !in_app_iff. right; right; left; reflexivity. }
    assert (Hun : ~ consumed trav t).
    { intros (p & Hp & Hc). pose proof (E.child_nleaves _ _ Hc) as Hlt.
      assert (Hps : In p (E.subs t)).
      { apply (Permutation_in _ HP) in Hp. apply E.post_sub_iff in Hp. apply Hp. }
      pose proof (E.subs_nleaves t p Hps). lia. }
    destruct (inv_val _ _ _ _ _ I t Hav Hun) as (t' & Hin & St).
    destruct nodes' as [|[k v] [|? ?]]; cbn [length] in Hlen; try lia.
    destruct Hin as [E0|[]]. inversion E0; subst. exists t'. split; [reflexivity|exact St].
Qed.
End RT3.

(* ------------------------------------------------------------------ *)
(* instances: the dfs order, and any order that is valid in the sense of C01's ExecOrderFacts *)
Lemma dfs_ok_order t : NoDup (leaves t) -> ok_order t (post_sub t).
Proof.
  intros ND. split; [apply E.NoDup_post_sub, ND|]. split; [auto|].
  intros pre p suf E0 q Hq.
  destruct (E.cfirst_split (post_sub t) [] (E.cfirst_post_sub t []) pre p suf E0 q Hq) as [H|[[]|H]]; auto.
Qed.

Lemma valid_order_ok t order : NoDup (leaves t) -> E.valid_order t order ->
  ok_order t (map snd order) /\ Permutation (map snd order) (post_sub t).
Proof.
  intros ND (HP & _ & Hcf). split; [|exact HP]. split; [|split].
  - eapply Permutation_NoDup; [symmetry; exact HP|apply E.NoDup_post_sub, ND].
  - intros p Hp. eapply Permutation_in; [exact HP|exact Hp].
  - intros pre p suf E0 q Hq. apply map_eq_app in E0. destruct E0 as (o1 & o2 & -> & <- & E2).
    apply map_eq_cons in E2. destruct E2 as ([b p'] & o3 & -> & E3 & _). cbn [snd] in E3. subst p'.
    apply (Hcf o1 b p o3 eq_refl q Hq).
Qed.

Definition full_leaves (N : nat) (t : tree) : Prop :=
  NoDup (leaves t) /\ (forall k, In k (leaves t) -> k < N) /\ N = nleaves t.

Theorem get_ssa_path_roundtrip N t trav : full_leaves N t -> ok_order t trav -> Permutation trav (post_sub t) ->
  exists t', from_ssa_path N (map pl (get_ssa_path N trav)) = Some [t'] /\ sim t t' /\
             Permutation (map node_set (post_sub t)) (map node_set (post_sub t')).
Proof.
  intros (ND & HL & HN) Hok HP. destruct (ssa_roundtrip N t ND HL trav HN Hok HP) as (t' & H1 & H2).
  exists t'. repeat split; try assumption. apply sim_node_sets; assumption.
Qed.

Theorem get_path_roundtrip N t trav : full_leaves N t -> ok_order t trav -> Permutation trav (post_sub t) ->
  exists t', from_path N (map pl (get_path N trav)) = Some [t'] /\ sim t t' /\
             Permutation (map node_set (post_sub t)) (map node_set (post_sub t')).
Proof.
  intros (ND & HL & HN) Hok HP. destruct (lin_roundtrip N t ND HL trav HN Hok HP) as (t' & H1 & H2).
  exists t'. repeat split; try assumption. apply sim_node_sets; assumption.
Qed.

Corollary get_ssa_path_roundtrip_dfs N t : full_leaves N t ->
  exists t', from_ssa_path N (map pl (get_ssa_path N (post_sub t))) = Some [t'] /\ sim t t' /\
             Permutation (map node_set (post_sub t)) (map node_set (post_sub t')).
Proof. intros H. apply get_ssa_path_roundtrip; [exact H|apply dfs_ok_order, H|reflexivity]. Qed.

Corollary get_path_roundtrip_dfs N t : full_leaves N t ->
  exists t', from_path N (map pl (get_path N (post_sub t))) = Some [t'] /\ sim t t' /\
             Permutation (map node_set (post_sub t)) (map node_set (post_sub t')).
Proof. intros H. apply get_path_roundtrip; [exact H|apply dfs_ok_order, H|reflexivity]. Qed.

Corollary roundtrips_valid_order N t order : full_leaves N t -> E.valid_order t order ->
  (exists t', from_path N (map pl (get_path N (map snd order))) = Some [t'] /\ sim t t' /\
              Permutation (map node_set (post_sub t)) (map node_set (post_sub t'))) /\
  (exists t', from_ssa_path N (map pl (get_ssa_path N (map snd order))) = Some [t'] /\ sim t t' /\
              Permutation (map node_set (post_sub t)) (map node_set (post_sub t'))).
Proof.
  intros H Hv. destruct (valid_order_ok t order (proj1 H) Hv) as [Hok HP].
  split; [apply get_path_roundtrip|apply get_ssa_path_roundtrip]; assumption.
Qed.

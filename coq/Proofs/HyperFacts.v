(* HyperFacts.v -- lemmas about Model/Hyper.v *)
From Coq Require Import Lia Permutation ZifyBool.
From Ctg Require Import Base Hyper.

(* ------------------------------------------------------------------ *)
(* Python's float `<` on the score type *)
Lemma flt_irrefl a : flt a a = false.
Proof. destruct a; cbn; [apply Z.ltb_irrefl|reflexivity|reflexivity]. Qed.

Lemma flt_trans a b c : flt a b = true -> flt b c = true -> flt a c = true.
Proof. destruct a, b, c; cbn; try congruence; lia. Qed.

Lemma flt_fin a b : flt a b = true -> exists k, a = Fin k.
Proof. destruct a; cbn; try discriminate. eauto. Qed.

Lemma flt_not_nan_r a b : flt a b = true -> b <> NaN.
Proof. destruct a, b; cbn; congruence. Qed.

(* c beats the current best B, x did not: then c beats x too, unless x is NaN *)
Lemma flt_new_best c B x : flt c B = true -> flt x B = false -> flt c x = true \/ x = NaN.
Proof. destruct c, B, x; cbn; try congruence; try tauto; lia. Qed.

Lemma flt_keep c B x : flt c B = true -> flt x B = false -> flt x c = false.
Proof. destruct c, B, x; cbn; try congruence; lia. Qed.

(* on non-NaN values, mutual non-< is equality *)
Lemma flt_antisym_eq a b : a <> NaN -> b <> NaN -> flt a b = false -> flt b a = false -> a = b.
Proof. destruct a, b; cbn; try congruence; intros; f_equal; lia. Qed.

Lemma flt_below_inf a : flt a PInf = true <-> exists k, a = Fin k.
Proof. destruct a; cbn; split; try congruence; eauto; intros [k E]; discriminate. Qed.

(* ------------------------------------------------------------------ *)
(* small list facts *)
Lemma last_snoc {A} (l : list A) x d : last (l ++ [x]) d = x.
Proof. induction l as [|y l IH]; [reflexivity|]. cbn [app]. destruct (l ++ [x]) eqn:E.
  - destruct l; discriminate.
  - rewrite <- E. cbn. rewrite E in *. exact IH. Qed.

Lemma nth_error_snoc_lt {A} (l : list A) x i : i < length l -> nth_error (l ++ [x]) i = nth_error l i.
Proof. intros. apply nth_error_app1. assumption. Qed.

Lemma nth_error_snoc_eq {A} (l : list A) x : nth_error (l ++ [x]) (length l) = Some x.
Proof. rewrite nth_error_app2 by lia. rewrite Nat.sub_diag. reflexivity. Qed.

(* ------------------------------------------------------------------ *)
Section SearchFacts.
Variable T : Type.
Variable mts : option nat.
Notation hstate := (hstate T).
Notation entry := (entry T).
Notation report := (report T mts).
Notation assess := (assess T).
Notation replay := (replay T mts).

(* what one report + assess does, given a trial with all four keys *)
Definition full (tr : trial T) : Prop :=
  exists sc f w z, t_score tr = Some sc /\ t_flops tr = Some f /\ t_write tr = Some w /\ t_size tr = Some z.

Lemma report_some st s tr st1 : report st s tr = Some st1 -> full tr.
Proof.
  unfold report, full.
  destruct (t_score tr), (t_flops tr), (t_write tr), (t_size tr); try discriminate.
  intros _. do 4 eexists. repeat split; reflexivity.
Qed.

Lemma report_fields st s tr st1 : report st s tr = Some st1 ->
  h_best st1 = h_best st /\ h_tsb st1 = h_tsb st /\
  h_methods st1 = h_methods st ++ [fst s] /\ h_params st1 = h_params st ++ [snd s] /\
  h_scores st1 = h_scores st ++ [score_of tr] /\
  t_flops tr = Some (last (h_flops st1) CInf) /\ h_flops st1 = h_flops st ++ [last (h_flops st1) CInf] /\
  t_write tr = Some (last (h_write st1) CInf) /\ h_write st1 = h_write st ++ [last (h_write st1) CInf] /\
  t_size tr = Some (last (h_size st1) CInf) /\ h_size st1 = h_size st ++ [last (h_size st1) CInf] /\
  h_best_score st1 = (if flt (score_of tr) (h_best_score st) then score_of tr else h_best_score st).
Proof.
  unfold report, score_of.
  destruct (t_score tr) as [sc|], (t_flops tr) as [f|], (t_write tr) as [w|], (t_size tr) as [z|]; try discriminate.
  intros E. injection E as <-. cbn. rewrite !last_snoc. repeat split; reflexivity.
Qed.

(* the list of entries whose report+assess produced a state *)
Definition scores_of (tr : list entry) : list pyf := map (fun e => score_of (e_trial e)) tr.

Lemma replay_app st tr1 tr2 :
  replay st (tr1 ++ tr2) = match replay st tr1 with Some st1 => replay st1 tr2 | None => None end.
Proof.
  revert st. induction tr1 as [|e tr1 IH]; intros st; cbn; [reflexivity|].
  destruct (report st (e_setting e) (e_trial e)); [apply IH|reflexivity].
Qed.

Lemma replay_snoc st tr e st' : replay st (tr ++ [e]) = Some st' ->
  exists st0 st1, replay st tr = Some st0 /\ report st0 (e_setting e) (e_trial e) = Some st1 /\
                  st' = assess st1 (e_trial e).
Proof.
  rewrite replay_app. destruct (replay st tr) as [st0|]; [|discriminate]. cbn.
  destruct (report st0 (e_setting e) (e_trial e)) as [st1|] eqn:R; [|discriminate].
  intros E. injection E as <-. exists st0, st1. repeat split. exact R.
Qed.

(* ---------------- the invariant of the record ---------------- *)
(* `tr` is the list of entries reported so far (from the initial state) *)
Record inv (tr : list entry) (st : hstate) : Prop := mkInv {
  inv_scores : h_scores st = scores_of tr;
  inv_methods : h_methods st = map (fun e => fst (e_setting e)) tr;
  inv_params : h_params st = map (fun e => snd (e_setting e)) tr;
  inv_flops : map Some (h_flops st) = map (fun e => t_flops (e_trial e)) tr;
  inv_write : map Some (h_write st) = map (fun e => t_write (e_trial e)) tr;
  inv_size : map Some (h_size st) = map (fun e => t_size (e_trial e)) tr;
  inv_sync : h_best_score st = best_score_of st;
  inv_notnan : best_score_of st <> NaN;
  inv_min : forall x, In x (h_scores st) -> flt x (best_score_of st) = false;
  inv_best : match h_best st with
             | None => forall x, In x (h_scores st) -> flt x PInf = false
             | Some (b, s) =>
                 exists i id, nth_error tr i = Some (id, s, b) /\ flt (score_of b) PInf = true /\
                   forall j e, j < i -> nth_error tr j = Some e ->
                     flt (score_of b) (score_of (e_trial e)) = true \/ score_of (e_trial e) = NaN
             end;
  inv_optlib : forall s x, In (s, x) (h_optlib st) -> flt x PInf = true /\
                 exists id b, In (id, s, b) tr /\ score_of b = x
}.

Lemma inv_init : inv [] init_state.
Proof.
  constructor; cbn; try reflexivity; try congruence; try tauto.
Qed.

Lemma inv_step tr st e st1 :
  inv tr st -> report st (e_setting e) (e_trial e) = Some st1 ->
  inv (tr ++ [e]) (assess st1 (e_trial e)).
Proof.
  intros I R. destruct e as [[id s] b]. unfold e_setting, e_trial in *; cbn [fst snd] in *.
  pose proof (report_fields _ _ _ _ R) as (Hb & Ht & Hm & Hp & Hs & Hf & Hf' & Hw & Hw' & Hz & Hz' & Hbs).
  assert (Hlen : length (h_scores st) = length tr).
  { rewrite (inv_scores _ _ I). unfold scores_of. apply map_length. }
  assert (Hsync1 : best_score_of st1 = best_score_of st) by (unfold best_score_of; rewrite Hb; reflexivity).
  unfold assess. rewrite Hsync1.
  destruct (flt (score_of b) (best_score_of st)) eqn:Hlt.
  - (* new best *)
    constructor; cbn.
    + rewrite Hs, (inv_scores _ _ I). unfold scores_of. rewrite map_app. reflexivity.
    + rewrite Hm, (inv_methods _ _ I), map_app. reflexivity.
    + rewrite Hp, (inv_params _ _ I), map_app. reflexivity.
    + rewrite Hf', !map_app, (inv_flops _ _ I). cbn. rewrite <- Hf. reflexivity.
    + rewrite Hw', !map_app, (inv_write _ _ I). cbn. rewrite <- Hw. reflexivity.
    + rewrite Hz', !map_app, (inv_size _ _ I). cbn. rewrite <- Hz. reflexivity.
    + unfold best_score_of. cbn. rewrite Hbs, (inv_sync _ _ I), Hlt. reflexivity.
    + unfold best_score_of. cbn. destruct (flt_fin _ _ Hlt) as [k ->]. discriminate.
    + unfold best_score_of. cbn. intros x Hx. rewrite Hs in Hx. apply in_app_or in Hx as [Hx|[<-|[]]].
      * eapply flt_keep; [exact Hlt|]. apply (inv_min _ _ I), Hx.
      * apply flt_irrefl.
    + rewrite Hm, Hp, !last_snoc. cbn. exists (length tr), id.
      destruct s as [s1 s2]. cbn. split; [apply nth_error_snoc_eq|]. split.
      * destruct (flt_fin _ _ Hlt) as [k ->]. reflexivity.
      * intros j e Hj He. rewrite nth_error_app1 in He by exact Hj.
        eapply flt_new_best; [exact Hlt|]. apply (inv_min _ _ I).
        rewrite (inv_scores _ _ I). unfold scores_of.
        apply nth_error_In in He. apply (in_map (fun e => score_of (e_trial e))) in He. exact He.
    + intros s' x Hx. unfold report in R.
      destruct (t_score b) as [sc|] eqn:Esc, (t_flops b), (t_write b), (t_size b); try discriminate.
      injection R as <-. cbn in Hx.
      assert (Hsc : score_of b = sc) by (unfold score_of; rewrite Esc; reflexivity).
      match type of Hx with In _ (if ?c then _ else _) => destruct c eqn:Ec end.
      * apply in_app_or in Hx as [Hx|[Hx|[]]].
        -- destruct (inv_optlib _ _ I _ _ Hx) as (H1 & id' & b' & H2 & H3). split; [exact H1|].
           exists id', b'. split; [apply in_or_app; left; exact H2|exact H3].
        -- injection Hx as <- <-. apply andb_true_iff in Ec as [_ Ec]. split; [exact Ec|].
           exists id, b. split; [apply in_or_app; right; left; reflexivity|exact Hsc].
      * destruct (inv_optlib _ _ I _ _ Hx) as (H1 & id' & b' & H2 & H3). split; [exact H1|].
        exists id', b'. split; [apply in_or_app; left; exact H2|exact H3].
  - (* not a new best *)
    constructor; cbn.
    + rewrite Hs, (inv_scores _ _ I). unfold scores_of. rewrite map_app. reflexivity.
    + rewrite Hm, (inv_methods _ _ I), map_app. reflexivity.
    + rewrite Hp, (inv_params _ _ I), map_app. reflexivity.
    + rewrite Hf', !map_app, (inv_flops _ _ I). cbn. rewrite <- Hf. reflexivity.
    + rewrite Hw', !map_app, (inv_write _ _ I). cbn. rewrite <- Hw. reflexivity.
    + rewrite Hz', !map_app, (inv_size _ _ I). cbn. rewrite <- Hz. reflexivity.
    + unfold best_score_of at 1. cbn. rewrite Hb. fold (best_score_of st).
      rewrite Hbs, (inv_sync _ _ I), Hlt. reflexivity.
    + unfold best_score_of. cbn. rewrite Hb. apply (inv_notnan _ _ I).
    + unfold best_score_of at 1. cbn. rewrite Hb. fold (best_score_of st).
      intros x Hx. rewrite Hs in Hx. apply in_app_or in Hx as [Hx|[<-|[]]].
      * apply (inv_min _ _ I), Hx.
      * exact Hlt.
    + rewrite Hb. pose proof (inv_best _ _ I) as IB. destruct (h_best st) as [[b0 s0]|] eqn:Eb.
      * destruct IB as (i & id0 & Hn & Hfin & Hearlier). exists i, id0.
        assert (Hi : i < length tr) by (apply nth_error_Some; congruence).
        split; [rewrite nth_error_app1 by exact Hi; exact Hn|]. split; [exact Hfin|].
        intros j e Hj He. rewrite nth_error_app1 in He by lia. eapply Hearlier; eassumption.
      * intros x Hx. rewrite Hs in Hx. apply in_app_or in Hx as [Hx|[<-|[]]].
        -- apply IB, Hx.
        -- unfold best_score_of in Hlt. rewrite Eb in Hlt. exact Hlt.
    + intros s' x Hx. unfold report in R.
      destruct (t_score b) as [sc|] eqn:Esc, (t_flops b), (t_write b), (t_size b); try discriminate.
      injection R as <-. cbn in Hx.
      assert (Hsc : score_of b = sc) by (unfold score_of; rewrite Esc; reflexivity).
      match type of Hx with In _ (if ?c then _ else _) => destruct c eqn:Ec end.
      * apply in_app_or in Hx as [Hx|[Hx|[]]].
        -- destruct (inv_optlib _ _ I _ _ Hx) as (H1 & id' & b' & H2 & H3). split; [exact H1|].
           exists id', b'. split; [apply in_or_app; left; exact H2|exact H3].
        -- injection Hx as <- <-. apply andb_true_iff in Ec as [_ Ec]. split; [exact Ec|].
           exists id, b. split; [apply in_or_app; right; left; reflexivity|exact Hsc].
      * destruct (inv_optlib _ _ I _ _ Hx) as (H1 & id' & b' & H2 & H3). split; [exact H1|].
        exists id', b'. split; [apply in_or_app; left; exact H2|exact H3].
Qed.

Lemma inv_replay_gen tr0 st0 tr st :
  inv tr0 st0 -> replay st0 tr = Some st -> inv (tr0 ++ tr) st.
Proof.
  revert tr0 st0. induction tr as [|e tr IH]; intros tr0 st0 I R; cbn in R.
  - injection R as <-. rewrite app_nil_r. exact I.
  - destruct (report st0 (e_setting e) (e_trial e)) as [st1|] eqn:E; [|discriminate].
    replace (tr0 ++ e :: tr) with ((tr0 ++ [e]) ++ tr) by (rewrite <- app_assoc; reflexivity).
    eapply IH; [|exact R]. eapply inv_step; eassumption.
Qed.

Lemma inv_replay tr st : replay init_state tr = Some st -> inv tr st.
Proof. intros R. apply (inv_replay_gen [] init_state tr st inv_init R). Qed.

End SearchFacts.

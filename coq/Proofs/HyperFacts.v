(* HyperFacts.v -- lemmas about Model/Hyper.v *)
From Coq Require Import Lia Permutation ZifyBool.
From Ctg Require Import Base Hyper.

(* ------------------------------------------------------------------ *)
(* Python's float `<` on the score type *)
Lemma flt_irrefl a : flt a a = false.
Proof. destruct a; cbn; [apply Z.ltb_irrefl|reflexivity|reflexivity]. Qed.

Lemma flt_trans a b c : flt a b = true -> flt b c = true -> flt a c = true.
Proof. destruct a, b, c; cbn; try congruence; lia. Qed.

Lemma flt_fin a b : flt a b = true -> exists k, a = Fin k.
Proof. destruct a; cbn; try discriminate. eauto. Qed.

Lemma flt_not_nan_r a b : flt a b = true -> b <> NaN.
Proof. destruct a, b; cbn; congruence. Qed.

(* c beats the current best B, x did not: then c beats x too, unless x is NaN *)
Lemma flt_new_best c B x : flt c B = true -> flt x B = false -> flt c x = true \/ x = NaN.
Proof. destruct c, B, x; cbn; try congruence; try tauto; lia. Qed.

Lemma flt_keep c B x : flt c B = true -> flt x B = false -> flt x c = false.
Proof. destruct c, B, x; cbn; try congruence; lia. Qed.

(* on non-NaN values, mutual non-< is equality *)
Lemma flt_antisym_eq a b : a <> NaN -> b <> NaN -> flt a b = false -> flt b a = false -> a = b.
Proof. destruct a, b; cbn; try congruence; intros; f_equal; lia. Qed.

Lemma flt_below_inf a : flt a PInf = true <-> exists k, a = Fin k.
Proof. destruct a; cbn; split; try congruence; eauto; intros [k E]; discriminate. Qed.

Lemma quad_eta {A B C D} (r : A * B * C * D) :
  r = (fst (fst (fst r)), snd (fst (fst r)), snd (fst r), snd r).
Proof. destruct r as [[[a b] c] d]. reflexivity. Qed.

(* ------------------------------------------------------------------ *)
(* small list facts *)
Lemma last_snoc {A} (l : list A) x d : last (l ++ [x]) d = x.
Proof. induction l as [|y l IH]; [reflexivity|]. cbn [app]. destruct (l ++ [x]) eqn:E.
  - destruct l; discriminate.
  - rewrite <- E. cbn. rewrite E in *. exact IH. Qed.

Lemma nth_error_snoc_lt {A} (l : list A) x i : i < length l -> nth_error (l ++ [x]) i = nth_error l i.
Proof. intros. apply nth_error_app1. assumption. Qed.

Lemma nth_error_snoc_eq {A} (l : list A) x : nth_error (l ++ [x]) (length l) = Some x.
Proof. rewrite nth_error_app2 by lia. rewrite Nat.sub_diag. reflexivity. Qed.

(* ------------------------------------------------------------------ *)
Section SearchFacts.
Variable T : Type.
Variable mts : option nat.
Notation hstate := (hstate T).
Notation entry := (entry T).
Notation report := (report T mts).
Notation assess := (assess T).
Notation replay := (replay T mts).

(* what one report + assess does, given a trial with all four keys *)
Definition full (tr : trial T) : Prop :=
  exists sc f w z, t_score tr = Some sc /\ t_flops tr = Some f /\ t_write tr = Some w /\ t_size tr = Some z.

Lemma report_some st s tr st1 : report st s tr = Some st1 -> full tr.
Proof.
  unfold report, full.
  destruct (t_score tr), (t_flops tr), (t_write tr), (t_size tr); try discriminate.
  intros _. do 4 eexists. repeat split; reflexivity.
Qed.

Lemma report_fields st s tr st1 : report st s tr = Some st1 ->
  h_best st1 = h_best st /\ h_tsb st1 = h_tsb st /\
  h_methods st1 = h_methods st ++ [fst s] /\ h_params st1 = h_params st ++ [snd s] /\
  h_scores st1 = h_scores st ++ [score_of tr] /\
  t_flops tr = Some (last (h_flops st1) CInf) /\ h_flops st1 = h_flops st ++ [last (h_flops st1) CInf] /\
  t_write tr = Some (last (h_write st1) CInf) /\ h_write st1 = h_write st ++ [last (h_write st1) CInf] /\
  t_size tr = Some (last (h_size st1) CInf) /\ h_size st1 = h_size st ++ [last (h_size st1) CInf] /\
  h_best_score st1 = (if flt (score_of tr) (h_best_score st) then score_of tr else h_best_score st).
Proof.
  unfold report, score_of.
  destruct (t_score tr) as [sc|], (t_flops tr) as [f|], (t_write tr) as [w|], (t_size tr) as [z|]; try discriminate.
  intros E. injection E as <-. cbn. rewrite !last_snoc. repeat split; reflexivity.
Qed.

(* the list of entries whose report+assess produced a state *)
Definition scores_of (tr : list entry) : list pyf := map (fun e => score_of (e_trial e)) tr.

Lemma replay_app st tr1 tr2 :
  replay st (tr1 ++ tr2) = match replay st tr1 with Some st1 => replay st1 tr2 | None => None end.
Proof.
  revert st. induction tr1 as [|e tr1 IH]; intros st; cbn; [reflexivity|].
  destruct (report st (e_setting e) (e_trial e)); [apply IH|reflexivity].
Qed.

Lemma replay_snoc st tr e st' : replay st (tr ++ [e]) = Some st' ->
  exists st0 st1, replay st tr = Some st0 /\ report st0 (e_setting e) (e_trial e) = Some st1 /\
                  st' = assess st1 (e_trial e).
Proof.
  rewrite replay_app. destruct (replay st tr) as [st0|]; [|discriminate]. cbn.
  destruct (report st0 (e_setting e) (e_trial e)) as [st1|] eqn:R; [|discriminate].
  intros E. injection E as <-. exists st0, st1. repeat split. exact R.
Qed.

(* ---------------- the invariant of the record ---------------- *)
(* `tr` is the list of entries reported so far (from the initial state) *)
Record inv (tr : list entry) (st : hstate) : Prop := mkInv {
  inv_scores : h_scores st = scores_of tr;
  inv_methods : h_methods st = map (fun e => fst (e_setting e)) tr;
  inv_params : h_params st = map (fun e => snd (e_setting e)) tr;
  inv_flops : map Some (h_flops st) = map (fun e => t_flops (e_trial e)) tr;
  inv_write : map Some (h_write st) = map (fun e => t_write (e_trial e)) tr;
  inv_size : map Some (h_size st) = map (fun e => t_size (e_trial e)) tr;
  inv_sync : h_best_score st = best_score_of st;
  inv_notnan : best_score_of st <> NaN;
  inv_min : forall x, In x (h_scores st) -> flt x (best_score_of st) = false;
  inv_best : match h_best st with
             | None => forall x, In x (h_scores st) -> flt x PInf = false
             | Some (b, s) =>
                 exists i id, nth_error tr i = Some (id, s, b) /\ flt (score_of b) PInf = true /\
                   forall j e, j < i -> nth_error tr j = Some e ->
                     flt (score_of b) (score_of (e_trial e)) = true \/ score_of (e_trial e) = NaN
             end;
  inv_optlib : forall s x, In (s, x) (h_optlib st) -> flt x PInf = true /\
                 exists id b, In (id, s, b) tr /\ score_of b = x
}.

Lemma inv_init : inv [] init_state.
Proof.
  constructor; cbn; try reflexivity; try congruence; try tauto.
Qed.

Lemma inv_step tr st e st1 :
  inv tr st -> report st (e_setting e) (e_trial e) = Some st1 ->
  inv (tr ++ [e]) (assess st1 (e_trial e)).
Proof.
  intros I R. destruct e as [[id s] b]. unfold e_setting, e_trial in *; cbn [fst snd] in *.
  pose proof (report_fields _ _ _ _ R) as (Hb & Ht & Hm & Hp & Hs & Hf & Hf' & Hw & Hw' & Hz & Hz' & Hbs).
  assert (Hlen : length (h_scores st) = length tr).
  { rewrite (inv_scores _ _ I). unfold scores_of. apply map_length. }
  assert (Hsync1 : best_score_of st1 = best_score_of st) by (unfold best_score_of; rewrite Hb; reflexivity).
  unfold assess. rewrite Hsync1.
  destruct (flt (score_of b) (best_score_of st)) eqn:Hlt.
  - (* new best *)
    constructor; cbn.
    + rewrite Hs, (inv_scores _ _ I). unfold scores_of. rewrite map_app. reflexivity.
    + rewrite Hm, (inv_methods _ _ I), map_app. reflexivity.
    + rewrite Hp, (inv_params _ _ I), map_app. reflexivity.
    + rewrite Hf', !map_app, (inv_flops _ _ I). cbn. rewrite <- Hf. reflexivity.
    + rewrite Hw', !map_app, (inv_write _ _ I). cbn. rewrite <- Hw. reflexivity.
    + rewrite Hz', !map_app, (inv_size _ _ I). cbn. rewrite <- Hz. reflexivity.
    + unfold best_score_of. cbn. rewrite Hbs, (inv_sync _ _ I), Hlt. reflexivity.
    + unfold best_score_of. cbn. destruct (flt_fin _ _ Hlt) as [k ->]. discriminate.
    + unfold best_score_of. cbn. intros x Hx. rewrite Hs in Hx. apply in_app_or in Hx as [Hx|[<-|[]]].
      * eapply flt_keep; [exact Hlt|]. apply (inv_min _ _ I), Hx.
      * apply flt_irrefl.
    + rewrite Hm, Hp, !last_snoc. cbn. exists (length tr), id.
      destruct s as [s1 s2]. cbn. split; [apply nth_error_snoc_eq|]. split.
      * destruct (flt_fin _ _ Hlt) as [k ->]. reflexivity.
      * intros j e Hj He. rewrite nth_error_app1 in He by exact Hj.
        eapply flt_new_best; [exact Hlt|]. apply (inv_min _ _ I).
        rewrite (inv_scores _ _ I). unfold scores_of.
        apply nth_error_In in He. apply (in_map (fun e => score_of (e_trial e))) in He. exact He.
    + intros s' x Hx. unfold report in R.
      destruct (t_score b) as [sc|] eqn:Esc, (t_flops b), (t_write b), (t_size b); try discriminate.
      injection R as <-. cbn in Hx.
      assert (Hsc : score_of b = sc) by (unfold score_of; rewrite Esc; reflexivity).
      match type of Hx with In _ (if ?c then _ else _) => destruct c eqn:Ec end.
      * apply in_app_or in Hx as [Hx|[Hx|[]]].
        -- destruct (inv_optlib _ _ I _ _ Hx) as (H1 & id' & b' & H2 & H3). split; [exact H1|].
           exists id', b'. split; [apply in_or_app; left; exact H2|exact H3].
        -- injection Hx as <- <-. apply andb_true_iff in Ec as [_ Ec]. split; [exact Ec|].
           exists id, b. split; [apply in_or_app; right; left; reflexivity|exact Hsc].
      * destruct (inv_optlib _ _ I _ _ Hx) as (H1 & id' & b' & H2 & H3). split; [exact H1|].
        exists id', b'. split; [apply in_or_app; left; exact H2|exact H3].
  - (* not a new best *)
    constructor; cbn.
    + rewrite Hs, (inv_scores _ _ I). unfold scores_of. rewrite map_app. reflexivity.
    + rewrite Hm, (inv_methods _ _ I), map_app. reflexivity.
    + rewrite Hp, (inv_params _ _ I), map_app. reflexivity.
    + rewrite Hf', !map_app, (inv_flops _ _ I). cbn. rewrite <- Hf. reflexivity.
    + rewrite Hw', !map_app, (inv_write _ _ I). cbn. rewrite <- Hw. reflexivity.
    + rewrite Hz', !map_app, (inv_size _ _ I). cbn. rewrite <- Hz. reflexivity.
    + unfold best_score_of at 1. cbn. rewrite Hb. fold (best_score_of st).
      rewrite Hbs, (inv_sync _ _ I), Hlt. reflexivity.
    + unfold best_score_of. cbn. rewrite Hb. apply (inv_notnan _ _ I).
    + unfold best_score_of at 1. cbn. rewrite Hb. fold (best_score_of st).
      intros x Hx. rewrite Hs in Hx. apply in_app_or in Hx as [Hx|[<-|[]]].
      * apply (inv_min _ _ I), Hx.
      * exact Hlt.
    + rewrite Hb. pose proof (inv_best _ _ I) as IB. destruct (h_best st) as [[b0 s0]|] eqn:Eb.
      * destruct IB as (i & id0 & Hn & Hfin & Hearlier). exists i, id0.
        assert (Hi : i < length tr) by (apply nth_error_Some; congruence).
        split; [rewrite nth_error_app1 by exact Hi; exact Hn|]. split; [exact Hfin|].
        intros j e Hj He. rewrite nth_error_app1 in He by lia. eapply Hearlier; eassumption.
      * intros x Hx. rewrite Hs in Hx. apply in_app_or in Hx as [Hx|[<-|[]]].
        -- apply IB, Hx.
        -- unfold best_score_of in Hlt. rewrite Eb in Hlt. exact Hlt.
    + intros s' x Hx. unfold report in R.
      destruct (t_score b) as [sc|] eqn:Esc, (t_flops b), (t_write b), (t_size b); try discriminate.
      injection R as <-. cbn in Hx.
      assert (Hsc : score_of b = sc) by (unfold score_of; rewrite Esc; reflexivity).
      match type of Hx with In _ (if ?c then _ else _) => destruct c eqn:Ec end.
      * apply in_app_or in Hx as [Hx|[Hx|[]]].
        -- destruct (inv_optlib _ _ I _ _ Hx) as (H1 & id' & b' & H2 & H3). split; [exact H1|].
           exists id', b'. split; [apply in_or_app; left; exact H2|exact H3].
        -- injection Hx as <- <-. apply andb_true_iff in Ec as [_ Ec]. split; [exact Ec|].
           exists id, b. split; [apply in_or_app; right; left; reflexivity|exact Hsc].
      * destruct (inv_optlib _ _ I _ _ Hx) as (H1 & id' & b' & H2 & H3). split; [exact H1|].
        exists id', b'. split; [apply in_or_app; left; exact H2|exact H3].
Qed.

Lemma inv_replay_gen tr0 st0 tr st :
  inv tr0 st0 -> replay st0 tr = Some st -> inv (tr0 ++ tr) st.
Proof.
  revert tr0 st0. induction tr as [|e tr IH]; intros tr0 st0 I R; cbn in R.
  - injection R as <-. rewrite app_nil_r. exact I.
  - destruct (report st0 (e_setting e) (e_trial e)) as [st1|] eqn:E; [|discriminate].
    replace (tr0 ++ e :: tr) with ((tr0 ++ [e]) ++ tr) by (rewrite <- app_assoc; reflexivity).
    eapply IH; [|exact R]. eapply inv_step; eassumption.
Qed.

Lemma inv_replay tr st : replay init_state tr = Some st -> inv tr st.
Proof. intros R. apply (inv_replay_gen [] init_state tr st inv_init R). Qed.

End SearchFacts.

(* ------------------------------------------------------------------ *)
(* the scan of the futures list *)
Lemma remove_nth_perm {A} (l : list A) i x :
  nth_error l i = Some x -> Permutation l (x :: remove_nth i l).
Proof.
  revert i. induction l as [|y l IH]; intros [|i] H; cbn in *; try discriminate.
  - injection H as ->. apply Permutation_refl.
  - apply IH in H. eapply Permutation_trans; [apply perm_skip, H|apply perm_swap].
Qed.

Lemma pick_perm flags futs x rest : pick flags futs = Some (x, rest) -> Permutation futs (x :: rest).
Proof.
  unfold pick. destruct (first_true _) as [i|]; [|discriminate].
  destruct (nth_error futs i) as [y|] eqn:E; [|discriminate].
  intros H. injection H as <- <-. apply remove_nth_perm, E.
Qed.

Lemma first_true_spec l i : first_true l = Some i ->
  nth_error l i = Some true /\ forall j, j < i -> nth_error l j = Some false.
Proof.
  revert i. induction l as [|b l IH]; intros i H; cbn in H; [discriminate|].
  destruct b.
  - injection H as <-. split; [reflexivity|]. intros j Hj. lia.
  - destruct (first_true l) as [i'|]; [|discriminate]. cbn in H. injection H as <-.
    destruct (IH i' eq_refl) as [H1 H2]. split; [exact H1|].
    intros [|j] Hj; [reflexivity|]. cbn. apply H2. lia.
Qed.

Lemma first_true_none l : first_true l = None -> forall b, In b l -> b = false.
Proof.
  induction l as [|b l IH]; cbn; intros H c Hc; [contradiction|].
  destruct b; [discriminate|]. destruct (first_true l); [discriminate|].
  destruct Hc as [<-|Hc]; [reflexivity|]. apply IH; [reflexivity|exact Hc].
Qed.

Lemma nth_error_firstn_lt {A} (l : list A) n i : i < n -> nth_error (firstn n l) i = nth_error l i.
Proof.
  revert n i. induction l as [|x l IH]; intros [|n] [|i] H; cbn; try reflexivity; try lia.
  apply IH. lia.
Qed.

(* the position taken is the FIRST done future, and it is in range *)
Lemma pick_first flags futs x rest : pick flags futs = Some (x, rest) ->
  exists i, i < length futs /\ nth_error futs i = Some x /\ rest = remove_nth i futs /\
            nth_error flags i = Some true /\ forall j, j < i -> nth_error flags j = Some false.
Proof.
  unfold pick. destruct (first_true _) as [i|] eqn:F; [|discriminate].
  destruct (nth_error futs i) as [y|] eqn:E; [|discriminate].
  intros H. injection H as <- <-. exists i.
  assert (Hi : i < length futs) by (apply nth_error_Some; congruence).
  destruct (first_true_spec _ _ F) as [H1 H2].
  split; [exact Hi|]. split; [exact E|]. split; [reflexivity|]. split.
  - rewrite nth_error_firstn_lt in H1 by exact Hi. exact H1.
  - intros j Hj. specialize (H2 j Hj). rewrite nth_error_firstn_lt in H2 by lia. exact H2.
Qed.

(* a scheduler is fair when it never leaves a non-empty set of futures without a done one *)
Definition fair (sched : nat -> list nat -> list bool) : Prop :=
  forall step ids, ids <> [] -> exists i, i < length ids /\ nth_error (sched step ids) i = Some true.


Lemma first_true_some l i : nth_error l i = Some true -> first_true l <> None.
Proof.
  revert i. induction l as [|b l IH]; intros [|i] H; cbn in *; try discriminate.
  - injection H as ->. discriminate.
  - destruct b; [discriminate|]. specialize (IH _ H). destruct (first_true l); [discriminate|contradiction].
Qed.

Lemma pick_fair sched step (futs : list fut) : fair sched -> futs <> [] ->
  pick (sched step (map fst futs)) futs <> None.
Proof.
  intros Hf Hne. unfold pick.
  destruct (Hf step (map fst futs)) as (i & Hi & Ht).
  { destruct futs; [contradiction|discriminate]. }
  rewrite map_length in Hi.
  destruct (first_true (firstn (length futs) (sched step (map fst futs)))) as [j|] eqn:F.
  - destruct (first_true_spec _ _ F) as [H1 _].
    assert (Hj : j < length futs).
    { assert (nth_error (firstn (length futs) (sched step (map fst futs))) j <> None) by congruence.
      apply nth_error_Some in H. rewrite firstn_length in H. lia. }
    destruct (nth_error futs j) eqn:E; [discriminate|]. apply nth_error_None in E. lia.
  - exfalso. eapply first_true_some; [|exact F]. rewrite nth_error_firstn_lt by exact Hi. exact Ht.
Qed.

(* ------------------------------------------------------------------ *)
Section RunFacts.
Variable T : Type.
Variable mts : option nat.
Variable get_setting : nat -> list (setting * pyf) -> setting.
Variable run : nat -> setting -> option (trial T).
Variable sm : stopmode.
Notation hstate := (hstate T).
Notation entry := (entry T).
Notation replay := (replay T mts).
Notation do_report := (do_report T mts run sm).
Notation serial := (serial T mts get_setting run sm).

Definition ids (tr : list entry) : list nat := map e_id tr.

(* an entry carries the result of running its own setting under its own submission number *)
Definition paired (e : entry) : Prop := run (e_id e) (e_setting e) = Some (e_trial e).

Lemma do_report_inv st id s step :
  match do_report st id s step with
  | SCrash => True
  | SCont st2 e | SStop st2 e =>
      e_id e = id /\ e_setting e = s /\ paired e /\ replay st [e] = Some st2
  end.
Proof.
  unfold do_report. destruct (run id s) as [tr|] eqn:R; [|exact I].
  destruct (report T mts st s tr) as [st1|] eqn:E; [|exact I].
  destruct (should_stop T sm (assess T st1 tr) step); cbn; unfold paired, e_id, e_setting, e_trial; cbn;
    rewrite E; repeat split; assumption.
Qed.

(* P: any property of (submission number, setting) pairs that every answer of the library has *)
Section WithP.
Variable P : nat -> setting -> Prop.
Hypothesis P_ask : forall k h, P k (get_setting k h).

Definition entryP (e : entry) : Prop := P (e_id e) (e_setting e).

Lemma serial_spec n : forall k step st trace status st' trace' k',
  serial n k step st trace = (status, st', trace', k') ->
  exists new, trace' = trace ++ new /\ replay st new = Some st' /\
    k <= k' <= k + n /\ length new <= k' - k /\ ids new = seq k (length new) /\
    Forall paired new /\ Forall entryP new /\
    (status = Done -> k' = k + n /\ length new = n) /\
    (status = Stopped \/ status = Done -> length new = k' - k).
Proof.
  induction n as [|n IH]; intros k step st trace status st' trace' k' H; cbn in H.
  - injection H as <- <- <- <-. exists []. rewrite app_nil_r. cbn.
    repeat split; try constructor; try lia; try reflexivity.
  - pose proof (do_report_inv st k (get_setting k (h_optlib st)) step) as D.
    destruct (do_report st k (get_setting k (h_optlib st)) step) as [st2 e|st2 e|].
    + destruct D as (Hid & Hs & Hp & Hr).
      apply IH in H. destruct H as (new & -> & Hrep & Hk & Hlen & Hids & Hpair & HP & Hdone & Hstop).
      exists (e :: new). rewrite <- app_assoc. split; [reflexivity|]. split.
      { cbn in Hr |- *. destruct (report T mts st (e_setting e) (e_trial e)); [|discriminate].
        injection Hr as ->. exact Hrep. }
      split; [lia|]. split; [cbn [length]; lia|]. split; [cbn; rewrite Hid; f_equal; exact Hids|].
      split; [constructor; assumption|]. split.
      { constructor; [|exact HP]. unfold entryP. rewrite Hid, Hs. apply P_ask. }
      split; [intros E; destruct (Hdone E); cbn [length]; lia|]. intros E. specialize (Hstop E). cbn [length]. lia.
    + destruct D as (Hid & Hs & Hp & Hr). injection H as <- <- <- <-.
      exists [e]. split; [reflexivity|]. split; [exact Hr|]. split; [lia|]. split; [cbn [length]; lia|].
      split; [cbn; rewrite Hid; reflexivity|]. split; [repeat constructor; exact Hp|]. split.
      { repeat constructor. unfold entryP. rewrite Hid, Hs. apply P_ask. }
      split; [discriminate|]. intros _. cbn [length]. lia.
    + injection H as <- <- <- <-. exists []. rewrite app_nil_r. cbn.
      repeat split; try constructor; try lia; try discriminate. intros [E|E]; discriminate.
Qed.

(* ---- parallel ---- *)
Variable pre_dispatch : nat.
Variable sched : nat -> list nat -> list bool.
Notation drain := (drain T mts run sm sched).
Notation par := (par T mts get_setting run sm pre_dispatch sched).

Definition futP (f : fut) : Prop := P (fst f) (snd f).

Lemma drain_spec fuel : forall step st futs trace k status st' trace' k',
  length futs <= fuel -> Forall futP futs ->
  drain fuel step st futs trace k = (status, st', trace', k') ->
  exists new rest, trace' = trace ++ new /\ replay st new = Some st' /\ k' = k /\
    Permutation (map (fun e => (e_id e, e_setting e)) new ++ rest) futs /\
    Forall paired new /\
    (status = Done -> rest = []) /\
    (fair sched -> status <> Stuck).
Proof.
  induction fuel as [|fuel IH]; intros step st futs trace k status st' trace' k' Hlen HP H.
  - destruct futs; [|cbn in Hlen; lia]. cbn in H. injection H as <- <- <- <-.
    exists [], []. rewrite app_nil_r. cbn. repeat split; try constructor; congruence.
  - destruct futs as [|f0 futs0].
    { cbn in H. injection H as <- <- <- <-.
      exists [], []. rewrite app_nil_r. cbn. repeat split; try constructor; congruence. }
    cbn [drain] in H. set (futs := f0 :: futs0) in *.
    destruct (pick (sched step (map fst futs)) futs) as [[[id s] rest0]|] eqn:Pk.
    + pose proof (pick_perm _ _ _ _ Pk) as Hperm.
      pose proof (do_report_inv st id s step) as D.
      destruct (do_report st id s step) as [st2 e|st2 e|].
      * destruct D as (Hid & Hs & Hp & Hr).
        apply IH in H.
        2:{ apply Permutation_length in Hperm. cbn [length] in Hperm. lia. }
        2:{ eapply Forall_forall. intros x Hx. eapply Forall_forall in HP; [exact HP|].
            eapply Permutation_in; [apply Permutation_sym, Hperm|right; exact Hx]. }
        destruct H as (new & rest & -> & Hrep & -> & Hpm & Hpair & Hdone & Hfair).
        exists (e :: new), rest. rewrite <- app_assoc. split; [reflexivity|]. split.
        { cbn in Hr |- *. destruct (report T mts st (e_setting e) (e_trial e)); [|discriminate].
          injection Hr as ->. exact Hrep. }
        split; [reflexivity|]. split.
        { cbn. rewrite Hid, Hs. eapply Permutation_trans; [apply perm_skip, Hpm|apply Permutation_sym, Hperm]. }
        split; [constructor; assumption|]. split; assumption.
      * destruct D as (Hid & Hs & Hp & Hr). injection H as <- <- <- <-.
        exists [e], rest0. split; [reflexivity|]. split; [exact Hr|]. split; [reflexivity|]. split.
        { cbn. rewrite Hid, Hs. apply Permutation_sym, Hperm. }
        split; [repeat constructor; exact Hp|]. split; [discriminate|]. intros _; discriminate.
      * injection H as <- <- <- <-. exists [], futs. rewrite app_nil_r. cbn.
        repeat split; try constructor; try apply Permutation_refl; try discriminate.
    + injection H as <- <- <- <-. exists [], futs. rewrite app_nil_r. cbn.
      repeat split; try constructor; try apply Permutation_refl; try discriminate.
      intros Hf _. eapply pick_fair; [exact Hf| |exact Pk]. unfold futs. discriminate.
Qed.

Lemma par_spec n : forall k step st futs trace status st' trace' k',
  Forall futP futs ->
  par n k step st futs trace = (status, st', trace', k') ->
  exists new rest asked, trace' = trace ++ new /\ replay st new = Some st' /\
    k <= k' <= k + n /\ map fst asked = seq k (k' - k) /\ Forall futP asked /\
    Permutation (map (fun e => (e_id e, e_setting e)) new ++ rest) (futs ++ asked) /\
    Forall paired new /\
    (status = Done -> rest = [] /\ k' = k + n) /\
    (fair sched -> status <> Stuck).
Proof.
  induction n as [|n IH]; intros k step st futs trace status st' trace' k' HP H; cbn [par] in H.
  - apply drain_spec in H; [|lia|exact HP].
    destruct H as (new & rest & -> & Hrep & -> & Hpm & Hpair & Hdone & Hfair).
    exists new, rest, []. rewrite app_nil_r, Nat.sub_diag. cbn.
    repeat split; try assumption; try lia; try constructor.
    + apply Hdone, H.
  - set (s := get_setting k (h_optlib st)) in *.
    assert (HP' : Forall futP (futs ++ [(k, s)])).
    { apply Forall_app. split; [exact HP|]. repeat constructor. unfold futP. cbn. apply P_ask. }
    destruct (Nat.leb pre_dispatch (length (futs ++ [(k, s)]))).
    + destruct (pick (sched step (map fst (futs ++ [(k, s)]))) (futs ++ [(k, s)])) as [[[id s'] rest0]|] eqn:Pk.
      * pose proof (pick_perm _ _ _ _ Pk) as Hperm.
        pose proof (do_report_inv st id s' step) as D.
        destruct (do_report st id s' step) as [st2 e|st2 e|].
        -- destruct D as (Hid & Hs & Hp & Hr).
           apply IH in H.
           2:{ eapply Forall_forall. intros x Hx. eapply Forall_forall in HP'; [exact HP'|].
               eapply Permutation_in; [apply Permutation_sym, Hperm|right; exact Hx]. }
           destruct H as (new & rest & asked & -> & Hrep & Hk & Hasked & HPa & Hpm & Hpair & Hdone & Hfair).
           exists (e :: new), rest, ((k, s) :: asked). rewrite <- app_assoc. split; [reflexivity|]. split.
           { cbn in Hr |- *. destruct (report T mts st (e_setting e) (e_trial e)); [|discriminate].
             injection Hr as ->. exact Hrep. }
           split; [lia|]. split.
           { cbn [map fst]. replace (k' - k) with (S (k' - S k)) by lia. cbn. f_equal. exact Hasked. }
           split; [constructor; [unfold futP; cbn; apply P_ask|exact HPa]|]. split.
           { cbn [map app]. rewrite Hid, Hs.
             eapply Permutation_trans; [apply perm_skip, Hpm|].
             change ((id, s') :: rest0 ++ asked) with (((id, s') :: rest0) ++ asked).
             eapply Permutation_trans; [apply Permutation_app_tail, Permutation_sym, Hperm|].
             rewrite <- app_assoc. apply Permutation_refl. }
           split; [constructor; assumption|]. split; [|exact Hfair].
           intros E. destruct (Hdone E). split; [assumption|lia].
        -- destruct D as (Hid & Hs & Hp & Hr). injection H as <- <- <- <-.
           exists [e], rest0, [(k, s)]. split; [reflexivity|]. split; [exact Hr|]. split; [lia|]. split.
           { replace (S k - k) with 1 by lia. reflexivity. }
           split; [repeat constructor; unfold futP; cbn; apply P_ask|]. split.
           { cbn. rewrite Hid, Hs. apply Permutation_sym, Hperm. }
           split; [repeat constructor; exact Hp|]. split; [discriminate|]. intros _; discriminate.
        -- injection H as <- <- <- <-. exists [], (futs ++ [(k, s)]), [(k, s)]. rewrite app_nil_r.
           split; [reflexivity|]. split; [reflexivity|]. split; [lia|]. split.
           { replace (S k - k) with 1 by lia. reflexivity. }
           split; [repeat constructor; unfold futP; cbn; apply P_ask|]. split; [apply Permutation_refl|].
           split; [constructor|]. split; [discriminate|]. intros _; discriminate.
      * injection H as <- <- <- <-. exists [], (futs ++ [(k, s)]), [(k, s)]. rewrite app_nil_r.
        split; [reflexivity|]. split; [reflexivity|]. split; [lia|]. split.
        { replace (S k - k) with 1 by lia. reflexivity. }
        split; [repeat constructor; unfold futP; cbn; apply P_ask|]. split; [apply Permutation_refl|].
        split; [constructor|]. split; [discriminate|].
        intros Hf _. eapply pick_fair; [exact Hf| |exact Pk]. destruct futs; discriminate.
    + apply IH in H; [|exact HP'].
      destruct H as (new & rest & asked & -> & Hrep & Hk & Hasked & HPa & Hpm & Hpair & Hdone & Hfair).
      exists new, rest, ((k, s) :: asked). split; [reflexivity|]. split; [exact Hrep|]. split; [lia|]. split.
      { cbn [map fst]. replace (k' - k) with (S (k' - S k)) by lia. cbn. f_equal. exact Hasked. }
      split; [constructor; [unfold futP; cbn; apply P_ask|exact HPa]|]. split.
      { eapply Permutation_trans; [exact Hpm|]. rewrite <- app_assoc. apply Permutation_refl. }
      split; [exact Hpair|]. split; [|exact Hfair].
      intros E. destruct (Hdone E). split; [assumption|lia].
Qed.

End WithP.
End RunFacts.

(* ------------------------------------------------------------------ *)
(* consequences for whole runs *)
Section RunTheorems.
Variable T : Type.
Variable mts : option nat.
Variable get_setting : nat -> list (setting * pyf) -> setting.
Variable run : nat -> setting -> option (trial T).
Variable sm : stopmode.
Notation entry := (entry T).
Notation serial := (serial T mts get_setting run sm).
Notation replay := (replay T mts).

Definition submitted_setting (id : nat) (s : setting) : Prop := exists h, s = get_setting id h.
Lemma submitted_ask k h : submitted_setting k (get_setting k h).
Proof. exists h. reflexivity. Qed.

Lemma serial_inv n k step status st trace k' :
  serial n k step init_state [] = (status, st, trace, k') -> inv T trace st.
Proof.
  intros H. apply (serial_spec T mts get_setting run sm submitted_setting submitted_ask) in H.
  destruct H as (new & -> & Hrep & _). cbn. apply (inv_replay T mts), Hrep.
Qed.

Lemma serial_bounded n k step st0 status st trace k' :
  serial n k step st0 [] = (status, st, trace, k') ->
  k' - k <= n /\ length trace <= k' - k /\
  (replay st0 trace = Some st) /\
  ids T trace = seq k (length trace) /\
  Forall (paired T run) trace /\
  Forall (fun e => submitted_setting (e_id e) (e_setting e)) trace.
Proof.
  intros H. apply (serial_spec T mts get_setting run sm submitted_setting submitted_ask) in H.
  destruct H as (new & -> & Hrep & Hk & Hlen & Hids & Hp & HP & _). cbn.
  repeat split; try assumption; lia.
Qed.

Variable pre_dispatch : nat.
Variable sched : nat -> list nat -> list bool.
Notation par := (par T mts get_setting run sm pre_dispatch sched).

Lemma NoDup_app_l {A} (l1 l2 : list A) : NoDup (l1 ++ l2) -> NoDup l1.
Proof.
  induction l1 as [|x l1 IH]; cbn; intros H; [constructor|].
  inversion H as [|y l Hn Hd]; subst. constructor; [|apply IH, Hd].
  intros Hin. apply Hn, in_or_app. left. exact Hin.
Qed.

(* every scheduler: the reported trials are distinct submissions of this search, each paired
   with its own setting and its own result; the final state is the replay of the reports *)
Lemma par_safety n k step st0 status st trace k' :
  par n k step st0 [] [] = (status, st, trace, k') ->
  k' - k <= n /\ length trace <= k' - k /\
  replay st0 trace = Some st /\
  NoDup (ids T trace) /\ (forall id, In id (ids T trace) -> k <= id < k') /\
  Forall (paired T run) trace /\
  Forall (fun e => submitted_setting (e_id e) (e_setting e)) trace.
Proof.
  intros H. apply (par_spec T mts get_setting run sm submitted_setting submitted_ask) in H; [|constructor].
  destruct H as (new & rest & asked & -> & Hrep & Hk & Hasked & HPa & Hpm & Hpair & _). cbn [app] in *.
  assert (Hfst : Permutation (ids T new ++ map fst rest) (seq k (k' - k))).
  { rewrite <- Hasked. apply (Permutation_map fst) in Hpm. rewrite map_app, map_map in Hpm. exact Hpm. }
  assert (Hnd : NoDup (ids T new ++ map fst rest)).
  { eapply Permutation_NoDup; [apply Permutation_sym, Hfst|apply seq_NoDup]. }
  split; [lia|]. split.
  { apply Permutation_length in Hfst. rewrite app_length, seq_length in Hfst. unfold ids in Hfst.
    rewrite map_length in Hfst. lia. }
  split; [exact Hrep|]. split; [eapply NoDup_app_l, Hnd|]. split.
  { intros id Hin. assert (In id (seq k (k' - k))).
    { eapply Permutation_in; [exact Hfst|apply in_or_app; left; exact Hin]. }
    apply in_seq in H. lia. }
  split; [exact Hpair|].
  apply Forall_forall. intros e He.
  assert (Hin : In (e_id e, e_setting e) asked).
  { eapply Permutation_in; [exact Hpm|]. apply in_or_app. left.
    apply (in_map (fun e => (e_id e, e_setting e))) in He. exact He. }
  eapply Forall_forall in HPa; [|exact Hin]. exact HPa.
Qed.

(* a search on an optimizer whose futures list still holds what an aborted search left:
   thanks to the reset it reports only its own submissions, at most n of them *)
Lemma par_search_own_trials leftover n k st0 status st trace k' :
  par_search T mts get_setting run sm pre_dispatch sched true leftover n k st0 = (status, st, trace, k') ->
  k' - k <= n /\ length trace <= k' - k /\
  replay st0 trace = Some st /\
  NoDup (ids T trace) /\ (forall id, In id (ids T trace) -> k <= id < k') /\
  Forall (paired T run) trace /\
  Forall (fun e => submitted_setting (e_id e) (e_setting e)) trace.
Proof. unfold par_search. apply par_safety. Qed.

Lemma par_inv n k step status st trace k' :
  par n k step init_state [] [] = (status, st, trace, k') -> inv T trace st.
Proof. intros H. apply par_safety in H. apply (inv_replay T mts), H. Qed.

(* a fair scheduler never leaves the search polling for ever, and when the search runs to the
   end every submission is reported exactly once *)
Lemma par_complete n k step st0 status st trace k' :
  par n k step st0 [] [] = (status, st, trace, k') ->
  (fair sched -> status <> Stuck) /\
  (status = Done -> k' = k + n /\ Permutation (ids T trace) (seq k n)).
Proof.
  intros H. apply (par_spec T mts get_setting run sm submitted_setting submitted_ask) in H; [|constructor].
  destruct H as (new & rest & asked & -> & Hrep & Hk & Hasked & HPa & Hpm & Hpair & Hdone & Hfair).
  split; [exact Hfair|]. intros E. destruct (Hdone E) as [-> ->]. split; [reflexivity|].
  rewrite app_nil_r in Hpm. cbn [app] in *. replace (k + n - k) with n in Hasked by lia. rewrite <- Hasked.
  apply (Permutation_map fst) in Hpm. rewrite map_map in Hpm. exact Hpm.
Qed.

(* ---- a library that does not adapt (optlib='random'): the pool run reports a permutation of
   the serial run's entries ---- *)
Hypothesis non_adaptive : forall k h h', get_setting k h = get_setting k h'.

Definition mk_entry (id : nat) : entry :=
  (id, get_setting id [], match run id (get_setting id []) with Some tr => tr | None => failed_trial end).

Lemma entries_determined (tr : list entry) :
  Forall (paired T run) tr -> Forall (fun e => e_setting e = get_setting (e_id e) []) tr ->
  tr = map mk_entry (ids T tr).
Proof.
  induction tr as [|e tr IH]; intros Hp Hs; [reflexivity|].
  inversion Hp as [|? ? Hp1 Hp2]; subst. inversion Hs as [|? ? Hs1 Hs2]; subst.
  cbn. f_equal; [|apply IH; assumption].
  destruct e as [[id s] b]. unfold paired, e_id, e_setting, e_trial, mk_entry in *. cbn in *.
  subst s. rewrite Hp1. reflexivity.
Qed.

Lemma par_is_permutation_of_serial n k st0 status st trace k' status_s st_s trace_s k_s :
  par n k 0 st0 [] [] = (status, st, trace, k') -> status = Done ->
  serial n k 0 st0 [] = (status_s, st_s, trace_s, k_s) -> status_s = Done ->
  Permutation trace trace_s.
Proof.
  intros Hpar Ed Hser Es.
  pose (P := fun (id : nat) (s : setting) => s = get_setting id []).
  assert (P_ask : forall k h, P k (get_setting k h)) by (intros; apply non_adaptive).
  pose proof (par_complete _ _ _ _ _ _ _ _ Hpar) as [_ Hc]. destruct (Hc Ed) as [_ Hperm].
  apply (par_spec T mts get_setting run sm P P_ask) in Hpar; [|constructor].
  destruct Hpar as (new & rest & asked & -> & _ & _ & _ & HPa & Hpm & Hpair & Hdone & _).
  destruct (Hdone Ed) as [-> _]. rewrite app_nil_r in Hpm. cbn [app] in *.
  apply (serial_spec T mts get_setting run sm P P_ask) in Hser.
  destruct Hser as (news & -> & _ & _ & _ & Hids & Hpairs & HPs & Hd & _). destruct (Hd Es) as [_ Hlen].
  cbn [app]. rewrite Hlen in Hids.
  assert (HPn : Forall (fun e : entry => e_setting e = get_setting (e_id e) []) new).
  { apply Forall_forall. intros e He.
    assert (Hin : In (e_id e, e_setting e) asked).
    { eapply Permutation_in; [exact Hpm|]. apply (in_map (fun e => (e_id e, e_setting e))) in He. exact He. }
    eapply Forall_forall in HPa; [|exact Hin]. exact HPa. }
  rewrite (entries_determined new Hpair HPn), (entries_determined news Hpairs HPs).
  apply Permutation_map. rewrite Hids. exact Hperm.
Qed.

End RunTheorems.

(* the best score is a function of the multiset of reported entries *)
Lemma best_score_perm T tr1 st1 tr2 st2 :
  inv T tr1 st1 -> inv T tr2 st2 -> Permutation tr1 tr2 -> best_score_of st1 = best_score_of st2.
Proof.
  intros I1 I2 Hp.
  assert (Hs : forall x, In x (h_scores st1) <-> In x (h_scores st2)).
  { intros x. rewrite (inv_scores _ _ _ I1), (inv_scores _ _ _ I2). unfold scores_of.
    split; apply Permutation_in; [|apply Permutation_sym]; apply Permutation_map, Hp. }
  assert (member : forall tr st, inv T tr st -> forall b s, h_best st = Some (b, s) ->
            In (score_of b) (h_scores st) /\ flt (score_of b) PInf = true).
  { intros tr st I b s E. pose proof (inv_best _ _ _ I) as IB. rewrite E in IB.
    destruct IB as (i & id & Hn & Hf & _). split; [|exact Hf].
    rewrite (inv_scores _ _ _ I). unfold scores_of. apply nth_error_In in Hn.
    apply (in_map (fun e => score_of (e_trial e))) in Hn. exact Hn. }
  pose proof (inv_best _ _ _ I1) as B1. pose proof (inv_best _ _ _ I2) as B2.
  pose proof (inv_notnan _ _ _ I1) as N1. pose proof (inv_notnan _ _ _ I2) as N2.
  pose proof (inv_min _ _ _ I1) as M1. pose proof (inv_min _ _ _ I2) as M2.
  unfold best_score_of in *.
  destruct (h_best st1) as [[b1 s1]|] eqn:E1, (h_best st2) as [[b2 s2]|] eqn:E2.
  - destruct (member _ _ I1 _ _ E1) as [m1 _]. destruct (member _ _ I2 _ _ E2) as [m2 _].
    apply flt_antisym_eq; [exact N1|exact N2| |].
    + apply M2, Hs, m1.
    + apply M1, Hs, m2.
  - destruct (member _ _ I1 _ _ E1) as [m1 f1]. rewrite (B2 _ (proj1 (Hs _) m1)) in f1. discriminate.
  - destruct (member _ _ I2 _ _ E2) as [m2 f2]. rewrite (B1 _ (proj2 (Hs _) m2)) in f2. discriminate.
  - reflexivity.
Qed.

(* ------------------------------------------------------------------ *)
(* failed trials *)
Section Failed.
Variable T : Type.
Variable mts : option nat.
Notation report := (report T mts).
Notation assess := (assess T).
Notation replay := (replay T mts).

(* a trial that did not score below +inf: the dict of a failed trial, or a NaN score *)
Definition not_scored (tr : trial T) : bool := negb (flt (score_of tr) PInf).

Lemma flt_not_scored x y : flt x PInf = false -> flt x y = false.
Proof. destruct x, y; cbn; congruence. Qed.

Lemma failed_step st s tr st1 :
  not_scored tr = true -> report st s tr = Some st1 ->
  let st2 := assess st1 tr in
  h_best st2 = h_best st /\ h_best_score st2 = h_best_score st /\ h_optlib st2 = h_optlib st /\
  h_tsb st2 = S (h_tsb st) /\
  h_methods st2 = h_methods st ++ [fst s] /\ h_params st2 = h_params st ++ [snd s] /\
  h_scores st2 = h_scores st ++ [score_of tr].
Proof.
  unfold not_scored. intros Hf R. apply negb_true_iff in Hf.
  unfold report in R. unfold score_of in *.
  destruct (t_score tr) as [sc|] eqn:Esc, (t_flops tr), (t_write tr), (t_size tr); try discriminate.
  injection R as <-. unfold assess, best_score_of, score_of. cbn. rewrite Esc.
  assert (Hall : forall y, flt sc y = false) by (intro; apply flt_not_scored; exact Hf).
  rewrite !Hall. rewrite andb_false_r. cbn. repeat split; reflexivity.
Qed.

Definition sim (a b : hstate T) : Prop := h_best a = h_best b /\ h_best_score a = h_best_score b.

Lemma step_sim a b s tr a1 b1 :
  sim a b -> report a s tr = Some a1 -> report b s tr = Some b1 -> sim (assess a1 tr) (assess b1 tr).
Proof.
  intros [Hb Hs] Ra Rb. unfold report in *.
  destruct (t_score tr) as [sc|] eqn:Esc, (t_flops tr), (t_write tr), (t_size tr); try discriminate.
  injection Ra as <-. injection Rb as <-. unfold sim, assess, best_score_of. cbn.
  rewrite Hb, Hs. destruct (flt (score_of tr) match h_best b with Some (tr0, _) => score_of tr0 | None => PInf end);
    cbn; rewrite ?last_snoc; split; reflexivity.
Qed.

Lemma report_total st st' s tr a : report st s tr = Some a -> exists b, report st' s tr = Some b.
Proof.
  unfold report. destruct (t_score tr), (t_flops tr), (t_write tr), (t_size tr); try discriminate.
  intros _. eexists. reflexivity.
Qed.

(* dropping every trial that did not score changes neither the winner nor the best score *)
Lemma failed_trials_filter tr : forall a b a',
  sim a b -> replay a tr = Some a' ->
  exists b', replay b (filter (fun e => negb (not_scored (e_trial e))) tr) = Some b' /\ sim a' b'.
Proof.
  induction tr as [|e tr IH]; intros a b a' S R; cbn in R.
  - injection R as <-. exists b. split; [reflexivity|exact S].
  - destruct (report a (e_setting e) (e_trial e)) as [a1|] eqn:Ra; [|discriminate]. cbn [filter].
    destruct (not_scored (e_trial e)) eqn:F; cbn [negb].
    + apply (IH _ b) in R; [exact R|].
      destruct (failed_step _ _ _ _ F Ra) as (H1 & H2 & _). destruct S as [S1 S2].
      split; congruence.
    + destruct (report_total a b _ _ _ Ra) as [b1 Rb]. cbn [replay]. rewrite Rb.
      eapply IH; [|exact R]. eapply step_sim; eassumption.
Qed.

(* nothing that did not score is ever handed to the hyper-parameter library: part of inv_optlib *)
End Failed.

(* ------------------------------------------------------------------ *)
(* the trial pipeline *)
Section PipelineFacts.
Variable T : Type.
Variable stats : T -> Z * Z * Z.
Variable post : stage -> T -> res T.
Variable score_basic : cost -> cost -> cost -> pyf.
Variable score_limit : T -> pyf.
Variable cstats : T -> Z * Z * Z.
Variable score_comp : Z -> Z -> Z -> pyf.
Variable score_custom : trial T -> res pyf.
Variable finish : pyf -> pyf.
Notation run_stage := (run_stage T stats post).
Notation run_stages := (run_stages T stats post).
Notation trial_fn := (trial_fn T stats post score_basic score_limit cstats score_comp score_custom finish).

(* the dict describes its tree: recorded figures = contract_stats of trial["tree"] *)
Definition describes (tr : trial T) : Prop :=
  exists t, t_tree tr = Some t /\
    t_flops tr = Some (Some (fst (fst (stats t)))) /\
    t_write tr = Some (Some (snd (fst (stats t)))) /\
    t_size tr = Some (Some (snd (stats t))).

(* ... or carries no figures at all (only the tree) *)
Definition bare (tr : trial T) : Prop :=
  (exists t, t_tree tr = Some t) /\ t_flops tr = None /\ t_write tr = None /\ t_size tr = None.

Lemma run_stage_describes s tr tr' :
  updating s = true -> run_stage s tr = Ok tr' -> describes tr'.
Proof.
  unfold run_stage. destruct (t_tree tr) as [t|]; [|discriminate]. intros -> H.
  destruct (post s t) as [t'| |]; cbn in H; try discriminate. injection H as <-.
  unfold update_stats, describes. destruct (stats t') as [[f w] z] eqn:E. cbn.
  exists t'. rewrite E. repeat split; reflexivity.
Qed.

Lemma run_stage_keeps s tr tr' :
  updating s = false -> run_stage s tr = Ok tr' ->
  (exists t', t_tree tr' = Some t') /\ t_flops tr' = t_flops tr /\ t_write tr' = t_write tr /\ t_size tr' = t_size tr.
Proof.
  unfold run_stage. destruct (t_tree tr) as [t|]; [|discriminate]. intros -> H.
  destruct (post s t) as [t'| |]; cbn in H; try discriminate. injection H as <-. cbn.
  split; [eexists; reflexivity|repeat split; reflexivity].
Qed.

Lemma run_stages_cons s ss r : run_stages (s :: ss) r = run_stages ss (rbind r (run_stage s)).
Proof. reflexivity. Qed.
Lemma run_stages_nil r : run_stages [] r = r.
Proof. reflexivity. Qed.

Lemma run_stages_err ss : run_stages ss RaiseErr = RaiseErr /\ run_stages ss RaiseBad = RaiseBad.
Proof. induction ss as [|s ss IH]; cbn; [split; reflexivity|exact IH]. Qed.

Lemma run_stages_describes ss : forall tr tr',
  Forall (fun s => updating s = true) ss -> (ss <> [] \/ describes tr) ->
  run_stages ss (Ok tr) = Ok tr' -> describes tr'.
Proof.
  induction ss as [|s ss IH]; intros tr tr' Hall Hne H;
    [rewrite run_stages_nil in H|rewrite run_stages_cons in H; cbn [rbind] in H].
  - injection H as <-. destruct Hne as [Hne|Hd]; [contradiction|exact Hd].
  - inversion Hall as [|? ? Hs Hrest]; subst.
    destruct (run_stage s tr) as [tr1| |] eqn:E.
    + eapply IH; [exact Hrest| |exact H]. right. eapply run_stage_describes; eassumption.
    + rewrite (proj2 (run_stages_err ss)) in H. discriminate.
    + rewrite (proj1 (run_stages_err ss)) in H. discriminate.
Qed.

Lemma ensure_basic_describes tr tr' :
  describes tr \/ bare tr -> ensure_basic T stats tr = Ok tr' -> describes tr'.
Proof.
  unfold ensure_basic. intros [D|B] H.
  - destruct D as (t & Ht & Hf & Hw & Hz). rewrite Hf, Hw, Hz in H. injection H as <-.
    exists t. repeat split; assumption.
  - destruct B as ((t & Ht) & Hf & Hw & Hz). rewrite Hf, Hw, Hz, Ht in H.
    destruct (stats t) as [[f w] z] eqn:E. injection H as <-. exists t. cbn. rewrite E.
    repeat split; reflexivity.
Qed.

Definition exact_opts (o : opts) : Prop := o_compressed o = false.

Lemma stages_updating o : exact_opts o -> Forall (fun s => updating s = true) (stages_of o).
Proof.
  unfold exact_opts, stages_of. intros ->.
  destruct (o_anneal o), (o_slice o), (o_slicereconf o), (o_reconf o); cbn; repeat constructor.
Qed.

(* recorded_costs_are_tree_costs, for the objectives that score the recorded figures *)
Lemma basic_records_tree_costs em o b tr :
  exact_opts o -> trial_fn em ObjBasic o b = Ok tr ->
  tr = failed_trial \/ describes tr.
Proof.
  intros Ho H. unfold trial_fn, compute_score in H.
  destruct (rbind (run_stages (stages_of o) (base_trial T b)) _) as [[tr0 x]| |] eqn:E.
  - right. injection H as <-.
    destruct (run_stages (stages_of o) (base_trial T b)) as [tr1| |] eqn:E1; cbn in E; try discriminate.
    unfold score_fn in E.
    destruct (ensure_basic T stats tr1) as [tr2| |] eqn:E2; cbn in E; try discriminate.
    assert (D : describes tr2).
    { eapply ensure_basic_describes; [|exact E2].
      destruct b as [t| |]; cbn in E1.
      - destruct (stages_of o) as [|s ss] eqn:Es.
        + cbn in E1. injection E1 as <-. right. unfold bare. cbn. split; [eexists; reflexivity|repeat split; reflexivity].
        + left. eapply (run_stages_describes (s :: ss)); [rewrite <- Es; apply stages_updating, Ho|left; discriminate|exact E1].
      - rewrite (proj2 (run_stages_err _)) in E1. discriminate.
      - rewrite (proj1 (run_stages_err _)) in E1. discriminate. }
    destruct D as (t & Ht & Hf & Hw & Hz). rewrite Hf, Hw, Hz in E. injection E as <- <-.
    exists t. unfold set_score. cbn. repeat split; assumption.
  - left. injection H as <-. reflexivity.
  - left. destruct em; try discriminate; injection H as <-; reflexivity.
Qed.

(* with LimitObjective the figures are those of the tree as soon as one post-processing
   stage ran ... *)
Lemma limit_records_tree_costs em ens o b tr :
  exact_opts o -> stages_of o <> [] -> trial_fn em (ObjLimit ens) o b = Ok tr ->
  tr = failed_trial \/ describes tr.
Proof.
  intros Ho Hne H. unfold trial_fn, compute_score in H.
  destruct (rbind (run_stages (stages_of o) (base_trial T b)) _) as [[tr0 x]| |] eqn:E.
  - right. injection H as <-.
    destruct (run_stages (stages_of o) (base_trial T b)) as [tr1| |] eqn:E1; cbn in E; try discriminate.
    assert (D : describes tr1).
    { destruct b as [t| |]; cbn in E1.
      - eapply run_stages_describes; [apply stages_updating, Ho|left; exact Hne|exact E1].
      - rewrite (proj2 (run_stages_err _)) in E1. discriminate.
      - rewrite (proj1 (run_stages_err _)) in E1. discriminate. }
    assert (D2 : exists tr2, (if ens then ensure_basic T stats tr1 else Ok tr1) = Ok tr2 /\ describes tr2).
    { destruct ens.
      - destruct (ensure_basic T stats tr1) as [tr2| |] eqn:E2.
        + exists tr2. split; [reflexivity|]. eapply ensure_basic_describes; [left; exact D|exact E2].
        + unfold ensure_basic in E2. destruct D as (t & Ht & Hf & Hw & Hz). rewrite Hf, Hw, Hz in E2. discriminate.
        + unfold ensure_basic in E2. destruct D as (t & Ht & Hf & Hw & Hz). rewrite Hf, Hw, Hz in E2. discriminate.
      - exists tr1. split; [reflexivity|exact D]. }
    destruct D2 as (tr2 & E2 & D2). rewrite E2 in E. cbn in E.
    destruct D2 as (t & Ht & Hf & Hw & Hz). rewrite Ht in E. injection E as <- <-.
    exists t. unfold set_score. cbn. repeat split; assumption.
  - left. injection H as <-. reflexivity.
  - left. destruct em; try discriminate; injection H as <-; reflexivity.
Qed.

(* ... and, once LimitObjective fills the basic quantities like the others, always *)
Lemma limit_fixed_records_tree_costs em o b tr :
  exact_opts o -> trial_fn em (ObjLimit true) o b = Ok tr ->
  tr = failed_trial \/ describes tr.
Proof.
  intros Ho H. unfold trial_fn, compute_score in H.
  destruct (rbind (run_stages (stages_of o) (base_trial T b)) _) as [[tr0 x]| |] eqn:E.
  - right. injection H as <-.
    destruct (run_stages (stages_of o) (base_trial T b)) as [tr1| |] eqn:E1; cbn in E; try discriminate.
    destruct (ensure_basic T stats tr1) as [tr2| |] eqn:E2; cbn in E; try discriminate.
    assert (D : describes tr2).
    { eapply ensure_basic_describes; [|exact E2].
      destruct b as [t| |]; cbn in E1.
      - destruct (stages_of o) as [|s ss] eqn:Es.
        + cbn in E1. injection E1 as <-. right. unfold bare. cbn. split; [eexists; reflexivity|repeat split; reflexivity].
        + left. eapply (run_stages_describes (s :: ss)); [rewrite <- Es; apply stages_updating, Ho|left; discriminate|exact E1].
      - rewrite (proj2 (run_stages_err _)) in E1. discriminate.
      - rewrite (proj1 (run_stages_err _)) in E1. discriminate. }
    destruct D as (t & Ht & Hf & Hw & Hz). rewrite Ht in E. injection E as <- <-.
    exists t. unfold set_score. cbn. repeat split; assumption.
  - left. injection H as <-. reflexivity.
  - left. destruct em; try discriminate; injection H as <-; reflexivity.
Qed.

(* ... and absent otherwise: _maybe_report_result then raises KeyError (finding limit-objective-keyerror) *)
Lemma limit_without_stage_has_no_costs em t :
  exists tr, trial_fn em (ObjLimit false) (mkOpts false false false false false) (Ok t) = Ok tr /\
             t_flops tr = None /\ forall mts st s, report T mts st s tr = None.
Proof.
  eexists. split; [reflexivity|]. split; [reflexivity|]. intros. reflexivity.
Qed.

(* the compressed objectives overwrite the three figures with the compressed statistics of the
   tree the dict holds.  `cstats` is ONE function of the tree (a Section variable): scoring is
   assumed to depend on the tree and the objective's parameters only, not on what was scored
   before -- the harness checks exactly this on every run. *)
Definition describes_compressed (tr : trial T) : Prop :=
  exists t, t_tree tr = Some t /\
    t_flops tr = Some (Some (fst (fst (cstats t)))) /\
    t_write tr = Some (Some (snd (fst (cstats t)))) /\
    t_size tr = Some (Some (snd (cstats t))) /\
    t_score tr = Some (finish (score_comp (fst (fst (cstats t))) (snd (fst (cstats t))) (snd (cstats t)))).

Lemma compressed_records_tree_costs em o b tr :
  trial_fn em ObjCompressed o b = Ok tr -> tr = failed_trial \/ describes_compressed tr.
Proof.
  intros H. unfold trial_fn, compute_score in H.
  destruct (rbind (run_stages (stages_of o) (base_trial T b)) _) as [[tr0 x]| |] eqn:E.
  - right. injection H as <-.
    destruct (run_stages (stages_of o) (base_trial T b)) as [tr1| |] eqn:E1; cbn in E; try discriminate.
    destruct (t_tree tr1) as [t|] eqn:Et; [|discriminate].
    destruct (cstats t) as [[f w] z] eqn:Ec. injection E as <- <-.
    exists t. unfold set_score. cbn. rewrite Ec. cbn. repeat split; reflexivity.
  - left. injection H as <-. reflexivity.
  - left. destruct em; try discriminate; injection H as <-; reflexivity.
Qed.

(* original_* are the figures of the path finder's tree, whatever ran afterwards *)
Lemma originals_are_base ss : forall tr tr',
  run_stages ss (Ok tr) = Ok tr' ->
  (forall f, t_oflops tr = Some f -> t_oflops tr' = Some f) /\
  (forall f, t_owrite tr = Some f -> t_owrite tr' = Some f) /\
  (forall f, t_osize tr = Some f -> t_osize tr' = Some f).
Proof.
  induction ss as [|s ss IH]; intros tr tr' H;
    [rewrite run_stages_nil in H|rewrite run_stages_cons in H; cbn [rbind] in H].
  - injection H as <-. repeat split; auto.
  - destruct (run_stage s tr) as [tr1| |] eqn:E.
    + apply IH in H. destruct H as (H1 & H2 & H3).
      unfold run_stage in E. destruct (t_tree tr) as [t|]; [|discriminate].
      destruct (updating s).
      * destruct (post s t) as [t'| |]; cbn in E; try discriminate. injection E as <-.
        unfold update_stats, set_originals in *. destruct (stats t) as [[f0 w0] z0], (stats t') as [[f1 w1] z1].
        cbn in *. repeat split; intros f Hf; [apply H1|apply H2|apply H3]; rewrite Hf; reflexivity.
      * destruct (post s t) as [t'| |]; cbn in E; try discriminate. injection E as <-. cbn in *.
        repeat split; auto.
    + rewrite (proj2 (run_stages_err ss)) in H. discriminate.
    + rewrite (proj1 (run_stages_err ss)) in H. discriminate.
Qed.

Lemma first_stage_sets_originals s ss t tr' :
  updating s = true ->
  run_stages (s :: ss) (base_trial T (Ok t)) = Ok tr' ->
  t_oflops tr' = Some (fst (fst (stats t))) /\ t_owrite tr' = Some (snd (fst (stats t))) /\
  t_osize tr' = Some (snd (stats t)).
Proof.
  intros Hu H. rewrite run_stages_cons in H. unfold base_trial in H. cbn [rbind] in H.
  unfold run_stage in H. cbn [t_tree] in H. rewrite Hu in H.
  destruct (post s t) as [t'| |]; cbn [rbind] in H.
  - apply originals_are_base in H. destruct H as (H1 & H2 & H3).
    unfold update_stats, set_originals in *. destruct (stats t) as [[f0 w0] z0], (stats t') as [[f1 w1] z1]. cbn in *.
    repeat split; [apply H1|apply H2|apply H3]; reflexivity.
  - rewrite (proj2 (run_stages_err ss)) in H. discriminate.
  - rewrite (proj1 (run_stages_err ss)) in H. discriminate.
Qed.

End PipelineFacts.

(* ------------------------------------------------------------------ *)
(* argmin_first: the declarative meaning of the selection rule *)
Record amin (pre : list pyf) (cur : pyf) (curi : option nat) : Prop := mkAmin {
  am_notnan : cur <> NaN;
  am_min : forall y, In y pre -> flt y cur = false;
  am_pos : match curi with
           | None => cur = PInf
           | Some p => nth_error pre p = Some cur /\ flt cur PInf = true /\
                       forall j y, j < p -> nth_error pre j = Some y -> flt cur y = true \/ y = NaN
           end
}.

Lemma amin_step pre cur curi x :
  amin pre cur curi ->
  if flt x cur then amin (pre ++ [x]) x (Some (length pre)) else amin (pre ++ [x]) cur curi.
Proof.
  intros [Hn Hm Hp]. destruct (flt x cur) eqn:Hlt.
  - constructor.
    + destruct (flt_fin _ _ Hlt) as [k ->]. discriminate.
    + intros y Hy. apply in_app_or in Hy as [Hy|[<-|[]]].
      * eapply flt_keep; [exact Hlt|apply Hm, Hy].
      * apply flt_irrefl.
    + split; [apply nth_error_snoc_eq|]. split.
      * destruct (flt_fin _ _ Hlt) as [k ->]. reflexivity.
      * intros j y Hj Hy. rewrite nth_error_app1 in Hy by exact Hj.
        eapply flt_new_best; [exact Hlt|]. apply Hm. eapply nth_error_In, Hy.
  - constructor.
    + exact Hn.
    + intros y Hy. apply in_app_or in Hy as [Hy|[<-|[]]]; [apply Hm, Hy|exact Hlt].
    + destruct curi as [p|]; [|exact Hp]. destruct Hp as (H1 & H2 & H3).
      assert (Hlen : p < length pre) by (apply nth_error_Some; congruence).
      split; [rewrite nth_error_app1 by exact Hlen; exact H1|]. split; [exact H2|].
      intros j y Hj Hy. rewrite nth_error_app1 in Hy by lia. eapply H3; eassumption.
Qed.

Lemma argmin_from_amin l : forall pre cur curi,
  amin pre cur curi -> exists cur', amin (pre ++ l) cur' (argmin_from cur curi (length pre) l).
Proof.
  induction l as [|x l IH]; intros pre cur curi A; cbn.
  - exists cur. rewrite app_nil_r. exact A.
  - pose proof (amin_step pre cur curi x A) as S.
    replace (pre ++ x :: l) with ((pre ++ [x]) ++ l) by (rewrite <- app_assoc; reflexivity).
    replace (Datatypes.S (length pre)) with (length (pre ++ [x])) by (rewrite app_length; cbn; lia).
    destruct (flt x cur); eapply IH; exact S.
Qed.

Lemma argmin_first_spec l :
  match argmin_first l with
  | Some i => exists x, nth_error l i = Some x /\ flt x PInf = true /\
                (forall y, In y l -> flt y x = false) /\
                (forall j y, j < i -> nth_error l j = Some y -> flt x y = true \/ y = NaN)
  | None => forall y, In y l -> flt y PInf = false
  end.
Proof.
  unfold argmin_first.
  destruct (argmin_from_amin l [] PInf None) as [cur A].
  { constructor; [discriminate|intros y []|reflexivity]. }
  cbn in A. destruct A as [Hn Hm Hp]. destruct (argmin_from PInf None 0 l) as [i|].
  - destruct Hp as (H1 & H2 & H3). exists cur. repeat split; assumption.
  - subst cur. exact Hm.
Qed.

(* the winner kept by the optimizer sits at position argmin_first of the recorded scores *)
Lemma inv_best_position T tr st : inv T tr st ->
  match argmin_first (h_scores st), h_best st with
  | Some i, Some (b, s) => exists id, nth_error tr i = Some (id, s, b)
  | None, None => True
  | _, _ => False
  end.
Proof.
  intros I. pose proof (argmin_first_spec (h_scores st)) as A.
  pose proof (inv_best _ _ _ I) as B. pose proof (inv_min _ _ _ I) as M.
  rewrite (inv_scores _ _ _ I) in *. unfold best_score_of in M.
  destruct (argmin_first (scores_of T tr)) as [i|], (h_best st) as [[b s]|].
  - destruct A as (x & Hx & Hxf & Hxmin & Hxfirst). destruct B as (i' & id & Hn & Hbf & Hbfirst).
    assert (Hsc : nth_error (scores_of T tr) i' = Some (score_of b)).
    { unfold scores_of. rewrite nth_error_map, Hn. reflexivity. }
    assert (i = i').
    { destruct (Nat.lt_trichotomy i i') as [Hlt|[E|Hgt]]; [|exact E|].
      - exfalso. unfold scores_of in Hx. rewrite nth_error_map in Hx.
        destruct (nth_error tr i) as [e|] eqn:Ee; [|discriminate]. injection Hx as Hx.
        destruct (Hbfirst i e Hlt Ee) as [H|H].
        + rewrite Hx in H. rewrite (Hxmin (score_of b)) in H; [discriminate|]. eapply nth_error_In, Hsc.
        + rewrite Hx in H. rewrite H in Hxf. cbn in Hxf. discriminate Hxf.
      - exfalso. destruct (Hxfirst i' _ Hgt Hsc) as [H|H].
        + rewrite (M x) in H; [discriminate|]. eapply nth_error_In, Hx.
        + rewrite H in Hbf. cbn in Hbf. discriminate Hbf. }
    subst i'. exists id. exact Hn.
  - destruct A as (x & Hx & Hxf & _). rewrite (B x) in Hxf; [discriminate|]. eapply nth_error_In, Hx.
  - destruct B as (i' & id & Hn & Hbf & _).
    rewrite (A (score_of b)) in Hbf; [discriminate|].
    unfold scores_of. apply nth_error_In in Hn. apply (in_map (fun e => score_of (e_trial e))) in Hn. exact Hn.
  - exact Logic.I.
Qed.

(* the default pre_dispatch keeps more trials in flight than there are workers *)
Lemma pre_dispatch_exceeds_workers nw : nw + 4 <= pre_dispatch_of nw.
Proof. unfold pre_dispatch_of. apply Nat.le_max_l. Qed.

(* TreeStatePreproc.v -- the invariant of tree.preprocessing:
   (P1) every recorded step is the from-scratch simplification of its leaf for the CURRENT sliced set,
   (P2) a leaf whose legs are cached and which is simplifiable has its step recorded,
   plus: keys are distinct, every leaf has an info entry.  Preserved by every primitive; after
   extract_contractions has touched all leaves (has_preprocessing) the dict is COMPLETE. *)
From Coq Require Import Lia ZifyBool Permutation.
From Ctg Require Import Base Net BaseFacts NetFacts TreeState TreeStateFacts TreeStateInv TreeStateRecipes.

Section PP.
Variable n : net.
Notation N := (NN n).
Hypothesis HN : 2 <= N.

(* in the middle of remove_ind / restore_ind: valid for the new set sln, or the leaf is still to be
   visited (in T) and its data is valid for the old set slo *)
Definition PPT (slo sln : list slinfo) (T : list node) (s : tstate) : Prop :=
  NoDup (pkeys (preproc s)) /\
  (forall k e, pget k (preproc s) = Some e -> preok n sln k e \/ (In [k] T /\ preok n slo k e)) /\
  (forall k, rd i_legs s [k] <> None -> p2 n sln k (preproc s) \/ (In [k] T /\ p2 n slo k (preproc s))) /\
  (forall k, k < N -> In [k] (nkeys (info s))).
Definition PP (s : tstate) : Prop := PPT (sliced s) (sliced s) [] s.

Lemma preok_bound sl k e : preok n sl k e -> k < N.
Proof.
  intros (tk & H & _). destruct (Nat.lt_ge_cases k N) as [Hk|Hk]; [exact Hk|exfalso].
  unfold leaf_preproc, leaf_simplifiable, term_sl in H. rewrite (nth_overflow (inputs n) [] Hk) in H. cbn in H. discriminate.
Qed.

(* the frame of everything that is not a structural change of info / sliced *)
Definition prel (s s' : tstate) : Prop :=
  sliced s' = sliced s /\ children s' = children s /\ pstep n (sliced s) s s' /\
  (forall k, rd i_legs s' [k] = None -> rd i_legs s [k] = None) /\ nkeys (info s') = nkeys (info s) /\
  (err s = true -> err s' = true).
Lemma prel_refl s : prel s s.
Proof. unfold prel. repeat split; auto. apply pstep_refl. Qed.
Lemma prel_trans s1 s2 s3 : prel s1 s2 -> prel s2 s3 -> prel s1 s3.
Proof.
  intros (A1&A2&A3&A4&A5&A6) (B1&B2&B3&B4&B5&B6). unfold prel. rewrite A1 in B3.
  split; [congruence|]. split; [congruence|]. split; [eapply pstep_trans; eassumption|].
  split; [auto|]. split; [congruence|auto].
Qed.
Lemma crel_prel s s' : crel n s s' -> prel s s'.
Proof.
  intros [H Q]. assert (H' := H). destruct H' as (A1&A2&A3&A4). unfold prel.
  split; [exact A3|]. split; [exact A2|]. split; [exact Q|]. split; [intros k; apply (srelC_legs_none _ _ _ _ H)|].
  split; [apply (irel_nkeys _ _ _ A1)|exact A4].
Qed.
Lemma prel_chok s s' : prel s s' -> chok (children s) -> chok (children s').
Proof. intros (_&E&_) H. rewrite E. exact H. Qed.
Lemma rd_legs_upd nd f s k : (length nd <> 1 \/ forall i, i_legs (f i) = i_legs i) ->
  rd i_legs (upd_info nd f s) [k] = rd i_legs s [k].
Proof.
  intros H. destruct (node_eq_dec [k] nd) as [<-|Hq]; [|apply rd_upd_other, Hq].
  destruct H as [H|H]; [cbn in H; congruence|].
  destruct (nget [k] (info s)) as [i|] eqn:E.
  - rewrite (rd_upd_same i_legs [k] f s i E). unfold rd. rewrite E. apply H.
  - unfold upd_info. rewrite E. reflexivity.
Qed.
Lemma upd_err_mono nd f s : err s = true -> err (upd_info nd f s) = true.
Proof. unfold upd_info. destruct (nget nd (info s)); cbn; auto. Qed.
Lemma prel_upd nd f s : (length nd <> 1 \/ forall i, i_legs (f i) = i_legs i) -> prel s (upd_info nd f s).
Proof.
  intros H. destruct (upd_info_fields nd f s) as (F1&F2&_). unfold prel. rewrite F1, F2.
  split; [reflexivity|]. split; [reflexivity|]. split.
  - apply pstep_same; [apply preproc_upd|intros k; apply rd_legs_upd, H].
  - split; [intros k; rewrite rd_legs_upd by exact H; auto|]. split; [apply nkeys_upd|apply upd_err_mono].
Qed.
Lemma prel_fields s s' : info s' = info s -> children s' = children s -> sliced s' = sliced s ->
  (err s = true -> err s' = true) -> preproc s' = preproc s -> prel s s'.
Proof.
  intros E1 E2 E3 E4 E5. unfold prel. split; [exact E3|]. split; [exact E2|]. split.
  - apply pstep_same; [exact E5|intros k; unfold rd; rewrite E1; reflexivity].
  - split; [intros k; unfold rd; rewrite E1; auto|]. split; [rewrite E1; reflexivity|exact E4].
Qed.

Lemma PPT_prel slo T s s' : PPT slo (sliced s) T s -> prel s s' -> PPT slo (sliced s) T s'.
Proof.
  intros (P0&P1&P2&P3) (A1&A2&(Q1&Q2&Q3&Q4)&A4&A5&A6). split; [auto|]. split; [|split].
  - intros k e H. destruct (Q3 k e H) as [H'|[H' _]]; [apply P1, H'|left; exact H'].
  - intros k H. destruct (rd i_legs s [k]) as [lg|] eqn:E.
    + assert (Hne : rd i_legs s [k] <> None) by (rewrite E; discriminate).
      destruct (P2 k Hne) as [B|[B1 B2]].
      * left. intros Hl. apply Q2, B, Hl.
      * right. split; [exact B1|]. intros Hl. apply Q2, B2, Hl.
    + left. apply Q4; assumption.
  - intros k Hk. rewrite A5. apply P3, Hk.
Qed.
Lemma PPT_weakT slo sln (T T' : list node) s : (forall k, In [k] T -> In [k] T') -> PPT slo sln T s -> PPT slo sln T' s.
Proof.
  intros HT (P0&P1&P2&P3). split; [exact P0|]. split; [|split; [|exact P3]].
  - intros k e H. destruct (P1 k e H) as [B|[B1 B2]]; [left; exact B|right; split; [apply HT, B1|exact B2]].
  - intros k H. destruct (P2 k H) as [B|[B1 B2]]; [left; exact B|right; split; [apply HT, B1|exact B2]].
Qed.
(* a state that differs in info only by cleared / added entries *)
Lemma PPT_same slo sln T s s' : preproc s' = preproc s -> (forall k, rd i_legs s' [k] <> None -> rd i_legs s [k] <> None) ->
  (forall k, In [k] (nkeys (info s)) -> In [k] (nkeys (info s'))) -> PPT slo sln T s -> PPT slo sln T s'.
Proof.
  intros E Hl Hk (P0&P1&P2&P3). unfold PPT. rewrite E. split; [exact P0|]. split; [exact P1|].
  split; [intros k H; apply P2, Hl, H|intros k H; apply Hk, P3, H].
Qed.

(* ---- structural primitives ---- *)
Lemma rd_app_none s nd q : rd i_legs (set_info (info s ++ [(nd, noinfo)]) s) q <> None -> rd i_legs s q <> None.
Proof.
  unfold rd. cbn [set_info info]. destruct (nget q (info s)) as [i|] eqn:E.
  - rewrite (nget_app_l q (info s) [(nd, noinfo)] i E). auto.
  - rewrite (nget_app_r q (info s) [(nd, noinfo)] E). cbn. destruct (node_eqb nd q); cbn; intros H; apply H; reflexivity.
Qed.
Lemma PPT_add_node slo sln T nd s : PPT slo sln T s -> PPT slo sln T (add_node nd s).
Proof.
  intros HP. unfold add_node. destruct (nmem nd (info s)); [exact HP|].
  apply (PPT_same slo sln T s); [reflexivity|intros k; apply rd_app_none| |exact HP].
  intros k Hk. cbn [set_info info]. unfold nkeys. rewrite map_app, in_app_iff. left. exact Hk.
Qed.
Lemma PPT_upd slo sln T nd f s : (length nd <> 1 \/ forall i, i_legs (f i) <> None -> i_legs i <> None) ->
  PPT slo sln T s -> PPT slo sln T (upd_info nd f s).
Proof.
  intros H. apply PPT_same; [apply preproc_upd| |intros k Hk; rewrite nkeys_upd; exact Hk].
  intros k. destruct (node_eq_dec [k] nd) as [<-|Hq]; [|rewrite rd_upd_other by exact Hq; auto].
  destruct H as [H|H]; [cbn in H; congruence|].
  destruct (nget [k] (info s)) as [i|] eqn:E.
  - rewrite (rd_upd_same i_legs [k] f s i E). unfold rd. rewrite E. apply H.
  - unfold upd_info. rewrite E. cbn. auto.
Qed.
Lemma PPT_info slo sln T s s' : info s' = info s -> preproc s' = preproc s -> PPT slo sln T s -> PPT slo sln T s'.
Proof. intros E1 E2. apply PPT_same; [exact E2|unfold rd; rewrite E1; auto|rewrite E1; auto]. Qed.

Lemma pget_pdel_other {V} k k' (d : list (nat * V)) : k' <> k -> pget k' (pdel k d) = pget k' d.
Proof.
  intros Hn. induction d as [|[k0 w] d IH]; cbn; [reflexivity|].
  destruct (Nat.eqb_spec k0 k) as [->|Hk]; cbn.
  - destruct (Nat.eqb_spec k k'); [congruence|reflexivity].
  - destruct (Nat.eqb k0 k'); [reflexivity|exact IH].
Qed.
Lemma pget_pdel_same {V} k (d : list (nat * V)) : NoDup (map fst d) -> pget k (pdel k d) = None.
Proof.
  induction d as [|[k0 w] d IH]; cbn; intros ND; [reflexivity|]. inversion ND as [|? ? Hn ND']; subst.
  destruct (Nat.eqb_spec k0 k) as [->|Hk]; cbn.
  - destruct (pget k d) eqn:E; [|reflexivity]. exfalso. apply Hn, pget_in_keys. congruence.
  - destruct (Nat.eqb_spec k0 k); [congruence|apply IH, ND'].
Qed.
Lemma NoDup_pdel {V} k (d : list (nat * V)) : NoDup (map fst d) -> NoDup (map fst (pdel k d)).
Proof.
  induction d as [|[k0 w] d IH]; cbn; intros ND; [constructor|]. inversion ND as [|? ? Hn ND']; subst.
  destruct (Nat.eqb_spec k0 k) as [->|Hk]; cbn; [exact ND'|]. constructor; [|apply IH, ND'].
  intros Hin. apply Hn. apply pget_in_keys in Hin. rewrite pget_pdel_other in Hin by exact Hk. apply pget_in_keys, Hin.
Qed.
(* _remove_node on a leaf: its entry and its preprocessing step go; the leaf leaves the to-do list *)
Lemma PPT_remove_leaf slo sln T k s : PPT slo sln ([k] :: T) s -> PPT slo sln T (remove_node n [k] s).
Proof.
  intros (P0&P1&P2&P3). rewrite remove_node_eq. cbn [length Nat.eqb hd]. unfold clear_info.
  unfold PPT. cbn [set_preproc preproc info]. rewrite preproc_upd.
  split; [apply NoDup_pdel, P0|]. split; [|split].
  - intros k' e H. destruct (Nat.eq_dec k' k) as [->|Hk]; [rewrite pget_pdel_same in H by exact P0; discriminate|].
    rewrite pget_pdel_other in H by exact Hk. destruct (P1 k' e H) as [B|[[B1|B1] B2]]; [left; exact B|congruence|right; auto].
  - intros k' H. assert (Hrd : rd i_legs (upd_info [k] (fun _ => noinfo) s) [k'] <> None) by exact H. clear H.
    destruct (Nat.eq_dec k' k) as [->|Hk].
    + exfalso. apply Hrd. unfold rd. rewrite nget_upd_same. destruct (nget [k] (info s)); reflexivity.
    + rewrite rd_upd_other in Hrd by congruence. unfold p2. rewrite pget_pdel_other by exact Hk.
      destruct (P2 k' Hrd) as [B|[[B1|B1] B2]]; [left; exact B|congruence|right; auto].
  - intros k' Hk. rewrite nkeys_upd. apply P3, Hk.
Qed.
Lemma PPT_remove_node slo T nd s : chok (children s) -> NoDup (nkeys (info s)) ->
  PPT slo (sliced s) T s -> PPT slo (sliced s) T (remove_node n nd s).
Proof.
  intros Hc ND HP. destruct (Nat.eq_dec (length nd) 1) as [E1|E1].
  { rewrite (len1 nd E1). apply PPT_remove_leaf. apply (PPT_weakT slo _ T); [intros k H; right; exact H|exact HP]. }
  rewrite remove_node_eq. apply Nat.eqb_neq in E1. rewrite E1. cbn zeta.
  pose proof (rn_pre_crel n HN nd s Hc) as H3. set (s3 := rn_pre n nd s) in *.
  pose proof (PPT_prel slo T s s3 HP (crel_prel _ _ H3)) as P3.
  assert (ND3 : NoDup (nkeys (info s3))) by apply (crel_nodup n _ _ H3 ND).
  set (s4 := if nmem nd (children s3) then _ else set_err s3).
  assert (P4 : PPT slo (sliced s) T s4) by (unfold s4; destruct (nmem nd (children s3)); apply (PPT_info _ _ _ s3); auto).
  assert (E4 : info s4 = info s3) by (unfold s4; destruct (nmem nd (children s3)); reflexivity).
  apply Nat.eqb_neq in E1.
  destruct (Nat.eqb (length nd) N).
  - apply PPT_upd; [left; exact E1|exact P4].
  - destruct (nmem nd (info s4)); [|apply (PPT_info _ _ _ s4); auto].
    apply (PPT_same _ _ _ s4); [reflexivity| | |exact P4].
    + intros k. unfold rd. cbn [set_info info]. rewrite nget_ndel_other; [auto|]. intros E. apply E1. rewrite <- E. reflexivity.
    + intros k Hk. cbn [set_info info]. apply in_nkeys_ndel; [rewrite E4; exact ND3|]. split; [|exact Hk].
      intros E. apply E1. rewrite <- E. reflexivity.
Qed.
Lemma PPT_contract_pair slo T x y lg c z s : chok (children s) -> x <> [] -> y <> [] -> NoDup (x ++ y) ->
  PPT slo (sliced s) T s -> PPT slo (sliced s) T (contract_pair n x y lg c z s).
Proof.
  intros Hc Hx Hy ND HP. rewrite contract_pair_eq. destruct (cp_pre_fields x y lg c z s) as (F1&F2&F3).
  assert (Lp : length (nunion x y) <> 1).
  { pose proof (Permutation_length (nunion_perm' x y ND)) as L. rewrite app_length in L.
    assert (1 <= length x) by (destruct x; [congruence|cbn; lia]). assert (1 <= length y) by (destruct y; [congruence|cbn; lia]). lia. }
  assert (P5 : PPT slo (sliced s) T (cp_pre x y lg c z s)).
  { unfold cp_pre. set (s1 := add_node (nunion x y) (add_node y (add_node x s))).
    assert (P1 : PPT slo (sliced s) T s1) by (unfold s1; do 3 apply PPT_add_node; exact HP).
    set (s2 := set_children _ s1). assert (P2 : PPT slo (sliced s) T s2) by (apply (PPT_info _ _ _ s1); auto).
    set (s3 := match lg with Some l => _ | None => s2 end).
    assert (P3 : PPT slo (sliced s) T s3) by (unfold s3; destruct lg; [apply PPT_upd; [left; exact Lp|]|]; exact P2).
    set (s4 := match c with Some c0 => _ | None => s3 end).
    assert (P4 : PPT slo (sliced s) T s4) by (unfold s4; destruct c; [apply PPT_upd; [left; exact Lp|]|]; exact P3).
    destruct z; [apply PPT_upd; [left; exact Lp|]|]; exact P4. }
  set (s5 := cp_pre x y lg c z s) in *. rewrite <- F2. apply PPT_prel; [rewrite F2; exact P5|].
  apply crel_prel, update_tracked_crel; [exact HN|]. rewrite F1. apply chok_pair; assumption.
Qed.
Lemma prel_over_children f s : (forall i, i_legs (f i) = i_legs i) -> prel s (over_children f s).
Proof.
  intros Hf. unfold over_children. generalize (children s) at 1. intros L. revert s.
  induction L as [|p L IH]; intros s; cbn [fold_left]; [apply prel_refl|].
  eapply prel_trans; [apply (prel_upd (fst p) f s); right; exact Hf|apply IH].
Qed.

(* ---- getters of index orders / recipes, sort: compositions of prel steps ---- *)
Lemma get_inds_prel f : forall s nd, chok (children s) -> prel s (fst (get_inds n f s nd)).
Proof.
  induction f as [|f IH]; intros s nd Hc; [cbn [get_inds fst]; apply prel_fields; cbn; auto|].
  rewrite get_inds_S. destruct (rd i_inds s nd); [apply prel_refl|].
  pose proof (crel_prel _ _ (g_legs_crel n HN s nd Hc)) as H1. destruct (g_legs n s nd) as [s1 lg]. cbn [fst] in H1.
  destruct (Nat.eqb (length nd) 1 || Nat.eqb (length nd) N).
  - cbn [fst]. eapply prel_trans; [exact H1|apply prel_upd; right; intros i; reflexivity].
  - destruct (nget nd (children s1)) as [[l r]|].
    2:{ cbn [fst]. eapply prel_trans; [exact H1|apply prel_fields; cbn; auto]. }
    pose proof (IH s1 l (prel_chok _ _ H1 Hc)) as H2. destruct (get_inds n f s1 l) as [s2 li]. cbn [fst] in H2.
    pose proof (prel_trans _ _ _ H1 H2) as H12.
    pose proof (IH s2 r (prel_chok _ _ H12 Hc)) as H3. destruct (get_inds n f s2 r) as [s3 ri]. cbn [fst] in H3. cbn [fst].
    eapply prel_trans; [exact H12|]. eapply prel_trans; [exact H3|apply prel_upd; right; intros i; reflexivity].
Qed.
Lemma g_inds_prel s nd : chok (children s) -> prel s (fst (g_inds n s nd)).
Proof. apply get_inds_prel. Qed.
Lemma inds3_prel s nd l r : chok (children s) ->
  let '(s1, li) := g_inds n s l in let '(s2, ri) := g_inds n s1 r in let '(s3, pi) := g_inds n s2 nd in
  prel s s2 /\ prel s s3.
Proof.
  intros Hc. pose proof (g_inds_prel s l Hc) as H1. destruct (g_inds n s l) as [s1 li]. cbn [fst] in H1.
  pose proof (g_inds_prel s1 r (prel_chok _ _ H1 Hc)) as H2. destruct (g_inds n s1 r) as [s2 ri]. cbn [fst] in H2.
  pose proof (prel_trans _ _ _ H1 H2) as H12.
  pose proof (g_inds_prel s2 nd (prel_chok _ _ H12 Hc)) as H3. destruct (g_inds n s2 nd) as [s3 pi]. cbn [fst] in H3.
  split; [exact H12|eapply prel_trans; eassumption].
Qed.
Lemma do_get_prel g nd s : chok (children s) -> prel s (do_get n g nd s).
Proof.
  intros Hc. destruct g; cbn [do_get].
  - apply crel_prel, g_legs_crel; assumption.
  - apply crel_prel, g_involved_crel; assumption.
  - apply crel_prel, g_size_crel; assumption.
  - apply crel_prel, g_flops_crel; assumption.
  - unfold g_can_dot. destruct (rd i_can_dot s nd); [apply prel_refl|].
    destruct (nget nd (children s)) as [[l r]|]; [|apply prel_fields; cbn; auto].
    pose proof (g_legs_crel n HN s nd Hc) as H1. destruct (g_legs n s nd) as [s1 sp]. cbn [fst] in H1.
    pose proof (g_legs_crel n HN s1 l (crel_chok n _ _ H1 Hc)) as H2. destruct (g_legs n s1 l) as [s2 sl]. cbn [fst] in H2.
    pose proof (crel_trans n _ _ _ H1 H2) as H12.
    pose proof (g_legs_crel n HN s2 r (crel_chok n _ _ H12 Hc)) as H3. destruct (g_legs n s2 r) as [s3 sr]. cbn [fst] in H3. cbn [fst].
    eapply prel_trans; [apply crel_prel, (crel_trans n _ _ _ H12 H3)|apply prel_upd; right; intros i; reflexivity].
  - apply g_inds_prel, Hc.
  - unfold g_tdaxes. destruct (rd i_tdaxes s nd); [apply prel_refl|].
    destruct (nget nd (children s)) as [[l r]|]; [|apply prel_fields; cbn; auto].
    pose proof (inds3_prel s nd l r Hc) as H. destruct (g_inds n s l) as [s1 li]. destruct (g_inds n s1 r) as [s2 ri].
    destruct (g_inds n s2 nd) as [s3 pi]. cbn [fst]. eapply prel_trans; [exact (proj1 H)|apply prel_upd; right; intros i; reflexivity].
  - unfold g_tdperm. destruct (rd i_tdperm s nd); [apply prel_refl|].
    destruct (nget nd (children s)) as [[l r]|]; [|apply prel_fields; cbn; auto].
    pose proof (inds3_prel s nd l r Hc) as H. destruct (g_inds n s l) as [s1 li]. destruct (g_inds n s1 r) as [s2 ri].
    destruct (g_inds n s2 nd) as [s3 pi]. cbn [fst]. eapply prel_trans; [exact (proj2 H)|apply prel_upd; right; intros i; reflexivity].
  - unfold g_eq. destruct (rd i_eq s nd); [apply prel_refl|].
    destruct (nget nd (children s)) as [[l r]|]; [|apply prel_fields; cbn; auto].
    pose proof (inds3_prel s nd l r Hc) as H. destruct (g_inds n s l) as [s1 li]. destruct (g_inds n s1 r) as [s2 ri].
    destruct (g_inds n s2 nd) as [s3 pi]. cbn [fst]. eapply prel_trans; [exact (proj2 H)|apply prel_upd; right; intros i; reflexivity].
Qed.
Lemma prel_reset_recipes s : prel s (reset_recipes s).
Proof. unfold reset_recipes. apply (prel_trans _ (over_children drop_recipes s)); [apply prel_over_children; intros i; reflexivity|apply prel_fields; try reflexivity; cbn; auto]. Qed.
Lemma prel_reset_inds s : prel s (reset_inds s).
Proof. unfold reset_inds. apply (prel_trans _ (over_children drop_inds_recipes s)); [apply prel_over_children; intros i; reflexivity|apply prel_fields; try reflexivity; cbn; auto]. Qed.
Lemma sort_step_prel moc mcc s plr : chok (children s) -> prel s (sort_step n moc mcc s plr).
Proof.
  intros Hc. destruct plr as [p [l r]]. unfold sort_step.
  pose proof (g_inds_prel s p Hc) as H1. destruct (g_inds n s p) as [s1 pi]. cbn [fst] in H1.
  pose proof (g_inds_prel s1 l (prel_chok _ _ H1 Hc)) as H2. destruct (g_inds n s1 l) as [s2 li]. cbn [fst] in H2.
  pose proof (prel_trans _ _ _ H1 H2) as H12.
  pose proof (g_inds_prel s2 r (prel_chok _ _ H12 Hc)) as H3. destruct (g_inds n s2 r) as [s3 ri]. cbn [fst] in H3.
  pose proof (prel_trans _ _ _ H12 H3) as H13.
  set (X := if moc && negb (Nat.eqb (length p) N) then _ else (s3, pi)).
  assert (H4 : prel s (fst X)).
  { unfold X. destruct (moc && negb (Nat.eqb (length p) N)); cbn [fst]; [|exact H13].
    eapply prel_trans; [exact H13|apply prel_upd; right; intros i; reflexivity]. }
  destruct X as [s4 pi']. cbn [fst] in H4. destruct mcc; [|exact H4].
  assert (Hchild : forall c s5 (k : ix -> Z * Z), prel s s5 ->
            prel s (if negb (Nat.eqb (length c) 1)
                    then let '(sa, lg) := g_legs n s5 c in upd_info c (w_inds (Some (sort_key2 k (lkeys lg)))) sa else s5)).
  { intros c s5 k H5. destruct (negb (Nat.eqb (length c) 1)); [|exact H5].
    pose proof (g_legs_crel n HN s5 c (prel_chok _ _ H5 Hc)) as Ha. destruct (g_legs n s5 c) as [sa lg]. cbn [fst] in Ha.
    eapply prel_trans; [exact H5|]. eapply prel_trans; [apply crel_prel, Ha|apply prel_upd; right; intros i; reflexivity]. }
  set (Y := if negb (Nat.eqb (length l) 1) then _ else (s4, li)).
  assert (H5 : prel s (fst Y)).
  { pose proof (Hchild l s4 (fun j => (find_z j ri, find_z j pi')) H4) as H.
    unfold Y. destruct (negb (Nat.eqb (length l) 1)); [|exact H]. destruct (g_legs n s4 l) as [sa lg]. exact H. }
  destruct Y as [s5 li']. cbn [fst] in H5.
  pose proof (Hchild r s5 (fun j => (find_z j pi', find_z j li')) H5) as H6.
  destruct (negb (Nat.eqb (length r) 1)); [|exact H6]. destruct (g_legs n s5 r) as [sa lg]. exact H6.
Qed.
Lemma sort_fold_prel moc mcc nodes : forall s, chok (children s) -> prel s (fold_left (sort_step n moc mcc) nodes s).
Proof.
  induction nodes as [|plr nodes IH]; intros s Hc; cbn [fold_left]; [apply prel_refl|].
  pose proof (sort_step_prel moc mcc s plr Hc) as H. eapply prel_trans; [exact H|apply IH, (prel_chok _ _ H Hc)].
Qed.
Lemma sort_inds_prel pr moc mcc reset s : chok (children s) -> prel s (sort_inds n pr moc mcc reset s).
Proof.
  intros Hc. unfold sort_inds. set (s0 := if reset then reset_inds s else s).
  assert (H0 : prel s s0) by (unfold s0; destruct reset; [apply prel_reset_inds|apply prel_refl]).
  pose proof (prel_chok _ _ H0 Hc) as Hc0.
  assert (Hfin : forall s1 nodes, prel s s1 -> prel s (reset_recipes (fold_left (sort_step n moc mcc) nodes s1))).
  { intros s1 nodes H1. eapply prel_trans; [exact H1|]. eapply prel_trans; [apply sort_fold_prel, (prel_chok _ _ H1 Hc)|apply prel_reset_recipes]. }
  destruct pr.
  - pose proof (keyed_crel n (g_flops n) (g_flops_crel n HN) (children s0) s0 [] Hc0) as K.
    destruct (fold_left _ (children s0) (s0, [])) as [sa keyed]. cbn [fst] in K.
    apply Hfin. eapply prel_trans; [exact H0|apply crel_prel, K].
  - pose proof (keyed_crel n (g_size n) (g_size_crel n HN) (children s0) s0 [] Hc0) as K.
    destruct (fold_left _ (children s0) (s0, [])) as [sa keyed]. cbn [fst] in K.
    apply Hfin. eapply prel_trans; [exact H0|apply crel_prel, K].
  - destruct (traverse n s0) as [nodes|]; [apply Hfin, H0|eapply prel_trans; [exact H0|apply prel_fields; cbn; auto]].
  - destruct (descend n s0) as [nodes|]; [apply Hfin, H0|eapply prel_trans; [exact H0|apply prel_fields; cbn; auto]].
Qed.
Lemma PP_prel s s' : PP s -> prel s s' -> PP s'.
Proof. intros HP H. unfold PP. assert (E : sliced s' = sliced s) by apply H. rewrite E. apply PPT_prel; assumption. Qed.

(* ---- remove_ind ---- *)
Lemma rin_prel_internal ind d nd s : length nd <> 1 -> chok (children s) -> prel s (remove_ind_node n ind d s nd).
Proof.
  intros E1 Hc. unfold remove_ind_node. apply Nat.eqb_neq in E1. rewrite E1. apply Nat.eqb_neq in E1.
  assert (Hch : forall s', prel s s' -> chok (children s')) by (intros s' H; apply (prel_chok _ _ H Hc)).
  pose proof (crel_prel _ _ (g_involved_crel n HN s nd Hc)) as H1. destruct (g_involved n s nd) as [s1 inv]. cbn [fst] in H1.
  destruct (negb (lmem ind inv)); [exact H1|].
  set (s2 := upd_info nd (w_involved (Some (ldel ind inv))) s1).
  assert (F2 : prel s s2) by (eapply prel_trans; [exact H1|apply prel_upd; right; intros i; reflexivity]).
  pose proof (crel_prel _ _ (g_flops_crel n HN s2 nd (Hch _ F2))) as H3. destruct (g_flops n s2 nd) as [s3 old_flops]. cbn [fst] in H3.
  assert (F3 : prel s s3) by (eapply prel_trans; eassumption).
  set (s4 := set_flops _ (upd_info nd (w_flops (Some (old_flops / d)%Z)) s3)).
  assert (F4 : prel s s4).
  { eapply prel_trans; [exact F3|]. apply (prel_trans _ (upd_info nd (w_flops (Some (old_flops / d)%Z)) s3)); [apply prel_upd; right; intros i; reflexivity|apply prel_fields; try reflexivity; cbn; auto]. }
  pose proof (crel_prel _ _ (g_legs_crel n HN s4 nd (Hch _ F4))) as H5. destruct (g_legs n s4 nd) as [s5 lg]. cbn [fst snd] in H5.
  assert (F5 : prel s s5) by (eapply prel_trans; eassumption).
  set (s6 := if lmem ind lg then _ else s5).
  assert (F6 : prel s s6).
  { unfold s6. destruct (lmem ind lg); [|exact F5].
    set (sa := upd_info nd (w_legs (Some (ldel ind lg))) s5).
    assert (Fa : prel s sa) by (eapply prel_trans; [exact F5|apply prel_upd; left; exact E1]).
    pose proof (crel_prel _ _ (g_size_crel n HN sa nd (Hch _ Fa))) as Hb. destruct (g_size n sa nd) as [sb old_size]. cbn [fst] in Hb.
    assert (Fb : prel s sb) by (eapply prel_trans; eassumption).
    set (sc := set_sizes _ sb).
    eapply prel_trans; [exact Fb|]. apply (prel_trans _ sc); [apply (prel_fields sb sc); try reflexivity; cbn; auto|].
    apply (prel_trans _ (upd_info nd (w_size (Some (old_size / d)%Z)) sc)); [apply prel_upd; right; intros i; reflexivity|apply prel_fields; try reflexivity; cbn; auto]. }
  eapply prel_trans; [exact F6|apply prel_upd; right; intros i; reflexivity].
Qed.

Section TwoSetsP.
Variable slo sln : list slinfo.
Variable ind : ix.
Hypothesis Hdiff : forall j, j <> ind -> (In j (removed slo) <-> In j (removed sln)).
Lemma leafpre_same k : ~ In ind (nth k (inputs n) []) -> leaf_preproc n sln k = leaf_preproc n slo k.
Proof.
  intros Hk. unfold leaf_preproc, leaf_legs, leaf_simplifiable. rewrite (term_same n slo sln ind Hdiff k Hk). reflexivity.
Qed.
(* a visited leaf that does not carry the index: its data is valid for both sets *)
Lemma PPT_leaf_done T k s : ~ In ind (nth k (inputs n) []) -> PPT slo sln ([k] :: T) s -> PPT slo sln T s.
Proof.
  intros Hk (P0&P1&P2&P3). split; [exact P0|]. split; [|split; [|exact P3]].
  - intros k' e H. destruct (P1 k' e H) as [B|[[B1|B1] B2]]; [left; exact B| |right; auto].
    injection B1 as <-. left. destruct B2 as (tk & E & Ec). exists tk. rewrite (leafpre_same k Hk). auto.
  - intros k' H. destruct (P2 k' H) as [B|[[B1|B1] B2]]; [left; exact B| |right; auto].
    injection B1 as <-. left. unfold p2 in *. rewrite (leafpre_same k Hk). exact B2.
Qed.
Lemma PPT_drop_internal T nd s : length nd <> 1 -> PPT slo sln (nd :: T) s -> PPT slo sln T s.
Proof. intros E1. apply PPT_weakT. intros k [H|H]; [exfalso; apply E1; rewrite H; reflexivity|exact H]. Qed.

Lemma rin_PP d T nd s : sliced s = sln -> chok (children s) -> PPT slo sln (nd :: T) s ->
  PPT slo sln T (remove_ind_node n ind d s nd).
Proof.
  intros Esl Hc HP. destruct (Nat.eq_dec (length nd) 1) as [E1|E1].
  - unfold remove_ind_node. apply Nat.eqb_eq in E1. rewrite E1. apply Nat.eqb_eq in E1.
    rewrite (len1 nd E1) in *. set (k := hd 0 nd) in *. cbn [hd].
    destruct (memb ind (nth k (inputs n) [])) eqn:Em.
    + apply (PPT_info _ _ _ (remove_node n [k] s)); [reflexivity|reflexivity|]. apply PPT_remove_leaf, HP.
    + apply (PPT_leaf_done T k); [apply memb_false, Em|exact HP].
  - apply (PPT_drop_internal T nd _ E1). rewrite <- Esl. apply PPT_prel; [rewrite Esl; exact HP|apply rin_prel_internal; assumption].
Qed.
Lemma rin_fold_PP d L : forall T s, sliced s = sln -> chok (children s) -> PPT slo sln (L ++ T) s ->
  PPT slo sln T (fold_left (remove_ind_node n ind d) L s).
Proof.
  induction L as [|nd L IH]; intros T s Esl Hc HP; cbn [fold_left]; [exact HP|].
  destruct (rin_sfr n HN ind d nd s Hc) as (A&B&_).
  apply IH; [congruence|rewrite A; exact Hc|]. apply rin_PP; assumption.
Qed.
Lemma leafstep_PP T k s : PPT slo sln ([k] :: T) s -> PPT slo sln T (leafstep n ind s k).
Proof.
  intros HP. unfold leafstep. destruct (memb ind (nth k (inputs n) [])) eqn:Em.
  - match goal with |- context [if ?b then _ else _] => destruct b end;
      [apply (PPT_info _ _ _ (remove_node n [k] s)); [reflexivity|reflexivity|]|]; apply PPT_remove_leaf, HP.
  - apply (PPT_leaf_done T k); [apply memb_false, Em|exact HP].
Qed.
Lemma leaf_fold_PP L : forall T s, PPT slo sln (map (fun i => [i]) L ++ T) s -> PPT slo sln T (fold_left (leafstep n ind) L s).
Proof. induction L as [|k L IH]; intros T s HP; cbn [fold_left]; [exact HP|]. apply IH, leafstep_PP, HP. Qed.
End TwoSetsP.

Lemma PPT_final slo sln s : PPT slo sln [] s -> PPT sln sln [] s.
Proof.
  intros (P0&P1&P2&P3). split; [exact P0|]. split; [|split; [|exact P3]].
  - intros k e H. destruct (P1 k e H) as [B|[[] _]]. left. exact B.
  - intros k H. destruct (P2 k H) as [B|[[] _]]. left. exact B.
Qed.
Lemma PPT_start slo sln (T : list node) s : (forall k, k < N -> In [k] T) ->
  (forall k, rd i_legs s [k] <> None -> k < N) -> PPT slo slo [] s -> PPT slo sln T s.
Proof.
  intros HT Hb (P0&P1&P2&P3). split; [exact P0|]. split; [|split; [|exact P3]].
  - intros k e H. destruct (P1 k e H) as [B|[[] _]]. right. split; [apply HT, (preok_bound slo k e B)|exact B].
  - intros k H. destruct (P2 k H) as [B|[[] _]]. right. split; [apply HT, Hb, H|exact B].
Qed.
Lemma InvC_leaf_bound s k : InvC n s -> rd i_legs s [k] <> None -> k < N.
Proof.
  intros [(_&_&H3&_) _] H. unfold rd in H. destruct (nget [k] (info s)) as [i|] eqn:E; [|congruence].
  destruct (H3 [k] i E) as [G _]. apply (good_leaf n _ G).
Qed.

Lemma keys_leaf_bound s k : (forall q, In q (nkeys (info s)) -> good_node n q) -> rd i_legs s [k] <> None -> k < N.
Proof.
  intros HG H. unfold rd in H. destruct (nget [k] (info s)) as [i|] eqn:E; [|congruence].
  apply (good_leaf n), HG, nget_in_keys. congruence.
Qed.
Lemma InvC_keys_good s : InvC n s -> forall q, In q (nkeys (info s)) -> good_node n q.
Proof.
  intros [(_&_&H3&_) _] q Hq. apply nget_in_keys in Hq. destruct (nget q (info s)) as [i|] eqn:E; [|congruence]. apply (H3 q i E).
Qed.

Theorem remove_ind_PP ind pj s : InvC n s -> PP s -> PP (remove_ind n ind pj s).
Proof.
  intros HI HP. unfold remove_ind. destruct (memb ind (removed (sliced s))) eqn:Em; [apply (PPT_info _ _ _ s); auto|].
  pose proof (InvC_chok n s HI) as Hc.
  pose proof (contract_stats_crel n HN false s Hc) as H1. set (s1 := contract_stats n false s) in *.
  set (s2 := fold_left _ (children s1) s1).
  assert (H2 : crel n s1 s2).
  { unfold s2. apply (fold1_crel n (fun s nd => fst (g_legs n (fst (g_involved n s nd)) nd)) (children s1)); [|apply (crel_chok n _ _ H1 Hc)].
    intros s' nd Hc'. eapply crel_trans; [apply g_involved_crel; assumption|]. apply g_legs_crel; [assumption|].
    apply (crel_chok n _ _ (g_involved_crel n HN s' nd Hc') Hc'). }
  pose proof (crel_prel _ _ (crel_trans n _ _ _ H1 H2)) as H02.
  set (x := mkSl ind pj). set (s3 := match pj with None => set_mult (mult s2 * zget ind (szd n))%Z s2 | Some _ => s2 end).
  set (sl := sliced s) in *. set (sl' := sort_by (sl_le n) (sliced s3 ++ [x])).
  assert (Esl3 : sliced s3 = sl) by (unfold s3; destruct pj; cbn; apply H02).
  assert (HPsl : Permutation sl' (sl ++ [x])) by (unfold sl'; rewrite Esl3; apply sort_by_perm).
  assert (Hdiff : forall j, j <> ind -> (In j (removed sl) <-> In j (removed sl'))).
  { intros j Hj. unfold removed. split.
    - intros H. apply (Permutation_in _ (Permutation_sym (Permutation_map sl_ix HPsl))). rewrite map_app, in_app_iff. left. exact H.
    - intros H. apply (Permutation_in _ (Permutation_map sl_ix HPsl)) in H. rewrite map_app, in_app_iff in H. cbn in H.
      destruct H as [H|[H|[]]]; [exact H|congruence]. }
  set (s4 := set_sliced sl' s3).
  assert (Einfo4 : info s4 = info s2) by (unfold s4, s3; destruct pj; reflexivity).
  assert (Epre4 : preproc s4 = preproc s2) by (unfold s4, s3; destruct pj; reflexivity).
  assert (Ech4 : children s4 = children s2) by (unfold s4, s3; destruct pj; reflexivity).
  assert (Hc4 : chok (children s4)) by (rewrite Ech4; apply (prel_chok _ _ H02 Hc)).
  assert (P2 : PPT sl sl [] s2) by (apply (PPT_prel sl [] s s2 HP H02)).
  assert (Ek2 : nkeys (info s2) = nkeys (info s)) by apply H02.
  assert (P4 : PPT sl sl' (map fst (info s4) ++ []) s4).
  { rewrite app_nil_r. apply (PPT_info _ _ _ s2 s4 Einfo4 Epre4). apply PPT_start; [| |exact P2].
    - intros k Hk. rewrite Einfo4. destruct P2 as (_&_&_&P3). apply P3, Hk.
    - intros k H. apply (keys_leaf_bound s2 k); [|exact H]. intros q Hq. rewrite Ek2 in Hq. apply (InvC_keys_good s HI q Hq). }
  pose proof (rin_fold_PP sl sl' ind Hdiff (zget ind (szd n)) (map fst (info s4)) [] s4 eq_refl Hc4 P4) as P5.
  pose proof (rin_fold_sfr n HN ind (zget ind (szd n)) (map fst (info s4)) s4 Hc4) as (A&B&_).
  set (s5 := fold_left _ (map fst (info s4)) s4) in *.
  apply PPT_final in P5. assert (Esl5 : sliced s5 = sl') by (rewrite B; reflexivity).
  apply (PP_prel s5); [unfold PP; rewrite Esl5; exact P5|apply prel_reset_recipes].
Qed.

(* ---- restore_ind ---- *)
Theorem restore_ind_PP ind s : InvC n s -> PP s -> PP (restore_ind n ind s).
Proof.
  intros HI HP. unfold restore_ind. destruct (find _ (sliced s)) as [si|] eqn:Ef; [|apply (PPT_info _ _ _ s); auto].
  set (sl := sliced s) in *. set (sl' := filter (fun x => negb (Nat.eqb (sl_ix x) ind)) sl) in *.
  assert (Hdiff : forall j, j <> ind -> (In j (removed sl) <-> In j (removed sl'))).
  { intros j Hj. unfold sl'. rewrite removed_filter. tauto. }
  pose proof (InvC_chok n s HI) as Hc.
  set (s1 := set_sliced sl' s).
  assert (P1 : PPT sl sl' (map (fun i => [i]) (seq 0 N) ++ []) s1).
  { apply (PPT_info _ _ _ s s1 eq_refl eq_refl). apply PPT_start; [| |exact HP].
    - intros k Hk. rewrite app_nil_r. apply in_map_iff. exists k. split; [reflexivity|apply in_seq; lia].
    - intros k H. apply (keys_leaf_bound s k (InvC_keys_good s HI) H). }
  pose proof (crel_prel _ _ (contract_stats_crel n HN false s1 Hc)) as H2. set (s2 := contract_stats n false s1) in *.
  assert (P2 : PPT sl sl' (map (fun i => [i]) (seq 0 N) ++ []) s2) by (apply (PPT_prel sl _ s1 s2 P1 H2)).
  set (s3 := set_mult (mult s2 / sl_size n si)%Z s2).
  assert (P3 : PPT sl sl' (map (fun i => [i]) (seq 0 N) ++ []) s3) by (apply (PPT_info _ _ _ s2 s3 eq_refl eq_refl P2)).
  change (fold_left _ (seq 0 N) s3) with (fold_left (leafstep n ind) (seq 0 N) s3).
  pose proof (leaf_fold_PP sl sl' ind Hdiff (seq 0 N) [] s3 P3) as P4.
  assert (Hc3 : chok (children s3)) by (apply (prel_chok _ _ H2 Hc)).
  pose proof (leaf_fold_sfr n ind (seq 0 N) s3 Hc3) as F4.
  set (s4 := fold_left (leafstep n ind) (seq 0 N) s3) in *.
  assert (Esl4 : sliced s4 = sl') by (destruct F4 as (_&E&_); rewrite E; apply H2).
  assert (Hc4 : chok (children s4)) by (destruct F4 as (E&_); rewrite E; exact Hc3).
  destruct (traverse n s4) as [nodes|] eqn:Et.
  2:{ apply PPT_final in P4. unfold PP. cbn [set_err sliced]. rewrite Esl4. apply (PPT_info _ _ _ s4); auto. }
  change (fold_left _ nodes s4) with (fold_left (loop_body n ind) nodes s4).
  assert (ND4 : NoDup (nkeys (info s4))).
  { assert (Hk : forall L s0, nkeys (info (fold_left (leafstep n ind) L s0)) = nkeys (info s0)).
    { induction L as [|k L IHL]; intros s0; cbn [fold_left]; [reflexivity|]. rewrite IHL. unfold leafstep.
      destruct (memb ind (nth k (inputs n) [])); [|reflexivity].
      assert (E : nkeys (info (remove_node n [k] s0)) = nkeys (info s0)).
      { rewrite remove_node_eq. cbn [length Nat.eqb hd set_preproc info]. unfold clear_info. apply nkeys_upd. }
      match goal with |- context [if ?b then _ else _] => destruct b end; exact E. }
    unfold s4. rewrite Hk. assert (E : nkeys (info s3) = nkeys (info s)) by apply H2. rewrite E. apply HI. }
  assert (Hnodes : forall p l r, In (p, (l, r)) nodes -> l <> [] /\ r <> [] /\ NoDup (l ++ r)).
  { intros p l r Hin'. pose proof (traverse_entries n s4 nodes Et _ Hin') as E. cbn [fst snd] in E.
    destruct (Hc4 p l r (nget_In _ _ _ E)) as (A&B&C&_). auto. }
  assert (Hloop : forall nodes s0, sliced s0 = sl' -> chok (children s0) -> NoDup (nkeys (info s0)) ->
            (forall p l r, In (p, (l, r)) nodes -> l <> [] /\ r <> [] /\ NoDup (l ++ r)) ->
            PPT sl sl' [] s0 -> PPT sl sl' [] (fold_left (loop_body n ind) nodes s0) /\ sliced (fold_left (loop_body n ind) nodes s0) = sl').
  { intros nds. induction nds as [|[p [l r]] nds IH]; intros s0 Esl Hc0 ND0 Hn P0; cbn [fold_left]; [auto|].
    destruct (Hn p l r (or_introl eq_refl)) as (Hl&Hr&NDlr).
    destruct (loop_body_A n HN sl sl' ind s0 p l r Esl Hc0 ND0 Hl Hr NDlr) as [(G1&G2&G3&G4) _].
    apply IH; [congruence|exact G2|exact G3|intros p' l' r' H'; apply (Hn p' l' r'); right; exact H'|].
    (* the body *)
    unfold loop_body.
    pose proof (g_legs_crel n HN s0 l Hc0) as K1. destruct (g_legs n s0 l) as [sa ll]. cbn [fst] in K1.
    set (Y := if lmem ind ll then (sa, true) else _).
    assert (HY : crel n s0 (fst Y)).
    { unfold Y. destruct (lmem ind ll); [exact K1|].
      pose proof (g_legs_crel n HN sa r (crel_chok n _ _ K1 Hc0)) as K2. destruct (g_legs n sa r) as [sb lr]. cbn [fst] in *.
      eapply crel_trans; eassumption. }
    destruct Y as [sb hit]. cbn [fst] in HY.
    assert (Pb : PPT sl sl' [] sb) by (rewrite <- Esl; apply PPT_prel; [rewrite Esl; exact P0|apply crel_prel, HY]).
    destruct hit; [|exact Pb].
    assert (Eslb : sliced sb = sl') by (destruct (crel_srel n _ _ HY) as (_&_&E&_); congruence).
    assert (Hcb : chok (children sb)) by apply (crel_chok n _ _ HY Hc0).
    assert (NDb : NoDup (nkeys (info sb))) by apply (crel_nodup n _ _ HY ND0).
    destruct (remove_node_facts n HN p sb Hcb) as (R1&R2&_).
    assert (Pc : PPT sl sl' [] (remove_node n p sb)) by (rewrite <- Eslb; apply PPT_remove_node; [assumption|assumption|rewrite Eslb; exact Pb]).
    rewrite <- Eslb, <- R1. apply PPT_contract_pair; try assumption. rewrite R1, Eslb. exact Pc. }
  destruct (Hloop nodes s4 Esl4 Hc4 ND4 Hnodes P4) as [P5 Esl5].
  set (s5 := fold_left (loop_body n ind) nodes s4) in *. apply PPT_final in P5.
  apply (PP_prel s5); [unfold PP; rewrite Esl5; exact P5|apply prel_reset_recipes].
Qed.
End PP.

Section PP2.
Variable n : net.
Notation N := (NN n).
Hypothesis HN : 2 <= N.
Hypothesis Hout : NoDup (output n).

Theorem step_preserves_PP p s : InvC n s -> PP n s -> prim_pre n p s -> PP n (step n p s).
Proof.
  intros HI HP Hp. pose proof (InvC_chok n s HI) as Hc.
  destruct p as [nd|nd|x y lg c z|g nd|f| | | | | |pr a b c|ind pj|ind| |k]; cbn [step].
  - unfold PP. destruct (add_node_fields nd s) as (_&E&_). rewrite E. apply PPT_add_node, HP.
  - unfold PP. destruct (remove_node_facts n HN nd s Hc) as (E&_). rewrite E. apply PPT_remove_node; [exact HN|exact Hc|apply HI|exact HP].
  - cbn [prim_pre prim_preN prim_pre1 prim_pre0] in Hp. destruct Hp as (Gx&Gy&HR&_).
    unfold PP. destruct (contract_pair_facts n HN x y lg c z s Hc) as (E&_); [apply Gx|apply Gy|apply HR|].
    rewrite E. apply PPT_contract_pair; [exact HN|exact Hc|apply Gx|apply Gy|apply HR|exact HP].
  - apply (PP_prel n s); [exact HP|apply do_get_prel; assumption].
  - apply (PP_prel n s); [exact HP|apply crel_prel, contract_stats_crel; assumption].
  - apply (PP_prel n s); [exact HP|apply crel_prel, total_flops_crel; assumption].
  - apply (PP_prel n s); [exact HP|apply crel_prel, total_write_crel; assumption].
  - apply (PP_prel n s); [exact HP|apply crel_prel, max_size_crel; assumption].
  - apply (PP_prel n s); [exact HP|apply prel_reset_inds].
  - apply (PP_prel n s); [exact HP|apply prel_reset_recipes].
  - apply (PP_prel n s); [exact HP|apply sort_inds_prel; assumption].
  - apply remove_ind_PP; assumption.
  - apply restore_ind_PP; assumption.
  - apply (PPT_info n _ _ _ s); auto.
  - destruct (memb k (cores s)); [exact HP|apply (PPT_info n _ _ _ s); auto].
Qed.
Lemma init_state_PP : PP n (init_state n).
Proof.
  unfold PP, PPT. cbn [init_state preproc info sliced]. split; [constructor|]. split; [intros k e H; discriminate|]. split.
  - intros k H. exfalso. apply H. unfold rd. cbn [info].
    destruct (nget [k] _) as [i|] eqn:E; [|reflexivity]. apply nget_In, in_app_iff in E.
    assert (Ei : i = noinfo) by (destruct E as [E|[E|[]]]; [apply in_map_iff in E; destruct E as (j & Hj & _); congruence|congruence]).
    subst i. reflexivity.
  - intros k Hk. unfold nkeys. rewrite map_app, in_app_iff, map_map. left. cbn [fst]. apply in_map_iff. exists k. split; [reflexivity|apply in_seq; lia].
Qed.

(* QP: cost invariant, (A), preprocessing *)
Definition QP (s : tstate) : Prop := QA n s /\ PP n s.
Theorem step_preserves_QP p s : QP s -> primA_pre n p s -> QP (step n p s).
Proof.
  intros [HQ HP] Hp. split; [apply step_preserves_QA; assumption|]. apply step_preserves_PP; [apply HQ|exact HP|apply Hp].
Qed.
Theorem run_preserves_QP tr : forall s, QP s -> preA_trace n tr s -> QP (run n tr s).
Proof.
  induction tr as [|p tr IH]; intros s HQ Hp; [exact HQ|]. destruct Hp as [H1 H2]. cbn [run fold_left].
  apply (IH (step n p s)); [apply step_preserves_QP; assumption|exact H2].
Qed.
Theorem init_state_QP : QP (init_state n).
Proof. split; [apply init_state_QA; assumption|apply init_state_PP]. Qed.

(* completeness: once every leaf has cached legs, preprocessing is exactly the set of from-scratch
   simplifications *)
Lemma eqb_pair_refl (e : list nat * list nat) : eqb e e = true.
Proof.
  destruct e as [a b]. change (list_eqb Nat.eqb a a && list_eqb Nat.eqb b b = true).
  assert (R : forall l, list_eqb Nat.eqb l l = true) by (induction l as [|x l IH]; cbn; [reflexivity|rewrite Nat.eqb_refl, IH; reflexivity]).
  rewrite !R. reflexivity.
Qed.
End PP2.

(* DiskFSFacts.v -- facts about Model/DiskFS.v: DiskDict over a file system, and what a
   later process sees after the writer was killed at an arbitrary point. *)
From Coq Require Import Lia ZArith List Bool.
From Ctg Require Import Base DiskFS.

(* ---- equality tests ----------------------------------------------------------- *)
Lemma list_eqb_nat_eq (a b : list nat) : list_eqb Nat.eqb a b = true <-> a = b.
Proof.
  revert b. induction a as [|x a IH]; intros [|y b]; cbn; try (split; congruence).
  rewrite andb_true_iff, Nat.eqb_eq, IH. split; [intros [-> ->]; reflexivity|intros E; inversion E; auto].
Qed.
Lemma path_eqb_eq (p q : path) : path_eqb p q = true <-> p = q.
Proof.
  unfold path_eqb. revert q. induction p as [|x p IH]; intros [|y q]; cbn; try (split; congruence).
  rewrite andb_true_iff, list_eqb_nat_eq, IH. split; [intros [-> ->]; reflexivity|intros E; inversion E; auto].
Qed.
Lemma path_eqb_refl p : path_eqb p p = true.
Proof. apply path_eqb_eq. reflexivity. Qed.
Lemma path_eqb_neq p q : p <> q -> path_eqb p q = false.
Proof. intros Hn. destruct (path_eqb p q) eqn:E; [apply path_eqb_eq in E; contradiction|reflexivity]. Qed.
Lemma dkey_eqb_eq a b : dkey_eqb a b = true <-> a = b.
Proof.
  destruct a as [x|x], b as [y|y]; cbn; try (split; congruence).
  - rewrite list_eqb_nat_eq. split; [intros ->; reflexivity|intros E; inversion E; auto].
  - rewrite path_eqb_eq. split; [intros ->; reflexivity|intros E; inversion E; auto].
Qed.

(* ---- the finite map ---------------------------------------------------------------- *)
Lemma fs_get_set_same p nd f : fs_get p (fs_set p nd f) = Some nd.
Proof.
  induction f as [|[q x] f IH]; cbn; [rewrite path_eqb_refl; reflexivity|].
  destruct (path_eqb q p) eqn:E; cbn; rewrite E; [reflexivity|exact IH].
Qed.
Lemma fs_get_set_other p q nd f : p <> q -> fs_get q (fs_set p nd f) = fs_get q f.
Proof.
  intros Hn. induction f as [|[r x] f IH]; cbn.
  - rewrite (path_eqb_neq p q Hn). reflexivity.
  - destruct (path_eqb r p) eqn:E; cbn.
    + apply path_eqb_eq in E. subst r. rewrite (path_eqb_neq p q Hn). reflexivity.
    + destruct (path_eqb r q); [reflexivity|exact IH].
Qed.
Lemma fs_get_del_other p q f : p <> q -> fs_get q (fs_del p f) = fs_get q f.
Proof.
  intros Hn. induction f as [|[r x] f IH]; cbn; [reflexivity|].
  destruct (path_eqb r p) eqn:E; cbn.
  - apply path_eqb_eq in E. subst r. rewrite (path_eqb_neq p q Hn). reflexivity.
  - destruct (path_eqb r q); [reflexivity|exact IH].
Qed.

(* ---- which paths an operation can change ------------------------------------------ *)
Definition touches (o : op) (q : path) : Prop :=
  match o with
  | Mkdir p => p = q
  | OpenTrunc p => p = q
  | Append p _ => p = q
  | Rename s d => s = q \/ d = q
  end.

Lemma run_op_untouched o q f : ~ touches o q -> fs_get q (run_op f o) = fs_get q f.
Proof.
  intros Hn. unfold run_op. destruct (negb (op_ok o f)); [reflexivity|].
  destruct o as [p|p|p b|s d]; cbn [touches] in Hn.
  - destruct (fs_get p f); [reflexivity|apply fs_get_set_other, Hn].
  - apply fs_get_set_other, Hn.
  - destruct (fs_get p f) as [[|c]|]; try reflexivity. apply fs_get_set_other, Hn.
  - destruct (fs_get s f) as [nd|]; [|reflexivity].
    rewrite fs_get_del_other by tauto. apply fs_get_set_other. tauto.
Qed.

Lemma run_ops_untouched ops q : forall f, (forall o, In o ops -> ~ touches o q) ->
  fs_get q (run_ops ops f) = fs_get q f.
Proof.
  unfold run_ops. induction ops as [|o ops IH]; intros f Hn; cbn; [reflexivity|].
  rewrite IH by (intros o' Ho'; apply Hn; right; exact Ho').
  apply run_op_untouched, Hn. left; reflexivity.
Qed.

Lemma firstn_In {A} n (l : list A) x : In x (firstn n l) -> In x l.
Proof. intros Hx. rewrite <- (firstn_skipn n l). apply in_app_iff. left; exact Hx. Qed.

Lemma crash_untouched n ops q f : (forall o, In o ops -> ~ touches o q) ->
  fs_get q (crash_at n ops f) = fs_get q f.
Proof.
  intros Hn. unfold crash_at. apply run_ops_untouched.
  intros o Ho. apply Hn. eapply firstn_In; eassumption.
Qed.

Lemma run_ops_app a b f : run_ops (a ++ b) f = run_ops b (run_ops a f).
Proof. unfold run_ops. apply fold_left_app. Qed.

(* writing a whole byte string into a freshly truncated file *)
Lemma appends_content t (bs : bytes) : forall c f, fs_get t f = Some (FFile c) ->
  fs_get t (run_ops (map (fun b => Append t [b]) bs) f) = Some (FFile (c ++ bs)).
Proof.
  induction bs as [|b bs IH]; intros c f Hf; cbn; [rewrite app_nil_r; exact Hf|].
  change (fs_get t (run_ops (map (fun b0 => Append t [b0]) bs) (run_op f (Append t [b]))) = Some (FFile (c ++ b :: bs))).
  replace (c ++ b :: bs) with ((c ++ [b]) ++ bs) by (rewrite <- app_assoc; reflexivity).
  apply IH. unfold run_op. cbn [op_ok]. rewrite Hf. cbn [negb]. apply fs_get_set_same.
Qed.

(* ---- the keys the reusable layer produces ------------------------------------------- *)
Inductive key_shape : dkey -> Prop :=
| shape_flat h : key_shape (KS h)
| shape_split a b : key_shape (KT [a; b]).

(* the cache directory as the reusable layer needs it for key k: the root is a directory;
   the sub-directory of a split key is a directory or absent; the target and its
   temporary name are not directories *)
Definition dir_ready (k : dkey) (f : fs) : Prop :=
  is_dir [] f = true /\
  is_dir (kpath k) f = false /\ is_dir (tmp_of (kpath k)) f = false /\
  match k with KT [a; _] => fs_get [a] f = None \/ fs_get [a] f = Some FDir | _ => True end.

Lemma tmp_neq p : p <> [] -> tmp_of p <> p.
Proof.
  intros Hp E. unfold tmp_of, parent in E.
  pose proof (app_removelast_last [] Hp) as D.
  assert (E2 : removelast p ++ [TMPMARK :: last p []] = removelast p ++ [last p []]) by (transitivity p; [exact E|exact D]).
  apply app_inv_head in E2. inversion E2 as [E'].
  assert (L : length (TMPMARK :: last p []) = length (last p [])) by (rewrite E'; reflexivity).
  cbn in L. lia.
Qed.

Section Codec.
Variable V : Type.
Variable encode : V -> bytes.
Variable decode : bytes -> option V.

(* the codec hypothesis of C15, as far as the theorems below need it *)
Definition prefix_free : Prop :=
  forall v p s, encode v = p ++ s -> s <> [] -> decode p = None.
Definition roundtrip : Prop := forall v, decode (encode v) = Some v.

(* ======================= the code as it stands: refuted ========================= *)
(* A writer killed right after open(fname, 'wb+') leaves an empty file.  Every later
   process then finds the key "present" and raises UnboundLocalError when reading it. *)
Theorem crash_cur_poisons (h : name) (v : V) (f : fs) (mr : nat) :
  decode [] = None -> is_dir [] f = true -> is_dir [h] f = false ->
  let f1 := crash_at 1 (setitem_ops_cur V encode (KS h) v) f in
  fst (contains_cur V (mkDD [] true f1) (KS h)) = true /\
  fst (getitem_cur V decode (S mr) (mkDD [] true f1) (KS h)) = UnboundErr.
Proof.
  intros Hd Hroot Hnd f1.
  assert (G : fs_get [h] f1 = Some (FFile [])).
  { unfold f1, crash_at, setitem_ops_cur, mkdir_ops. cbn [kpath length Nat.ltb Nat.leb app firstn run_ops fold_left].
    unfold run_op. cbn [op_ok parent removelast]. rewrite Hroot, Hnd. cbn. apply fs_get_set_same. }
  clearbody f1. split.
  - cbn. unfold fs_exists. rewrite G. reflexivity.
  - unfold getitem_cur. cbn [mem_get dd_mem dd_dir dd_fs negb kpath].
    unfold fs_exists, is_dir. rewrite G. cbn [negb].
    assert (R : forall n, retry V decode n [h] f1 = None).
    { induction n as [|n IH]; cbn; [reflexivity|]. unfold try_load. rewrite G, Hd. exact IH. }
    rewrite R. reflexivity.
Qed.

(* prefix-freeness gives the `decode [] = None` premise whenever encodings are non-empty *)
Lemma prefix_free_nil v : prefix_free -> encode v <> [] -> decode [] = None.
Proof. intros PF Hne. apply (PF v [] (encode v)); [reflexivity|exact Hne]. Qed.

(* the same at every byte offset: a strict prefix on disk is found "present" and unreadable *)
Theorem torn_file_poisons_cur (h : name) (v : V) (p s : bytes) (f : fs) (mr : nat) :
  prefix_free -> encode v = p ++ s -> s <> [] -> fs_get [h] f = Some (FFile p) ->
  fst (contains_cur V (mkDD [] true f) (KS h)) = true /\
  fst (getitem_cur V decode (S mr) (mkDD [] true f) (KS h)) = UnboundErr.
Proof.
  intros PF E Hs G. split.
  - cbn. unfold fs_exists. rewrite G. reflexivity.
  - unfold getitem_cur. cbn [mem_get dd_mem dd_dir dd_fs negb kpath].
    unfold fs_exists, is_dir. rewrite G. cbn [negb].
    assert (R : forall n, retry V decode n [h] f = None).
    { induction n as [|n IH]; cbn; [reflexivity|]. unfold try_load. rewrite G, (PF v p s E Hs). exact IH. }
    rewrite R. reflexivity.
Qed.

(* ============================ the proposed fix ================================= *)
(* the fixed reader never raises anything but KeyError, whatever is on disk *)
Theorem getitem_fix_total mr (d : dd V) k :
  (exists c, fst (getitem_fix V decode mr d k) = Ok c) \/ fst (getitem_fix V decode mr d k) = KeyErr.
Proof.
  unfold getitem_fix. destruct (mem_get k (dd_mem d)); [left; eexists; reflexivity|].
  destruct (negb (dd_dir d)); [right; reflexivity|].
  destruct (negb (fs_exists (kpath k) (dd_fs d))); [right; reflexivity|].
  destruct (is_dir (kpath k) (dd_fs d)); [right; reflexivity|].
  destruct (retry V decode mr (kpath k) (dd_fs d)); [left; eexists; reflexivity|right; reflexivity].
Qed.

(* what a fresh process reads for k depends only on the node at k's path *)
Lemma retry_ext mr p f1 f2 : fs_get p f1 = fs_get p f2 -> retry V decode mr p f1 = retry V decode mr p f2.
Proof. intros E. induction mr as [|n IH]; cbn; [reflexivity|]. unfold try_load. rewrite E, IH. reflexivity. Qed.

Lemma getitem_fix_ext mr k f1 f2 : fs_get (kpath k) f1 = fs_get (kpath k) f2 ->
  fst (getitem_fix V decode mr (mkDD [] true f1) k) = fst (getitem_fix V decode mr (mkDD [] true f2) k).
Proof.
  intros E. unfold getitem_fix. cbn [mem_get dd_mem dd_dir dd_fs negb].
  unfold fs_exists, is_dir. rewrite E, (retry_ext mr _ _ _ E).
  destruct (fs_get (kpath k) f2) as [[|b]|]; cbn; try reflexivity.
  destruct (retry V decode mr (kpath k) f2); reflexivity.
Qed.

Lemma contains_fix_ext mr k f1 f2 : fs_get (kpath k) f1 = fs_get (kpath k) f2 ->
  fst (contains_fix V decode mr (mkDD [] true f1) k) = fst (contains_fix V decode mr (mkDD [] true f2) k).
Proof.
  intros E. unfold contains_fix. pose proof (getitem_fix_ext mr k f1 f2 E) as G.
  destruct (getitem_fix V decode mr (mkDD [] true f1) k) as [r1 d1].
  destruct (getitem_fix V decode mr (mkDD [] true f2) k) as [r2 d2]. cbn in G. subst r2.
  destruct r1; reflexivity.
Qed.

Lemma getitem_fix_complete mr k f v : roundtrip -> fs_get (kpath k) f = Some (FFile (encode v)) ->
  fst (getitem_fix V decode (S mr) (mkDD [] true f) k) = Ok v.
Proof.
  intros RT G. unfold getitem_fix. cbn [mem_get dd_mem dd_dir dd_fs negb].
  unfold fs_exists, is_dir. rewrite G. cbn [negb retry]. unfold try_load. rewrite G, RT. reflexivity.
Qed.

(* ---- the fixed writer, killed after n of its operations ------------------------------ *)
(* nothing but the temporary file and (for a split key) the sub-directory is touched
   before the final rename *)
Lemma fix_ops_split k v : key_shape k ->
  setitem_ops_fix V encode k v =
    (mkdir_ops (kpath k) ++ [OpenTrunc (tmp_of (kpath k))]
       ++ map (fun b => Append (tmp_of (kpath k)) [b]) (encode v)) ++ [Rename (tmp_of (kpath k)) (kpath k)].
Proof. intros _. unfold setitem_ops_fix. rewrite <- !app_assoc. reflexivity. Qed.

Lemma shape_path_nonnil k : key_shape k -> kpath k <> [].
Proof. intros [h|a b]; cbn; congruence. Qed.

Lemma pre_rename_untouched k v : key_shape k ->
  forall o, In o (mkdir_ops (kpath k) ++ [OpenTrunc (tmp_of (kpath k))]
                    ++ map (fun b => Append (tmp_of (kpath k)) [b]) (encode v)) -> ~ touches o (kpath k).
Proof.
  intros Hs o Ho. pose proof (tmp_neq (kpath k) (shape_path_nonnil k Hs)) as Ht.
  apply in_app_iff in Ho. destruct Ho as [Ho|Ho].
  - destruct Hs as [h|a b]; cbn in Ho; [contradiction|]. destruct Ho as [<-|[]]. cbn. congruence.
  - apply in_app_iff in Ho. destruct Ho as [[<-|[]]|Ho]; [exact Ht|].
    apply in_map_iff in Ho. destruct Ho as (b & <- & _). exact Ht.
Qed.

(* the target path after a crash: the old node, or -- only when every operation ran --
   the complete new entry *)
Theorem crash_fix_target k v f n : key_shape k -> dir_ready k f ->
  let ops := setitem_ops_fix V encode k v in
  let f1 := crash_at n ops f in
  (n < length ops -> fs_get (kpath k) f1 = fs_get (kpath k) f) /\
  (length ops <= n -> fs_get (kpath k) f1 = Some (FFile (encode v))).
Proof.
  intros Hs (Hroot & Hnd & Hnt & Hsub) ops f1. unfold f1, ops, crash_at. rewrite (fix_ops_split k v Hs).
  set (pre := mkdir_ops (kpath k) ++ [OpenTrunc (tmp_of (kpath k))]
                ++ map (fun b => Append (tmp_of (kpath k)) [b]) (encode v)).
  pose proof (tmp_neq (kpath k) (shape_path_nonnil k Hs)) as Ht.
  split.
  - intros Hn. rewrite app_length in Hn. cbn [length] in Hn.
    rewrite firstn_app. replace (n - length pre) with 0 by lia. cbn [firstn]. rewrite app_nil_r.
    apply run_ops_untouched. intros o Ho. apply (pre_rename_untouched k v Hs).
    eapply firstn_In; exact Ho.
  - intros Hn. rewrite firstn_all2 by exact Hn. rewrite run_ops_app.
    set (t := tmp_of (kpath k)) in *.
    (* the state just before the rename *)
    assert (Hpre : let g := run_ops pre f in
                   fs_get t g = Some (FFile (encode v)) /\ is_dir (kpath k) g = false /\
                   is_dir (parent (kpath k)) g = true).
    { unfold pre. rewrite !run_ops_app.
      set (g0 := run_ops (mkdir_ops (kpath k)) f).
      assert (G0 : is_dir (parent (kpath k)) g0 = true /\ is_dir t g0 = false /\ is_dir (kpath k) g0 = false).
      { unfold g0. destruct Hs as [h|a b]; cbn [kpath] in *.
        - cbn. repeat split; assumption.
        - unfold mkdir_ops. cbn [length Nat.ltb Nat.leb prefixes_from map app run_ops fold_left parent removelast].
          unfold run_op. cbn [op_ok parent removelast].
          assert (Ta : t <> [a]) by (unfold t, tmp_of; cbn; congruence).
          assert (Ka : [a; b] <> [a]) by congruence.
          destruct Hsub as [Hno|Hd]; rewrite ?Hno, ?Hd.
          + rewrite Hroot. cbn [negb]. unfold is_dir.
            rewrite fs_get_set_same, !fs_get_set_other by congruence.
            unfold is_dir in Hnt, Hnd. repeat split; assumption.
          + cbn [negb]. unfold is_dir. rewrite ?Hd. unfold is_dir in Hnt, Hnd. repeat split; assumption. }
      destruct G0 as (Gp & Gt & Gk).
      set (g1 := run_ops [OpenTrunc t] g0).
      assert (G1 : fs_get t g1 = Some (FFile []) /\ is_dir (kpath k) g1 = false /\ is_dir (parent (kpath k)) g1 = true).
      { unfold g1. cbn [run_ops fold_left]. unfold run_op. cbn [op_ok].
        assert (Pt : parent t = parent (kpath k)).
        { unfold t, tmp_of, parent. apply removelast_last. }
        rewrite Pt, Gp, Gt. cbn [negb andb]. split; [apply fs_get_set_same|].
        unfold is_dir. rewrite !fs_get_set_other.
        - unfold is_dir in Gk, Gp. split; assumption.
        - intros E. apply (f_equal (@length name)) in E. unfold t, tmp_of, parent in E.
          rewrite app_length in E. cbn in E. lia.
        - exact Ht. }
      destruct G1 as (G1t & G1k & G1p).
      cbn zeta. split; [|split].
      - change (encode v) with ([] ++ encode v) at 2. apply appends_content. exact G1t.
      - unfold is_dir. rewrite run_ops_untouched; [exact G1k|].
        intros o Ho. apply in_map_iff in Ho. destruct Ho as (b & <- & _). exact Ht.
      - unfold is_dir. rewrite run_ops_untouched; [exact G1p|].
        intros o Ho. apply in_map_iff in Ho. destruct Ho as (b & <- & _). cbn.
        intros E. apply (f_equal (@length name)) in E. unfold t, tmp_of, parent in E.
        rewrite app_length in E. cbn in E. lia. }
    destruct Hpre as (Gt & Gk & Gp). set (g := run_ops pre f) in *. clearbody g.
    cbn [run_ops fold_left]. unfold run_op. cbn [op_ok].
    rewrite Gt, Gk, Gp. cbn [negb andb].
    rewrite fs_get_del_other by exact Ht. apply fs_get_set_same.
Qed.

(* every other path that none of the operations names is left alone *)
Theorem crash_fix_others k v f n q :
  q <> kpath k -> q <> tmp_of (kpath k) -> ~ In (Mkdir q) (mkdir_ops (kpath k)) ->
  fs_get q (crash_at n (setitem_ops_fix V encode k v) f) = fs_get q f.
Proof.
  intros Hk Ht Hm. apply crash_untouched. intros o Ho. unfold setitem_ops_fix in Ho.
  apply in_app_iff in Ho. destruct Ho as [Ho|Ho].
  - unfold mkdir_ops in *. destruct (1 <? length (kpath k)); [|destruct Ho].
    apply in_map_iff in Ho. destruct Ho as (p & <- & Hp). cbn. intros ->. apply Hm.
    apply in_map_iff. exists q. split; [reflexivity|exact Hp].
  - apply in_app_iff in Ho. destruct Ho as [[<-|[]]|Ho]; [cbn; congruence|].
    apply in_app_iff in Ho. destruct Ho as [Ho|[<-|[]]].
    + apply in_map_iff in Ho. destruct Ho as (b & <- & _). cbn. congruence.
    + cbn. intros [E|E]; congruence.
Qed.

(* ---- crash safety of the fixed DiskDict ------------------------------------------------ *)
(* For every crash point n of the fixed writer storing v under k, a later (fresh) process:
   - reads for k either exactly what it would have read had the writer never started
     (the complete old entry, or a missing key), or -- only if the writer finished -- the
     complete new entry v;  __contains__ agrees;  it never raises anything but KeyError;
   - reads every other key exactly as before. *)
Theorem crash_safe_fix k v f n mr : roundtrip -> key_shape k -> dir_ready k f ->
  let f1 := crash_at n (setitem_ops_fix V encode k v) f in
  let old := mkDD [] true f in let new := mkDD [] true f1 in
  (fst (getitem_fix V decode (S mr) new k) = fst (getitem_fix V decode (S mr) old k) /\
   fst (contains_fix V decode (S mr) new k) = fst (contains_fix V decode (S mr) old k)
   \/ (length (setitem_ops_fix V encode k v) <= n /\
       fst (getitem_fix V decode (S mr) new k) = Ok v /\ fst (contains_fix V decode (S mr) new k) = true)) /\
  (forall k', kpath k' <> kpath k -> kpath k' <> tmp_of (kpath k) ->
              ~ In (Mkdir (kpath k')) (mkdir_ops (kpath k)) ->
     fst (getitem_fix V decode (S mr) new k') = fst (getitem_fix V decode (S mr) old k') /\
     fst (contains_fix V decode (S mr) new k') = fst (contains_fix V decode (S mr) old k')).
Proof.
  intros RT Hs Hr f1 old new. destruct (crash_fix_target k v f n Hs Hr) as [Hlt Hge]. split.
  - destruct (Nat.lt_ge_cases n (length (setitem_ops_fix V encode k v))) as [Hn|Hn].
    + left. split; [apply getitem_fix_ext|apply contains_fix_ext]; apply Hlt, Hn.
    + right. split; [exact Hn|]. pose proof (getitem_fix_complete mr k f1 v RT (Hge Hn)) as G.
      split; [exact G|]. unfold contains_fix. unfold new.
      destruct (getitem_fix V decode (S mr) (mkDD [] true f1) k) as [r d']. cbn in G. subst r. reflexivity.
  - intros k' H1 H2 H3. pose proof (crash_fix_others k v f n (kpath k') H1 H2 H3) as E.
    split; [apply getitem_fix_ext|apply contains_fix_ext]; exact E.
Qed.

(* ---- the atomic-store protocol is crash safe only with a RENAME ---------------------------
   If the "move into place" is a copy (temporary file on another file system: shutil.move
   falls back to open-truncate + write), the writer is the in-place writer again, and a crash right
   after the truncation destroys the complete entry that was there: even the tolerant (fixed) reader
   now reports a missing key where a later process used to find the old entry. *)
Lemma movex_is_in_place k v : setitem_ops_movex V encode k v = setitem_ops_cur V encode k v.
Proof. reflexivity. Qed.

Theorem movex_crash_loses_old_entry (h : name) (old v : V) (f : fs) (mr : nat) :
  roundtrip -> decode [] = None -> is_dir [] f = true -> fs_get [h] f = Some (FFile (encode old)) ->
  let f1 := crash_at 1 (setitem_ops_movex V encode (KS h) v) f in
  fst (getitem_fix V decode (S mr) (mkDD [] true f) (KS h)) = Ok old /\
  fst (getitem_fix V decode (S mr) (mkDD [] true f1) (KS h)) = KeyErr /\
  fst (contains_fix V decode (S mr) (mkDD [] true f1) (KS h)) = false.
Proof.
  intros RT Hd Hroot G f1.
  assert (Hnd : is_dir [h] f = false) by (unfold is_dir; rewrite G; reflexivity).
  assert (G1 : fs_get [h] f1 = Some (FFile [])).
  { unfold f1, crash_at, setitem_ops_movex, mkdir_ops. cbn [kpath length Nat.ltb Nat.leb app firstn run_ops fold_left].
    unfold run_op. cbn [op_ok parent removelast]. rewrite Hroot, Hnd. cbn. apply fs_get_set_same. }
  clearbody f1. split; [apply (getitem_fix_complete mr (KS h) f old RT G)|].
  assert (E : fst (getitem_fix V decode (S mr) (mkDD [] true f1) (KS h)) = KeyErr).
  { unfold getitem_fix. cbn [mem_get dd_mem dd_dir dd_fs negb kpath]. unfold fs_exists, is_dir. rewrite G1. cbn [negb].
    assert (R : forall n, retry V decode n [h] f1 = None).
    { induction n as [|n IH]; cbn; [reflexivity|]. unfold try_load. rewrite G1, Hd. exact IH. }
    rewrite R. reflexivity. }
  split; [exact E|]. unfold contains_fix.
  destruct (getitem_fix V decode (S mr) (mkDD [] true f1) (KS h)) as [r d']. cbn [fst] in E. subst r. reflexivity.
Qed.

(* the fixed __contains__ and __getitem__ agree: "present" means "can be loaded" *)
Lemma mem_get_set_same k (c : V) m : mem_get k (mem_set k c m) = Some c.
Proof.
  induction m as [|[q w] m IH]; cbn.
  - assert (E : dkey_eqb k k = true) by (apply dkey_eqb_eq; reflexivity). rewrite E. reflexivity.
  - destruct (dkey_eqb q k) eqn:E; cbn; rewrite E; [reflexivity|exact IH].
Qed.

Theorem contains_fix_then_getitem mr d k d' :
  contains_fix V decode mr d k = (true, d') ->
  exists c, fst (getitem_fix V decode mr d' k) = Ok c /\ fst (getitem_fix V decode mr d k) = Ok c.
Proof.
  unfold contains_fix. destruct (getitem_fix V decode mr d k) as [r d1] eqn:G.
  destruct r as [c| | |]; intros E; inversion E; subst d1. exists c. split; [|reflexivity].
  unfold getitem_fix in G |- *.
  destruct (mem_get k (dd_mem d)) as [c0|] eqn:M.
  - inversion G; subst. rewrite M. reflexivity.
  - destruct (negb (dd_dir d)); [discriminate|].
    destruct (negb (fs_exists (kpath k) (dd_fs d))); [discriminate|].
    destruct (is_dir (kpath k) (dd_fs d)); [discriminate|].
    destruct (retry V decode mr (kpath k) (dd_fs d)) as [c1|]; [|discriminate].
    inversion G; subst. cbn [dd_mem]. rewrite mem_get_set_same. reflexivity.
Qed.

End Codec.

(* a toy prefix-free codec for concrete witnesses: the value n is written as n+1 bytes *)
Definition toy_enc (v : nat) : bytes := repeat 7 v ++ [0].
Fixpoint toy_dec (b : bytes) : option nat :=
  match b with
  | [] => None
  | [0] => Some 0
  | 7 :: b' => match toy_dec b' with Some n => Some (S n) | None => None end
  | _ => None
  end.
Lemma toy_roundtrip : roundtrip nat toy_enc toy_dec.
Proof.
  intros v. unfold toy_enc. induction v as [|v IH]; [reflexivity|].
  cbn [repeat app]. cbn [toy_dec]. rewrite IH.
  destruct (repeat 7 v ++ [0]) eqn:E; [destruct v; discriminate|reflexivity].
Qed.

(* DiskFSFacts.v -- facts about Model/DiskFS.v (DiskDict over a file system, crashes). *)
From Coq Require Import Lia ZArith List Bool.
From Ctg Require Import Base DiskFS.

(* a toy prefix-free codec for concrete witnesses: a value n is written as n+1 bytes *)
Definition toy_enc (v : nat) : bytes := repeat 7 v ++ [0].
Fixpoint toy_dec (b : bytes) : option nat :=
  match b with
  | [] => None
  | [0] => Some 0
  | 7 :: b' => match toy_dec b' with Some n => Some (S n) | None => None end
  | _ => None
  end.

Example crash_cur_witness :
  let k := KT [[1;2]; [3;4]] in
  let f := crash_at 3 (setitem_ops_cur nat toy_enc k 2) [([], FDir)] in
  fst (contains_cur nat (mkDD [] true f) k) = true /\
  fst (getitem_cur nat toy_dec 3 (mkDD [] true f) k) = UnboundErr.
Proof. vm_compute. split; reflexivity. Qed.

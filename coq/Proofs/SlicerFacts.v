(* SlicerFacts.v -- lemmas about Model/SlicerCosts.v *)
From Coq Require Import Lia Permutation ZifyBool.
From Ctg Require Import Base Net BaseFacts NetFacts SlicerCosts.
Local Open Scope Z_scope.

Lemma stub_true : True. Proof. exact I. Qed.

(* SlicerFacts.v -- lemmas about Model/SlicerCosts.v (ContractionCosts, SliceFinder).
   Part 1: dictionaries, list replacement, MaxCounter.
   Part 2: ContractionCosts.__init__ and remove keep every derived field equal to its
           from-scratch definition, and remove acts on the table as `row_remove`.
   Part 3: the table of the tree sliced on one more index (Model/Net.v) is the
           `row_remove` image of the table before: the two cost models agree.
   Part 4: SliceFinder.trial / best / search for every oracle. *)
From Coq Require Import Lia Permutation ZifyBool.
From Ctg Require Import Base Net BaseFacts NetFacts SlicerCosts.
Local Open Scope Z_scope.

(* ================================================================== *)
(* Part 1a: dict ix -> Z                                               *)
Lemma zd_get_set_same j v d : zd_get j (zd_set j v d) = Some v.
Proof.
  induction d as [|[k w] d IH]; cbn.
  - rewrite Nat.eqb_refl. reflexivity.
  - destruct (Nat.eqb_spec k j) as [->|Hn]; cbn.
    + rewrite Nat.eqb_refl. reflexivity.
    + destruct (Nat.eqb_spec k j); [contradiction|exact IH].
Qed.

Lemma zd_get_set_other j i v d : i <> j -> zd_get i (zd_set j v d) = zd_get i d.
Proof.
  intros Hij. induction d as [|[k w] d IH]; cbn.
  - destruct (Nat.eqb_spec j i); [congruence|reflexivity].
  - destruct (Nat.eqb_spec k j) as [->|Hn]; cbn.
    + destruct (Nat.eqb_spec j i); [congruence|reflexivity].
    + destruct (Nat.eqb_spec k i); [reflexivity|exact IH].
Qed.

Lemma zd_get0_add j i v d :
  zd_get0 i (zd_add j v d) = zd_get0 i d + (if Nat.eqb i j then v else 0).
Proof.
  unfold zd_add. destruct (Nat.eqb_spec i j) as [->|H].
  - unfold zd_get0 at 1. rewrite zd_get_set_same. reflexivity.
  - unfold zd_get0 at 1. rewrite zd_get_set_other by exact H. fold (zd_get0 i d). lia.
Qed.

Lemma zd_get_del_other j i d : i <> j -> zd_get i (zd_del j d) = zd_get i d.
Proof.
  intros Hij. induction d as [|[k w] d IH]; cbn; [reflexivity|].
  destruct (Nat.eqb_spec k j) as [->|Hn]; cbn.
  - destruct (Nat.eqb_spec j i); [congruence|reflexivity].
  - destruct (Nat.eqb_spec k i); [reflexivity|exact IH].
Qed.

Lemma zd_get0_del_other j i d : i <> j -> zd_get0 i (zd_del j d) = zd_get0 i d.
Proof. intros H. unfold zd_get0. rewrite zd_get_del_other by exact H. reflexivity. Qed.

Lemma zd_get_in_keys j d : zd_get j d <> None <-> In j (zd_keys d).
Proof.
  unfold zd_keys. induction d as [|[k w] d IH]; cbn; [tauto|].
  destruct (Nat.eqb_spec k j) as [->|H].
  - split; [auto|congruence].
  - rewrite IH. split; [auto|intros [?|?]; [congruence|assumption]].
Qed.

Lemma zd_get_del_same j d : NoDup (zd_keys d) -> zd_get j (zd_del j d) = None.
Proof.
  unfold zd_keys. induction d as [|[k w] d IH]; cbn; intros ND; [reflexivity|].
  inversion ND as [|? ? Hn ND']; subst.
  destruct (Nat.eqb_spec k j) as [->|H]; cbn.
  - destruct (zd_get j d) eqn:E; [|reflexivity].
    exfalso. apply Hn. apply (proj1 (zd_get_in_keys j d)). congruence.
  - destruct (Nat.eqb_spec k j); [contradiction|]. apply IH, ND'.
Qed.

Lemma zd_keys_del_in j i d : In i (zd_keys (zd_del j d)) -> In i (zd_keys d).
Proof.
  unfold zd_keys. induction d as [|[k w] d IH]; cbn; [tauto|].
  destruct (Nat.eqb_spec k j); cbn; [auto|]. intros [?|?]; auto.
Qed.

Lemma zd_keys_del_nodup j d : NoDup (zd_keys d) -> NoDup (zd_keys (zd_del j d)).
Proof.
  unfold zd_keys. induction d as [|[k w] d IH]; cbn; intros ND; [constructor|].
  inversion ND as [|? ? Hn ND']; subst.
  destruct (Nat.eqb_spec k j); cbn; [exact ND'|].
  constructor; [|apply IH, ND']. intros H. apply Hn. apply (zd_keys_del_in j k d), H.
Qed.

Lemma zd_keys_del_length j d : In j (zd_keys d) -> S (length (zd_del j d)) = length d.
Proof.
  unfold zd_keys. induction d as [|[k w] d IH]; cbn; [tauto|].
  destruct (Nat.eqb_spec k j) as [->|H]; cbn; [reflexivity|].
  intros [?|Hin]; [contradiction|]. rewrite IH by exact Hin. reflexivity.
Qed.

Lemma zget_del_other j i d : i <> j -> zget i (zd_del j d) = zget i d.
Proof.
  intros Hij. induction d as [|[k w] d IH]; cbn; [reflexivity|].
  destruct (Nat.eqb_spec k j) as [->|Hn]; cbn.
  - destruct (Nat.eqb_spec j i); [congruence|reflexivity].
  - destruct (Nat.eqb_spec k i); [reflexivity|exact IH].
Qed.

Lemma zd_get_zget j d v : zd_get j d = Some v -> zget j d = v.
Proof.
  induction d as [|[k w] d IH]; cbn; [congruence|].
  destruct (Nat.eqb_spec k j); [congruence|exact IH].
Qed.

Lemma memb_cons j a l : memb j (a :: l) = Nat.eqb j a || memb j l.
Proof. reflexivity. Qed.

Lemma fold_zd_add_get (f : ix -> Z) l : forall fr j, NoDup l ->
  zd_get0 j (fold_left (fun fr o => zd_add o (f o) fr) l fr)
  = zd_get0 j fr + (if memb j l then f j else 0).
Proof.
  induction l as [|a l IH]; intros fr j ND; cbn [fold_left].
  - cbn. lia.
  - inversion ND as [|? ? Hn ND']; subst. rewrite IH by exact ND'.
    rewrite zd_get0_add, memb_cons.
    destruct (Nat.eqb_spec j a) as [->|H]; cbn [orb].
    + assert (E : memb a l = false) by (apply memb_false, Hn). rewrite E. lia.
    + destruct (memb j l); lia.
Qed.

(* ---- wdict ---- *)
Lemma wh_get_add_same j i d :
  wh_get j (wh_add j i d) = Some (let v := wh_get0 j d in if memb i v then v else v ++ [i]).
Proof.
  unfold wh_get0. induction d as [|[k w] d IH]; cbn.
  - rewrite Nat.eqb_refl. reflexivity.
  - destruct (Nat.eqb_spec k j) as [->|Hn]; cbn.
    + rewrite Nat.eqb_refl. reflexivity.
    + destruct (Nat.eqb_spec k j); [contradiction|exact IH].
Qed.

Lemma wh_get_add_other j j' i d : j' <> j -> wh_get j' (wh_add j i d) = wh_get j' d.
Proof.
  intros Hij. induction d as [|[k w] d IH]; cbn.
  - destruct (Nat.eqb_spec j j'); [congruence|reflexivity].
  - destruct (Nat.eqb_spec k j) as [->|Hn]; cbn.
    + destruct (Nat.eqb_spec j j'); [congruence|reflexivity].
    + destruct (Nat.eqb_spec k j'); [reflexivity|exact IH].
Qed.

Lemma wh_get_del_other j i d : i <> j -> wh_get i (wh_del j d) = wh_get i d.
Proof.
  intros Hij. induction d as [|[k w] d IH]; cbn; [reflexivity|].
  destruct (Nat.eqb_spec k j) as [->|Hn]; cbn.
  - destruct (Nat.eqb_spec j i); [congruence|reflexivity].
  - destruct (Nat.eqb_spec k i); [reflexivity|exact IH].
Qed.

(* ================================================================== *)
(* Part 1b: products of dimensions                                      *)
Lemma size_of_pos sd L : (forall j, 0 < zget j sd) -> 0 < size_of sd L.
Proof.
  intros Hp. induction L as [|a L IH]; [reflexivity|].
  rewrite size_of_cons. specialize (Hp a). nia.
Qed.

Lemma filter_neq_id x L : ~ In x L -> filter (fun j => negb (Nat.eqb j x)) L = L.
Proof.
  induction L as [|a L IH]; cbn; [reflexivity|]. intros H.
  destruct (Nat.eqb_spec a x) as [->|Hn]; cbn; [tauto|]. rewrite IH by tauto. reflexivity.
Qed.

Lemma filter_neq_in x j L : In j (filter (fun j => negb (Nat.eqb j x)) L) <-> In j L /\ j <> x.
Proof.
  rewrite filter_In. destruct (Nat.eqb_spec j x); cbn; intuition congruence.
Qed.

Lemma memb_filter_neq x j L : j <> x -> memb j (filter (fun j => negb (Nat.eqb j x)) L) = memb j L.
Proof.
  intros H. destruct (memb j L) eqn:E.
  - apply memb_In. apply filter_neq_in. split; [apply memb_In, E|exact H].
  - apply memb_false. intros Hin. apply filter_neq_in in Hin. apply memb_false in E. tauto.
Qed.

Lemma memb_filter_self x L : memb x (filter (fun j => negb (Nat.eqb j x)) L) = false.
Proof. apply memb_false. intros H. apply filter_neq_in in H. tauto. Qed.

Lemma size_of_split x sd L : NoDup L -> In x L ->
  size_of sd L = size_of sd (filter (fun j => negb (Nat.eqb j x)) L) * zget x sd.
Proof.
  intros ND Hin. rewrite (size_of_filter_out x sd L ND).
  assert (E : memb x L = true) by (apply memb_In, Hin). rewrite E. reflexivity.
Qed.

Lemma size_of_div x sd L : NoDup L -> In x L -> 0 < zget x sd ->
  size_of sd L / zget x sd = size_of sd (filter (fun j => negb (Nat.eqb j x)) L).
Proof.
  intros ND Hin Hp. rewrite (size_of_split x sd L ND Hin). apply Z.div_mul. lia.
Qed.

Lemma size_of_ext sd sd' L : (forall j, In j L -> zget j sd' = zget j sd) -> size_of sd' L = size_of sd L.
Proof.
  intros H. induction L as [|a L IH]; [reflexivity|].
  rewrite !size_of_cons, H by (left; reflexivity). rewrite IH; [reflexivity|].
  intros j Hj. apply H. right; exact Hj.
Qed.

Lemma size_of_del x sd L : ~ In x L -> size_of (zd_del x sd) L = size_of sd L.
Proof.
  intros H. apply size_of_ext. intros j Hj. apply zget_del_other. intros ->. contradiction.
Qed.

Lemma NoDup_filter_neq x (L : list ix) : NoDup L -> NoDup (filter (fun j => negb (Nat.eqb j x)) L).
Proof. apply NoDup_filter. Qed.

(* the arithmetic fact behind the incremental update of the reductions *)
Lemma red_div fl d dj m : 0 < d -> 0 < dj -> fl = m * dj * d ->
  (fl - fl / dj) / d = fl / d - (fl / d) / dj.
Proof.
  intros Hd Hdj ->.
  replace (m * dj * d) with ((m * d) * dj) at 2 by ring.
  rewrite (Z.div_mul (m * d) dj) by lia.
  rewrite (Z.div_mul (m * dj) d) by lia.
  rewrite (Z.div_mul m dj) by lia.
  replace (m * dj * d - m * d) with ((m * dj - m) * d) by ring.
  rewrite Z.div_mul by lia. reflexivity.
Qed.

(* two distinct members of a duplicate-free list: the product has both factors *)
Lemma size_of_two x j sd L : NoDup L -> In x L -> In j L -> j <> x ->
  exists m, size_of sd L = m * zget j sd * zget x sd.
Proof.
  intros ND Hx Hj Hne.
  rewrite (size_of_split x sd L ND Hx).
  set (L' := filter (fun j => negb (Nat.eqb j x)) L).
  assert (ND' : NoDup L') by (apply NoDup_filter, ND).
  assert (Hj' : In j L') by (apply filter_neq_in; tauto).
  rewrite (size_of_split j sd L' ND' Hj').
  eexists. reflexivity.
Qed.

(* ================================================================== *)
(* Part 1c: replacing one element of a list                             *)
Definition replace_at {A} (i : nat) (x : A) (l : list A) : list A := firstn i l ++ x :: skipn (S i) l.

Lemma replace_at_decomp {A} (l : list A) i a : nth_error l i = Some a ->
  exists l1 l2, l = l1 ++ a :: l2 /\ length l1 = i /\ forall x, replace_at i x l = l1 ++ x :: l2.
Proof.
  intros H. destruct (nth_error_split l i H) as (l1 & l2 & -> & Hl).
  exists l1, l2. split; [reflexivity|]. split; [exact Hl|]. intros x. unfold replace_at. subst i.
  rewrite firstn_app, Nat.sub_diag, firstn_all2 by lia. cbn [firstn]. rewrite app_nil_r.
  f_equal. f_equal.
  clear H. induction l1 as [|b l1 IH]; [reflexivity|]. cbn [length app skipn] in *. exact IH.
Qed.

Lemma replace_at_length {A} (l : list A) i a x : nth_error l i = Some a ->
  length (replace_at i x l) = length l.
Proof.
  intros H. destruct (replace_at_decomp l i a H) as (l1 & l2 & -> & _ & E). rewrite E, !app_length. reflexivity.
Qed.

Lemma nth_error_replace_at {A} (l : list A) i a x k : nth_error l i = Some a ->
  nth_error (replace_at i x l) k = if Nat.eqb k i then Some x else nth_error l k.
Proof.
  intros H. destruct (replace_at_decomp l i a H) as (l1 & l2 & -> & Hl & E). rewrite E. subst i.
  destruct (Nat.eqb_spec k (length l1)) as [->|Hne].
  - rewrite nth_error_app2, Nat.sub_diag by lia. reflexivity.
  - destruct (Nat.lt_ge_cases k (length l1)) as [Hlt|Hge].
    + rewrite !nth_error_app1 by exact Hlt. reflexivity.
    + rewrite !nth_error_app2 by exact Hge.
      destruct (k - length l1)%nat eqn:Ek; [lia|reflexivity].
Qed.

Lemma zsum_map_replace {A} (f : A -> Z) (l : list A) i a x : nth_error l i = Some a ->
  zsum (map f (replace_at i x l)) = zsum (map f l) - f a + f x.
Proof.
  intros H. destruct (replace_at_decomp l i a H) as (l1 & l2 & -> & _ & E). rewrite E.
  rewrite !map_app, !zsum_app. cbn [map]. rewrite !zsum_cons. lia.
Qed.

Lemma Forall_replace_at {A} (P : A -> Prop) (l : list A) i a x : nth_error l i = Some a ->
  Forall P l -> P x -> Forall P (replace_at i x l).
Proof.
  intros H HF Hx. destruct (replace_at_decomp l i a H) as (l1 & l2 & -> & _ & E). rewrite E.
  apply Forall_app in HF. destruct HF as [H1 H2]. inversion H2; subst.
  apply Forall_app. split; [exact H1|]. constructor; assumption.
Qed.

Lemma count_occ_map_replace {A} (f : A -> Z) (l : list A) i a x y : nth_error l i = Some a ->
  (count_occ Z.eq_dec (map f (replace_at i x l)) y + (if Z.eqb y (f a) then 1 else 0)
   = count_occ Z.eq_dec (map f l) y + (if Z.eqb y (f x) then 1 else 0))%nat.
Proof.
  intros H. destruct (replace_at_decomp l i a H) as (l1 & l2 & -> & _ & E). rewrite E.
  rewrite !map_app, !count_occ_app. cbn [map count_occ].
  destruct (Z.eq_dec (f x) y), (Z.eq_dec (f a) y), (Z.eqb_spec y (f a)), (Z.eqb_spec y (f x)); lia.
Qed.

Lemma nth_error_ext {A} (l1 l2 : list A) : (forall k, nth_error l1 k = nth_error l2 k) -> l1 = l2.
Proof.
  revert l2. induction l1 as [|a l1 IH]; intros [|b l2] H.
  - reflexivity.
  - specialize (H 0%nat). discriminate.
  - specialize (H 0%nat). discriminate.
  - f_equal.
    + specialize (H 0%nat). cbn in H. congruence.
    + apply IH. intros k. apply (H (S k)).
Qed.

(* ================================================================== *)
(* Part 1d: utils.MaxCounter                                            *)
Definition cn_keys (c : list (Z * nat)) : list Z := map fst c.

Lemma cn_get_set_same x v c : cn_get x (cn_set x v c) = v.
Proof.
  induction c as [|[k w] c IH]; cbn.
  - rewrite Z.eqb_refl. reflexivity.
  - destruct (Z.eqb_spec k x) as [->|Hn]; cbn.
    + rewrite Z.eqb_refl. reflexivity.
    + destruct (Z.eqb_spec k x); [contradiction|exact IH].
Qed.

Lemma cn_get_set_other x y v c : y <> x -> cn_get y (cn_set x v c) = cn_get y c.
Proof.
  intros Hne. induction c as [|[k w] c IH]; cbn.
  - destruct (Z.eqb_spec x y); [congruence|reflexivity].
  - destruct (Z.eqb_spec k x) as [->|Hn]; cbn.
    + destruct (Z.eqb_spec x y); [congruence|reflexivity].
    + destruct (Z.eqb_spec k y); [reflexivity|exact IH].
Qed.

Lemma cn_get_del_other x y c : y <> x -> cn_get y (cn_del x c) = cn_get y c.
Proof.
  intros Hne. induction c as [|[k w] c IH]; cbn; [reflexivity|].
  destruct (Z.eqb_spec k x) as [->|Hn]; cbn.
  - destruct (Z.eqb_spec x y); [congruence|reflexivity].
  - destruct (Z.eqb_spec k y); [reflexivity|exact IH].
Qed.

Lemma cn_get_notin x c : ~ In x (cn_keys c) -> cn_get x c = 0%nat.
Proof.
  unfold cn_keys. induction c as [|[k w] c IH]; cbn; [reflexivity|]. intros H.
  destruct (Z.eqb_spec k x); [tauto|]. apply IH. tauto.
Qed.

Lemma cn_keys_set x v c k : In k (cn_keys (cn_set x v c)) <-> k = x \/ In k (cn_keys c).
Proof.
  unfold cn_keys. induction c as [|[k' w] c IH]; cbn.
  - intuition.
  - destruct (Z.eqb_spec k' x) as [->|Hn]; cbn; [intuition|]. rewrite IH. intuition.
Qed.

Lemma cn_keys_set_nodup x v c : NoDup (cn_keys c) -> NoDup (cn_keys (cn_set x v c)).
Proof.
  unfold cn_keys. induction c as [|[k w] c IH]; cbn; intros ND.
  - constructor; [intros []|constructor].
  - inversion ND as [|? ? Hn ND']; subst.
    destruct (Z.eqb_spec k x) as [->|Hne]; cbn; [constructor; assumption|].
    constructor; [|apply IH, ND'].
    intros H. apply (cn_keys_set x v c k) in H. destruct H as [->|H]; [congruence|]. apply Hn, H.
Qed.

Lemma cn_keys_del x c k : NoDup (cn_keys c) -> (In k (cn_keys (cn_del x c)) <-> k <> x /\ In k (cn_keys c)).
Proof.
  unfold cn_keys. induction c as [|[k' w] c IH]; cbn; intros ND; [tauto|].
  inversion ND as [|? ? Hn ND']; subst.
  destruct (Z.eqb_spec k' x) as [->|Hne]; cbn.
  - split; [|intuition congruence]. intros H. split; [|right; exact H]. intros ->. apply Hn, H.
  - rewrite (IH ND'). split; [|intuition congruence]. intros [->|[H1 H2]]; [split; [exact Hne|left; reflexivity]|tauto].
Qed.

Lemma cn_keys_del_nodup x c : NoDup (cn_keys c) -> NoDup (cn_keys (cn_del x c)).
Proof.
  unfold cn_keys. induction c as [|[k w] c IH]; cbn; intros ND; [constructor|].
  inversion ND as [|? ? Hn ND']; subst.
  destruct (Z.eqb_spec k x); cbn; [exact ND'|].
  constructor; [|apply IH, ND']. intros H. apply (cn_keys_del x c k ND') in H. apply Hn, H.
Qed.

Definition cn_pos (c : list (Z * nat)) : Prop := forall kv, In kv c -> (0 < snd kv)%nat.

Lemma cn_pos_set x v c : (0 < v)%nat -> cn_pos c -> cn_pos (cn_set x v c).
Proof.
  intros Hv. induction c as [|[k w] c IH]; cbn; intros Hp kv.
  - intros [<-|[]]. exact Hv.
  - destruct (Z.eqb_spec k x) as [->|H]; cbn.
    + intros [<-|Hin]; [exact Hv|apply Hp; right; exact Hin].
    + intros [<-|Hin]; [apply (Hp (k, w)); left; reflexivity|].
      apply IH; [|exact Hin]. intros kv' Hkv'. apply Hp. right; exact Hkv'.
Qed.

Lemma cn_pos_del x c : cn_pos c -> cn_pos (cn_del x c).
Proof.
  induction c as [|[k w] c IH]; cbn; intros Hp kv; [intros []|].
  destruct (Z.eqb_spec k x); cbn.
  - intros Hin. apply Hp. right; exact Hin.
  - intros [<-|Hin]; [apply (Hp (k, w)); left; reflexivity|].
    apply IH; [|exact Hin]. intros kv' Hkv'. apply Hp. right; exact Hkv'.
Qed.

Lemma cn_get_pos x c : cn_pos c -> (In x (cn_keys c) <-> (0 < cn_get x c)%nat).
Proof.
  unfold cn_keys. induction c as [|[k w] c IH]; cbn; intros Hp; [lia|].
  assert (Hp' : cn_pos c) by (intros kv Hkv; apply Hp; right; exact Hkv).
  destruct (Z.eqb_spec k x) as [->|Hne].
  - split; [|auto]. intros _. apply (Hp (x, w)). left; reflexivity.
  - rewrite <- (IH Hp'). split; [intros [?|?]; [congruence|assumption]|auto].
Qed.

Definition is_max_opt (o : option Z) (l : list Z) : Prop :=
  match o with
  | None => l = []
  | Some m => In m l /\ forall x, In x l -> x <= m
  end.

Lemma is_max_opt_unique o1 o2 l : is_max_opt o1 l -> is_max_opt o2 l -> o1 = o2.
Proof.
  destruct o1 as [m1|], o2 as [m2|]; cbn.
  - intros [I1 H1] [I2 H2]. f_equal. specialize (H1 _ I2). specialize (H2 _ I1). lia.
  - intros [I1 _] ->. destruct I1.
  - intros -> [I2 _]. destruct I2.
  - reflexivity.
Qed.

Lemma is_max_opt_same_set o l l' : (forall x, In x l <-> In x l') -> is_max_opt o l -> is_max_opt o l'.
Proof.
  intros H. destruct o as [m|]; cbn.
  - intros [I Hm]. split; [apply H, I|]. intros x Hx. apply Hm, H, Hx.
  - intros ->. destruct l' as [|a l']; [reflexivity|]. exfalso. apply (proj2 (H a)). left; reflexivity.
Qed.

Lemma fold_max_spec l : forall a,
  let m := fold_left Z.max l a in (m = a \/ In m l) /\ a <= m /\ forall x, In x l -> x <= m.
Proof.
  intros a. change (fold_left Z.max l a) with (zmax_list l a). cbn zeta. split; [|split].
  - apply zmax_list_attained.
  - rewrite zmax_list_acc. lia.
  - intros x Hx. apply zmax_list_ge, Hx.
Qed.

Lemma list_max_opt_spec l : is_max_opt (list_max_opt l) l.
Proof.
  destruct l as [|a l]; cbn; [reflexivity|].
  destruct (fold_max_spec l a) as ([E|Hin] & Hle & Hall).
  - split; [left; symmetry; exact E|]. intros x [<-|Hx]; [exact Hle|apply Hall, Hx].
  - split; [right; exact Hin|]. intros x [<-|Hx]; [exact Hle|apply Hall, Hx].
Qed.

Lemma cn_max_spec c : is_max_opt (cn_max c) (cn_keys c).
Proof.
  destruct c as [|[k w] c]; [reflexivity|].
  exact (list_max_opt_spec (cn_keys ((k, w) :: c))).
Qed.

(* the invariant: f is the multiset (as a count function) held by the counter *)
Definition mc_inv (m : maxc) (f : Z -> nat) : Prop :=
  NoDup (cn_keys (mc_c m)) /\ cn_pos (mc_c m) /\
  (forall x, cn_get x (mc_c m) = f x) /\ is_max_opt (mc_max m) (cn_keys (mc_c m)).

Lemma mc_inv_empty : mc_inv mc_empty (fun _ => 0%nat).
Proof. repeat split; cbn; try constructor. intros kv []. Qed.

Lemma mc_inv_ext m f g : (forall x, f x = g x) -> mc_inv m f -> mc_inv m g.
Proof. intros H (A & B & C & D). repeat split; try assumption. intros x. rewrite <- H. apply C. Qed.

Lemma mc_inv_add x m f : mc_inv m f ->
  mc_inv (mc_add x m) (fun y => if Z.eqb y x then S (f y) else f y).
Proof.
  intros (ND & Pos & Cnt & Mx). unfold mc_add. repeat split; cbn [mc_c mc_max].
  - apply cn_keys_set_nodup, ND.
  - apply cn_pos_set; [lia|exact Pos].
  - intros y. destruct (Z.eqb_spec y x) as [->|Hne].
    + rewrite cn_get_set_same, Cnt. reflexivity.
    + rewrite cn_get_set_other by exact Hne. apply Cnt.
  - destruct (mc_max m) as [y|]; cbn in *.
    + destruct Mx as [Iy Hy]. split.
      * apply cn_keys_set. destruct (Z.max_spec y x) as [[_ ->]|[_ ->]]; auto.
      * intros k Hk. apply cn_keys_set in Hk. destruct Hk as [->|Hk]; [lia|]. specialize (Hy k Hk). lia.
    + split; [apply cn_keys_set; left; reflexivity|].
      intros k Hk. apply cn_keys_set in Hk. destruct Hk as [->|Hk]; [lia|].
      unfold cn_keys in *. rewrite Mx in Hk. destruct Hk.
Qed.

Lemma mc_inv_discard x m f : mc_inv m f -> (0 < f x)%nat ->
  mc_inv (mc_discard x m) (fun y => if Z.eqb y x then (f y - 1)%nat else f y).
Proof.
  intros (ND & Pos & Cnt & Mx) Hx. unfold mc_discard.
  assert (Hin : In x (cn_keys (mc_c m))) by (apply cn_get_pos; [exact Pos|rewrite Cnt; exact Hx]).
  destruct (Nat.leb_spec (cn_get x (mc_c m)) 1) as [Hle|Hgt]; repeat split; cbn [mc_c mc_max].
  - apply cn_keys_del_nodup, ND.
  - apply cn_pos_del, Pos.
  - intros y. destruct (Z.eqb_spec y x) as [->|Hne].
    + rewrite cn_get_notin; [rewrite <- Cnt; lia|].
      intros H. apply (cn_keys_del x (mc_c m) x ND) in H. tauto.
    + rewrite cn_get_del_other by exact Hne. apply Cnt.
  - destruct (mc_max m) as [y|]; cbn in Mx.
    + destruct Mx as [Iy Hy]. destruct (Z.eqb_spec x y) as [->|Hne].
      * apply cn_max_spec.
      * cbn. split.
        -- apply (cn_keys_del x (mc_c m) y ND). split; [congruence|exact Iy].
        -- intros k Hk. apply (cn_keys_del x (mc_c m) k ND) in Hk. apply Hy, Hk.
    + unfold cn_keys in *. rewrite Mx in Hin. destruct Hin.
  - apply cn_keys_set_nodup, ND.
  - apply cn_pos_set; [lia|exact Pos].
  - intros y. destruct (Z.eqb_spec y x) as [->|Hne].
    + rewrite cn_get_set_same, <- Cnt. lia.
    + rewrite cn_get_set_other by exact Hne. apply Cnt.
  - apply (is_max_opt_same_set _ (cn_keys (mc_c m))); [|exact Mx].
    intros k. rewrite cn_keys_set. split; [auto|intros [->|?]; assumption].
Qed.

Lemma mc_inv_max m l : mc_inv m (count_occ Z.eq_dec l) -> is_max_opt (mc_max m) l.
Proof.
  intros (ND & Pos & Cnt & Mx). apply (is_max_opt_same_set _ (cn_keys (mc_c m))); [|exact Mx].
  intros x. rewrite (cn_get_pos x _ Pos), Cnt. symmetry. apply count_occ_In.
Qed.

(* ================================================================== *)
(* Part 2: ContractionCosts                                             *)
Definition row_remove (ix : ix) (d : Z) (r : row) : row :=
  if memb ix (r_inv r) then
    (filter (fun j => negb (Nat.eqb j ix)) (r_inv r),
     if memb ix (r_legs r)
     then (filter (fun j => negb (Nat.eqb j ix)) (r_legs r), (r_size r / d, r_flops r / d))
     else (r_legs r, (r_size r, r_flops r / d)))
  else r.

Definition row_ok (sd : zdict) (r : row) : Prop :=
  NoDup (r_inv r) /\ NoDup (r_legs r) /\ incl (r_legs r) (r_inv r) /\
  r_flops r = size_of sd (r_inv r) /\ r_size r = size_of sd (r_legs r).

Definition sd_pos (sd : zdict) : Prop := forall kv, In kv sd -> 0 < snd kv.
Lemma sd_pos_zget sd j : sd_pos sd -> 0 < zget j sd.
Proof.
  induction sd as [|[k v] sd IH]; cbn; intros Hp; [lia|].
  destruct (Nat.eqb_spec k j); [apply (Hp (k, v)); left; reflexivity|].
  apply IH. intros kv Hkv. apply Hp. right; exact Hkv.
Qed.
Lemma sd_pos_del x sd : sd_pos sd -> sd_pos (zd_del x sd).
Proof.
  induction sd as [|[k v] sd IH]; cbn; intros Hp kv; [intros []|].
  destruct (Nat.eqb_spec k x); cbn.
  - intros Hin. apply Hp. right; exact Hin.
  - intros [<-|Hin]; [apply (Hp (k, v)); left; reflexivity|].
    apply IH; [|exact Hin]. intros kv' Hkv'. apply Hp. right; exact Hkv'.
Qed.

Lemma row_remove_ok sd ix r : row_ok sd r -> 0 < zget ix sd ->
  row_ok sd (row_remove ix (zget ix sd) r) /\ ~ In ix (r_inv (row_remove ix (zget ix sd) r)).
Proof.
  intros (N1 & N2 & Hincl & Hf & Hs) Hp. unfold row_remove.
  destruct (memb ix (r_inv r)) eqn:Ei.
  - apply memb_In in Ei.
    assert (Hincl' : incl (filter (fun j => negb (Nat.eqb j ix)) (r_legs r)) (filter (fun j => negb (Nat.eqb j ix)) (r_inv r))).
    { intros j Hj. apply filter_neq_in in Hj. apply filter_neq_in. split; [apply Hincl; tauto|tauto]. }
    destruct (memb ix (r_legs r)) eqn:El; cbn [r_inv r_legs r_size r_flops fst snd].
    + apply memb_In in El. split; [|intros H; apply filter_neq_in in H; tauto].
      repeat split; try apply NoDup_filter; try assumption.
      * rewrite Hf. apply size_of_div; assumption.
      * rewrite Hs. apply size_of_div; assumption.
    + apply memb_false in El. split; [|intros H; apply filter_neq_in in H; tauto].
      repeat split; try apply NoDup_filter; try assumption.
      * intros j Hj. apply filter_neq_in. split; [apply Hincl, Hj|]. intros ->. contradiction.
      * rewrite Hf. apply size_of_div; assumption.
  - apply memb_false in Ei. split; [|exact Ei]. repeat split; assumption.
Qed.

(* ---- the derived fields equal their from-scratch definitions ---- *)
Definition wh_nonempty (w : wdict) : Prop := forall kv, In kv w -> snd kv <> [].
Definition involves (tab : list row) (j : ix) (i : nat) : Prop :=
  exists r, nth_error tab i = Some r /\ In j (r_inv r).
Definition where_ok (tab : list row) (j : ix) (w : wdict) : Prop :=
  NoDup (wh_get0 j w) /\ forall i, In i (wh_get0 j w) <-> involves tab j i.

Definition derived_on (tab : list row) (P : ix -> Prop) (c : costs) : Prop :=
  c_flops c = zsum (map r_flops tab) /\
  mc_inv (c_sizes c) (count_occ Z.eq_dec (map r_size tab)) /\
  wh_nonempty (c_where c) /\
  forall j, P j -> zd_get0 j (c_fred c) = fred_def (c_sd c) tab j /\
                   zd_get0 j (c_wred c) = wred_def (c_sd c) tab j /\
                   where_ok tab j (c_where c).

Definition Inv (c : costs) : Prop :=
  Forall (row_ok (c_sd c)) (c_tab c) /\ sd_pos (c_sd c) /\ NoDup (zd_keys (c_sd c)) /\
  derived_on (c_tab c) (fun j => In j (zd_keys (c_sd c))) c.

Lemma wh_get_in j w v : wh_get j w = Some v -> In (j, v) w.
Proof.
  induction w as [|[k u] w IH]; cbn; [congruence|].
  destruct (Nat.eqb_spec k j) as [->|H]; [intros [= ->]; auto|auto].
Qed.

Lemma wh_nonempty_add j i w : wh_nonempty w -> wh_nonempty (wh_add j i w).
Proof.
  induction w as [|[k u] w IH]; cbn; intros Hn kv.
  - intros [<-|[]]. cbn. congruence.
  - assert (Hn' : wh_nonempty w) by (intros kv' H'; apply Hn; right; exact H').
    destruct (Nat.eqb_spec k j) as [->|Hne]; cbn.
    + intros [<-|Hin]; [|apply Hn; right; exact Hin]. cbn.
      destruct (memb i u); [apply (Hn (j, u)); left; reflexivity|]. destruct u; cbn; congruence.
    + intros [<-|Hin]; [apply (Hn (k, u)); left; reflexivity|]. apply IH; assumption.
Qed.

Lemma wh_nonempty_del j w : wh_nonempty w -> wh_nonempty (wh_del j w).
Proof.
  induction w as [|[k u] w IH]; cbn; intros Hn kv; [intros []|].
  assert (Hn' : wh_nonempty w) by (intros kv' H'; apply Hn; right; exact H').
  destruct (Nat.eqb_spec k j); cbn.
  - intros Hin. apply Hn'. exact Hin.
  - intros [<-|Hin]; [apply (Hn (k, u)); left; reflexivity|]. apply IH; assumption.
Qed.

(* ---- one iteration of the loop of remove ---- *)
Definition fred_delta (sd : zdict) (fl d : Z) (oix : ix) : Z :=
  (fl - fl / sd_get oix sd) / d - (fl - fl / sd_get oix sd).
Definition wred_delta (sd : zdict) (sz d : Z) (oix : ix) : Z :=
  - ((sz - sz / sd_get oix sd) - (sz - sz / sd_get oix sd) / d).

Lemma remove_at_eq ix d c i r : nth_error (c_tab c) i = Some r ->
  remove_at ix d c i =
  let new_inv := filter (fun j => negb (Nat.eqb j ix)) (r_inv r) in
  let fred' := fold_left (fun fr oix => zd_add oix (fred_delta (c_sd c) (r_flops r) d oix) fr) new_inv (c_fred c) in
  if memb ix (r_legs r) then
    let new_legs := filter (fun j => negb (Nat.eqb j ix)) (r_legs r) in
    mkCosts (c_sd c) (replace_at i (new_inv, (new_legs, (r_size r / d, r_flops r / d))) (c_tab c))
            (c_nsl c) (c_orig c) (c_flops c + (r_flops r / d - r_flops r))
            (mc_add (r_size r / d) (mc_discard (r_size r) (c_sizes c))) fred'
            (fold_left (fun wr oix => zd_add oix (wred_delta (c_sd c) (r_size r) d oix) wr) new_legs (c_wred c))
            (c_where c)
  else
    mkCosts (c_sd c) (replace_at i (new_inv, (r_legs r, (r_size r, r_flops r / d))) (c_tab c))
            (c_nsl c) (c_orig c) (c_flops c + (r_flops r / d - r_flops r))
            (c_sizes c) fred' (c_wred c) (c_where c).
Proof.
  intros H. unfold remove_at. rewrite H. cbn zeta. destruct (memb ix (r_legs r)); reflexivity.
Qed.

Lemma row_remove_replace ix d r : In ix (r_inv r) ->
  row_remove ix d r =
  (filter (fun j => negb (Nat.eqb j ix)) (r_inv r),
   if memb ix (r_legs r)
   then (filter (fun j => negb (Nat.eqb j ix)) (r_legs r), (r_size r / d, r_flops r / d))
   else (r_legs r, (r_size r, r_flops r / d))).
Proof. intros H. unfold row_remove. apply memb_In in H. rewrite H. reflexivity. Qed.

Lemma involves_replace tab i r r' j k : nth_error tab i = Some r ->
  (In j (r_inv r') <-> In j (r_inv r)) ->
  (involves (replace_at i r' tab) j k <-> involves tab j k).
Proof.
  intros H Hiff. unfold involves. split; intros (r0 & Hn & Hin).
  - rewrite (nth_error_replace_at tab i r r' k H) in Hn.
    destruct (Nat.eqb_spec k i) as [->|Hne].
    + injection Hn as <-. exists r. split; [exact H|apply Hiff, Hin].
    + exists r0. split; assumption.
  - destruct (Nat.eqb_spec k i) as [->|Hne].
    + exists r'. split.
      * rewrite (nth_error_replace_at tab i r r' i H), Nat.eqb_refl. reflexivity.
      * rewrite H in Hn. injection Hn as <-. apply Hiff, Hin.
    + exists r0. split; [|exact Hin].
      rewrite (nth_error_replace_at tab i r r' k H). destruct (Nat.eqb_spec k i); [contradiction|exact Hn].
Qed.

Lemma in_nth_error_count (tab : list row) i r : nth_error tab i = Some r ->
  (0 < count_occ Z.eq_dec (map r_size tab) (r_size r))%nat.
Proof.
  intros H. apply count_occ_In. apply in_map. apply (nth_error_In _ _ H).
Qed.

Lemma remove_at_step (P : ix -> Prop) ix c i r :
  let d := zget ix (c_sd c) in
  nth_error (c_tab c) i = Some r -> row_ok (c_sd c) r -> In ix (r_inv r) ->
  sd_pos (c_sd c) -> (forall j, P j -> j <> ix) ->
  derived_on (c_tab c) P c ->
  let c' := remove_at ix d c i in
  c_tab c' = replace_at i (row_remove ix d r) (c_tab c) /\ c_sd c' = c_sd c /\
  c_where c' = c_where c /\ c_nsl c' = c_nsl c /\ c_orig c' = c_orig c /\
  derived_on (c_tab c') P c'.
Proof.
  intros d Hn (N1 & N2 & Hincl & Hf & Hs) Hix Hpos HP (Dfl & Dmc & Dne & Dj) c'.
  assert (Hd : 0 < d) by (apply sd_pos_zget, Hpos).
  assert (Hposj : forall j, 0 < zget j (c_sd c)) by (intros j; apply sd_pos_zget, Hpos).
  subst c'. rewrite (remove_at_eq ix d c i r Hn). cbn zeta.
  rewrite (row_remove_replace ix d r Hix).
  set (new_inv := filter (fun j => negb (Nat.eqb j ix)) (r_inv r)).
  assert (NDi : NoDup new_inv) by (apply NoDup_filter, N1).
  (* the flop reductions of the other indices *)
  assert (Fred : forall tab' r', tab' = replace_at i r' (c_tab c) -> r_inv r' = new_inv ->
            r_flops r' = r_flops r / d -> forall j, P j ->
            zd_get0 j (fold_left (fun fr oix => zd_add oix (fred_delta (c_sd c) (r_flops r) d oix) fr) new_inv (c_fred c))
            = fred_def (c_sd c) tab' j).
  { intros tab' r' -> Ei Ef j Pj. rewrite fold_zd_add_get by exact NDi.
    destruct (Dj j Pj) as (E1 & _ & _). rewrite E1. unfold fred_def.
    rewrite (zsum_map_replace _ (c_tab c) i r r' Hn). rewrite Ei, Ef.
    assert (Hne : j <> ix) by (apply HP, Pj).
    unfold new_inv. rewrite (memb_filter_neq ix j (r_inv r) Hne).
    destruct (memb j (r_inv r)) eqn:Em; [|lia].
    apply memb_In in Em.
    destruct (size_of_two ix j (c_sd c) (r_inv r) N1 Hix Em Hne) as (m & Hm).
    unfold fred_delta, sd_get. rewrite <- Hf in Hm.
    rewrite (red_div (r_flops r) d (zget j (c_sd c)) m Hd (Hposj j) Hm). lia. }
  assert (Hcnt : (0 < count_occ Z.eq_dec (map r_size (c_tab c)) (r_size r))%nat)
    by (apply (in_nth_error_count _ i), Hn).
  assert (Hiff : forall j, P j -> (In j new_inv <-> In j (r_inv r))).
  { intros j Pj. unfold new_inv. rewrite filter_neq_in. assert (j <> ix) by (apply HP, Pj). tauto. }
  destruct (memb ix (r_legs r)) eqn:El.
  - (* ix is a leg: size, _sizes and write reductions change too *)
    apply memb_In in El.
    set (new_legs := filter (fun j => negb (Nat.eqb j ix)) (r_legs r)).
    set (r' := (new_inv, (new_legs, (r_size r / d, r_flops r / d))) : row).
    cbn [c_tab c_sd c_where c_nsl c_orig].
    split; [reflexivity|]. split; [reflexivity|]. split; [reflexivity|]. split; [reflexivity|]. split; [reflexivity|].
    unfold derived_on. cbn [c_flops c_sizes c_fred c_wred c_where c_sd].
    split; [|split; [|split; [exact Dne|intros j Pj; split; [|split; [|split; [apply (Dj j Pj)|intros k; split; intros Hi]]]]]].
    + rewrite (zsum_map_replace _ (c_tab c) i r r' Hn), Dfl. unfold r' at 1. cbn [r_flops fst snd]. lia.
    + apply (mc_inv_ext _ (fun y => if Z.eqb y (r_size r / d)
                                     then S (if Z.eqb y (r_size r) then (count_occ Z.eq_dec (map r_size (c_tab c)) y - 1)%nat
                                             else count_occ Z.eq_dec (map r_size (c_tab c)) y)
                                     else (if Z.eqb y (r_size r) then (count_occ Z.eq_dec (map r_size (c_tab c)) y - 1)%nat
                                           else count_occ Z.eq_dec (map r_size (c_tab c)) y))).
      * intros y.
        pose proof (count_occ_map_replace r_size (c_tab c) i r r' y Hn) as Hc.
        change (r_size r') with (r_size r / d) in Hc.
        match goal with |- _ = ?b => change (count_occ Z.eq_dec (map r_size (replace_at i r' (c_tab c))) y) with b in Hc end.
        destruct (Z.eqb_spec y (r_size r / d)) as [E1|E1], (Z.eqb_spec y (r_size r)) as [E2|E2];
          try (rewrite <- E2 in Hcnt); lia.
      * apply (mc_inv_add (r_size r / d) (mc_discard (r_size r) (c_sizes c))
                 (fun y => if Z.eqb y (r_size r) then (count_occ Z.eq_dec (map r_size (c_tab c)) y - 1)%nat
                           else count_occ Z.eq_dec (map r_size (c_tab c)) y)).
        apply mc_inv_discard; [exact Dmc|exact Hcnt].
    + apply (Fred _ r'); [reflexivity|reflexivity|reflexivity|exact Pj].
    + assert (NDl : NoDup new_legs) by (apply NoDup_filter, N2).
      rewrite fold_zd_add_get by exact NDl.
      destruct (Dj j Pj) as (_ & E2 & _). rewrite E2. unfold wred_def.
      rewrite (zsum_map_replace _ (c_tab c) i r r' Hn).
      unfold r'. cbn [r_inv r_legs r_size fst snd].
      assert (Hne : j <> ix) by (apply HP, Pj).
      unfold new_legs, new_inv. rewrite !(memb_filter_neq ix j _ Hne).
      destruct (memb j (r_legs r)) eqn:Em; [|rewrite !andb_false_r; lia].
      apply memb_In in Em.
      assert (Emi : memb j (r_inv r) = true) by (apply memb_In, Hincl, Em). rewrite Emi. cbn [andb].
      destruct (size_of_two ix j (c_sd c) (r_legs r) N2 El Em Hne) as (m & Hm).
      unfold wred_delta, sd_get. rewrite <- Hs in Hm.
      rewrite (red_div (r_size r) d (zget j (c_sd c)) m Hd (Hposj j) Hm). lia.
    + apply (involves_replace (c_tab c) i r r' j k Hn (Hiff j Pj)). apply (Dj j Pj), Hi.
    + apply (Dj j Pj). apply (involves_replace (c_tab c) i r r' j k Hn (Hiff j Pj)), Hi.
  - (* ix is not a leg of this contraction *)
    apply memb_false in El.
    set (r' := (new_inv, (r_legs r, (r_size r, r_flops r / d))) : row).
    cbn [c_tab c_sd c_where c_nsl c_orig].
    split; [reflexivity|]. split; [reflexivity|]. split; [reflexivity|]. split; [reflexivity|]. split; [reflexivity|].
    unfold derived_on. cbn [c_flops c_sizes c_fred c_wred c_where c_sd].
    split; [|split; [|split; [exact Dne|intros j Pj; split; [|split; [|split; [apply (Dj j Pj)|intros k; split; intros Hi]]]]]].
    + rewrite (zsum_map_replace _ (c_tab c) i r r' Hn), Dfl. unfold r' at 1. cbn [r_flops fst snd]. lia.
    + eapply mc_inv_ext; [|exact Dmc].
      intros y. pose proof (count_occ_map_replace r_size (c_tab c) i r r' y Hn) as Hc.
      change (r_size r') with (r_size r) in Hc.
      match goal with |- _ = ?b => change (count_occ Z.eq_dec (map r_size (replace_at i r' (c_tab c))) y) with b in Hc end.
      lia.
    + apply (Fred _ r'); [reflexivity|reflexivity|reflexivity|exact Pj].
    + destruct (Dj j Pj) as (_ & E2 & _). rewrite E2. unfold wred_def.
      rewrite (zsum_map_replace _ (c_tab c) i r r' Hn).
      unfold r'. cbn [r_inv r_legs r_size fst snd].
      assert (Hne : j <> ix) by (apply HP, Pj).
      unfold new_inv. rewrite (memb_filter_neq ix j _ Hne). lia.
    + apply (involves_replace (c_tab c) i r r' j k Hn (Hiff j Pj)). apply (Dj j Pj), Hi.
    + apply (Dj j Pj). apply (involves_replace (c_tab c) i r r' j k Hn (Hiff j Pj)), Hi.
Qed.

(* ---- the whole loop `for i in cost._where.pop(ix)` ---- *)
Definition mid (ix : ix) (d : Z) (todo : list nat) (tab0 : list row) : list row :=
  map (fun kr => if memb (fst kr) todo then snd kr else row_remove ix d (snd kr)) (enumerate tab0).

Lemma nth_error_enumerate_from {A} (l : list A) : forall s k,
  nth_error (combine (seq s (length l)) l) k = option_map (pair (s + k)%nat) (nth_error l k).
Proof.
  induction l as [|a l IH]; intros s k; cbn [length seq combine].
  - destruct k; reflexivity.
  - destruct k as [|k]; cbn [nth_error option_map].
    + rewrite Nat.add_0_r. reflexivity.
    + rewrite IH. replace (S s + k)%nat with (s + S k)%nat by lia. reflexivity.
Qed.

Lemma nth_error_mid ix d todo tab0 k :
  nth_error (mid ix d todo tab0) k
  = option_map (fun r => if memb k todo then r else row_remove ix d r) (nth_error tab0 k).
Proof.
  unfold mid, enumerate. rewrite nth_error_map, nth_error_enumerate_from.
  destruct (nth_error tab0 k); reflexivity.
Qed.

Lemma mid_nil ix d tab0 : mid ix d [] tab0 = map (row_remove ix d) tab0.
Proof.
  apply nth_error_ext. intros k. rewrite nth_error_mid, nth_error_map.
  destruct (nth_error tab0 k); reflexivity.
Qed.

Lemma remove_fold (P : ix -> Prop) ix sd tab0 :
  sd_pos sd -> Forall (row_ok sd) tab0 -> (forall j, P j -> j <> ix) ->
  forall todo c, NoDup todo ->
    (forall i, In i todo -> involves tab0 ix i) ->
    c_sd c = sd -> c_tab c = mid ix (zget ix sd) todo tab0 -> derived_on (c_tab c) P c ->
    let c' := fold_left (remove_at ix (zget ix sd)) todo c in
    c_tab c' = map (row_remove ix (zget ix sd)) tab0 /\ c_sd c' = sd /\ c_where c' = c_where c /\
    c_nsl c' = c_nsl c /\ c_orig c' = c_orig c /\ derived_on (c_tab c') P c'.
Proof.
  intros Hpos Hrows HP. induction todo as [|i rest IH]; intros c ND Hinv Hsd Htab Hder; cbn [fold_left].
  - rewrite Htab, mid_nil in *. split; [reflexivity|]. split; [exact Hsd|]. split; [reflexivity|].
    split; [reflexivity|]. split; [reflexivity|]. exact Hder.
  - inversion ND as [|? ? Hni ND']; subst.
    destruct (Hinv i (or_introl eq_refl)) as (r & Hr & Hix).
    assert (Hn : nth_error (c_tab c) i = Some r).
    { rewrite Htab, nth_error_mid, Hr. cbn [option_map]. rewrite memb_cons, Nat.eqb_refl. reflexivity. }
    assert (Hok : row_ok (c_sd c) r) by (rewrite Forall_forall in Hrows; apply Hrows, (nth_error_In _ _ Hr)).
    pose proof (remove_at_step P ix c i r Hn Hok Hix Hpos HP Hder) as Hstep. cbn zeta in Hstep.
    destruct Hstep as (T1 & S1 & W1 & N1 & O1 & D1).
    set (c1 := remove_at ix (zget ix (c_sd c)) c i) in *.
    assert (Htab1 : c_tab c1 = mid ix (zget ix (c_sd c)) rest tab0).
    { rewrite T1, Htab. apply nth_error_ext. intros k.
      rewrite <- Htab. rewrite (nth_error_replace_at (c_tab c) i r _ k Hn). rewrite Htab, !nth_error_mid.
      destruct (Nat.eqb_spec k i) as [->|Hne].
      - rewrite Hr. cbn [option_map]. assert (E : memb i rest = false) by (apply memb_false, Hni). rewrite E. reflexivity.
      - rewrite memb_cons. destruct (Nat.eqb_spec k i); [contradiction|]. reflexivity. }
    specialize (IH c1 ND' (fun k Hk => Hinv k (or_intror Hk)) S1 Htab1 D1). cbn zeta in IH.
    destruct IH as (T2 & S2 & W2 & N2 & O2 & D2).
    split; [exact T2|]. split; [exact S2|]. split; [congruence|]. split; [congruence|].
    split; [congruence|]. exact D2.
Qed.

Lemma row_remove_notin ix d r : ~ In ix (r_inv r) -> row_remove ix d r = r.
Proof. intros H. unfold row_remove. apply memb_false in H. rewrite H. reflexivity. Qed.

Lemma fred_def_ext sd sd' tab j : zget j sd' = zget j sd -> fred_def sd' tab j = fred_def sd tab j.
Proof. intros H. unfold fred_def, sd_get. rewrite H. reflexivity. Qed.
Lemma wred_def_ext sd sd' tab j : zget j sd' = zget j sd -> wred_def sd' tab j = wred_def sd tab j.
Proof. intros H. unfold wred_def, sd_get. rewrite H. reflexivity. Qed.

(* ContractionCosts.remove: the table is mapped by row_remove, every derived field
   keeps its from-scratch definition, nslices is multiplied by the dimension *)
Theorem remove_spec ix c c' : Inv c -> remove ix c = Some c' ->
  let d := zget ix (c_sd c) in
  zd_get ix (c_sd c) = Some d /\
  c_tab c' = map (row_remove ix d) (c_tab c) /\ c_sd c' = zd_del ix (c_sd c) /\
  c_nsl c' = c_nsl c * d /\ c_orig c' = c_orig c /\ Inv c'.
Proof.
  intros (Hrows & Hpos & HND & Hder) Hrem. cbn zeta. unfold remove in Hrem.
  destruct (zd_get ix (c_sd c)) as [d|] eqn:Ed; [|discriminate].
  pose proof (zd_get_zget ix (c_sd c) d Ed) as Hd. cbn [c_where set_nsl] in Hrem.
  destruct (wh_get ix (c_where c)) as [is|] eqn:Ew; [|discriminate].
  injection Hrem as Hc'. subst d.
  assert (Hixk : In ix (zd_keys (c_sd c))) by (apply zd_get_in_keys; congruence).
  set (P := fun j => In j (zd_keys (c_sd c)) /\ j <> ix).
  set (c1 := set_where (wh_del ix (c_where c)) (set_nsl (c_nsl c * zget ix (c_sd c)) c)).
  assert (Ec : c' = let c2 := fold_left (remove_at ix (zget ix (c_sd c))) is c1 in
               set_wred (zd_del ix (c_wred c2)) (set_fred (zd_del ix (c_fred c2)) (set_sd (zd_del ix (c_sd c2)) c2)))
    by (rewrite <- Hc'; reflexivity).
  clear Hc'.
  destruct Hder as (Dfl & Dmc & Dne & Dj).
  assert (D1 : derived_on (c_tab c1) P c1).
  { unfold c1, derived_on. cbn. split; [exact Dfl|]. split; [exact Dmc|]. split; [apply wh_nonempty_del, Dne|].
    intros j [Hj Hne]. destruct (Dj j Hj) as (E1 & E2 & E3 & E4). split; [exact E1|]. split; [exact E2|].
    unfold where_ok, wh_get0. rewrite wh_get_del_other by exact Hne. split; [exact E3|exact E4]. }
  destruct (Dj ix Hixk) as (_ & _ & Wnd & Win). unfold wh_get0 in Wnd, Win. rewrite Ew in Wnd, Win.
  assert (Htab1 : c_tab c1 = mid ix (zget ix (c_sd c)) is (c_tab c)).
  { unfold c1. cbn. apply nth_error_ext. intros k. rewrite nth_error_mid.
    destruct (nth_error (c_tab c) k) as [r|] eqn:Er; [|reflexivity]. cbn [option_map].
    destruct (memb k is) eqn:Em; [reflexivity|]. f_equal. symmetry. apply row_remove_notin.
    intros Hin. apply memb_false in Em. apply Em, Win. exists r. split; assumption. }
  pose proof (remove_fold P ix (c_sd c) (c_tab c) Hpos Hrows (fun j Hj => proj2 Hj) is c1 Wnd
                (fun i Hi => proj1 (Win i) Hi) eq_refl Htab1 D1) as Hf. cbn zeta in Hf.
  destruct Hf as (T2 & S2 & W2 & N2 & O2 & D2).
  change (c_sd c1) with (c_sd c) in *.
  set (c2 := fold_left (remove_at ix (zget ix (c_sd c))) is c1) in *.
  cbn zeta in Ec. subst c'.
  cbn [c_tab c_sd c_nsl c_orig set_wred set_fred set_sd].
  split; [reflexivity|]. split; [exact T2|]. split; [rewrite S2; reflexivity|].
  split; [rewrite N2; reflexivity|]. split; [rewrite O2; reflexivity|].
  unfold Inv. cbn [c_tab c_sd c_nsl c_orig c_flops c_sizes c_fred c_wred c_where set_wred set_fred set_sd].
  rewrite S2, T2.
  assert (Hd : 0 < zget ix (c_sd c)) by (apply sd_pos_zget, Hpos).
  split; [|split; [apply sd_pos_del, Hpos|split; [apply zd_keys_del_nodup, HND|]]].
  - apply Forall_map. rewrite Forall_forall in *. intros r Hr.
    destruct (row_remove_ok (c_sd c) ix r (Hrows r Hr) Hd) as ((N1 & N2' & Hincl & Hf & Hs) & Hni).
    repeat split; try assumption.
    + rewrite Hf. symmetry. apply size_of_del, Hni.
    + rewrite Hs. symmetry. apply size_of_del. intros H. apply Hni, Hincl, H.
  - destruct D2 as (F2 & M2 & Ne2 & J2). unfold derived_on.
    cbn [c_tab c_sd c_flops c_sizes c_fred c_wred c_where set_wred set_fred set_sd].
    rewrite T2 in *. split; [exact F2|]. split; [exact M2|]. split; [exact Ne2|].
    intros j Hj.
    assert (Hj0 : In j (zd_keys (c_sd c))) by (apply (zd_keys_del_in ix), Hj).
    assert (Hne : j <> ix).
    { intros ->. apply zd_get_in_keys in Hj. apply Hj, zd_get_del_same, HND. }
    destruct (J2 j (conj Hj0 Hne)) as (E1 & E2 & E3). rewrite S2 in E1, E2.
    split; [|split; [|exact E3]].
    + rewrite zd_get0_del_other by exact Hne. rewrite E1. symmetry. apply fred_def_ext, zget_del_other, Hne.
    + rewrite zd_get0_del_other by exact Hne. rewrite E2. symmetry. apply wred_def_ext, zget_del_other, Hne.
Qed.

(* ================================================================== *)
(* Part 3: the tree's own figures (Model/Net.v) after removing one more index
   are the row_remove image of the figures before                         *)
Definition Kf (x : ix) (kv : ix * nat) : bool := negb (Nat.eqb (fst kv) x).

Lemma filterK_lset_same x v d : filter (Kf x) (lset x v d) = filter (Kf x) d.
Proof.
  induction d as [|[k w] d IH]; cbn.
  - unfold Kf. cbn. rewrite Nat.eqb_refl. reflexivity.
  - destruct (Nat.eqb_spec k x) as [->|H]; cbn.
    + unfold Kf. cbn. rewrite Nat.eqb_refl. reflexivity.
    + rewrite IH. reflexivity.
Qed.

Lemma filterK_lset_other x j v d : j <> x -> filter (Kf x) (lset j v d) = lset j v (filter (Kf x) d).
Proof.
  intros Hne. induction d as [|[k w] d IH].
  - cbn. unfold Kf. cbn. destruct (Nat.eqb_spec j x); [contradiction|reflexivity].
  - cbn [lset filter]. destruct (Nat.eqb_spec k j) as [->|H].
    + cbn [filter]. unfold Kf. cbn [fst]. destruct (Nat.eqb_spec j x); [contradiction|]. cbn [negb lset].
      rewrite Nat.eqb_refl. reflexivity.
    + cbn [filter]. unfold Kf. cbn [fst]. fold (Kf x). destruct (Nat.eqb_spec k x); cbn [negb]; [exact IH|].
      cbn [lset]. destruct (Nat.eqb_spec k j); [contradiction|]. rewrite IH. reflexivity.
Qed.

Lemma lget0_filterK x j d : j <> x -> lget0 j (filter (Kf x) d) = lget0 j d.
Proof.
  intros Hne. unfold lget0. induction d as [|[k w] d IH]; cbn; [reflexivity|].
  assert (EK : Kf x (k, w) = negb (Nat.eqb k x)) by reflexivity. rewrite EK.
  destruct (Nat.eqb_spec k x) as [->|H]; cbn.
  - destruct (Nat.eqb_spec x j); [congruence|exact IH].
  - destruct (Nat.eqb_spec k j); [reflexivity|exact IH].
Qed.

Lemma filterK_ladd x j c d :
  filter (Kf x) (ladd j c d) = if Nat.eqb j x then filter (Kf x) d else ladd j c (filter (Kf x) d).
Proof.
  unfold ladd. destruct (Nat.eqb_spec j x) as [->|Hne].
  - apply filterK_lset_same.
  - rewrite filterK_lset_other by exact Hne. rewrite lget0_filterK by exact Hne. reflexivity.
Qed.

Lemma legs_of_term_filter x T :
  legs_of_term (filter (fun j => negb (Nat.eqb j x)) T) = filter (Kf x) (legs_of_term T).
Proof.
  unfold legs_of_term.
  assert (G : forall d, fold_left (fun d j => ladd j 1 d) (filter (fun j => negb (Nat.eqb j x)) T) (filter (Kf x) d)
                        = filter (Kf x) (fold_left (fun d j => ladd j 1 d) T d)).
  { induction T as [|a T IH]; intros d; cbn [filter fold_left]; [reflexivity|].
    destruct (Nat.eqb_spec a x) as [->|Hne]; cbn [negb fold_left].
    - rewrite <- IH. rewrite filterK_ladd, Nat.eqb_refl. reflexivity.
    - rewrite <- IH. rewrite filterK_ladd. destruct (Nat.eqb_spec a x); [contradiction|reflexivity]. }
  apply (G []).
Qed.

Lemma legs_union2_filter x a b :
  legs_union2 (filter (Kf x) a) (filter (Kf x) b) = filter (Kf x) (legs_union2 a b).
Proof.
  unfold legs_union2. revert a. induction b as [|[k w] b IH]; intros a; cbn [filter fold_left]; [reflexivity|].
  assert (EK : Kf x (k, w) = negb (Nat.eqb k x)) by reflexivity. rewrite EK.
  destruct (Nat.eqb_spec k x) as [->|Hne]; cbn [negb fold_left fst snd].
  - rewrite <- IH. rewrite filterK_ladd, Nat.eqb_refl. reflexivity.
  - rewrite <- IH. rewrite filterK_ladd. destruct (Nat.eqb_spec k x); [contradiction|reflexivity].
Qed.

Lemma filter_comm {A} (f g : A -> bool) l : filter f (filter g l) = filter g (filter f l).
Proof. rewrite !filter_filter_comm_and. apply filter_ext. intros a. apply andb_comm. Qed.

Lemma lkeys_filterK x d : lkeys (filter (Kf x) d) = filter (fun j => negb (Nat.eqb j x)) (lkeys d).
Proof.
  unfold lkeys. induction d as [|[k w] d IH]; cbn; [reflexivity|].
  assert (EK : Kf x (k, w) = negb (Nat.eqb k x)) by reflexivity. rewrite EK.
  destruct (negb (Nat.eqb k x)); cbn; rewrite IH; reflexivity.
Qed.

Lemma filter_all_id {A} (f : A -> bool) l : (forall a, In a l -> f a = true) -> filter f l = l.
Proof.
  induction l as [|a l IH]; cbn; intros H; [reflexivity|].
  rewrite (H a (or_introl eq_refl)). f_equal. apply IH. intros b Hb. apply H. right; exact Hb.
Qed.

Section OneMore.
Variable n : net.
Variable sl : list slinfo.
Variable x : ix.
Variable p : option nat.
Let sl' := sl ++ [mkSl x p].

Lemma memb_removed_snoc j : memb j (removed sl') = memb j (removed sl) || Nat.eqb j x.
Proof.
  unfold sl'. rewrite removed_snoc. unfold memb. rewrite existsb_app. cbn. rewrite orb_false_r. reflexivity.
Qed.

Lemma term_sl_snoc i : term_sl n sl' i = filter (fun j => negb (Nat.eqb j x)) (term_sl n sl i).
Proof.
  unfold term_sl. rewrite filter_filter_comm_and. apply filter_ext. intros j.
  rewrite memb_removed_snoc. destruct (memb j (removed sl)), (Nat.eqb j x); reflexivity.
Qed.

Lemma leaf_legs_filter_form sl0 k :
  leaf_legs n sl0 k = filter (fun kv => negb (Nat.eqb (snd kv) (appear n (fst kv)))) (legs_of_term (term_sl n sl0 k)).
Proof.
  unfold leaf_legs. destruct (leaf_simplifiable n sl0 k) eqn:E; [reflexivity|].
  unfold leaf_simplifiable in E. apply orb_false_iff in E. destruct E as [_ E].
  symmetry. apply filter_all_id. intros kv Hkv.
  destruct (Nat.eqb (snd kv) (appear n (fst kv))) eqn:E2; [|reflexivity].
  exfalso. assert (existsb (fun kv => Nat.eqb (snd kv) (appear n (fst kv))) (legs_of_term (term_sl n sl0 k)) = true); [|congruence].
  apply existsb_exists. exists kv. split; assumption.
Qed.

Lemma leaf_legs_snoc k : leaf_legs n sl' k = filter (Kf x) (leaf_legs n sl k).
Proof.
  rewrite !leaf_legs_filter_form, term_sl_snoc, legs_of_term_filter. apply filter_comm.
Qed.

Lemma sub_legs_snoc t : sub_legs n sl' t = filter (Kf x) (sub_legs n sl t).
Proof.
  induction t as [k|l IHl r IHr]; cbn [sub_legs]; [apply leaf_legs_snoc|].
  rewrite IHl, IHr, legs_union2_filter. apply filter_comm.
Qed.

Lemma involved_snoc t : involved n sl' t = filter (Kf x) (involved n sl t).
Proof.
  destruct t as [k|l r]; cbn [involved]; [reflexivity|].
  rewrite !sub_legs_snoc. apply legs_union2_filter.
Qed.

Lemma root_legs_snoc : root_legs n sl' = filter (Kf x) (root_legs n sl).
Proof.
  unfold root_legs.
  assert (G : forall L, map (fun j => (j, 0%nat)) (filter (fun j => negb (memb j (removed sl'))) L)
                        = filter (Kf x) (map (fun j => (j, 0%nat)) (filter (fun j => negb (memb j (removed sl))) L))).
  { induction L as [|a L IH]; cbn [filter map]; [reflexivity|].
    rewrite memb_removed_snoc.
    destruct (memb a (removed sl)) eqn:E1; cbn [orb negb filter map]; [exact IH|].
    assert (EK : Kf x (a, 0%nat) = negb (Nat.eqb a x)) by reflexivity. rewrite EK.
    destruct (Nat.eqb a x); cbn [negb filter map]; rewrite IH; reflexivity. }
  apply G.
Qed.

Lemma node_legs_snoc b t : node_legs n sl' b t = filter (Kf x) (node_legs n sl b t).
Proof.
  destruct t as [k|l r]; cbn [node_legs]; [apply (sub_legs_snoc (Leaf k))|].
  destruct b; [apply root_legs_snoc|apply (sub_legs_snoc (Node l r))].
Qed.

Lemma wfl_sub_legs sl0 t : wfl (sub_legs n sl0 t).
Proof.
  induction t as [k|l IHl r IHr]; cbn [sub_legs]; [apply wfl_leaf_legs|].
  apply wfl_filter, wfl_legs_union2; [exact IHl|apply IHr].
Qed.

Lemma involved_nodup sl0 t : NoDup (lkeys (involved n sl0 t)).
Proof.
  destruct t as [k|l r]; cbn [involved]; [constructor|].
  apply legs_union2_nodup, wfl_sub_legs.
Qed.

Lemma node_legs_nodup sl0 b t : NoDup (output n) -> NoDup (lkeys (node_legs n sl0 b t)).
Proof.
  intros ND. destruct t as [k|l r]; cbn [node_legs]; [apply (wfl_sub_legs sl0 (Leaf k))|].
  destruct b; [|apply (wfl_sub_legs sl0 (Node l r))].
  unfold root_legs, lkeys. rewrite map_map. cbn [fst]. rewrite map_id. apply NoDup_filter, ND.
Qed.

(* a row of the tree's table is always a product table; the only thing that depends
   on the network is that the legs are involved (root: the declared output)        *)
Definition legs_involved (sl0 : list slinfo) (bt : bool * tree) : Prop :=
  incl (lkeys (node_legs n sl0 (fst bt) (snd bt))) (lkeys (involved n sl0 (snd bt))).

Lemma row_of_ok sl0 bt : NoDup (output n) -> (exists l r, snd bt = Node l r) -> legs_involved sl0 bt ->
  row_ok (szd n) (row_of n sl0 bt).
Proof.
  intros ND (l & r & Ht) Hli. unfold row_of, row_ok. cbn [r_inv r_legs r_size r_flops fst snd].
  split; [apply involved_nodup|]. split; [apply node_legs_nodup, ND|]. split; [exact Hli|].
  split; [|reflexivity]. unfold node_flops. rewrite Ht. reflexivity.
Qed.

Lemma legs_involved_snoc bt : legs_involved sl bt -> legs_involved sl' bt.
Proof.
  unfold legs_involved. rewrite node_legs_snoc, involved_snoc, !lkeys_filterK.
  intros H j Hj. apply filter_neq_in in Hj. apply filter_neq_in. split; [apply H; tauto|tauto].
Qed.

Lemma row_of_snoc bt : NoDup (output n) -> (exists l r, snd bt = Node l r) -> legs_involved sl bt ->
  0 < zget x (szd n) ->
  row_of n sl' bt = row_remove x (zget x (szd n)) (row_of n sl bt).
Proof.
  intros ND Hnode Hli Hd.
  destruct (row_of_ok sl bt ND Hnode Hli) as (N1 & N2 & Hincl & Hf & Hs).
  destruct Hnode as (l & r & Ht).
  unfold row_remove.
  destruct (memb x (r_inv (row_of n sl bt))) eqn:Ei.
  - apply memb_In in Ei.
    assert (E1 : lkeys (involved n sl' (snd bt)) = filter (fun j => negb (Nat.eqb j x)) (r_inv (row_of n sl bt)))
      by (rewrite involved_snoc, lkeys_filterK; reflexivity).
    assert (E2 : lkeys (node_legs n sl' (fst bt) (snd bt)) = filter (fun j => negb (Nat.eqb j x)) (r_legs (row_of n sl bt)))
      by (rewrite node_legs_snoc, lkeys_filterK; reflexivity).
    assert (Efl : node_flops n sl' (snd bt) = r_flops (row_of n sl bt) / zget x (szd n)).
    { rewrite Hf. rewrite (size_of_div x (szd n) _ N1 Ei Hd). unfold node_flops. rewrite Ht, <- Ht, E1. reflexivity. }
    unfold row_of at 1. rewrite E1, Efl. f_equal.
    destruct (memb x (r_legs (row_of n sl bt))) eqn:El.
    + apply memb_In in El. rewrite E2. f_equal. f_equal.
      rewrite Hs. rewrite (size_of_div x (szd n) _ N2 El Hd). unfold node_size. rewrite E2. reflexivity.
    + apply memb_false in El. rewrite E2, (filter_neq_id x _ El). f_equal. f_equal.
      unfold node_size. rewrite E2, (filter_neq_id x _ El). reflexivity.
  - apply memb_false in Ei.
    assert (El : ~ In x (r_legs (row_of n sl bt))) by (intros H; apply Ei, Hincl, H).
    unfold row_of at 1. unfold node_size, node_flops. rewrite Ht, <- Ht.
    rewrite involved_snoc, node_legs_snoc, !lkeys_filterK.
    change (lkeys (involved n sl (snd bt))) with (r_inv (row_of n sl bt)).
    change (lkeys (node_legs n sl (fst bt) (snd bt))) with (r_legs (row_of n sl bt)).
    rewrite (filter_neq_id x _ Ei), (filter_neq_id x _ El).
    unfold row_of, node_size, node_flops. rewrite Ht. reflexivity.
Qed.

End OneMore.

(* ================================================================== *)
(* Part 2b: ContractionCosts.__init__ establishes the invariant         *)
Lemma init_ix_fold i r l : forall c,
  fold_left (init_ix i r) l c =
  mkCosts (c_sd c) (c_tab c) (c_nsl c) (c_orig c) (c_flops c) (c_sizes c)
    (fold_left (fun fr j => zd_add j (r_flops r - r_flops r / sd_get j (c_sd c)) fr) l (c_fred c))
    (fold_left (fun wr j => if memb j (r_legs r) then zd_add j (r_size r - r_size r / sd_get j (c_sd c)) wr else wr) l (c_wred c))
    (fold_left (fun w j => wh_add j i w) l (c_where c)).
Proof.
  induction l as [|a l IH]; intros c; cbn [fold_left].
  - destruct c; reflexivity.
  - rewrite IH. unfold init_ix. destruct (memb a (r_legs r)); reflexivity.
Qed.

Lemma fold_wred_get (h : ix -> Z) legs l : forall wr j, NoDup l ->
  zd_get0 j (fold_left (fun wr o => if memb o legs then zd_add o (h o) wr else wr) l wr)
  = zd_get0 j wr + (if memb j l && memb j legs then h j else 0).
Proof.
  induction l as [|a l IH]; intros wr j ND; cbn [fold_left].
  - cbn. lia.
  - inversion ND as [|? ? Hn ND']; subst. rewrite IH by exact ND'. rewrite memb_cons.
    assert (E : memb a l = false) by (apply memb_false, Hn).
    destruct (memb a legs) eqn:Ea.
    + rewrite zd_get0_add. destruct (Nat.eqb_spec j a) as [->|H]; cbn [orb andb].
      * rewrite E, Ea. cbn [andb]. lia.
      * destruct (memb j l && memb j legs); lia.
    + destruct (Nat.eqb_spec j a) as [->|H]; cbn [orb andb].
      * rewrite E, Ea. cbn [andb]. lia.
      * destruct (memb j l && memb j legs); lia.
Qed.

Lemma fold_where_get0 i l : forall w j, NoDup l ->
  wh_get0 j (fold_left (fun w o => wh_add o i w) l w)
  = if memb j l then (let v := wh_get0 j w in if memb i v then v else v ++ [i]) else wh_get0 j w.
Proof.
  induction l as [|a l IH]; intros w j ND; cbn [fold_left]; [reflexivity|].
  inversion ND as [|? ? Hn ND']; subst. rewrite IH by exact ND'. rewrite memb_cons.
  assert (E : memb a l = false) by (apply memb_false, Hn).
  destruct (Nat.eqb_spec j a) as [->|H]; cbn [orb].
  - rewrite E. unfold wh_get0 at 1. rewrite wh_get_add_same. reflexivity.
  - assert (E2 : wh_get0 j (wh_add a i w) = wh_get0 j w)
      by (unfold wh_get0; rewrite wh_get_add_other by exact H; reflexivity).
    rewrite E2. reflexivity.
Qed.

Lemma fold_where_nonempty i l : forall w, wh_nonempty w -> wh_nonempty (fold_left (fun w o => wh_add o i w) l w).
Proof.
  induction l as [|a l IH]; intros w H; cbn [fold_left]; [exact H|]. apply IH, wh_nonempty_add, H.
Qed.

Lemma involves_snoc p r j i :
  involves (p ++ [r]) j i <-> involves p j i \/ (i = length p /\ In j (r_inv r)).
Proof.
  unfold involves. split.
  - intros (r0 & Hn & Hin). destruct (Nat.lt_ge_cases i (length p)) as [Hlt|Hge].
    + rewrite nth_error_app1 in Hn by exact Hlt. left. exists r0. tauto.
    + rewrite nth_error_app2 in Hn by exact Hge.
      destruct (i - length p)%nat eqn:E; cbn in Hn.
      * injection Hn as <-. right. split; [lia|exact Hin].
      * destruct n; discriminate.
  - intros [(r0 & Hn & Hin)|[-> Hin]].
    + exists r0. split; [|exact Hin]. rewrite nth_error_app1; [exact Hn|].
      apply nth_error_Some. congruence.
    + exists r. split; [|exact Hin]. rewrite nth_error_app2, Nat.sub_diag by lia. reflexivity.
Qed.

Lemma init_row_step sd p r c :
  c_sd c = sd -> NoDup (r_inv r) -> derived_on p (fun _ => True) c ->
  let c' := init_row c (length p, r) in
  c_sd c' = sd /\ c_tab c' = c_tab c /\ c_nsl c' = c_nsl c /\ c_orig c' = c_orig c /\
  derived_on (p ++ [r]) (fun _ => True) c'.
Proof.
  intros Hsd ND (Dfl & Dmc & Dne & Dj). cbn zeta. unfold init_row. rewrite init_ix_fold.
  cbn [c_sd c_tab c_nsl c_orig c_flops c_sizes c_fred c_wred c_where set_flops set_sizes].
  split; [exact Hsd|]. split; [reflexivity|]. split; [reflexivity|]. split; [reflexivity|].
  unfold derived_on. cbn [c_sd c_flops c_sizes c_fred c_wred c_where].
  split; [|split; [|split; [apply fold_where_nonempty, Dne|intros j _; split; [|split; [|split]]]]].
  - rewrite map_app, zsum_app, Dfl. cbn [map]. rewrite zsum_cons. change (zsum []) with 0. lia.
  - eapply mc_inv_ext; [|apply mc_inv_add, Dmc]. intros y. cbn beta.
    rewrite map_app, count_occ_app. cbn [map count_occ].
    destruct (Z.eq_dec (r_size r) y), (Z.eqb_spec y (r_size r)); try congruence; lia.
  - rewrite fold_zd_add_get by exact ND. destruct (Dj j I) as (E1 & _ & _). rewrite E1.
    unfold fred_def. rewrite map_app, zsum_app. cbn [map]. rewrite zsum_cons. change (zsum []) with 0. lia.
  - rewrite fold_wred_get by exact ND. destruct (Dj j I) as (_ & E2 & _). rewrite E2.
    unfold wred_def. rewrite map_app, zsum_app. cbn [map]. rewrite zsum_cons. change (zsum []) with 0. lia.
  - destruct (Dj j I) as (_ & _ & Wnd & Win).
    rewrite fold_where_get0 by exact ND. cbn zeta.
    destruct (memb j (r_inv r)); [|exact Wnd].
    destruct (memb (length p) (wh_get0 j (c_where c))) eqn:Em; [exact Wnd|].
    apply memb_false in Em.
    apply NoDup_rev in Wnd. rewrite <- (rev_involutive (_ ++ [length p])). apply NoDup_rev.
    rewrite rev_app_distr. cbn. constructor; [rewrite <- in_rev; exact Em|exact Wnd].
  - destruct (Dj j I) as (_ & _ & Wnd & Win). intros i.
    rewrite fold_where_get0 by exact ND. cbn zeta. rewrite involves_snoc.
    assert (Hlen : ~ In (length p) (wh_get0 j (c_where c))).
    { intros H. apply Win in H. destruct H as (r0 & Hn & _).
      assert (length p < length p)%nat by (apply nth_error_Some; congruence). lia. }
    destruct (memb j (r_inv r)) eqn:Ej.
    + apply memb_In in Ej. apply memb_false in Hlen. rewrite Hlen. rewrite in_app_iff, Win. cbn. intuition.
    + apply memb_false in Ej. rewrite Win. intuition.
Qed.

Lemma init_fold sd : forall rest p c,
  c_sd c = sd -> Forall (fun r => NoDup (r_inv r)) rest -> derived_on p (fun _ => True) c ->
  let c' := fold_left init_row (combine (seq (length p) (length rest)) rest) c in
  c_sd c' = sd /\ c_tab c' = c_tab c /\ c_nsl c' = c_nsl c /\ c_orig c' = c_orig c /\
  derived_on (p ++ rest) (fun _ => True) c'.
Proof.
  induction rest as [|r rest IH]; intros p c Hsd HF Hd; cbn [length seq combine fold_left].
  - rewrite app_nil_r. repeat (split; [reflexivity|]). split; [exact Hsd|]. repeat (split; [reflexivity|]). exact Hd.
  - inversion HF as [|? ? Hr HF']; subst.
    destruct (init_row_step (c_sd c) p r c eq_refl Hr Hd) as (S1 & T1 & N1 & O1 & D1).
    specialize (IH (p ++ [r]) (init_row c (length p, r)) S1 HF' D1). cbn zeta in IH.
    rewrite app_length in IH. cbn [length] in IH. rewrite Nat.add_1_r in IH.
    destruct IH as (S2 & T2 & N2 & O2 & D2). rewrite <- app_assoc in D2. cbn [app] in D2.
    split; [exact S2|]. split; [congruence|]. split; [congruence|]. split; [congruence|]. exact D2.
Qed.

Theorem cc_init_inv tab sd : Forall (row_ok sd) tab -> sd_pos sd -> NoDup (zd_keys sd) ->
  let c := cc_init tab sd in
  Inv c /\ c_tab c = tab /\ c_sd c = sd /\ c_nsl c = 1 /\ c_orig c = zsum (map r_flops tab).
Proof.
  intros Hrows Hpos HND. cbn zeta. unfold cc_init, enumerate.
  set (c0 := mkCosts sd tab 1 0 0 mc_empty [] [] []).
  assert (D0 : derived_on [] (fun _ => True) c0).
  { unfold derived_on, c0. cbn. split; [reflexivity|]. split; [apply mc_inv_empty|]. split; [intros kv []|].
    intros j _. split; [reflexivity|]. split; [reflexivity|]. split; [constructor|].
    intros i. split; [intros []|]. intros (r & Hn & _). destruct i; discriminate. }
  assert (HF : Forall (fun r => NoDup (r_inv r)) tab).
  { rewrite Forall_forall in *. intros r Hr. apply (Hrows r Hr). }
  destruct (init_fold sd tab [] c0 eq_refl HF D0) as (S1 & T1 & N1 & O1 & D1). cbn [length app] in *.
  set (c1 := fold_left init_row (combine (seq 0 (length tab)) tab) c0) in *.
  cbn [c_tab c_sd c_nsl c_orig set_orig].
  destruct D1 as (Dfl & Dmc & Dne & Dj).
  split; [|split; [exact T1|split; [exact S1|split; [exact N1|exact Dfl]]]].
  unfold Inv. cbn [c_tab c_sd c_flops c_sizes c_fred c_wred c_where set_orig].
  rewrite T1, S1. change (c_tab c0) with tab.
  split; [exact Hrows|]. split; [exact Hpos|]. split; [exact HND|].
  unfold derived_on. cbn [c_tab c_sd c_flops c_sizes c_fred c_wred c_where set_orig]. rewrite S1.
  split; [exact Dfl|]. split; [exact Dmc|]. split; [exact Dne|]. intros j _.
  destruct (Dj j I) as (E1 & E2 & E3). rewrite S1 in E1, E2. split; [exact E1|]. split; [exact E2|exact E3].
Qed.

(* ================================================================== *)
(* Part 3b: "two incremental cost models agree"                          *)
Definition tree_ok (n : net) (sl : list slinfo) (t : tree) : Prop :=
  NoDup (output n) /\ forall bt, In bt (traverse_dfs t) -> legs_involved n sl bt.

Lemma post_sub_nodes t : forall t', In t' (post_sub t) -> exists l r, t' = Node l r.
Proof.
  induction t as [k|l IHl r IHr]; cbn [post_sub]; intros t'; [intros []|].
  rewrite !in_app_iff. intros [H|[H|[<-|[]]]]; [apply IHl, H|apply IHr, H|exists l, r; reflexivity].
Qed.

Lemma traverse_dfs_nodes t bt : In bt (traverse_dfs t) -> exists l r, snd bt = Node l r.
Proof.
  destruct t as [k|l r]; cbn [traverse_dfs]; [intros []|].
  rewrite in_app_iff. intros [H|[<-|[]]].
  - apply in_map_iff in H. destruct H as (t' & <- & Hin). cbn [snd].
    apply in_app_iff in Hin. destruct Hin as [Hin|Hin]; [apply (post_sub_nodes l), Hin|apply (post_sub_nodes r), Hin].
  - exists l, r. reflexivity.
Qed.

Lemma lkeys_filter_incl (f : ix * nat -> bool) d : incl (lkeys (filter f d)) (lkeys d).
Proof.
  unfold lkeys. intros j Hj. apply in_map_iff in Hj. destruct Hj as (kv & <- & Hin).
  apply filter_In in Hin. apply in_map, Hin.
Qed.

(* it is enough that the declared output is duplicate free and involved at the root *)
Lemma tree_ok_from_root n sl t : NoDup (output n) ->
  incl (lkeys (root_legs n sl)) (lkeys (involved n sl t)) -> tree_ok n sl t.
Proof.
  intros ND Hroot. split; [exact ND|]. intros bt Hbt.
  destruct t as [k|l r]; cbn [traverse_dfs] in Hbt; [destruct Hbt|].
  apply in_app_iff in Hbt. destruct Hbt as [H|[<-|[]]].
  - apply in_map_iff in H. destruct H as (t' & <- & Hin). unfold legs_involved. cbn [fst snd].
    assert (Hn : exists l' r', t' = Node l' r').
    { apply in_app_iff in Hin. destruct Hin as [Hin|Hin]; [apply (post_sub_nodes l), Hin|apply (post_sub_nodes r), Hin]. }
    destruct Hn as (l' & r' & ->). cbn [node_legs sub_legs involved]. apply lkeys_filter_incl.
  - unfold legs_involved. cbn [fst snd node_legs]. exact Hroot.
Qed.

Lemma tree_ok_snoc n sl t x p : tree_ok n sl t -> tree_ok n (sl ++ [mkSl x p]) t.
Proof. intros [ND H]. split; [exact ND|]. intros bt Hbt. apply legs_involved_snoc, H, Hbt. Qed.

Lemma tree_rows_ok n sl t : tree_ok n sl t -> Forall (row_ok (szd n)) (tree_rows n sl t).
Proof.
  intros [ND H]. unfold tree_rows. apply Forall_map. apply Forall_forall. intros bt Hbt.
  apply row_of_ok; [exact ND|apply (traverse_dfs_nodes t), Hbt|apply H, Hbt].
Qed.

Theorem tree_rows_snoc n sl t x p : tree_ok n sl t -> 0 < zget x (szd n) ->
  tree_rows n (sl ++ [mkSl x p]) t = map (row_remove x (zget x (szd n))) (tree_rows n sl t).
Proof.
  intros [ND H] Hd. unfold tree_rows. rewrite map_map. apply map_ext_in. intros bt Hbt.
  apply row_of_snoc; [exact ND|apply (traverse_dfs_nodes t), Hbt|apply H, Hbt|exact Hd].
Qed.

Definition sd_rel (n : net) (done : list ix) (c : costs) : Prop :=
  forall j, zd_get j (c_sd c) = if memb j done then None else zd_get j (szd n).

Lemma memb_app j (a b : list nat) : memb j (a ++ b) = memb j a || memb j b.
Proof. unfold memb. apply existsb_app. Qed.

Lemma remove_seq_tree n t : sd_pos (szd n) ->
  forall xs sl done c c', tree_ok n sl t -> Inv c -> c_tab c = tree_rows n sl t -> sd_rel n done c ->
    remove_seq xs c = Some c' ->
    c_tab c' = tree_rows n (sl ++ slice_all xs) t /\ Inv c' /\
    c_nsl c' = c_nsl c * zprod (map (fun x => zget x (szd n)) xs) /\ c_orig c' = c_orig c /\
    sd_rel n (done ++ xs) c' /\ NoDup xs /\
    (forall x, In x xs -> ~ In x done /\ In x (zd_keys (szd n))).
Proof.
  intros Hpos. induction xs as [|x xs IH]; intros sl done c c' Hok Hinv Htab Hrel Hseq; cbn [remove_seq] in Hseq.
  - injection Hseq as <-. cbn [slice_all map]. rewrite !app_nil_r. rewrite zprod_nil.
    repeat (split; [first [assumption|lia|constructor]|]). intros x [].
  - destruct (remove x c) as [c1|] eqn:Er; [|discriminate].
    destruct (remove_spec x c c1 Hinv Er) as (Ed & T1 & S1 & N1 & O1 & I1). cbn zeta in *.
    assert (Hxd : memb x done = false).
    { destruct (memb x done) eqn:E; [|reflexivity]. specialize (Hrel x). rewrite E in Hrel. congruence. }
    assert (Hxs : zd_get x (szd n) = Some (zget x (c_sd c))).
    { specialize (Hrel x). rewrite Hxd in Hrel. congruence. }
    assert (Hd : zget x (szd n) = zget x (c_sd c)) by (apply zd_get_zget, Hxs).
    assert (Hp : 0 < zget x (szd n)) by (apply sd_pos_zget, Hpos).
    assert (Htab1 : c_tab c1 = tree_rows n (sl ++ [mkSl x None]) t).
    { rewrite T1, Htab, <- Hd. symmetry. apply tree_rows_snoc; assumption. }
    assert (Hrel1 : sd_rel n (done ++ [x]) c1).
    { intros j. rewrite S1, memb_app. cbn [memb existsb]. rewrite orb_false_r.
      destruct (Nat.eqb_spec j x) as [->|Hne].
      - rewrite orb_true_r. apply zd_get_del_same. apply Hinv.
      - rewrite orb_false_r. rewrite zd_get_del_other by exact Hne. apply Hrel. }
    destruct (IH (sl ++ [mkSl x None]) (done ++ [x]) c1 c' (tree_ok_snoc n sl t x None Hok) I1 Htab1 Hrel1 Hseq)
      as (T2 & I2 & N2 & O2 & R2 & ND2 & H2).
    cbn [slice_all map]. rewrite <- app_assoc in T2, R2. cbn [app] in T2, R2.
    split; [exact T2|]. split; [exact I2|].
    split; [rewrite N2, N1, zprod_cons, Hd; ring|]. split; [congruence|]. split; [exact R2|].
    split.
    + constructor; [|exact ND2]. intros Hin. destruct (H2 x Hin) as [Hnd _]. apply Hnd, in_app_iff. right; left; reflexivity.
    + intros y [<-|Hy].
      * split; [apply memb_false, Hxd|]. apply zd_get_in_keys. congruence.
      * destruct (H2 y Hy) as [Hnd Hk]. split; [|exact Hk]. intros Hyd. apply Hnd, in_app_iff. left; exact Hyd.
Qed.

Lemma tree_rows_flops n sl t : zsum (map r_flops (tree_rows n sl t)) = sum_flops n sl t.
Proof. unfold tree_rows, sum_flops. rewrite map_map. reflexivity. Qed.

(* C07 main theorem about the cost model: after ANY sequence of removals that the
   model accepts, the table is the table of the tree sliced on those indices, every
   derived field equals its from-scratch definition on that table (Inv), nslices is
   the product of the removed dimensions, and original_flops is still the incoming
   tree's flops *)
Theorem costs_remove_eq_tree_remove n sl0 t : tree_ok n sl0 t -> sd_pos (szd n) -> NoDup (zd_keys (szd n)) ->
  forall xs c, remove_seq xs (costs_of_tree n sl0 t) = Some c ->
    c_tab c = tree_rows n (sl0 ++ slice_all xs) t /\ Inv c /\
    c_nsl c = zprod (map (fun x => zget x (szd n)) xs) /\ c_orig c = sum_flops n sl0 t /\
    sd_rel n xs c /\ NoDup xs /\ (forall x, In x xs -> In x (zd_keys (szd n))).
Proof.
  intros Hok Hpos HND xs c Hseq.
  destruct (cc_init_inv (tree_rows n sl0 t) (szd n) (tree_rows_ok n sl0 t Hok) Hpos HND) as (I0 & T0 & S0 & N0 & O0).
  fold (costs_of_tree n sl0 t) in *.
  assert (R0 : sd_rel n [] (costs_of_tree n sl0 t)) by (intros j; rewrite S0; reflexivity).
  destruct (remove_seq_tree n t Hpos xs sl0 [] _ c Hok I0 T0 R0 Hseq) as (T & I & N & O & R & ND & H).
  cbn [app] in R. rewrite N0 in N. rewrite O0, tree_rows_flops in O.
  split; [exact T|]. split; [exact I|]. split; [lia|]. split; [exact O|]. split; [exact R|]. split; [exact ND|].
  intros x Hx. apply H, Hx.
Qed.

(* ---- the prediction read off a cost object equals the tree's own figures ---- *)
Lemma tree_rows_sizes n sl t :
  map r_size (tree_rows n sl t) = map (fun bt => node_size n sl (fst bt) (snd bt)) (traverse_dfs t).
Proof. unfold tree_rows. rewrite map_map. reflexivity. Qed.

Lemma multiplicity_slice_all n sl0 xs :
  multiplicity n (sl0 ++ slice_all xs) = multiplicity n sl0 * zprod (map (fun x => zget x (szd n)) xs).
Proof.
  unfold multiplicity, slice_all. rewrite map_app, zprod_app, map_map. reflexivity.
Qed.

Lemma zmax_list_opt l : (forall x, In x l -> 0 <= x) ->
  zmax_list l 0 = match list_max_opt l with Some m => m | None => 0 end.
Proof.
  destruct l as [|a l]; intros H; [reflexivity|]. unfold zmax_list. cbn [fold_left list_max_opt].
  rewrite Z.max_r by (apply H; left; reflexivity). reflexivity.
Qed.

Theorem prediction_is_real n sl0 t xs c : (forall j, 0 < zget j (szd n)) ->
  Inv c -> c_tab c = tree_rows n (sl0 ++ slice_all xs) t ->
  c_nsl c = zprod (map (fun x => zget x (szd n)) xs) ->
  (* number of slices, on top of the incoming tree's *)
  c_nsl c * multiplicity n sl0 = multiplicity n (sl0 ++ slice_all xs) /\
  (* total cost, in units of the incoming tree's multiplicity *)
  cc_total_flops c * multiplicity n sl0 = total_flops n (sl0 ++ slice_all xs) t /\
  (* largest intermediate *)
  cc_size c = list_max_opt (map (fun bt => node_size n (sl0 ++ slice_all xs) (fst bt) (snd bt)) (traverse_dfs t)) /\
  match cc_size c with Some s => s | None => 0 end = max_size n (sl0 ++ slice_all xs) t.
Proof.
  intros Hpos (Hrows & Hsp & HND & Dfl & Dmc & _) Htab Hnsl.
  assert (Em : c_nsl c * multiplicity n sl0 = multiplicity n (sl0 ++ slice_all xs))
    by (rewrite multiplicity_slice_all, Hnsl; ring).
  assert (Es : cc_size c = list_max_opt (map (fun bt => node_size n (sl0 ++ slice_all xs) (fst bt) (snd bt)) (traverse_dfs t))).
  { rewrite <- tree_rows_sizes, <- Htab. apply (is_max_opt_unique _ _ (map r_size (c_tab c))).
    - apply mc_inv_max, Dmc.
    - apply list_max_opt_spec. }
  split; [exact Em|]. split; [|split; [exact Es|]].
  - unfold cc_total_flops, total_flops. rewrite <- Em, Dfl, Htab, tree_rows_flops. ring.
  - rewrite Es. unfold max_size. symmetry. apply zmax_list_opt.
    intros x Hx. apply in_map_iff in Hx. destruct Hx as (bt & <- & _).
    unfold node_size. pose proof (size_of_pos (szd n) (lkeys (node_legs n (sl0 ++ slice_all xs) (fst bt) (snd bt))) Hpos). lia.
Qed.

(* an index that remove accepts is involved in some contraction of the current table *)
Lemma remove_some_involved x c c1 : Inv c -> remove x c = Some c1 ->
  exists r, In r (c_tab c) /\ In x (r_inv r).
Proof.
  intros (_ & _ & _ & _ & _ & Dne & Dj) Hrem. unfold remove in Hrem.
  destruct (zd_get x (c_sd c)) as [d|] eqn:Ed; [|discriminate]. cbn [c_where set_nsl] in Hrem.
  destruct (wh_get x (c_where c)) as [is|] eqn:Ew; [|discriminate].
  assert (Hk : In x (zd_keys (c_sd c))) by (apply zd_get_in_keys; congruence).
  destruct (Dj x Hk) as (_ & _ & _ & Win). unfold wh_get0 in Win. rewrite Ew in Win.
  pose proof (Dne (x, is) (wh_get_in x _ is Ew)) as Hne. cbn in Hne.
  destruct is as [|i is]; [congruence|].
  destruct (proj1 (Win i) (or_introl eq_refl)) as (r & Hn & Hin).
  exists r. split; [apply (nth_error_In _ _ Hn)|exact Hin].
Qed.

Lemma remove_seq_app_inv a : forall b c c', remove_seq (a ++ b) c = Some c' ->
  exists ca, remove_seq a c = Some ca /\ remove_seq b ca = Some c'.
Proof.
  induction a as [|x a IH]; intros b c c' H; cbn [app remove_seq] in *.
  - exists c. split; [reflexivity|exact H].
  - destruct (remove x c) as [c1|]; [|discriminate]. apply IH, H.
Qed.

Lemma remove_seq_snoc a x c ca c' : remove_seq a c = Some ca -> remove x ca = Some c' ->
  remove_seq (a ++ [x]) c = Some c'.
Proof.
  revert c. induction a as [|y a IH]; intros c H1 H2; cbn [app remove_seq] in *.
  - injection H1 as ->. rewrite H2. reflexivity.
  - destruct (remove y c) as [c1|]; [|discriminate]. apply IH; assumption.
Qed.

(* removed indices do not occur in the tree's rows *)
Lemma sub_legs_not_removed n sl t j : In j (lkeys (sub_legs n sl t)) -> ~ In j (removed sl).
Proof.
  induction t as [k|l IHl r IHr]; cbn [sub_legs].
  - rewrite leaf_legs_filter_form. intros H. apply lkeys_filter_incl in H.
    apply (proj1 (legs_of_term_in _ _)) in H. unfold term_sl in H. apply filter_In in H. destruct H as [_ H].
    apply memb_false. destruct (memb j (removed sl)); [discriminate|reflexivity].
  - intros H. apply lkeys_filter_incl in H. apply legs_union2_in in H. destruct H; auto.
Qed.

Lemma tree_rows_not_removed n sl t r j : In r (tree_rows n sl t) -> In j (r_inv r) -> ~ In j (removed sl).
Proof.
  unfold tree_rows. intros Hr Hj. apply in_map_iff in Hr. destruct Hr as (bt & <- & _).
  unfold row_of in Hj. cbn [r_inv fst] in Hj. destruct (snd bt) as [k|l r']; cbn [involved] in Hj; [destruct Hj|].
  apply legs_union2_in in Hj. destruct Hj as [H|H]; apply (sub_legs_not_removed _ _ _ _ H).
Qed.

Theorem removed_never_again n sl0 t : tree_ok n sl0 t -> sd_pos (szd n) -> NoDup (zd_keys (szd n)) ->
  forall xs c, remove_seq xs (costs_of_tree n sl0 t) = Some c ->
  forall x, In x xs -> ~ In x (removed sl0).
Proof.
  intros Hok Hpos HND xs c Hseq x Hx.
  destruct (in_split _ _ Hx) as (a & b & ->).
  destruct (remove_seq_app_inv a (x :: b) _ c Hseq) as (ca & Ha & Hb). cbn [remove_seq] in Hb.
  destruct (remove x ca) as [c1|] eqn:Er; [|discriminate].
  destruct (costs_remove_eq_tree_remove n sl0 t Hok Hpos HND a ca Ha) as (T & I & _).
  destruct (remove_some_involved x ca c1 I Er) as (r & Hr & Hin). rewrite T in Hr.
  pose proof (tree_rows_not_removed n _ t r x Hr Hin) as Hn.
  intros Hx0. apply Hn. unfold removed. rewrite map_app, in_app_iff. left. exact Hx0.
Qed.

(* ================================================================== *)
(* Part 4: SliceFinder.trial / best / search, for every oracle           *)
Definition entry_ok (fd : finder) (e : list ix * costs) : Prop :=
  exists xs, remove_seq xs (f_cost0 fd) = Some (snd e) /\ (forall j, In j (fst e) <-> In j xs) /\
             (forall j, In j xs -> ~ In j (f_forbidden fd)).
Definition cache_ok (fd : finder) (ch : cache) : Prop := Forall (entry_ok fd) ch.
(* every accepted cost respects the overhead limit *)
Definition over_ok (fd : finder) (c : costs) : Prop := forall t, f_tover fd = Some t -> over_gt c t = false.

Lemma list_eqb_nat_eq (a b : list nat) : list_eqb Nat.eqb a b = true -> a = b.
Proof.
  revert b. induction a as [|x a IH]; intros [|y b]; cbn; try congruence.
  intros H. apply andb_true_iff in H. destruct H as [H1 H2]. apply Nat.eqb_eq in H1. f_equal; [exact H1|apply IH, H2].
Qed.

Lemma cache_get_in k ch c : cache_get k ch = Some c -> In (k, c) ch.
Proof.
  induction ch as [|[k' c'] ch IH]; cbn; [congruence|].
  destruct (list_eqb Nat.eqb k k') eqn:E.
  - intros [= ->]. apply list_eqb_nat_eq in E. subst. left; reflexivity.
  - intros H. right. apply IH, H.
Qed.

Lemma key_ins_in x k j : In j (key_ins x k) <-> j = x \/ In j k.
Proof.
  induction k as [|y k IH]; cbn [key_ins].
  - cbn. intuition.
  - destruct (Nat.ltb_spec x y) as [Hlt|Hge]; [cbn [In]; intuition|].
    destruct (Nat.eqb_spec x y) as [Heq|Hne].
    + subst. cbn [In]. split; [intros H; right; exact H|intros [->|H]; [left; reflexivity|exact H]].
    + cbn [In]. rewrite IH. intuition.
Qed.

Definition trial_post (fd : finder) (c : costs) : Prop :=
  opt_test (f_tsize fd) (size_le c) = true \/ opt_test (f_tslices fd) (slices_ge c) = true \/
  (f_tover fd <> None /\ over_ok fd c).

Lemma opt_test_false_over fd c : opt_test (f_tover fd) (over_gt c) = false -> over_ok fd c.
Proof. intros H t Ht. rewrite Ht in H. exact H. Qed.

Lemma trial_loop_spec fd : forall oracle ch key cost ch' k c,
  cache_ok fd ch -> entry_ok fd (key, cost) -> over_ok fd cost ->
  trial_loop fd oracle ch key cost = Ret (ch', (k, c)) ->
  cache_ok fd ch' /\ entry_ok fd (k, c) /\ over_ok fd c /\ trial_post fd c /\
  (exists suffix, ch' = ch ++ suffix).
Proof.
  induction oracle as [|ix rest IH]; intros ch key cost ch' k c Hch Hent Hov Hret; cbn [trial_loop] in Hret.
  - destruct (c_sd cost); discriminate.
  - destruct (c_sd cost) as [|kv0 sd0] eqn:Esd; [discriminate|]. rewrite <- Esd in Hret.
    destruct (zd_mem ix (c_sd cost)); cbn [negb] in Hret; [|discriminate].
    destruct (memb ix (f_forbidden fd)) eqn:Eforb; [discriminate|]. apply memb_false in Eforb.
    set (nkey := key_ins ix key) in *.
    assert (Hstep : forall nc, (cache_get nkey ch = Some nc \/ remove ix cost = Some nc) -> entry_ok fd (nkey, nc)).
    { intros nc [Hc|Hr].
      - apply cache_get_in in Hc. unfold cache_ok in Hch. rewrite Forall_forall in Hch. apply Hch, Hc.
      - destruct Hent as (xs & Hs & Hk & Hf). cbn [fst snd] in *. exists (xs ++ [ix]). cbn [fst snd]. split; [|split].
        + apply (remove_seq_snoc xs ix _ cost nc Hs Hr).
        + intros j. unfold nkey. rewrite key_ins_in, in_app_iff, Hk. cbn. intuition.
        + intros j Hj. apply in_app_iff in Hj. destruct Hj as [Hj|[<-|[]]]; [apply Hf, Hj|exact Eforb]. }
    destruct (cache_get nkey ch) as [nc|] eqn:Ec.
    + assert (Hnc : entry_ok fd (nkey, nc)) by (apply Hstep; left; reflexivity).
      destruct (opt_test (f_tover fd) (over_gt nc)) eqn:Eo.
      { injection Hret as <- <- <-. split; [exact Hch|]. split; [exact Hent|]. split; [exact Hov|].
        split; [|exists []; rewrite app_nil_r; reflexivity].
        right; right. split; [|exact Hov]. destruct (f_tover fd); [congruence|discriminate]. }
      apply opt_test_false_over in Eo.
      destruct (opt_test (f_tslices fd) (slices_ge nc)) eqn:Es.
      { injection Hret as <- <- <-. split; [exact Hch|]. split; [exact Hnc|]. split; [exact Eo|].
        split; [right; left; exact Es|exists []; rewrite app_nil_r; reflexivity]. }
      destruct (opt_test (f_tsize fd) (size_le nc)) eqn:Ez.
      { injection Hret as <- <- <-. split; [exact Hch|]. split; [exact Hnc|]. split; [exact Eo|].
        split; [left; exact Ez|exists []; rewrite app_nil_r; reflexivity]. }
      apply (IH ch nkey nc ch' k c Hch Hnc Eo Hret).
    + destruct (remove ix cost) as [nc|] eqn:Er; [|discriminate].
      assert (Hnc : entry_ok fd (nkey, nc)) by (apply Hstep; right; reflexivity).
      assert (Hch1 : cache_ok fd (ch ++ [(nkey, nc)])).
      { unfold cache_ok. apply Forall_app. split; [exact Hch|]. constructor; [exact Hnc|constructor]. }
      destruct (opt_test (f_tover fd) (over_gt nc)) eqn:Eo.
      { injection Hret as <- <- <-. split; [exact Hch1|]. split; [exact Hent|]. split; [exact Hov|].
        split; [|eexists; reflexivity].
        right; right. split; [|exact Hov]. destruct (f_tover fd); [congruence|discriminate]. }
      apply opt_test_false_over in Eo.
      destruct (opt_test (f_tslices fd) (slices_ge nc)) eqn:Es.
      { injection Hret as <- <- <-. split; [exact Hch1|]. split; [exact Hnc|]. split; [exact Eo|].
        split; [right; left; exact Es|eexists; reflexivity]. }
      destruct (opt_test (f_tsize fd) (size_le nc)) eqn:Ez.
      { injection Hret as <- <- <-. split; [exact Hch1|]. split; [exact Hnc|]. split; [exact Eo|].
        split; [left; exact Ez|eexists; reflexivity]. }
      destruct (IH _ nkey nc ch' k c Hch1 Hnc Eo Hret) as (A & B & C & D & (suf & E)).
      split; [exact A|]. split; [exact B|]. split; [exact C|]. split; [exact D|].
      exists ((nkey, nc) :: suf). rewrite E, <- app_assoc. reflexivity.
Qed.

(* what `trial` guarantees when it returns: either a target test holds on the
   returned cost, or it is the incoming cost that is already over the overhead limit *)
Definition trial_post0 (fd : finder) (k : list ix) (c : costs) : Prop :=
  trial_post fd c \/ (k = [] /\ opt_test (f_tover fd) (over_gt c) = true).

Theorem trial_spec fd oracle ch ch' k c : cache_ok fd ch ->
  trial fd oracle ch = Ret (ch', (k, c)) ->
  cache_ok fd ch' /\ entry_ok fd (k, c) /\ trial_post0 fd k c /\ (k <> [] -> over_ok fd c) /\
  (exists suffix, ch' = ch ++ suffix).
Proof.
  intros Hch Hret. unfold trial in Hret.
  destruct (cache_get [] ch) as [cost|] eqn:Ec; [|discriminate].
  assert (Hent : entry_ok fd ([], cost)).
  { apply cache_get_in in Ec. unfold cache_ok in Hch. rewrite Forall_forall in Hch. apply Hch, Ec. }
  destruct (already_satisfied fd cost) eqn:Ea.
  - injection Hret as <- <- <-. split; [exact Hch|]. split; [exact Hent|].
    split; [|split; [congruence|exists []; rewrite app_nil_r; reflexivity]].
    unfold already_satisfied in Ea. apply orb_true_iff in Ea. destruct Ea as [Ea|Ea]; [apply orb_true_iff in Ea; destruct Ea as [Ea|Ea]|].
    + left. left. exact Ea.
    + right. split; [reflexivity|exact Ea].
    + left. right. left. exact Ea.
  - unfold already_satisfied in Ea. apply orb_false_iff in Ea. destruct Ea as [Ea _].
    apply orb_false_iff in Ea. destruct Ea as [_ Ea]. apply opt_test_false_over in Ea.
    destruct (trial_loop_spec fd oracle ch [] cost ch' k c Hch Hent Ea Hret) as (A & B & C & D & E).
    split; [exact A|]. split; [exact B|]. split; [left; exact D|]. split; [intros _; exact C|exact E].
Qed.

(* termination: an oracle at least as long as the size dict never leaves trial stuck *)
Lemma remove_sd_length ix c nc : remove ix c = Some nc -> S (length (c_sd nc)) = length (c_sd c).
Proof.
  unfold remove. destruct (zd_get ix (c_sd c)) as [d|] eqn:Ed; [|discriminate]. cbn [c_where set_nsl].
  destruct (wh_get ix (c_where c)) as [is|]; [|discriminate]. intros [= <-].
  cbn [c_sd set_wred set_fred set_sd].
  assert (G : forall is c0, c_sd (fold_left (remove_at ix d) is c0) = c_sd c0).
  { induction is0 as [|i is0 IH]; intros c0; cbn [fold_left]; [reflexivity|]. rewrite IH.
    unfold remove_at. destruct (nth_error (c_tab c0) i); [|reflexivity].
    destruct (memb ix (r_legs r)); reflexivity. }
  rewrite G. cbn [c_sd set_where set_nsl]. apply zd_keys_del_length. apply zd_get_in_keys. congruence.
Qed.

(* ---- best ---- *)
Lemma zzz_lt_trans a b c : zzz_lt a b = true -> zzz_lt b c = true -> zzz_lt a c = true.
Proof. destruct a as [a1 [a2 a3]], b as [b1 [b2 b3]], c as [c1 [c2 c3]]. unfold zzz_lt. lia. Qed.
Lemma zzz_lt_asym a b : zzz_lt a b = true -> zzz_lt b a = false.
Proof. destruct a as [a1 [a2 a3]], b as [b1 [b2 b3]]. unfold zzz_lt. lia. Qed.

Lemma min_by_in {A} (key : A -> Z * (Z * Z)) l : forall cur, In (min_by key l cur) (cur :: l).
Proof.
  induction l as [|x l IH]; intros cur; cbn [min_by]; [left; reflexivity|].
  destruct (zzz_lt (key x) (key cur)).
  - right. apply IH.
  - destruct (IH cur) as [H|H]; [left; exact H|right; right; exact H].
Qed.

Lemma min_by_le_cur {A} (key : A -> Z * (Z * Z)) l : forall cur,
  zzz_lt (key cur) (key (min_by key l cur)) = false.
Proof.
  induction l as [|x l IH]; intros cur; cbn [min_by].
  - destruct (zzz_lt (key cur) (key cur)) eqn:E; [|reflexivity]. pose proof (zzz_lt_asym _ _ E). congruence.
  - destruct (zzz_lt (key x) (key cur)) eqn:E; [|apply IH].
    destruct (zzz_lt (key cur) (key (min_by key l x))) eqn:E2; [|reflexivity].
    pose proof (zzz_lt_trans _ _ _ E E2) as E3. rewrite IH in E3. discriminate.
Qed.

Lemma min_by_minimal {A} (key : A -> Z * (Z * Z)) l : forall cur x, In x (cur :: l) ->
  zzz_lt (key x) (key (min_by key l cur)) = false.
Proof.
  induction l as [|y l IH]; intros cur x Hx; cbn [min_by].
  - destruct Hx as [<-|[]]. apply (min_by_le_cur key [] cur).
  - destruct (zzz_lt (key y) (key cur)) eqn:E.
    + destruct Hx as [<-|Hx]; [|apply IH, Hx].
      destruct (zzz_lt (key cur) (key (min_by key l y))) eqn:E2; [|reflexivity].
      pose proof (zzz_lt_trans _ _ _ E E2) as E3. rewrite (min_by_le_cur key l y) in E3. discriminate.
    + destruct Hx as [<-|[<-|Hx]].
      * apply (IH cur cur). left; reflexivity.
      * destruct (zzz_lt (key y) (key (min_by key l cur))) eqn:E2; [|reflexivity].
        assert (E4 : zzz_lt (key cur) (key (min_by key l cur)) = false) by apply min_by_le_cur.
        (* y < m and not (y < cur) and not (cur < m): impossible only through totality; use the order facts *)
        destruct (key y) as [a1 [a2 a3]], (key cur) as [b1 [b2 b3]], (key (min_by key l cur)) as [c1 [c2 c3]].
        unfold zzz_lt in *. lia.
      * apply (IH cur x). right; exact Hx.
Qed.

(* the targets as propositions on a cost object: ALL specified targets *)
Definition targets_hold (fd : finder) (c : costs) : Prop :=
  (forall ts, f_tsize fd = Some ts -> size_le c ts = true) /\
  (forall t, f_tover fd = Some t -> over_gt c t = false) /\
  (forall tsl, f_tslices fd = Some tsl -> slices_ge c tsl = true).

Lemma valid_targets fd e : valid fd e = true -> targets_hold fd (snd e).
Proof.
  unfold valid. intros H. apply andb_true_iff in H. destruct H as [H H3]. apply andb_true_iff in H. destruct H as [H1 H2].
  repeat split.
  - intros ts E. rewrite E in H1. exact H1.
  - intros t E. rewrite E in H2. destruct (over_gt (snd e) t); [discriminate|reflexivity].
  - intros tsl E. rewrite E in H3. exact H3.
Qed.

Theorem best_spec fd ch e : best fd ch = Ret e ->
  In e ch /\ targets_hold fd (snd e) /\
  forall e', In e' ch -> valid fd e' = true -> zzz_lt (best_scorer fd e') (best_scorer fd e) = false.
Proof.
  unfold best. destruct (filter (valid fd) ch) as [|e0 es] eqn:Ef; [discriminate|]. intros [= <-].
  pose proof (min_by_in (best_scorer fd) es e0) as Hin. rewrite <- Ef in Hin. apply filter_In in Hin.
  split; [apply Hin|]. split; [apply valid_targets, Hin|].
  intros e' He' Hv. apply min_by_minimal. rewrite <- Ef. apply filter_In. split; assumption.
Qed.

(* ---- search ---- *)
Lemma search_loop_spec fd : forall oracles ch ch' rs, cache_ok fd ch ->
  search_loop fd oracles ch = Ret (ch', rs) ->
  cache_ok fd ch' /\ Forall (fun r => entry_ok fd r /\ trial_post0 fd (fst r) (snd r)) rs.
Proof.
  induction oracles as [|o os IH]; intros ch ch' rs Hch H; cbn [search_loop] in H.
  - injection H as <- <-. split; [exact Hch|constructor].
  - destruct (trial fd o ch) as [[ch1 [k c]]| |] eqn:Et; try discriminate.
    destruct (trial_spec fd o ch ch1 k c Hch Et) as (A & B & C & _).
    destruct (search_loop fd os ch1) as [[ch2 rs2]| |] eqn:Es; try discriminate.
    injection H as <- <-. destruct (IH ch1 ch2 rs2 A Es) as (A2 & F2).
    split; [exact A2|]. constructor; [split; assumption|exact F2].
Qed.

Lemma cache0_ok fd : cache_ok fd (cache0 fd).
Proof.
  unfold cache_ok, cache0. constructor; [|constructor]. exists []. cbn. repeat split; tauto.
Qed.

(* whatever `search` returns is a slicing reached by removals from the incoming
   cost object, avoids every forbidden index, and satisfies ALL requested targets *)
Theorem search_spec fd oracles k c : search fd oracles = Ret (k, c) ->
  entry_ok fd (k, c) /\ targets_hold fd c.
Proof.
  unfold search. destruct (search_loop fd oracles (cache0 fd)) as [[ch rs]| |] eqn:Es; try discriminate.
  intros Hb. destruct (search_loop_spec fd oracles _ ch rs (cache0_ok fd) Es) as (Hch & _).
  destruct (best_spec fd ch (k, c) Hb) as (Hin & Ht & _).
  split; [|exact Ht]. unfold cache_ok in Hch. rewrite Forall_forall in Hch. apply Hch, Hin.
Qed.

(* ---- the forbidden sets ---- *)
Lemma forbidden_false j outp sd : In j outp -> In j (forbidden_of AoFalse outp sd).
Proof. intros H. exact H. Qed.
Lemma forbidden_only j outp sd : In j (zd_keys sd) -> ~ In j outp -> In j (forbidden_of AoOnly outp sd).
Proof.
  intros Hk Ho. unfold forbidden_of. apply filter_In. split; [exact Hk|].
  apply memb_false in Ho. rewrite Ho. reflexivity.
Qed.

(* ---- C07 end to end, on the model: SliceFinder(tree).search() ---- *)
Theorem search_prediction_real n sl0 t ao ts tov tsl oracles k c :
  tree_ok n sl0 t -> sd_pos (szd n) -> NoDup (zd_keys (szd n)) ->
  search (finder_of_tree n sl0 t ao ts tov tsl) oracles = Ret (k, c) ->
  exists xs, (forall j, In j k <-> In j xs) /\ NoDup xs /\
    let sl := sl0 ++ slice_all xs in
    (* the prediction is real *)
    c_nsl c * multiplicity n sl0 = multiplicity n sl /\
    cc_total_flops c * multiplicity n sl0 = total_flops n sl t /\
    match cc_size c with Some s => s | None => 0 end = max_size n sl t /\
    c_orig c = sum_flops n sl0 t /\
    (* the targets hold on it *)
    targets_hold (finder_of_tree n sl0 t ao ts tov tsl) c /\
    (* forbidden indices are never chosen *)
    (forall j, In j xs -> ~ In j (removed sl0) /\ In j (zd_keys (szd n)) /\
       (ao = AoFalse -> ~ In j (output n)) /\ (ao = AoOnly -> In j (output n))).
Proof.
  intros Hok Hpos HND Hs.
  destruct (search_spec _ oracles k c Hs) as ((xs & Hseq & Hk & Hforb) & Ht).
  cbn [fst snd f_cost0 finder_of_tree f_forbidden] in *.
  destruct (costs_remove_eq_tree_remove n sl0 t Hok Hpos HND xs c Hseq) as (T & I & N & O & R & ND & Hkeys).
  destruct (prediction_is_real n sl0 t xs c (fun j => sd_pos_zget _ j Hpos) I T N) as (P1 & P2 & _ & P4).
  exists xs. split; [exact Hk|]. split; [exact ND|]. cbn zeta.
  split; [exact P1|]. split; [exact P2|]. split; [exact P4|]. split; [exact O|]. split; [exact Ht|].
  intros j Hj. split; [apply (removed_never_again n sl0 t Hok Hpos HND xs c Hseq j Hj)|].
  split; [apply Hkeys, Hj|].
  assert (Esd : c_sd (costs_of_tree n sl0 t) = szd n).
  { apply (cc_init_inv (tree_rows n sl0 t) (szd n) (tree_rows_ok n sl0 t Hok) Hpos HND). }
  split.
  - intros -> Ho. apply (Hforb j Hj). apply forbidden_false, Ho.
  - intros ->. destruct (in_dec Nat.eq_dec j (output n)) as [Hin|Hnin]; [exact Hin|].
    exfalso. apply (Hforb j Hj). apply forbidden_only; [rewrite Esd; apply Hkeys, Hj|exact Hnin].
Qed.

(* ---- corollaries in the form used by Props/C07.v ---- *)
Theorem reductions_are_definitional n sl0 t : tree_ok n sl0 t -> sd_pos (szd n) -> NoDup (zd_keys (szd n)) ->
  forall xs c, remove_seq xs (costs_of_tree n sl0 t) = Some c ->
  let tab := tree_rows n (sl0 ++ slice_all xs) t in
  c_flops c = sum_flops n (sl0 ++ slice_all xs) t /\
  forall j, In j (zd_keys (c_sd c)) ->
    zd_get0 j (c_fred c) = fred_def (c_sd c) tab j /\
    zd_get0 j (c_wred c) = wred_def (c_sd c) tab j /\
    (forall i, In i (wh_get0 j (c_where c)) <-> involves tab j i) /\
    zget j (c_sd c) = zget j (szd n).
Proof.
  intros Hok Hpos HND xs c Hseq. cbn zeta.
  destruct (costs_remove_eq_tree_remove n sl0 t Hok Hpos HND xs c Hseq) as (T & (_ & _ & _ & Dfl & _ & _ & Dj) & _ & _ & R & _).
  rewrite T in *. split; [rewrite Dfl; apply tree_rows_flops|].
  intros j Hj. destruct (Dj j Hj) as (E1 & E2 & _ & E4).
  split; [exact E1|]. split; [exact E2|]. split; [exact E4|].
  apply zd_get_in_keys in Hj. specialize (R j). destruct (memb j xs); [congruence|].
  destruct (zd_get j (c_sd c)) as [v|] eqn:E; [|congruence].
  rewrite (zd_get_zget j _ v E). symmetry. apply zd_get_zget. congruence.
Qed.

Theorem trial_avoids_forbidden fd oracle ch ch' k c : cache_ok fd ch ->
  trial fd oracle ch = Ret (ch', (k, c)) ->
  (forall j, In j k -> ~ In j (f_forbidden fd)) /\
  (forall e, In e ch' -> forall j, In j (fst e) -> ~ In j (f_forbidden fd)).
Proof.
  intros Hch Hret. destruct (trial_spec fd oracle ch ch' k c Hch Hret) as (A & (xs & _ & Hk & Hf) & _).
  cbn [fst] in Hk. split; [intros j Hj; apply Hf, Hk, Hj|].
  intros e He j Hj. unfold cache_ok in A. rewrite Forall_forall in A.
  destruct (A e He) as (ys & _ & Hk2 & Hf2). apply Hf2, Hk2, Hj.
Qed.

Theorem trial_meets_target fd oracle ch ch' k c : cache_ok fd ch ->
  trial fd oracle ch = Ret (ch', (k, c)) ->
  trial_post0 fd k c /\ (k <> [] -> over_ok fd c).
Proof.
  intros Hch Hret. destruct (trial_spec fd oracle ch ch' k c Hch Hret) as (_ & _ & C & D & _). split; assumption.
Qed.

(* ---- the hypotheses of the theorems, as a verified boolean check ---- *)
Lemma nodup_b_sound l : nodup_b l = true -> NoDup l.
Proof.
  induction l as [|x l IH]; cbn; intros H; [constructor|].
  apply andb_true_iff in H. destruct H as [H1 H2]. constructor; [|apply IH, H2].
  apply memb_false. destruct (memb x l); [discriminate|reflexivity].
Qed.

Theorem hyps_b_sound n sl t : hyps_b n sl t = true ->
  tree_ok n sl t /\ sd_pos (szd n) /\ NoDup (zd_keys (szd n)).
Proof.
  unfold hyps_b. intros H. apply andb_true_iff in H. destruct H as [H H4].
  apply andb_true_iff in H. destruct H as [H H3]. apply andb_true_iff in H. destruct H as [H1 H2].
  split; [|split].
  - apply tree_ok_from_root; [apply nodup_b_sound, H1|].
    intros j Hj. rewrite forallb_forall in H2. apply memb_In, H2, Hj.
  - intros kv Hkv. rewrite forallb_forall in H3. specialize (H3 kv Hkv). lia.
  - apply nodup_b_sound, H4.
Qed.

(* ================================================================== *)
(* Part 5: termination of SliceFinder.trial                              *)
Lemma remove_seq_inv : forall xs c c', Inv c -> remove_seq xs c = Some c' ->
  Inv c' /\ NoDup xs /\ (forall y, In y xs -> zd_get y (c_sd c) <> None) /\
  (forall j, zd_get j (c_sd c') = if memb j xs then None else zd_get j (c_sd c)) /\
  (length (c_sd c') + length xs = length (c_sd c))%nat.
Proof.
  induction xs as [|x xs IH]; intros c c' Hinv Hseq; cbn [remove_seq] in Hseq.
  - injection Hseq as <-. split; [exact Hinv|]. split; [constructor|]. split; [intros y []|].
    split; [intros j; reflexivity|cbn; lia].
  - destruct (remove x c) as [c1|] eqn:Er; [|discriminate].
    destruct (remove_spec x c c1 Hinv Er) as (Ed & _ & S1 & _ & _ & I1). cbn zeta in Ed.
    destruct (IH c1 c' I1 Hseq) as (I' & ND & Hkeys & R & Len).
    assert (HND : NoDup (zd_keys (c_sd c))) by apply Hinv.
    assert (Hx : ~ In x xs).
    { intros Hin. apply (Hkeys x Hin). rewrite S1. apply zd_get_del_same, HND. }
    split; [exact I'|]. split; [constructor; assumption|]. split; [|split].
    + intros y [<-|Hy]; [congruence|]. specialize (Hkeys y Hy). rewrite S1 in Hkeys.
      destruct (Nat.eq_dec y x) as [->|Hne]; [contradiction|]. rewrite zd_get_del_other in Hkeys by exact Hne. exact Hkeys.
    + intros j. rewrite R, S1, memb_cons. destruct (Nat.eqb_spec j x) as [->|Hne]; cbn [orb].
      * destruct (memb x xs); [reflexivity|]. apply zd_get_del_same, HND.
      * rewrite zd_get_del_other by exact Hne. reflexivity.
    + pose proof (remove_sd_length x c c1 Er). cbn [length]. lia.
Qed.

Lemma zd_mem_get j d : zd_mem j d = true <-> zd_get j d <> None.
Proof. unfold zd_mem. destruct (zd_get j d); split; congruence. Qed.

(* a slicing with one more index has a strictly smaller size_dict *)
Lemma entry_measure fd key cost x nc : Inv (f_cost0 fd) ->
  entry_ok fd (key, cost) -> entry_ok fd (key_ins x key, nc) -> zd_mem x (c_sd cost) = true ->
  (length (c_sd nc) < length (c_sd cost))%nat.
Proof.
  intros Hinv (xs & Hs & Hk & _) (xs' & Hs' & Hk' & _) Hx. cbn [fst snd] in *.
  destruct (remove_seq_inv xs _ cost Hinv Hs) as (_ & ND & _ & R & Len).
  destruct (remove_seq_inv xs' _ nc Hinv Hs') as (_ & ND' & _ & _ & Len').
  assert (Hnx : ~ In x xs).
  { apply memb_false. apply zd_mem_get in Hx. specialize (R x). destruct (memb x xs); [congruence|reflexivity]. }
  assert (HP : Permutation xs' (x :: xs)).
  { apply NoDup_Permutation; [exact ND'|constructor; assumption|].
    intros j. rewrite <- Hk', key_ins_in, Hk. cbn. intuition. }
  apply Permutation_length in HP. cbn [length] in HP. lia.
Qed.

Lemma trial_loop_unfold fd x rest ch key cost :
  trial_loop fd (x :: rest) ch key cost =
  match c_sd cost with
  | [] => Raise E_MAX_EMPTY
  | _ => match trial_step fd x ch key cost with
         | SRet r => Ret r
         | SRaise k => Raise k
         | SCont ch' k' c' => trial_loop fd rest ch' k' c'
         end
  end.
Proof.
  cbn [trial_loop]. unfold trial_step. destruct (c_sd cost) as [|kv sd]; [reflexivity|].
  destruct (negb (zd_mem x (kv :: sd))); [reflexivity|].
  destruct (memb x (f_forbidden fd)); [reflexivity|]. cbn zeta.
  destruct (cache_get (key_ins x key) ch) as [nc|].
  - destruct (opt_test (f_tover fd) (over_gt nc)); [reflexivity|].
    destruct (opt_test (f_tslices fd) (slices_ge nc)); [reflexivity|].
    destruct (opt_test (f_tsize fd) (size_le nc)); reflexivity.
  - destruct (remove x cost) as [nc|]; [|reflexivity].
    destruct (opt_test (f_tover fd) (over_gt nc)); [reflexivity|].
    destruct (opt_test (f_tslices fd) (slices_ge nc)); [reflexivity|].
    destruct (opt_test (f_tsize fd) (size_le nc)); reflexivity.
Qed.

(* the list-oracle loop is the choice-function loop for the positional choice function *)
Lemma trial_loop_is_g fd choose : forall l step ch key cost,
  (forall i k c, (i < length l)%nat -> choose (step + i)%nat k c = nth i l 0%nat) ->
  trial_loop fd l ch key cost = trial_loop_g fd choose (length l) step ch key cost.
Proof.
  induction l as [|x l IH]; intros step ch key cost Hc.
  - cbn. destruct (c_sd cost); reflexivity.
  - rewrite trial_loop_unfold. cbn [length trial_loop_g].
    destruct (c_sd cost) as [|kv sd]; [reflexivity|].
    assert (E0 : choose step key cost = x).
    { pose proof (Hc 0%nat key cost) as H0. rewrite Nat.add_0_r in H0. apply H0. cbn; lia. }
    rewrite E0.
    destruct (trial_step fd x ch key cost) as [r|k|ch' k' c']; try reflexivity.
    apply IH. intros i k c Hi. replace (S step + i)%nat with (step + S i)%nat by lia.
    rewrite Hc by (cbn; lia). reflexivity.
Qed.

Lemma trial_is_g fd l ch :
  trial fd l ch = trial_g fd (fun i _ _ => nth i l 0%nat) (length l) ch.
Proof.
  unfold trial, trial_g. destruct (cache_get [] ch) as [cost|]; [|reflexivity].
  destruct (already_satisfied fd cost); [reflexivity|].
  apply trial_loop_is_g. intros i k c _. reflexivity.
Qed.

Lemma trial_step_cont fd x ch key cost ch' k' c' : Inv (f_cost0 fd) ->
  cache_ok fd ch -> entry_ok fd (key, cost) ->
  trial_step fd x ch key cost = SCont ch' k' c' ->
  cache_ok fd ch' /\ entry_ok fd (k', c') /\ (length (c_sd c') < length (c_sd cost))%nat.
Proof.
  intros Hinv Hch Hent. unfold trial_step.
  destruct (zd_mem x (c_sd cost)) eqn:Em; cbn [negb]; [|discriminate].
  destruct (memb x (f_forbidden fd)) eqn:Eforb; [discriminate|]. apply memb_false in Eforb. cbn zeta.
  assert (Hstep : forall nc, (cache_get (key_ins x key) ch = Some nc \/ remove x cost = Some nc) ->
                             entry_ok fd (key_ins x key, nc)).
  { intros nc [Hc|Hr].
    - apply cache_get_in in Hc. unfold cache_ok in Hch. rewrite Forall_forall in Hch. apply Hch, Hc.
    - destruct Hent as (xs & Hs & Hk & Hf). cbn [fst snd] in *. exists (xs ++ [x]). cbn [fst snd]. split; [|split].
      + apply (remove_seq_snoc xs x _ cost nc Hs Hr).
      + intros j. rewrite key_ins_in, in_app_iff, Hk. cbn. intuition.
      + intros j Hj. apply in_app_iff in Hj. destruct Hj as [Hj|[<-|[]]]; [apply Hf, Hj|exact Eforb]. }
  destruct (cache_get (key_ins x key) ch) as [nc|] eqn:Ec.
  - destruct (opt_test (f_tover fd) (over_gt nc)); [discriminate|].
    destruct (opt_test (f_tslices fd) (slices_ge nc)); [discriminate|].
    destruct (opt_test (f_tsize fd) (size_le nc)); [discriminate|].
    intros [= <- <- <-]. assert (Hnc := Hstep nc (or_introl eq_refl)).
    split; [exact Hch|]. split; [exact Hnc|]. apply (entry_measure fd key cost x nc Hinv Hent Hnc Em).
  - destruct (remove x cost) as [nc|] eqn:Er; [|discriminate].
    destruct (opt_test (f_tover fd) (over_gt nc)); [discriminate|].
    destruct (opt_test (f_tslices fd) (slices_ge nc)); [discriminate|].
    destruct (opt_test (f_tsize fd) (size_le nc)); [discriminate|].
    intros [= <- <- <-]. assert (Hnc := Hstep nc (or_intror eq_refl)).
    split; [|split; [exact Hnc|apply (entry_measure fd key cost x nc Hinv Hent Hnc Em)]].
    unfold cache_ok. apply Forall_app. split; [exact Hch|]. constructor; [exact Hnc|constructor].
Qed.

Lemma trial_step_raise_oracle fd x ch key cost :
  trial_step fd x ch key cost = SRaise E_ORACLE -> zd_mem x (c_sd cost) = false.
Proof.
  unfold trial_step. destruct (zd_mem x (c_sd cost)); cbn [negb]; [|reflexivity].
  destruct (memb x (f_forbidden fd)); [discriminate|]. cbn zeta.
  destruct (cache_get (key_ins x key) ch) as [nc|]; [|destruct (remove x cost) as [nc|]; [|discriminate]];
    destruct (opt_test (f_tover fd) (over_gt nc)); try discriminate;
    destruct (opt_test (f_tslices fd) (slices_ge nc)); try discriminate;
    destruct (opt_test (f_tsize fd) (size_le nc)); discriminate.
Qed.

(* what `max(cost.size_dict, key=...)` guarantees: the pick is a key of the dict *)
Definition picks_candidates (choose : nat -> list ix -> costs -> ix) : Prop :=
  forall i k c, c_sd c <> [] -> zd_mem (choose i k c) (c_sd c) = true.

Theorem trial_loop_g_terminates fd choose : Inv (f_cost0 fd) ->
  forall fuel step ch key cost, cache_ok fd ch -> entry_ok fd (key, cost) ->
  (length (c_sd cost) <= fuel)%nat ->
  trial_loop_g fd choose fuel step ch key cost <> Stuck /\
  (picks_candidates choose -> trial_loop_g fd choose fuel step ch key cost <> Raise E_ORACLE).
Proof.
  intros Hinv. induction fuel as [|fuel IH]; intros step ch key cost Hch Hent Hlen; cbn [trial_loop_g].
  - destruct (c_sd cost); [split; [|intros _]; discriminate|cbn in Hlen; lia].
  - destruct (c_sd cost) as [|kv sd] eqn:Esd; [split; [|intros _]; discriminate|]. rewrite <- Esd in *.
    destruct (trial_step fd (choose step key cost) ch key cost) as [r|k|ch' k' c'] eqn:Et.
    + split; [|intros _]; discriminate.
    + split; [discriminate|]. intros Hgood Hk. injection Hk as ->.
      apply trial_step_raise_oracle in Et. rewrite Hgood in Et; [discriminate|]. rewrite Esd. discriminate.
    + destruct (trial_step_cont fd _ ch key cost ch' k' c' Hinv Hch Hent Et) as (A & B & C).
      apply IH; [exact A|exact B|lia].
Qed.

Lemma entry_sd_length fd k c : Inv (f_cost0 fd) -> entry_ok fd (k, c) ->
  (length (c_sd c) <= length (c_sd (f_cost0 fd)))%nat.
Proof.
  intros Hinv (xs & Hs & _). cbn [snd] in Hs.
  destruct (remove_seq_inv xs _ c Hinv Hs) as (_ & _ & _ & _ & Len). lia.
Qed.

(* SliceFinder.trial returns or raises within |size_dict| iterations of the loop body
   (the next evaluation of max() would find an empty dict and raise ValueError) *)
Theorem trial_g_terminates fd choose fuel ch : Inv (f_cost0 fd) -> cache_ok fd ch ->
  (length (c_sd (f_cost0 fd)) <= fuel)%nat ->
  trial_g fd choose fuel ch <> Stuck /\
  (picks_candidates choose -> trial_g fd choose fuel ch <> Raise E_ORACLE).
Proof.
  intros Hinv Hch Hfuel. unfold trial_g.
  destruct (cache_get [] ch) as [cost|] eqn:Ec; [|split; [|intros _]; discriminate].
  destruct (already_satisfied fd cost); [split; [|intros _]; discriminate|].
  assert (Hent : entry_ok fd ([], cost)).
  { apply cache_get_in in Ec. unfold cache_ok in Hch. rewrite Forall_forall in Hch. apply Hch, Ec. }
  apply trial_loop_g_terminates; [exact Hinv|exact Hch|exact Hent|].
  pose proof (entry_sd_length fd [] cost Hinv Hent). lia.
Qed.

(* list oracles: one that is at least as long as the size dict never runs out *)
Corollary trial_never_stuck fd oracle ch : Inv (f_cost0 fd) -> cache_ok fd ch ->
  (length (c_sd (f_cost0 fd)) <= length oracle)%nat -> trial fd oracle ch <> Stuck.
Proof.
  intros Hinv Hch Hlen. rewrite trial_is_g. apply trial_g_terminates; assumption.
Qed.

Lemma finder_of_tree_inv n sl0 t ao ts tov tsl :
  tree_ok n sl0 t -> sd_pos (szd n) -> NoDup (zd_keys (szd n)) ->
  Inv (f_cost0 (finder_of_tree n sl0 t ao ts tov tsl)) /\
  c_sd (f_cost0 (finder_of_tree n sl0 t ao ts tov tsl)) = szd n.
Proof.
  intros Hok Hpos HND. cbn [f_cost0 finder_of_tree].
  destruct (cc_init_inv (tree_rows n sl0 t) (szd n) (tree_rows_ok n sl0 t Hok) Hpos HND) as (I0 & _ & S0 & _).
  split; assumption.
Qed.

Theorem trial_terminates_tree n sl0 t ao ts tov tsl choose ch :
  tree_ok n sl0 t -> sd_pos (szd n) -> NoDup (zd_keys (szd n)) ->
  let fd := finder_of_tree n sl0 t ao ts tov tsl in
  cache_ok fd ch ->
  trial_g fd choose (length (szd n)) ch <> Stuck /\
  (picks_candidates choose -> trial_g fd choose (length (szd n)) ch <> Raise E_ORACLE).
Proof.
  intros Hok Hpos HND fd Hch.
  destruct (finder_of_tree_inv n sl0 t ao ts tov tsl Hok Hpos HND) as (I0 & S0).
  apply trial_g_terminates; [exact I0|exact Hch|]. unfold fd. rewrite S0. lia.
Qed.

Definition first_key_choice : nat -> list ix -> costs -> ix :=
  fun _ _ c => match c_sd c with (k, _) :: _ => k | [] => 0%nat end.
Lemma first_key_picks_candidates : picks_candidates first_key_choice.
Proof.
  intros i k c Hne. unfold first_key_choice. destruct (c_sd c) as [|[j v] sd]; [contradiction|].
  unfold zd_mem. cbn. rewrite Nat.eqb_refl. reflexivity.
Qed.

(* ================================================================== *)
(* Part 6: soundness of the executable cross-check scratch_b             *)
Lemma list_eqb_sound {A} (e : A -> A -> bool) : (forall x y, e x y = true -> x = y) ->
  forall l1 l2, list_eqb e l1 l2 = true -> l1 = l2.
Proof.
  intros He. induction l1 as [|x l1 IH]; intros [|y l2]; cbn; try congruence.
  intros H. apply andb_true_iff in H. destruct H as [H1 H2]. f_equal; [apply He, H1|apply IH, H2].
Qed.

Lemma eqb_row_sound (r1 r2 : row) : eqb r1 r2 = true -> r1 = r2.
Proof.
  destruct r1 as [i1 [l1 [s1 f1]]], r2 as [i2 [l2 [s2 f2]]].
  cbv [eqb Eqb_prod Eqb_list Eqb_nat Eqb_Z fst snd]. intros H.
  apply andb_true_iff in H. destruct H as [H1 H]. apply andb_true_iff in H. destruct H as [H2 H].
  apply andb_true_iff in H. destruct H as [H3 H4].
  apply (list_eqb_sound Nat.eqb (fun x y => proj1 (Nat.eqb_eq x y))) in H1.
  apply (list_eqb_sound Nat.eqb (fun x y => proj1 (Nat.eqb_eq x y))) in H2.
  apply Z.eqb_eq in H3. apply Z.eqb_eq in H4. subst. reflexivity.
Qed.

Lemma eqb_rows_sound (l1 l2 : list row) : eqb l1 l2 = true -> l1 = l2.
Proof. apply (list_eqb_sound _ eqb_row_sound). Qed.

Lemma eqb_optZ_sound (a b : option Z) : eqb a b = true -> a = b.
Proof.
  destruct a as [a|], b as [b|]; cbv [eqb Eqb_option Eqb_Z]; try congruence.
  intros H. apply Z.eqb_eq in H. congruence.
Qed.

(* what a successful scratch_b guarantees for a cache entry (key xs, cost c): the table is
   the tree's table for sl0 ++ xs, the three predictions are the tree's figures, and the
   reductions are their definitions.  (It also compares size_dict and _where as sorted
   lists; nothing is claimed from those two comparisons.) *)
Theorem scratch_b_sound n sl0 t xs c : (forall j, 0 < zget j (szd n)) ->
  scratch_b n sl0 t (xs, c) = true ->
  let sl := sl0 ++ slice_all xs in
  c_tab c = tree_rows n sl t /\
  c_nsl c * multiplicity n sl0 = multiplicity n sl /\
  cc_total_flops c * multiplicity n sl0 = total_flops n sl t /\
  match cc_size c with Some s => s | None => 0 end = max_size n sl t /\
  c_orig c = sum_flops n sl0 t /\
  forall j, In j (zd_keys (c_sd c)) ->
    zd_get0 j (c_fred c) = fred_def (c_sd c) (tree_rows n sl t) j /\
    zd_get0 j (c_wred c) = wred_def (c_sd c) (tree_rows n sl t) j.
Proof.
  intros Hpos H. cbn zeta. unfold scratch_b in H. cbn [fst snd] in H.
  repeat (apply andb_true_iff in H; let H' := fresh "B" in destruct H as [H H']).
  apply eqb_rows_sound in H. apply Z.eqb_eq in B4, B3, B2. apply eqb_optZ_sound in B1.
  assert (Em : c_nsl c * multiplicity n sl0 = multiplicity n (sl0 ++ slice_all xs))
    by (rewrite multiplicity_slice_all, B3; ring).
  split; [exact H|]. split; [exact Em|]. split; [|split; [|split; [exact B2|]]].
  - unfold cc_total_flops, total_flops. rewrite <- Em, B4. ring.
  - rewrite B1, tree_rows_sizes. unfold max_size. symmetry. apply zmax_list_opt.
    intros x Hx. apply in_map_iff in Hx. destruct Hx as (bt & <- & _).
    unfold node_size. pose proof (size_of_pos (szd n) (lkeys (node_legs n (sl0 ++ slice_all xs) (fst bt) (snd bt))) Hpos). lia.
  - intros j Hj. rewrite forallb_forall in B. specialize (B j Hj).
    apply andb_true_iff in B. destruct B as [B _]. apply andb_true_iff in B. destruct B as [E1 E2].
    apply Z.eqb_eq in E1, E2. split; assumption.
Qed.

(* ================================================================== *)
(* Part 7: the float comparison of the overhead agrees with the exact one *)
From Coq Require Import QArith.
Section FloatCompare.
(* float(a / b) for Python ints a, b (true division), as a rational *)
Variable fdiv : Z -> Z -> Q.
Definition P53 : positive := Z.to_pos FP.
Definition quot (a b : Z) : Q := (a # Z.to_pos b)%Q.
(* rounding to nearest is monotone: an exact quotient below a float stays below it *)
Hypothesis fdiv_below : forall a b (tf : Q), (1 <= b)%Z -> (quot a b <= tf)%Q -> (fdiv a b <= tf)%Q.
(* int / int is correctly rounded: relative error at most 2^-53 in the normal range *)
Hypothesis fdiv_err : forall a b, (1 <= a < FB)%Z -> (1 <= b < FB)%Z ->
  (quot a b * (1 - (1 # P53)) <= fdiv a b)%Q.

Lemma Zpos_P53 : Zpos P53 = FP.
Proof. reflexivity. Qed.

Theorem over_float_agrees c num den :
  over_safe_b c (num, den) = true ->
  let tf := quot num den in      (* the float target, exactly *)
  ((tf < fdiv (cc_total_flops c) (c_orig c))%Q <-> over_gt c (num, den) = true).
Proof.
  unfold over_safe_b, over_gt. cbn [fst snd]. intros H. cbn zeta.
  set (a := cc_total_flops c) in *. set (b := c_orig c) in *.
  repeat (apply andb_true_iff in H; let H' := fresh "B" in destruct H as [H H']).
  apply Z.leb_le in H, B2. apply Z.ltb_lt in B3, B1, B0.
  assert (Eb : Zpos (Z.to_pos b) = b) by (apply Z2Pos.id; lia).
  assert (Ed : Zpos (Z.to_pos den) = den) by (apply Z2Pos.id; lia).
  split.
  - intros Hlt. apply Z.ltb_lt. destruct (Z.lt_ge_cases (num * b) (a * den)) as [Hc|Hc]; [exact Hc|exfalso].
    assert (Hle : (quot a b <= quot num den)%Q).
    { unfold quot, Qle. cbn [Qnum Qden]. rewrite Eb, Ed. lia. }
    pose proof (fdiv_below a b (quot num den) B2 Hle) as Hf.
    apply (Qlt_irrefl (quot num den)). eapply Qlt_le_trans; [exact Hlt|exact Hf].
  - intros Hgt. apply Z.ltb_lt in Hgt.
    apply orb_true_iff in B. destruct B as [Bz|Bz]; [apply Z.leb_le in Bz; lia|]. apply Z.ltb_lt in Bz.
    eapply Qlt_le_trans; [|apply fdiv_err; lia].
    unfold quot, Qlt, Qmult, Qminus, Qplus, Qopp. cbn [Qnum Qden].
    rewrite !Pos2Z.inj_mul, Eb, Ed, Zpos_P53. nia.
Qed.
End FloatCompare.

(* ================================================================== *)
(* Part 8: search(...) with per-call target overrides, on a persisting cache *)
Local Open Scope Z_scope.
Lemma cache_ok_overrides fd ots otov otsl ch :
  cache_ok (with_overrides fd ots otov otsl) ch <-> cache_ok fd ch.
Proof. unfold cache_ok, entry_ok. cbn [with_overrides f_cost0 f_forbidden]. tauto. Qed.

(* the targets of the CALL: an argument that is given wins over the construction-time one *)
Definition call_targets_hold (fd : finder) (ots : option Z) (otov : option (Z * Z)) (otsl : option Z)
    (c : costs) : Prop :=
  (forall ts, maybe_default (f_tsize fd) ots = Some ts -> size_le c ts = true) /\
  (forall tv, maybe_default (f_tover fd) otov = Some tv -> over_gt c tv = false) /\
  (forall tsl, maybe_default (f_tslices fd) otsl = Some tsl -> slices_ge c tsl = true).

Theorem search_call_spec fd ots otov otsl oracles ch ch' k c : cache_ok fd ch ->
  search_call fd ots otov otsl oracles ch = Ret (ch', (k, c)) ->
  cache_ok fd ch' /\ entry_ok fd (k, c) /\ call_targets_hold fd ots otov otsl c /\
  (exists xs, remove_seq xs (f_cost0 fd) = Some c /\ (forall j, In j k <-> In j xs) /\
              forall j, In j xs -> ~ In j (f_forbidden fd)).
Proof.
  intros Hch. unfold search_call. set (fd' := with_overrides fd ots otov otsl).
  destruct (search_loop fd' oracles ch) as [[ch1 rs]| |] eqn:Es; try discriminate.
  destruct (best fd' ch1) as [e| |] eqn:Eb; try discriminate. intros [= -> ->].
  assert (Hch' : cache_ok fd' ch) by (apply cache_ok_overrides, Hch).
  destruct (search_loop_spec fd' oracles ch ch' rs Hch' Es) as (Hch1 & _).
  destruct (best_spec fd' ch' (k, c) Eb) as (Hin & Ht & _).
  assert (Hent : entry_ok fd' (k, c)) by (unfold cache_ok in Hch1; rewrite Forall_forall in Hch1; apply Hch1, Hin).
  split; [apply (cache_ok_overrides fd ots otov otsl), Hch1|]. split; [exact Hent|]. split; [exact Ht|exact Hent].
Qed.

(* C07 for a call with overrides on a tree finder, after any earlier calls (any cache_ok cache) *)
Theorem search_call_prediction_real n sl0 t ao ts tov tsl ots otov otsl oracles ch ch' k c :
  tree_ok n sl0 t -> sd_pos (szd n) -> NoDup (zd_keys (szd n)) ->
  let fd := finder_of_tree n sl0 t ao ts tov tsl in
  cache_ok fd ch ->
  search_call fd ots otov otsl oracles ch = Ret (ch', (k, c)) ->
  cache_ok fd ch' /\
  exists xs, (forall j, In j k <-> In j xs) /\ NoDup xs /\
    let sl := sl0 ++ slice_all xs in
    c_nsl c * multiplicity n sl0 = multiplicity n sl /\
    cc_total_flops c * multiplicity n sl0 = total_flops n sl t /\
    match cc_size c with Some s => s | None => 0 end = max_size n sl t /\
    c_orig c = sum_flops n sl0 t /\
    call_targets_hold fd ots otov otsl c /\
    (forall j, In j xs -> ~ In j (removed sl0) /\ In j (zd_keys (szd n)) /\
       (ao = AoFalse -> ~ In j (output n)) /\ (ao = AoOnly -> In j (output n))).
Proof.
  intros Hok Hpos HND fd Hch Hs.
  destruct (search_call_spec fd ots otov otsl oracles ch ch' k c Hch Hs) as (Hch' & _ & Ht & (xs & Hseq & Hk & Hforb)).
  split; [exact Hch'|].
  unfold fd in Hseq, Hforb. cbn [f_cost0 finder_of_tree f_forbidden] in Hseq, Hforb.
  destruct (costs_remove_eq_tree_remove n sl0 t Hok Hpos HND xs c Hseq) as (T & I & N & O & R & ND & Hkeys).
  destruct (prediction_is_real n sl0 t xs c (fun j => sd_pos_zget _ j Hpos) I T N) as (P1 & P2 & _ & P4).
  exists xs. split; [exact Hk|]. split; [exact ND|]. cbn zeta.
  split; [exact P1|]. split; [exact P2|]. split; [exact P4|]. split; [exact O|]. split; [exact Ht|].
  intros j Hj. split; [apply (removed_never_again n sl0 t Hok Hpos HND xs c Hseq j Hj)|].
  split; [apply Hkeys, Hj|].
  assert (Esd : c_sd (costs_of_tree n sl0 t) = szd n).
  { apply (cc_init_inv (tree_rows n sl0 t) (szd n) (tree_rows_ok n sl0 t Hok) Hpos HND). }
  split.
  - intros -> Ho. apply (Hforb j Hj). apply forbidden_false, Ho.
  - intros ->. destruct (in_dec Nat.eq_dec j (output n)) as [Hin|Hnin]; [exact Hin|].
    exfalso. apply (Hforb j Hj). apply forbidden_only; [rewrite Esd; apply Hkeys, Hj|exact Hnin].
Qed.

(* ================================================================== *)
(* Part 9: from_contraction_tree -- the contractions are exactly the N-1 internal nodes *)
Lemma init_row_tab c ir : c_tab (init_row c ir) = c_tab c.
Proof. destruct ir as [i r]. unfold init_row. rewrite init_ix_fold. reflexivity. Qed.

Lemma init_rows_tab l : forall c, c_tab (fold_left init_row l c) = c_tab c.
Proof. induction l as [|ir l IH]; intros c; cbn [fold_left]; [reflexivity|]. rewrite IH. apply init_row_tab. Qed.

Lemma cc_init_tab tab sd : c_tab (cc_init tab sd) = tab.
Proof. unfold cc_init. cbn [c_tab set_orig]. rewrite init_rows_tab. reflexivity. Qed.

Lemma nleaves_pos t : (1 <= nleaves t)%nat.
Proof. induction t; cbn; lia. Qed.

Lemma post_sub_length t : length (post_sub t) = (nleaves t - 1)%nat.
Proof.
  induction t as [k|l IHl r IHr]; cbn [post_sub nleaves]; [reflexivity|].
  rewrite !app_length, IHl, IHr. cbn [length]. pose proof (nleaves_pos l). pose proof (nleaves_pos r). lia.
Qed.

Lemma traverse_dfs_length t : length (traverse_dfs t) = (nleaves t - 1)%nat.
Proof.
  destruct t as [k|l r]; [reflexivity|]. rewrite <- (map_length snd), traverse_dfs_snd. apply post_sub_length.
Qed.

(* unconditionally: the table of ContractionCosts.from_contraction_tree holds one row per
   internal node of the tree (N-1 of them for N leaves), in dfs order, each the figures of a
   Node -- no row for a leaf (an input tensor) *)
Theorem contractions_are_internal_nodes n sl t :
  c_tab (costs_of_tree n sl t) = map (row_of n sl) (traverse_dfs t) /\
  length (c_tab (costs_of_tree n sl t)) = (nleaves t - 1)%nat /\
  forall bt, In bt (traverse_dfs t) -> exists l r, snd bt = Node l r.
Proof.
  unfold costs_of_tree. rewrite cc_init_tab. split; [reflexivity|]. split.
  - unfold tree_rows. rewrite map_length. apply traverse_dfs_length.
  - intros bt Hbt. apply (traverse_dfs_nodes t bt Hbt).
Qed.

(* SlicerFacts.v -- lemmas about Model/SlicerCosts.v (ContractionCosts, SliceFinder).
   Part 1: dictionaries, list replacement, MaxCounter.
   Part 2: ContractionCosts.__init__ and remove keep every derived field equal to its
           from-scratch definition, and remove acts on the table as `row_remove`.
   Part 3: the table of the tree sliced on one more index (Model/Net.v) is the
           `row_remove` image of the table before: the two cost models agree.
   Part 4: SliceFinder.trial / best / search for every oracle. *)
From Coq Require Import Lia Permutation ZifyBool.
From Ctg Require Import Base Net BaseFacts NetFacts SlicerCosts.
Local Open Scope Z_scope.

(* ================================================================== *)
(* Part 1a: dict ix -> Z                                               *)
Lemma zd_get_set_same j v d : zd_get j (zd_set j v d) = Some v.
Proof.
  induction d as [|[k w] d IH]; cbn.
  - rewrite Nat.eqb_refl. reflexivity.
  - destruct (Nat.eqb_spec k j) as [->|Hn]; cbn.
    + rewrite Nat.eqb_refl. reflexivity.
    + destruct (Nat.eqb_spec k j); [contradiction|exact IH].
Qed.

Lemma zd_get_set_other j i v d : i <> j -> zd_get i (zd_set j v d) = zd_get i d.
Proof.
  intros Hij. induction d as [|[k w] d IH]; cbn.
  - destruct (Nat.eqb_spec j i); [congruence|reflexivity].
  - destruct (Nat.eqb_spec k j) as [->|Hn]; cbn.
    + destruct (Nat.eqb_spec j i); [congruence|reflexivity].
    + destruct (Nat.eqb_spec k i); [reflexivity|exact IH].
Qed.

Lemma zd_get0_add j i v d :
  zd_get0 i (zd_add j v d) = zd_get0 i d + (if Nat.eqb i j then v else 0).
Proof.
  unfold zd_add. destruct (Nat.eqb_spec i j) as [->|H].
  - unfold zd_get0 at 1. rewrite zd_get_set_same. reflexivity.
  - unfold zd_get0 at 1. rewrite zd_get_set_other by exact H. fold (zd_get0 i d). lia.
Qed.

Lemma zd_get_del_other j i d : i <> j -> zd_get i (zd_del j d) = zd_get i d.
Proof.
  intros Hij. induction d as [|[k w] d IH]; cbn; [reflexivity|].
  destruct (Nat.eqb_spec k j) as [->|Hn]; cbn.
  - destruct (Nat.eqb_spec j i); [congruence|reflexivity].
  - destruct (Nat.eqb_spec k i); [reflexivity|exact IH].
Qed.

Lemma zd_get0_del_other j i d : i <> j -> zd_get0 i (zd_del j d) = zd_get0 i d.
Proof. intros H. unfold zd_get0. rewrite zd_get_del_other by exact H. reflexivity. Qed.

Lemma zd_get_in_keys j d : zd_get j d <> None <-> In j (zd_keys d).
Proof.
  unfold zd_keys. induction d as [|[k w] d IH]; cbn; [tauto|].
  destruct (Nat.eqb_spec k j) as [->|H].
  - split; [auto|congruence].
  - rewrite IH. split; [auto|intros [?|?]; [congruence|assumption]].
Qed.

Lemma zd_get_del_same j d : NoDup (zd_keys d) -> zd_get j (zd_del j d) = None.
Proof.
  unfold zd_keys. induction d as [|[k w] d IH]; cbn; intros ND; [reflexivity|].
  inversion ND as [|? ? Hn ND']; subst.
  destruct (Nat.eqb_spec k j) as [->|H]; cbn.
  - destruct (zd_get j d) eqn:E; [|reflexivity].
    exfalso. apply Hn. apply (proj1 (zd_get_in_keys j d)). congruence.
  - destruct (Nat.eqb_spec k j); [contradiction|]. apply IH, ND'.
Qed.

Lemma zd_keys_del_in j i d : In i (zd_keys (zd_del j d)) -> In i (zd_keys d).
Proof.
  unfold zd_keys. induction d as [|[k w] d IH]; cbn; [tauto|].
  destruct (Nat.eqb_spec k j); cbn; [auto|]. intros [?|?]; auto.
Qed.

Lemma zd_keys_del_nodup j d : NoDup (zd_keys d) -> NoDup (zd_keys (zd_del j d)).
Proof.
  unfold zd_keys. induction d as [|[k w] d IH]; cbn; intros ND; [constructor|].
  inversion ND as [|? ? Hn ND']; subst.
  destruct (Nat.eqb_spec k j); cbn; [exact ND'|].
  constructor; [|apply IH, ND']. intros H. apply Hn. apply (zd_keys_del_in j k d), H.
Qed.

Lemma zd_keys_del_length j d : In j (zd_keys d) -> S (length (zd_del j d)) = length d.
Proof.
  unfold zd_keys. induction d as [|[k w] d IH]; cbn; [tauto|].
  destruct (Nat.eqb_spec k j) as [->|H]; cbn; [reflexivity|].
  intros [?|Hin]; [contradiction|]. rewrite IH by exact Hin. reflexivity.
Qed.

Lemma zget_del_other j i d : i <> j -> zget i (zd_del j d) = zget i d.
Proof.
  intros Hij. induction d as [|[k w] d IH]; cbn; [reflexivity|].
  destruct (Nat.eqb_spec k j) as [->|Hn]; cbn.
  - destruct (Nat.eqb_spec j i); [congruence|reflexivity].
  - destruct (Nat.eqb_spec k i); [reflexivity|exact IH].
Qed.

Lemma zd_get_zget j d v : zd_get j d = Some v -> zget j d = v.
Proof.
  induction d as [|[k w] d IH]; cbn; [congruence|].
  destruct (Nat.eqb_spec k j); [congruence|exact IH].
Qed.

Lemma memb_cons j a l : memb j (a :: l) = Nat.eqb j a || memb j l.
Proof. reflexivity. Qed.

Lemma fold_zd_add_get (f : ix -> Z) l : forall fr j, NoDup l ->
  zd_get0 j (fold_left (fun fr o => zd_add o (f o) fr) l fr)
  = zd_get0 j fr + (if memb j l then f j else 0).
Proof.
  induction l as [|a l IH]; intros fr j ND; cbn [fold_left].
  - cbn. lia.
  - inversion ND as [|? ? Hn ND']; subst. rewrite IH by exact ND'.
    rewrite zd_get0_add, memb_cons.
    destruct (Nat.eqb_spec j a) as [->|H]; cbn [orb].
    + assert (E : memb a l = false) by (apply memb_false, Hn). rewrite E. lia.
    + destruct (memb j l); lia.
Qed.

(* ---- wdict ---- *)
Lemma wh_get_add_same j i d :
  wh_get j (wh_add j i d) = Some (let v := wh_get0 j d in if memb i v then v else v ++ [i]).
Proof.
  unfold wh_get0. induction d as [|[k w] d IH]; cbn.
  - rewrite Nat.eqb_refl. reflexivity.
  - destruct (Nat.eqb_spec k j) as [->|Hn]; cbn.
    + rewrite Nat.eqb_refl. reflexivity.
    + destruct (Nat.eqb_spec k j); [contradiction|exact IH].
Qed.

Lemma wh_get_add_other j j' i d : j' <> j -> wh_get j' (wh_add j i d) = wh_get j' d.
Proof.
  intros Hij. induction d as [|[k w] d IH]; cbn.
  - destruct (Nat.eqb_spec j j'); [congruence|reflexivity].
  - destruct (Nat.eqb_spec k j) as [->|Hn]; cbn.
    + destruct (Nat.eqb_spec j j'); [congruence|reflexivity].
    + destruct (Nat.eqb_spec k j'); [reflexivity|exact IH].
Qed.

Lemma wh_get_del_other j i d : i <> j -> wh_get i (wh_del j d) = wh_get i d.
Proof.
  intros Hij. induction d as [|[k w] d IH]; cbn; [reflexivity|].
  destruct (Nat.eqb_spec k j) as [->|Hn]; cbn.
  - destruct (Nat.eqb_spec j i); [congruence|reflexivity].
  - destruct (Nat.eqb_spec k i); [reflexivity|exact IH].
Qed.

(* ================================================================== *)
(* Part 1b: products of dimensions                                      *)
Lemma size_of_pos sd L : (forall j, 0 < zget j sd) -> 0 < size_of sd L.
Proof.
  intros Hp. induction L as [|a L IH]; [reflexivity|].
  rewrite size_of_cons. specialize (Hp a). nia.
Qed.

Lemma filter_neq_id x L : ~ In x L -> filter (fun j => negb (Nat.eqb j x)) L = L.
Proof.
  induction L as [|a L IH]; cbn; [reflexivity|]. intros H.
  destruct (Nat.eqb_spec a x) as [->|Hn]; cbn; [tauto|]. rewrite IH by tauto. reflexivity.
Qed.

Lemma filter_neq_in x j L : In j (filter (fun j => negb (Nat.eqb j x)) L) <-> In j L /\ j <> x.
Proof.
  rewrite filter_In. destruct (Nat.eqb_spec j x); cbn; intuition congruence.
Qed.

Lemma memb_filter_neq x j L : j <> x -> memb j (filter (fun j => negb (Nat.eqb j x)) L) = memb j L.
Proof.
  intros H. destruct (memb j L) eqn:E.
  - apply memb_In. apply filter_neq_in. split; [apply memb_In, E|exact H].
  - apply memb_false. intros Hin. apply filter_neq_in in Hin. apply memb_false in E. tauto.
Qed.

Lemma memb_filter_self x L : memb x (filter (fun j => negb (Nat.eqb j x)) L) = false.
Proof. apply memb_false. intros H. apply filter_neq_in in H. tauto. Qed.

Lemma size_of_split x sd L : NoDup L -> In x L ->
  size_of sd L = size_of sd (filter (fun j => negb (Nat.eqb j x)) L) * zget x sd.
Proof.
  intros ND Hin. rewrite (size_of_filter_out x sd L ND).
  assert (E : memb x L = true) by (apply memb_In, Hin). rewrite E. reflexivity.
Qed.

Lemma size_of_div x sd L : NoDup L -> In x L -> 0 < zget x sd ->
  size_of sd L / zget x sd = size_of sd (filter (fun j => negb (Nat.eqb j x)) L).
Proof.
  intros ND Hin Hp. rewrite (size_of_split x sd L ND Hin). apply Z.div_mul. lia.
Qed.

Lemma size_of_ext sd sd' L : (forall j, In j L -> zget j sd' = zget j sd) -> size_of sd' L = size_of sd L.
Proof.
  intros H. induction L as [|a L IH]; [reflexivity|].
  rewrite !size_of_cons, H by (left; reflexivity). rewrite IH; [reflexivity|].
  intros j Hj. apply H. right; exact Hj.
Qed.

Lemma size_of_del x sd L : ~ In x L -> size_of (zd_del x sd) L = size_of sd L.
Proof.
  intros H. apply size_of_ext. intros j Hj. apply zget_del_other. intros ->. contradiction.
Qed.

Lemma NoDup_filter_neq x (L : list ix) : NoDup L -> NoDup (filter (fun j => negb (Nat.eqb j x)) L).
Proof. apply NoDup_filter. Qed.

(* the arithmetic fact behind the incremental update of the reductions *)
Lemma red_div fl d dj m : 0 < d -> 0 < dj -> fl = m * dj * d ->
  (fl - fl / dj) / d = fl / d - (fl / d) / dj.
Proof.
  intros Hd Hdj ->.
  replace (m * dj * d) with ((m * d) * dj) at 2 by ring.
  rewrite (Z.div_mul (m * d) dj) by lia.
  rewrite (Z.div_mul (m * dj) d) by lia.
  rewrite (Z.div_mul m dj) by lia.
  replace (m * dj * d - m * d) with ((m * dj - m) * d) by ring.
  rewrite Z.div_mul by lia. reflexivity.
Qed.

(* two distinct members of a duplicate-free list: the product has both factors *)
Lemma size_of_two x j sd L : NoDup L -> In x L -> In j L -> j <> x ->
  exists m, size_of sd L = m * zget j sd * zget x sd.
Proof.
  intros ND Hx Hj Hne.
  rewrite (size_of_split x sd L ND Hx).
  set (L' := filter (fun j => negb (Nat.eqb j x)) L).
  assert (ND' : NoDup L') by (apply NoDup_filter, ND).
  assert (Hj' : In j L') by (apply filter_neq_in; tauto).
  rewrite (size_of_split j sd L' ND' Hj').
  eexists. reflexivity.
Qed.

(* ================================================================== *)
(* Part 1c: replacing one element of a list                             *)
Definition replace_at {A} (i : nat) (x : A) (l : list A) : list A := firstn i l ++ x :: skipn (S i) l.

Lemma replace_at_decomp {A} (l : list A) i a : nth_error l i = Some a ->
  exists l1 l2, l = l1 ++ a :: l2 /\ length l1 = i /\ forall x, replace_at i x l = l1 ++ x :: l2.
Proof.
  intros H. destruct (nth_error_split l i H) as (l1 & l2 & -> & Hl).
  exists l1, l2. split; [reflexivity|]. split; [exact Hl|]. intros x. unfold replace_at. subst i.
  rewrite firstn_app, Nat.sub_diag, firstn_all2 by lia. cbn [firstn]. rewrite app_nil_r.
  f_equal. f_equal.
  clear H. induction l1 as [|b l1 IH]; [reflexivity|]. cbn [length app skipn] in *. exact IH.
Qed.

Lemma replace_at_length {A} (l : list A) i a x : nth_error l i = Some a ->
  length (replace_at i x l) = length l.
Proof.
  intros H. destruct (replace_at_decomp l i a H) as (l1 & l2 & -> & _ & E). rewrite E, !app_length. reflexivity.
Qed.

Lemma nth_error_replace_at {A} (l : list A) i a x k : nth_error l i = Some a ->
  nth_error (replace_at i x l) k = if Nat.eqb k i then Some x else nth_error l k.
Proof.
  intros H. destruct (replace_at_decomp l i a H) as (l1 & l2 & -> & Hl & E). rewrite E. subst i.
  destruct (Nat.eqb_spec k (length l1)) as [->|Hne].
  - rewrite nth_error_app2, Nat.sub_diag by lia. reflexivity.
  - destruct (Nat.lt_ge_cases k (length l1)) as [Hlt|Hge].
    + rewrite !nth_error_app1 by exact Hlt. reflexivity.
    + rewrite !nth_error_app2 by exact Hge.
      destruct (k - length l1)%nat eqn:Ek; [lia|reflexivity].
Qed.

Lemma zsum_map_replace {A} (f : A -> Z) (l : list A) i a x : nth_error l i = Some a ->
  zsum (map f (replace_at i x l)) = zsum (map f l) - f a + f x.
Proof.
  intros H. destruct (replace_at_decomp l i a H) as (l1 & l2 & -> & _ & E). rewrite E.
  rewrite !map_app, !zsum_app. cbn [map]. rewrite !zsum_cons. lia.
Qed.

Lemma Forall_replace_at {A} (P : A -> Prop) (l : list A) i a x : nth_error l i = Some a ->
  Forall P l -> P x -> Forall P (replace_at i x l).
Proof.
  intros H HF Hx. destruct (replace_at_decomp l i a H) as (l1 & l2 & -> & _ & E). rewrite E.
  apply Forall_app in HF. destruct HF as [H1 H2]. inversion H2; subst.
  apply Forall_app. split; [exact H1|]. constructor; assumption.
Qed.

Lemma count_occ_map_replace {A} (f : A -> Z) (l : list A) i a x y : nth_error l i = Some a ->
  (count_occ Z.eq_dec (map f (replace_at i x l)) y + (if Z.eqb y (f a) then 1 else 0)
   = count_occ Z.eq_dec (map f l) y + (if Z.eqb y (f x) then 1 else 0))%nat.
Proof.
  intros H. destruct (replace_at_decomp l i a H) as (l1 & l2 & -> & _ & E). rewrite E.
  rewrite !map_app, !count_occ_app. cbn [map count_occ].
  destruct (Z.eq_dec (f x) y), (Z.eq_dec (f a) y), (Z.eqb_spec y (f a)), (Z.eqb_spec y (f x)); lia.
Qed.

Lemma nth_error_ext {A} (l1 l2 : list A) : (forall k, nth_error l1 k = nth_error l2 k) -> l1 = l2.
Proof.
  revert l2. induction l1 as [|a l1 IH]; intros [|b l2] H.
  - reflexivity.
  - specialize (H 0%nat). discriminate.
  - specialize (H 0%nat). discriminate.
  - f_equal.
    + specialize (H 0%nat). cbn in H. congruence.
    + apply IH. intros k. apply (H (S k)).
Qed.

(* ================================================================== *)
(* Part 1d: utils.MaxCounter                                            *)
Definition cn_keys (c : list (Z * nat)) : list Z := map fst c.

Lemma cn_get_set_same x v c : cn_get x (cn_set x v c) = v.
Proof.
  induction c as [|[k w] c IH]; cbn.
  - rewrite Z.eqb_refl. reflexivity.
  - destruct (Z.eqb_spec k x) as [->|Hn]; cbn.
    + rewrite Z.eqb_refl. reflexivity.
    + destruct (Z.eqb_spec k x); [contradiction|exact IH].
Qed.

Lemma cn_get_set_other x y v c : y <> x -> cn_get y (cn_set x v c) = cn_get y c.
Proof.
  intros Hne. induction c as [|[k w] c IH]; cbn.
  - destruct (Z.eqb_spec x y); [congruence|reflexivity].
  - destruct (Z.eqb_spec k x) as [->|Hn]; cbn.
    + destruct (Z.eqb_spec x y); [congruence|reflexivity].
    + destruct (Z.eqb_spec k y); [reflexivity|exact IH].
Qed.

Lemma cn_get_del_other x y c : y <> x -> cn_get y (cn_del x c) = cn_get y c.
Proof.
  intros Hne. induction c as [|[k w] c IH]; cbn; [reflexivity|].
  destruct (Z.eqb_spec k x) as [->|Hn]; cbn.
  - destruct (Z.eqb_spec x y); [congruence|reflexivity].
  - destruct (Z.eqb_spec k y); [reflexivity|exact IH].
Qed.

Lemma cn_get_notin x c : ~ In x (cn_keys c) -> cn_get x c = 0%nat.
Proof.
  unfold cn_keys. induction c as [|[k w] c IH]; cbn; [reflexivity|]. intros H.
  destruct (Z.eqb_spec k x); [tauto|]. apply IH. tauto.
Qed.

Lemma cn_keys_set x v c k : In k (cn_keys (cn_set x v c)) <-> k = x \/ In k (cn_keys c).
Proof.
  unfold cn_keys. induction c as [|[k' w] c IH]; cbn.
  - intuition.
  - destruct (Z.eqb_spec k' x) as [->|Hn]; cbn; [intuition|]. rewrite IH. intuition.
Qed.

Lemma cn_keys_set_nodup x v c : NoDup (cn_keys c) -> NoDup (cn_keys (cn_set x v c)).
Proof.
  unfold cn_keys. induction c as [|[k w] c IH]; cbn; intros ND.
  - constructor; [intros []|constructor].
  - inversion ND as [|? ? Hn ND']; subst.
    destruct (Z.eqb_spec k x) as [->|Hne]; cbn; [constructor; assumption|].
    constructor; [|apply IH, ND'].
    intros H. apply (cn_keys_set x v c k) in H. destruct H as [->|H]; [congruence|]. apply Hn, H.
Qed.

Lemma cn_keys_del x c k : NoDup (cn_keys c) -> (In k (cn_keys (cn_del x c)) <-> k <> x /\ In k (cn_keys c)).
Proof.
  unfold cn_keys. induction c as [|[k' w] c IH]; cbn; intros ND; [tauto|].
  inversion ND as [|? ? Hn ND']; subst.
  destruct (Z.eqb_spec k' x) as [->|Hne]; cbn.
  - split; [|intuition congruence]. intros H. split; [|right; exact H]. intros ->. apply Hn, H.
  - rewrite (IH ND'). split; [|intuition congruence]. intros [->|[H1 H2]]; [split; [exact Hne|left; reflexivity]|tauto].
Qed.

Lemma cn_keys_del_nodup x c : NoDup (cn_keys c) -> NoDup (cn_keys (cn_del x c)).
Proof.
  unfold cn_keys. induction c as [|[k w] c IH]; cbn; intros ND; [constructor|].
  inversion ND as [|? ? Hn ND']; subst.
  destruct (Z.eqb_spec k x); cbn; [exact ND'|].
  constructor; [|apply IH, ND']. intros H. apply (cn_keys_del x c k ND') in H. apply Hn, H.
Qed.

Definition cn_pos (c : list (Z * nat)) : Prop := forall kv, In kv c -> (0 < snd kv)%nat.

Lemma cn_pos_set x v c : (0 < v)%nat -> cn_pos c -> cn_pos (cn_set x v c).
Proof.
  intros Hv. induction c as [|[k w] c IH]; cbn; intros Hp kv.
  - intros [<-|[]]. exact Hv.
  - destruct (Z.eqb_spec k x) as [->|H]; cbn.
    + intros [<-|Hin]; [exact Hv|apply Hp; right; exact Hin].
    + intros [<-|Hin]; [apply (Hp (k, w)); left; reflexivity|].
      apply IH; [|exact Hin]. intros kv' Hkv'. apply Hp. right; exact Hkv'.
Qed.

Lemma cn_pos_del x c : cn_pos c -> cn_pos (cn_del x c).
Proof.
  induction c as [|[k w] c IH]; cbn; intros Hp kv; [intros []|].
  destruct (Z.eqb_spec k x); cbn.
  - intros Hin. apply Hp. right; exact Hin.
  - intros [<-|Hin]; [apply (Hp (k, w)); left; reflexivity|].
    apply IH; [|exact Hin]. intros kv' Hkv'. apply Hp. right; exact Hkv'.
Qed.

Lemma cn_get_pos x c : cn_pos c -> (In x (cn_keys c) <-> (0 < cn_get x c)%nat).
Proof.
  unfold cn_keys. induction c as [|[k w] c IH]; cbn; intros Hp; [lia|].
  assert (Hp' : cn_pos c) by (intros kv Hkv; apply Hp; right; exact Hkv).
  destruct (Z.eqb_spec k x) as [->|Hne].
  - split; [|auto]. intros _. apply (Hp (x, w)). left; reflexivity.
  - rewrite <- (IH Hp'). split; [intros [?|?]; [congruence|assumption]|auto].
Qed.

Definition is_max_opt (o : option Z) (l : list Z) : Prop :=
  match o with
  | None => l = []
  | Some m => In m l /\ forall x, In x l -> x <= m
  end.

Lemma is_max_opt_unique o1 o2 l : is_max_opt o1 l -> is_max_opt o2 l -> o1 = o2.
Proof.
  destruct o1 as [m1|], o2 as [m2|]; cbn.
  - intros [I1 H1] [I2 H2]. f_equal. specialize (H1 _ I2). specialize (H2 _ I1). lia.
  - intros [I1 _] ->. destruct I1.
  - intros -> [I2 _]. destruct I2.
  - reflexivity.
Qed.

Lemma is_max_opt_same_set o l l' : (forall x, In x l <-> In x l') -> is_max_opt o l -> is_max_opt o l'.
Proof.
  intros H. destruct o as [m|]; cbn.
  - intros [I Hm]. split; [apply H, I|]. intros x Hx. apply Hm, H, Hx.
  - intros ->. destruct l' as [|a l']; [reflexivity|]. exfalso. apply (proj2 (H a)). left; reflexivity.
Qed.

Lemma fold_max_spec l : forall a,
  let m := fold_left Z.max l a in (m = a \/ In m l) /\ a <= m /\ forall x, In x l -> x <= m.
Proof.
  intros a. change (fold_left Z.max l a) with (zmax_list l a). cbn zeta. split; [|split].
  - apply zmax_list_attained.
  - rewrite zmax_list_acc. lia.
  - intros x Hx. apply zmax_list_ge, Hx.
Qed.

Lemma list_max_opt_spec l : is_max_opt (list_max_opt l) l.
Proof.
  destruct l as [|a l]; cbn; [reflexivity|].
  destruct (fold_max_spec l a) as ([E|Hin] & Hle & Hall).
  - split; [left; symmetry; exact E|]. intros x [<-|Hx]; [exact Hle|apply Hall, Hx].
  - split; [right; exact Hin|]. intros x [<-|Hx]; [exact Hle|apply Hall, Hx].
Qed.

Lemma cn_max_spec c : is_max_opt (cn_max c) (cn_keys c).
Proof.
  destruct c as [|[k w] c]; [reflexivity|].
  exact (list_max_opt_spec (cn_keys ((k, w) :: c))).
Qed.

(* the invariant: f is the multiset (as a count function) held by the counter *)
Definition mc_inv (m : maxc) (f : Z -> nat) : Prop :=
  NoDup (cn_keys (mc_c m)) /\ cn_pos (mc_c m) /\
  (forall x, cn_get x (mc_c m) = f x) /\ is_max_opt (mc_max m) (cn_keys (mc_c m)).

Lemma mc_inv_empty : mc_inv mc_empty (fun _ => 0%nat).
Proof. repeat split; cbn; try constructor. intros kv []. Qed.

Lemma mc_inv_ext m f g : (forall x, f x = g x) -> mc_inv m f -> mc_inv m g.
Proof. intros H (A & B & C & D). repeat split; try assumption. intros x. rewrite <- H. apply C. Qed.

Lemma mc_inv_add x m f : mc_inv m f ->
  mc_inv (mc_add x m) (fun y => if Z.eqb y x then S (f y) else f y).
Proof.
  intros (ND & Pos & Cnt & Mx). unfold mc_add. repeat split; cbn [mc_c mc_max].
  - apply cn_keys_set_nodup, ND.
  - apply cn_pos_set; [lia|exact Pos].
  - intros y. destruct (Z.eqb_spec y x) as [->|Hne].
    + rewrite cn_get_set_same, Cnt. reflexivity.
    + rewrite cn_get_set_other by exact Hne. apply Cnt.
  - destruct (mc_max m) as [y|]; cbn in *.
    + destruct Mx as [Iy Hy]. split.
      * apply cn_keys_set. destruct (Z.max_spec y x) as [[_ ->]|[_ ->]]; auto.
      * intros k Hk. apply cn_keys_set in Hk. destruct Hk as [->|Hk]; [lia|]. specialize (Hy k Hk). lia.
    + split; [apply cn_keys_set; left; reflexivity|].
      intros k Hk. apply cn_keys_set in Hk. destruct Hk as [->|Hk]; [lia|].
      unfold cn_keys in *. rewrite Mx in Hk. destruct Hk.
Qed.

Lemma mc_inv_discard x m f : mc_inv m f -> (0 < f x)%nat ->
  mc_inv (mc_discard x m) (fun y => if Z.eqb y x then pred (f y) else f y).
Proof.
  intros (ND & Pos & Cnt & Mx) Hx. unfold mc_discard.
  assert (Hin : In x (cn_keys (mc_c m))) by (apply cn_get_pos; [exact Pos|rewrite Cnt; exact Hx]).
  destruct (Nat.leb_spec (cn_get x (mc_c m)) 1) as [Hle|Hgt]; repeat split; cbn [mc_c mc_max].
  - apply cn_keys_del_nodup, ND.
  - apply cn_pos_del, Pos.
  - intros y. destruct (Z.eqb_spec y x) as [->|Hne].
    + rewrite cn_get_notin; [rewrite <- Cnt; lia|].
      intros H. apply (cn_keys_del x (mc_c m) x ND) in H. tauto.
    + rewrite cn_get_del_other by exact Hne. apply Cnt.
  - destruct (mc_max m) as [y|]; cbn in Mx.
    + destruct Mx as [Iy Hy]. destruct (Z.eqb_spec x y) as [->|Hne].
      * apply cn_max_spec.
      * cbn. split.
        -- apply (cn_keys_del x (mc_c m) y ND). split; [congruence|exact Iy].
        -- intros k Hk. apply (cn_keys_del x (mc_c m) k ND) in Hk. apply Hy, Hk.
    + unfold cn_keys in *. rewrite Mx in Hin. destruct Hin.
  - apply cn_keys_set_nodup, ND.
  - apply cn_pos_set; [lia|exact Pos].
  - intros y. destruct (Z.eqb_spec y x) as [->|Hne].
    + rewrite cn_get_set_same, <- Cnt. lia.
    + rewrite cn_get_set_other by exact Hne. apply Cnt.
  - apply (is_max_opt_same_set _ (cn_keys (mc_c m))); [|exact Mx].
    intros k. rewrite cn_keys_set. split; [auto|intros [->|?]; assumption].
Qed.

Lemma mc_inv_max m l : mc_inv m (count_occ Z.eq_dec l) -> is_max_opt (mc_max m) l.
Proof.
  intros (ND & Pos & Cnt & Mx). apply (is_max_opt_same_set _ (cn_keys (mc_c m))); [|exact Mx].
  intros x. rewrite (cn_get_pos x _ Pos), Cnt. symmetry. apply count_occ_In.
Qed.

(* SlicerFacts.v -- lemmas about Model/SlicerCosts.v (ContractionCosts, SliceFinder).
   Part 1: dictionaries, list replacement, MaxCounter.
   Part 2: ContractionCosts.__init__ and remove keep every derived field equal to its
           from-scratch definition, and remove acts on the table as `row_remove`.
   Part 3: the table of the tree sliced on one more index (Model/Net.v) is the
           `row_remove` image of the table before: the two cost models agree.
   Part 4: SliceFinder.trial / best / search for every oracle. *)
From Coq Require Import Lia Permutation ZifyBool.
From Ctg Require Import Base Net BaseFacts NetFacts SlicerCosts.
Local Open Scope Z_scope.

(* ================================================================== *)
(* Part 1a: dict ix -> Z                                               *)
Lemma zd_get_set_same j v d : zd_get j (zd_set j v d) = Some v.
Proof.
  induction d as [|[k w] d IH]; cbn.
  - rewrite Nat.eqb_refl. reflexivity.
  - destruct (Nat.eqb_spec k j) as [->|Hn]; cbn.
    + rewrite Nat.eqb_refl. reflexivity.
    + destruct (Nat.eqb_spec k j); [contradiction|exact IH].
Qed.

Lemma zd_get_set_other j i v d : i <> j -> zd_get i (zd_set j v d) = zd_get i d.
Proof.
  intros Hij. induction d as [|[k w] d IH]; cbn.
  - destruct (Nat.eqb_spec j i); [congruence|reflexivity].
  - destruct (Nat.eqb_spec k j) as [->|Hn]; cbn.
    + destruct (Nat.eqb_spec j i); [congruence|reflexivity].
    + destruct (Nat.eqb_spec k i); [reflexivity|exact IH].
Qed.

Lemma zd_get0_add j i v d :
  zd_get0 i (zd_add j v d) = zd_get0 i d + (if Nat.eqb i j then v else 0).
Proof.
  unfold zd_add. destruct (Nat.eqb_spec i j) as [->|H].
  - unfold zd_get0 at 1. rewrite zd_get_set_same. reflexivity.
  - unfold zd_get0 at 1. rewrite zd_get_set_other by exact H. fold (zd_get0 i d). lia.
Qed.

Lemma zd_get_del_other j i d : i <> j -> zd_get i (zd_del j d) = zd_get i d.
Proof.
  intros Hij. induction d as [|[k w] d IH]; cbn; [reflexivity|].
  destruct (Nat.eqb_spec k j) as [->|Hn]; cbn.
  - destruct (Nat.eqb_spec j i); [congruence|reflexivity].
  - destruct (Nat.eqb_spec k i); [reflexivity|exact IH].
Qed.

Lemma zd_get0_del_other j i d : i <> j -> zd_get0 i (zd_del j d) = zd_get0 i d.
Proof. intros H. unfold zd_get0. rewrite zd_get_del_other by exact H. reflexivity. Qed.

Lemma zd_get_in_keys j d : zd_get j d <> None <-> In j (zd_keys d).
Proof.
  unfold zd_keys. induction d as [|[k w] d IH]; cbn; [tauto|].
  destruct (Nat.eqb_spec k j) as [->|H].
  - split; [auto|congruence].
  - rewrite IH. split; [auto|intros [?|?]; [congruence|assumption]].
Qed.

Lemma zd_get_del_same j d : NoDup (zd_keys d) -> zd_get j (zd_del j d) = None.
Proof.
  unfold zd_keys. induction d as [|[k w] d IH]; cbn; intros ND; [reflexivity|].
  inversion ND as [|? ? Hn ND']; subst.
  destruct (Nat.eqb_spec k j) as [->|H]; cbn.
  - destruct (zd_get j d) eqn:E; [|reflexivity].
    exfalso. apply Hn. apply (proj1 (zd_get_in_keys j d)). congruence.
  - destruct (Nat.eqb_spec k j); [contradiction|]. apply IH, ND'.
Qed.

Lemma zd_keys_del_in j i d : In i (zd_keys (zd_del j d)) -> In i (zd_keys d).
Proof.
  unfold zd_keys. induction d as [|[k w] d IH]; cbn; [tauto|].
  destruct (Nat.eqb_spec k j); cbn; [auto|]. intros [?|?]; auto.
Qed.

Lemma zd_keys_del_nodup j d : NoDup (zd_keys d) -> NoDup (zd_keys (zd_del j d)).
Proof.
  unfold zd_keys. induction d as [|[k w] d IH]; cbn; intros ND; [constructor|].
  inversion ND as [|? ? Hn ND']; subst.
  destruct (Nat.eqb_spec k j); cbn; [exact ND'|].
  constructor; [|apply IH, ND']. intros H. apply Hn. apply (zd_keys_del_in j k d), H.
Qed.

Lemma zd_keys_del_length j d : In j (zd_keys d) -> S (length (zd_del j d)) = length d.
Proof.
  unfold zd_keys. induction d as [|[k w] d IH]; cbn; [tauto|].
  destruct (Nat.eqb_spec k j) as [->|H]; cbn; [reflexivity|].
  intros [?|Hin]; [contradiction|]. rewrite IH by exact Hin. reflexivity.
Qed.

Lemma zget_del_other j i d : i <> j -> zget i (zd_del j d) = zget i d.
Proof.
  intros Hij. induction d as [|[k w] d IH]; cbn; [reflexivity|].
  destruct (Nat.eqb_spec k j) as [->|Hn]; cbn.
  - destruct (Nat.eqb_spec j i); [congruence|reflexivity].
  - destruct (Nat.eqb_spec k i); [reflexivity|exact IH].
Qed.

Lemma zd_get_zget j d v : zd_get j d = Some v -> zget j d = v.
Proof.
  induction d as [|[k w] d IH]; cbn; [congruence|].
  destruct (Nat.eqb_spec k j); [congruence|exact IH].
Qed.

Lemma memb_cons j a l : memb j (a :: l) = Nat.eqb j a || memb j l.
Proof. reflexivity. Qed.

Lemma fold_zd_add_get (f : ix -> Z) l : forall fr j, NoDup l ->
  zd_get0 j (fold_left (fun fr o => zd_add o (f o) fr) l fr)
  = zd_get0 j fr + (if memb j l then f j else 0).
Proof.
  induction l as [|a l IH]; intros fr j ND; cbn [fold_left].
  - cbn. lia.
  - inversion ND as [|? ? Hn ND']; subst. rewrite IH by exact ND'.
    rewrite zd_get0_add, memb_cons.
    destruct (Nat.eqb_spec j a) as [->|H]; cbn [orb].
    + assert (E : memb a l = false) by (apply memb_false, Hn). rewrite E. lia.
    + destruct (memb j l); lia.
Qed.

(* ---- wdict ---- *)
Lemma wh_get_add_same j i d :
  wh_get j (wh_add j i d) = Some (let v := wh_get0 j d in if memb i v then v else v ++ [i]).
Proof.
  unfold wh_get0. induction d as [|[k w] d IH]; cbn.
  - rewrite Nat.eqb_refl. reflexivity.
  - destruct (Nat.eqb_spec k j) as [->|Hn]; cbn.
    + rewrite Nat.eqb_refl. reflexivity.
    + destruct (Nat.eqb_spec k j); [contradiction|exact IH].
Qed.

Lemma wh_get_add_other j j' i d : j' <> j -> wh_get j' (wh_add j i d) = wh_get j' d.
Proof.
  intros Hij. induction d as [|[k w] d IH]; cbn.
  - destruct (Nat.eqb_spec j j'); [congruence|reflexivity].
  - destruct (Nat.eqb_spec k j) as [->|Hn]; cbn.
    + destruct (Nat.eqb_spec j j'); [congruence|reflexivity].
    + destruct (Nat.eqb_spec k j'); [reflexivity|exact IH].
Qed.

Lemma wh_get_del_other j i d : i <> j -> wh_get i (wh_del j d) = wh_get i d.
Proof.
  intros Hij. induction d as [|[k w] d IH]; cbn; [reflexivity|].
  destruct (Nat.eqb_spec k j) as [->|Hn]; cbn.
  - destruct (Nat.eqb_spec j i); [congruence|reflexivity].
  - destruct (Nat.eqb_spec k i); [reflexivity|exact IH].
Qed.

(* ================================================================== *)
(* Part 1b: products of dimensions                                      *)
Lemma size_of_pos sd L : (forall j, 0 < zget j sd) -> 0 < size_of sd L.
Proof.
  intros Hp. induction L as [|a L IH]; [reflexivity|].
  rewrite size_of_cons. specialize (Hp a). nia.
Qed.

Lemma filter_neq_id x L : ~ In x L -> filter (fun j => negb (Nat.eqb j x)) L = L.
Proof.
  induction L as [|a L IH]; cbn; [reflexivity|]. intros H.
  destruct (Nat.eqb_spec a x) as [->|Hn]; cbn; [tauto|]. rewrite IH by tauto. reflexivity.
Qed.

Lemma filter_neq_in x j L : In j (filter (fun j => negb (Nat.eqb j x)) L) <-> In j L /\ j <> x.
Proof.
  rewrite filter_In. destruct (Nat.eqb_spec j x); cbn; intuition congruence.
Qed.

Lemma memb_filter_neq x j L : j <> x -> memb j (filter (fun j => negb (Nat.eqb j x)) L) = memb j L.
Proof.
  intros H. destruct (memb j L) eqn:E.
  - apply memb_In. apply filter_neq_in. split; [apply memb_In, E|exact H].
  - apply memb_false. intros Hin. apply filter_neq_in in Hin. apply memb_false in E. tauto.
Qed.

Lemma memb_filter_self x L : memb x (filter (fun j => negb (Nat.eqb j x)) L) = false.
Proof. apply memb_false. intros H. apply filter_neq_in in H. tauto. Qed.

Lemma size_of_split x sd L : NoDup L -> In x L ->
  size_of sd L = size_of sd (filter (fun j => negb (Nat.eqb j x)) L) * zget x sd.
Proof.
  intros ND Hin. rewrite (size_of_filter_out x sd L ND).
  assert (E : memb x L = true) by (apply memb_In, Hin). rewrite E. reflexivity.
Qed.

Lemma size_of_div x sd L : NoDup L -> In x L -> 0 < zget x sd ->
  size_of sd L / zget x sd = size_of sd (filter (fun j => negb (Nat.eqb j x)) L).
Proof.
  intros ND Hin Hp. rewrite (size_of_split x sd L ND Hin). apply Z.div_mul. lia.
Qed.

Lemma size_of_ext sd sd' L : (forall j, In j L -> zget j sd' = zget j sd) -> size_of sd' L = size_of sd L.
Proof.
  intros H. induction L as [|a L IH]; [reflexivity|].
  rewrite !size_of_cons, H by (left; reflexivity). rewrite IH; [reflexivity|].
  intros j Hj. apply H. right; exact Hj.
Qed.

Lemma size_of_del x sd L : ~ In x L -> size_of (zd_del x sd) L = size_of sd L.
Proof.
  intros H. apply size_of_ext. intros j Hj. apply zget_del_other. intros ->. contradiction.
Qed.

Lemma NoDup_filter_neq x (L : list ix) : NoDup L -> NoDup (filter (fun j => negb (Nat.eqb j x)) L).
Proof. apply NoDup_filter. Qed.

(* the arithmetic fact behind the incremental update of the reductions *)
Lemma red_div fl d dj m : 0 < d -> 0 < dj -> fl = m * dj * d ->
  (fl - fl / dj) / d = fl / d - (fl / d) / dj.
Proof.
  intros Hd Hdj ->.
  replace (m * dj * d) with ((m * d) * dj) at 2 by ring.
  rewrite (Z.div_mul (m * d) dj) by lia.
  rewrite (Z.div_mul (m * dj) d) by lia.
  rewrite (Z.div_mul m dj) by lia.
  replace (m * dj * d - m * d) with ((m * dj - m) * d) by ring.
  rewrite Z.div_mul by lia. reflexivity.
Qed.

(* two distinct members of a duplicate-free list: the product has both factors *)
Lemma size_of_two x j sd L : NoDup L -> In x L -> In j L -> j <> x ->
  exists m, size_of sd L = m * zget j sd * zget x sd.
Proof.
  intros ND Hx Hj Hne.
  rewrite (size_of_split x sd L ND Hx).
  set (L' := filter (fun j => negb (Nat.eqb j x)) L).
  assert (ND' : NoDup L') by (apply NoDup_filter, ND).
  assert (Hj' : In j L') by (apply filter_neq_in; tauto).
  rewrite (size_of_split j sd L' ND' Hj').
  eexists. reflexivity.
Qed.

(* ================================================================== *)
(* Part 1c: replacing one element of a list                             *)
Definition replace_at {A} (i : nat) (x : A) (l : list A) : list A := firstn i l ++ x :: skipn (S i) l.

Lemma replace_at_decomp {A} (l : list A) i a : nth_error l i = Some a ->
  exists l1 l2, l = l1 ++ a :: l2 /\ length l1 = i /\ forall x, replace_at i x l = l1 ++ x :: l2.
Proof.
  intros H. destruct (nth_error_split l i H) as (l1 & l2 & -> & Hl).
  exists l1, l2. split; [reflexivity|]. split; [exact Hl|]. intros x. unfold replace_at. subst i.
  rewrite firstn_app, Nat.sub_diag, firstn_all2 by lia. cbn [firstn]. rewrite app_nil_r.
  f_equal. f_equal.
  clear H. induction l1 as [|b l1 IH]; [reflexivity|]. cbn [length app skipn] in *. exact IH.
Qed.

Lemma replace_at_length {A} (l : list A) i a x : nth_error l i = Some a ->
  length (replace_at i x l) = length l.
Proof.
  intros H. destruct (replace_at_decomp l i a H) as (l1 & l2 & -> & _ & E). rewrite E, !app_length. reflexivity.
Qed.

Lemma nth_error_replace_at {A} (l : list A) i a x k : nth_error l i = Some a ->
  nth_error (replace_at i x l) k = if Nat.eqb k i then Some x else nth_error l k.
Proof.
  intros H. destruct (replace_at_decomp l i a H) as (l1 & l2 & -> & Hl & E). rewrite E. subst i.
  destruct (Nat.eqb_spec k (length l1)) as [->|Hne].
  - rewrite nth_error_app2, Nat.sub_diag by lia. reflexivity.
  - destruct (Nat.lt_ge_cases k (length l1)) as [Hlt|Hge].
    + rewrite !nth_error_app1 by exact Hlt. reflexivity.
    + rewrite !nth_error_app2 by exact Hge.
      destruct (k - length l1)%nat eqn:Ek; [lia|reflexivity].
Qed.

Lemma zsum_map_replace {A} (f : A -> Z) (l : list A) i a x : nth_error l i = Some a ->
  zsum (map f (replace_at i x l)) = zsum (map f l) - f a + f x.
Proof.
  intros H. destruct (replace_at_decomp l i a H) as (l1 & l2 & -> & _ & E). rewrite E.
  rewrite !map_app, !zsum_app. cbn [map]. rewrite !zsum_cons. lia.
Qed.

Lemma Forall_replace_at {A} (P : A -> Prop) (l : list A) i a x : nth_error l i = Some a ->
  Forall P l -> P x -> Forall P (replace_at i x l).
Proof.
  intros H HF Hx. destruct (replace_at_decomp l i a H) as (l1 & l2 & -> & _ & E). rewrite E.
  apply Forall_app in HF. destruct HF as [H1 H2]. inversion H2; subst.
  apply Forall_app. split; [exact H1|]. constructor; assumption.
Qed.

Lemma count_occ_map_replace {A} (f : A -> Z) (l : list A) i a x y : nth_error l i = Some a ->
  (count_occ Z.eq_dec (map f (replace_at i x l)) y + (if Z.eqb y (f a) then 1 else 0)
   = count_occ Z.eq_dec (map f l) y + (if Z.eqb y (f x) then 1 else 0))%nat.
Proof.
  intros H. destruct (replace_at_decomp l i a H) as (l1 & l2 & -> & _ & E). rewrite E.
  rewrite !map_app, !count_occ_app. cbn [map count_occ].
  destruct (Z.eq_dec (f x) y), (Z.eq_dec (f a) y), (Z.eqb_spec y (f a)), (Z.eqb_spec y (f x)); lia.
Qed.

Lemma nth_error_ext {A} (l1 l2 : list A) : (forall k, nth_error l1 k = nth_error l2 k) -> l1 = l2.
Proof.
  revert l2. induction l1 as [|a l1 IH]; intros [|b l2] H.
  - reflexivity.
  - specialize (H 0%nat). discriminate.
  - specialize (H 0%nat). discriminate.
  - f_equal.
    + specialize (H 0%nat). cbn in H. congruence.
    + apply IH. intros k. apply (H (S k)).
Qed.

(* ================================================================== *)
(* Part 1d: utils.MaxCounter                                            *)
Definition cn_keys (c : list (Z * nat)) : list Z := map fst c.

Lemma cn_get_set_same x v c : cn_get x (cn_set x v c) = v.
Proof.
  induction c as [|[k w] c IH]; cbn.
  - rewrite Z.eqb_refl. reflexivity.
  - destruct (Z.eqb_spec k x) as [->|Hn]; cbn.
    + rewrite Z.eqb_refl. reflexivity.
    + destruct (Z.eqb_spec k x); [contradiction|exact IH].
Qed.

Lemma cn_get_set_other x y v c : y <> x -> cn_get y (cn_set x v c) = cn_get y c.
Proof.
  intros Hne. induction c as [|[k w] c IH]; cbn.
  - destruct (Z.eqb_spec x y); [congruence|reflexivity].
  - destruct (Z.eqb_spec k x) as [->|Hn]; cbn.
    + destruct (Z.eqb_spec x y); [congruence|reflexivity].
    + destruct (Z.eqb_spec k y); [reflexivity|exact IH].
Qed.

Lemma cn_get_del_other x y c : y <> x -> cn_get y (cn_del x c) = cn_get y c.
Proof.
  intros Hne. induction c as [|[k w] c IH]; cbn; [reflexivity|].
  destruct (Z.eqb_spec k x) as [->|Hn]; cbn.
  - destruct (Z.eqb_spec x y); [congruence|reflexivity].
  - destruct (Z.eqb_spec k y); [reflexivity|exact IH].
Qed.

Lemma cn_get_notin x c : ~ In x (cn_keys c) -> cn_get x c = 0%nat.
Proof.
  unfold cn_keys. induction c as [|[k w] c IH]; cbn; [reflexivity|]. intros H.
  destruct (Z.eqb_spec k x); [tauto|]. apply IH. tauto.
Qed.

Lemma cn_keys_set x v c k : In k (cn_keys (cn_set x v c)) <-> k = x \/ In k (cn_keys c).
Proof.
  unfold cn_keys. induction c as [|[k' w] c IH]; cbn.
  - intuition.
  - destruct (Z.eqb_spec k' x) as [->|Hn]; cbn; [intuition|]. rewrite IH. intuition.
Qed.

Lemma cn_keys_set_nodup x v c : NoDup (cn_keys c) -> NoDup (cn_keys (cn_set x v c)).
Proof.
  unfold cn_keys. induction c as [|[k w] c IH]; cbn; intros ND.
  - constructor; [intros []|constructor].
  - inversion ND as [|? ? Hn ND']; subst.
    destruct (Z.eqb_spec k x) as [->|Hne]; cbn; [constructor; assumption|].
    constructor; [|apply IH, ND'].
    intros H. apply (cn_keys_set x v c k) in H. destruct H as [->|H]; [congruence|]. apply Hn, H.
Qed.

Lemma cn_keys_del x c k : NoDup (cn_keys c) -> (In k (cn_keys (cn_del x c)) <-> k <> x /\ In k (cn_keys c)).
Proof.
  unfold cn_keys. induction c as [|[k' w] c IH]; cbn; intros ND; [tauto|].
  inversion ND as [|? ? Hn ND']; subst.
  destruct (Z.eqb_spec k' x) as [->|Hne]; cbn.
  - split; [|intuition congruence]. intros H. split; [|right; exact H]. intros ->. apply Hn, H.
  - rewrite (IH ND'). split; [|intuition congruence]. intros [->|[H1 H2]]; [split; [exact Hne|left; reflexivity]|tauto].
Qed.

Lemma cn_keys_del_nodup x c : NoDup (cn_keys c) -> NoDup (cn_keys (cn_del x c)).
Proof.
  unfold cn_keys. induction c as [|[k w] c IH]; cbn; intros ND; [constructor|].
  inversion ND as [|? ? Hn ND']; subst.
  destruct (Z.eqb_spec k x); cbn; [exact ND'|].
  constructor; [|apply IH, ND']. intros H. apply (cn_keys_del x c k ND') in H. apply Hn, H.
Qed.

Definition cn_pos (c : list (Z * nat)) : Prop := forall kv, In kv c -> (0 < snd kv)%nat.

Lemma cn_pos_set x v c : (0 < v)%nat -> cn_pos c -> cn_pos (cn_set x v c).
Proof.
  intros Hv. induction c as [|[k w] c IH]; cbn; intros Hp kv.
  - intros [<-|[]]. exact Hv.
  - destruct (Z.eqb_spec k x) as [->|H]; cbn.
    + intros [<-|Hin]; [exact Hv|apply Hp; right; exact Hin].
    + intros [<-|Hin]; [apply (Hp (k, w)); left; reflexivity|].
      apply IH; [|exact Hin]. intros kv' Hkv'. apply Hp. right; exact Hkv'.
Qed.

Lemma cn_pos_del x c : cn_pos c -> cn_pos (cn_del x c).
Proof.
  induction c as [|[k w] c IH]; cbn; intros Hp kv; [intros []|].
  destruct (Z.eqb_spec k x); cbn.
  - intros Hin. apply Hp. right; exact Hin.
  - intros [<-|Hin]; [apply (Hp (k, w)); left; reflexivity|].
    apply IH; [|exact Hin]. intros kv' Hkv'. apply Hp. right; exact Hkv'.
Qed.

Lemma cn_get_pos x c : cn_pos c -> (In x (cn_keys c) <-> (0 < cn_get x c)%nat).
Proof.
  unfold cn_keys. induction c as [|[k w] c IH]; cbn; intros Hp; [lia|].
  assert (Hp' : cn_pos c) by (intros kv Hkv; apply Hp; right; exact Hkv).
  destruct (Z.eqb_spec k x) as [->|Hne].
  - split; [|auto]. intros _. apply (Hp (x, w)). left; reflexivity.
  - rewrite <- (IH Hp'). split; [intros [?|?]; [congruence|assumption]|auto].
Qed.

Definition is_max_opt (o : option Z) (l : list Z) : Prop :=
  match o with
  | None => l = []
  | Some m => In m l /\ forall x, In x l -> x <= m
  end.

Lemma is_max_opt_unique o1 o2 l : is_max_opt o1 l -> is_max_opt o2 l -> o1 = o2.
Proof.
  destruct o1 as [m1|], o2 as [m2|]; cbn.
  - intros [I1 H1] [I2 H2]. f_equal. specialize (H1 _ I2). specialize (H2 _ I1). lia.
  - intros [I1 _] ->. destruct I1.
  - intros -> [I2 _]. destruct I2.
  - reflexivity.
Qed.

Lemma is_max_opt_same_set o l l' : (forall x, In x l <-> In x l') -> is_max_opt o l -> is_max_opt o l'.
Proof.
  intros H. destruct o as [m|]; cbn.
  - intros [I Hm]. split; [apply H, I|]. intros x Hx. apply Hm, H, Hx.
  - intros ->. destruct l' as [|a l']; [reflexivity|]. exfalso. apply (proj2 (H a)). left; reflexivity.
Qed.

Lemma fold_max_spec l : forall a,
  let m := fold_left Z.max l a in (m = a \/ In m l) /\ a <= m /\ forall x, In x l -> x <= m.
Proof.
  intros a. change (fold_left Z.max l a) with (zmax_list l a). cbn zeta. split; [|split].
  - apply zmax_list_attained.
  - rewrite zmax_list_acc. lia.
  - intros x Hx. apply zmax_list_ge, Hx.
Qed.

Lemma list_max_opt_spec l : is_max_opt (list_max_opt l) l.
Proof.
  destruct l as [|a l]; cbn; [reflexivity|].
  destruct (fold_max_spec l a) as ([E|Hin] & Hle & Hall).
  - split; [left; symmetry; exact E|]. intros x [<-|Hx]; [exact Hle|apply Hall, Hx].
  - split; [right; exact Hin|]. intros x [<-|Hx]; [exact Hle|apply Hall, Hx].
Qed.

Lemma cn_max_spec c : is_max_opt (cn_max c) (cn_keys c).
Proof.
  destruct c as [|[k w] c]; [reflexivity|].
  exact (list_max_opt_spec (cn_keys ((k, w) :: c))).
Qed.

(* the invariant: f is the multiset (as a count function) held by the counter *)
Definition mc_inv (m : maxc) (f : Z -> nat) : Prop :=
  NoDup (cn_keys (mc_c m)) /\ cn_pos (mc_c m) /\
  (forall x, cn_get x (mc_c m) = f x) /\ is_max_opt (mc_max m) (cn_keys (mc_c m)).

Lemma mc_inv_empty : mc_inv mc_empty (fun _ => 0%nat).
Proof. repeat split; cbn; try constructor. intros kv []. Qed.

Lemma mc_inv_ext m f g : (forall x, f x = g x) -> mc_inv m f -> mc_inv m g.
Proof. intros H (A & B & C & D). repeat split; try assumption. intros x. rewrite <- H. apply C. Qed.

Lemma mc_inv_add x m f : mc_inv m f ->
  mc_inv (mc_add x m) (fun y => if Z.eqb y x then S (f y) else f y).
Proof.
  intros (ND & Pos & Cnt & Mx). unfold mc_add. repeat split; cbn [mc_c mc_max].
  - apply cn_keys_set_nodup, ND.
  - apply cn_pos_set; [lia|exact Pos].
  - intros y. destruct (Z.eqb_spec y x) as [->|Hne].
    + rewrite cn_get_set_same, Cnt. reflexivity.
    + rewrite cn_get_set_other by exact Hne. apply Cnt.
  - destruct (mc_max m) as [y|]; cbn in *.
    + destruct Mx as [Iy Hy]. split.
      * apply cn_keys_set. destruct (Z.max_spec y x) as [[_ ->]|[_ ->]]; auto.
      * intros k Hk. apply cn_keys_set in Hk. destruct Hk as [->|Hk]; [lia|]. specialize (Hy k Hk). lia.
    + split; [apply cn_keys_set; left; reflexivity|].
      intros k Hk. apply cn_keys_set in Hk. destruct Hk as [->|Hk]; [lia|].
      unfold cn_keys in *. rewrite Mx in Hk. destruct Hk.
Qed.

Lemma mc_inv_discard x m f : mc_inv m f -> (0 < f x)%nat ->
  mc_inv (mc_discard x m) (fun y => if Z.eqb y x then (f y - 1)%nat else f y).
Proof.
  intros (ND & Pos & Cnt & Mx) Hx. unfold mc_discard.
  assert (Hin : In x (cn_keys (mc_c m))) by (apply cn_get_pos; [exact Pos|rewrite Cnt; exact Hx]).
  destruct (Nat.leb_spec (cn_get x (mc_c m)) 1) as [Hle|Hgt]; repeat split; cbn [mc_c mc_max].
  - apply cn_keys_del_nodup, ND.
  - apply cn_pos_del, Pos.
  - intros y. destruct (Z.eqb_spec y x) as [->|Hne].
    + rewrite cn_get_notin; [rewrite <- Cnt; lia|].
      intros H. apply (cn_keys_del x (mc_c m) x ND) in H. tauto.
    + rewrite cn_get_del_other by exact Hne. apply Cnt.
  - destruct (mc_max m) as [y|]; cbn in Mx.
    + destruct Mx as [Iy Hy]. destruct (Z.eqb_spec x y) as [->|Hne].
      * apply cn_max_spec.
      * cbn. split.
        -- apply (cn_keys_del x (mc_c m) y ND). split; [congruence|exact Iy].
        -- intros k Hk. apply (cn_keys_del x (mc_c m) k ND) in Hk. apply Hy, Hk.
    + unfold cn_keys in *. rewrite Mx in Hin. destruct Hin.
  - apply cn_keys_set_nodup, ND.
  - apply cn_pos_set; [lia|exact Pos].
  - intros y. destruct (Z.eqb_spec y x) as [->|Hne].
    + rewrite cn_get_set_same, <- Cnt. lia.
    + rewrite cn_get_set_other by exact Hne. apply Cnt.
  - apply (is_max_opt_same_set _ (cn_keys (mc_c m))); [|exact Mx].
    intros k. rewrite cn_keys_set. split; [auto|intros [->|?]; assumption].
Qed.

Lemma mc_inv_max m l : mc_inv m (count_occ Z.eq_dec l) -> is_max_opt (mc_max m) l.
Proof.
  intros (ND & Pos & Cnt & Mx). apply (is_max_opt_same_set _ (cn_keys (mc_c m))); [|exact Mx].
  intros x. rewrite (cn_get_pos x _ Pos), Cnt. symmetry. apply count_occ_In.
Qed.

(* ================================================================== *)
(* Part 2: ContractionCosts                                             *)
Definition row_remove (ix : ix) (d : Z) (r : row) : row :=
  if memb ix (r_inv r) then
    (filter (fun j => negb (Nat.eqb j ix)) (r_inv r),
     if memb ix (r_legs r)
     then (filter (fun j => negb (Nat.eqb j ix)) (r_legs r), (r_size r / d, r_flops r / d))
     else (r_legs r, (r_size r, r_flops r / d)))
  else r.

Definition row_ok (sd : zdict) (r : row) : Prop :=
  NoDup (r_inv r) /\ NoDup (r_legs r) /\ incl (r_legs r) (r_inv r) /\
  r_flops r = size_of sd (r_inv r) /\ r_size r = size_of sd (r_legs r).

Definition sd_pos (sd : zdict) : Prop := forall kv, In kv sd -> 0 < snd kv.
Lemma sd_pos_zget sd j : sd_pos sd -> 0 < zget j sd.
Proof.
  induction sd as [|[k v] sd IH]; cbn; intros Hp; [lia|].
  destruct (Nat.eqb_spec k j); [apply (Hp (k, v)); left; reflexivity|].
  apply IH. intros kv Hkv. apply Hp. right; exact Hkv.
Qed.
Lemma sd_pos_del x sd : sd_pos sd -> sd_pos (zd_del x sd).
Proof.
  induction sd as [|[k v] sd IH]; cbn; intros Hp kv; [intros []|].
  destruct (Nat.eqb_spec k x); cbn.
  - intros Hin. apply Hp. right; exact Hin.
  - intros [<-|Hin]; [apply (Hp (k, v)); left; reflexivity|].
    apply IH; [|exact Hin]. intros kv' Hkv'. apply Hp. right; exact Hkv'.
Qed.

Lemma row_remove_ok sd ix r : row_ok sd r -> 0 < zget ix sd ->
  row_ok sd (row_remove ix (zget ix sd) r) /\ ~ In ix (r_inv (row_remove ix (zget ix sd) r)).
Proof.
  intros (N1 & N2 & Hincl & Hf & Hs) Hp. unfold row_remove.
  destruct (memb ix (r_inv r)) eqn:Ei.
  - apply memb_In in Ei.
    assert (Hincl' : incl (filter (fun j => negb (Nat.eqb j ix)) (r_legs r)) (filter (fun j => negb (Nat.eqb j ix)) (r_inv r))).
    { intros j Hj. apply filter_neq_in in Hj. apply filter_neq_in. split; [apply Hincl; tauto|tauto]. }
    destruct (memb ix (r_legs r)) eqn:El; cbn [r_inv r_legs r_size r_flops fst snd].
    + apply memb_In in El. split; [|intros H; apply filter_neq_in in H; tauto].
      repeat split; try apply NoDup_filter; try assumption.
      * rewrite Hf. apply size_of_div; assumption.
      * rewrite Hs. apply size_of_div; assumption.
    + apply memb_false in El. split; [|intros H; apply filter_neq_in in H; tauto].
      repeat split; try apply NoDup_filter; try assumption.
      * intros j Hj. apply filter_neq_in. split; [apply Hincl, Hj|]. intros ->. contradiction.
      * rewrite Hf. apply size_of_div; assumption.
  - apply memb_false in Ei. split; [|exact Ei]. repeat split; assumption.
Qed.

(* ---- the derived fields equal their from-scratch definitions ---- *)
Definition wh_nonempty (w : wdict) : Prop := forall kv, In kv w -> snd kv <> [].
Definition involves (tab : list row) (j : ix) (i : nat) : Prop :=
  exists r, nth_error tab i = Some r /\ In j (r_inv r).
Definition where_ok (tab : list row) (j : ix) (w : wdict) : Prop :=
  NoDup (wh_get0 j w) /\ forall i, In i (wh_get0 j w) <-> involves tab j i.

Definition derived_on (tab : list row) (P : ix -> Prop) (c : costs) : Prop :=
  c_flops c = zsum (map r_flops tab) /\
  mc_inv (c_sizes c) (count_occ Z.eq_dec (map r_size tab)) /\
  wh_nonempty (c_where c) /\
  forall j, P j -> zd_get0 j (c_fred c) = fred_def (c_sd c) tab j /\
                   zd_get0 j (c_wred c) = wred_def (c_sd c) tab j /\
                   where_ok tab j (c_where c).

Definition Inv (c : costs) : Prop :=
  Forall (row_ok (c_sd c)) (c_tab c) /\ sd_pos (c_sd c) /\ NoDup (zd_keys (c_sd c)) /\
  derived_on (c_tab c) (fun j => In j (zd_keys (c_sd c))) c.

Lemma wh_get_in j w v : wh_get j w = Some v -> In (j, v) w.
Proof.
  induction w as [|[k u] w IH]; cbn; [congruence|].
  destruct (Nat.eqb_spec k j) as [->|H]; [intros [= ->]; auto|auto].
Qed.

Lemma wh_nonempty_add j i w : wh_nonempty w -> wh_nonempty (wh_add j i w).
Proof.
  induction w as [|[k u] w IH]; cbn; intros Hn kv.
  - intros [<-|[]]. cbn. congruence.
  - assert (Hn' : wh_nonempty w) by (intros kv' H'; apply Hn; right; exact H').
    destruct (Nat.eqb_spec k j) as [->|Hne]; cbn.
    + intros [<-|Hin]; [|apply Hn; right; exact Hin]. cbn.
      destruct (memb i u); [apply (Hn (j, u)); left; reflexivity|]. destruct u; cbn; congruence.
    + intros [<-|Hin]; [apply (Hn (k, u)); left; reflexivity|]. apply IH; assumption.
Qed.

Lemma wh_nonempty_del j w : wh_nonempty w -> wh_nonempty (wh_del j w).
Proof.
  induction w as [|[k u] w IH]; cbn; intros Hn kv; [intros []|].
  assert (Hn' : wh_nonempty w) by (intros kv' H'; apply Hn; right; exact H').
  destruct (Nat.eqb_spec k j); cbn.
  - intros Hin. apply Hn'. exact Hin.
  - intros [<-|Hin]; [apply (Hn (k, u)); left; reflexivity|]. apply IH; assumption.
Qed.

(* ---- one iteration of the loop of remove ---- *)
Definition fred_delta (sd : zdict) (fl d : Z) (oix : ix) : Z :=
  (fl - fl / sd_get oix sd) / d - (fl - fl / sd_get oix sd).
Definition wred_delta (sd : zdict) (sz d : Z) (oix : ix) : Z :=
  - ((sz - sz / sd_get oix sd) - (sz - sz / sd_get oix sd) / d).

Lemma remove_at_eq ix d c i r : nth_error (c_tab c) i = Some r ->
  remove_at ix d c i =
  let new_inv := filter (fun j => negb (Nat.eqb j ix)) (r_inv r) in
  let fred' := fold_left (fun fr oix => zd_add oix (fred_delta (c_sd c) (r_flops r) d oix) fr) new_inv (c_fred c) in
  if memb ix (r_legs r) then
    let new_legs := filter (fun j => negb (Nat.eqb j ix)) (r_legs r) in
    mkCosts (c_sd c) (replace_at i (new_inv, (new_legs, (r_size r / d, r_flops r / d))) (c_tab c))
            (c_nsl c) (c_orig c) (c_flops c + (r_flops r / d - r_flops r))
            (mc_add (r_size r / d) (mc_discard (r_size r) (c_sizes c))) fred'
            (fold_left (fun wr oix => zd_add oix (wred_delta (c_sd c) (r_size r) d oix) wr) new_legs (c_wred c))
            (c_where c)
  else
    mkCosts (c_sd c) (replace_at i (new_inv, (r_legs r, (r_size r, r_flops r / d))) (c_tab c))
            (c_nsl c) (c_orig c) (c_flops c + (r_flops r / d - r_flops r))
            (c_sizes c) fred' (c_wred c) (c_where c).
Proof.
  intros H. unfold remove_at. rewrite H. cbn zeta. destruct (memb ix (r_legs r)); reflexivity.
Qed.

Lemma row_remove_replace ix d r : In ix (r_inv r) ->
  row_remove ix d r =
  (filter (fun j => negb (Nat.eqb j ix)) (r_inv r),
   if memb ix (r_legs r)
   then (filter (fun j => negb (Nat.eqb j ix)) (r_legs r), (r_size r / d, r_flops r / d))
   else (r_legs r, (r_size r, r_flops r / d))).
Proof. intros H. unfold row_remove. apply memb_In in H. rewrite H. reflexivity. Qed.

Lemma involves_replace tab i r r' j k : nth_error tab i = Some r ->
  (In j (r_inv r') <-> In j (r_inv r)) ->
  (involves (replace_at i r' tab) j k <-> involves tab j k).
Proof.
  intros H Hiff. unfold involves. split; intros (r0 & Hn & Hin).
  - rewrite (nth_error_replace_at tab i r r' k H) in Hn.
    destruct (Nat.eqb_spec k i) as [->|Hne].
    + injection Hn as <-. exists r. split; [exact H|apply Hiff, Hin].
    + exists r0. split; assumption.
  - destruct (Nat.eqb_spec k i) as [->|Hne].
    + exists r'. split.
      * rewrite (nth_error_replace_at tab i r r' i H), Nat.eqb_refl. reflexivity.
      * rewrite H in Hn. injection Hn as <-. apply Hiff, Hin.
    + exists r0. split; [|exact Hin].
      rewrite (nth_error_replace_at tab i r r' k H). destruct (Nat.eqb_spec k i); [contradiction|exact Hn].
Qed.

Lemma in_nth_error_count (tab : list row) i r : nth_error tab i = Some r ->
  (0 < count_occ Z.eq_dec (map r_size tab) (r_size r))%nat.
Proof.
  intros H. apply count_occ_In. apply in_map. apply (nth_error_In _ _ H).
Qed.

Lemma remove_at_step (P : ix -> Prop) ix c i r :
  let d := zget ix (c_sd c) in
  nth_error (c_tab c) i = Some r -> row_ok (c_sd c) r -> In ix (r_inv r) ->
  sd_pos (c_sd c) -> (forall j, P j -> j <> ix) ->
  derived_on (c_tab c) P c ->
  let c' := remove_at ix d c i in
  c_tab c' = replace_at i (row_remove ix d r) (c_tab c) /\ c_sd c' = c_sd c /\
  c_where c' = c_where c /\ c_nsl c' = c_nsl c /\ c_orig c' = c_orig c /\
  derived_on (c_tab c') P c'.
Proof.
  intros d Hn (N1 & N2 & Hincl & Hf & Hs) Hix Hpos HP (Dfl & Dmc & Dne & Dj) c'.
  assert (Hd : 0 < d) by (apply sd_pos_zget, Hpos).
  assert (Hposj : forall j, 0 < zget j (c_sd c)) by (intros j; apply sd_pos_zget, Hpos).
  subst c'. rewrite (remove_at_eq ix d c i r Hn). cbn zeta.
  rewrite (row_remove_replace ix d r Hix).
  set (new_inv := filter (fun j => negb (Nat.eqb j ix)) (r_inv r)).
  assert (NDi : NoDup new_inv) by (apply NoDup_filter, N1).
  (* the flop reductions of the other indices *)
  assert (Fred : forall tab' r', tab' = replace_at i r' (c_tab c) -> r_inv r' = new_inv ->
            r_flops r' = r_flops r / d -> forall j, P j ->
            zd_get0 j (fold_left (fun fr oix => zd_add oix (fred_delta (c_sd c) (r_flops r) d oix) fr) new_inv (c_fred c))
            = fred_def (c_sd c) tab' j).
  { intros tab' r' -> Ei Ef j Pj. rewrite fold_zd_add_get by exact NDi.
    destruct (Dj j Pj) as (E1 & _ & _). rewrite E1. unfold fred_def.
    rewrite (zsum_map_replace _ (c_tab c) i r r' Hn). rewrite Ei, Ef.
    assert (Hne : j <> ix) by (apply HP, Pj).
    unfold new_inv. rewrite (memb_filter_neq ix j (r_inv r) Hne).
    destruct (memb j (r_inv r)) eqn:Em; [|lia].
    apply memb_In in Em.
    destruct (size_of_two ix j (c_sd c) (r_inv r) N1 Hix Em Hne) as (m & Hm).
    unfold fred_delta, sd_get. rewrite <- Hf in Hm.
    rewrite (red_div (r_flops r) d (zget j (c_sd c)) m Hd (Hposj j) Hm). lia. }
  assert (Hcnt : (0 < count_occ Z.eq_dec (map r_size (c_tab c)) (r_size r))%nat)
    by (apply (in_nth_error_count _ i), Hn).
  assert (Hiff : forall j, P j -> (In j new_inv <-> In j (r_inv r))).
  { intros j Pj. unfold new_inv. rewrite filter_neq_in. assert (j <> ix) by (apply HP, Pj). tauto. }
  destruct (memb ix (r_legs r)) eqn:El.
  - (* ix is a leg: size, _sizes and write reductions change too *)
    apply memb_In in El.
    set (new_legs := filter (fun j => negb (Nat.eqb j ix)) (r_legs r)).
    set (r' := (new_inv, (new_legs, (r_size r / d, r_flops r / d))) : row).
    cbn [c_tab c_sd c_where c_nsl c_orig].
    split; [reflexivity|]. split; [reflexivity|]. split; [reflexivity|]. split; [reflexivity|]. split; [reflexivity|].
    unfold derived_on. cbn [c_flops c_sizes c_fred c_wred c_where c_sd].
    split; [|split; [|split; [exact Dne|intros j Pj; split; [|split; [|split; [apply (Dj j Pj)|intros k; split; intros Hi]]]]]].
    + rewrite (zsum_map_replace _ (c_tab c) i r r' Hn), Dfl. unfold r' at 1. cbn [r_flops fst snd]. lia.
    + apply (mc_inv_ext _ (fun y => if Z.eqb y (r_size r / d)
                                     then S (if Z.eqb y (r_size r) then (count_occ Z.eq_dec (map r_size (c_tab c)) y - 1)%nat
                                             else count_occ Z.eq_dec (map r_size (c_tab c)) y)
                                     else (if Z.eqb y (r_size r) then (count_occ Z.eq_dec (map r_size (c_tab c)) y - 1)%nat
                                           else count_occ Z.eq_dec (map r_size (c_tab c)) y))).
      * intros y.
        pose proof (count_occ_map_replace r_size (c_tab c) i r r' y Hn) as Hc.
        change (r_size r') with (r_size r / d) in Hc.
        match goal with |- _ = ?b => change (count_occ Z.eq_dec (map r_size (replace_at i r' (c_tab c))) y) with b in Hc end.
        destruct (Z.eqb_spec y (r_size r / d)) as [E1|E1], (Z.eqb_spec y (r_size r)) as [E2|E2];
          try (rewrite <- E2 in Hcnt); lia.
      * apply (mc_inv_add (r_size r / d) (mc_discard (r_size r) (c_sizes c))
                 (fun y => if Z.eqb y (r_size r) then (count_occ Z.eq_dec (map r_size (c_tab c)) y - 1)%nat
                           else count_occ Z.eq_dec (map r_size (c_tab c)) y)).
        apply mc_inv_discard; [exact Dmc|exact Hcnt].
    + apply (Fred _ r'); [reflexivity|reflexivity|reflexivity|exact Pj].
    + assert (NDl : NoDup new_legs) by (apply NoDup_filter, N2).
      rewrite fold_zd_add_get by exact NDl.
      destruct (Dj j Pj) as (_ & E2 & _). rewrite E2. unfold wred_def.
      rewrite (zsum_map_replace _ (c_tab c) i r r' Hn).
      unfold r'. cbn [r_inv r_legs r_size fst snd].
      assert (Hne : j <> ix) by (apply HP, Pj).
      unfold new_legs, new_inv. rewrite !(memb_filter_neq ix j _ Hne).
      destruct (memb j (r_legs r)) eqn:Em; [|rewrite !andb_false_r; lia].
      apply memb_In in Em.
      assert (Emi : memb j (r_inv r) = true) by (apply memb_In, Hincl, Em). rewrite Emi. cbn [andb].
      destruct (size_of_two ix j (c_sd c) (r_legs r) N2 El Em Hne) as (m & Hm).
      unfold wred_delta, sd_get. rewrite <- Hs in Hm.
      rewrite (red_div (r_size r) d (zget j (c_sd c)) m Hd (Hposj j) Hm). lia.
    + apply (involves_replace (c_tab c) i r r' j k Hn (Hiff j Pj)). apply (Dj j Pj), Hi.
    + apply (Dj j Pj). apply (involves_replace (c_tab c) i r r' j k Hn (Hiff j Pj)), Hi.
  - (* ix is not a leg of this contraction *)
    apply memb_false in El.
    set (r' := (new_inv, (r_legs r, (r_size r, r_flops r / d))) : row).
    cbn [c_tab c_sd c_where c_nsl c_orig].
    split; [reflexivity|]. split; [reflexivity|]. split; [reflexivity|]. split; [reflexivity|]. split; [reflexivity|].
    unfold derived_on. cbn [c_flops c_sizes c_fred c_wred c_where c_sd].
    split; [|split; [|split; [exact Dne|intros j Pj; split; [|split; [|split; [apply (Dj j Pj)|intros k; split; intros Hi]]]]]].
    + rewrite (zsum_map_replace _ (c_tab c) i r r' Hn), Dfl. unfold r' at 1. cbn [r_flops fst snd]. lia.
    + eapply mc_inv_ext; [|exact Dmc].
      intros y. pose proof (count_occ_map_replace r_size (c_tab c) i r r' y Hn) as Hc.
      change (r_size r') with (r_size r) in Hc.
      match goal with |- _ = ?b => change (count_occ Z.eq_dec (map r_size (replace_at i r' (c_tab c))) y) with b in Hc end.
      lia.
    + apply (Fred _ r'); [reflexivity|reflexivity|reflexivity|exact Pj].
    + destruct (Dj j Pj) as (_ & E2 & _). rewrite E2. unfold wred_def.
      rewrite (zsum_map_replace _ (c_tab c) i r r' Hn).
      unfold r'. cbn [r_inv r_legs r_size fst snd].
      assert (Hne : j <> ix) by (apply HP, Pj).
      unfold new_inv. rewrite (memb_filter_neq ix j _ Hne). lia.
    + apply (involves_replace (c_tab c) i r r' j k Hn (Hiff j Pj)). apply (Dj j Pj), Hi.
    + apply (Dj j Pj). apply (involves_replace (c_tab c) i r r' j k Hn (Hiff j Pj)), Hi.
Qed.

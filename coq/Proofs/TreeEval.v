(* TreeEval.v -- the denotational value of ANY contraction tree over ANY network
   (hyper indices, repeated indices, scalars, outer products, disconnected parts,
   any set of removed indices) equals the mathematical einsum.  Core of C01. *)
From Coq Require Import Lia Permutation.
From Ctg Require Import Base Net Einsum BaseFacts NetFacts SumOver.
Open Scope Z_scope.

Lemma NoDup_app_intro {A} (a b : list A) :
  NoDup a -> NoDup b -> (forall x, In x a -> ~ In x b) -> NoDup (a ++ b).
Proof.
  induction a as [|x a IH]; cbn; intros Ha Hb Hd; [exact Hb|].
  inversion Ha as [|? ? Hnin Ha']; subst. constructor.
  - rewrite in_app_iff. intros [H|H]; [contradiction|]. apply (Hd x); [left; reflexivity|exact H].
  - apply IH; [exact Ha'|exact Hb|]. intros y Hy. apply Hd. right; exact Hy.
Qed.

Section T.
Variable n : net.
Variable sl : list slinfo.

Notation T := (term_sl n sl).
Notation cnt := (cnt n sl).
Notation appear := (appear n).
Notation dim := (dim n).
Notation inrange := (inrange n).

Definition allixS (S : list nat) : list ix := concat (map T S).
Definition dead (S : list nat) : list ix :=
  nodup Nat.eq_dec (filter (fun j => Nat.eqb (cnt S j) (appear j)) (allixS S)).

Lemma cnt_pos S j : In j (allixS S) <-> (0 < cnt S j)%nat.
Proof.
  unfold allixS. induction S as [|k S IH]; cbn [map concat NetFacts.cnt].
  - cbn. split; [tauto|lia].
  - rewrite in_app_iff, IH, occ_pos. lia.
Qed.

Lemma in_dead S j : In j (dead S) <-> (0 < cnt S j)%nat /\ cnt S j = appear j.
Proof. unfold dead. rewrite nodup_In, filter_In, Nat.eqb_eq, cnt_pos. tauto. Qed.

Lemma NoDup_dead S : NoDup (dead S).
Proof. apply NoDup_nodup. Qed.

Lemma cnt_perm S1 S2 j : Permutation S1 S2 -> cnt S1 j = cnt S2 j.
Proof. induction 1; cbn [NetFacts.cnt]; lia. Qed.

(* an index occurring on a sliced term is not a removed index *)
Lemma cnt_pos_not_removed S j : (0 < cnt S j)%nat -> ~ In j (removed sl).
Proof.
  intros H Hr. apply cnt_pos in H. unfold allixS in H. apply in_concat in H.
  destruct H as (t & Ht & Hj). apply in_map_iff in Ht. destruct Ht as (k & <- & _).
  unfold term_sl in Hj. apply filter_In in Hj. destruct Hj as [_ Hj].
  apply negb_true_iff, memb_false in Hj. contradiction.
Qed.

(* if a non-removed index does not occur on the sliced terms of S, it does not
   occur on the full terms either *)
Lemma cnt_zero_not_in_term S j k : cnt S j = 0%nat -> ~ In j (removed sl) -> In k S ->
  ~ In j (nth k (inputs n) []).
Proof.
  induction S as [|k' S IH]; cbn [NetFacts.cnt]; intros Hc Hr Hin0 Hj; [destruct Hin0|].
  destruct Hin0 as [E|Hin].
  - subst k'. assert (In j (T k)).
    { unfold term_sl. apply filter_In. split; [exact Hj|]. apply negb_true_iff, memb_false, Hr. }
    apply occ_pos in H. lia.
  - apply (IH ltac:(lia) Hr Hin Hj).
Qed.

(* ---------- the indices summed at a node are exactly those that die there ---------- *)
Lemma in_leaf_summed k j : (k < NN n)%nat ->
  (In j (leaf_summed n sl k) <-> (0 < cnt [k] j)%nat /\ cnt [k] j = appear j).
Proof.
  intros Hk. unfold leaf_summed. rewrite filter_In, legs_of_term_in, negb_true_iff.
  assert (Hle : (cnt [k] j <= appear j)%nat).
  { apply cnt_le_appear. split; [repeat constructor; cbn; tauto|intros ? [<-|[]]; exact Hk]. }
  pose proof (leaf_legs_get n sl k j Hk) as G. unfold spec_count in G.
  pose proof (wfl_key_pos j _ (wfl_leaf_legs n sl k)) as K.
  rewrite <- lmem_in_keys in K.
  cbn [NetFacts.cnt] in *. rewrite Nat.add_0_r in *. rewrite occ_pos.
  destruct (lmem j (leaf_legs n sl k)) eqn:E.
  - assert (0 < lget0 j (leaf_legs n sl k))%nat by (apply K; reflexivity).
    destruct (Nat.ltb_spec (occ (T k) j) (appear j)); split; intros; try lia; destruct H1; try congruence; lia.
  - assert (~ (0 < lget0 j (leaf_legs n sl k))%nat) by (intros H; apply K in H; congruence).
    destruct (Nat.ltb_spec (occ (T k) j) (appear j)); split; intros [? ?]; split; try lia; reflexivity.
Qed.

Lemma NoDup_leaf_summed k : NoDup (leaf_summed n sl k).
Proof. unfold leaf_summed. apply NoDup_filter. apply wfl_legs_of_term. Qed.

Lemma in_summed_sub l r j : inrange (leaves l ++ leaves r) ->
  (In j (summed n sl false (Node l r)) <->
   (0 < cnt (leaves l ++ leaves r) j)%nat /\ cnt (leaves l ++ leaves r) j = appear j
   /\ ~ In j (dead (leaves l)) /\ ~ In j (dead (leaves r))).
Proof.
  intros HR. unfold summed. rewrite filter_In, negb_true_iff.
  rewrite (involved_keys n sl l r j HR).
  pose proof (sub_legs_keys n sl (Node l r) j HR) as K. cbn [leaves] in K.
  change (node_legs n sl false (Node l r)) with (sub_legs n sl (Node l r)).
  rewrite <- lmem_in_keys in K.
  rewrite !in_dead. rewrite cnt_app in *.
  pose proof (cnt_le_appear n sl _ j HR) as Hle. rewrite cnt_app in Hle.
  destruct (lmem j (sub_legs n sl (Node l r))) eqn:E.
  - assert (0 < cnt (leaves l) j + cnt (leaves r) j < appear j)%nat by (apply K; reflexivity).
    split; [intros [_ ?]; congruence|lia].
  - assert (~ (0 < cnt (leaves l) j + cnt (leaves r) j < appear j)%nat) by (intros H; apply K in H; congruence).
    split; [intros [? _]; lia|intros ?; split; [lia|reflexivity]].
Qed.

Lemma NoDup_summed b t : NoDup (lkeys (involved n sl t)) -> NoDup (summed n sl b t).
Proof. intros H. unfold summed. apply NoDup_filter, H. Qed.

Lemma NoDup_involved l r : inrange (leaves l ++ leaves r) -> NoDup (lkeys (involved n sl (Node l r))).
Proof.
  intros HR. cbn [involved]. apply legs_union2_nodup.
  apply (sub_legs_spec n sl l (inrange_app_l n _ _ HR)).
Qed.

Lemma dead_perm_gen (X : list ix) L R : inrange (L ++ R) -> NoDup X ->
  (forall j, In j X <-> (0 < cnt (L ++ R) j)%nat /\ cnt (L ++ R) j = appear j
                        /\ ~ In j (dead L) /\ ~ In j (dead R)) ->
  Permutation (X ++ dead L ++ dead R) (dead (L ++ R)).
Proof.
  intros HR NDX HX.
  assert (HLR : forall j, (cnt L j + cnt R j <= appear j)%nat).
  { intros j. rewrite <- cnt_app. apply cnt_le_appear, HR. }
  apply NoDup_Permutation.
  - apply NoDup_app_intro; [exact NDX| |].
    + apply NoDup_app_intro; [apply NoDup_dead|apply NoDup_dead|].
      intros j HjL HjR. apply in_dead in HjL. apply in_dead in HjR. specialize (HLR j). lia.
    + intros j Hj. rewrite in_app_iff. apply HX in Hj. tauto.
  - apply NoDup_dead.
  - intros j. rewrite !in_app_iff, HX, !in_dead, cnt_app. specialize (HLR j). split.
    + intros [H|[H|H]]; lia.
    + intros H.
      destruct (Nat.eq_dec (cnt L j) (appear j)) as [EL|NL]; [right; left; lia|].
      destruct (Nat.eq_dec (cnt R j) (appear j)) as [ER|NR]; [right; right; lia|].
      left. lia.
Qed.

(* ---------- the root ---------- *)
Definition wf_net : Prop := NoDup (output n) /\ incl (output n) (concat (inputs n)).
Definition full_tree (t : tree) : Prop := Permutation (leaves t) (seq 0 (NN n)).

Lemma full_tree_inrange t : full_tree t -> inrange (leaves t).
Proof.
  intros HP. split.
  - eapply Permutation_NoDup; [symmetry; exact HP|apply seq_NoDup].
  - intros k Hk. apply (Permutation_in _ HP) in Hk. apply in_seq in Hk. lia.
Qed.

Lemma cnt_all j : cnt (seq 0 (NN n)) j =
  if negb (memb j (removed sl)) then occ (concat (inputs n)) j else 0%nat.
Proof.
  rewrite <- cnt_raw_all. generalize (seq 0 (NN n)) as S.
  induction S as [|k S IH]; cbn [NetFacts.cnt cnt_raw]; [destruct (negb _); reflexivity|].
  rewrite IH. unfold term_sl. rewrite occ_filter. destruct (negb (memb j (removed sl))); reflexivity.
Qed.

Lemma in_summed_root l r j : wf_net -> full_tree (Node l r) ->
  (In j (summed n sl true (Node l r)) <->
   (0 < cnt (leaves l ++ leaves r) j)%nat /\ cnt (leaves l ++ leaves r) j = appear j
   /\ ~ In j (dead (leaves l)) /\ ~ In j (dead (leaves r))).
Proof.
  intros [ND Hincl] HF. pose proof (full_tree_inrange _ HF) as HR. cbn [leaves] in HR.
  unfold summed. rewrite filter_In, negb_true_iff.
  rewrite (involved_keys n sl l r j HR).
  pose proof (root_legs_agree n sl j ND Hincl) as K.
  change (node_legs n sl true (Node l r)) with (root_legs n sl).
  rewrite <- lmem_in_keys in K.
  rewrite <- (cnt_perm _ _ j HF) in K. cbn [leaves] in K.
  rewrite !in_dead. rewrite cnt_app in *.
  pose proof (cnt_le_appear n sl _ j HR) as Hle. rewrite cnt_app in Hle.
  destruct (lmem j (root_legs n sl)) eqn:E.
  - assert (0 < cnt (leaves l) j + cnt (leaves r) j < appear j)%nat by (apply K; reflexivity).
    split; [intros [_ ?]; congruence|lia].
  - assert (~ (0 < cnt (leaves l) j + cnt (leaves r) j < appear j)%nat) by (intros H; apply K in H; congruence).
    split; [intros [? _]; lia|intros ?; split; [lia|reflexivity]].
Qed.

Lemma dead_all_inner : Permutation (dead (seq 0 (NN n))) (inner n sl).
Proof.
  apply NoDup_Permutation; [apply NoDup_dead|apply NoDup_filter, NoDup_nodup|].
  intros j. rewrite in_dead, cnt_all, appear_occ. unfold inner, all_ix.
  rewrite filter_In, nodup_In, andb_true_iff, !negb_true_iff.
  rewrite (occ_pos (concat (inputs n)) j).
  destruct (memb j (removed sl)) eqn:Er; cbn [negb].
  - split; [lia|intros [_ [? _]]; congruence].
  - rewrite memb_false, (occ_pos (output n) j). split; [intros [? ?]; repeat split; try assumption; lia|].
    intros [? [_ ?]]. split; [assumption|lia].
Qed.

Variable arr : nat -> ptensor.
Notation F := (F n arr).
Notation prodF := (prodF n arr).

(* ---------- independence / respect facts ---------- *)
Lemma F_respects k : respects (F k).
Proof. intros e1 e2 He. unfold Einsum.F. f_equal. apply map_ext. intros; apply He. Qed.

Lemma prodF_respects S : respects (prodF S).
Proof.
  induction S as [|k S IH]; intros e1 e2 He; cbn [Einsum.prodF]; [reflexivity|].
  rewrite (F_respects k e1 e2 He), (IH e1 e2 He). reflexivity.
Qed.

Lemma prodF_app S1 S2 e : prodF (S1 ++ S2) e = prodF S1 e * prodF S2 e.
Proof.
  induction S1 as [|k S1 IH].
  - change ([] ++ S2) with S2. cbn [Einsum.prodF]. ring.
  - change ((k :: S1) ++ S2) with (k :: (S1 ++ S2)). cbn [Einsum.prodF]. rewrite IH. ring.
Qed.

Lemma prodF_perm S1 S2 e : Permutation S1 S2 -> prodF S1 e = prodF S2 e.
Proof. induction 1; cbn [Einsum.prodF]; try ring; [rewrite IHPermutation; ring|congruence]. Qed.

Lemma prodF_indep S js :
  (forall j, In j js -> cnt S j = 0%nat /\ ~ In j (removed sl)) -> indep (prodF S) js.
Proof.
  intros H e1 e2 He.
  assert (G : forall S', incl S' S -> prodF S' e1 = prodF S' e2).
  { induction S' as [|k S' IH]; intros Hincl; cbn [Einsum.prodF]; [reflexivity|].
    rewrite IH by (intros x Hx; apply Hincl; right; exact Hx). f_equal.
    unfold Einsum.F. f_equal. apply map_ext_in. intros j Hj. apply He. intros Hin.
    destruct (H j Hin) as [Hc Hr].
    apply (cnt_zero_not_in_term S j k Hc Hr); [apply Hincl; left; reflexivity|exact Hj]. }
  apply G. intros x Hx; exact Hx.
Qed.

(* ---------- main invariant: every subtree computes the sum, over the indices
              that have died inside it, of the product of its leaves ---------- *)
Theorem evalS_is_sum t : inrange (leaves t) -> forall e,
  evalS n sl arr t e = sum_over dim (dead (leaves t)) e (prodF (leaves t)).
Proof.
  induction t as [k | l IHl r IHr]; intros HR e.
  - cbn [evalS leaves].
    assert (Hk : (k < NN n)%nat) by (apply HR; left; reflexivity).
    rewrite (sum_over_perm dim (leaf_summed n sl k) (dead [k])).
    + apply sum_over_ext. intros e'. cbn [Einsum.prodF]. ring.
    + apply NoDup_Permutation; [apply NoDup_leaf_summed|apply NoDup_dead|].
      intros j. rewrite (in_leaf_summed k j Hk), in_dead. tauto.
    + apply NoDup_leaf_summed.
    + apply F_respects.
  - cbn [evalS leaves].
    pose proof (inrange_app_l n _ _ HR) as HL. pose proof (inrange_app_r n _ _ HR) as HRr.
    set (L := leaves l) in *. set (R := leaves r) in *.
    assert (HLR : forall j, (cnt L j + cnt R j <= appear j)%nat).
    { intros j. rewrite <- cnt_app. apply cnt_le_appear, HR. }
    assert (HP := dead_perm_gen (summed n sl false (Node l r)) L R HR
                    (NoDup_summed false _ (NoDup_involved l r HR)) (fun j => in_summed_sub l r j HR)).
    rewrite <- (sum_over_perm dim _ _ HP).
    2:{ eapply Permutation_NoDup; [symmetry; exact HP|apply NoDup_dead]. }
    2:{ apply prodF_respects. }
    rewrite sum_over_app.
    apply sum_over_ext. intros e'.
    rewrite (IHl HL e'), (IHr HRr e').
    rewrite (sum_over_mul dim (dead L) (dead R) e' (prodF L) (prodF R)).
    + apply sum_over_ext. intros e''. symmetry. apply prodF_app.
    + apply prodF_indep. intros j Hj. apply in_dead in Hj. split.
      * specialize (HLR j). lia.
      * apply (cnt_pos_not_removed R). lia.
    + apply prodF_indep. intros j Hj. apply in_dead in Hj. split.
      * specialize (HLR j). lia.
      * apply (cnt_pos_not_removed L). lia.
    + apply prodF_respects.
Qed.

(* THE semantic theorem: contracting through ANY complete tree gives the einsum *)
Theorem eval_root_is_einsum l r : wf_net -> full_tree (Node l r) -> forall e,
  eval_root n sl arr (Node l r) e = einsum_spec n sl arr e.
Proof.
  intros WF HF e. pose proof (full_tree_inrange _ HF) as HR. cbn [leaves] in HR.
  pose proof (inrange_app_l n _ _ HR) as HL. pose proof (inrange_app_r n _ _ HR) as HRr.
  set (L := leaves l) in *. set (R := leaves r) in *.
  assert (HLR : forall j, (cnt L j + cnt R j <= appear j)%nat).
  { intros j. rewrite <- cnt_app. apply cnt_le_appear, HR. }
  unfold eval_root, einsum_spec.
  assert (HP := dead_perm_gen (summed n sl true (Node l r)) L R HR
                  (NoDup_summed true _ (NoDup_involved l r HR)) (fun j => in_summed_root l r j WF HF)).
  assert (HP2 : Permutation (dead (L ++ R)) (inner n sl)).
  { etransitivity; [|apply dead_all_inner].
    apply NoDup_Permutation; [apply NoDup_dead|apply NoDup_dead|].
    intros j. rewrite !in_dead. unfold L, R. change (leaves l ++ leaves r) with (leaves (Node l r)).
    rewrite (cnt_perm _ _ j HF). tauto. }
  transitivity (sum_over dim (dead (L ++ R)) e (prodF (L ++ R))).
  - rewrite <- (sum_over_perm dim _ _ HP).
    2:{ eapply Permutation_NoDup; [symmetry; exact HP|apply NoDup_dead]. }
    2:{ apply prodF_respects. }
    rewrite sum_over_app. apply sum_over_ext. intros e'.
    rewrite (evalS_is_sum l HL e'), (evalS_is_sum r HRr e'). fold L R.
    rewrite (sum_over_mul dim (dead L) (dead R) e' (prodF L) (prodF R)).
    + apply sum_over_ext. intros e''. symmetry. apply prodF_app.
    + apply prodF_indep. intros j Hj. apply in_dead in Hj. split.
      * specialize (HLR j). lia.
      * apply (cnt_pos_not_removed R). lia.
    + apply prodF_indep. intros j Hj. apply in_dead in Hj. split.
      * specialize (HLR j). lia.
      * apply (cnt_pos_not_removed L). lia.
    + apply prodF_respects.
  - rewrite (sum_over_perm dim _ _ HP2) by (apply NoDup_dead || apply prodF_respects).
    apply sum_over_ext. intros e'. apply prodF_perm. exact HF.
Qed.

End T.

(* C13 -- in-memory caching is invisible: cached and uncached calls give the same answers.
   Statements only; every proof is `exact <lemma of Proofs/CacheFacts.v>` or a computation on
   the GENERATED lists of Gen/CacheKey.v (re-generated from cotengra/interface.py and re-checked
   by every run of ./check C13).

   Model: Model/CacheState.v.  `cached_outputs` is what a caller sees from
       try: r = CACHE[key] / except KeyError: r = CACHE[key] = compute(...)
   over a whole call sequence starting from an empty dict, `plain_outputs` what it sees with
   cache=False.  Dict keys are Python values compared with Python's == (py_eqb); `py_hash` is
   CPython 3.12's hash for ints / tuples / frozensets (str, object and None hashes are taken
   from the environment `e`).  `build` stands for _build_expression / find_path: an arbitrary
   function of the normalised locals.

   What is ASSUMED (premises, visible in the statements):
     - `build` cannot tell apart two calls that agree, view by view, on the fields it is handed
       (agree_on ... used): i.e. it reads nothing but its arguments, and treats x and y alike
       when tuple(x.items()) == tuple(y.items()) etc.;
     - hash_inj: Python's hash separates the key tuples that occur in the sequence.  This is
       NOT true in general -- C13_hash_inj_refuted -- and is not needed once the dict is keyed
       on the tuple itself (C13_cache_transparent_tuple_keyed). *)
From Coq Require Import String.
From Ctg Require Import Base CacheState CacheFacts CacheKey.

(* ---- the generated lists: every field the cached computation reads is in the key ---------- *)
Theorem C13_expr_used_in_key : inclb expr_used_fields (map fst (all_fields expr_key_expr)) = true.
Proof. vm_compute. reflexivity. Qed.
Print Assumptions C13_expr_used_in_key.

Theorem C13_path_used_in_key : inclb path_used_fields (map fst (all_fields path_key_expr)) = true.
Proof. vm_compute. reflexivity. Qed.
Print Assumptions C13_path_used_in_key.

(* the explicit key_fields lists are the fields of the generated key expressions *)
Theorem C13_generated_lists_consistent :
  filter (fun f => negb (String.eqb f "%empty")) (map fst (all_fields expr_key_expr)) = expr_key_fields /\
  filter (fun f => negb (String.eqb f "%empty")) (map fst (all_fields path_key_expr)) = path_key_fields.
Proof. split; vm_compute; reflexivity. Qed.
Print Assumptions C13_generated_lists_consistent.

(* ---- generic in the key expression and the lists ------------------------------------------ *)
(* non-interference: equal keys => the calls agree on every field the computation reads *)
Theorem C13_noninterference : forall e k used c1 c2,
  inclb used (map fst (inj_fields k)) = true ->
  py_eqb (eval_kexpr e c1 k) (eval_kexpr e c2 k) = true ->
  agree_on (inj_fields k) used c1 c2.
Proof. exact noninterference. Qed.
Print Assumptions C13_noninterference.

Theorem C13_key_determines_result : forall (R : Type) e k used (build : fields -> R),
  inclb used (map fst (inj_fields k)) = true ->
  (forall c1 c2, agree_on (inj_fields k) used c1 c2 -> build c1 = build c2) ->
  forall c1 c2, py_eqb (eval_kexpr e c1 k) (eval_kexpr e c2 k) = true -> build c1 = build c2.
Proof. exact key_determines_result. Qed.
Print Assumptions C13_key_determines_result.

(* the memo machine, any key function: for EVERY finite call sequence the outputs with caching
   equal the outputs without, provided indistinguishable keys mean equal results (sep) and the
   key computation does not raise or the TypeError is caught (noraise) *)
Theorem C13_memo_transparent :
  forall (C R : Type) (dkey : C -> pyval) (usecache keyok : C -> bool) (fallback : bool)
         (compute : C -> R) (cs : list C),
  sep dkey usecache keyok compute cs -> noraise usecache keyok fallback cs ->
  cached_outputs dkey usecache keyok fallback compute cs = plain_outputs compute cs.
Proof. exact @cache_transparent. Qed.
Print Assumptions C13_memo_transparent.

(* the caches of interface.py, any key expression k and used-list: *)
Theorem C13_cache_transparent :
  forall (R : Type) e k used fb (build : fields -> R) (cs : list ncall),
  inclb used (map fst (all_fields k)) = true ->
  (forall c1 c2, agree_on (all_fields k) used c1 c2 -> build c1 = build c2) ->
  hash_inj e k cs ->
  (fb = true \/ forall c, In c cs -> nc_use c = true -> nc_keyok k c = true) ->
  cached_outputs (nc_dkey e k) nc_use (nc_keyok k) fb (fun c => build (nc_fields c)) cs
  = plain_outputs (fun c => build (nc_fields c)) cs.
Proof. exact nc_cache_transparent. Qed.
Print Assumptions C13_cache_transparent.

(* ... and without any assumption on hash when the dict is keyed on the tuple itself *)
Theorem C13_cache_transparent_tuple_keyed :
  forall (R : Type) e k used fb (build : fields -> R) (cs : list ncall),
  has_hash k = false ->
  inclb used (map fst (all_fields k)) = true ->
  (forall c1 c2, agree_on (all_fields k) used c1 c2 -> build c1 = build c2) ->
  (fb = true \/ forall c, In c cs -> nc_use c = true -> nc_keyok k c = true) ->
  cached_outputs (nc_dkey e k) nc_use (nc_keyok k) fb (fun c => build (nc_fields c)) cs
  = plain_outputs (fun c => build (nc_fields c)) cs.
Proof. exact nc_cache_transparent_tuple_keyed. Qed.
Print Assumptions C13_cache_transparent_tuple_keyed.

(* instantiated at the GENERATED key expressions and used-lists of the current source *)
Theorem C13_expr_cache_transparent_generated :
  forall (R : Type) e (build : fields -> R) (cs : list ncall),
  (forall c1 c2, agree_on (all_fields expr_key_expr) expr_used_fields c1 c2 -> build c1 = build c2) ->
  hash_inj e expr_key_expr cs ->
  (expr_typeerror_fallback = true \/ forall c, In c cs -> nc_use c = true -> nc_keyok expr_key_expr c = true) ->
  cached_outputs (nc_dkey e expr_key_expr) nc_use (nc_keyok expr_key_expr) expr_typeerror_fallback
                 (fun c => build (nc_fields c)) cs
  = plain_outputs (fun c => build (nc_fields c)) cs.
Proof.
  intros R e build cs. exact (nc_cache_transparent R e expr_key_expr expr_used_fields
                                 expr_typeerror_fallback build cs C13_expr_used_in_key).
Qed.
Print Assumptions C13_expr_cache_transparent_generated.

Theorem C13_path_cache_transparent_generated :
  forall (R : Type) e (build : fields -> R) (cs : list ncall),
  (forall c1 c2, agree_on (all_fields path_key_expr) path_used_fields c1 c2 -> build c1 = build c2) ->
  hash_inj e path_key_expr cs ->
  (path_typeerror_fallback = true \/ forall c, In c cs -> nc_use c = true -> nc_keyok path_key_expr c = true) ->
  cached_outputs (nc_dkey e path_key_expr) nc_use (nc_keyok path_key_expr) path_typeerror_fallback
                 (fun c => build (nc_fields c)) cs
  = plain_outputs (fun c => build (nc_fields c)) cs.
Proof.
  intros R e build cs. exact (nc_cache_transparent R e path_key_expr path_used_fields
                                 path_typeerror_fallback build cs C13_path_used_in_key).
Qed.
Print Assumptions C13_path_cache_transparent_generated.

(* ---- refutations: what the faithful model of the pinned code violates ------------------------ *)
(* CPython: hash(-1) = hash(-2) = -2, so two different (hashable) key tuples have one hash *)
Theorem C13_hash_inj_refuted : forall e,
  exists a b, py_hashable a = true /\ py_hashable b = true /\
              py_eqb a b = false /\ py_hash e a = py_hash e b.
Proof. exact hash_inj_refuted. Qed.
Print Assumptions C13_hash_inj_refuted.

(* finding 11: for the key `(hash((inputs, output, items, optimize, kwargs)), len(inputs))` the calls
   inputs ((-1,),(-2,)) and ((-1,),(-1,)) (output (), sizes {-1:2,-2:2}, path ((0,1),)) collide,
   and the second call receives the first call's object *)
Theorem C13_legacy_key_hash_inj_refuted : forall e, ~ hash_inj e legacy_key [w_call (-2); w_call (-1)].
Proof. exact legacy_hash_inj_fails. Qed.
Print Assumptions C13_legacy_key_hash_inj_refuted.

Theorem C13_legacy_key_transparency_refuted :
  forall (R : Type) e fb (build : fields -> R),
  build (w_fields (-2)) <> build (w_fields (-1)) ->
  cached_outputs (nc_dkey e legacy_key) nc_use (nc_keyok legacy_key) fb (fun c => build (nc_fields c))
                 [w_call (-2); w_call (-1)]
  <> plain_outputs (fun c => build (nc_fields c)) [w_call (-2); w_call (-1)].
Proof. exact legacy_collision_breaks_transparency. Qed.
Print Assumptions C13_legacy_key_transparency_refuted.

(* a key that cannot be hashed is visible when the TypeError is not caught (array_contract_path) *)
Theorem C13_unhashable_visible_without_fallback :
  forall (C R : Type) (dkey : C -> pyval) (usecache keyok : C -> bool) (compute : C -> R) c,
  usecache c = true -> keyok c = false ->
  cached_outputs dkey usecache keyok false compute [c] <> plain_outputs compute [c].
Proof.
  intros C R dkey usecache keyok compute c Hu Hk.
  exact (unhashable_visible dkey usecache keyok false compute c Hu Hk eq_refl).
Qed.
Print Assumptions C13_unhashable_visible_without_fallback.

(* ---- shared expression objects ----------------------------------------------------------- *)
(* a cached expression is one shared object; if calling it does not write to it (it closes over an
   immutable program), every call -- hit or miss, whatever was contracted before -- returns what a
   freshly built expression returns on the same arrays *)
Theorem C13_expression_is_pure :
  forall (C S A V : Type) (dkey : C -> pyval) (usecache : C -> bool) (init : C -> S)
         (call : S -> A -> S * V),
  (forall s a, fst (call s a) = s) ->
  forall cas, sep_init dkey usecache init (map fst cas) ->
  obj_cached_outputs dkey usecache init call cas = obj_plain_outputs init call cas.
Proof. exact @expression_is_pure. Qed.
Print Assumptions C13_expression_is_pure.

(* the `frame` premise above, for the object the caches actually hold: on the GENERATED effect lists of
   cotengra/contract.py Contractor.__call__ -- it performs no write to self.*, to the class or to a
   global (so no state written by one call can influence a later call of the shared, cached object), and
   everything it reads from self is a slot set by __init__.  This is syntactic evidence for `frame`;
   the check also snapshots every slot of every expression around each call. *)
Theorem C13_contractor_call_is_read_only :
  contractor_call_writes = [] /\ inclb contractor_call_reads contractor_slots = true.
Proof. split; vm_compute; reflexivity. Qed.
Print Assumptions C13_contractor_call_is_read_only.

(* ---- per-class handler tables -------------------------------------------------------------- *)
Theorem C13_dispatch_by_class_sound : forall ch default (os : list pyobj),
  (forall o1 o2, In o1 os -> In o2 os -> o_cls o1 = o_cls o2 ->
     forall t, In t (chain_tests ch) -> o_test o1 t = o_test o2 t) ->
  dispatch_outputs ch default os = map (fun o => Some (decide ch default o)) os.
Proof. exact dispatch_by_class_sound. Qed.
Print Assumptions C13_dispatch_by_class_sound.

(* ---- the model's dict lookup (== only) is CPython's (hash, then ==) ---------------------------- *)
(* Python's data-model law a == b -> hash(a) == hash(b) holds for the modelled hash on frozenset-free
   values (so 1, 1.0, True share a slot, as in CPython) *)
Theorem C13_hash_respects_eq : forall e a, no_frozen a = true ->
  forall b, py_eqb a b = true -> py_hash e a = py_hash e b.
Proof. exact hash_respects_eq. Qed.
Print Assumptions C13_hash_respects_eq.

(* the ONLY collision of CPython's int hash among ints of magnitude < 2^61-1 is -1 / -2 *)
Theorem C13_hash_int_collisions_small : forall x y, (Z.abs x < P61)%Z -> (Z.abs y < P61)%Z ->
  hash_int x = hash_int y -> x = y \/ (x = (-1)%Z /\ y = (-2)%Z) \/ (x = (-2)%Z /\ y = (-1)%Z).
Proof. exact hash_int_collisions_small. Qed.
Print Assumptions C13_hash_int_collisions_small.

(* functools.lru_cache(typed=False) around a function of hashable arguments (the _parse_* helpers of
   contract.py, parse_equation_ellipses, get_symbol, preset_to_optimizer, can_hash_optimize): the dict is
   keyed on the argument tuple itself, so it is transparent for every call sequence provided the
   function does not distinguish ==-equal arguments *)
Theorem C13_lru_cache_transparent : forall (R : Type) (f : pyval -> R) (calls : list pyval),
  (forall a b, In a calls -> In b calls -> py_eqb a b = true -> f a = f b) ->
  (forall a, In a calls -> py_hashable a = true) ->
  cached_outputs (fun a => a) (fun _ => true) py_hashable false f calls = plain_outputs f calls.
Proof. exact lru_cache_transparent. Qed.
Print Assumptions C13_lru_cache_transparent.

(* ---- the size component of the key is a finite map index -> size ----------------------------- *)
(* on the GENERATED key expressions: size_dict enters as tuple(size_dict.items()), i.e. as the (index, size)
   pairs, in both caches *)
Theorem C13_generated_size_component_is_items :
  existsb (fun fw => String.eqb (fst fw) "size_dict" && view_eqb (snd fw) VItemsTuple) (all_fields expr_key_expr) = true /\
  existsb (fun fw => String.eqb (fst fw) "size_dict" && view_eqb (snd fw) VItemsTuple) (all_fields path_key_expr) = true.
Proof. split; vm_compute; reflexivity. Qed.
Print Assumptions C13_generated_size_component_is_items.

(* equal items components (Python ==) denote the same finite map: for every atomic index k,
   size_dict1[k] and size_dict2[k] are both absent or both present and equal -- what the answer may
   depend on.  (Two equal dicts in different key order get different keys: a miss, never a wrong hit.) *)
Theorem C13_items_determine_binding : forall l m,
  forallb item_ok l = true -> forallb item_ok m = true ->
  pylist_eqb l m = true ->
  forall k, simple k = true -> lookup_agree (dict_get l k) (dict_get m k).
Proof. exact items_determine_binding. Qed.
Print Assumptions C13_items_determine_binding.

(* tuple(size_dict.values()) instead: {'a':2,'b':50,'c':3,'d':40} and {'b':2,'a':50,'d':3,'c':40} have the
   same values component but bind `a` to 2 resp. 50; their items components differ *)
Theorem C13_values_lose_binding :
  py_eqb (values_of_items g16_items1) (values_of_items g16_items2) = true /\
  ~ lookup_agree (dict_get g16_items1 (PStr [97%nat])) (dict_get g16_items2 (PStr [97%nat])) /\
  py_eqb (PTuple g16_items1) (PTuple g16_items2) = false.
Proof. exact values_lose_binding. Qed.
Print Assumptions C13_values_lose_binding.

(* ---- the gate: only classes that enter the key by value may use the caches ------------------------ *)
(* on the GENERATED list of classes accepted by can_hash_optimize and the generated hash_prepare_optimize
   chain: every accepted class is immutable in the key (str, tuple, or list snapshotted into a tuple).
   A class keyed by identity (ContractionTree, an optimizer object) can be modified in place between two
   calls with the same key -- then `build_respects` (the computation reads nothing but the key's fields)
   is false and no transparency theorem applies; this theorem stops compiling for such a gate. *)
Theorem C13_gate_accepts_only_value_classes :
  forallb (gate_class_is_value prepare_chain) can_hash_classes = true.
Proof. vm_compute. reflexivity. Qed.
Print Assumptions C13_gate_accepts_only_value_classes.

(* ---- canonicalisation ------------------------------------------------------------------------ *)
(* with canonicalize=True an injective (w.r.t. ==) relabelling of the indices yields the very same
   normalised call -- same key, same arguments handed to the computation: sharing the entry is right *)
Theorem C13_canonical_form_ignores_labels : forall rho : pyval -> pyval,
  (forall a b, py_eqb (rho a) (rho b) = py_eqb a b) ->
  forall r, r_canon r = true -> is_edge_path (r_optimize r) = false ->
  normalize (relabel rho r) = normalize r.
Proof. exact canonical_form_ignores_labels. Qed.
Print Assumptions C13_canonical_form_ignores_labels.

(* ---- the path cache and the expression cache are two dicts ----------------------------------- *)
(* on the GENERATED names of the dicts that array_contract_path and array_contract_expression read
   and write (each a module-level name bound exactly once to `{}` and mentioned nowhere else --
   checked by the translator): they are different objects *)
Theorem C13_caches_are_separate :
  py_eqb (PStr (codes_of_string path_cache_table)) (PStr (codes_of_string expr_cache_table)) = false /\
  py_eqb (PStr (codes_of_string expr_cache_table)) (PStr (codes_of_string path_cache_table)) = false.
Proof. split; vm_compute; reflexivity. Qed.
Print Assumptions C13_caches_are_separate.

(* with different dicts the combined machine (path and expression requests interleaved in any order)
   is transparent as soon as each cache separates the calls that go through it *)
Theorem C13_two_caches_transparent :
  forall (R : Type) (tag : ckind -> pyval) e kx fb (compute : ckind * ncall -> R) (cs : list (ckind * ncall)),
  py_eqb (tag KPathCall) (tag KExprCall) = false -> py_eqb (tag KExprCall) (tag KPathCall) = false ->
  (forall c1 c2, In c1 cs -> In c2 cs -> fst c1 = fst c2 -> two_use c1 = true -> two_use c2 = true ->
     py_eqb (nc_dkey e (kx (fst c1)) (snd c1)) (nc_dkey e (kx (fst c2)) (snd c2)) = true ->
     compute c1 = compute c2) ->
  (fb = true \/ forall c, In c cs -> two_use c = true -> two_keyok kx c = true) ->
  cached_outputs (two_dkey tag e kx) two_use (two_keyok kx) fb compute cs = plain_outputs compute cs.
Proof. exact two_caches_transparent. Qed.
Print Assumptions C13_two_caches_transparent.

(* with ONE shared dict a path request followed by an option-free expression request for the same
   contraction (same key: kwargs = frozenset()) returns the path object to the expression request *)
Theorem C13_merged_caches_refuted :
  forall (R : Type) (t : pyval) e k fb (compute : ckind * ncall -> R) (n : ncall),
  nc_use n = true -> nc_keyok k n = true -> py_eqb t t = true ->
  py_eqb (nc_dkey e k n) (nc_dkey e k n) = true ->
  cached_outputs (two_dkey (fun _ => t) e (fun _ => k)) two_use (two_keyok (fun _ => k)) fb compute
                 [(KPathCall, n); (KExprCall, n)]
  = [Some (compute (KPathCall, n)); Some (compute (KPathCall, n))].
Proof. exact merged_caches_visible. Qed.
Print Assumptions C13_merged_caches_refuted.

(* ---- non-vacuity ---------------------------------------------------------------------------- *)
(* a concrete sequence with a hit, a miss caused by a different kwarg and an uncached call, under
   the generated key; `build` = the list of the used fields' values *)
Definition ex_env : henv :=
  tbl_env [([97%nat; 117%nat; 116%nat; 111%nat], 123456789%Z); ([97%nat], (-7583489610679606711)%Z);
           ([98%nat], 4993892634952068459%Z); ([99%nat], (-8964911004724264811)%Z); ([115%nat], 1122334455%Z)]
          [] 4238894112%Z.
Definition ex_fields (out : list pyval) (kw : list pyval) : fields :=
  [("inputs", PTuple [PTuple [PStr [97%nat]; PStr [98%nat]]; PTuple [PStr [98%nat]; PStr [99%nat]]]);
   ("output", PTuple out);
   ("size_dict", PDict [PTuple [PStr [97%nat]; PInt 2]; PTuple [PStr [98%nat]; PInt 3]; PTuple [PStr [99%nat]; PInt 2]]);
   ("optimize", PStr [97%nat; 117%nat; 116%nat; 111%nat]);
   ("kwargs", PDict kw); ("%empty", PDict [])].
Definition ex_ac := [PStr [97%nat]; PStr [99%nat]].
Definition ex_ca := [PStr [99%nat]; PStr [97%nat]].
Definition ex_strip := PTuple [PStr [115%nat]; PBool true].
Definition ex_calls : list ncall :=
  [mkCall true true (ex_fields ex_ac []); mkCall true true (ex_fields ex_ca []);
   mkCall true true (ex_fields ex_ac []); mkCall true true (ex_fields ex_ac [ex_strip]);
   mkCall false true (ex_fields ex_ca [])].
Example C13_example_trace :
  cache_trace ex_env expr_key_expr expr_typeerror_fallback ex_calls
  = ([(0, 0); (0, 1); (1, 0); (0, 3); (0, 4)]%nat,
     map (fun c => nc_dkey ex_env expr_key_expr c)
         [mkCall true true (ex_fields ex_ac []); mkCall true true (ex_fields ex_ca []);
          mkCall true true (ex_fields ex_ac [ex_strip])]).
Proof. vm_compute. reflexivity. Qed.

(* the hypotheses of C13_memo_transparent hold for that sequence (keys are pairwise distinct unless
   the calls are identical), so the theorem applies non-vacuously *)
Example C13_example_outputs :
  cached_outputs (nc_dkey ex_env expr_key_expr) nc_use (nc_keyok expr_key_expr) expr_typeerror_fallback
                 (fun c => map (getf (nc_fields c)) expr_used_fields) ex_calls
  = plain_outputs (fun c => map (getf (nc_fields c)) expr_used_fields) ex_calls.
Proof. vm_compute. reflexivity. Qed.

(* dispatch: two classes, the generated find_tree chain *)
Definition ex_obj (cls : nat) (isstr hassearch : bool) : pyobj :=
  mkObj cls (fun t => match t with
                      | TIsInstance l => isstr && strmem "str" l
                      | THasAttr _ => hassearch
                      end).
Example C13_example_dispatch :
  dispatch_outputs find_tree_chain find_tree_default [ex_obj 1 true false; ex_obj 2 false true; ex_obj 1 true false; ex_obj 3 false false]
  = [Some "_find_tree_preset"; Some "_find_tree_optimizer_search"; Some "_find_tree_preset"; Some "_find_tree_optimizer_basic"].
Proof. vm_compute. reflexivity. Qed.

(* a stateful expression (a call counter that leaks into the result) is NOT transparent: the frame
   hypothesis of C13_expression_is_pure is needed *)
Example C13_example_stateful_expression_visible :
  obj_cached_outputs (fun _ : unit => PInt 0) (fun _ => true) (fun _ => 0%Z)
                     (fun (s : Z) (a : Z) => ((s + 1)%Z, (a + s)%Z)) [(tt, 5%Z); (tt, 5%Z)]
  <> obj_plain_outputs (fun _ : unit => 0%Z) (fun (s : Z) (a : Z) => ((s + 1)%Z, (a + s)%Z)) [(tt, 5%Z); (tt, 5%Z)].
Proof. vm_compute. discriminate. Qed.

(* a relabelling that satisfies the hypothesis of C13_canonical_form_ignores_labels and changes the call *)
Definition ex_rho (v : pyval) : pyval := match v with PStr t => PStr (120%nat :: t) | _ => v end.
Example C13_example_rho_eq : forall a b, py_eqb (ex_rho a) (ex_rho b) = py_eqb a b.
Proof.
  intros a b; destruct a, b; reflexivity.
Qed.
Definition ex_raw : rawcall :=
  mkRaw [[PStr [105%nat]; PStr [106%nat]]; [PStr [106%nat]; PInt 7]] (Some [PInt 7; PStr [105%nat]])
        None (Some [[PInt 2; PInt 3]; [PInt 3; PInt 4]]) (PStr [97%nat; 117%nat; 116%nat; 111%nat])
        true false [] true true.
Example C13_example_relabel :
  r_inputs (relabel ex_rho ex_raw) <> r_inputs ex_raw /\
  normalize (relabel ex_rho ex_raw) = normalize ex_raw /\
  option_map (fun c => getf (nc_fields c) "inputs") (normalize ex_raw)
  = Some (PTuple [PTuple [PStr [97%nat]; PStr [98%nat]]; PTuple [PStr [98%nat]; PStr [99%nat]]]).
Proof. split; [vm_compute; discriminate | split; vm_compute; reflexivity]. Qed.

(* the hypotheses of C13_merged_caches_refuted are satisfiable: the first call of ex_calls, tuple key *)
Example C13_example_merged :
  let n := mkCall true true (ex_fields ex_ac []) in
  nc_use n = true /\ nc_keyok (tuple_key std_spec) n = true /\
  py_eqb (nc_dkey ex_env (tuple_key std_spec) n) (nc_dkey ex_env (tuple_key std_spec) n) = true.
Proof. vm_compute. repeat split. Qed.

(* a history-dependent expression: the object remembers the array library resolved by its FIRST call
   (state: None | Some library) and uses it for every later call.  Shared through the cache, a call on
   library 1 (numpy) after a call on library 0 (lazy) is evaluated with library 0; a fresh object is not *)
Example C13_example_remembered_backend_visible :
  let call := fun (s : option nat) (a : nat * Z) =>
                let lib := match s with Some l => l | None => fst a end in
                (Some lib, (lib, snd a)) in
  obj_cached_outputs (fun _ : unit => PInt 0) (fun _ => true) (fun _ => None) call [(tt, (0%nat, 5%Z)); (tt, (1%nat, 5%Z))]
  = [(0%nat, 5%Z); (0%nat, 5%Z)] /\
  obj_plain_outputs (fun _ : unit => None) call [(tt, (0%nat, 5%Z)); (tt, (1%nat, 5%Z))]
  = [(0%nat, 5%Z); (1%nat, 5%Z)].
Proof. split; vm_compute; reflexivity. Qed.

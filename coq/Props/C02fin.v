(* C02fin -- C02's value theorem with the structural premises derived.
   Statements only; proofs are `exact <lemma of Proofs/TreeStateFinal.v / TreeStateDfs.v>`.
   * C02fin_complete_sound: if the children dict of a state (with C04's children_ok, part of InvC) passes
     complete_b -- tree_of ... root = Some t and exactly N-1 entries -- then _traverse_dfs returns, within its
     fuel, every key of `children` exactly once, children before parents.
   * C02fin_prim_preserves: every primitive of the FULL alphabet (total_flops / total_write / max_size also
     when they recompute) preserves QP = InvC /\ (A) /\ preprocessing under the boolean primA_pre2_b
     (Model/TreeStatePre2.v), which mentions the tree only through complete_b.
   * C02fin_history_value: for every trace from a fresh tree with pre2_trace_b = true whose tail is a reset
     followed by queries, after extract_contractions (all its getter calls, has_preprocessing included):
     if the end state raised no exception, passes complete_b and is keyed by sorted nodes, then the children dict
     describes a tree Node l r along which the state contracts to einsum_spec of the sliced / projected
     network in the declared output order. *)
From Coq Require Import Lia Permutation.
From Ctg Require Import Base Net Einsum Program BaseFacts NetFacts ProgramFacts TreeState TreeStateFacts TreeStateInv
                        TreeStatePre TreeStateProg TreeStateValue TreeStateRec TreeStateRecipes TreeStateReady
                        TreeStatePreproc TreeStateReady2 TreeStateTotals TreeStateDfs TreeStatePre2 TdotFacts TreeStateTdot TreeStateFinal.
Open Scope nat_scope.

Theorem C02fin_complete_sound : forall n, 2 <= NN n -> forall s, children_ok n (children s) -> complete_b n s = true ->
  exists nodes, traverse n s = Some nodes /\ Permutation (map fst nodes) (nkeys (children s)) /\ children_first [] nodes.
Proof. exact complete_sound. Qed.
Print Assumptions C02fin_complete_sound.

Theorem C02fin_prim_preserves : forall n, 2 <= NN n -> NoDup (output n) ->
  forall p s, QP n s -> primA_pre2_b n p s = true -> QP n (step n p s).
Proof. exact step_preserves_QP2. Qed.
Print Assumptions C02fin_prim_preserves.

Theorem C02fin_checked_trace : forall n, 2 <= NN n -> NoDup (output n) ->
  forall tr s, QP n s -> pre2_trace_b n tr s = true -> QP n (run n tr s).
Proof. exact checked_trace2_QP. Qed.
Print Assumptions C02fin_checked_trace.

Theorem C02fin_history_ready : forall n, 2 <= NN n -> NoDup (output n) ->
  forall tr pe nodes, wf_net_b n = true -> pre2_trace_b n tr (init_state n) = true -> tail_ok_b tr = true ->
  let s1 := run n tr (init_state n) in
  let s := extract_all n pe nodes s1 in
  nodes_ok_b s1 nodes = true -> sorted_keys_b s = true -> err s = false -> complete_b n s = true ->
  exists l r, tree_of (tfuel s) (children s) (seq 0 (NN n)) = Some (Node l r) /\
              contractible_b n s (Node l r) = true /\ PB s.
Proof. exact final_history_ready. Qed.
Print Assumptions C02fin_history_ready.

Theorem C02fin_history_value : forall n tr pe nodes arr e0,
  2 <= NN n -> wf_net_b n = true ->
  pre2_trace_b n tr (init_state n) = true -> tail_ok_b tr = true ->
  let s := extract_all n pe nodes (run n tr (init_state n)) in
  nodes_ok_b (run n tr (init_state n)) nodes = true -> sorted_keys_b s = true -> err s = false -> complete_b n s = true ->
  exists l r, tree_of (tfuel s) (children s) (seq 0 (NN n)) = Some (Node l r) /\
  forall e, agree_removed (sliced s) e0 e ->
  srun_root n s arr e0 (Node l r) (map e (filter (fun j => negb (memb j (removed (sliced s)))) (output n)))
  = einsum_spec n (sliced s) arr e.
Proof. exact final_history_value. Qed.
Print Assumptions C02fin_history_value.

(* ---- the tensordot execution path, any admissible (e.g. sorted) axis orders ----
   srun_x n s arr e0 pe t (Proofs/TreeStateTdot.v): what the Contractor executes, read off the caches of the
   state: at a node, tensordot(L, R, cached tensordot_axes) followed by transpose(cached tensordot_perm) when
   prefer_einsum is off and the cached can_dot is True (and both recipes are cached -- they are:
   C02fin_extract_caches_tensordot), else einsum with the cached index orders. *)
Theorem C02fin_td_perm_is_program_perm : forall li ri pi, TreeState.td_perm li ri pi = TdotFacts.td_perm li ri pi.
Proof. exact td_perm_eq. Qed.
Print Assumptions C02fin_td_perm_is_program_perm.

Theorem C02fin_extract_caches_tensordot : forall n, 2 <= NN n -> NoDup (output n) ->
  forall nodes s, GoodSt n s -> (forall e, In e nodes -> nget (fst e) (children s) <> None) ->
  err (extract n false nodes s) = false -> forall e, In e nodes -> td_cached (extract n false nodes s) (fst e).
Proof. exact extract_caches_td. Qed.
Print Assumptions C02fin_extract_caches_tensordot.

(* every node: the mixed execution holds the same array (shape and every entry) as the einsum path *)
Theorem C02fin_exec_node_eq_einsum : forall n, 2 <= NN n -> forall s, InvC n s -> PA n s -> PB s ->
  sorted_keys_b s = true -> (forall p l r, nget p (children s) = Some (l, r) -> filled3 s p l r) ->
  forall arr e0 pe f nd t, tree_of f (children s) nd = Some t -> ss nd -> rd i_inds s nd <> None -> good_node n nd ->
  node_of t = nd /\
  sarr_eq (srun_x n s arr e0 pe t) (map (dim n) (cinds s t), srun_sub n s arr e0 t).
Proof. exact sub_x_eq. Qed.
Print Assumptions C02fin_exec_node_eq_einsum.

Theorem C02fin_history_exec : forall n, 2 <= NN n -> NoDup (output n) ->
  forall tr pe nodes arr e0,
  wf_net_b n = true -> pre2_trace_b n tr (init_state n) = true -> tail_ok_b tr = true ->
  let s1 := run n tr (init_state n) in
  let s := extract_all n pe nodes s1 in
  nodes_ok_b s1 nodes = true -> sorted_keys_b s = true -> err s = false -> complete_b n s = true ->
  exists l r, tree_of (tfuel s) (children s) (seq 0 (NN n)) = Some (Node l r) /\
    fst (srun_x n s arr e0 pe (Node l r)) = map (dim n) (filter (fun j => negb (memb j (removed (sliced s)))) (output n)) /\
    forall e, agree_removed (sliced s) e0 e ->
      snd (srun_x n s arr e0 pe (Node l r)) (map e (filter (fun j => negb (memb j (removed (sliced s)))) (output n)))
      = einsum_spec n (sliced s) arr e.
Proof. exact final_history_exec. Qed.
Print Assumptions C02fin_history_exec.

(* non-vacuity: 'aab,bc,cd->d': build, recipe, slice b, query, restore b, total_flops after forgetting the
   tracked totals is impossible in the model, so: stats, max_size, then extract_contractions *)
Definition exf := mkNet [[0;0;1]; [1;2]; [2;3]] [3] [(0,2%Z);(1,3%Z);(2,2%Z);(3,2%Z)].
Definition exf_tr : list prim :=
  [PPair [0] [1] None None None; PPair [0;1] [2] None None None;
   PTotalFlops; PMaxSize; PTotalWrite;
   PGet GEq [0;1;2]; PRemoveInd 1 None; PGet GLegs [0]; PRestoreInd 1; PStats true;
   PSortInds PrFlops true true false].
Definition exf_nodes : list (node * (node * node)) := [([0;1], ([0], [1])); ([0;1;2], ([0;1], [2]))].
Definition exf_ok (pe : bool) : bool :=
  let s := extract_all exf pe exf_nodes (run exf exf_tr (init_state exf)) in
  sorted_keys_b s && negb (err s) && complete_b exf s
  && contractible_b exf s (Node (Node (Leaf 0) (Leaf 1)) (Leaf 2)).
Example C02fin_nonvacuous :
  wf_net_b exf = true /\ pre2_trace_b exf exf_tr (init_state exf) = true /\ tail_ok_b exf_tr = true
  /\ nodes_ok_b (run exf exf_tr (init_state exf)) exf_nodes = true
  /\ exf_ok true = true /\ exf_ok false = true
  (* with prefer_einsum = False the tensordot path is really taken at the sorted node [0;1] *)
  /\ (match use_td (extract_all exf false exf_nodes (run exf exf_tr (init_state exf))) false [0;1] with Some _ => true | None => false end) = true
  (* total_flops on an incomplete tree is rejected *)
  /\ primA_pre2_b exf PTotalFlops (run exf [PPair [0] [1] None None None] (init_state exf)) = false
  /\ trk_flops (run exf [PPair [0] [1] None None None; PPair [0;1] [2] None None None; PTotalFlops] (init_state exf)) = true.
Proof. vm_compute. repeat split; reflexivity. Qed.

(* C17 -- operations that take a seed are deterministic functions of their arguments.
   Statements only; every proof is `exact <lemma of Proofs/SeedFacts.v>` (applied to a boolean
   that is computed by vm_compute on the REGENERATED graph Gen/SeedFlow.v).

   Model: Model/SeedSem.v (abstract semantics: a run has two hidden inputs, the state of the
   global generator and a permutation oracle for hash-ordered iteration) over the call
   graph that harness/translators/seedflow.py extracts from the cotengra source on every
   check run (Gen/SeedFlow.v: `graph`, `api_table`, `node_names`).

   C17_seedflow_sound is about EVERY graph; C17_api_* are about the generated one.  What
   ties the graph to the code is the translator (fail-closed) plus the run-time comparison
   done by harness/props/c17.py (which functions really draw from the global generator
   during each API call) plus the fresh-interpreter oracle.

   The two literal lists below are maintained by hand: a public seeded operation that
   appears in the source but in neither list makes C17_apis_covered fail (and the check
   reports it by name before that). *)
From Coq Require Import List String Bool.
From Ctg Require Import SeedSem SeedFacts SeedFlow.
Import ListNotations.
Open Scope string_scope.

(* for an arbitrary generator, graph, call depth, seed: an entry point that passes the static
   check returns observations independent of the global generator state and of the
   hash-iteration oracle, and leaves both as it found them *)
Theorem C17_seedflow_sound : forall (G : gen) (gr : sgraph) (api : nat),
  entry_ok gr api = true ->
  forall (fuel seed : nat) (st st' : hidden),
    trace_of (run G gr fuel api (Some seed) st) = trace_of (run G gr fuel api (Some seed) st')
    /\ hidden_of (run G gr fuel api (Some seed) st) = st.
Proof. exact seedflow_sound. Qed.
Print Assumptions C17_seedflow_sound.

Theorem C17_seedflow_sound_gh : forall (G : gen) (gr : sgraph) (api : nat),
  entry_ok gr api = true ->
  forall fuel seed g g' h h' k k',
    trace_of (run G gr fuel api (Some seed) {| h_g := g; h_perm := h; h_cnt := k |}) =
    trace_of (run G gr fuel api (Some seed) {| h_g := g'; h_perm := h'; h_cnt := k' |}).
Proof. exact seedflow_sound_gh. Qed.
Print Assumptions C17_seedflow_sound_gh.

(* public seeded operations for which the static check is expected to pass *)
Definition C17_expected_ok : list string := [
  "core.jitter_dict";
  "core.ContractionTree.get_subtree";
  "core.ContractionTree.slice";
  "core.ContractionTree.unslice_rand";
  "core.ContractionTree.windowed_reconfigure";
  "core.ContractionTree.parallel_temper";
  "core.ContractionTree.simulated_anneal";
  "core.ContractionTreeCompressed.simulated_anneal";
  "core.PartitionTreeBuilder.build_agglom";
  "core.PartitionTreeBuilder.build_divide";
  "hyperoptimizers.hyper.ComputeScore";
  "hyperoptimizers.hyper_cmaes.LCBOptimizer";
  "hyperoptimizers.hyper_random.random_init_optimizers";
  "hyperoptimizers.hyper_random.RandomSampler";
  "hyperoptimizers.hyper_random.RandomSpace";
  "pathfinders.path_basic.optimize_random_greedy_track_flops";
  "pathfinders.path_basic.ContractionProcessor.optimize_greedy";
  "pathfinders.path_basic.RandomGreedyOptimizer";
  "pathfinders.path_compressed.WindowedOptimizer";
  "pathfinders.path_compressed_greedy.GreedyCompressed";
  "pathfinders.path_compressed_greedy.GreedySpan";
  "pathfinders.path_kahypar.kahypar_subgraph_find_membership";
  "pathfinders.path_kahypar.kahypar_to_tree.build_divide";
  "pathfinders.path_labels.labels_partition";
  "pathfinders.path_labels.labels_to_tree.build_divide";
  "pathfinders.path_random.RandomOptimizer";
  "pathfinders.path_simulated_annealing.parallel_temper_tree";
  "pathfinders.path_simulated_annealing.simulated_anneal_tree";
  "slicer.SliceFinder";
  "utils.lattice_equation";
  "utils.make_arrays_from_eq";
  "utils.make_arrays_from_inputs";
  "utils.make_rand_size_dict_from_inputs";
  "utils.networkx_graph_to_equation";
  "utils.perverse_equation";
  "utils.rand_equation";
  "utils.rand_tree";
  "utils.randreg_equation";
  "utils.tree_equation";
  "utils.GumbelBatchedGenerator"
].

(* public seeded operations known NOT to pass (KNOWN_FINDINGS.txt, property C17):
     *.build_agglom                     key agglom-seed-not-forwarded: PartitionTreeBuilder.build_agglom calls
                                        the partition function without the seed, so labels_partition /
                                        kahypar_subgraph_find_membership draw from the global generator
     ContractionTree.subtree_reconfigure key reconf-search-seed-not-forwarded: get_subtree(search='random') is
                                        called without the seed
     ...subtree_reconfigure_forest      key forest-seed-not-forwarded: the per-tree subtree_reconfigure calls
                                        get no seed (select='random' and get_subtree draw globally) *)
Definition C17_known_refuted : list string := [
  "core.ContractionTree.subtree_reconfigure";
  "core.ContractionTree.subtree_reconfigure_forest";
  "pathfinders.path_kahypar.kahypar_to_tree.build_agglom";
  "pathfinders.path_labels.labels_to_tree.build_agglom"
].

(* the translator translated everything it met *)
Theorem C17_translation_complete : untranslatable_count = 0.
Proof. exact (eq_refl 0). Qed.
Print Assumptions C17_translation_complete.

(* every public seeded operation found in the source is in one of the two lists *)
Theorem C17_apis_covered : forall name, In name (map fst api_table) ->
  In name C17_expected_ok \/ In name C17_known_refuted.
Proof. exact (covered_b_sound (map fst api_table) C17_expected_ok C17_known_refuted
         (eq_refl true <: covered_b (map fst api_table) C17_expected_ok C17_known_refuted = true)). Qed.
Print Assumptions C17_apis_covered.

(* per public seeded API: the static check passes on the regenerated graph ... *)
Theorem C17_api_deterministic : forall name id,
  In name C17_expected_ok -> In (name, id) api_table -> entry_ok graph id = true.
Proof.
  exact (all_ok_b_sound graph api_table C17_expected_ok
         (eq_refl true <: all_ok_b graph api_table C17_expected_ok = true)).
Qed.
Print Assumptions C17_api_deterministic.

(* ... hence, in the model, its result is a function of its arguments and its seed alone *)
Theorem C17_api_deterministic_runs : forall name id,
  In name C17_expected_ok -> In (name, id) api_table ->
  forall (G : gen) (fuel seed : nat) (st st' : hidden),
    trace_of (run G graph fuel id (Some seed) st) = trace_of (run G graph fuel id (Some seed) st')
    /\ hidden_of (run G graph fuel id (Some seed) st) = st.
Proof.
  exact (fun name id Hn Hi G =>
           seedflow_sound G graph id (C17_api_deterministic name id Hn Hi)).
Qed.
Print Assumptions C17_api_deterministic_runs.

(* every API of the regenerated graph that does NOT pass is one of the known ones, and the
   reachability analysis exhibits why: a reachable function x, in abstract state `snd x`
   (false = its rng is the global generator), with an event that is not fine in that state
   (a draw from the global generator or a hash-ordered iteration).  The check prints the
   culprits by name.  (An entry of C17_known_refuted that starts passing after a fix makes
   this statement weaker, not false; the check reports it as a note.) *)
Theorem C17_api_nondeterministic_refuted : forall name id,
  In (name, id) api_table -> entry_ok graph id = false ->
  In name C17_known_refuted /\
  exists x e, In x (reach_from graph id) /\ In e (body_of graph (fst x)) /\ event_ok (snd x) e = false.
Proof.
  exact (all_refuted_b_sound graph api_table C17_known_refuted
         (eq_refl true <: all_refuted_b graph api_table C17_known_refuted = true)).
Qed.
Print Assumptions C17_api_nondeterministic_refuted.

(* non-vacuity.  (1) the hypothesis of C17_seedflow_sound is satisfiable by a non-trivial
   graph whose trace really uses the seed; (2) it is not always satisfied, and where it
   fails the model's result really depends on the hidden inputs *)
Example C17_ex_ok_graph :
  entry_ok g_fixed 0 = true /\
  trace_of (run lcg g_fixed 5 0 (Some 42) (hid 0 (fun _ => 0))) <>
  trace_of (run lcg g_fixed 5 0 (Some 43) (hid 0 (fun _ => 0))).
Proof. exact (conj g_fixed_ok g_fixed_uses_seed). Qed.

Example C17_ex_seed_not_forwarded :
  entry_ok g_agglom 0 = false /\
  trace_of (run lcg g_agglom 5 0 (Some 42) (hid 0 (fun _ => 0))) <>
  trace_of (run lcg g_agglom 5 0 (Some 42) (hid 1 (fun _ => 0))).
Proof. exact (conj g_agglom_not_ok g_agglom_depends_on_global). Qed.

Example C17_ex_hash_iteration :
  entry_ok g_hash 0 = false /\
  trace_of (run lcg g_hash 5 0 (Some 42) (hid 0 (fun _ => 0))) <>
  trace_of (run lcg g_hash 5 0 (Some 42) (hid 0 (fun _ => 1))).
Proof. exact (conj g_hash_not_ok g_hash_depends_on_hash). Qed.

(* the generated graph is not degenerate: the random-greedy optimizer is in the table, passes,
   and reaches functions that draw from their own rng *)
Example C17_ex_real_api :
  str_inb "pathfinders.path_basic.RandomGreedyOptimizer" (map fst api_table) = true /\
  existsb (fun x => existsb (fun e => match e with EDrawOwn => true | _ => false end) (body_of graph (fst x)))
          (flat_map (fun e => if String.eqb (fst e) "pathfinders.path_basic.RandomGreedyOptimizer"
                              then reach_from graph (snd e) else []) api_table) = true.
Proof. vm_compute. split; reflexivity. Qed.

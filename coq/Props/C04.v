(* C04 -- incrementally tracked costs equal a from-scratch rebuild after any history.
   Statements only; proofs are `exact <lemma of Proofs/TreeStateFacts.v>`.
   Model: Model/TreeState.v (the mutable ContractionTree as a state machine over the primitive
   mutators; tied to cotengra/core.py by harness/props/c04.py, which replays the primitive trace
   of every high-level call and compares the full state).
   What is proved for ALL inputs:  MaxCounter; the annealing cost rule = the tree rule;
   the figures are a function of (children, sliced_inds) for every state satisfying the invariant.
   What is certified PER RUN (verified checker, soundness proved here, executed inside Coq on
   every state the real code reaches): the invariant itself.
   NOT proved: prim_preserves_Inv (the inductive step for each primitive) -- C04_totals_eq_rebuild
   is therefore stated for states that satisfy CostInv, and CostInv is established per observed
   state by C04_cost_checker_sound, not by induction over traces.  See docs/C04.md. *)
From Coq Require Import Lia.
From Ctg Require Import Base Net BaseFacts NetFacts TreeState TreeStateFacts.

(* utils.MaxCounter: after ANY sequence of add/discard from empty, the counter holds exactly the
   multiset the sequence denotes and max() is the maximum of that multiset (None = -inf = empty) *)
Theorem C04_maxcounter_correct : forall ops,
  let m := mc_run ops mc_empty in
  (forall y, cget0 y (fst m) = ms_count ops y) /\
  match mc_max m with
  | None => forall y, ms_count ops y = 0
  | Some M => 0 < ms_count ops M /\ forall y, 0 < ms_count ops y -> (y <= M)%Z
  end.
Proof. exact maxcounter_correct. Qed.
Print Assumptions C04_maxcounter_correct.

(* compute_contracted_info(legsa, legsb) (simulated annealing) returns exactly what the tree
   computes for a node whose children carry legsa and legsb: legs = get_legs' rule (same key
   order), cost = get_flops, size = get_size.  This is the precondition under which
   contract_nodes_pair(legs=,cost=,size=) installs correct figures (also C18's anneal rule). *)
Theorem C04_anneal_rule_is_tree_rule : forall n la lb, NoDup (lkeys la) -> NoDup (lkeys lb) ->
  compute_contracted_info n la lb =
    (filter (fun kv => Nat.ltb (snd kv) (appear n (fst kv))) (legs_union2 la lb),
     (size_of (szd n) (lkeys (legs_union2 la lb)),
      size_of (szd n) (lkeys (filter (fun kv => Nat.ltb (snd kv) (appear n (fst kv))) (legs_union2 la lb))))).
Proof. exact cci_is_tree_rule. Qed.
Print Assumptions C04_anneal_rule_is_tree_rule.

(* soundness of the checker the correspondence runs on every observed state *)
Theorem C04_cost_checker_sound : forall n s, cost_inv_b n s = true -> CostInv n s.
Proof. exact cost_inv_b_sound. Qed.
Print Assumptions C04_cost_checker_sound.

(* totals_eq_rebuild / slice_unslice_roundtrip (partial: for states satisfying CostInv) *)
Theorem C04_totals_eq_rebuild_partial : forall n s1 s2, CostInv n s1 -> CostInv n s2 ->
  children s1 = children s2 -> sliced s1 = sliced s2 ->
  (forall nd i1 i2 t, In (nd, i1) (info s1) -> In (nd, i2) (info s2) ->
     tree_of (tfuel s1) (children s1) nd = Some t ->
     (forall z1 z2, i_size i1 = Some z1 -> i_size i2 = Some z2 -> z1 = z2) /\
     (forall z1 z2, i_flops i1 = Some z1 -> i_flops i2 = Some z2 -> z1 = z2) /\
     (forall l1 l2, i_legs i1 = Some l1 -> i_legs i2 = Some l2 -> legs_equiv l1 l2) /\
     (forall l1 l2, i_involved i1 = Some l1 -> i_involved i2 = Some l2 -> legs_equiv l1 l2)) /\
  (forall ts, child_trees n s1 = Some ts ->
     (trk_flops s1 = true -> trk_flops s2 = true -> flops_ s1 = flops_ s2) /\
     (trk_write s1 = true -> trk_write s2 = true -> write_ s1 = write_ s2) /\
     mult s1 = mult s2).
Proof. exact costinv_determines. Qed.
Print Assumptions C04_totals_eq_rebuild_partial.

(* non-vacuity.  'ab,bc,cd->ad', path ((0,1),(0,1)): build the tree with the primitives, query the
   stats, slice b, restore it: the invariant holds at every stage and the totals return. *)
Definition ex_net := mkNet [[0;1]; [1;2]; [2;3]] [0;3] [(0,2%Z);(1,3%Z);(2,2%Z);(3,2%Z)].
Definition ex_build := [PPair [0] [1] None None None; PPair [0;1] [2] None None None; PStats false].
Example C04_nonvacuous :
  let s0 := run ex_net ex_build (init_state ex_net) in
  let s1 := run ex_net [PRemoveInd 1 None] s0 in
  let s2 := run ex_net [PRestoreInd 1] s1 in
  cost_inv_b ex_net s0 = true /\ cost_inv_b ex_net s1 = true /\ cost_inv_b ex_net s2 = true /\
  (flops_ s0, write_ s0, mult s0) = (20%Z, 8%Z, 1%Z) /\
  (flops_ s1, write_ s1, mult s1) = (12%Z, 8%Z, 3%Z) /\
  (flops_ s2, write_ s2, mult s2) = (flops_ s0, write_ s0, mult s0) /\
  err s2 = false /\
  mc_max (mc_run [MAdd 3%Z; MAdd 5%Z; MDiscard 5%Z; MAdd 4%Z] mc_empty) = Some 4%Z.
Proof. vm_compute. repeat split; reflexivity. Qed.

(* the known finding (KNOWN_FINDINGS key=anneal_remove_output_ind) inside the model: a root created
   with a precomputed size and no legs (what simulated annealing does) followed by
   remove_ind(<output index>) BROKE the invariant before fix commit (remove_ind now caches the legs of every node first);
   the former witness now preserves it -- kept as a regression example *)
Theorem C04_remove_ind_former_witness_ok :
  exists n s ind, cost_inv_b n s = true /\ err (remove_ind n ind None s) = false
                  /\ cost_inv_b n (remove_ind n ind None s) = true.
Proof.
  exists ex_net.
  exists (run ex_net [PPair [0] [1] None None None; PPair [0;1] [2] None None None; PStats false;
                      PRemoveNode [0;1;2]; PPair [0;1] [2] None (Some 8%Z) (Some 4%Z)]
              (init_state ex_net)).
  exists 0. vm_compute. repeat split; reflexivity.
Qed.
Print Assumptions C04_remove_ind_former_witness_ok.

(* C04 -- incrementally tracked costs equal a from-scratch rebuild after any history.
   Statements only; proofs are `exact <lemma of Proofs/TreeStateFacts.v>`.
   Model: Model/TreeState.v (the mutable ContractionTree as a state machine over the primitive
   mutators; tied to cotengra/core.py by harness/props/c04.py, which replays the primitive trace
   of every high-level call and compares the full state).
   What is proved for ALL inputs:  MaxCounter; the annealing cost rule = the tree rule;
   the figures are a function of (children, sliced_inds) for every state satisfying the invariant.
   What is certified PER RUN (verified checker, soundness proved here, executed inside Coq on
   every state the real code reaches): the invariant itself.
   (Round 1 stated C04_totals_eq_rebuild for states that satisfy CostInv, established per observed
   state by C04_cost_checker_sound.  Since then the inductive step IS proved: every primitive of the
   trace alphabet preserves the cost invariant InvC under its stated precondition --
   C04_prim_preserves_inv / C04_trace_from_fresh_tree in Props/C04fin.v are the full-strength forms
   of the `_partial` theorems below; Props/C04str.v, C04par.v refine the preconditions.)  See docs/C04.md. *)
From Coq Require Import Lia.
From Coq Require Import Permutation.
From Ctg Require Import Base Net BaseFacts NetFacts TreeState TreeStateFacts TreeStateInv TreeStatePre TreeStateMon.

(* utils.MaxCounter: after ANY sequence of add/discard from empty, the counter holds exactly the
   multiset the sequence denotes and max() is the maximum of that multiset (None = -inf = empty) *)
Theorem C04_maxcounter_correct : forall ops,
  let m := mc_run ops mc_empty in
  (forall y, cget0 y (fst m) = ms_count ops y) /\
  match mc_max m with
  | None => forall y, ms_count ops y = 0
  | Some M => 0 < ms_count ops M /\ forall y, 0 < ms_count ops y -> (y <= M)%Z
  end.
Proof. exact maxcounter_correct. Qed.
Print Assumptions C04_maxcounter_correct.

(* compute_contracted_info(legsa, legsb) (simulated annealing) returns exactly what the tree
   computes for a node whose children carry legsa and legsb: legs = get_legs' rule (same key
   order), cost = get_flops, size = get_size.  This is the precondition under which
   contract_nodes_pair(legs=,cost=,size=) installs correct figures (also C18's anneal rule). *)
Theorem C04_anneal_rule_is_tree_rule : forall n la lb, NoDup (lkeys la) -> NoDup (lkeys lb) ->
  compute_contracted_info n la lb =
    (filter (fun kv => Nat.ltb (snd kv) (appear n (fst kv))) (legs_union2 la lb),
     (size_of (szd n) (lkeys (legs_union2 la lb)),
      size_of (szd n) (lkeys (filter (fun kv => Nat.ltb (snd kv) (appear n (fst kv))) (legs_union2 la lb))))).
Proof. exact cci_is_tree_rule. Qed.
Print Assumptions C04_anneal_rule_is_tree_rule.

(* soundness of the checker the correspondence runs on every observed state *)
Theorem C04_cost_checker_sound : forall n s, cost_inv_b n s = true -> CostInv n s.
Proof. exact cost_inv_b_sound. Qed.
Print Assumptions C04_cost_checker_sound.

(* totals_eq_rebuild / slice_unslice_roundtrip (partial: for states satisfying CostInv) *)
Theorem C04_totals_eq_rebuild_partial : forall n s1 s2, CostInv n s1 -> CostInv n s2 ->
  children s1 = children s2 -> sliced s1 = sliced s2 ->
  (forall nd i1 i2 t, In (nd, i1) (info s1) -> In (nd, i2) (info s2) ->
     tree_of (tfuel s1) (children s1) nd = Some t ->
     (forall z1 z2, i_size i1 = Some z1 -> i_size i2 = Some z2 -> z1 = z2) /\
     (forall z1 z2, i_flops i1 = Some z1 -> i_flops i2 = Some z2 -> z1 = z2) /\
     (forall l1 l2, i_legs i1 = Some l1 -> i_legs i2 = Some l2 -> legs_equiv l1 l2) /\
     (forall l1 l2, i_involved i1 = Some l1 -> i_involved i2 = Some l2 -> legs_equiv l1 l2)) /\
  (forall ts, child_trees n s1 = Some ts ->
     (trk_flops s1 = true -> trk_flops s2 = true -> flops_ s1 = flops_ s2) /\
     (trk_write s1 = true -> trk_write s2 = true -> write_ s1 = write_ s2) /\
     mult s1 = mult s2).
Proof. exact costinv_determines. Qed.
Print Assumptions C04_totals_eq_rebuild_partial.

(* non-vacuity.  'ab,bc,cd->ad', path ((0,1),(0,1)): build the tree with the primitives, query the
   stats, slice b, restore it: the invariant holds at every stage and the totals return. *)
Definition ex_net := mkNet [[0;1]; [1;2]; [2;3]] [0;3] [(0,2%Z);(1,3%Z);(2,2%Z);(3,2%Z)].
Definition ex_build := [PPair [0] [1] None None None; PPair [0;1] [2] None None None; PStats false].
Example C04_nonvacuous :
  let s0 := run ex_net ex_build (init_state ex_net) in
  let s1 := run ex_net [PRemoveInd 1 None] s0 in
  let s2 := run ex_net [PRestoreInd 1] s1 in
  cost_inv_b ex_net s0 = true /\ cost_inv_b ex_net s1 = true /\ cost_inv_b ex_net s2 = true /\
  (flops_ s0, write_ s0, mult s0) = (20%Z, 8%Z, 1%Z) /\
  (flops_ s1, write_ s1, mult s1) = (12%Z, 8%Z, 3%Z) /\
  (flops_ s2, write_ s2, mult s2) = (flops_ s0, write_ s0, mult s0) /\
  err s2 = false /\
  mc_max (mc_run [MAdd 3%Z; MAdd 5%Z; MDiscard 5%Z; MAdd 4%Z] mc_empty) = Some 4%Z.
Proof. vm_compute. repeat split; reflexivity. Qed.

(* the known finding (KNOWN_FINDINGS key=anneal_remove_output_ind) inside the model: a root created
   with a precomputed size and no legs (what simulated annealing does) followed by
   remove_ind(<output index>) BROKE the invariant before fix commit (remove_ind now caches the legs of every node first);
   the former witness now preserves it -- kept as a regression example *)
Theorem C04_remove_ind_former_witness_ok :
  exists n s ind, cost_inv_b n s = true /\ err (remove_ind n ind None s) = false
                  /\ cost_inv_b n (remove_ind n ind None s) = true.
Proof.
  exists ex_net.
  exists (run ex_net [PPair [0] [1] None None None; PPair [0;1] [2] None None None; PStats false;
                      PRemoveNode [0;1;2]; PPair [0;1] [2] None (Some 8%Z) (Some 4%Z)]
              (init_state ex_net)).
  exists 0. vm_compute. repeat split; reflexivity.
Qed.
Print Assumptions C04_remove_ind_former_witness_ok.

(* ======================================================================================== *)
(* The inductive step (Proofs/TreeStateInv.v).  InvC n s is the cost invariant stated FROM THE
   NETWORK ALONE (leaf sets, no tree shape): every present cached legs of a node nd has exactly
   the counts spec_count nd (C03's definition; the declared output at the root); every present
   involved of a node with children (l, r) has counts spec_count l + spec_count r; every present
   size / flops is the product of the dimensions over those key sets; when tracked, _flops and
   _write are the sums, and _sizes the multiset, of the cached figures of the nodes in `children`,
   all of which are then cached; multiplicity is the product of the sliced sizes; children is a
   forest of disjoint unions.
   PROVED preserved (under the stated precondition prim_pre) by: _add_node, _remove_node (leaf and
   internal), contract_nodes_pair without precomputed figures and WITH precomputed legs / cost /
   size that satisfy the tree rule (what C04_anneal_rule_is_tree_rule delivers), _update_tracked,
   the cached getters get_legs (incl. the leaves-union fallback), get_involved, get_size, get_flops,
   contract_stats (precondition: the dfs traversal enumerates the keys of `children` -- a complete
   tree -- and they all have info entries), the contractor-cache events, and (round 3) remove_ind
   (precondition rm_pre: index not yet removed, its size positive, contract_stats' precondition, and
   after the population phase every internal node of `info` is a key of `children` with legs,
   involved, size, flops cached and "index in legs => index in involved"), the recipe getters
   get_can_dot / get_inds / get_tensordot_axes / get_tensordot_perm / get_einsum_eq,
   reset_contraction_indices, _reset_contraction_recipes, sort_contraction_indices (all priorities),
   total_flops / total_write / max_size when they do not have to recompute, and (round 4)
   restore_ind (precondition rs_pre: the index is removed and the removed indices are distinct, the
   three totals are tracked, dimension > 0, output indices occur on inputs, the dfs traversal
   enumerates `children` with children before parents, every `children` key is the sorted union of
   its two children and has an info entry, every internal info node is a `children` key).
   total_flops / total_write / max_size WHEN THEY RECOMPUTE are proved in Proofs/TreeStateTotals.v
   (C04fin_total_flops / C04fin_total_write / C04fin_max_size, same argument as contract_stats, one
   accumulator each); with them the statement holds for EVERY primitive: the un-suffixed
   C04_prim_preserves_inv and C04_trace_from_fresh_tree are in Props/C04fin.v (precondition prim_pre2 =
   prim_pre, plus the three totals also when they recompute; C04_prim_pre_implies_full).  The theorem
   below is kept under its historical name; it is the same statement for prim_pre.
   (The next lines are from round 2.)  Previously open: remove_ind, restore_ind, the recipe
   getters and sort/reset of contraction indices (these do not touch cost fields but are not
   covered by the statement).  Hence the `_partial` suffix. *)
Theorem C04_prim_preserves_inv_partial : forall n, 2 <= NN n -> NoDup (output n) ->
  forall p s, InvC n s -> prim_pre n p s -> InvC n (step n p s).
Proof. exact step_preserves_InvC. Qed.
Print Assumptions C04_prim_preserves_inv_partial.

(* totals_eq_rebuild by induction over primitive traces from a fresh tree (covered primitives) *)
Theorem C04_trace_from_fresh_tree_partial : forall n, 2 <= NN n -> NoDup (output n) ->
  forall tr, pre_trace n (prim_pre n) tr (init_state n) -> InvC n (run n tr (init_state n)).
Proof. exact trace_from_fresh_InvC. Qed.
Print Assumptions C04_trace_from_fresh_tree_partial.

(* the set-level figures of InvC are the from-scratch figures of Model/Net.v, for ANY tree over
   the node's leaves *)
Theorem C04_cached_size_is_rebuild : forall n s nd i z t, InvC n s -> nget nd (info s) = Some i -> i_size i = Some z ->
  length nd <> NN n -> Permutation (leaves t) nd -> z = node_size n (sliced s) false t.
Proof. exact cached_size_is_net. Qed.
Print Assumptions C04_cached_size_is_rebuild.

Theorem C04_cached_flops_is_rebuild : forall n, 2 <= NN n -> forall s nd i z l r a b, InvC n s -> nget nd (info s) = Some i -> i_flops i = Some z ->
  nget nd (children s) = Some (l, r) -> Permutation (leaves a) l -> Permutation (leaves b) r ->
  z = node_flops n (sliced s) (Node a b).
Proof. exact cached_flops_is_net. Qed.
Print Assumptions C04_cached_flops_is_rebuild.

Theorem C04_cached_legs_are_rebuild : forall n s nd i lg t, InvC n s -> nget nd (info s) = Some i -> i_legs i = Some lg ->
  length nd <> NN n -> Permutation (leaves t) nd ->
  wfl lg /\ forall j, lget0 j lg = lget0 j (sub_legs n (sliced s) t).
Proof. exact cached_legs_are_net. Qed.
Print Assumptions C04_cached_legs_are_rebuild.

(* non-vacuity of the trace theorem: a real build (with a precomputed annealing-style step whose
   figures come from compute_contracted_info) satisfies every precondition *)
Example C04_trace_nonvacuous :
  let tr := [PPair [0] [1] None None None; PGet GSize [0;1]; PPair [0;1] [2] None None None;
             PGet GFlops [0;1;2]; PStats false; PRemoveNode [0;1;2]; PPair [0;1] [2] None None None] in
  pre_trace ex_net (prim_pre ex_net) tr (init_state ex_net) /\ 2 <= NN ex_net /\ NoDup (output ex_net).
Proof.
  cbn zeta. split; [|split; [vm_compute; lia|repeat constructor; cbn; intuition lia]].
  cbn [pre_trace prim_pre prim_preN prim_pre1 prim_pre0].
  repeat match goal with
  | |- _ /\ _ => split
  | |- pair_pre _ _ _ _ _ _ _ => unfold pair_pre
  | |- flops_pre _ _ => unfold flops_pre; right; left; vm_compute; discriminate
  | |- good_node _ _ => unfold good_node, inrange
  | |- inrange _ _ => unfold inrange
  | |- True => exact I
  | |- stats_pre _ _ _ => intros _; exists [([0;1], ([0], [1])); ([0;1;2], ([0;1], [2]))]; split; [vm_compute; reflexivity|split; [vm_compute; apply Permutation_refl|intros q Hq; vm_compute in Hq; destruct Hq as [<-|[<-|[]]]; vm_compute; discriminate]]
  | |- NoDup _ => repeat constructor; cbn; intuition lia
  | |- forall _, None = Some _ -> _ => intros ? ?; discriminate
  | |- _ <> [] => discriminate
  | |- forall k, In k _ -> _ => intros ? ?; vm_compute in *; intuition lia
  | |- nget _ _ = None => vm_compute; reflexivity
  | |- _ \/ _ => right
  | |- In _ _ => vm_compute; intuition
  | |- nget _ _ <> None => vm_compute; discriminate
  | |- _ = 1 \/ _ => right
  end.
Qed.

(* ---- round 3: the second sentence of C04 ------------------------------------------------- *)
(* the per-node figures are a function of (children, SET of removed indices): any two states that
   satisfy the invariant and agree on those report the same size, flops and legs (as index sets, with
   the same dimension product) for every node -- whatever histories produced them *)
Theorem C04_figures_function_of_children_and_removed_set : forall n, 2 <= NN n -> NoDup (output n) ->
  forall s1 s2, InvC n s1 -> InvC n s2 -> children s1 = children s2 ->
  (forall j, In j (removed (sliced s1)) <-> In j (removed (sliced s2))) ->
  forall nd i1 i2, nget nd (info s1) = Some i1 -> nget nd (info s2) = Some i2 ->
  (forall z1 z2, i_size i1 = Some z1 -> i_size i2 = Some z2 -> z1 = z2) /\
  (forall z1 z2, i_flops i1 = Some z1 -> i_flops i2 = Some z2 -> z1 = z2) /\
  (forall l1 l2, i_legs i1 = Some l1 -> i_legs i2 = Some l2 ->
     size_of (szd n) (lkeys l1) = size_of (szd n) (lkeys l2) /\ forall j, In j (lkeys l1) <-> In j (lkeys l2)).
Proof. exact figures_determined. Qed.
Print Assumptions C04_figures_function_of_children_and_removed_set.

(* slice_unslice_roundtrip, partial: if the sliced/projected indices are the same multiset again (in
   any order of removal / restoration) and the tree is the same, the tracked totals and multiplicity are
   the original ones.  Stated with InvC of BOTH states as hypotheses; since round 4 InvC is proved to be
   preserved by restore_ind too, and C04_slice_unslice_roundtrip (below) discharges both hypotheses for
   boolean-checked histories from a fresh tree. *)
Theorem C04_slice_unslice_roundtrip_partial : forall n, 2 <= NN n -> NoDup (output n) ->
  forall s1 s2, InvC n s1 -> InvC n s2 -> children s1 = children s2 ->
  Permutation (sliced s1) (sliced s2) ->
  (forall p, In p (nkeys (children s1)) -> nget p (info s1) <> None /\ nget p (info s2) <> None) ->
  (trk_flops s1 = true -> trk_flops s2 = true -> flops_ s1 = flops_ s2) /\
  (trk_write s1 = true -> trk_write s2 = true -> write_ s1 = write_ s2) /\
  mult s1 = mult s2.
Proof. exact totals_determined. Qed.
Print Assumptions C04_slice_unslice_roundtrip_partial.

(* ---- round 3: the preconditions are MONITORED ---------------------------------------------- *)
(* prim_pre_b (Model/TreeStatePre.v) is an executable version of prim_pre; the harness evaluates it
   inside Coq on every recorded primitive of every trace (mon_ok).  Soundness: *)
Theorem C04_precondition_checker_sound : forall n, NoDup (output n) ->
  forall p s, prim_pre_b n p s = true -> prim_pre n p s.
Proof. exact prim_pre_b_sound. Qed.
Print Assumptions C04_precondition_checker_sound.

(* hence, with a purely boolean hypothesis on the trace: *)
Theorem C04_checked_trace_from_fresh_tree : forall n, 2 <= NN n -> NoDup (output n) ->
  forall tr, pre_trace_b n tr (init_state n) = true -> InvC n (run n tr (init_state n)).
Proof. exact checked_trace_from_fresh. Qed.
Print Assumptions C04_checked_trace_from_fresh_tree.

(* non-vacuity: a build, stats, an annealing-style re-creation of the root with PRECOMPUTED cost and
   size, slicing the output index a (the former defect), sorting the indices, deriving recipes: the
   boolean precondition holds at every step, so the invariant holds at the end; and a wrong
   precomputed size is rejected by the monitor *)
Example C04_checked_trace_nonvacuous :
  let tr := [PPair [0] [1] None None None; PPair [0;1] [2] None None None; PStats false;
             PRemoveNode [0;1;2]; PPair [0;1] [2] None (Some 8%Z) (Some 4%Z);
             PRemoveInd 0 None; PSortInds PrFlops true true false; PGet GEq [0;1;2]; PRemoveInd 2 (Some 1);
             PRestoreInd 0; PRestoreInd 2; PRemoveInd 1 None; PRestoreInd 1] in
  pre_trace_b ex_net tr (init_state ex_net) = true /\
  cost_inv_b ex_net (run ex_net tr (init_state ex_net)) = true /\
  prim_pre_b ex_net (PPair [0;1] [2] None (Some 8%Z) (Some 5%Z))
     (run ex_net [PPair [0] [1] None None None] (init_state ex_net)) = false.
Proof. vm_compute. repeat split; reflexivity. Qed.

(* ---- round 4: restore_ind is covered; the second sentence of C04 for certified histories ----- *)
(* two histories from a fresh tree that both pass the boolean precondition check (they may contain
   remove_ind and restore_ind in any order) and end with the same tree (up to the order of the two
   children of a node and of the dict entries -- restore_ind re-inserts the nodes it re-creates) and the
   same multiset of sliced / projected indices report the same per-node figures, the same tracked
   _flops / _write and the same multiplicity.  No invariant hypothesis on either end state remains.
   ("same tree" and "same indices" are the premises of the property's sentence; that a suffix made
   only of remove_ind / restore_ind leaves the tree the same up to that order is observed by the
   trace replay, not derived here.) *)
Theorem C04_slice_unslice_roundtrip : forall n, 2 <= NN n -> NoDup (output n) ->
  forall tr1 tr2, pre_trace_b n tr1 (init_state n) = true -> pre_trace_b n tr2 (init_state n) = true ->
  let s1 := run n tr1 (init_state n) in let s2 := run n tr2 (init_state n) in
  ch_equiv (children s1) (children s2) -> Permutation (sliced s1) (sliced s2) ->
  (forall nd i1 i2, nget nd (info s1) = Some i1 -> nget nd (info s2) = Some i2 ->
     (forall z1 z2, i_size i1 = Some z1 -> i_size i2 = Some z2 -> z1 = z2) /\
     (forall z1 z2, i_flops i1 = Some z1 -> i_flops i2 = Some z2 -> z1 = z2) /\
     (forall l1 l2, i_legs i1 = Some l1 -> i_legs i2 = Some l2 ->
        size_of (szd n) (lkeys l1) = size_of (szd n) (lkeys l2) /\ forall j, In j (lkeys l1) <-> In j (lkeys l2))) /\
  ((forall p, In p (nkeys (children s1)) -> nget p (info s1) <> None /\ nget p (info s2) <> None) ->
   (trk_flops s1 = true -> trk_flops s2 = true -> flops_ s1 = flops_ s2) /\
   (trk_write s1 = true -> trk_write s2 = true -> write_ s1 = write_ s2) /\
   mult s1 = mult s2).
Proof. exact roundtrip_checked. Qed.
Print Assumptions C04_slice_unslice_roundtrip.

(* non-vacuity of the round trip: slice a, project c, restore c, restore a (other order) on the built
   tree: the boolean checks pass, the trees agree up to order, the sliced sets are equal, and the totals
   and multiplicity are those of the unsliced tree *)
Example C04_roundtrip_nonvacuous :
  let build := [PPair [0] [1] None None None; PPair [0;1] [2] None None None; PStats false] in
  let tr2 := build ++ [PRemoveInd 0 None; PRemoveInd 2 (Some 1); PRestoreInd 0; PRestoreInd 2] in
  let s1 := run ex_net build (init_state ex_net) in let s2 := run ex_net tr2 (init_state ex_net) in
  pre_trace_b ex_net build (init_state ex_net) = true /\ pre_trace_b ex_net tr2 (init_state ex_net) = true /\
  sliced s1 = sliced s2 /\ (flops_ s1, write_ s1, mult s1) = (flops_ s2, write_ s2, mult s2).
Proof. vm_compute. repeat split; reflexivity. Qed.

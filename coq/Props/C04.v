From Ctg Require Import Base Net BaseFacts NetFacts TreeState TreeStateFacts.
Theorem C04_placeholder : mc_max mc_empty = None.
Proof. exact mc_empty_max. Qed.
Print Assumptions C04_placeholder.

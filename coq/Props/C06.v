(* C06 -- slices partition the contraction exactly and are reassembled correctly.
   Statements only; every proof is `exact <lemma of Proofs/SliceFacts.v>`.
   Model: Model/Slice.v (tied to cotengra/core.py by harness/props/c06.py). *)
From Coq Require Import Lia.
From Ctg Require Import Base Slice BaseFacts SliceFacts.

Theorem C06_strides_spec : forall sl i, i < length sl ->
  nth i (get_slice_strides sl) 1 = total (skipn (S i) sl).
Proof. exact strides_spec. Qed.
Print Assumptions C06_strides_spec.

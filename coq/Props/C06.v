(* C06 -- slices partition the contraction exactly and are reassembled correctly.
   Statements only; every proof is `exact <lemma of Proofs/SliceFacts.v / SliceSum.v>`.
   Model: Model/Slice.v (tied to cotengra/core.py by harness/props/c06.py).
   Vocabulary: total sl = product of the SliceInfo sizes; wf_sl = sizes >= 1 and projected
   entries have size 1; inv output st = wf_sl, inner=false entries first, distinct indices,
   multiplicity = total, inner flag = "not an output index".  inv holds after every history
   of remove_ind / restore_ind (C06_history_invariant) and is re-checked on every real
   tree by the verified checker sl_ok_b (C06_checker_sound). *)
From Coq Require Import Lia Permutation.
From Ctg Require Import Base Net Slice BaseFacts SliceFacts SliceSum SliceGather SliceEndToEnd.
From Ctg Require Einsum TreeEval.

(* get_slice_strides: strides[i] = product of the sizes after position i *)
Theorem C06_strides_spec : forall sl i, i < length sl ->
  nth i (get_slice_strides sl) 1 = total (skipn (S i) sl).
Proof. exact strides_spec. Qed.
Print Assumptions C06_strides_spec.

(* the state reached by ANY history of remove_ind (slice or project) / restore_ind calls
   (raising calls skipped) satisfies the invariant *)
Theorem C06_history_invariant : forall inputs output szd ops, sizes_ok szd ->
  inv output (run_ops inputs output szd ops).
Proof. exact run_ops_inv. Qed.
Print Assumptions C06_history_invariant.

Theorem C06_checker_sound : forall output st, sl_ok_b output st = true -> inv output st.
Proof. exact sl_ok_b_sound. Qed.
Print Assumptions C06_checker_sound.

(* slice_key_bijection: i |-> slice_key i is a bijection from [0, total) onto the valid keys
   (each sliced index inside range(size), each projected index at its chosen value):
   decode . encode = id and encode . decode = id *)
Theorem C06_slice_key_valid : forall sl, wf_sl sl -> forall i, i < total sl ->
  valid_key sl (slice_key sl i).
Proof. intros sl H i Hi. rewrite slice_key_decode. exact (decode_valid sl H i Hi). Qed.
Print Assumptions C06_slice_key_valid.

Theorem C06_encode_slice_key : forall sl, wf_sl sl -> forall i, i < total sl ->
  encode sl (slice_key sl i) = i.
Proof. intros sl H i Hi. rewrite slice_key_decode. exact (encode_decode sl H i Hi). Qed.
Print Assumptions C06_encode_slice_key.

Theorem C06_slice_key_encode : forall sl, wf_sl sl -> forall key, valid_key sl key ->
  encode sl key < total sl /\ slice_key sl (encode sl key) = key.
Proof. intros sl H key Hk. rewrite slice_key_decode. exact (decode_encode sl H key Hk). Qed.
Print Assumptions C06_slice_key_encode.

Theorem C06_slice_key_injective : forall sl, wf_sl sl -> forall i j, i < total sl -> j < total sl ->
  slice_key sl i = slice_key sl j -> i = j.
Proof. exact slice_key_injective. Qed.
Print Assumptions C06_slice_key_injective.

Theorem C06_slice_key_surjective : forall sl, wf_sl sl -> forall key, valid_key sl key ->
  exists i, i < total sl /\ slice_key sl i = key.
Proof. exact slice_key_surjective. Qed.
Print Assumptions C06_slice_key_surjective.

(* stronger form: the table of all slice keys IS the lexicographic enumeration of the product
   of the sliced ranges, which has no duplicates and contains exactly the valid keys *)
Theorem C06_slice_keys_enumerate_product : forall sl, wf_sl sl ->
  map (slice_key sl) (seq 0 (total sl)) = all_keys sl /\ NoDup (all_keys sl)
  /\ forall key, In key (all_keys sl) <-> valid_key sl key.
Proof. intros sl H. split; [exact (slice_keys_enumeration sl H)|]. split; [apply all_keys_NoDup|apply in_all_keys]. Qed.
Print Assumptions C06_slice_keys_enumerate_product.

(* slice_key_output_major: the sliced output indices are the slow digits *)
Theorem C06_slice_key_output_major : forall sl, wf_sl sl -> outer_first_b sl = true ->
  forall o j, o < nchunks sl -> j < stepsize sl ->
  slice_key sl (o * stepsize sl + j) = slice_key (outs sl) o ++ slice_key (inns sl) j.
Proof. exact slice_key_output_major. Qed.
Print Assumptions C06_slice_key_output_major.

(* chunks_tile_once: gen_output_chunks yields nchunks chunks; chunk o carries the o-th
   combination of the sliced output indices and is the sum of slices o*step .. o*step+step-1;
   the slice numbers used are 0..nslices-1, each exactly once *)
Theorem C06_chunks_spec : forall output st slice, inv output st ->
  length (gen_output_chunks st output slice) = nchunks (ss_sliced st) /\
  forall o, o < nchunks (ss_sliced st) ->
    exists chunk, nth_error (gen_output_chunks st output slice) o = Some (chunk, slice_key (outs (ss_sliced st)) o)
      /\ forall idx, tget chunk idx =
           zsum (map (fun j => tget (slice (o * stepsize (ss_sliced st) + j)) idx) (seq 0 (stepsize (ss_sliced st)))).
Proof. exact gen_output_chunks_spec. Qed.
Print Assumptions C06_chunks_spec.

Theorem C06_chunks_tile_once : forall output st, inv output st ->
  flat_map (fun o => map (fun j => o * stepsize (ss_sliced st) + j) (seq 0 (stepsize (ss_sliced st))))
           (seq 0 (nchunks (ss_sliced st))) = seq 0 (nslices st).
Proof. exact chunks_tile_slices. Qed.
Print Assumptions C06_chunks_tile_once.

(* the chunk keys are exactly the combinations of the sliced output indices, each once *)
Theorem C06_chunk_keys_enumerate_outputs : forall output st, inv output st ->
  map (slice_key (outs (ss_sliced st))) (seq 0 (nchunks (ss_sliced st))) = all_keys (outs (ss_sliced st)).
Proof.
  intros output st (Hwf & _). rewrite nchunks_total. apply slice_keys_enumeration, wf_filter, Hwf.
Qed.
Print Assumptions C06_chunk_keys_enumerate_outputs.

(* sum_of_slices, for an abstract summand F over index assignments: the sum over all
   assignments of js = the sum over the slice numbers of the sum over the unsliced rest,
   the sliced indices being fixed by the slice key.  (F is the product of the tensor entries
   in the intended use; `respects` says it only looks at the values of the assignment.) *)
Theorem C06_sum_of_slices : forall size js sl rest e F,
  wf_sl sl -> plain size sl -> NoDup js -> Permutation js (map si_ind sl ++ rest) -> respects F ->
  sum_over size js e F =
  zsum (map (fun i => sum_over size rest (apply_key e (slice_key sl i)) F) (seq 0 (total sl))).
Proof. exact sum_of_slices. Qed.
Print Assumptions C06_sum_of_slices.

(* general form incl. projection: the sum over slice numbers is the sum over the sliced
   ranges, a projected index ranging over its single chosen value (project_section) *)
Theorem C06_sum_over_slice_numbers : forall sl e F, wf_sl sl ->
  zsum (map (fun i => F (apply_key e (slice_key sl i))) (seq 0 (total sl))) = sum_keys sl e F.
Proof. exact sum_over_slice_numbers. Qed.
Print Assumptions C06_sum_over_slice_numbers.

Theorem C06_project_section : forall s sl e F p, si_proj s = Some p ->
  sum_keys (s :: sl) e F = sum_keys sl (upd e (si_ind s) p) F.
Proof. exact sum_keys_projected. Qed.
Print Assumptions C06_project_section.

(* gather_correct.  Setting: a state satisfying the invariant, a duplicate-free output, an
   abstract per-slice evaluator G (extensional in the assignment): slice i, read at a
   multi-index idx' over the unsliced output indices out', is G at the assignment
   {out' := idx'} + slice_key i.  Then for every full output multi-index idx (one entry per
   output index, entries of sliced output positions inside their sliced range -- 0 for a
   projected one) the gathered tensor's entry is the sum, over the ranges of the INNER sliced
   indices (a projected one ranging over its single value), of G at the assignment read off
   idx (full_pairs: output index j := idx[position of j]; a projected output index := its
   chosen value).  I.e. summing over inner sliced indices and stacking along sliced output
   indices at their declared positions reproduces the unsliced positional result. *)
Theorem C06_gather_correct : forall output st,
  inv output st -> NoDup output ->
  forall (G : env -> Z), respects G -> forall (e0 : env) slices,
  length slices = total (ss_sliced st) ->
  forall idx, length idx = length output ->
  (forall jp, In jp (output_pos output (ss_sliced st)) ->
     nth (snd jp) idx 0 < length (sliced_range (si_of (ss_sliced st) (fst jp)))) ->
  (forall i idx', i < total (ss_sliced st) -> length idx' = length (out' output st) ->
     tget (nth i slices dummy_t) idx' =
     G (apply_key (epairs (combine (out' output st) idx') e0) (slice_key (ss_sliced st) i))) ->
  tget (gather_slices (ss_sliced st) output slices) idx =
  sum_keys (inns (ss_sliced st)) (epairs (full_pairs output st idx) e0) G.
Proof. exact gather_correct. Qed.
Print Assumptions C06_gather_correct.

(* composed with sum_of_slices: when each slice is itself the sum over the unsliced inner
   indices `rest` of a summand F and the inner sliced indices are sliced (not projected) with
   SliceInfo.size = size of the index, the gathered entry is the sum over ALL inner indices
   (sliced ++ rest) of F -- the entry of the unsliced contraction *)
Theorem C06_gather_is_unsliced_sum : forall size output st F rest e0 slices idx,
  inv output st -> NoDup output -> respects F ->
  length slices = total (ss_sliced st) -> length idx = length output ->
  (forall jp, In jp (output_pos output (ss_sliced st)) ->
     nth (snd jp) idx 0 < length (sliced_range (si_of (ss_sliced st) (fst jp)))) ->
  (forall i idx', i < total (ss_sliced st) -> length idx' = length (out' output st) ->
     tget (nth i slices dummy_t) idx' =
     sum_over size rest (apply_key (epairs (combine (out' output st) idx') e0) (slice_key (ss_sliced st) i)) F) ->
  plain size (inns (ss_sliced st)) ->
  tget (gather_slices (ss_sliced st) output slices) idx =
  sum_over size (map si_ind (inns (ss_sliced st)) ++ rest) (epairs (full_pairs output st idx) e0) F.
Proof. exact gather_is_unsliced_sum. Qed.
Print Assumptions C06_gather_is_unsliced_sum.

(* building blocks, kept: the inner-only case and the stacking-position lemma *)
Theorem C06_gather_inner_only : forall sl output s slices idx, output_pos output sl = [] ->
  tget (gather_slices sl output (s :: slices)) idx = zsum (map (fun t => tget t idx) (s :: slices)).
Proof. exact gather_inner_only. Qed.
Print Assumptions C06_gather_inner_only.

Theorem C06_gather_stack_positions : forall sl output slices idx,
  output_pos output sl <> [] -> unstack_ok sl 0 (output_pos output sl) idx ->
  tget (gather_slices sl output slices) idx =
  tget (match fold_left acc_add
                (map snd (filter (fun is_ => eqb (slice_output_key sl output (fst is_)) (declared_key sl output idx))
                                 (combine (seq 0 (length slices)) slices))) None
        with Some c => c | None => dummy_t end)
       (snd (unstack sl 0 (output_pos output sl) idx)).
Proof. exact gather_stacks_at_declared_positions. Qed.
Print Assumptions C06_gather_stack_positions.

(* non-vacuity: output (e,a,c) = (4,0,2); history: slice c, slice b, project a:=1, slice d.
   The invariant holds, keys are as in the real run, and gather puts slices where they belong *)
Example C06_nonvacuous :
  let inputs := [[0;1;2]; [1;2;3]; [3;0;4]] in
  let output := [4;0;2] in
  let szd := [(0,2);(1,3);(2,2);(3,2);(4,3)] in
  let st := run_ops inputs output szd [OpRemove 2 None; OpRemove 1 None; OpRemove 0 (Some 1); OpRemove 3 None] in
  sizes_ok szd /\ sl_ok_b output st = true /\ nslices st = 12 /\ nchunks (ss_sliced st) = 2 /\
  get_slice_strides (ss_sliced st) = [12; 6; 2; 1] /\
  slice_key (ss_sliced st) 7 = [(0,1); (2,1); (1,0); (3,1)] /\
  encode (ss_sliced st) [(0,1); (2,1); (1,0); (3,1)] = 7 /\
  valid_key (ss_sliced st) (slice_key (ss_sliced st) 7) /\
  output_pos output (ss_sliced st) = [(0,1); (2,2)] /\
  (* 12 slices of shape (3,), slice i filled with the number i: gathered entry [e,0,c] = sum of
     the six slices with c's value: 0+..+5 = 15 for c=0, 6+..+11 = 51 for c=1 *)
  tabulate (gather_slices (ss_sliced st) output
             (map (fun i => of_flat [3] [Z.of_nat i; Z.of_nat i; Z.of_nat i]) (seq 0 12)))
  = ([3;1;2], [15;51;15;51;15;51]%Z).
Proof.
  cbn zeta. split; [repeat constructor|].
  split; [vm_compute; reflexivity|]. split; [vm_compute; reflexivity|]. split; [vm_compute; reflexivity|].
  split; [vm_compute; reflexivity|]. split; [vm_compute; reflexivity|]. split; [vm_compute; reflexivity|].
  split; [|split; vm_compute; reflexivity].
  apply C06_slice_key_valid; [|vm_compute; lia].
  apply (C06_checker_sound [4;0;2]). vm_compute. reflexivity.
Qed.

(* non-vacuity of C06_gather_correct: same history as above (output (e,a,c), sliced c, b, d,
   projected a:=1), an evaluator G that reads all five indices, slices built from it.  All
   hypotheses hold and both sides evaluate to the same number at idx = (e,a,c) = (2,0,1):
   a := 1 (projected), sum over b in 0..2 and d in 0..1 *)
Example C06_gather_nonvacuous :
  let inputs := [[0;1;2]; [1;2;3]; [3;0;4]] in
  let output := [4;0;2] in
  let szd := [(0,2);(1,3);(2,2);(3,2);(4,3)] in
  let st := run_ops inputs output szd [OpRemove 2 None; OpRemove 1 None; OpRemove 0 (Some 1); OpRemove 3 None] in
  let G := fun e : env => (Z.of_nat (e 4%nat) * 10000 + Z.of_nat (e 0%nat) * 1000 + Z.of_nat (e 2%nat) * 100 + Z.of_nat (e 1%nat) * 10 + Z.of_nat (e 3%nat))%Z in
  let e0 := fun _ : ix => 0 in
  let slices := map (fun i => mkT [3] (fun idx' => G (apply_key (epairs (combine (out' output st) idx') e0) (slice_key (ss_sliced st) i)))) (seq 0 12) in
  let idx := [2; 0; 1] in
  tget (gather_slices (ss_sliced st) output slices) idx = sum_keys (inns (ss_sliced st)) (epairs (full_pairs output st idx) e0) G
  /\ tget (gather_slices (ss_sliced st) output slices) idx = 126663%Z.
Proof.
  cbn zeta. split; [|vm_compute; reflexivity].
  apply C06_gather_correct.
  - apply C06_checker_sound. vm_compute. reflexivity.
  - repeat constructor; cbn; intuition lia.
  - intros e1 e2 He. rewrite !He. reflexivity.
  - vm_compute. reflexivity.
  - reflexivity.
  - intros jp Hjp. vm_compute in Hjp. destruct Hjp as [<-|[<-|[]]]; vm_compute; lia.
  - intros i idx' Hi _. vm_compute in Hi.
    do 12 (destruct i as [|i]; [reflexivity|]). lia.
Qed.

(* END TO END (C06 composed with C01's run_root_correct).  Every slice is produced by C01's
   contraction program Program.run_root on the arrays sliced at slice_key i (all_slices); the
   network is well formed (output duplicate-free and carried by some input), the tree uses every
   input exactly once, the slicing state satisfies the invariant.  Then gather_slices of the
   slices is, entry by entry, the sum over the inner sliced ranges of the einsum of the SLICED
   network ... *)
Theorem C06_contract_sliced : forall n st arr ebase l r,
  TreeEval.wf_net n -> TreeEval.full_tree n (Node l r) -> inv (output n) st ->
  forall idx, length idx = length (output n) ->
  (forall jp, In jp (output_pos (output n) (ss_sliced st)) ->
     nth (snd jp) idx 0 < length (sliced_range (si_of (ss_sliced st) (fst jp)))) ->
  tget (gather_slices (ss_sliced st) (output n) (all_slices n st arr ebase l r)) idx =
  sum_keys (inns (ss_sliced st)) (epairs (full_pairs (output n) st idx) ebase)
           (Einsum.einsum_spec n (slr_of (ss_sliced st)) arr).
Proof. exact contract_sliced. Qed.
Print Assumptions C06_contract_sliced.

(* ... and when no INNER index is projected (inner sliced indices are sliced, occur in the
   network, SliceInfo.size = their dimension) it is the mathematical einsum of the UNSLICED
   network, at the assignment read off idx (a projected OUTPUT index taking its chosen value):
   contract of a sliced tree = einsum_spec of the unsliced network *)
Theorem C06_contract_sliced_is_einsum : forall n st arr ebase l r,
  TreeEval.wf_net n -> TreeEval.full_tree n (Node l r) -> inv (output n) st ->
  plain (Einsum.dim n) (inns (ss_sliced st)) ->
  (forall s, In s (inns (ss_sliced st)) -> In (si_ind s) (Einsum.all_ix n)) ->
  forall idx, length idx = length (output n) ->
  (forall jp, In jp (output_pos (output n) (ss_sliced st)) ->
     nth (snd jp) idx 0 < length (sliced_range (si_of (ss_sliced st) (fst jp)))) ->
  tget (gather_slices (ss_sliced st) (output n) (all_slices n st arr ebase l r)) idx =
  Einsum.einsum_spec n [] arr (epairs (full_pairs (output n) st idx) ebase).
Proof. exact contract_sliced_is_einsum. Qed.
Print Assumptions C06_contract_sliced_is_einsum.

(* non-vacuity: the 3-tensor network above, tree ((0,1),2), sliced c (output), b, d (inner)
   and projected a:=1 (output): every hypothesis of the end-to-end theorem holds *)
Example C06_end_to_end_nonvacuous :
  let n := mkNet [[0;1;2]; [1;2;3]; [3;0;4]] [4;0;2] [(0,2%Z);(1,3%Z);(2,2%Z);(3,2%Z);(4,3%Z)] in
  let st := run_ops (inputs n) (output n) [(0,2);(1,3);(2,2);(3,2);(4,3)]
                    [OpRemove 2 None; OpRemove 1 None; OpRemove 0 (Some 1); OpRemove 3 None] in
  TreeEval.wf_net n /\ TreeEval.full_tree n (Node (Node (Leaf 0) (Leaf 1)) (Leaf 2)) /\ inv (output n) st /\
  plain (Einsum.dim n) (inns (ss_sliced st)) /\
  (forall s, In s (inns (ss_sliced st)) -> In (si_ind s) (Einsum.all_ix n)) /\
  (forall jp, In jp (output_pos (output n) (ss_sliced st)) ->
     nth (snd jp) [2; 0; 1] 0 < length (sliced_range (si_of (ss_sliced st) (fst jp)))).
Proof.
  cbn zeta. split; [|split; [|split; [|split; [|split]]]].
  - split; [repeat constructor; cbn; intuition lia|]. intros j Hj. cbn in *. intuition (subst; auto 10).
  - unfold TreeEval.full_tree. cbn. apply Permutation_refl.
  - apply C06_checker_sound. vm_compute. reflexivity.
  - vm_compute. repeat constructor.
  - intros s Hs. vm_compute in Hs. destruct Hs as [<-|[<-|[]]]; vm_compute; auto 10.
  - intros jp Hjp. vm_compute in Hjp. destruct Hjp as [<-|[<-|[]]]; vm_compute; lia.
Qed.

(* END TO END incl. PROJECTED INNER indices (project_section, end to end): gathering the slices
   computed by C01's program equals einsum_spec of the network in which ONLY the projected
   indices are removed (proj_only), at the assignment read off idx in which every projected
   index -- output (via full_pairs) or inner (via apply_proj) -- is fixed at its chosen value.
   Einsum.einsum_spec n sl arr e sums over the indices that are neither removed nor output and
   reads the removed ones from e: "a projected index contributes exactly its chosen value". *)
Theorem C06_contract_sliced_is_einsum_projected : forall n st arr ebase l r,
  TreeEval.wf_net n -> TreeEval.full_tree n (Node l r) -> inv (output n) st ->
  (forall s, In s (inns (ss_sliced st)) -> si_proj s = None ->
     si_size s = Einsum.dim n (si_ind s) /\ In (si_ind s) (Einsum.all_ix n)) ->
  forall idx, length idx = length (output n) ->
  (forall jp, In jp (output_pos (output n) (ss_sliced st)) ->
     nth (snd jp) idx 0 < length (sliced_range (si_of (ss_sliced st) (fst jp)))) ->
  tget (gather_slices (ss_sliced st) (output n) (all_slices n st arr ebase l r)) idx =
  Einsum.einsum_spec n (slr_of (proj_only (ss_sliced st))) arr
    (apply_proj (inns (ss_sliced st)) (epairs (full_pairs (output n) st idx) ebase)).
Proof. exact contract_sliced_is_einsum_proj. Qed.
Print Assumptions C06_contract_sliced_is_einsum_projected.

(* non-vacuity: sliced c (output) and b (inner), PROJECTED d := 1 (inner) and a := 1 (output):
   the hypotheses hold, the projected-only network removes exactly a and d, and the
   assignment fixes d = 1, a = 1 *)
Example C06_projected_nonvacuous :
  let n := mkNet [[0;1;2]; [1;2;3]; [3;0;4]] [4;0;2] [(0,2%Z);(1,3%Z);(2,2%Z);(3,2%Z);(4,3%Z)] in
  let st := run_ops (inputs n) (output n) [(0,2);(1,3);(2,2);(3,2);(4,3)]
                    [OpRemove 2 None; OpRemove 1 None; OpRemove 0 (Some 1); OpRemove 3 (Some 1)] in
  let e := apply_proj (inns (ss_sliced st)) (epairs (full_pairs (output n) st [2;0;1]) (fun _ => 0)) in
  inv (output n) st /\
  (forall s, In s (inns (ss_sliced st)) -> si_proj s = None ->
     si_size s = Einsum.dim n (si_ind s) /\ In (si_ind s) (Einsum.all_ix n)) /\
  removed (slr_of (proj_only (ss_sliced st))) = [0; 3] /\
  map e [0;1;2;3;4] = [1; 0; 1; 1; 2].
Proof.
  cbn zeta. split; [apply C06_checker_sound; vm_compute; reflexivity|]. split; [|split; vm_compute; reflexivity].
  intros s Hs Hp. vm_compute in Hs. destruct Hs as [<-|[<-|[]]]; [|discriminate Hp]. vm_compute. auto 10.
Qed.

(* C09 -- the 'optimal' pathfinder really is optimal.
   Statements only; every proof is `exact <lemma of Proofs/OptimalFacts.v>`.
   Model: Model/Optimal.v (ContractionProcessor.__init__, the six compute_con_cost_*
   functions and optimize_optimal_connected of cotengra/pathfinders/path_basic.py, tied
   to the code on every run by harness/props/c09.py: ssa paths, optimum, and the complete
   sequence of cost-function calls).

   Vocabulary.  nodes : list legs are the leaf legs, app = appearances, szs = sizes.
   A subgraph is a bitmask S : N.  SPEC (set based, no sorted lists):
     cnt S j    = occurrences of index j on the leaves of S
     surv S j   = 0 < cnt S j < app j          (j is carried by the intermediate on S)
     step_flops S1 S2 = product of the dims of the j with surv S1 j or surv S2 j
     step_size  S1 S2 = product of the dims of the j with surv (S1 u S2) j
     tscore o t = the objective o of tree t (sum / max over its steps)
     outer_free t = no step contracts two intermediates without a common index
     admissible so t = so || outer_free t
     full_tree n t = t uses every tensor 0..n-1 exactly once.
   wf_procb nodes app szs (executable, evaluated by the harness on every generated
   network): every leaf's legs are strictly increasing with no index already exhausted on
   the leaf (no repeated index within a tensor, no index confined to one tensor and absent
   from the output), app counts at least the occurrences on the tensors, dims >= 0.
   obj_ok o: the combo/limit factor is >= 0.

   What is NOT proved here: that Model/Optimal.v is what path_basic.py does (executed
   correspondence), that ssa replay of the bit path denotes the same tree (checked per case
   inside Coq via ssa_tree), and that simplify()/subgraphs() leave a precondition network
   untouched (exercised end to end by the oracle). *)
From Coq Require Import ZArith NArith List Lia Permutation String.
Open Scope string_scope.
From Ctg Require Import Base Net Optimal OptimalFacts OptimalProc OptimalProcFacts.
Import ListNotations.
Open Scope nat_scope.

(* ---- the six cost functions compute the property's definition of their objective ---- *)
(* precondition: S1, S2 disjoint; arguments are the merged legs exactly as the DP passes them *)
Theorem C09_cost_fn_flops_is_objective : forall nodes app szs S1 S2 a b,
  (forall j, j < length app -> cnt_all nodes j <= appn app j) -> N.land S1 S2 = 0%N ->
  con_cost app szs OFlops (fst (merge_legs (legs_of nodes app S1) (legs_of nodes app S2))) a b =
  (legs_of nodes app (N.lor S1 S2), (a + b + step_flops nodes app szs S1 S2)%Z).
Proof. exact (fun nodes app szs => cost_fn_objective nodes app szs OFlops). Qed.
Print Assumptions C09_cost_fn_flops_is_objective.

Theorem C09_cost_fn_max_is_objective : forall nodes app szs S1 S2 a b,
  (forall j, j < length app -> cnt_all nodes j <= appn app j) -> N.land S1 S2 = 0%N ->
  con_cost app szs OMax (fst (merge_legs (legs_of nodes app S1) (legs_of nodes app S2))) a b =
  (legs_of nodes app (N.lor S1 S2), Z.max (Z.max a b) (step_flops nodes app szs S1 S2)).
Proof. exact (fun nodes app szs => cost_fn_objective nodes app szs OMax). Qed.
Print Assumptions C09_cost_fn_max_is_objective.

Theorem C09_cost_fn_size_is_objective : forall nodes app szs S1 S2 a b,
  (forall j, j < length app -> cnt_all nodes j <= appn app j) -> N.land S1 S2 = 0%N ->
  con_cost app szs OSize (fst (merge_legs (legs_of nodes app S1) (legs_of nodes app S2))) a b =
  (legs_of nodes app (N.lor S1 S2), Z.max (Z.max a b) (step_size nodes app szs S1 S2)).
Proof. exact (fun nodes app szs => cost_fn_objective nodes app szs OSize). Qed.
Print Assumptions C09_cost_fn_size_is_objective.

Theorem C09_cost_fn_write_is_objective : forall nodes app szs S1 S2 a b,
  (forall j, j < length app -> cnt_all nodes j <= appn app j) -> N.land S1 S2 = 0%N ->
  con_cost app szs OWrite (fst (merge_legs (legs_of nodes app S1) (legs_of nodes app S2))) a b =
  (legs_of nodes app (N.lor S1 S2), (a + b + step_size nodes app szs S1 S2)%Z).
Proof. exact (fun nodes app szs => cost_fn_objective nodes app szs OWrite). Qed.
Print Assumptions C09_cost_fn_write_is_objective.

Theorem C09_cost_fn_combo_is_objective : forall nodes app szs f S1 S2 a b,
  (forall j, j < length app -> cnt_all nodes j <= appn app j) -> N.land S1 S2 = 0%N ->
  con_cost app szs (OCombo f) (fst (merge_legs (legs_of nodes app S1) (legs_of nodes app S2))) a b =
  (legs_of nodes app (N.lor S1 S2),
   (a + b + (step_flops nodes app szs S1 S2 + f * step_size nodes app szs S1 S2))%Z).
Proof. exact (fun nodes app (szs : list Z) f => cost_fn_objective nodes app szs (OCombo f)). Qed.
Print Assumptions C09_cost_fn_combo_is_objective.

Theorem C09_cost_fn_limit_is_objective : forall nodes app szs f S1 S2 a b,
  (forall j, j < length app -> cnt_all nodes j <= appn app j) -> N.land S1 S2 = 0%N ->
  con_cost app szs (OLimit f) (fst (merge_legs (legs_of nodes app S1) (legs_of nodes app S2))) a b =
  (legs_of nodes app (N.lor S1 S2),
   (a + b + Z.max (step_flops nodes app szs S1 S2) (f * step_size nodes app szs S1 S2))%Z).
Proof. exact (fun nodes app (szs : list Z) f => cost_fn_objective nodes app szs (OLimit f)). Qed.
Print Assumptions C09_cost_fn_limit_is_objective.

(* custom factor k = num/den (a float in the code), scores scaled by den *)
Theorem C09_cost_fn_comboQ_is_objective : forall nodes app szs n d S1 S2 a b,
  (forall j, j < length app -> cnt_all nodes j <= appn app j) -> N.land S1 S2 = 0%N ->
  con_cost app szs (OComboQ n d) (fst (merge_legs (legs_of nodes app S1) (legs_of nodes app S2))) a b =
  (legs_of nodes app (N.lor S1 S2),
   (a + b + (d * step_flops nodes app szs S1 S2 + n * step_size nodes app szs S1 S2))%Z).
Proof. exact (fun nodes app (szs : list Z) n d => cost_fn_objective nodes app szs (OComboQ n d)). Qed.
Print Assumptions C09_cost_fn_comboQ_is_objective.

Theorem C09_cost_fn_limitQ_is_objective : forall nodes app szs n d S1 S2 a b,
  (forall j, j < length app -> cnt_all nodes j <= appn app j) -> N.land S1 S2 = 0%N ->
  con_cost app szs (OLimitQ n d) (fst (merge_legs (legs_of nodes app S1) (legs_of nodes app S2))) a b =
  (legs_of nodes app (N.lor S1 S2),
   (a + b + Z.max (d * step_flops nodes app szs S1 S2) (n * step_size nodes app szs S1 S2))%Z).
Proof. exact (fun nodes app (szs : list Z) n d => cost_fn_objective nodes app szs (OLimitQ n d)). Qed.
Print Assumptions C09_cost_fn_limitQ_is_objective.

(* the scaled objective with den = 1 is the integer-factor objective; only the ratio num/den matters:
   the tree order (hence the argmin) for (num, den) is that of sum (flops + (num/den) size), resp.
   sum max(flops, (num/den) size), and every theorem below holds for OComboQ / OLimitQ as for the six *)
Theorem C09_weight_den1 : forall nodes app szs f t,
  tscore nodes app szs (OComboQ f 1) t = tscore nodes app szs (OCombo f) t /\
  tscore nodes app szs (OLimitQ f 1) t = tscore nodes app szs (OLimit f) t.
Proof. exact tscoreQ_den1. Qed.
Print Assumptions C09_weight_den1.

Theorem C09_weight_depends_on_ratio_only : forall nodes app szs c n d t, (0 <= c)%Z ->
  tscore nodes app szs (OComboQ (c * n) (c * d)) t = (c * tscore nodes app szs (OComboQ n d) t)%Z /\
  tscore nodes app szs (OLimitQ (c * n) (c * d)) t = (c * tscore nodes app szs (OLimitQ n d) t)%Z.
Proof. exact tscoreQ_homogeneous. Qed.
Print Assumptions C09_weight_depends_on_ratio_only.

(* the sorted merge detects exactly the outer products of the definition *)
Theorem C09_merge_detects_outer : forall nodes app (szs : list Z),
  (forall j, j < length app -> cnt_all nodes j <= appn app j) -> forall S1 S2, N.land S1 S2 = 0%N ->
  snd (merge_legs (legs_of nodes app S1) (legs_of nodes app S2)) = shares nodes app S1 S2.
Proof. exact merge_shares. Qed.
Print Assumptions C09_merge_detects_outer.

(* ---- bitmask trees are exactly the binary trees with distinct leaves ---- *)
Theorem C09_vtree_is_binary_tree_over_leafset : forall n t S,
  vtree n t S <-> NoDup (leaves t) /\ (forall i, In i (leaves t) -> i < n) /\ S = mask t.
Proof. exact vtree_iff. Qed.
Print Assumptions C09_vtree_is_binary_tree_over_leafset.

(* ---- dp_sound: every entry of every table the loop ever holds is the true record of an
   admissible tree over exactly that subgraph (legs, score and stored path) ---- *)
Theorem C09_dp_sound : forall nodes app szs o so fuel cap tabs cap',
  wf_procb nodes app szs = true -> obj_ok o -> 1 <= length nodes ->
  dp_loop app szs o so (length nodes) fuel cap (dp_init (length nodes) nodes) = Some (tabs, cap') ->
  forall m S e, In (S, e) (nth m tabs []) ->
  exists t, vtree (length nodes) t S /\ nleaves t = m /\ admissible nodes app so t = true /\
            e_legs e = legs_of nodes app S /\ e_score e = tscore nodes app szs o t /\ e_path e = bitpath t.
Proof. exact dp_tables_sound_wf. Qed.
Print Assumptions C09_dp_sound.

(* ---- dp_level_invariant: one pass with cap C from a state satisfying the loop invariant
   (Inv: right number of levels, all entries sound, level 1 = the leaves; holds initially,
   C09_dp_init_invariant, and is re-established by the pass) leaves, at every level m, for
   every admissible tree with m leaves and score <= C, an entry for its leaf set that is at
   least as good; and level n only holds scores <= C ---- *)
Theorem C09_dp_init_invariant : forall nodes app szs o so,
  wf_procb nodes app szs = true -> 1 <= length nodes ->
  Inv nodes app szs o so (dp_init (length nodes) nodes).
Proof. exact dp_init_Inv. Qed.
Print Assumptions C09_dp_init_invariant.

Theorem C09_dp_level_invariant : forall nodes app szs o so C tabs m,
  wf_procb nodes app szs = true -> obj_ok o -> 1 <= length nodes ->
  Inv nodes app szs o so tabs -> nth (length nodes) tabs [] = [] -> 1 <= m <= length nodes ->
  let tabs' := full_pass app szs o so (length nodes) C tabs in
  Inv nodes app szs o so tabs' /\
  (forall t S, vtree (length nodes) t S -> nleaves t = m -> admissible nodes app so t = true ->
               (tscore nodes app szs o t <= C)%Z ->
               exists e, In (S, e) (nth m tabs' []) /\ (e_score e <= tscore nodes app szs o t)%Z) /\
  (forall x, In x (nth (length nodes) tabs' []) -> (e_score (snd x) <= C)%Z).
Proof. exact dp_level_invariant_wf. Qed.
Print Assumptions C09_dp_level_invariant.

(* ---- sieve_first_hit_is_global_min: when the while loop stops, level n is non-empty, all
   its scores are <= the last cap C, and nothing of score <= C was missed ---- *)
Theorem C09_sieve_first_hit_is_global_min : forall nodes app szs o so fuel cap tabs cap',
  wf_procb nodes app szs = true -> obj_ok o -> 1 <= length nodes ->
  dp_loop app szs o so (length nodes) fuel cap (dp_init (length nodes) nodes) = Some (tabs, cap') ->
  nth (length nodes) tabs [] <> [] /\
  exists C, (forall x, In x (nth (length nodes) tabs []) -> (e_score (snd x) <= C)%Z) /\
            (forall t S, vtree (length nodes) t S -> nleaves t = length nodes ->
                         admissible nodes app so t = true -> (tscore nodes app szs o t <= C)%Z ->
                         exists e, In (S, e) (nth (length nodes) tabs []) /\
                                   (e_score e <= tscore nodes app szs o t)%Z).
Proof. exact sieve_first_hit. Qed.
Print Assumptions C09_sieve_first_hit_is_global_min.

(* ---- dp_optimal: whatever the initial cap and the fuel, a returned score is the score of
   an admissible tree using every tensor once (the stored path is that tree's), and it is
   minimal over ALL such trees: all binary trees when search_outer, all outer-product-free
   ones otherwise ---- *)
Theorem C09_dp_optimal : forall nodes app szs o so fuel cap sc bp,
  wf_procb nodes app szs = true -> obj_ok o -> 1 <= length nodes ->
  dp_result app szs o so (length nodes) nodes fuel cap = Some (sc, bp) ->
  (exists t, full_tree (length nodes) t /\ admissible nodes app so t = true /\
             tscore nodes app szs o t = sc /\ bitpath t = bp) /\
  (forall t', full_tree (length nodes) t' -> admissible nodes app so t' = true ->
              (sc <= tscore nodes app szs o t')%Z).
Proof. exact dp_optimal. Qed.
Print Assumptions C09_dp_optimal.

(* the same for the model of the public entry point (proc_init + DP + ssa replay) *)
Theorem C09_optimize_optimal_is_optimal : forall net o so fuel cap sc ssa,
  let p := proc_init net in
  wf_procb (p_nodes p) (p_app p) (p_sizes p) = true -> obj_ok o -> 1 <= length (p_nodes p) ->
  optimize_optimal net o so fuel cap = Some (sc, ssa) ->
  (exists t, full_tree (length (p_nodes p)) t /\ admissible (p_nodes p) (p_app p) so t = true /\
             tscore (p_nodes p) (p_app p) (p_sizes p) o t = sc) /\
  (forall t', full_tree (length (p_nodes p)) t' -> admissible (p_nodes p) (p_app p) so t' = true ->
              (sc <= tscore (p_nodes p) (p_app p) (p_sizes p) o t')%Z).
Proof. exact optimize_optimal_is_optimal. Qed.
Print Assumptions C09_optimize_optimal_is_optimal.

(* ---- dp_terminates: if some admissible tree t0 uses every tensor once, the loop stops
   within f+1 iterations as soon as cap * 2^f >= score(t0) (so f = log2(score t0 / cap),
   cap >= 1) with a non-empty top level.  With search_outer the left comb always qualifies;
   without it such a tree exists iff the network is connected (not proved: hypothesis). ---- *)
Theorem C09_dp_terminates : forall nodes app szs o so t0 f cap,
  wf_procb nodes app szs = true -> obj_ok o -> 1 <= length nodes ->
  full_tree (length nodes) t0 -> admissible nodes app so t0 = true ->
  (tscore nodes app szs o t0 <= cap * 2 ^ Z.of_nat f)%Z ->
  exists tabs cap', dp_loop app szs o so (length nodes) (S f) cap (dp_init (length nodes) nodes) = Some (tabs, cap')
                    /\ nth (length nodes) tabs [] <> [].
Proof. exact dp_terminates_full. Qed.
Print Assumptions C09_dp_terminates.

Theorem C09_dp_terminates_search_outer : forall nodes app szs o f cap,
  wf_procb nodes app szs = true -> obj_ok o -> 1 <= length nodes ->
  (tscore nodes app szs o (comb (length nodes - 1)) <= cap * 2 ^ Z.of_nat f)%Z ->
  exists tabs cap', dp_loop app szs o true (length nodes) (S f) cap (dp_init (length nodes) nodes) = Some (tabs, cap')
                    /\ nth (length nodes) tabs [] <> [].
Proof. exact dp_terminates_search_outer. Qed.
Print Assumptions C09_dp_terminates_search_outer.

(* ---- total correctness of the model: the top level holds exactly one entry when the loop
   stops (Python's `((_, _, bitpath),) = contractions[nterms].values()` cannot fail), so with
   enough fuel dp_result returns, and by C09_dp_optimal what it returns is optimal ---- *)
Theorem C09_dp_returns_single_entry : forall nodes app szs o so fuel cap tabs cap',
  wf_procb nodes app szs = true -> obj_ok o -> 1 <= length nodes ->
  dp_loop app szs o so (length nodes) fuel cap (dp_init (length nodes) nodes) = Some (tabs, cap') ->
  exists S e, nth (length nodes) tabs [] = [(S, e)].
Proof. exact dp_single_entry. Qed.
Print Assumptions C09_dp_returns_single_entry.

Theorem C09_dp_result_total : forall nodes app szs o so t0 f cap,
  wf_procb nodes app szs = true -> obj_ok o -> 1 <= length nodes ->
  full_tree (length nodes) t0 -> admissible nodes app so t0 = true ->
  (tscore nodes app szs o t0 <= cap * 2 ^ Z.of_nat f)%Z ->
  exists sc bp, dp_result app szs o so (length nodes) nodes (S f) cap = Some (sc, bp).
Proof. exact dp_result_total. Qed.
Print Assumptions C09_dp_result_total.

(* ---- the exhaustive enumerator: all_trees ls lists only trees over exactly the leaves ls, and
   every binary tree over ls up to swapping children (teq); so brute_min, the minimum of the
   spec score over the enumerated admissible trees, is the certified optimum, and the DP
   equals it on every well-formed network ---- *)
Theorem C09_all_trees_sound : forall ls t, In t (all_trees ls) -> Permutation (leaves t) ls.
Proof. exact all_trees_sound. Qed.
Print Assumptions C09_all_trees_sound.

Theorem C09_all_trees_complete : forall ls t, Permutation (leaves t) ls ->
  exists t0, In t0 (all_trees ls) /\ teq t t0.
Proof. exact all_trees_complete. Qed.
Print Assumptions C09_all_trees_complete.

Theorem C09_swap_preserves_score : forall nodes app szs o t t0, teq t t0 ->
  tscore nodes app szs o t = tscore nodes app szs o t0 /\
  outer_free nodes app t = outer_free nodes app t0 /\ mask t = mask t0.
Proof.
  exact (fun nodes app szs o t t0 H =>
           conj (teq_tscore nodes app szs o t t0 H) (conj (teq_outer_free nodes app t t0 H) (teq_mask t t0 H))).
Qed.
Print Assumptions C09_swap_preserves_score.

Theorem C09_brute_min_is_min : forall nodes app szs o so v,
  brute_min nodes app szs o so = Some v ->
  (exists t, full_tree (length nodes) t /\ admissible nodes app so t = true /\ tscore nodes app szs o t = v) /\
  (forall t', full_tree (length nodes) t' -> admissible nodes app so t' = true ->
              (v <= tscore nodes app szs o t')%Z).
Proof. exact brute_min_is_min. Qed.
Print Assumptions C09_brute_min_is_min.

Theorem C09_dp_equals_enumerated_minimum : forall nodes app szs o so fuel cap sc bp v,
  wf_procb nodes app szs = true -> obj_ok o -> 1 <= length nodes ->
  dp_result app szs o so (length nodes) nodes fuel cap = Some (sc, bp) ->
  brute_min nodes app szs o so = Some v -> sc = v.
Proof. exact dp_equals_brute. Qed.
Print Assumptions C09_dp_equals_enumerated_minimum.

(* the executable fullness check the harness evaluates on every returned tree is sound: together with
   `admissible ... = true` (also evaluated) it discharges, case by case, the existence hypothesis of
   C09_dp_terminates / C09_dp_result_total for search_outer = false *)
Theorem C09_full_treeb_sound : forall n t, full_treeb n t = true -> full_tree n t.
Proof. exact full_treeb_sound. Qed.
Print Assumptions C09_full_treeb_sound.

(* ================================================================== *)
(* ROUND 3: the public entry point on a network satisfying the property's precondition.
   pre_b (Model/OptimalProc.v, executable) = wf_procb (no repeated index within a tensor, no index
   confined to one tensor and absent from the output, dims >= 0) && nosimp_b (no scalars, no two
   tensors with the same index set, no index shared by all tensors) && connected_b (the search of
   subgraphs() from tensor 0 reaches every tensor), all on the processor state built by __init__.
   optimize_optimal_full = __init__ ; simplify() (the C05 builder's model Processor.cp_simplify, for
   every hadamard iteration-order oracle `orders`) ; subgraphs() ; the DP ; ssa replay. *)

(* simplify() changes nothing *)
Theorem C09_simplify_is_noop : forall nodes app szs,
  (forall i, i < length nodes -> nth i nodes [] = legs_of nodes app (bit i)) ->
  nosimp_b (mkProc nodes app szs) = true ->
  forall orders, cp_simplify orders (cp_of (mkProc nodes app szs)) = cp_of (mkProc nodes app szs).
Proof. exact simplify_noop. Qed.
Print Assumptions C09_simplify_is_noop.

(* the executable connectivity test means: every cut is crossed by an index *)
Theorem C09_connected_b_is_connected : forall nodes app szs,
  (forall i, i < length nodes -> nth i nodes [] = legs_of nodes app (bit i)) ->
  connected_b (mkProc nodes app szs) = true -> connected_prop nodes (length app).
Proof. exact connected_b_prop. Qed.
Print Assumptions C09_connected_b_is_connected.

(* subgraphs() returns the single full component (whatever tensor the search starts from:
   bfs_reaches_all is proved for every start) *)
Theorem C09_subgraphs_is_single_component : forall nodes app szs,
  (forall i, i < length nodes -> nth i nodes [] = legs_of nodes app (bit i)) ->
  nosimp_b (mkProc nodes app szs) = true ->
  connected_prop nodes (length app) -> 1 <= length nodes ->
  cp_subgraphs (cp_of (mkProc nodes app szs)) = [seq 0 (length nodes)].
Proof. exact subgraphs_single. Qed.
Print Assumptions C09_subgraphs_is_single_component.

Theorem C09_search_reaches_all_from_any_start : forall nodes app szs,
  (forall i, i < length nodes -> nth i nodes [] = legs_of nodes app (bit i)) ->
  forall i0, connected_prop nodes (length app) -> i0 < length nodes ->
  forall k, k < length nodes ->
  In k (bfs_loop (neighbors (cp_of (mkProc nodes app szs))) (length nodes) [i0] [i0]).
Proof. exact bfs_reaches_all. Qed.
Print Assumptions C09_search_reaches_all_from_any_start.

(* so the public entry point IS one run of the dynamic programme proved optimal above *)
Theorem C09_entry_point_is_one_dp : forall orders net o so fuel cap, pre_b net = true ->
  optimize_optimal_full orders net o so fuel cap =
  match optimize_optimal net o so fuel cap with
  | Some (sc, pairs) => Some (sc, map step_of pairs)
  | None => None
  end.
Proof. exact full_is_one_dp. Qed.
Print Assumptions C09_entry_point_is_one_dp.

(* replaying the stored bit path yields an ssa path OF the stored tree: the tree a user builds from
   the returned path (ssa_tree) is exactly the optimal tree *)
Theorem C09_replay_is_path_of_tree : forall n t S, vtree n t S -> nleaves t = n ->
  ssa_tree n (replay_bitpath (bitpath t) (combine (map bit (seq 0 n)) (seq 0 n)) n) = t.
Proof. exact replay_is_path_of_tree. Qed.
Print Assumptions C09_replay_is_path_of_tree.

(* a connected network has an outer-product-free tree over all its tensors *)
Theorem C09_connected_has_outer_free_tree : forall nodes app,
  (forall j, j < length app -> cnt_all nodes j <= appn app j) ->
  connected_prop nodes (length app) -> 1 <= length nodes ->
  exists t, full_tree (length nodes) t /\ outer_free nodes app t = true.
Proof. exact connected_has_outer_free_tree. Qed.
Print Assumptions C09_connected_has_outer_free_tree.

(* THE PROPERTY.  For every network satisfying the precondition, each of the six objectives (any
   factor >= 0), both search modes, every initial cost_cap and fuel: if the optimal finder returns
   (score, path) then path is an ssa path of a tree t over all tensors, t is admissible, its objective
   value is `score`, and no admissible tree over all tensors has a smaller objective value -- all
   binary trees when search_outer, all outer-product-free trees otherwise. *)
Theorem C09_optimal_path_is_optimal : forall orders net o so fuel cap sc path,
  pre_b net = true -> obj_ok o ->
  optimize_optimal_full orders net o so fuel cap = Some (sc, path) ->
  let P := proc_init net in
  let n := length (p_nodes P) in
  exists pairs, path = map step_of pairs /\
    let t := ssa_tree n pairs in
    full_tree n t /\ admissible (p_nodes P) (p_app P) so t = true /\
    tscore (p_nodes P) (p_app P) (p_sizes P) o t = sc /\
    (forall t', full_tree n t' -> admissible (p_nodes P) (p_app P) so t' = true ->
                (sc <= tscore (p_nodes P) (p_app P) (p_sizes P) o t')%Z).
Proof. exact optimal_path_is_optimal. Qed.
Print Assumptions C09_optimal_path_is_optimal.

(* ... and it does return, for both search modes, with no per-case hypothesis: there is a bound B (the
   score of an outer-product-free tree) such that fuel f+1 suffices whenever cap * 2^f >= B *)
Theorem C09_optimal_finder_returns : forall orders net o so, pre_b net = true -> obj_ok o ->
  exists B, forall f cap, (B <= cap * 2 ^ Z.of_nat f)%Z ->
  exists sc path, optimize_optimal_full orders net o so (S f) cap = Some (sc, path).
Proof. exact optimal_finder_returns. Qed.
Print Assumptions C09_optimal_finder_returns.

(* ---- the traced loop used by the correspondence computes the same tables ---- *)
Theorem C09_traced_loop_is_the_loop : forall app szs obj so nt fuel cap st,
  option_map (fun r => (fst (fst r), snd r)) (dp_loop_tr app szs obj so nt fuel cap st)
  = dp_loop app szs obj so nt fuel cap (fst st).
Proof. exact dp_loop_tr_fst. Qed.
Print Assumptions C09_traced_loop_is_the_loop.

(* ---- non-vacuity: a 5-tensor ring with a chord, a hyper-index and two output indices ---- *)
Definition ex_net : net :=
  mkNet [[0; 1; 7]; [1; 2; 5]; [2; 3; 7]; [3; 4; 5; 8]; [4; 0; 7; 6]] [6; 8]
        [(0, 2%Z); (1, 3%Z); (2, 2%Z); (3, 4%Z); (4, 2%Z); (5, 3%Z); (6, 2%Z); (7, 2%Z); (8, 5%Z)].
Definition ex_p := proc_init ex_net.

Example C09_ex_wf : wf_procb (p_nodes ex_p) (p_app ex_p) (p_sizes ex_p) = true /\ length (p_nodes ex_p) = 5.
Proof. vm_compute. split; reflexivity. Qed.

(* the DP returns something for every objective, both search modes and a tiny cap, and it is the
   enumerated minimum over all 105 trees (resp. the outer-product-free ones) *)
Example C09_ex_dp_runs :
  forallb (fun o => forallb (fun so =>
      match optimize_optimal ex_net o so 100 1%Z with
      | Some (sc, _) => eqb (Some sc) (brute_min (p_nodes ex_p) (p_app ex_p) (p_sizes ex_p) o so)
      | None => false
      end) [false; true]) [OFlops; OMax; OSize; OWrite; OCombo 64; OLimit 64; OCombo 2; OLimit 3] = true
  /\ length (all_trees (seq 0 5)) = 105
  /\ length (filter (admissible (p_nodes ex_p) (p_app ex_p) false) (all_trees (seq 0 5))) < 105
  /\ 0 < length (filter (admissible (p_nodes ex_p) (p_app ex_p) false) (all_trees (seq 0 5))).
Proof. vm_compute. repeat split; try reflexivity; lia. Qed.

(* the termination bound is met: the comb tree scores 728 flops <= 1 * 2^10 *)
Example C09_ex_terminates :
  tscore (p_nodes ex_p) (p_app ex_p) (p_sizes ex_p) OFlops (comb 4) = 728%Z /\
  (728 <= 1 * 2 ^ Z.of_nat 10)%Z.
Proof. split; [vm_compute; reflexivity | cbn; lia]. Qed.

Example C09_ex_pre_b :
  pre_b ex_net = true /\
  optimize_optimal_full [] ex_net OFlops false 100 1%Z = Some (600%Z, [[0; 1]; [4; 5]; [2; 6]; [3; 7]]) /\
  pre_b (mkNet [[0; 1]; [1; 0]; [2; 3]; [3; 2; 4]] [4] [(0, 2%Z); (1, 2%Z); (2, 2%Z); (3, 2%Z); (4, 2%Z)]) = false.
Proof. vm_compute. repeat split; reflexivity. Qed.

(* the parser model on the strings of the documentation and some that must be rejected *)
Example C09_ex_parse :
  parse_minimize "flops" = Some OFlops /\ parse_minimize "combo" = Some (OCombo 64) /\
  parse_minimize "combo-0.5" = Some (OComboQ 5 10) /\ parse_minimize "limit--2.50" = Some (OLimitQ 250 100) /\
  parse_minimize "combo7." = Some (OComboQ 7 1) /\ parse_minimize "limit-" = Some (OLimit 64) /\
  parse_minimize "write-" = None /\ parse_minimize "flops-3" = None /\ parse_minimize "combo-.5" = None /\
  parse_minimize "combo-1.2.3" = None /\ parse_minimize "max-2" = None /\ parse_minimize "combo=64" = None.
Proof. vm_compute. repeat split; reflexivity. Qed.

(* C09 -- the 'optimal' pathfinder really is optimal.  (work in progress) *)
From Coq Require Import ZArith NArith List.
From Ctg Require Import Base Net Optimal OptimalFacts.

Theorem C09_traced_loop_is_the_loop : forall app szs obj so nt fuel cap st,
  option_map (fun r => (fst (fst r), snd r)) (dp_loop_tr app szs obj so nt fuel cap st)
  = dp_loop app szs obj so nt fuel cap (fst st).
Proof. exact dp_loop_tr_fst. Qed.
Print Assumptions C09_traced_loop_is_the_loop.

(* C18 -- stub, replaced below *)
From Ctg Require Import Simulators.

(* C18 -- internal cost simulators agree; optimizers report the cost of what they return.
   Statements only; proofs are `exact <lemma of Proofs/SimulatorsFacts.v>`.
   Models: Model/Net.v (the tree rule: get_legs/get_involved/get_size/get_flops),
   Model/Simulators.v (compute_contracted_info; the processor's compute_contracted /
   compute_flops / contract_nodes / simplify passes), Model/HGraph.v (HyperGraph.contract).
   All are tied to /repo by harness/props/c18.py on every run.

   What is NOT proved here (only checked per run by the correspondence and the oracle):
   * the single-term pass (compute_simplified) and simplify_scalars are modelled and compared
     state by state, but have no theorem; simplify_hadamard / the greedy search are not modelled;
   (the chain reported flops = tree flops is C18_reported_flops_eq_tree_flops.) *)
From Coq Require Import Lia.
From Ctg Require Import Base Net HGraph Simulators Compressed BaseFacts NetFacts SimulatorsFacts HGraphFacts HGraphTreeFacts
                        ProcessorTreeFacts.

(* annealing's compute_contracted_info is the tree rule, literally: same keys in the same
   order with the same counts (legs_union then filter count < appearances), cost = product
   over the union, size = product over the survivors -- for ANY two leg dictionaries *)
Theorem C18_anneal_rule_eq_tree_rule : forall app sz a b, NoDup (lkeys a) -> NoDup (lkeys b) ->
  anneal_info app sz a b =
  (filter (keep app) (legs_union2 a b),
   (size_of sz (lkeys (legs_union2 a b)), size_of sz (lkeys (filter (keep app) (legs_union2 a b))))).
Proof. exact anneal_info_is_tree_rule. Qed.
Print Assumptions C18_anneal_rule_eq_tree_rule.

(* hence, on the legs of the two children of any node of any tree over any network, it returns
   exactly (get_legs, get_flops, get_size) of the parent: the precondition of
   contract_nodes_pair(legs=, cost=, size=) used by simulated annealing (C02/C04) *)
Theorem C18_anneal_eq_tree_figures : forall n l r, inrange n (leaves l ++ leaves r) ->
  anneal_info (appearances n) (szd n) (sub_legs n [] l) (sub_legs n [] r) =
  (sub_legs n [] (Node l r), (node_flops n [] (Node l r), node_size n [] false (Node l r))).
Proof. exact anneal_eq_tree. Qed.
Print Assumptions C18_anneal_eq_tree_figures.

(* the processor's compute_contracted on strictly sorted (ix, count) lists whose counts are
   below the appearances (the legs the processor holds after its single-term pass) equals
   the tree rule as a set with counts, and keeps the invariant for the next step *)
Theorem C18_processor_rule_eq_tree_rule : forall (app : legs) (ap : list nat) (a b : legs) (il jl : plegs),
  (forall j, papp_of ap j = lget0 j app) ->
  wfl a -> wfl b -> ssorted il -> ssorted jl -> same_counts il a -> same_counts jl b ->
  below ap il -> below ap jl -> (forall j, lget0 j a + lget0 j b <= lget0 j app) ->
  ssorted (pcontract ap il jl) /\ below ap (pcontract ap il jl) /\
  same_counts (pcontract ap il jl) (filter (keep app) (legs_union2 a b)).
Proof. exact processor_rule_is_tree_rule. Qed.
Print Assumptions C18_processor_rule_eq_tree_rule.

(* compute_flops = product of the sizes over the union of the two operands' indices = the
   tree's flops for operands with the same index sets *)
Theorem C18_processor_flops_eq_tree_flops : forall szs sz (a b : legs) (il jl : plegs),
  (forall j, psize_of szs j = zget j sz) ->
  NoDup (lkeys a) -> NoDup (lkeys b) -> NoDup (lkeys il) -> NoDup (lkeys jl) ->
  (forall j, In j (lkeys il) <-> In j (lkeys a)) -> (forall j, In j (lkeys jl) <-> In j (lkeys b)) ->
  pflops szs il jl = size_of sz (lkeys (legs_union2 a b)).
Proof. exact processor_flops_is_tree_flops. Qed.
Print Assumptions C18_processor_flops_eq_tree_flops.

(* simplify_preserves_rule, the part that FAILS: dropping an index x from both operands (what
   simplify_batch does to every node) divides the flops of every step on which x was present
   by exactly size(x); nothing in the pinned code multiplies it back.
   (partial: the statement that the single-term and scalar passes keep later figures equal is
   not proved; those passes are compared with the code state by state on every run.) *)
Theorem C18_simplify_batch_scales_flops_partial : forall szs x il jl, NoDup (lkeys il) -> NoDup (lkeys jl) ->
  pflops szs il jl =
  (pflops szs (drop_ix x il) (drop_ix x jl) *
   (if memb x (lkeys il) || memb x (lkeys jl) then psize_of szs x else 1))%Z.
Proof. exact batch_removal_scales_flops. Qed.
Print Assumptions C18_simplify_batch_scales_flops_partial.

(* simplify_preserves_rule, FULL STRENGTH.  C18_simplify_batch_scales_flops_partial was partial because
   nothing was said about the other simplify passes; that gap is closed here:
   * simplify_batch: the per-contraction scaling (first conjunct, = the partial statement) and, with
     batch_factor, its exact compensation over a whole run (C18_fixed_run_reports_unsimplified_flops);
   * simplify_single_terms: compute_simplified applied to ANY input's raw legs -- sorted, one positive
     entry per occurrence, repeated and fully-summed indices allowed -- yields exactly the tree's leaf
     legs (compute_leaf_legs) under the label -> processor-index renaming rho: strictly sorted, positive
     counts, keys in the image of rho, counts equal to leaf_legs n [] k (second conjunct);
   * simplify_scalars / simplify_hadamard only call contract_nodes, whose legs and flops are the tree
     rule by C18_processor_rule_eq_tree_rule / C18_processor_flops_eq_tree_flops.
   So after the passes every node the processor holds carries tree legs, and later steps' figures are
   the tree's. *)
Theorem C18_simplify_preserves_rule :
  (forall szs x il jl, NoDup (lkeys il) -> NoDup (lkeys jl) ->
     pflops szs il jl =
     (pflops szs (drop_ix x il) (drop_ix x jl) *
      (if memb x (lkeys il) || memb x (lkeys jl) then psize_of szs x else 1))%Z) /\
  (forall (n : net) (rho : ix -> nat) (ap : list nat) (k : nat) (l : plegs),
     k < NN n -> nd_from 0 l -> pos l ->
     (forall j, In j (lkeys l) -> exists e, In e (universe n) /\ j = rho e) ->
     (forall e, In e (universe n) -> papp_of ap (rho e) = appear n e) ->
     (forall e, In e (universe n) -> pcount (rho e) l = occ (nth k (inputs n) []) e) ->
     LR n rho (leaf_legs n [] k) (compute_simplified ap l)).
Proof. exact (conj batch_removal_scales_flops simplified_is_leaf_legs). Qed.
Print Assumptions C18_simplify_preserves_rule.

(* compute_simplified alone: merged counts, entries whose count reaches the appearances dropped *)
Theorem C18_compute_simplified_spec : forall ap l, nd_from 0 l -> pos l ->
  let R := compute_simplified ap l in
  ssorted R /\ pos R /\ (forall j, In j (lkeys R) -> 0 < pcount j l) /\
  forall j, lget0 j R = (if Nat.eqb (pcount j l) (papp_of ap j) then 0 else pcount j l).
Proof. exact compute_simplified_spec. Qed.
Print Assumptions C18_compute_simplified_spec.

(* FULL-STRENGTH form of C18_fixed_step_reports_original_flops_partial.  The partial version assumed, for
   the step at hand, that the held legs are the originals minus the batch indices B and that batch_factor =
   prod sizes(B); it did not show that this holds again for the next step.  Here the relation BRel B p1 p2
   between the run WITHOUT simplify_batch (p1) and the run WITH it (p2) -- same node ids, every node of p2
   holds drop_list B of p1's legs, p1's legs strictly sorted, batch_factor p2 = prod sizes(B) -- is shown
   to be PRESERVED by a contraction (the new node again holds originals minus B, because compute_contracted
   commutes with dropping indices), and both runs add the same flops.  The only per-step premise left is that
   every index of B sits on one of the two operands (present_b in the run-level theorem). *)
Theorem C18_fixed_step_reports_original_flops : forall B p1 p2 i j, BRel B p1 p2 -> NoDup B -> i <> j ->
  (forall x, In x B -> In x (lkeys (pget p1 i)) \/ In x (lkeys (pget p1 j))) ->
  BRel B (fst (proc_contract i j p1)) (fst (proc_contract i j p2)) /\
  (pflops_acc (fst (proc_contract i j p2)) - pflops_acc p2 =
   pflops_acc (fst (proc_contract i j p1)) - pflops_acc p1)%Z.
Proof. exact brel_step. Qed.
Print Assumptions C18_fixed_step_reports_original_flops.

(* non-vacuity of the single-term statement: a tensor with a repeated index (0 twice), a dangling index (2)
   and a shared one (1); its raw processor legs satisfy the hypotheses and compute_simplified gives the
   tree's leaf legs under the renaming *)
Example C18_single_term_nonvacuous :
  let n := mkNet [[0; 2; 0; 1]; [1; 0]] [0] [(0, 2%Z); (1, 3%Z); (2, 5%Z)] in
  let p0 := proc_init_fixed n true in
  let l := pget p0 0 in let rho := rho_of p0 in
  l = [(0, 1); (0, 1); (1, 1); (2, 1)] /\ nd_from 0 l /\
  map (fun e => pcount (rho e) l) (universe n) = map (occ (nth 0 (inputs n) [])) (universe n) /\
  map (fun e => papp_of (papp p0) (rho e)) (universe n) = map (appear n) (universe n) /\
  compute_simplified (papp p0) l = [(0, 2); (2, 1)] /\
  map (fun e => lget0 (rho e) (compute_simplified (papp p0) l)) (universe n) =
  map (fun e => lget0 e (leaf_legs n [] 0)) (universe n).
Proof. vm_compute. repeat split; try reflexivity; lia. Qed.

(* HISTORICAL (code before fix cd00d66, model variant pfix = false, `reported_flops`):
   finding 13 in the model: the flops random-greedy reported for a path (processor with
   track_flops, simplify_batch, then the contractions, flops NOT scaled by batch_factor) were
   not the flops of the tree built from that path: 'ab,bc->ac' with a=2,b=3,c=5 reported 10,
   the tree costs 30.  Kept as a regression statement about the OLD definition only. *)
Theorem C18_reported_cost_is_tree_cost_refuted_prefix_code :
  ~ (forall (n : net) (path : list (nat * nat)) (t : tree),
       ssa_tree (length (inputs n)) path = Some t -> reported_flops n path = total_flops n [] t).
Proof. exact reported_cost_refuted. Qed.
Print Assumptions C18_reported_cost_is_tree_cost_refuted_prefix_code.

(* THE CODE AS IT IS NOW (pfix = true: contract_nodes adds batch_factor * compute_flops).
   simplify_batch, on a processor whose edge map is complete (proc_edges_ok, evaluated per run
   as proc_edges_ok_b on every generated network), leaves every node with its legs minus the
   batch indices B, multiplies batch_factor by prod sizes(B) and touches nothing else *)
Theorem C18_simplify_batch_spec : forall p, proc_edges_ok p ->
  let B := batch_indices p in
  (forall i, pget (proc_simplify_batch p) i = drop_list B (pget p i)) /\
  pbatch (proc_simplify_batch p) = (pbatch p * pprod (pszs p) B)%Z /\
  pszs (proc_simplify_batch p) = pszs p /\ pflops_acc (proc_simplify_batch p) = pflops_acc p /\
  ptrack (proc_simplify_batch p) = ptrack p /\ pfix (proc_simplify_batch p) = pfix p.
Proof. exact simplify_batch_spec. Qed.
Print Assumptions C18_simplify_batch_spec.

(* ... and then every contraction adds exactly the flops of the operands' ORIGINAL legs
   (= product of the sizes over the union of their original indices, i.e. the tree's flops by
   C18_processor_flops_eq_tree_flops), whenever the held legs are the originals minus B, every
   index of B sits on one of the two operands (a batch index sits on every tensor) and
   batch_factor = prod sizes(B).
   (one step; the run-level statement is C18_fixed_run_reports_unsimplified_flops below) *)
Theorem C18_fixed_step_reports_original_flops_partial : forall p i j B il0 jl0,
  ptrack p = true -> pfix p = true -> i <> j ->
  pbatch p = pprod (pszs p) B -> pget p i = drop_list B il0 -> pget p j = drop_list B jl0 ->
  NoDup B -> NoDup (lkeys il0) -> NoDup (lkeys jl0) ->
  (forall x, In x B -> In x (lkeys il0) \/ In x (lkeys jl0)) ->
  pflops_acc (fst (proc_contract i j p)) = (pflops_acc p + pflops (pszs p) il0 jl0)%Z /\
  pflops (pszs p) il0 jl0 = pprod (pszs p) (union_keys il0 jl0).
Proof. exact fixed_step_reports_original_flops. Qed.
Print Assumptions C18_fixed_step_reports_original_flops_partial.

(* run level, the full statement for the code as it is now: on a processor whose structure is
   sound (proc_ok_b: track_flops, batch_factor = 1, complete edge map, distinct node ids, strictly
   sorted legs -- i.e. no repeated index inside a tensor --, distinct batch indices) and for any
   sequence of contractions in which every batch index sits on one of the two operands at every
   step (present_b, computed on the run WITHOUT simplify_batch), the flops reported after
   simplify_batch + the contractions equal the flops the same contractions report without
   simplify_batch, i.e. on the operands' full legs.  Both booleans are evaluated inside Coq on
   every generated network / path of the check. *)
Theorem C18_fixed_run_reports_unsimplified_flops : forall p path,
  proc_ok_b p = true -> present_b (batch_indices p) p path = true ->
  pflops_acc (run_path (proc_simplify_batch p) path) = pflops_acc (run_path p path).
Proof. exact fixed_run_eq_unsimplified_checked. Qed.
Print Assumptions C18_fixed_run_reports_unsimplified_flops.

(* THE SECOND HALF OF THE PROPERTY, for the code as it is now, with only boolean hypotheses that
   the check evaluates inside Coq on every generated case: the flops random-greedy reports for a
   path (processor with track_flops, simplify_batch, then the contractions of the path, each adding
   batch_factor * compute_flops) ARE total_flops of the tree built from that path.
     proc_ok_b   : the initial processor is structurally sound (see above);
     present_b   : every batch index sits on an operand at every step;
     init_lr_b   : the label -> processor-index map is injective on the network's indices, sizes and
                   appearances agree through it, and every input's legs are the tree's leaf legs
                   (true exactly when no index is repeated inside a tensor or dangling).
   Chain: simplify_batch run = unsimplified run (C18_fixed_run_reports_unsimplified_flops); in the
   unsimplified run every node carries the tree's legs of its subtree under the renaming, so each
   contraction adds node_flops of the new node (sum over the path of
   C18_processor_flops_eq_tree_flops / C18_processor_rule_eq_tree_rule); the nodes created along an
   SSA path are exactly the internal nodes of the tree it builds.
   Outside the model: simplify_single_terms / simplify_scalars / simplify_hadamard of the real
   simplify() (no-ops or flop-neutral pairings on these networks) and the greedy choice of the path. *)
Theorem C18_reported_flops_eq_tree_flops : forall n path t,
  let p0 := proc_init_fixed n true in
  proc_ok_b p0 = true -> present_b (batch_indices p0) p0 path = true -> init_lr_b n p0 = true ->
  ssa_tree (NN n) path = Some t ->
  reported_flops_gen true n path = total_flops n [] t.
Proof. exact rgreedy_reports_tree_flops. Qed.
Print Assumptions C18_reported_flops_eq_tree_flops.

(* the nodes an SSA path creates are the internal nodes of the tree it builds *)
Theorem C18_ssa_path_creates_tree_nodes : forall N path t, ssa_tree N path = Some t ->
  Permutation.Permutation (post_sub t) (replay_trees N (map (fun i => (i, Leaf i)) (seq 0 N)) path).
Proof. exact ssa_tree_nodes. Qed.
Print Assumptions C18_ssa_path_creates_tree_nodes.

(* compute_contracted commutes with dropping indices (the legs part of the invariant) *)
Theorem C18_compute_contracted_commutes_with_batch_removal : forall ap B il jl, ssorted il -> ssorted jl ->
  pcontract ap (drop_list B il) (drop_list B jl) = drop_list B (pcontract ap il jl).
Proof. exact pcontract_drop_list. Qed.
Print Assumptions C18_compute_contracted_commutes_with_batch_removal.

Theorem C18_edges_checker_sound : forall p, proc_edges_ok_b p = true -> proc_edges_ok p.
Proof. exact proc_edges_ok_b_sound. Qed.
Print Assumptions C18_edges_checker_sound.

(* the fixed code on the old witness and on a network with a batch index on three tensors *)
Example C18_fixed_code_witnesses :
  reported_flops_gen true witness_net [(0, 1)] = total_flops witness_net [] (Node (Leaf 0) (Leaf 1)) /\
  let n := mkNet [[0; 1; 4]; [1; 2; 4]; [2; 3; 4]] [0; 3; 4] [(0, 2%Z); (1, 2%Z); (2, 2%Z); (3, 2%Z); (4, 7%Z)] in
  proc_edges_ok_b (proc_init_fixed n true) = true /\ batch_indices (proc_init_fixed n true) = [2] /\
  reported_flops_gen true n [(0, 1); (3, 2)] = total_flops n [] (Node (Node (Leaf 0) (Leaf 1)) (Leaf 2)) /\
  reported_flops n [(0, 1); (3, 2)] <> total_flops n [] (Node (Node (Leaf 0) (Leaf 1)) (Leaf 2)).
Proof. vm_compute. repeat split; try reflexivity. discriminate. Qed.

(* hypergraph_rule_eq_tree_rule: for every network without a repeated index inside a tensor and
   every valid SSA path, replaying the path through HyperGraph.contract (from HyperGraph(inputs,
   output, size_dict)) yields at every step a node whose (duplicate-free) index list is, as a
   set, exactly the tree's legs of the corresponding subtree and whose node_size is the tree's
   size; if moreover no index lives on a single tensor without being an output (nodangling)
   then contract_pair_cost is the tree's flops.  obs_ok nd (k, (inds, (size, cost))) t says:
   NoDup inds, inds =set lkeys (sub_legs n [] t), size = node_size, and (nd -> cost = node_flops). *)
Theorem C18_hypergraph_rule_eq_tree_rule : forall n, (forall t, In t (inputs n) -> NoDup t) ->
  forall path f' nd, (nd = true -> nodangling n) ->
  ssa_replay (NN n) (map (fun i => (i, Leaf i)) (seq 0 (NN n))) path = Some f' ->
  Forall2 (obs_ok n nd) (hg_replay (hg_init (inputs n) (output n) (szd n)) path)
                        (replay_trees (NN n) (map (fun i => (i, Leaf i)) (seq 0 (NN n))) path) /\
  length (hg_replay (hg_init (inputs n) (output n) (szd n)) path) = length path.
Proof. exact hg_replay_is_tree_rule. Qed.
Print Assumptions C18_hypergraph_rule_eq_tree_rule.

(* the invariant behind it, one contraction at a time: the hypergraph represents a forest *)
Theorem C18_hypergraph_contract_keeps_representation : forall n g F i j ti tj, Rep n g F -> i <> j -> In (i, ti) F -> In (j, tj) F ->
  let g' := fst (hg_contract i j g) in
  let k := snd (hg_contract i j g) in
  k = hnext g /\ Rep n g' ((k, Node ti tj) :: del_tree j (del_tree i F)) /\
  NoDup (get_node g' k) /\
  (forall e, In e (get_node g' k) <-> In e (lkeys (sub_legs n [] (Node ti tj)))) /\
  inrange n (leaves ti ++ leaves tj).
Proof. exact contract_rep. Qed.
Print Assumptions C18_hypergraph_contract_keeps_representation.

Example C18_hypergraph_nonvacuous :
  let n := mkNet [[0; 1]; [1; 2]; [1; 3]; [3; 0]] [2] [(0, 2%Z); (1, 3%Z); (2, 5%Z); (3, 2%Z)] in
  (forall t, In t (inputs n) -> NoDup t) /\
  ssa_replay 4 (map (fun i => (i, Leaf i)) (seq 0 4)) [(0, 1); (2, 3); (4, 5)] <> None /\
  hg_replay (hg_init (inputs n) (output n) (szd n)) [(0, 1); (2, 3); (4, 5)] =
    [(4, ([0; 1; 2], (30%Z, 30%Z))); (5, ([1; 0], (6%Z, 12%Z))); (6, ([2], (5%Z, 30%Z)))] /\
  map (fun t => (lkeys (sub_legs n [] t), node_size n [] false t, node_flops n [] t))
      (replay_trees 4 (map (fun i => (i, Leaf i)) (seq 0 4)) [(0, 1); (2, 3); (4, 5)]) =
    [([0; 1; 2], 30%Z, 30%Z); ([1; 0], 6%Z, 12%Z); ([2], 5%Z, 30%Z)].
Proof.
  cbn zeta. split.
  { intros t [<-|[<-|[<-|[<-|[]]]]]; repeat constructor; cbn; intuition lia. }
  vm_compute. repeat split; try reflexivity. discriminate.
Qed.

(* non-vacuity: a hyper index (1 on three tensors), an output index; the hypotheses of the
   processor theorems hold for the first step and the figures are the expected numbers *)
Example C18_nonvacuous :
  let n := mkNet [[0; 1]; [1; 2]; [1; 3]] [3] [(0, 2%Z); (1, 3%Z); (2, 5%Z); (3, 2%Z)] in
  let p := proc_simplify_single (proc_init n true) in
  let il := pget p 3 in let jl := pget p 4 in
  inrange n (leaves (Leaf 0) ++ leaves (Leaf 1)) /\
  il = [(1, 1)] /\ jl = [(1, 1)] /\ ssorted il /\ ssorted jl /\ below (papp p) il /\ below (papp p) jl /\
  pcontract (papp p) il jl = [(1, 2)] /\ pflops (pszs p) il jl = 3%Z /\
  anneal_info (appearances n) (szd n) (sub_legs n [] (Leaf 0)) (sub_legs n [] (Leaf 1)) = ([(1, 2)], (3%Z, 3%Z)) /\
  total_flops n [] (Node (Node (Leaf 0) (Leaf 1)) (Leaf 2)) = 9%Z.
Proof.
  cbn zeta. split.
  { split; [repeat constructor; cbn; intuition lia|]. intros k Hk. cbn in Hk. unfold NN. cbn. intuition lia. }
  vm_compute. repeat split; try reflexivity; try (repeat constructor);
    try (intros kv [<-|[]]; cbn; lia).
Qed.

(* C01td -- C01 for the tensordot path: whenever extract_contractions chooses
   tensordot(l, r, axes) [+ transpose(perm)] instead of einsum(eq, l, r) for a node,
   the stored array is the same (same shape, same entry at every position), so the
   whole-tree value-and-axis-order theorem of C01 holds for every prefer_einsum setting.
   Statements only; proofs are `exact <lemma>` (Proofs/TdotFacts.v).

   Model: Model/Program.v -- tdot_axes_from (get_tensordot_axes), td_inds / tensordot_perm
   (get_tensordot_perm), can_dot (get_can_dot), tdot (positional numpy.tensordot: contracted
   tuples via sum_tuples, operand positions via build_from, result axes = free axes of a
   then free axes of b), transpose (positional numpy.transpose), einsum2 (positional
   numpy.einsum with explicit output), exec_instr (Contractor.__call__, one step).
   ptensor = list nat -> Z is a positional array; sarr = (shape, ptensor).

   "Same array" (sarr_eq X Y): fst X = fst Y and snd X pos = snd Y pos for every position
   list pos with length pos = rank.  (Positional arrays are total functions; positions of
   another length are never read by any instruction.)

   (1)-(3) are quantified over ALL duplicate-free index lists li ri, ALL positional arrays,
   every dimension table (sizes 0 and 1 included); (4)-(6) over every network, every slicing,
   every tree node / every complete tree.  The axis lists li ri pi in (1)-(3) are arbitrary,
   so they also cover orders produced by sort_contraction_indices; (4)-(9) use the default
   per-node axis orders (inds_sub), as Program.node_instr does.
   (7)-(9) are about the interpreter exec_program itself (the `temps` dictionary with its
   pops), for the depth-first order and for every order accepted by the checker valid_order_b.

   Not covered here: that the executable definitions tdot / transpose / einsum2 of Program.v
   agree with numpy (validated on integer arrays by the harness every run), floating point. *)
From Ctg Require Import Base Net Einsum Program BaseFacts NetFacts SumOver TreeEval ProgramFacts TdotFacts.
Open Scope Z_scope.

(* (1) numpy.tensordot with the axes of get_tensordot_axes IS the two-operand einsum whose
       output lists the unshared indices of l (in l-order) followed by those of r *)
Theorem C01td_tensordot_is_einsum : forall n (bg : env) li ri (A B : ptensor),
  NoDup li -> NoDup ri ->
  let la := fst (tdot_axes_from 0 li ri) in
  let ra := snd (tdot_axes_from 0 li ri) in
  let td := filter (fun j => negb (memb j ri)) li ++ filter (fun j => negb (memb j li)) ri in
  let X := tdot (map (dim n) li, A) (map (dim n) ri, B) la ra in
  fst X = map (dim n) td /\
  forall pos, length pos = length td -> snd X pos = einsum2 n bg li ri td A B pos.
Proof. exact tdot_is_einsum. Qed.
Print Assumptions C01td_tensordot_is_einsum.

(* (2) get_tensordot_perm's sorted(p_inds, key=(l_inds+r_inds).find) reproduces exactly that
       tensordot axis order, for every duplicate-free p_inds with the same elements *)
Theorem C01td_td_inds_is_tensordot_order : forall li ri pi,
  NoDup li -> NoDup ri -> NoDup pi ->
  (forall j, In j pi <-> In j (symdiff li ri)) ->
  td_inds li ri pi = filter (fun j => negb (memb j ri)) li ++ filter (fun j => negb (memb j li)) ri.
Proof. exact td_inds_is_symdiff. Qed.
Print Assumptions C01td_td_inds_is_tensordot_order.

(* (3) tensordot followed by the optional transpose of get_tensordot_perm is the einsum with
       the node's declared axis order pi: shape and every entry *)
Theorem C01td_tensordot_transpose_is_einsum : forall n (bg : env) li ri pi (A B : ptensor),
  NoDup li -> NoDup ri -> NoDup pi -> (forall j, In j pi <-> In j (symdiff li ri)) ->
  let la := fst (tdot_axes_from 0 li ri) in
  let ra := snd (tdot_axes_from 0 li ri) in
  let X := tdot (map (dim n) li, A) (map (dim n) ri, B) la ra in
  let td := td_inds li ri pi in
  let perm := if list_eqb Nat.eqb td pi then None
              else Some (map (fun j => match find_pos j td with Some p => p | None => 0%nat end) pi) in
  let X' := match perm with Some pm => transpose X pm | None => X end in
  fst X' = map (dim n) pi /\
  forall pos, length pos = length pi -> snd X' pos = einsum2 n bg li ri pi A B pos.
Proof. exact tdot_transpose_is_einsum. Qed.
Print Assumptions C01td_tensordot_transpose_is_einsum.

(* the `perm` above is literally Program.tensordot_perm of the node *)
Theorem C01td_perm_is_get_tensordot_perm : forall n sl isroot l r,
  tensordot_perm n sl isroot (Node l r)
  = (let li := inds_sub n sl l in let ri := inds_sub n sl r in let pi := inds n sl isroot (Node l r) in
     let td := td_inds li ri pi in
     if list_eqb Nat.eqb td pi then None
     else Some (map (fun j => match find_pos j td with Some p => p | None => 0%nat end) pi)).
Proof. exact td_perm_is_program_perm. Qed.
Print Assumptions C01td_perm_is_get_tensordot_perm.

(* get_can_dot = true means: the node's indices are exactly the unshared ones *)
Theorem C01td_can_dot_meaning : forall n sl isroot l r, inrange n (leaves l ++ leaves r) ->
  can_dot n sl isroot (Node l r) = true ->
  forall j, In j (inds n sl isroot (Node l r)) <-> In j (symdiff (inds_sub n sl l) (inds_sub n sl r)).
Proof. exact can_dot_inds. Qed.
Print Assumptions C01td_can_dot_meaning.

(* (4) one node of any tree, any state `tm` of the interpreter in which the two operands have
       the shapes of their axis lists: the instruction emitted with prefer_einsum=False (ITdot
       when can_dot) and the one emitted with prefer_einsum=True (IEinsum) leave the same
       temporaries, except that the parent's entry holds X resp. Y with sarr_eq X Y *)
Theorem C01td_node_tensordot_eq_einsum : forall n sl e0 isroot l r (tm : temps),
  inrange n (leaves l ++ leaves r) ->
  NoDup (inds n sl isroot (Node l r)) ->
  can_dot n sl isroot (Node l r) = true ->
  fst (tget (leaves l) tm) = map (dim n) (inds_sub n sl l) ->
  fst (tget (leaves r) tm) = map (dim n) (inds_sub n sl r) ->
  let t := Node l r in
  let li := inds_sub n sl l in let ri := inds_sub n sl r in let pi := inds n sl isroot t in
  let L := tget (leaves l) tm in let R := tget (leaves r) tm in
  let rest := tdel (leaves r) (tdel (leaves l) tm) in
  let Y := (map (dim n) pi, einsum2 n e0 li ri pi (snd L) (snd R)) in
  exists X,
    fold_left (exec_instr n e0) (node_instr n sl false (isroot, t)) tm = tset (leaves t) X rest /\
    fold_left (exec_instr n e0) (node_instr n sl true (isroot, t)) tm = tset (leaves t) Y rest /\
    sarr_eq X Y.
Proof. exact node_tdot_eq_einsum. Qed.
Print Assumptions C01td_node_tensordot_eq_einsum.

(* the NoDup hypothesis of (4) holds for every proper subtree, and for the root when the
   declared output has no repeated index *)
Theorem C01td_node_inds_nodup_sub : forall n sl l r, inrange n (leaves l ++ leaves r) ->
  NoDup (inds n sl false (Node l r)).
Proof. exact inds_nodup_sub. Qed.
Print Assumptions C01td_node_inds_nodup_sub.
Theorem C01td_node_inds_nodup_root : forall n sl l r, NoDup (output n) ->
  NoDup (inds n sl true (Node l r)).
Proof. exact inds_nodup_root. Qed.
Print Assumptions C01td_node_inds_nodup_root.

(* (5) what node_instr's instruction stores, as a function of the operands (for either
       prefer_einsum), and the recursive execution built from it *)
Theorem C01td_node_instr_exec : forall n sl e0 pe isroot l r (tm : temps),
  fold_left (exec_instr n e0) (node_instr n sl pe (isroot, Node l r)) tm
  = tset (leaves (Node l r))
         (node_exec n sl e0 pe isroot l r (tget (leaves l) tm) (tget (leaves r) tm))
         (tdel (leaves r) (tdel (leaves l) tm)).
Proof. exact node_instr_exec. Qed.
Print Assumptions C01td_node_instr_exec.

(* every subtree: the mixed tensordot/einsum execution holds the same array as the
   pure-einsum execution run_sub of C01 *)
Theorem C01td_subtree_same_array : forall n sl arr e0 pe t, inrange n (leaves t) ->
  sarr_eq (run_sub_x n sl arr e0 pe t) (map (dim n) (inds_sub n sl t), run_sub n sl arr e0 t).
Proof. exact run_sub_x_eq. Qed.
Print Assumptions C01td_subtree_same_array.

(* (6) C01_program_value_and_axis_order for EVERY prefer_einsum setting: the result has the
       shape of the declared output (minus removed indices) and holds the einsum value *)
Theorem C01td_program_value_and_axis_order : forall n sl arr e0 pe l r,
  wf_net n -> full_tree n (Node l r) ->
  fst (run_root_x n sl arr e0 pe (Node l r)) = map (dim n) (out_inds n sl) /\
  forall e, agree_removed sl e0 e ->
    snd (run_root_x n sl arr e0 pe (Node l r)) (map e (out_inds n sl)) = einsum_spec n sl arr e.
Proof. exact run_root_x_correct. Qed.
Print Assumptions C01td_program_value_and_axis_order.

(* (7) the interpreter itself: Contractor.__call__ (exec_program: the `temps` dictionary,
       pre-processing instructions first, then one instruction per internal node, children
       popped) run on the program extract_contractions emits for the default depth-first
       order returns exactly the recursive execution of (5)/(6) ... *)
Theorem C01td_interpreter_dfs_is_recursive : forall n sl arr e0 pe l r,
  NoDup (leaves l ++ leaves r) ->
  exec_program n sl arr e0 (program n sl pe (Node l r) (traverse_dfs (Node l r))) (Node l r)
  = run_root_x n sl arr e0 pe (Node l r).
Proof. exact exec_program_dfs. Qed.
Print Assumptions C01td_interpreter_dfs_is_recursive.

(* (8) ... hence, for every prefer_einsum, the array the interpreter returns has the declared
       output axes in the declared order and holds the mathematical einsum *)
Theorem C01td_interpreter_value_and_axis_order : forall n sl arr e0 pe l r,
  wf_net n -> full_tree n (Node l r) ->
  let res := exec_program n sl arr e0 (program n sl pe (Node l r) (traverse_dfs (Node l r))) (Node l r) in
  fst res = map (dim n) (out_inds n sl) /\
  forall e, agree_removed sl e0 e -> snd res (map e (out_inds n sl)) = einsum_spec n sl arr e.
Proof. exact exec_program_dfs_correct. Qed.
Print Assumptions C01td_interpreter_value_and_axis_order.

(* (9) ANY traversal order (tree.traverse(order=...)).  valid_order_b t order replays the
       order on a frontier of available subtrees, initially the leaves: each entry
       (flag, Node a b) needs a and b available and distinct and makes Node a b available in
       their place; all flags are false except the last entry, which is (true, t).  It is an
       executable check (the harness can run it on the order the real code produced).  For every
       order that passes, the interpreter returns exactly the recursive execution ... *)
Theorem C01td_interpreter_any_order_is_recursive : forall n sl arr e0 pe t order,
  NoDup (leaves t) -> valid_order_b t order = true ->
  exec_program n sl arr e0 (program n sl pe t order) t = run_root_x n sl arr e0 pe t.
Proof. exact exec_program_any_order. Qed.
Print Assumptions C01td_interpreter_any_order_is_recursive.

(* ... hence value and axis order, for every prefer_einsum and every valid order *)
Theorem C01td_interpreter_any_order_value_and_axis_order : forall n sl arr e0 pe t order,
  wf_net n -> full_tree n t -> valid_order_b t order = true ->
  let res := exec_program n sl arr e0 (program n sl pe t order) t in
  fst res = map (dim n) (out_inds n sl) /\
  forall e, agree_removed sl e0 e -> snd res (map e (out_inds n sl)) = einsum_spec n sl arr e.
Proof. exact exec_program_any_order_correct. Qed.
Print Assumptions C01td_interpreter_any_order_value_and_axis_order.

(* the default depth-first order passes the order check for every tree with distinct leaves
   (the hypothesis of (9) is satisfiable for every tree; (7) is an instance of (9)) *)
Theorem C01td_dfs_order_is_valid : forall l r, NoDup (leaves l ++ leaves r) ->
  valid_order_b (Node l r) (traverse_dfs (Node l r)) = true.
Proof. exact dfs_order_valid. Qed.
Print Assumptions C01td_dfs_order_is_valid.

(* non-vacuity: 'ab,bc->ca' -- the root can be done by tensordot, and needs the transpose
   [1;0]; a 3-tensor chain where an inner node is a tensordot without transpose *)
Local Open Scope nat_scope.
Example C01td_nonvacuous_root :
  let n := mkNet [[0;1]; [1;2]] [2;0] [(0,2%Z);(1,3%Z);(2,4%Z)] in
  let t := Node (Leaf 0) (Leaf 1) in
  inrange n (leaves t) /\ NoDup (output n) /\ can_dot n [] true t = true /\
  tensordot_axes n [] t = ([1], [0]) /\ tensordot_perm n [] true t = Some [1;0].
Proof.
  cbn zeta. split; [|split; [|split; [|split]]]; try (vm_compute; reflexivity).
  - split; [repeat constructor; cbn; intuition discriminate|]. intros k [<-|[<-|[]]]; cbn; auto.
  - repeat constructor; cbn; intuition discriminate.
Qed.
Example C01td_nonvacuous_inner :
  let n := mkNet [[0;1]; [1;2]; [2;3]] [0;3] [(0,2%Z);(1,3%Z);(2,4%Z);(3,2%Z)] in
  let t := Node (Leaf 0) (Leaf 1) in
  inrange n (leaves t) /\ can_dot n [] false t = true /\
  tensordot_axes n [] t = ([1], [0]) /\ tensordot_perm n [] false t = None /\
  inds n [] false t = [0;2].
Proof.
  cbn zeta. split; [|split; [|split; [|split]]]; try (vm_compute; reflexivity).
  split; [repeat constructor; cbn; intuition discriminate|]. intros k [<-|[<-|[]]]; cbn; auto.
Qed.

(* the depth-first order and a breadth-first-like order of a 4-leaf tree both pass the
   order check; an order with a parent before its child does not *)
Example C01td_valid_orders :
  let a := Node (Leaf 0) (Leaf 3) in let b := Node (Leaf 1) (Leaf 2) in let t := Node a b in
  valid_order_b t (traverse_dfs t) = true /\
  valid_order_b t [(false, b); (false, a); (true, t)] = true /\
  valid_order_b t [(false, a); (true, t); (false, b)] = false /\
  valid_order_b t [(false, a); (false, b); (false, t)] = false.
Proof. cbn zeta. repeat split; vm_compute; reflexivity. Qed.

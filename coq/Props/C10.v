(* C10 -- path formats convert into each other and into trees without loss.
   Statements only; proofs are `exact <lemma of Proofs/PathsFacts.v>`.
   Model: Model/Paths.v (tied to cotengra/core.py and pathfinders/path_basic.py by
   harness/props/c10.py). *)
From Coq Require Import Lia.
From Coq Require Import Permutation.
From Ctg Require Import Base Net Paths BaseFacts PathsFacts PathsRoundtrip PathsOrdered PathsEdge.
From Ctg Require ExecOrderFacts.

(* key fact behind linear <-> ssa: on a strictly increasing id list the real binary search
   bisect_left returns the exact position of a present id, so `bisect_left(ids, ids.pop(c))`
   recovers c *)
Theorem C10_bisect_left_exact : forall a k, strictly_increasing a -> k < length a ->
  bisect_left a (nth k a 0) = k.
Proof. exact bisect_left_exact. Qed.
Print Assumptions C10_bisect_left_exact.

(* the id lists of both converters stay strictly increasing: they start as range(N), lose
   entries, and gain a fresh id larger than all others *)
Theorem C10_ids_start_increasing : forall N, strictly_increasing (seq 0 N).
Proof. exact seq_strictly_increasing. Qed.
Print Assumptions C10_ids_start_increasing.

Theorem C10_ids_pop_increasing : forall l c, strictly_increasing l -> c < length l ->
  strictly_increasing (pop_nth c l).
Proof. exact pop_strictly_increasing. Qed.
Print Assumptions C10_ids_pop_increasing.

Theorem C10_ids_append_increasing : forall l x, strictly_increasing l ->
  (forall i, i < length l -> nth i l 0 < x) -> strictly_increasing (l ++ [x]).
Proof. exact app_fresh_strictly_increasing. Qed.
Print Assumptions C10_ids_append_increasing.

(* traverse_dfs_children_first: for every tree, in the dfs order every internal child is
   emitted before its parent (whatever was emitted before) *)
Theorem C10_traverse_dfs_children_first : forall t seen, children_first_from seen (post_sub t) = true.
Proof. exact post_sub_children_first. Qed.
Print Assumptions C10_traverse_dfs_children_first.

(* the dfs order is admissible for EVERY binary tree with distinct leaves, whatever the stored
   (left, right) order at each node: `tree` has no heaviest-first constraint, Leaf k may sit on
   the left of a Node.  (C01's ExecOrderFacts.traverse_dfs_valid states the same for its
   valid_order.)  Together with C10_get_path_roundtrip / C10_get_ssa_path_roundtrip, which
   quantify over all t : tree, the round trips hold for every child order. *)
Theorem C10_traverse_dfs_admissible_any_child_order : forall t, NoDup (leaves t) -> ok_order t (post_sub t).
Proof. exact dfs_ok_order. Qed.
Print Assumptions C10_traverse_dfs_admissible_any_child_order.

(* meaning of the checker children_first_from (it is run on every real traversal, for
   every order, so for arbitrary callables the statement is certified per run) *)
Theorem C10_children_first_checker_sound : forall trav seen, children_first_from seen trav = true ->
  forall pre l r post, trav = pre ++ Node l r :: post ->
    (is_internal l = true -> In l (pre ++ seen)) /\ (is_internal r = true -> In r (pre ++ seen)).
Proof. exact children_first_sound. Qed.
Print Assumptions C10_children_first_checker_sound.

(* traverse_covers_all_nodes: the dfs order has exactly one entry per internal node *)
Theorem C10_traverse_dfs_length : forall t, length (post_sub t) = count_internal t.
Proof. exact post_sub_length. Qed.
Print Assumptions C10_traverse_dfs_length.

Theorem C10_covers_checker_sound : forall t trav, covers_b t trav = true ->
  length trav = count_internal t /\ (forall s, In s (post_sub t) <-> In s trav).
Proof. exact covers_b_sound. Qed.
Print Assumptions C10_covers_checker_sound.

(* get_path_roundtrip / get_ssa_path_roundtrip.  For every tree t whose leaves are distinct
   and are 0..N-1 (full_leaves), and EVERY admissible order trav of its internal nodes
   (ok_order: each internal node at most once, only nodes of t, every internal child strictly
   earlier; plus trav is a permutation of the internal nodes), rebuilding a tree from the
   emitted path yields ONE tree t' equal to t up to the left/right order of children (sim;
   contract_nodes_pair re-decides left/right), and therefore with the same multiset of
   intermediates (sorted leaf sets).  The pairs of the emitted path are passed as 2-element
   steps (pl). *)
Theorem C10_get_ssa_path_roundtrip : forall N t trav,
  full_leaves N t -> ok_order t trav -> Permutation trav (post_sub t) ->
  exists t', from_ssa_path N (map pl (get_ssa_path N trav)) = Some [t'] /\ sim t t' /\
             Permutation (map node_set (post_sub t)) (map node_set (post_sub t')).
Proof. exact get_ssa_path_roundtrip. Qed.
Print Assumptions C10_get_ssa_path_roundtrip.

Theorem C10_get_path_roundtrip : forall N t trav,
  full_leaves N t -> ok_order t trav -> Permutation trav (post_sub t) ->
  exists t', from_path N (map pl (get_path N trav)) = Some [t'] /\ sim t t' /\
             Permutation (map node_set (post_sub t)) (map node_set (post_sub t')).
Proof. exact get_path_roundtrip. Qed.
Print Assumptions C10_get_path_roundtrip.

(* instances: the dfs order ... *)
Theorem C10_get_path_roundtrip_dfs : forall N t, full_leaves N t ->
  exists t', from_path N (map pl (get_path N (post_sub t))) = Some [t'] /\ sim t t' /\
             Permutation (map node_set (post_sub t)) (map node_set (post_sub t')).
Proof. exact get_path_roundtrip_dfs. Qed.
Print Assumptions C10_get_path_roundtrip_dfs.

Theorem C10_get_ssa_path_roundtrip_dfs : forall N t, full_leaves N t ->
  exists t', from_ssa_path N (map pl (get_ssa_path N (post_sub t))) = Some [t'] /\ sim t t' /\
             Permutation (map node_set (post_sub t)) (map node_set (post_sub t')).
Proof. exact get_ssa_path_roundtrip_dfs. Qed.
Print Assumptions C10_get_ssa_path_roundtrip_dfs.

(* ... and every order that is valid in the sense of C01's ExecOrderFacts.valid_order *)
Theorem C10_roundtrips_valid_order : forall N t order, full_leaves N t -> ExecOrderFacts.valid_order t order ->
  (exists t', from_path N (map pl (get_path N (map snd order))) = Some [t'] /\ sim t t' /\
             Permutation (map node_set (post_sub t)) (map node_set (post_sub t'))) /\
  (exists t', from_ssa_path N (map pl (get_ssa_path N (map snd order))) = Some [t'] /\ sim t t' /\
             Permutation (map node_set (post_sub t)) (map node_set (post_sub t'))).
Proof. exact roundtrips_valid_order. Qed.
Print Assumptions C10_roundtrips_valid_order.

(* traverse_ordered_children_first (+ traverse_covers_all_nodes_once): for an ARBITRARY score
   function, the model of _traverse_ordered -- queue / scores / seen, bisect run as the real
   binary search on the prefix scores[:i], no sortedness of the scores assumed -- returns an
   admissible order: every internal node of t exactly once, every internal child strictly
   before its parent.  (Hypothesis: the leaves of t are distinct.) *)
Theorem C10_traverse_ordered_children_first : forall order t, NoDup (leaves t) ->
  ok_order t (traverse_ordered order t) /\ Permutation (traverse_ordered order t) (post_sub t).
Proof. exact traverse_ordered_ok. Qed.
Print Assumptions C10_traverse_ordered_children_first.

(* hence tree -> get_path(order) -> from_path is lossless for every callable order *)
Theorem C10_roundtrips_traverse_ordered : forall order N t, full_leaves N t ->
  (exists t', from_path N (map pl (get_path N (traverse_ordered order t))) = Some [t'] /\ sim t t' /\
              Permutation (map node_set (post_sub t)) (map node_set (post_sub t'))) /\
  (exists t', from_ssa_path N (map pl (get_ssa_path N (traverse_ordered order t))) = Some [t'] /\ sim t t' /\
              Permutation (map node_set (post_sub t)) (map node_set (post_sub t'))).
Proof.
  intros order N t H. destruct (traverse_ordered_ok order t (proj1 H)) as [Hok HP].
  split; [apply get_path_roundtrip|apply get_ssa_path_roundtrip]; assumption.
Qed.
Print Assumptions C10_roundtrips_traverse_ordered.

(* the per-run checkers stay as a cross-check between the model and the real paths *)
Theorem C10_roundtrip_lin_checker_sound : forall N t path, roundtrip_lin_b N t path = true ->
  exists t', from_path N path = Some [t'] /\ same_nodes t t' = true.
Proof. exact roundtrip_lin_b_sound. Qed.
Print Assumptions C10_roundtrip_lin_checker_sound.

Theorem C10_roundtrip_ssa_checker_sound : forall N t path, roundtrip_ssa_b N t path = true ->
  exists t', from_ssa_path N path = Some [t'] /\ same_nodes t t' = true.
Proof. exact roundtrip_ssa_b_sound. Qed.
Print Assumptions C10_roundtrip_ssa_checker_sound.

(* one conversion step is inverted exactly, for ALL strictly increasing id lists and all
   strictly descending in-range position lists (= sorted(con, reverse=True) of distinct valid
   positions): the ids read by linear_to_ssa's pops are the original entries at those
   positions, and ssa_to_linear's bisect_left maps them back to the positions *)
Theorem C10_step_positions_recovered : forall ids ds,
  strictly_increasing ids -> desc_from (length ids) ds ->
  map (bisect_left ids)
      (snd (fold_left (fun s c => (pop_nth c (fst s), snd s ++ [nth c (fst s) 0])) ds (ids, []))) = ds.
Proof. exact step_positions_recovered. Qed.
Print Assumptions C10_step_positions_recovered.

(* linear_ssa_inverse / ssa_linear_inverse, for ALL valid paths (steps of any length >= 1).
   valid_lin m p: every step is non-empty, duplicate-free, names positions < current number of
   tensors.  valid_ssa live ssa p: every step is non-empty, duplicate-free and names live ids;
   used ids die, the fresh id is born.  The converters are exact inverses up to the order inside
   a step (ssa_to_linear sorts a step ascending, linear_to_ssa lists it by descending position). *)
Theorem C10_linear_ssa_inverse : forall path N, valid_lin N path ->
  ssa_to_linear (linear_to_ssa path N) N = map sort_asc path.
Proof. exact linear_ssa_inverse. Qed.
Print Assumptions C10_linear_ssa_inverse.

Theorem C10_ssa_linear_inverse : forall spath N, valid_ssa (seq 0 N) N spath ->
  linear_to_ssa (ssa_to_linear spath N) N = map sort_desc spath.
Proof. exact ssa_linear_inverse. Qed.
Print Assumptions C10_ssa_linear_inverse.

(* the per-run checker on generated general paths stays as a cross-check of the model *)
Theorem C10_linear_ssa_inverse_checker_sound : forall path N, inverse_ok_b path N = true ->
  ssa_to_linear (linear_to_ssa path N) N = map sort_asc path.
Proof. exact inverse_ok_b_sound. Qed.
Print Assumptions C10_linear_ssa_inverse_checker_sound.

(* edge_path_steps_are_carriers.  The independent simulation (spec_run): live tensors are
   (id, list of original leaves); tensor lv CARRIES index j iff some leaf of lv has j in its
   input term; processing j collects the live carriers of j -- fewer than two: nothing happens;
   otherwise they are replaced by one new tensor (fresh id, union of their leaves) and the step
   (their ids, ascending) is emitted (C10_spec_step_char).
   Theorem: on every list of DISTINCT indices occurring in the network the model of
   edge_path_to_ssa does not raise and emits exactly the simulation's steps; on any other list
   it raises (KeyError in the code) at the first repeated / unknown index, having emitted the
   steps of the valid prefix.  (The proof also shows that the model's jx_ssas.remove(s) always
   removes a present element -- invariant r_s2i_live of Proofs/PathsEdge.v.) *)
Theorem C10_spec_step_char : forall inputs sp j,
  let car := filter (fun t => carries inputs (snd t) j) (sp_live sp) in
  (length car < 2 -> spec_step inputs sp j = sp) /\
  (2 <= length car ->
     sp_path (spec_step inputs sp j) = sp_path sp ++ [map fst car] /\
     sp_live (spec_step inputs sp j) =
       filter (fun t => negb (carries inputs (snd t) j)) (sp_live sp) ++ [(sp_next sp, concat (map snd car))] /\
     sp_next (spec_step inputs sp j) = S (sp_next sp)).
Proof. exact spec_step_char. Qed.
Print Assumptions C10_spec_step_char.

Theorem C10_edge_path_steps_are_carriers : forall inputs ep,
  NoDup ep -> (forall j, In j ep -> known inputs j = true) ->
  edge_path_to_ssa ep inputs = (sp_path (spec_run inputs ep), false).
Proof. exact edge_path_refines. Qed.
Print Assumptions C10_edge_path_steps_are_carriers.

Theorem C10_edge_path_raises : forall inputs pre j suf,
  NoDup pre -> (forall i, In i pre -> known inputs i = true) ->
  (In j pre \/ known inputs j = false) ->
  edge_path_to_ssa (pre ++ j :: suf) inputs = (sp_path (spec_run inputs pre), true).
Proof. exact edge_path_raises. Qed.
Print Assumptions C10_edge_path_raises.

(* the emitted ssa path is valid for EVERY list of indices, and so is its linear image
   (ssa_to_linear maps valid ssa paths to valid linear paths) *)
Theorem C10_edge_path_valid_ssa : forall inputs ep,
  valid_ssa (seq 0 (length inputs)) (length inputs) (fst (edge_path_to_ssa ep inputs)).
Proof. exact edge_path_valid_ssa. Qed.
Print Assumptions C10_edge_path_valid_ssa.

Theorem C10_ssa_to_linear_valid : forall spath N, valid_ssa (seq 0 N) N spath -> valid_lin N (ssa_to_linear spath N).
Proof. exact ssa_to_linear_valid. Qed.
Print Assumptions C10_ssa_to_linear_valid.

Theorem C10_edge_path_valid_linear : forall inputs ep, valid_lin (length inputs) (edge_path_to_linear ep inputs).
Proof. exact edge_path_valid_linear. Qed.
Print Assumptions C10_edge_path_valid_linear.

(* what remains live after ANY list of indices: the live tensors partition the leaves 0..N-1,
   and two leaves share a live tensor exactly when they are connected by a chain of leaves in
   which neighbours share one of the listed indices -- one tensor per connected component *)
Theorem C10_edge_live_components : forall inputs ep,
  Permutation (concat (map snd (sp_live (spec_run inputs ep)))) (seq 0 (length inputs)) /\
  forall a b, a < length inputs ->
    (same_live (sp_live (spec_run inputs ep)) a b <-> (b < length inputs /\ conn inputs ep a b)).
Proof. exact edge_live_components. Qed.
Print Assumptions C10_edge_live_components.

(* non-vacuity: a 5-leaf tree; an order with ties; all conversions agree *)
Example C10_nonvacuous :
  let t := Node (Node (Node (Leaf 0) (Leaf 3)) (Leaf 1)) (Node (Leaf 2) (Leaf 4)) in
  let order := fun s => nm_get s [(t, 0); (Node (Node (Leaf 0) (Leaf 3)) (Leaf 1), 1); (Node (Leaf 0) (Leaf 3), 1); (Node (Leaf 2) (Leaf 4), 0)] in
  let trav := traverse_ordered order t in
  trav = [Node (Leaf 2) (Leaf 4); Node (Leaf 0) (Leaf 3); Node (Node (Leaf 0) (Leaf 3)) (Leaf 1); t] /\
  children_first_b trav = true /\ covers_b t trav = true /\
  get_ssa_path 5 trav = [(2,4); (0,3); (1,6); (5,7)] /\
  get_path 5 trav = [(2,4); (0,2); (0,2); (0,1)] /\
  linear_to_ssa [[2;4]; [0;2]; [0;2]; [0;1]] 5 = [[4;2]; [3;0]; [6;1]; [7;5]] /\
  ssa_to_linear [[4;2]; [3;0]; [6;1]; [7;5]] 5 = [[2;4]; [0;2]; [0;2]; [0;1]] /\
  roundtrip_lin_b 5 t [[2;4]; [0;2]; [0;2]; [0;1]] = true /\
  strictly_increasing [1; 5; 6] /\ bisect_left [1;5;6] 5 = 1 /\
  edge_path_to_ssa [1; 2; 0] [[0;1]; [1;2]; [2;0;1]] = ([[0;1;2]], false) /\
  sp_path (spec_run [[0;1]; [1;2]; [3]; [2;0;1]] [3; 1; 0]) = [[0;1;3]] /\
  edge_path_to_ssa [3; 1; 3] [[0;1]; [1;2]; [3]; [2;0;1]] = ([[0;1;3]], true) /\
  children_first_b (post_sub (Node (Leaf 2) (Node (Leaf 0) (Leaf 1)))) = true /\
  get_ssa_path 3 (post_sub (Node (Leaf 2) (Node (Leaf 0) (Leaf 1)))) = [(0,1); (2,3)] /\
  full_leaves 5 t /\ valid_lin 5 [[2;4]; [0;2]; [0;2]; [0;1]] /\ valid_ssa (seq 0 5) 5 [[4;2]; [3;0]; [6;1]; [7;5]].
Proof.
  cbn zeta. repeat match goal with |- _ /\ _ => split end; try (vm_compute; reflexivity).
  - intros i j Hij Hj. cbn in Hj.
    destruct j as [|[|[|j]]]; destruct i as [|[|[|i]]]; cbn; lia.
  - split; [|split]; [| |reflexivity].
    + cbn. repeat constructor; cbn; intuition lia.
    + cbn. intuition lia.
  - cbn. repeat split; try discriminate; try (repeat constructor; cbn; intuition lia); cbn; intuition lia.
  - cbn. repeat split; try discriminate; try (repeat constructor; cbn; intuition lia); cbn; intuition lia.
Qed.

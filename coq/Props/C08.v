(* C08 -- the hyper-optimizer returns its best trial and reports that trial's true costs.
   Statements only; every proof is `exact <lemma of Proofs/HyperFacts.v>`.
   Model: Model/Hyper.v (tied to cotengra/hyperoptimizers/hyper.py + scoring.py by
   harness/props/c08.py). *)
From Coq Require Import Lia Permutation.
From Ctg Require Import Base Hyper HyperFacts.

Theorem C08_record_invariant : forall T mts tr st,
  replay T mts init_state tr = Some st -> inv T tr st.
Proof. exact inv_replay. Qed.
Print Assumptions C08_record_invariant.

(* C08 -- the hyper-optimizer returns its best trial and reports that trial's true costs.
   Statements only; every proof is `exact <lemma of Proofs/HyperFacts.v>`.
   Model: Model/Hyper.v, tied to cotengra/hyperoptimizers/hyper.py + scoring.py by
   harness/props/c08.py (every run: each recorded trial dict against `trial_fn`, each whole
   search against `serial` / `par`, each recorded score list against `argmin_first`).

   Reading guide.  `replay mts st tr` is _maybe_report_result + the assessment step of _search
   applied to the entries tr = [(submission number, setting, trial dict)] in order.  `serial` is
   _gen_results consumed by _search, `par` is _gen_results_parallel consumed by _search, with
   the library (get_setting), the trial function (run), the clock (stopmode) and the pool's
   completion order (sched: which in-flight futures answer done()) universally quantified.
   Scores are Python floats compared with `<` only: Fin k / PInf / NaN (flt).
   `inv tr st` (Proofs/HyperFacts.v) packages: the recorded lists are exactly the fields of tr;
   best_score = best["score"]; no recorded score is < best["score"]; best is None iff no trial
   scored below inf, else it is the entry at the FIRST position i whose score is minimal, every
   earlier score being strictly larger or NaN, with best["params"] the setting recorded at i;
   only trials scoring below inf were handed to the hyper-parameter library. *)
From Coq Require Import Lia Permutation.
From Ctg Require Import Base Hyper HyperFacts.

(* ---------------- best_is_argmin ---------------- *)
Theorem C08_best_is_argmin : forall T mts tr st,
  replay T mts init_state tr = Some st -> inv T tr st.
Proof. exact inv_replay. Qed.
Print Assumptions C08_best_is_argmin.

(* the same, continuing from any state reached earlier (a second search() call) *)
Theorem C08_best_is_argmin_continued : forall T mts tr0 st0 tr st,
  inv T tr0 st0 -> replay T mts st0 tr = Some st -> inv T (tr0 ++ tr) st.
Proof. exact inv_replay_gen. Qed.
Print Assumptions C08_best_is_argmin_continued.

Theorem C08_best_is_argmin_serial : forall T mts get_setting run sm n k step status st trace k',
  serial T mts get_setting run sm n k step init_state [] = (status, st, trace, k') -> inv T trace st.
Proof. exact serial_inv. Qed.
Print Assumptions C08_best_is_argmin_serial.

Theorem C08_best_is_argmin_any_schedule : forall T mts get_setting run sm pre sched n k step status st trace k',
  par T mts get_setting run sm pre sched n k step init_state [] [] = (status, st, trace, k') -> inv T trace st.
Proof. exact par_inv. Qed.
Print Assumptions C08_best_is_argmin_any_schedule.

(* the selection rule in closed form: argmin_first is the first position holding the strictly
   smallest score below +inf (NaN never wins, None iff nothing scored) ... *)
Theorem C08_argmin_first_meaning : forall l,
  match argmin_first l with
  | Some i => exists x, nth_error l i = Some x /\ flt x PInf = true /\
                (forall y, In y l -> flt y x = false) /\
                (forall j y, j < i -> nth_error l j = Some y -> flt x y = true \/ y = NaN)
  | None => forall y, In y l -> flt y PInf = false
  end.
Proof. exact argmin_first_spec. Qed.
Print Assumptions C08_argmin_first_meaning.

(* ... and the optimizer's winner is the entry reported at that position of opt.scores
   (the harness evaluates argmin_first on every recorded score list) *)
Theorem C08_best_sits_at_argmin_first : forall T tr st, inv T tr st ->
  match argmin_first (h_scores st), h_best st with
  | Some i, Some (b, s) => exists id, nth_error tr i = Some (id, s, b)
  | None, None => True
  | _, _ => False
  end.
Proof. exact inv_best_position. Qed.
Print Assumptions C08_best_sits_at_argmin_first.

(* ---------------- repeats_bounded (+ pairing, serial) ---------------- *)
Theorem C08_repeats_bounded_serial : forall T mts get_setting run sm n k step st0 status st trace k',
  serial T mts get_setting run sm n k step st0 [] = (status, st, trace, k') ->
  k' - k <= n /\ length trace <= k' - k /\
  replay T mts st0 trace = Some st /\
  ids T trace = seq k (length trace) /\
  Forall (paired T run) trace /\
  Forall (fun e => submitted_setting get_setting (e_id e) (e_setting e)) trace.
Proof. exact serial_bounded. Qed.
Print Assumptions C08_repeats_bounded_serial.

(* ---------------- any_completion_order: safety, for EVERY scheduler ---------------- *)
(* at most n submissions (k' - k), at most that many reports; the reported submission numbers
   are distinct and belong to this search; each reported entry carries the setting the library
   produced for that submission and the result of running that very setting; the final record
   is the replay of the reports (so C08_best_is_argmin applies) *)
Theorem C08_any_completion_order : forall T mts get_setting run sm pre sched n k step st0 status st trace k',
  par T mts get_setting run sm pre sched n k step st0 [] [] = (status, st, trace, k') ->
  k' - k <= n /\ length trace <= k' - k /\
  replay T mts st0 trace = Some st /\
  NoDup (ids T trace) /\ (forall id, In id (ids T trace) -> k <= id < k') /\
  Forall (paired T run) trace /\
  Forall (fun e => submitted_setting get_setting (e_id e) (e_setting e)) trace.
Proof. exact par_safety. Qed.
Print Assumptions C08_any_completion_order.

(* a search on an optimizer object whose self._futures still holds the futures an ABORTED search
   left behind (an exception escaped, _maybe_cancel_futures was never reached): because
   _gen_results_parallel starts with `self._futures = []` (par_search true), it reports only its
   own submissions (numbers k .. k'-1), each once, at most n of them, for every leftover list *)
Theorem C08_search_after_abort_reports_only_its_own :
  forall T mts get_setting run sm pre sched leftover n k st0 status st trace k',
  par_search T mts get_setting run sm pre sched true leftover n k st0 = (status, st, trace, k') ->
  k' - k <= n /\ length trace <= k' - k /\
  replay T mts st0 trace = Some st /\
  NoDup (ids T trace) /\ (forall id, In id (ids T trace) -> k <= id < k') /\
  Forall (paired T run) trace /\
  Forall (fun e => submitted_setting get_setting (e_id e) (e_setting e)) trace.
Proof. exact par_search_own_trials. Qed.
Print Assumptions C08_search_after_abort_reports_only_its_own.

(* the reset is needed: without it (par_search false) the same statement is false -- see
   Example ex_no_reset_refuted below: 2 trials requested, 4 recorded, two of them submitted by
   the aborted search *)

(* liveness: a scheduler that always marks some in-flight future done never blocks the search,
   and a search that runs to its end has reported every one of its n submissions exactly once *)
Theorem C08_every_submission_reported_once : forall T mts get_setting run sm pre sched n k step st0 status st trace k',
  par T mts get_setting run sm pre sched n k step st0 [] [] = (status, st, trace, k') ->
  (fair sched -> status <> Stuck) /\
  (status = Done -> k' = k + n /\ Permutation (ids T trace) (seq k n)).
Proof. exact par_complete. Qed.
Print Assumptions C08_every_submission_reported_once.

(* with a library that does not adapt (optlib='random') the pool reports a permutation of what
   the serial search reports, whatever the completion order and pre_dispatch ... *)
Theorem C08_pool_run_is_permutation_of_serial :
  forall T mts get_setting run sm pre sched,
  (forall k h h', get_setting k h = get_setting k h') ->
  forall n k st0 status st trace k' status_s st_s trace_s k_s,
  par T mts get_setting run sm pre sched n k 0 st0 [] [] = (status, st, trace, k') -> status = Done ->
  serial T mts get_setting run sm n k 0 st0 [] = (status_s, st_s, trace_s, k_s) -> status_s = Done ->
  Permutation trace trace_s.
Proof. exact par_is_permutation_of_serial. Qed.
Print Assumptions C08_pool_run_is_permutation_of_serial.

(* ... and the best score depends only on the multiset of reported entries (the winner itself
   may differ among trials of exactly equal score: the first reported one wins) *)
Theorem C08_best_score_order_independent : forall T tr1 st1 tr2 st2,
  inv T tr1 st1 -> inv T tr2 st2 -> Permutation tr1 tr2 -> best_score_of st1 = best_score_of st2.
Proof. exact best_score_perm. Qed.
Print Assumptions C08_best_score_order_independent.

(* ---------------- failed_trials_inert ---------------- *)
(* one failed (or NaN-scored) trial: winner, best score and what the library was told are
   untouched; only the recorded lists grow and trials_since_best is incremented *)
Theorem C08_failed_trials_inert : forall T mts st s tr st1,
  not_scored T tr = true -> report T mts st s tr = Some st1 ->
  let st2 := assess T st1 tr in
  h_best st2 = h_best st /\ h_best_score st2 = h_best_score st /\ h_optlib st2 = h_optlib st /\
  h_tsb st2 = S (h_tsb st) /\
  h_methods st2 = h_methods st ++ [fst s] /\ h_params st2 = h_params st ++ [snd s] /\
  h_scores st2 = h_scores st ++ [score_of tr].
Proof. exact failed_step. Qed.
Print Assumptions C08_failed_trials_inert.

(* a whole run: deleting every failed trial from the sequence gives the same winner and score *)
Theorem C08_failed_trials_skipped : forall T mts tr a b a',
  sim T a b -> replay T mts a tr = Some a' ->
  exists b', replay T mts b (filter (fun e => negb (not_scored T (e_trial e))) tr) = Some b' /\ sim T a' b'.
Proof. exact failed_trials_filter. Qed.
Print Assumptions C08_failed_trials_skipped.

(* ---------------- recorded_costs_are_tree_costs ---------------- *)
(* Hypothesis built into the model (and checked on the real code every run): each wrapper ends
   with trial.update(tree.contract_stats()) of the tree it leaves in trial["tree"] (in-place
   post-processing).  Then, for every subset and outcome of the post-processing stages and every
   path finder outcome, the dict ComputeScore returns is either the failed-trial dict or its
   flops/write/size are contract_stats of its tree: *)
Theorem C08_recorded_costs_are_tree_costs :
  forall T stats post score_basic score_limit cstats score_comp score_custom finish em o b tr,
  exact_opts o ->
  trial_fn T stats post score_basic score_limit cstats score_comp score_custom finish em ObjBasic o b = Ok tr ->
  tr = failed_trial \/ describes T stats tr.
Proof. exact basic_records_tree_costs. Qed.
Print Assumptions C08_recorded_costs_are_tree_costs.

Theorem C08_recorded_costs_limit_with_stage :
  forall T stats post score_basic score_limit cstats score_comp score_custom finish em ens o b tr,
  exact_opts o -> stages_of o <> [] ->
  trial_fn T stats post score_basic score_limit cstats score_comp score_custom finish em (ObjLimit ens) o b = Ok tr ->
  tr = failed_trial \/ describes T stats tr.
Proof. exact limit_records_tree_costs. Qed.
Print Assumptions C08_recorded_costs_limit_with_stage.

(* FINDING limit-objective-keyerror: LimitObjective.__call__ as pinned (ensures = false) and no
   post-processing: the statement is false of the faithful model -- the dict has no "flops" and
   _maybe_report_result raises KeyError (report = None).  Replayed on /repo every run (probe:limit). *)
Theorem C08_recorded_costs_limit_refuted :
  forall T stats post score_basic score_limit cstats score_comp score_custom finish em (t : T),
  exists tr,
    trial_fn T stats post score_basic score_limit cstats score_comp score_custom finish em (ObjLimit false)
             (mkOpts false false false false false) (Ok t) = Ok tr /\
    t_flops tr = None /\ forall mts st s, report T mts st s tr = None.
Proof. exact limit_without_stage_has_no_costs. Qed.
Print Assumptions C08_recorded_costs_limit_refuted.

(* with the proposed patch (ensures = true) LimitObjective behaves like the other objectives *)
Theorem C08_recorded_costs_limit_patched :
  forall T stats post score_basic score_limit cstats score_comp score_custom finish em o b tr,
  exact_opts o ->
  trial_fn T stats post score_basic score_limit cstats score_comp score_custom finish em (ObjLimit true) o b = Ok tr ->
  tr = failed_trial \/ describes T stats tr.
Proof. exact limit_fixed_records_tree_costs. Qed.
Print Assumptions C08_recorded_costs_limit_patched.

(* compressed objectives (HyperCompressedOptimizer): figures and score are the compressed
   statistics of the tree the dict holds.  HYPOTHESIS, explicit in the typing: `cstats`,
   `score_comp` (like `stats`, `score_basic`, `score_limit`) are fixed functions -- scoring
   depends only on the tree and the objective's parameters (objective string, chi), never on
   which contractions were scored earlier in the process.  The harness checks this hypothesis
   on the real code every run: each recorded row is re-scored by a freshly constructed objective
   with explicit chi = max_dim^2, across sequences of searches with different largest
   dimensions, and a fixed probe tree is scored through the shared objective before and after
   an unrelated search. *)
Theorem C08_recorded_costs_compressed :
  forall T stats post score_basic score_limit cstats score_comp score_custom finish em o b tr,
  trial_fn T stats post score_basic score_limit cstats score_comp score_custom finish em ObjCompressed o b = Ok tr ->
  tr = failed_trial \/ describes_compressed T cstats score_comp finish tr.
Proof. exact compressed_records_tree_costs. Qed.
Print Assumptions C08_recorded_costs_compressed.

(* original_flops/write/size are those of the path finder's tree whatever ran afterwards *)
Theorem C08_originals_are_base_costs : forall T stats post s ss t tr',
  updating s = true ->
  run_stages T stats post (s :: ss) (base_trial T (Ok t)) = Ok tr' ->
  t_oflops tr' = Some (fst (fst (stats t))) /\ t_owrite tr' = Some (snd (fst (stats t))) /\
  t_osize tr' = Some (snd (stats t)).
Proof. exact first_stage_sets_originals. Qed.
Print Assumptions C08_originals_are_base_costs.

(* the scan of _get_and_report_next_future takes the FIRST done future of the list *)
Theorem C08_pick_is_first_done : forall flags futs x rest, pick flags futs = Some (x, rest) ->
  exists i, i < length futs /\ nth_error futs i = Some x /\ rest = remove_nth i futs /\
            nth_error flags i = Some true /\ forall j, j < i -> nth_error flags j = Some false.
Proof. exact pick_first. Qed.
Print Assumptions C08_pick_is_first_done.

(* the default pre_dispatch (parallel setter) keeps at least workers + 4 trials in flight *)
Theorem C08_pre_dispatch_exceeds_workers : forall nw, nw + 4 <= pre_dispatch_of nw.
Proof. exact pre_dispatch_exceeds_workers. Qed.
Print Assumptions C08_pre_dispatch_exceeds_workers.

(* ---------------- non-vacuity ---------------- *)
(* five submissions; results: 7, failed, 3, 3 (a tie), NaN; pre_dispatch 2; a scheduler that
   always finishes the most recent submission first; the library is not adaptive *)
Definition ex_tr (sc : pyf) (f : Z) (id : nat) : trial nat :=
  mkTrial (Some id) (Some (Some f)) (Some (Some (f + 1)%Z)) (Some (Some 2%Z)) None None None (Some sc).
Definition ex_run (id : nat) (_ : setting) : option (trial nat) :=
  Some (match id with
        | 0 => ex_tr (Fin 7) 70 0
        | 1 => failed_trial
        | 2 => ex_tr (Fin 3) 30 2
        | 3 => ex_tr (Fin 3) 31 3
        | _ => ex_tr NaN 99 id
        end).
Definition ex_gs (k : nat) (_ : list (setting * pyf)) : setting := (k mod 2, k).
Definition ex_sched (_ : nat) (ids : list nat) : list bool :=
  map (fun id => Nat.eqb id (last ids 0)) ids.
Definition ex_par := par nat None ex_gs ex_run NoStop 2 ex_sched 5 0 0 init_state [] [].
Definition ex_ser := serial nat None ex_gs ex_run NoStop 5 0 0 init_state [].

Example ex_par_value :
  (fst (fst (fst ex_par)), map (@e_id nat) (snd (fst ex_par)), snd ex_par,
   option_map (fun b => (t_tree (fst b), snd b)) (h_best (snd (fst (fst ex_par)))),
   h_scores (snd (fst (fst ex_par))), h_optlib (snd (fst (fst ex_par))))
  = (Done, [1; 2; 3; 4; 0], 5, Some (Some 2, (0, 2)), [PInf; Fin 3; Fin 3; NaN; Fin 7],
     [((0, 2), Fin 3); ((1, 3), Fin 3); ((0, 0), Fin 7)]).
Proof. vm_compute. reflexivity. Qed.

Example ex_serial_value :
  (fst (fst (fst ex_ser)), map (@e_id nat) (snd (fst ex_ser)),
   option_map (fun b => (t_tree (fst b), snd b)) (h_best (snd (fst (fst ex_ser)))),
   h_scores (snd (fst (fst ex_ser))))
  = (Done, [0; 1; 2; 3; 4], Some (Some 2, (0, 2)), [Fin 7; PInf; Fin 3; Fin 3; NaN]).
Proof. vm_compute. reflexivity. Qed.

Example ex_fair : fair ex_sched.
Proof.
  intros step ids Hne. exists (length ids - 1). destruct ids as [|x ids]; [contradiction|].
  split; [cbn; lia|]. unfold ex_sched. rewrite nth_error_map.
  assert (E : nth_error (x :: ids) (length (x :: ids) - 1) = Some (last (x :: ids) 0)).
  { clear Hne. revert x. induction ids as [|y ids IH]; intros x; [reflexivity|].
    specialize (IH y). cbn [length] in *. replace (S (S (length ids)) - 1) with (S (S (length ids) - 1)) by lia.
    exact IH. }
  rewrite E. cbn. rewrite Nat.eqb_refl. reflexivity.
Qed.

(* the hypotheses of C08_pool_run_is_permutation_of_serial hold for this instance *)
Example ex_permutation : Permutation (snd (fst ex_par)) (snd (fst ex_ser)).
Proof.
  eapply (C08_pool_run_is_permutation_of_serial nat None ex_gs ex_run NoStop 2 ex_sched
            (fun _ _ _ => eq_refl) 5 0 init_state).
  - apply quad_eta.
  - vm_compute. reflexivity.
  - apply quad_eta.
  - vm_compute. reflexivity.
Qed.

(* an aborted search followed by another one.  Search 1: pre_dispatch 3, submission 2 raises
   (on_trial_error='raise') when its result is taken: submissions 0 and 1 stay in self._futures *)
Definition ex_run2 (id : nat) (s : setting) : option (trial nat) :=
  match id with 2 => None | _ => Some (ex_tr (Fin (Z.of_nat (10 + id))) 50 id) end.
Definition ex_abort_pending := par_search_pending nat None ex_gs ex_run2 NoStop 3 ex_sched true [] 5 0 init_state.
Definition ex_abort := par_search nat None ex_gs ex_run2 NoStop 3 ex_sched true [] 5 0 init_state.
Example ex_abort_value :
  (fst (fst (fst ex_abort)), map (@e_id nat) (snd (fst ex_abort)), map fst ex_abort_pending) = (Crashed, [], [0; 1]).
Proof. vm_compute. reflexivity. Qed.
(* search 2 on the same object asks for 2 trials (submissions 3, 4) *)
Definition ex_next (reset : bool) :=
  par_search nat None ex_gs ex_run2 NoStop 3 ex_sched reset ex_abort_pending 2 3 (snd (fst (fst ex_abort))).
Example ex_reset_ok : map (@e_id nat) (snd (fst (ex_next true))) = [4; 3].
Proof. vm_compute. reflexivity. Qed.
Example ex_no_reset_refuted :
  let tr := snd (fst (ex_next false)) in
  2 < length tr /\ In 0 (map (@e_id nat) tr) /\ In 1 (map (@e_id nat) tr).
Proof. vm_compute. repeat split; auto. Qed.

(* the pipeline: anneal + slice on a tree whose flops go 100 -> 80 -> 160 (sliced), and a
   failing reconfiguration turning the trial into the failed dict *)
Definition ex_stats (v : nat) : Z * Z * Z :=
  match v with 0 => (100, 40, 16)%Z | 1 => (80, 30, 16)%Z | _ => (160, 60, 4)%Z end.
Definition ex_post (s : stage) (v : nat) : res nat := match s with Reconf => RaiseErr | _ => Ok (S v) end.
Definition ex_trial_fn := trial_fn nat ex_stats ex_post (fun _ _ _ => Fin 5) (fun _ => Fin 6) ex_stats
                                   (fun _ _ _ => Fin 7) (fun _ => Ok (Fin 8)) (fun x => x).
Example ex_pipeline :
  ex_trial_fn ErrWarn ObjBasic (mkOpts true true false false false) (Ok 0)
  = Ok (mkTrial (Some 2) (Some (Some 160%Z)) (Some (Some 60%Z)) (Some (Some 4%Z))
                (Some 100%Z) (Some 40%Z) (Some 16%Z) (Some (Fin 5)))
  /\ ex_trial_fn ErrWarn ObjBasic (mkOpts true true false true false) (Ok 0) = Ok failed_trial
  /\ ex_trial_fn ErrRaise ObjBasic (mkOpts true true false true false) (Ok 0) = RaiseErr
  /\ ex_trial_fn ErrWarn ObjBasic (mkOpts false false false false false) (Ok 0)
     = Ok (mkTrial (Some 0) (Some (Some 100%Z)) (Some (Some 40%Z)) (Some (Some 16%Z)) None None None (Some (Fin 5))).
Proof. vm_compute. repeat split; reflexivity. Qed.

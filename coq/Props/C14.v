(* C14 -- a reusable optimizer's cache hit is a correct answer for the question asked.
   Statements only; every proof is `exact <lemma of Proofs/ReusableFacts.v / FingerprintFacts.v>`.
   Model: Model/Reusable.v over Model/DiskFS.v, tied to cotengra/reusable.py, utils.py DiskDict,
   hyper.py / path_basic.py _reconstruct_tree by harness/props/c14.py on every run.
   Assumptions that appear as premises:  H_inj (sha1 o pickle separates fingerprints),
   store_spec (what _maybe_run_optimizer needs from the DiskDict; PROVED below for
   directory=None and for an on-disk directory with directory_split=False and =True under
   the pickle round-trip hypothesis, both for the pre-fix DiskDict (historical) and for the
   FIXED DiskDict that /repo contains since 40262ad), NoDup of the size_dict keys (a Python dict).
   The sub-optimizer is an arbitrary oracle `orc`; all theorems hold for every oracle. *)
From Coq Require Import Lia Permutation ZArith List Bool.
From Ctg Require Import Base Net DiskFS Reusable BaseFacts NetFacts FingerprintFacts DiskFSFacts ReusableFacts.

(* ---- the default fingerprint identifies exactly the contractions that differ in the order of
        indices within a tensor / within the output (and in the order of size_dict items) ---- *)
Theorem C14_fingerprint_a_exact : forall n1 n2 : net, fp_a n1 = fp_a n2 <-> equiv_a n1 n2.
Proof. exact fp_a_iff. Qed.
Print Assumptions C14_fingerprint_a_exact.

(* equal cache keys come from equal fingerprints when sha1 o pickle is injective (with or
   without directory_split) *)
Theorem C14_key_determines_fingerprint : forall (H : fpr -> name) c q1 q2,
  (forall f g, H f = H g -> f = g) ->
  key_of H c q1 = key_of H c q2 -> fingerprint_c c q1 = fingerprint_c c q2.
Proof. exact key_of_inj. Qed.
Print Assumptions C14_key_determines_fingerprint.

(* ... and for such contractions every tree / path / sliced index is equally valid, with
   identical per-node index counts and identical flops, write and max size (hence score) *)
Theorem C14_fingerprint_a_sound : forall n1 n2, fp_a n1 = fp_a n2 -> NoDup (map fst (szd n1)) ->
  equiv_a n1 n2 /\ NN n1 = NN n2 /\
  (forall p, path_to_tree (NN n1) p = path_to_tree (NN n2) p) /\
  (forall j, In j (all_indices n1) <-> In j (all_indices n2)) /\
  (forall sl t, inrange n1 (leaves t) ->
     inrange n2 (leaves t) /\ costs n1 sl t = costs n2 sl t /\
     (forall t', In t' (t :: post_sub t) -> forall j, lget0 j (sub_legs n1 sl t') = lget0 j (sub_legs n2 sl t'))).
Proof. exact fingerprint_a_sound. Qed.
Print Assumptions C14_fingerprint_a_sound.

Theorem C14_cost_perm_invariant : forall n1 n2 sl t, equiv_a n1 n2 -> NoDup (map fst (szd n1)) ->
  inrange n1 (leaves t) ->
  inrange n2 (leaves t) /\ costs_eq n1 n2 sl t /\
  (forall t', In t' (t :: post_sub t) -> forall j, lget0 j (sub_legs n1 sl t') = lget0 j (sub_legs n2 sl t')).
Proof. exact cost_perm_invariant. Qed.
Print Assumptions C14_cost_perm_invariant.

(* the tree rebuilt on a hit (from_path + remove_ind per stored index) is the same tree with the
   same figures for the queried contraction as for the one that was searched *)
Theorem C14_hit_rebuilds_same_tree : forall n1 n2 c, fp_a n1 = fp_a n2 -> NoDup (map fst (szd n1)) ->
  match reconstruct n1 c, reconstruct n2 c with
  | Some (t1, sl1), Some (t2, sl2) =>
      t1 = t2 /\ sl1 = sl2 /\ (inrange n1 (leaves t1) -> costs n1 sl1 t1 = costs n2 sl2 t2)
  | None, None => True
  | _, _ => False
  end.
Proof. exact hit_view_same_under_a. Qed.
Print Assumptions C14_hit_rebuilds_same_tree.

(* ---- hash_method='b' is NOT sound (finding hash-b-collision): two witnesses ---- *)
Theorem C14_fingerprint_b_refuted_count :
  fp_b b1_x = fp_b b1_y /\ NN b1_x <> NN b1_y /\
  path_to_tree (NN b1_x) [(0,1); (0,1)] <> None /\ path_to_tree (NN b1_y) [(0,1); (0,1)] = None.
Proof. exact fp_b_ignores_tensor_count. Qed.
Print Assumptions C14_fingerprint_b_refuted_count.

Theorem C14_fingerprint_b_refuted_cost :
  fp_b b2_x = fp_b b2_y /\ NN b2_x = NN b2_y /\ inrange b2_x (leaves b2_t) /\
  total_flops b2_x [] b2_t = 21%Z /\ total_flops b2_y [] b2_t = 16%Z.
Proof. exact fp_b_sizes_by_label. Qed.
Print Assumptions C14_fingerprint_b_refuted_cost.

(* the repaired hash_contraction_b (proposed_fixes/C14_hash-b-collision.patch): both witnesses are
   separated and equal fingerprints mean equally many tensors (a stored path is complete for both);
   PARTIAL: full soundness of the repaired 'b' (cost invariance under a size-preserving relabelling)
   is not proved here -- it is checked by the oracle on every shared entry *)
Theorem C14_fingerprint_b2_separates_witnesses : fp_b2 b1_x <> fp_b2 b1_y /\ fp_b2 b2_x <> fp_b2 b2_y.
Proof. exact fp_b2_separates_witnesses. Qed.
Print Assumptions C14_fingerprint_b2_separates_witnesses.

Theorem C14_fingerprint_b2_tensor_count_partial : forall n1 n2, fp_b2 n1 = fp_b2 n2 ->
  NN n1 = NN n2 /\ forall p, path_to_tree (NN n1) p = path_to_tree (NN n2) p.
Proof. exact fp_b2_tensor_count. Qed.
Print Assumptions C14_fingerprint_b2_tensor_count_partial.

(* what remains of the finding (hash-b-relabel-sliced): sliced indices are stored by LABEL *)
Theorem C14_fingerprint_b_relabel_sliced_refuted :
  fp_b b3_x = fp_b b3_y /\ fp_b2 b3_x = fp_b2 b3_y /\
  reconstruct b3_x (mkCon [(0,1)] 0%Z [1]) <> None /\ reconstruct b3_y (mkCon [(0,1)] 0%Z [1]) = None.
Proof. exact fp_b_relabel_sliced. Qed.
Print Assumptions C14_fingerprint_b_relabel_sliced_refuted.

(* ---- the cache state machine -------------------------------------------------------- *)
(* _maybe_run_optimizer implements `spec_step` on the store's abstraction *)
Theorem C14_maybe_run_refines : forall (H : fpr -> name) (ops : ddops con) (orc : nat -> net -> con)
    (Inv : dd con -> Prop) (view : dd con -> dkey -> option con) (good : dkey -> Prop) (okcfg : cfg -> Prop),
  store_spec ops Inv view good -> (forall c q, okcfg c -> good (key_of H c q)) ->
  forall c d ns q, okcfg c -> Inv d ->
  let k := key_of H c q in
  let st' := snd (maybe_run H ops orc c (d, ns) q) in
  let sp := spec_step c (view d k) (orc ns q) in
  fst (maybe_run H ops orc c (d, ns) q) = fst sp /\
  snd st' = (if snd (snd sp) then S ns else ns) /\
  Inv (fst st') /\
  view (fst st') k = (match fst (snd sp) with Some x => Some x | None => view d k end) /\
  (forall k', good k' -> k' <> k -> view (fst st') k' = view d k').
Proof. exact maybe_run_refines. Qed.
Print Assumptions C14_maybe_run_refines.

(* hit_returns_tree_of_query: what is handed out is the entry stored under the QUERY's own key;
   an answer given without searching was that entry already *)
Theorem C14_hit_returns_entry_of_query : forall (H : fpr -> name) (ops : ddops con) (orc : nat -> net -> con) (Inv : dd con -> Prop)
    (view : dd con -> dkey -> option con) (good : dkey -> Prop) (okcfg : cfg -> Prop),
  store_spec ops Inv view good -> (forall c q, okcfg c -> good (key_of H c q)) ->
  forall c, okcfg c -> forall d ns q b cn, Inv d ->
  fst (maybe_run H ops orc c (d, ns) q) = Ok (b, cn) ->
  view (fst (snd (maybe_run H ops orc c (d, ns) q))) (key_of H c q) = Some cn /\
  (b = false -> view d (key_of H c q) = Some cn).
Proof. exact answer_is_stored. Qed.
Print Assumptions C14_hit_returns_entry_of_query.

(* a hit is read-only: answering without a search changes no entry of the store -- in particular not
   the entry that is handed out (store_spec already demands it of __contains__/__getitem__: their frame
   conditions; this lifts it to _maybe_run_optimizer) *)
Theorem C14_hit_is_read_only : forall (H : fpr -> name) (ops : ddops con) (orc : nat -> net -> con) (Inv : dd con -> Prop)
    (view : dd con -> dkey -> option con) (good : dkey -> Prop) (okcfg : cfg -> Prop),
  store_spec ops Inv view good -> (forall c q, okcfg c -> good (key_of H c q)) ->
  forall c, okcfg c -> forall d ns q cn, Inv d ->
  fst (maybe_run H ops orc c (d, ns) q) = Ok (false, cn) ->
  forall k, good k -> view (fst (snd (maybe_run H ops orc c (d, ns) q))) k = view d k.
Proof. exact hit_is_read_only. Qed.
Print Assumptions C14_hit_is_read_only.

Theorem C14_repeat_query_no_search_same_path : forall (H : fpr -> name) (ops : ddops con) (orc : nat -> net -> con) (Inv : dd con -> Prop)
    (view : dd con -> dkey -> option con) (good : dkey -> Prop) (okcfg : cfg -> Prop),
  store_spec ops Inv view good -> (forall c q, okcfg c -> good (key_of H c q)) ->
  forall c, okcfg c -> forall d ns q b cn, Inv d -> overwrite c = OvFalse ->
  fst (maybe_run H ops orc c (d, ns) q) = Ok (b, cn) ->
  let st1 := snd (maybe_run H ops orc c (d, ns) q) in
  fst (maybe_run H ops orc c st1 q) = Ok (false, cn) /\
  snd (snd (maybe_run H ops orc c st1 q)) = snd st1.
Proof. exact repeat_query_no_search_same_path. Qed.
Print Assumptions C14_repeat_query_no_search_same_path.

(* ... also after any number of other queries in between *)
Theorem C14_entry_stable_over_session : forall (H : fpr -> name) (ops : ddops con) (orc : nat -> net -> con) (Inv : dd con -> Prop)
    (view : dd con -> dkey -> option con) (good : dkey -> Prop) (okcfg : cfg -> Prop),
  store_spec ops Inv view good -> (forall c q, okcfg c -> good (key_of H c q)) ->
  forall c, okcfg c -> forall qs, overwrite c = OvFalse -> forall d ns k0 cn, Inv d -> good k0 ->
  view d k0 = Some cn -> view (fst (snd (run_queries H ops orc c (d, ns) qs))) k0 = Some cn.
Proof. exact session_ovfalse_stable. Qed.
Print Assumptions C14_entry_stable_over_session.

Theorem C14_improved_monotone : forall (H : fpr -> name) (ops : ddops con) (orc : nat -> net -> con) (Inv : dd con -> Prop)
    (view : dd con -> dkey -> option con) (good : dkey -> Prop) (okcfg : cfg -> Prop),
  store_spec ops Inv view good -> (forall c q, okcfg c -> good (key_of H c q)) ->
  forall c, okcfg c -> forall qs, overwrite c = OvImproved -> forall d ns k0 old, Inv d -> good k0 ->
  view d k0 = Some old ->
  exists new, view (fst (snd (run_queries H ops orc c (d, ns) qs))) k0 = Some new /\
              (c_score new <= c_score old)%Z.
Proof. exact session_improved_monotone. Qed.
Print Assumptions C14_improved_monotone.

Theorem C14_cache_only_never_searches : forall (H : fpr -> name) (ops : ddops con) (orc : nat -> net -> con) (Inv : dd con -> Prop)
    (view : dd con -> dkey -> option con) (good : dkey -> Prop) (okcfg : cfg -> Prop),
  store_spec ops Inv view good -> (forall c q, okcfg c -> good (key_of H c q)) ->
  forall c, okcfg c -> forall qs, cache_only c = true -> forall d ns, Inv d ->
  snd (snd (run_queries H ops orc c (d, ns) qs)) = ns /\
  (forall k, good k -> view (fst (snd (run_queries H ops orc c (d, ns) qs))) k = view d k).
Proof. exact session_cache_only_never_searches. Qed.
Print Assumptions C14_cache_only_never_searches.

Theorem C14_cache_only_answers_from_cache : forall (H : fpr -> name) (ops : ddops con) (orc : nat -> net -> con) (Inv : dd con -> Prop)
    (view : dd con -> dkey -> option con) (good : dkey -> Prop) (okcfg : cfg -> Prop),
  store_spec ops Inv view good -> (forall c q, okcfg c -> good (key_of H c q)) ->
  forall c, okcfg c -> forall d ns q, Inv d -> cache_only c = true ->
  snd (snd (maybe_run H ops orc c (d, ns) q)) = ns /\
  (forall k, good k -> view (fst (snd (maybe_run H ops orc c (d, ns) q))) k = view d k) /\
  (forall b cn, fst (maybe_run H ops orc c (d, ns) q) = Ok (b, cn) ->
                b = false /\ view d (key_of H c q) = Some cn).
Proof. exact cache_only_never_searches. Qed.
Print Assumptions C14_cache_only_answers_from_cache.

(* ---- the store specification is met by the modelled DiskDict --------------------------- *)
Theorem C14_store_spec_memory : forall (encode : con -> bytes) (decode : bytes -> option con) (mr : nat),
  store_spec (ops_cur encode decode mr) (fun d => dd_dir d = false)
             (fun d k => mem_get k (dd_mem d)) (fun _ => True).
Proof. exact mem_store_spec. Qed.
Print Assumptions C14_store_spec_memory.

Theorem C14_store_spec_directory_flat : forall (encode : con -> bytes) (decode : bytes -> option con) (mr : nat),
  (forall c, decode (encode c) = Some c) ->
  store_spec (ops_cur encode decode (S mr)) (flat_inv encode) (flat_view decode) flat_key.
Proof. exact flat_store_spec_cur. Qed.
Print Assumptions C14_store_spec_directory_flat.

(* directory_split=True, the default layout (h[:2]/h[2:], sub-directory created on demand) *)
Theorem C14_store_spec_directory_split : forall (encode : con -> bytes) (decode : bytes -> option con) (mr : nat),
  (forall c, decode (encode c) = Some c) ->
  store_spec (ops_cur encode decode (S mr)) (split_inv encode) (flat_view decode) split_key.
Proof. exact split_store_spec_cur. Qed.
Print Assumptions C14_store_spec_directory_split.

(* the fixed DiskDict of proposed_fixes/C15_diskdict-torn-write.patch, directory=None *)
Theorem C14_store_spec_memory_fix : forall (encode : con -> bytes) (decode : bytes -> option con) (mr : nat),
  store_spec (ops_fix encode decode mr) (fun d => dd_dir d = false)
             (fun d k => mem_get k (dd_mem d)) (fun _ => True).
Proof. exact mem_store_spec_fix. Qed.
Print Assumptions C14_store_spec_memory_fix.

(* fresh_process_equiv: an empty memory cache over the same directory answers every query like
   the process that wrote it, and goes on holding the same entries *)
Theorem C14_fresh_process_equiv : forall (encode : con -> bytes) (decode : bytes -> option con) (mr : nat),
  (forall c, decode (encode c) = Some c) ->
  forall (H : fpr -> name) orc c d ns q, split c = false -> flat_inv encode d ->
  let ops := ops_cur encode decode (S mr) in
  fst (maybe_run H ops orc c (fresh d, ns) q) = fst (maybe_run H ops orc c (d, ns) q) /\
  snd (snd (maybe_run H ops orc c (fresh d, ns) q)) = snd (snd (maybe_run H ops orc c (d, ns) q)) /\
  (forall k, flat_key k ->
     flat_view decode (fst (snd (maybe_run H ops orc c (fresh d, ns) q))) k =
     flat_view decode (fst (snd (maybe_run H ops orc c (d, ns) q))) k).
Proof. exact fresh_process_equiv. Qed.
Print Assumptions C14_fresh_process_equiv.

Theorem C14_fresh_process_equiv_split : forall (encode : con -> bytes) (decode : bytes -> option con) (mr : nat),
  (forall c, decode (encode c) = Some c) ->
  forall (H : fpr -> name) orc c d ns q, split c = true -> split_inv encode d ->
  let ops := ops_cur encode decode (S mr) in
  fst (maybe_run H ops orc c (fresh d, ns) q) = fst (maybe_run H ops orc c (d, ns) q) /\
  snd (snd (maybe_run H ops orc c (fresh d, ns) q)) = snd (snd (maybe_run H ops orc c (d, ns) q)) /\
  (forall k, split_key k ->
     flat_view decode (fst (snd (maybe_run H ops orc c (fresh d, ns) q))) k =
     flat_view decode (fst (snd (maybe_run H ops orc c (d, ns) q))) k).
Proof. exact fresh_process_equiv_split. Qed.
Print Assumptions C14_fresh_process_equiv_split.

(* ---- the code that exists since 40262ad: the FIXED DiskDict, on disk, every layout ---- *)
(* (hex_names H: digests are hexadecimal, so no entry name starts with the '.' of a temporary
   file; finv / sinv: root exists, every top-level node is a file resp. a directory, every node
   at an entry name is a complete entry, the memory cache agrees with the files) *)
Theorem C14_store_spec_directory_flat_fix : forall (encode : con -> bytes) (decode : bytes -> option con) (mr : nat),
  (forall c, decode (encode c) = Some c) ->
  store_spec (ops_fix encode decode (S mr)) (finv encode) (flat_view decode) fkey.
Proof. exact flat_store_spec_fix. Qed.
Print Assumptions C14_store_spec_directory_flat_fix.

Theorem C14_store_spec_directory_split_fix : forall (encode : con -> bytes) (decode : bytes -> option con) (mr : nat),
  (forall c, decode (encode c) = Some c) ->
  store_spec (ops_fix encode decode (S mr)) (sinv encode) (flat_view decode) skey.
Proof. exact split_store_spec_fix. Qed.
Print Assumptions C14_store_spec_directory_split_fix.

Theorem C14_store_spec_fix_all_layouts : forall (encode : con -> bytes) (decode : bytes -> option con) (mr : nat),
  (forall c, decode (encode c) = Some c) -> forall H : fpr -> name, hex_names H -> forall sp : bool,
  store_spec (ops_fix encode decode (S mr)) (rinv encode sp) (flat_view decode) (rkey sp) /\
  (forall c q, split c = sp -> rkey sp (key_of H c q)).
Proof. exact fix_store_spec_all_layouts. Qed.
Print Assumptions C14_store_spec_fix_all_layouts.

(* the session-level consequences, instantiated: invariant kept; cache_only never searches and
   changes nothing; 'improved' never worsens; with overwrite=False an entry never changes *)
Theorem C14_sessions_on_the_fixed_diskdict : forall (encode : con -> bytes) (decode : bytes -> option con) (mr : nat),
  (forall c, decode (encode c) = Some c) -> forall H : fpr -> name, hex_names H ->
  forall (orc : nat -> net -> con) (c : cfg) (qs : list net) (d : dd con) (ns : nat),
  rinv encode (split c) d ->
  let ops := ops_fix encode decode (S mr) in
  let d' := fst (snd (run_queries H ops orc c (d, ns) qs)) in
  rinv encode (split c) d' /\
  (cache_only c = true ->
     snd (snd (run_queries H ops orc c (d, ns) qs)) = ns /\
     (forall k, rkey (split c) k -> flat_view decode d' k = flat_view decode d k)) /\
  (overwrite c = OvImproved -> forall k0 old, rkey (split c) k0 -> flat_view decode d k0 = Some old ->
     exists new, flat_view decode d' k0 = Some new /\ (c_score new <= c_score old)%Z) /\
  (overwrite c = OvFalse -> forall k0 cn, rkey (split c) k0 -> flat_view decode d k0 = Some cn ->
     flat_view decode d' k0 = Some cn).
Proof. exact fix_session_facts. Qed.
Print Assumptions C14_sessions_on_the_fixed_diskdict.

Theorem C14_fresh_process_equiv_fix : forall (encode : con -> bytes) (decode : bytes -> option con) (mr : nat),
  (forall c, decode (encode c) = Some c) ->
  forall (H : fpr -> name) orc c d ns q, hex_names H ->
  (if split c then sinv encode d else finv encode d) ->
  let ops := ops_fix encode decode (S mr) in
  fst (maybe_run H ops orc c (fresh d, ns) q) = fst (maybe_run H ops orc c (d, ns) q) /\
  snd (snd (maybe_run H ops orc c (fresh d, ns) q)) = snd (snd (maybe_run H ops orc c (d, ns) q)) /\
  (forall k, (if split c then skey k else fkey k) ->
     flat_view decode (fst (snd (maybe_run H ops orc c (fresh d, ns) q))) k =
     flat_view decode (fst (snd (maybe_run H ops orc c (d, ns) q))) k).
Proof. exact fresh_process_equiv_fix. Qed.
Print Assumptions C14_fresh_process_equiv_fix.

(* the invariants are not vacuous: a freshly created cache directory satisfies both *)
Example C14_fixed_invariants_hold_initially : forall encode,
  finv encode (mkDD [] true fs0) /\ sinv encode (mkDD [] true fs0).
Proof. intros encode. split; [apply finv_init|apply sinv_init]. Qed.

(* ---- non-vacuity: a concrete history through the concrete DiskDict model --------------- *)
(* codec of the example: an entry is written as its path length + 1 bytes (round trip holds on
   the entries used); H maps the two fingerprints to two names *)
Definition ex_q : net := mkNet [[0;1]; [1;2]; [2]] [0] [(0, 2%Z); (1, 3%Z); (2, 2%Z)].
Definition ex_q' : net := mkNet [[1;0]; [2;1]; [2]] [0] [(2, 2%Z); (0, 2%Z); (1, 3%Z)].   (* index order only *)
Definition ex_c1 : con := mkCon [(0,1); (0,1)] 50%Z [].
Definition ex_c2 : con := mkCon [(1,2); (0,1)] 40%Z [].
Definition ex_tab : list (con * bytes) := [(ex_c1, [1;1;0]); (ex_c2, [2;2;0])].
Definition ex_H : fpr -> name := fun f => if eqb f (fp_a ex_q) then [1;2;3] else [4;5;6].
Definition ex_ops := ops_cur (tab_encode ex_tab) (tab_decode ex_tab) 3.
Definition ex_orc : nat -> net -> con := fun i _ => nth i [ex_c1; ex_c2] ex_c1.

Example C14_example_history :
  (* same fingerprint, same key, for the permuted query *)
  fp_a ex_q = fp_a ex_q' /\
  (* improved: search, search again (better: replaces), then a fresh process hits from disk *)
  let c := mkCfg false false OvImproved false false in
  let '(rs, (d, ns)) := run_queries ex_H ex_ops ex_orc c (mkDD [] true fs0, 0) [ex_q; ex_q'] in
  rs = [Ok (true, ex_c1); Ok (true, ex_c2)] /\ ns = 2 /\
  fst (maybe_run ex_H ex_ops ex_orc (mkCfg false false OvFalse true false) (fresh d, ns) ex_q) = Ok (false, ex_c2) /\
  hit_view ex_q' ex_c2 = Some ([[0;1;2]; [1;2]], (12%Z, (5%Z, 3%Z))).
Proof. vm_compute. repeat split; reflexivity. Qed.

Example C14_example_history_fixed_diskdict :
  let ops := ops_fix (tab_encode ex_tab) (tab_decode ex_tab) 3 in
  let c := mkCfg false true OvImproved false false in
  let '(rs, (d, ns)) := run_queries ex_H ops ex_orc c (mkDD [] true fs0, 0) [ex_q; ex_q'] in
  rs = [Ok (true, ex_c1); Ok (true, ex_c2)] /\ ns = 2 /\
  fst (maybe_run ex_H ops ex_orc (mkCfg false true OvFalse true false) (fresh d, ns) ex_q) = Ok (false, ex_c2).
Proof. vm_compute. repeat split; reflexivity. Qed.

(* C14 -- a reusable optimizer's cache hit is a correct answer for the question asked. *)
From Coq Require Import Lia Permutation ZArith List Bool.
From Ctg Require Import Base Net DiskFS Reusable BaseFacts NetFacts ReusableFacts.

Theorem C14_fingerprint_b_refuted_count :
  fp_b b1_x = fp_b b1_y /\ NN b1_x <> NN b1_y /\
  path_to_tree (NN b1_x) [(0,1); (0,1)] <> None /\ path_to_tree (NN b1_y) [(0,1); (0,1)] = None.
Proof. exact fp_b_ignores_tensor_count. Qed.
Print Assumptions C14_fingerprint_b_refuted_count.

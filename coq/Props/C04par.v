(* C04par -- C04 in PARTIALLY tracked states (only some of _track_flops / _track_write / _track_size on).
   Statements only; proofs are `exact <lemma of Proofs/TreeStatePartial.v / TreeStateInv.v>`.
   InvC's totals clause is one implication PER FLAG: each tracked running total equals the figure computed from
   the cached per-node values of the current internal nodes (which InvC ties to the from-scratch values,
   C04_cached_size_is_rebuild / C04_cached_flops_is_rebuild) independently of which other totals are tracked:
   * C04par_tracked_flops_alone, C04par_tracked_write_alone, C04par_tracked_size_alone (the MaxCounter holds
     exactly the multiset of node sizes and its cached maximum is the maximum -- what max_size() /
     contraction_width() report);
   * C04par_remove_node_any_flags: _remove_node preserves InvC in EVERY flag combination (the model follows
     core.py: sizes discarded iff sizes tracked, flops subtracted iff flops tracked, write iff write tracked);
     a _remove_node that discards sizes only when write is tracked too disagrees with the model on the first
     partially tracked history (trace replay) and with the rebuild (oracle).
   The Example runs a history in which ONLY sizes are tracked through a re-creation of an internal node. *)
From Coq Require Import Lia ZArith.
From Ctg Require Import Base Net BaseFacts NetFacts TreeState TreeStateFacts TreeStateInv TreeStatePartial.
Open Scope nat_scope.

Theorem C04par_tracked_flops_alone : forall n s, InvC n s -> trk_flops s = true ->
  flops_ s = zsum (map (cflops s) (nkeys (children s))) /\ forall p, In p (nkeys (children s)) -> rd i_flops s p <> None.
Proof. exact tracked_flops_alone. Qed.
Print Assumptions C04par_tracked_flops_alone.
Theorem C04par_tracked_write_alone : forall n s, InvC n s -> trk_write s = true ->
  write_ s = zsum (map (csize s) (nkeys (children s))) /\ forall p, In p (nkeys (children s)) -> rd i_size s p <> None.
Proof. exact tracked_write_alone. Qed.
Print Assumptions C04par_tracked_write_alone.
Theorem C04par_tracked_size_alone : forall n s, InvC n s -> trk_size s = true ->
  (forall z, cget0 z (sizes_ s) = count_occ Z.eq_dec (map (csize s) (nkeys (children s))) z) /\
  (forall p, In p (nkeys (children s)) -> rd i_size s p <> None) /\
  match sizes_max s with
  | Some M => In M (map (csize s) (nkeys (children s))) /\ forall z, In z (map (csize s) (nkeys (children s))) -> (z <= M)%Z
  | None => children s = []
  end.
Proof. exact tracked_size_alone. Qed.
Print Assumptions C04par_tracked_size_alone.

Theorem C04par_remove_node_any_flags : forall n, 2 <= NN n -> forall nd s, InvC n s ->
  In nd (nkeys (children s)) -> nget nd (info s) <> None -> InvC n (remove_node n nd s).
Proof. exact remove_node_internal_inv. Qed.
Print Assumptions C04par_remove_node_any_flags.

(* 'ab,bc,cd,de->ae', path ((0,1),2),3 then re-shaped to (0,1),(2,3): only max_size() has been asked *)
Definition exp := mkNet [[0;1]; [1;2]; [2;3]; [3;4]] [0;4] [(0,2%Z);(1,8%Z);(2,2%Z);(3,2%Z);(4,2%Z)].
Example C04par_nonvacuous :
  let s0 := run exp [PPair [0] [1] None None None; PPair [0;1] [2] None None None; PPair [0;1;2] [3] None None None;
                     PMaxSize] (init_state exp) in
  let s1 := run exp [PRemoveNode [0;1;2;3]; PRemoveNode [0;1;2]; PPair [2] [3] None None None;
                     PPair [0;1] [2;3] None None None] s0 in
  (trk_flops s1, trk_write s1, trk_size s1) = (false, false, true)
  /\ cost_inv_b exp s1 = true /\ err s1 = false
  /\ sort_counter (sizes_ s1) = sort_counter (sizes_ (run exp [PMaxSize]
        (run exp [PPair [0] [1] None None None; PPair [2] [3] None None None; PPair [0;1] [2;3] None None None] (init_state exp)))).
Proof. vm_compute. repeat split; reflexivity. Qed.

(* C02pre -- C02 step 4 (1): the invariant of tree.preprocessing and the corollary of C02rec without the
   premise preproc_complete_b.  Statements only; proofs are `exact <lemma of Proofs/TreeStatePreproc.v /
   TreeStateReady2.v>`.
   [PP n s]: the keys of tree.preprocessing are distinct; every recorded step is canon_eq1 of Net.v's
   leaf_preproc (term, kept) of its leaf for the CURRENT sliced set; a leaf whose legs are cached and which is
   simplifiable has its step recorded; every leaf has an info entry.
   * C02pre_prim_preserves_preprocessing: every primitive preserves PP (in states satisfying C04's InvC, under
     C04's precondition prim_pre; _remove_node on a leaf drops the leaf's step together with its caches).
   * C02pre_complete: PP + "every leaf has cached legs" = preproc_complete_b.
   * C02pre_history_ready / C02pre_history_value: as C02rec_history_*, for extract_all = the getter calls of
     extract_contractions INCLUDING has_preprocessing()'s get_legs on every leaf: preproc_complete_b of the end
     state is derived.  Remaining premises (boolean, end state only): no exception, the children dict describes
     a complete tree, nodes are sorted leaf lists. *)
From Coq Require Import Lia.
From Ctg Require Import Base Net Einsum Program BaseFacts NetFacts ProgramFacts TreeState TreeStateFacts TreeStateInv
                        TreeStatePre TreeStateProg TreeStateValue TreeStateRec TreeStateRecipes TreeStateReady
                        TreeStatePreproc TreeStateReady2.
Open Scope nat_scope.

Theorem C02pre_prim_preserves_preprocessing : forall n, 2 <= NN n ->
  forall p s, InvC n s -> PP n s -> prim_pre n p s -> PP n (step n p s).
Proof. exact step_preserves_PP. Qed.
Print Assumptions C02pre_prim_preserves_preprocessing.

Theorem C02pre_prim_preserves_all : forall n, 2 <= NN n -> NoDup (output n) ->
  forall p s, QP n s -> primA_pre n p s -> QP n (step n p s).
Proof. exact step_preserves_QP. Qed.
Print Assumptions C02pre_prim_preserves_all.

Theorem C02pre_complete : forall n, 2 <= NN n -> forall s, PP n s -> (forall k, k < NN n -> rd i_legs s [k] <> None) ->
  preproc_complete_b n s = true.
Proof. exact PP_complete. Qed.
Print Assumptions C02pre_complete.

Theorem C02pre_history_ready : forall n, 2 <= NN n -> NoDup (output n) ->
  forall tr pe nodes l r, wf_net_b n = true ->
  preA_trace_b n tr (init_state n) = true -> tail_ok_b tr = true ->
  let s1 := run n tr (init_state n) in
  let s := extract_all n pe nodes s1 in
  nodes_ok_b s1 nodes = true -> sorted_keys_b s = true -> err s = false ->
  tree_of (tfuel s) (children s) (seq 0 (NN n)) = Some (Node l r) ->
  contractible_b n s (Node l r) = true /\ PB s.
Proof. exact checked_history_ready2. Qed.
Print Assumptions C02pre_history_ready.

Theorem C02pre_history_value : forall n tr pe nodes l r arr e0,
  2 <= NN n -> wf_net_b n = true ->
  preA_trace_b n tr (init_state n) = true -> tail_ok_b tr = true ->
  let s := extract_all n pe nodes (run n tr (init_state n)) in
  nodes_ok_b (run n tr (init_state n)) nodes = true -> sorted_keys_b s = true ->
  err s = false -> tree_of (tfuel s) (children s) (seq 0 (NN n)) = Some (Node l r) ->
  forall e, agree_removed (sliced s) e0 e ->
  srun_root n s arr e0 (Node l r) (map e (filter (fun j => negb (memb j (removed (sliced s)))) (output n)))
  = einsum_spec n (sliced s) arr e.
Proof. exact checked_history_value2. Qed.
Print Assumptions C02pre_history_value.

(* non-vacuity: 'aab,bc,cd->d' -- leaf 0 has a repeated index (simplifiable); build, derive a recipe, slice b,
   query, restore b, stats, then extract_contractions: the preprocessing dict is complete (leaf 0's step
   recorded) and the state ready *)
Definition exq := mkNet [[0;0;1]; [1;2]; [2;3]] [3] [(0,2%Z);(1,3%Z);(2,2%Z);(3,2%Z)].
Definition exq_tr : list prim :=
  [PPair [0] [1] None None None; PPair [0;1] [2] None None None;
   PGet GEq [0;1;2]; PRemoveInd 1 None; PGet GLegs [0]; PRestoreInd 1; PStats false].
Definition exq_nodes : list (node * (node * node)) := [([0;1], ([0], [1])); ([0;1;2], ([0;1], [2]))].
Definition exq_ready (pe : bool) : bool :=
  let s1 := run exq exq_tr (init_state exq) in
  let s := extract_all exq pe exq_nodes s1 in
  sorted_keys_b s && negb (err s) && preproc_complete_b exq s
  && match pget 0 (preproc s) with Some _ => true | None => false end
  && contractible_b exq s (Node (Node (Leaf 0) (Leaf 1)) (Leaf 2)).
Example C02pre_nonvacuous :
  wf_net_b exq = true /\ preA_trace_b exq exq_tr (init_state exq) = true /\ tail_ok_b exq_tr = true
  /\ nodes_ok_b (run exq exq_tr (init_state exq)) exq_nodes = true
  /\ exq_ready true = true /\ exq_ready false = true
  (* a fresh tree has an empty, hence incomplete, preprocessing dict: leaf 0 is simplifiable *)
  /\ preproc_complete_b exq (init_state exq) = false.
Proof. vm_compute. repeat split; reflexivity. Qed.

(* C04str -- C04's checked-trace theorem with the structural state facts derived (Proofs/TreeStateStruct.v):
   IS = InvC /\ SI is preserved by every primitive under prim_pre3_b (Model/TreeStatePre3.v), whose remove_ind /
   restore_ind clauses no longer check "nunion l r = p", "every key has an info entry" and "index in legs => index in
   involved" ("every internal info node is a key" is not an invariant at primitive granularity and stays checked). *)
From Coq Require Import Lia Permutation.
From Ctg Require Import Base Net BaseFacts NetFacts TreeState TreeStateFacts TreeStateInv TreeStatePre TreeStateRec
                        TreeStatePre2 TreeStateFinal TreeStatePre3 TreeStateStruct.
Open Scope nat_scope.

Theorem C04str_prim_preserves : forall n, 2 <= NN n -> NoDup (output n) ->
  forall p s, IS n s -> prim_pre3_b n p s = true -> IS n (step n p s).
Proof. exact step_preserves_IS. Qed.
Print Assumptions C04str_prim_preserves.
Theorem C04str_checked_trace : forall n, 2 <= NN n -> NoDup (output n) ->
  forall tr s, IS n s -> pre3c_trace_b n tr s = true -> IS n (run n tr s).
Proof. exact checked_trace3_IS. Qed.
Print Assumptions C04str_checked_trace.
Theorem C04str_fresh_tree : forall n, 2 <= NN n -> IS n (init_state n).
Proof. exact init_state_IS. Qed.
Print Assumptions C04str_fresh_tree.

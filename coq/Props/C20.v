(* C20 -- compressed-contraction estimates equal the exact ones when nothing is truncated.
   Statements only; proofs are `exact <lemma of Proofs/CompressedFacts.v>`.
   Model: Model/HGraph.v (HyperGraph: contract, compress, node_size, neighborhood_*,
   contract_pair_cost) + Model/Compressed.v (CompressedStatsTracker and the loop of
   ContractionTree.compressed_contract_stats), tied to /repo by harness/props/c20.py, which
   compares every tracker field and the whole hypergraph after every step.

   The three "uncapped = exact" statements are proved below twice: as sums over the trees the run
   builds (C20_uncapped_exact_steps, any traversal with ids_ok) and, composed with a proof that
   for any children-first order of a complete tree t the run builds exactly the nodes of t, in
   terms of Net.v's total_flops / total_write / max_size of the SAME tree
   (C20_uncapped_eq_exact_same_tree).  The check evaluates in Coq, for every uncapped run it
   compares, that the real traversal is a valid_order of the real tree and that the triples fed
   to the model are plr_of_list of it.  Without the no-dangling hypothesis the flops
   statement is FALSE of the faithful model (finding compressed-flops-dangling-index, see the
   Example at the end).
   Hypotheses that appear below and how they are met: `forall t, In t (inputs n) -> NoDup t` is
   "no index repeated inside a tensor" (the property's "ordinary network"); `ids_ok chi late n
   order = true` says that at every step the two operands named by the traversal are two distinct
   live nodes -- it is evaluated inside Coq for every run the check compares. *)
From Coq Require Import Lia Permutation.
From Ctg Require Import Base Net HGraph Compressed BaseFacts NetFacts HGraphFacts CompressedFacts CompressedPeakFacts
                        HGraphTreeFacts CompressedExactFacts ExecOrderFacts CompressedTreeFacts.

(* which edges are merged / which nodes exist / which identifiers are handed out never depends
   on sizes or on the cap: runs with any two caps stay in lock-step after every prefix *)
Theorem C20_structure_independent_of_chi : forall chi1 chi2 late n order,
  same_shape (cs_g (ccs_run chi1 late n order)) (cs_g (ccs_run chi2 late n order)) /\
  cs_map (ccs_run chi1 late n order) = cs_map (ccs_run chi2 late n order).
Proof. exact run_lockstep. Qed.
Print Assumptions C20_structure_independent_of_chi.

(* capped <= less capped, pointwise: same structure and every edge size of the run with the
   smaller cap is at most that of the run with the larger cap (in particular the uncapped
   one), after any traversal prefix, for both compress_late values *)
Theorem C20_capped_le_uncapped_pointwise : forall chi1 chi2 late n order,
  (0 <= chi1 <= chi2)%Z -> (forall e, (0 <= zget e (szd n))%Z) ->
  sz_le (cs_g (ccs_run chi1 late n order)) (cs_g (ccs_run chi2 late n order)).
Proof. exact run_mono. Qed.
Print Assumptions C20_capped_le_uncapped_pointwise.

(* capped_le_uncapped at the level of the tracker: the estimated largest tensor and the
   estimated write of the run with the smaller cap never exceed those of the run with the
   larger cap (in particular the uncapped one), for every network, traversal, compress_late *)
Theorem C20_capped_le_uncapped_max_write : forall chi1 chi2 late n order,
  (0 <= chi1 <= chi2)%Z -> (forall e, (0 <= zget e (szd n))%Z) ->
  (t_max (cs_tr (ccs_run chi1 late n order)) <= t_max (cs_tr (ccs_run chi2 late n order)))%Z /\
  (t_write (cs_tr (ccs_run chi1 late n order)) <= t_write (cs_tr (ccs_run chi2 late n order)))%Z.
Proof. exact run_mono_max_write. Qed.
Print Assumptions C20_capped_le_uncapped_max_write.

(* the tracker's bookkeeping is exact: after every prefix of the traversal total_size is the
   sum of the sizes of all tensors currently alive (the neighbourhood differences taken around
   every compress account for every size that changes) *)
Theorem C20_total_size_is_sum_of_node_sizes : forall chi late n order,
  (forall t, In t (inputs n) -> NoDup t) -> ids_ok chi late n order = true ->
  wf_hg (cs_g (ccs_run chi late n order)) /\
  t_total (cs_tr (ccs_run chi late n order)) = total (cs_g (ccs_run chi late n order)).
Proof. exact run_total. Qed.
Print Assumptions C20_total_size_is_sum_of_node_sizes.

(* ... hence peak_size is monotone in the cap as well *)
Theorem C20_capped_le_uncapped_peak : forall chi1 chi2 late n order,
  (0 <= chi1 <= chi2)%Z -> (forall e, (0 <= zget e (szd n))%Z) ->
  (forall t, In t (inputs n) -> NoDup t) -> ids_ok chi1 late n order = true ->
  (t_peak (cs_tr (ccs_run chi1 late n order)) <= t_peak (cs_tr (ccs_run chi2 late n order)))%Z.
Proof. exact run_mono_peak. Qed.
Print Assumptions C20_capped_le_uncapped_peak.

(* ... hence every tensor (node) is at most as large *)
Theorem C20_node_sizes_monotone : forall g1 g2 i, sz_le g1 g2 ->
  (0 <= hg_node_size g1 i <= hg_node_size g2 i)%Z.
Proof. exact node_size_mono. Qed.
Print Assumptions C20_node_sizes_monotone.

(* the single operation behind it: compress with a smaller cap gives smaller sizes *)
Theorem C20_compress_monotone : forall chi1 chi2 edges g1 g2, (0 <= chi1 <= chi2)%Z -> sz_le g1 g2 ->
  sz_le (hg_compress chi1 edges g1) (hg_compress chi2 edges g2).
Proof. exact compress_mono. Qed.
Print Assumptions C20_compress_monotone.

(* uncapped_flops_eq_exact / uncapped_write_eq_exact_plus_inputs / uncapped_max_eq_largest_tensor:
   for a network without a repeated index inside a tensor (first hypothesis) and without an index
   that lives on a single tensor and is not an output (nodangling), all dimensions >= 1, and a cap
   at least the product of all dimensions (so that no merged bond is ever truncated), for any
   traversal whose steps name two distinct live nodes (ids_ok) and both compress_late values:
     flops = sum of the exact flops of the contractions performed,
     write = total size of the inputs + sum of the exact sizes of the tensors produced,
     max   = max(largest input, largest tensor produced).
   The invariant behind it (Sim): every merged multi-edge stands for a duplicate-free set of
   original indices, disjoint from all others, with the product of their sizes; the indices a
   live node represents are exactly the tree's legs of its subtree. *)
Theorem C20_uncapped_exact_steps : forall n, (forall t, In t (inputs n) -> NoDup t) ->
  forall chi late order, nodangling n ->
  (forall x, (1 <= zget x (szd n))%Z) -> (size_of (szd n) (universe n) <= chi)%Z ->
  ids_ok chi late n order = true ->
  let ts := run_trees chi late (ccs_init n) (leaf_forest n) order in
  let t := cs_tr (ccs_run chi late n order) in
  length ts = length order /\
  t_flops t = sum_flops_of n ts /\
  t_write t = (zsum (input_sizes n) + sum_sizes_of n ts)%Z /\
  t_max t = max_sizes_of n ts (zmax_list (input_sizes n) 0%Z).
Proof. exact uncapped_exact. Qed.
Print Assumptions C20_uncapped_exact_steps.

(* THE PROPERTY IN TERMS OF THE SAME TREE'S EXACT FIGURES (Net.v, C03's model): for a complete
   tree t = Node l r over the network and ANY children-first order of its internal nodes
   (ExecOrderFacts.valid_order: what ContractionTree.traverse(order) produces for dfs, surface
   order or any callable), with the (p, l, r) triples of that order fed to
   compressed_contract_stats, no repeated / dangling index, dimensions >= 1, an output made of
   distinct indices of the network and a cap that never truncates:
     flops == total_flops n [] t,
     write == total input size + total_write n [] t,
     max   == max(largest input, max_size n [] t),
   and every step names two distinct live nodes (ids_ok is DERIVED here, not assumed). *)
Theorem C20_uncapped_eq_exact_same_tree : forall n, (forall t0, In t0 (inputs n) -> NoDup t0) ->
  forall l r, Permutation (leaves (Node l r)) (seq 0 (NN n)) ->
  NoDup (output n) -> incl (output n) (concat (inputs n)) ->
  forall chi late order, valid_order (Node l r) order ->
  nodangling n -> (forall x, (1 <= zget x (szd n))%Z) -> (size_of (szd n) (universe n) <= chi)%Z ->
  let plr := plr_of_list (map snd order) in
  let tr := cs_tr (ccs_run chi late n plr) in
  ids_ok chi late n plr = true /\
  t_flops tr = total_flops n [] (Node l r) /\
  t_write tr = (zsum (input_sizes n) + total_write n [] (Node l r))%Z /\
  t_max tr = Z.max (zmax_list (input_sizes n) 0%Z) (max_size n [] (Node l r)).
Proof. exact uncapped_exact_tree. Qed.
Print Assumptions C20_uncapped_eq_exact_same_tree.

(* the depth-first order (the model's plr_of t) is one such order *)
Theorem C20_uncapped_eq_exact_dfs : forall n, (forall t0, In t0 (inputs n) -> NoDup t0) ->
  forall l r, Permutation (leaves (Node l r)) (seq 0 (NN n)) ->
  NoDup (output n) -> incl (output n) (concat (inputs n)) ->
  forall chi late, nodangling n -> (forall x, (1 <= zget x (szd n))%Z) -> (size_of (szd n) (universe n) <= chi)%Z ->
  let tr := cs_tr (ccs_run chi late n (plr_of (Node l r))) in
  t_flops tr = total_flops n [] (Node l r) /\
  t_write tr = (zsum (input_sizes n) + total_write n [] (Node l r))%Z /\
  t_max tr = Z.max (zmax_list (input_sizes n) 0%Z) (max_size n [] (Node l r)).
Proof.
  intros n HN l r Hc NDo Ho chi late Hd Hp Hchi.
  assert (ND : NoDup (leaves (Node l r))) by (apply (Permutation_NoDup (Permutation_sym Hc)), seq_NoDup).
  pose proof (uncapped_exact_tree n HN l r Hc NDo Ho chi late (traverse_dfs (Node l r)) (traverse_dfs_valid l r ND) Hd Hp Hchi) as H.
  cbn zeta in H. rewrite traverse_dfs_snd, <- plr_of_post_sub in H. apply H.
Qed.
Print Assumptions C20_uncapped_eq_exact_dfs.

(* the two operations that carry the invariant *)
Theorem C20_contract_keeps_simulation : forall n g F rep i j ti tj, Sim n g F rep -> i <> j ->
  In (i, ti) F -> In (j, tj) F ->
  let g' := fst (hg_contract i j g) in
  let k := snd (hg_contract i j g) in
  k = hnext g /\ Sim n g' ((k, Node ti tj) :: del_tree j (del_tree i F)) rep /\
  contract_pair_cost g i j = node_flops n [] (Node ti tj) /\
  hg_node_size g' k = node_size n [] false (Node ti tj).
Proof. exact contract_sim. Qed.
Print Assumptions C20_contract_keeps_simulation.

Theorem C20_compress_keeps_simulation : forall n chi edges g F rep, Sim n g F rep ->
  (forall e, In e edges -> alive g e) ->
  (forall x, (1 <= zget x (szd n))%Z) -> (size_of (szd n) (universe n) <= chi)%Z ->
  Sim n (hg_compress chi edges g) F (rep_after (map snd (incidences g (unique edges))) rep).
Proof. exact compress_sim. Qed.
Print Assumptions C20_compress_keeps_simulation.

(* what one step adds to the tracker: flops += contraction cost + compression cost, write +=
   size of the new tensor, max = max(max, new tensor), peak = max(peak, total after contract) *)
Theorem C20_tracker_step_arithmetic : forall t,
  t_flops (tr_post_step t) = (t_flops t + t_dflops t)%Z /\
  t_write (tr_post_step t) = (t_write t + t_contracted t)%Z /\
  t_max (tr_post_step t) = Z.max (t_max t) (t_contracted t) /\
  t_peak (tr_post_step t) = Z.max (t_peak t) (t_total_post t) /\
  t_total (tr_post_step t) = (t_total t + t_dsize t)%Z.
Proof. exact post_step_fields. Qed.
Print Assumptions C20_tracker_step_arithmetic.

(* compressed_finders_complete: the checkers run (inside Coq) on what every compressed
   pathfinder returns are sound: an accepted SSA path builds a tree that consumes every input
   exactly once, and an accepted order produces every non-leaf child before its parent *)
Theorem C20_ssa_checker_sound : forall N path, ssa_path_complete_b N path = true ->
  exists t, ssa_tree N path = Some t /\ Permutation (leaves t) (seq 0 N) /\ nleaves t = N.
Proof. exact ssa_path_complete_sound. Qed.
Print Assumptions C20_ssa_checker_sound.

Theorem C20_order_checker_sound : forall order, children_first_b order = true ->
  forall pre p l r post, order = pre ++ (p, (l, r)) :: post ->
  forall c, c = l \/ c = r -> length c = 1 \/ In c (map fst pre).
Proof. intros order H. exact (children_first_sound order [] H). Qed.
Print Assumptions C20_order_checker_sound.

(* non-vacuity, and the pinned numbers: 'ab,bc,bd->' style network with a double bond;
   caps 2 and 100 give the same structure, smaller sizes; with the large cap nothing is
   truncated and flops/write/max are the exact figures (+ inputs) *)
Example C20_nonvacuous :
  let n := mkNet [[0; 1; 2]; [1; 2; 3]; [3; 0]] [] [(0, 2%Z); (1, 3%Z); (2, 2%Z); (3, 4%Z)] in
  let t := Node (Node (Leaf 0) (Leaf 1)) (Leaf 2) in
  let order := plr_of t in
  (forall e, (0 <= zget e (szd n))%Z) /\
  children_first_b order = true /\ ssa_path_complete_b 3 [(0, 1); (3, 2)] = true /\
  tr_obs (cs_tr (ccs_run 100 false n order)) = (56%Z, (24%Z, (44%Z, (53%Z, (1%Z, (1%Z, 1%Z)))))) /\
  total_flops n [] t = 56%Z /\ total_write n [] t = 9%Z /\
  tr_obs (cs_tr (ccs_run 2 true n order)) = (130%Z, (24%Z, (44%Z, (53%Z, (1%Z, (1%Z, 1%Z)))))).
Proof.
  cbn zeta. split.
  { intros e. do 4 (destruct e as [|e]; [cbn; lia|]). cbn. lia. }
  vm_compute. repeat split; reflexivity.
Qed.

Example C20_uncapped_nonvacuous :
  let n := mkNet [[0; 1; 2]; [1; 2; 3]; [3; 0]] [] [(0, 2%Z); (1, 3%Z); (2, 2%Z); (3, 4%Z)] in
  let t := Node (Node (Leaf 0) (Leaf 1)) (Leaf 2) in
  (forall t0, In t0 (inputs n) -> NoDup t0) /\ nodangling n /\ (forall x, (1 <= zget x (szd n))%Z) /\
  (size_of (szd n) (universe n) <= 100)%Z /\ ids_ok 100 false n (plr_of t) = true /\
  run_trees 100 false (ccs_init n) (leaf_forest n) (plr_of t) = post_sub t /\
  sum_flops_of n (post_sub t) = total_flops n [] t /\ sum_flops_of n (post_sub t) = 56%Z.
Proof.
  cbn zeta. split.
  { intros t0 [<-|[<-|[<-|[]]]]; repeat constructor; cbn; intuition lia. }
  split.
  { intros m e He. destruct m as [|[|[|m]]]; cbn in He.
    - destruct He as [<-|[<-|[<-|[]]]]; vm_compute; lia.
    - destruct He as [<-|[<-|[<-|[]]]]; vm_compute; lia.
    - destruct He as [<-|[<-|[]]]; vm_compute; lia.
    - destruct m; destruct He. }
  split.
  { intros x. do 4 (destruct x as [|x]; [cbn; lia|]). cbn. lia. }
  vm_compute. repeat split; try reflexivity; discriminate.
Qed.

(* the dangling-index discrepancy in the model: 'ab,bc->c' (a=2,b=3,c=5), unbounded cap *)
Example C20_uncapped_flops_dangling_refuted :
  let n := mkNet [[0; 1]; [1; 2]] [2] [(0, 2%Z); (1, 3%Z); (2, 5%Z)] in
  let t := Node (Leaf 0) (Leaf 1) in
  t_flops (cs_tr (ccs_run 1000000 false n (plr_of t))) = 30%Z /\ total_flops n [] t = 15%Z.
Proof. vm_compute. split; reflexivity. Qed.

(* C20 -- stub, replaced below *)
From Ctg Require Import Compressed.

(* C12 -- the einsum front end accepts what numpy.einsum accepts and means the same. *)
From Coq Require Import ZArith List Bool Lia.
From Ctg Require Import Base Parse ParseFacts.
Import ListNotations.

Theorem C12_eq_spaces_refuted :
  exists eq shapes, agrees_with_numpy eq shapes = Some false /\ ~ In c_space (filter (fun c => negb (Nat.eqb c c_space)) eq)
                    /\ agrees_with_numpy (filter (fun c => negb (Nat.eqb c c_space)) eq) shapes = Some true.
Proof. exact eq_spaces_refuted. Qed.
Print Assumptions C12_eq_spaces_refuted.

(* C12 -- the einsum front end accepts what numpy.einsum accepts and means the same.
   Statements only; every proof is `exact <lemma of Proofs/ParseFacts.v>`.
   Model: Model/Parse.v (code-point level model of cotengra/utils.py's parsers and of the
   front half of cotengra/interface.py, tied to the code by harness/props/c12.py).
   Specification: section NumpySpec of the same file (numpy.einsum's documented parsing
   rules, validated against numpy itself on every run of the check).
   agrees_with_numpy eq shapes =
     None        numpy rejects the call (out of scope),
     Some true   the model's parse equals the specification's, the broadcast dimension
                 LB k renamed to the model's k-th-from-the-right ellipsis symbol,
     Some false  numpy accepts, the model raises or parses differently. *)
From Coq Require Import ZArith List Bool Lia Permutation Sorted.
From Ctg Require Import Base Parse BaseFacts ParseFacts.
From Ctg Require Import Net Einsum.
Import ListNotations.
Open Scope nat_scope.

(* --- canonicalisation is an injective relabelling, applied consistently, and preserves the VALUE --- *)
(* canonicalize_inputs returns map f over the inputs and the output for ONE function f (the
   final ind_map), f is injective on every label it has seen, the k-th label seen receives
   get_symbol k, and when no output is given the computed output is f of the first-seen-once
   labels of the ORIGINAL inputs (so computing the output commutes with the relabelling).
   The three theorems after it lift this to the mathematical einsum (einsum_spec of Einsum.v). *)
Theorem C12_relabel_invariant : forall inputs output shapes sd ni no nsd m,
  canonicalize_inputs inputs output shapes sd = (ni, no, nsd, m) ->
  im_wf m /\
  ni = map (map (im_fun m)) inputs /\
  (forall x, In x (concat inputs) -> In x (map fst m)) /\
  match output with
  | Some o => no = map (im_fun m) o /\ (forall x, In x o -> In x (map fst m))
  | None => no = map (im_fun m) (find_output_from_inputs inputs)
  end /\
  (match sd with Some sdv => forall x, In x (map fst sdv) -> In x (map fst m) | None => True end) /\
  (forall x y, In x (map fst m) -> In y (map fst m) -> im_fun m x = im_fun m y -> x = y).
Proof. exact canonicalize_relabels. Qed.
Print Assumptions C12_relabel_invariant.

(* VALUE invariance (Model/Einsum.v einsum_spec, the mathematical einsum of C01): for ANY injective
   renaming f of the labels of a network (inputs, output, size-dictionary keys), the einsum of the
   renamed network at an assignment e' equals the einsum of the original network at e' o f. *)
Theorem C12_einsum_relabel_invariant : forall f n (arr : nat -> ptensor) e',
  inj_on f (net_labels n) ->
  einsum_spec (relabel_net f n) [] arr e' = einsum_spec n [] arr (fun j => e' (f j)).
Proof. exact einsum_relabel_invariant. Qed.
Print Assumptions C12_einsum_relabel_invariant.

(* what canonicalize_inputs returns IS the renamed network (sizes included: from the given size_dict,
   a Python dict, i.e. distinct keys -- or from the shapes), for the injective f = final ind_map *)
Theorem C12_canonicalize_is_relabelled_network : forall ins out shapes sd ni no nsd m,
  canonicalize_inputs ins out shapes sd = (ni, no, Some nsd, m) ->
  (match sd with Some sdv => NoDup (map fst sdv) | None => True end) ->
  mkNet ni no nsd = relabel_net (im_fun m) (original_net ins out shapes sd) /\
  inj_on (im_fun m) (net_labels (original_net ins out shapes sd)).
Proof. exact canonicalize_is_relabel_net. Qed.
Print Assumptions C12_canonicalize_is_relabelled_network.

(* hence: the value of the canonicalised contraction is the value of the contraction asked for *)
Theorem C12_relabel_value_invariant : forall ins out shapes sd ni no nsd m (arr : nat -> ptensor) e',
  canonicalize_inputs ins out shapes sd = (ni, no, Some nsd, m) ->
  (match sd with Some sdv => NoDup (map fst sdv) | None => True end) ->
  einsum_spec (mkNet ni no nsd) [] arr e' =
  einsum_spec (original_net ins out shapes sd) [] arr (fun j => e' (im_fun m j)).
Proof. exact canonicalize_value_invariant. Qed.
Print Assumptions C12_relabel_value_invariant.

Theorem C12_get_symbol_injective : forall i j, get_symbol i = get_symbol j -> i = j.
Proof. exact get_symbol_inj. Qed.
Print Assumptions C12_get_symbol_injective.

(* the symbols cotengra invents never collide with the syntax characters , . - > or blank *)
Theorem C12_get_symbol_not_reserved : forall i,
  get_symbol i <> c_comma /\ get_symbol i <> c_dot /\ get_symbol i <> c_dash /\ get_symbol i <> c_gt /\ get_symbol i <> c_space.
Proof. exact get_symbol_not_reserved. Qed.
Print Assumptions C12_get_symbol_not_reserved.

(* --- the symbols chosen for ellipsis dimensions ------------------------------------------- *)
(* the `while` loop of parse_equation_ellipses stops within req + |used| iterations and yields
   exactly req pairwise distinct symbols, none of which occurs in any input term *)
Theorem C12_ellipsis_symbols_fresh : forall req used,
  length (fresh_symbols req used) = req /\ NoDup (fresh_symbols req used) /\
  (forall s, In s (fresh_symbols req used) -> ~ In s used /\ exists i, s = get_symbol i).
Proof. exact fresh_symbols_spec. Qed.
Print Assumptions C12_ellipsis_symbols_fresh.

(* --- array_contract's implicit output: documented order ----------------------------------- *)
(* docstring of find_output_from_inputs / canonicalize_inputs: "the set of indices that appear
   only once, in the order they appear in the inputs" *)
Theorem C12_array_contract_implicit_output_is_first_seen : forall inputs,
  find_output_from_inputs inputs =
  filter (fun x => Nat.eqb (count x (concat inputs)) 1) (concat inputs).
Proof. exact find_output_from_inputs_spec. Qed.
Print Assumptions C12_array_contract_implicit_output_is_first_seen.

(* --- ncon --------------------------------------------------------------------------------- *)
(* the output handed to array_contract is exactly the negative labels, each once, strictly
   descending: -1, -2, ...; the inputs are passed through *)
Theorem C12_ncon_output_order : forall indices,
  fst (ncon_parse indices) = indices /\
  NoDup (snd (ncon_parse indices)) /\
  StronglySorted Z.gt (snd (ncon_parse indices)) /\
  (forall x, In x (snd (ncon_parse indices)) <-> (x < 0)%Z /\ In x (concat indices)).
Proof. exact ncon_output_spec. Qed.
Print Assumptions C12_ncon_output_order.

(* with the standard convention (the negative labels are exactly -1..-k) the output is [-1;...;-k] *)
Theorem C12_ncon_standard_output : forall indices k,
  (forall x, (x < 0)%Z /\ In x (concat indices) <-> In x (neg_range k)) ->
  snd (ncon_parse indices) = neg_range k.
Proof. exact ncon_standard_output. Qed.
Print Assumptions C12_ncon_standard_output.

(* --- the single-operand fast paths of _build_expression ------------------------------------ *)
(* for a valid single-operand contraction (output labels distinct and taken from the term):
   identity only when term = output; the transposition is taken only when term has no repeated
   label, perm is a permutation without repeats and axis k of transpose(x, perm) -- which is axis
   perm[k] of x -- carries label output[k]; everything else goes to the backend einsum with the
   equation "term->output"; the paths never raise *)
Theorem C12_single_operand_paths_correct : forall term output,
  NoDup output -> incl output term ->
  match build_expression_path [term] output with
  | PIdentity => term = output
  | PTranspose perm =>
      length term = length output /\ length perm = length output /\ NoDup perm /\ NoDup term /\
      forall k, k < length output -> nth k perm 0 < length term /\ nth (nth k perm 0) term 0 = nth k output 0
  | PEinsum eq => length term <> length output /\ eq = term ++ [c_dash; c_gt] ++ output
  | PRaise => False
  | PTree => False
  end.
Proof. exact single_operand_paths. Qed.
Print Assumptions C12_single_operand_paths_correct.

(* --- where the faithful model does NOT mean what numpy means: findings --------------------- *)
(* 12(a): blanks.  'ab, bc -> ac' is accepted by numpy, the model differs, and removing the
   blanks restores agreement *)
Theorem C12_eq_spaces_refuted :
  exists eq shapes, agrees_with_numpy eq shapes = Some false /\ ~ In c_space (filter (fun c => negb (Nat.eqb c c_space)) eq)
                    /\ agrees_with_numpy (filter (fun c => negb (Nat.eqb c c_space)) eq) shapes = Some true.
Proof. exact eq_spaces_refuted. Qed.
Print Assumptions C12_eq_spaces_refuted.

(* 12(b): interleaved_matches_numpy is false: einsum(x,[5,1],y,[1,2]) -- numpy's result has
   shape (3,4) (labels sorted: 2, 5), the front end builds a network whose output has shape (4,3) *)
Theorem C12_interleaved_matches_numpy_refuted :
  exists ops, agrees_with_numpy_inter ops None = Some false
              /\ np_out_shape (AInter ops None) = Some [3;4]%Z
              /\ front_out_shape (AInter ops None) = Some [4;3]%Z.
Proof. exact interleaved_implicit_order_refuted. Qed.
Print Assumptions C12_interleaved_matches_numpy_refuted.

(* 12(c): '...a,...a->...' on (2,3),(1,3): same parse as numpy, but the size dictionary built from
   the shapes keeps the last size seen, so the network does not fit the operands (numpy: shape (2,)) *)
Theorem C12_ellipsis_size1_broadcast_refuted :
  exists a, (exists eq shapes, a = AStr eq shapes /\ agrees_with_numpy eq shapes = Some true)
            /\ np_out_shape a = Some [2%Z]
            /\ front_consistent a = Some false
            /\ front_out_shape a = Some [1%Z].
Proof. exact ellipsis_size1_broadcast_refuted. Qed.
Print Assumptions C12_ellipsis_size1_broadcast_refuted.

(* new: 'ab->...ab' -- an output ellipsis standing for zero dimensions is accepted by numpy *)
Theorem C12_output_ellipsis_only_refuted :
  exists eq shapes, agrees_with_numpy eq shapes = Some false /\ np_out_shape (AStr eq shapes) = Some [2;3]%Z.
Proof. exact output_ellipsis_only_refuted. Qed.
Print Assumptions C12_output_ellipsis_only_refuted.

(* --- model = NumpySpec, GENERAL (string form) ----------------------------------------------
   For EVERY string eq and EVERY list of shapes: if numpy's rules (np_parse) accept the call with
   parse (nops, nout), then the front end of the code as it stands (blanks removed, output-only
   ellipsis handled: fix flags true) parses it to exactly the same terms and output, the
   specification's broadcast label LB k renamed to the k-th-from-the-right of the model's
   ellipsis symbols E.  Covers any number of operands, any labels, ellipses anywhere with any
   broadcast rank (right alignment), explicit and implicit output, blanks. *)
Theorem C12_ellipsis_expansion_matches_numpy : forall eq shapes nops nout,
  np_parse eq shapes = Some (nops, nout) ->
  let E := model_ellipses_inds (strip_spaces eq) shapes in
  parse_equation_ellipses_v true (strip_spaces eq) shapes = Some (map (map (rho E)) nops, map (rho E) nout).
Proof. exact string_matches_numpy. Qed.
Print Assumptions C12_ellipsis_expansion_matches_numpy.

(* the same in the vocabulary of the check (K3): the verdict computed for a call is `Some true`
   exactly when numpy accepts it, never `Some false` *)
Theorem C12_string_form_agrees_with_numpy : forall fx eq shapes,
  fx_spaces fx = true -> fx_outell fx = true ->
  agrees_args_v fx (AStr eq shapes) = match np_parse eq shapes with Some _ => Some true | None => None end.
Proof. exact string_agrees_with_numpy. Qed.
Print Assumptions C12_string_form_agrees_with_numpy.

(* ... and the renaming is injective on the labels of the call: the ellipsis symbols are pairwise
   distinct and occur in no input term, so "equal up to rho" is "equal up to an injective renaming" *)
Theorem C12_ellipsis_symbols_disjoint : forall eq shapes,
  let E := model_ellipses_inds eq shapes in
  NoDup E /\ forall s, In s E -> ~ In s (concat (split_char c_comma (hd [] (split_arrow eq)))).
Proof. exact model_ellipses_inds_fresh. Qed.
Print Assumptions C12_ellipsis_symbols_disjoint.

Theorem C12_rho_injective : forall used E, NoDup E -> (forall s, In s E -> ~ In s used) ->
  forall l1 l2, label_in used E l1 -> label_in used E l2 -> rho E l1 = rho E l2 -> l1 = l2.
Proof. exact rho_injective. Qed.
Print Assumptions C12_rho_injective.

(* (1) implicit output: for every rendered left-hand side (letters, ellipses, commas),
   find_output_str is numpy's rule -- the letters occurring exactly once, sorted by code point
   (the dots never qualify); parse_equation_ellipses puts the ellipsis symbols in front of it *)
Theorem C12_implicit_output_matches_numpy : forall lhs,
  Forall tok_ok lhs -> Forall (fun t => match t with TArrow => False | _ => True end) lhs ->
  find_output_str (unlex lhs) = once_sorted (letters_of lhs).
Proof. exact find_output_str_unlex. Qed.
Print Assumptions C12_implicit_output_matches_numpy.

(* numpy's lexer is sound for the model: what numpy tokenises is, blanks removed, the rendering
   of the tokens -- this is what lets the theorems above speak about ALL strings *)
Theorem C12_lexer_sound : forall eq ts, np_lex eq = Some ts ->
  strip_spaces eq = unlex ts /\ Forall tok_ok ts.
Proof. exact np_lex_sound_all. Qed.
Print Assumptions C12_lexer_sound.

(* --- model = NumpySpec, GENERAL (interleaved form) ------------------------------------------
   For EVERY interleaved call einsum(op0, sublist0, ..., [sublistout]) that numpy's rules accept
   (integer labels 0..51, Ellipsis, at least one operand), with or without output sublist, the front
   end (with the interleaved fixes: implicit output sorted by label, output Ellipsis rendered without
   lookup) builds an equation string and parses it to numpy's terms and output, letters renamed to the
   model's own symbols (allocated by first appearance) and LB k to the model's ellipsis symbols.
   No input class is excluded any more. *)
Theorem C12_interleaved_matches_numpy : forall ops out nops nout,
  np_parse_inter ops out = Some (nops, nout) ->
  exists eq, convert_from_interleaved_v true true (map snd ops) out = Some eq /\
    let E := model_ellipses_inds eq (map fst ops) in
    let r := rho_args (AInter ops out) E in
    parse_equation_ellipses_v true eq (map fst ops) = Some (map (map r) nops, map r nout).
Proof. exact inter_matches_numpy. Qed.
Print Assumptions C12_interleaved_matches_numpy.

Theorem C12_interleaved_form_agrees_with_numpy : forall fx ops out,
  fx_inter fx = true -> fx_outell fx = true -> fx_interout fx = true ->
  agrees_args_v fx (AInter ops out) = match np_parse_inter ops out with Some _ => Some true | None => None end.
Proof. exact inter_agrees_with_numpy. Qed.
Print Assumptions C12_interleaved_form_agrees_with_numpy.

(* formerly C12_interleaved_output_ellipsis_only_refuted: the class "Ellipsis in the output sublist
   and in no input sublist" now agrees with the specification whenever numpy accepts the call *)
Theorem C12_interleaved_output_only_ellipsis_matches_numpy : forall ops o,
  In IE o -> ~ In IE (concat (map snd ops)) ->
  agrees_args_v all_fixes (AInter ops (Some o)) =
  match np_parse_inter ops (Some o) with Some _ => Some true | None => None end.
Proof. exact interleaved_output_only_ellipsis_agrees. Qed.
Print Assumptions C12_interleaved_output_only_ellipsis_matches_numpy.

(* the renaming of the letters is injective: distinct labels of the call receive distinct symbols *)
Theorem C12_interleaved_symbols_injective : forall inputs, exists c,
  sm_wf (get_symbol_map inputs) c /\
  (forall y, In y (map fst (get_symbol_map inputs)) <-> In y (concat inputs)) /\
  (forall k1 k2, In (IL k1) (concat inputs) -> In (IL k2) (concat inputs) ->
     sigma (get_symbol_map inputs) k1 = sigma (get_symbol_map inputs) k2 -> k1 = k2).
Proof. exact get_symbol_map_injective. Qed.
Print Assumptions C12_interleaved_symbols_injective.

(* --- model = NumpySpec: bounded exhaustive sweeps, kept as INDEPENDENT evidence (vm_compute) ---
   The general theorems above are proved by induction over token lists; the four sweeps below
   evaluate the same comparison (agrees_args_v) on all 18816 calls of a finite family: 1 or 2
   operands, each `pre [...] post` with pre in {"", "b", "B", "bB"}, post in {"", "b", "a"}, the
   ellipsis (if any) covering 0, 1 or 2 dimensions, 8 outputs (implicit, "", "b", "...", "...b",
   "B...", "a...b", "bB"), string and interleaved form, for the model of the originally pinned code
   (no_fixes; the output-only-ellipsis class excluded) and of the code with the fixes (all_fixes). *)
Theorem C12_sweep_string_pinned :
  forallb (fun c => output_only_ellipsis (fst c) (snd c) ||
                    not_refuted (agrees_args_v no_fixes (sweep_args_str (fst c) (snd c)))) sweep_calls = true.
Proof. exact sweep_string_pinned. Qed.
Print Assumptions C12_sweep_string_pinned.

(* the code with the fixes: no exclusion *)
Theorem C12_sweep_string_fixed :
  forallb (fun c => not_refuted (agrees_args_v all_fixes (sweep_args_str (fst c) (snd c)))) sweep_calls = true.
Proof. exact sweep_string_fixed. Qed.
Print Assumptions C12_sweep_string_fixed.

(* interleaved form: true of the pinned code when the output sublist is given ... *)
Theorem C12_sweep_interleaved_explicit_pinned :
  forallb (fun c => match snd c with None => true | Some _ =>
                      output_only_ellipsis (fst c) (snd c) ||
                      not_refuted (agrees_args_v no_fixes (sweep_args_inter (fst c) (snd c))) end) sweep_calls = true.
Proof. exact sweep_inter_explicit_pinned. Qed.
Print Assumptions C12_sweep_interleaved_explicit_pinned.

(* ... and of the code with the proposed fix also without it (implicit output sorted by label) *)
Theorem C12_sweep_interleaved_fixed :
  forallb (fun c => not_refuted (agrees_args_v all_fixes (sweep_args_inter (fst c) (snd c)))) sweep_calls = true.
Proof. exact sweep_inter_fixed. Qed.
Print Assumptions C12_sweep_interleaved_fixed.

(* the sweeps are not vacuous: every call of the family that numpy accepts is agreed on *)
Example C12_sweep_nonvacuous :
  length sweep_calls = 8 * (48 + 48 * 48) /\
  length (filter (fun c => is_agree (agrees_args_v all_fixes (sweep_args_str (fst c) (snd c)))) sweep_calls) =
  length (filter (fun c => match np_parse_args (sweep_args_str (fst c) (snd c)) with Some _ => true | None => false end) sweep_calls).
Proof. exact sweep_sizes. Qed.

(* einsum(x, [0,1], [Ellipsis,1,0]): refuted before the interleaved-output-ellipsis-only repair, fine after *)
Example C12_interleaved_output_ellipsis_only_witness :
  let a := AInter [([2;3]%Z, [IL 0; IL 1])] (Some [IE; IL 1; IL 0]) in
  agrees_args_v (mkFx true true true false) a = Some false /\
  agrees_args_v all_fixes a = Some true /\
  np_out_shape a = Some [3;2]%Z /\ front_out_shape_v all_fixes a = Some [3;2]%Z.
Proof. exact interleaved_output_ellipsis_only_witness. Qed.

(* the refutation witnesses are repaired by the proposed fixes *)
Example C12_fixes_repair_witnesses :
  agrees_args_v all_fixes (AStr w_spaces [[2;3];[3;4]]%Z) = Some true /\
  agrees_args_v all_fixes (AInter [([4;2]%Z, [IL 5; IL 1]); ([2;3]%Z, [IL 1; IL 2])] None) = Some true /\
  front_out_shape_v all_fixes (AInter [([4;2]%Z, [IL 5; IL 1]); ([2;3]%Z, [IL 1; IL 2])] None) = Some [3;4]%Z /\
  agrees_args_v all_fixes (AStr [97;98;45;62;46;46;46;97;98] [[2;3]]%Z) = Some true.
Proof. exact fixes_repair_witnesses. Qed.

(* --- non-vacuity ---------------------------------------------------------------------------- *)
(* einsum('a...b,b...', x(2,3,4), y(4,3)): ellipsis in the middle / at the end, implicit output;
   the model agrees with the specification and the network fits the operands *)
Example C12_nonvacuous_ellipsis :
  let eq := [97;46;46;46;98;44;98;46;46;46] in
  let shapes := [[2;3;4];[4;3]]%Z in
  parse_equation_ellipses eq shapes = Some ([[97;99;98];[98;99]], [99;97]) /\
  np_parse eq shapes = Some ([[LN 97; LB 0; LN 98]; [LN 98; LB 0]], [LB 0; LN 97]) /\
  agrees_with_numpy eq shapes = Some true /\ front_consistent (AStr eq shapes) = Some true.
Proof. vm_compute. auto. Qed.

(* array_contract with labels 7,3,9 / 9,5 and no output: canonicalised to ab c / c d -> a b d *)
Example C12_nonvacuous_canonicalize :
  let '(ni, no, nsd, m) := canonicalize_inputs [[7;3;9];[9;5]] None (Some [[2;3;4];[4;5]]%Z) None in
  ni = [[97;98;99];[99;100]] /\ no = [97;98;100] /\
  nsd = Some [(97,2%Z);(98,3%Z);(99,4%Z);(100,5%Z)] /\ map fst m = [7;3;9;5].
Proof. vm_compute. auto. Qed.

Example C12_nonvacuous_single_operand :
  build_expression_path [[97;98;99]] [99;97;98] = PTranspose [2;0;1] /\
  build_expression_path [[97;97;98]] [98;97] = PEinsum [97;97;98;45;62;98;97] /\
  build_expression_path [[97;98]] [97;98] = PIdentity /\
  NoDup [99;97;98] /\ incl [99;97;98] [97;98;99].
Proof.
  repeat split; try (vm_compute; reflexivity).
  - repeat constructor; cbn; intuition lia.
  - intros x Hx; cbn in *; intuition.
Qed.

Example C12_nonvacuous_ncon :
  ncon_parse [[-1;1;2];[-3;1;-2;2]]%Z = ([[-1;1;2];[-3;1;-2;2]], [-1;-2;-3])%Z /\
  neg_range 3 = [-1;-2;-3]%Z.
Proof. vm_compute. auto. Qed.
